// Package execcheck is the property shared by C01, C03, C04 and C05: a
// generated WGSL compute program, executed by the reference evaluator, must
// give the same buffers when the backend's output is executed by the
// independent interpreter of the target language.
package execcheck

import (
	"encoding/json"
	"fmt"
	"sort"
	"strings"
	"testing"

	"pgregory.net/rapid"

	"verif/internal/ev"
	"verif/internal/wgen"
	"verif/internal/wref"
	"verif/internal/xrun"
)

// Config of one backend's check.
type Config struct {
	Check    string                                // sub-check name, e.g. "spirv-exec"
	Prefix   string                                // tag prefix of backend-specific findings, e.g. "spv."
	Run      func(*xrun.Case) xrun.Outcome         // compile + execute
	DrawOpts func(*rapid.T) map[string]string      // option sets that do not change meaning
	Features func(*wgen.Features)                  // optional feature tweaks
	Discards func(e *wref.Events, off func(string) bool) string // executions that hit a known finding's root cause
	// OutOfDomain lets a backend discard executions on which the target language leaves the result
	// open although WGSL defines it (C05: integer division by zero, …).
	OutOfDomain func(e *wref.Events) string
	// PreOpts, when set, replaces DrawOpts: options are drawn before the reference
	// run and may configure it (bounds-check policy semantics, C15).
	PreOpts func(*rapid.T) (map[string]string, func(*wref.Config))
	// NonTrivial overrides the C01 non-triviality rule.
	NonTrivial func(*wref.Result) bool
	// Retry lets a check accept an alternative reference semantics (C15 "restrict": any in-bounds
	// element is acceptable; negative indices may clamp to either end): it returns further
	// reference configurations to try when the first comparison fails.
	Retry []func(*wref.Config)
	gcLast *wgen.ExecCase
}

// Off returns the exclusion predicate: a construct is off when an open
// finding lists its tag either bare or with the backend prefix.
func (c *Config) Off(tag string) bool {
	return ev.Excluded(tag) || (c.Prefix != "" && ev.Excluded(c.Prefix+tag))
}

func (c *Config) offQuiet(tag string) bool {
	return ev.ExcludedQuiet(tag) || (c.Prefix != "" && ev.ExcludedQuiet(c.Prefix+tag))
}

// CommonDiscards maps reference-run events to the generic finding tags.
func CommonDiscards(e *wref.Events, off func(string) bool) string {
	switch {
	case (e.F2IRange > 0 || e.F2INaN > 0) && off("f2i.out-of-range"):
		return "known:f2i-out-of-range"
	case e.ClampInv > 0 && off("clamp.inverted"):
		return "known:int-clamp-inverted"
	case e.ShiftWide > 0 && off("shift.wide"):
		return "known:shift-amount>=32"
	case e.BitsClamp > 0 && off("bits.out-of-range"):
		return "known:bits-out-of-range"
	case e.RoundTie > 0 && off("round.tie"):
		return "known:round-tie"
	case e.RemNeg > 0 && off("rem.negative"):
		return "known:int-rem-negative-operand"
	case e.DivZero > 0 && off("div.zero"):
		return "known:int-div-by-zero"
	case e.DivOverflow > 0 && off("div.overflow"):
		return "known:int-div-overflow"
	case e.NegOverflow > 0 && off("neg.overflow"):
		return "known:int-neg-overflow"
	case e.DotIntOverflow > 0 && off("dot.int.overflow"):
		return "known:dot-int-overflow" // finding C04-4 (tag carries the msl. prefix)
	}
	return ""
}

// Judge re-judges a serialised case.
func (c *Config) Judge(raw json.RawMessage) (bool, string) {
	var xc xrun.Case
	if err := json.Unmarshal(raw, &xc); err != nil {
		return false, "bad case: " + err.Error()
	}
	o := c.Run(&xc)
	if o.Rejected != "" {
		return true, "rejected: " + o.Rejected
	}
	if o.Unsupported != "" {
		return true, "unsupported: " + o.Unsupported
	}
	if bad, msg := o.Failed(); bad {
		return false, msg
	}
	return xc.Compare(o.Buffers)
}

// Prop runs the property under rapid.
func (c *Config) Prop(t *testing.T) {
	rapid.Check(t, func(t *rapid.T) {
		f := wgen.DefaultFeatures()
		f.ConstOK = wref.ConstOK
		f.Off = c.Off
		if c.Features != nil {
			c.Features(&f)
		}
		gc := wgen.GenExec(t, f)
		disc := func(e *wref.Events) string {
			if d := CommonDiscards(e, c.offQuiet); d != "" {
				return d
			}
			if c.Discards != nil {
				if d := c.Discards(e, c.offQuiet); d != "" {
					return d
				}
			}
			if c.OutOfDomain != nil {
				return c.OutOfDomain(e)
			}
			return ""
		}
		var preOpts map[string]string
		var cfgMod func(*wref.Config)
		if c.PreOpts != nil {
			preOpts, cfgMod = c.PreOpts(t)
		}
		xc, res, discard, err := xrun.Build(gc, cfgMod, disc)
		if err != nil {
			ev.Inconclusive("reference evaluator failed on a generated program: " + err.Error())
			t.Fatalf("harness: %v\n%s", err, gc.Src)
		}
		if discard != "" {
			ev.Class("discard:" + discard)
			ev.Eval(ev.HashS(gc.Src), false)
			return
		}
		if preOpts != nil {
			xc.Opts = preOpts
		} else {
			xc.Opts = c.DrawOpts(t)
		}
		o := c.Run(xc)
		raw, _ := json.Marshal(xc.Opts)
		nt := xrun.NonTrivial(res)
		if c.NonTrivial != nil {
			nt = c.NonTrivial(res)
		}
		nt = nt && o.Rejected == "" && o.Unsupported == ""
		ev.Eval(ev.HashS(xc.WGSL, fmt.Sprint(xc.Buffers), string(raw)), nt)
		for _, k := range gc.Classes {
			ev.Class("gen:" + k)
		}
		var ks []string
		for k, v := range xc.Opts {
			ks = append(ks, "opt:"+k+"="+v)
		}
		sort.Strings(ks)
		for _, k := range ks {
			ev.Class(k)
		}
		if o.Rejected != "" {
			ev.Class("rejected-by-naga")
			if ev.WantSample("rejected") {
				ev.Sample("rejected", map[string]string{"why": o.Rejected, "wgsl": xc.WGSL})
			}
			return
		}
		if o.Unsupported != "" {
			ev.Class("unsupported")
			ev.Class("unsupported:" + short(o.Unsupported))
			if ev.WantSample("unsupported") {
				ev.Sample("unsupported", map[string]string{"why": o.Unsupported, "wgsl": xc.WGSL})
			}
			return
		}
		if nt && ev.WantSample("exec") {
			ev.Sample("exec", xc)
		}
		if bad, msg := o.Failed(); bad {
			if _, known := ev.Attributed(msg, xc.WGSL); known {
				return
			}
			ev.Fail(c.Check, xc, msg)
			t.Fatalf("%s\n%s\n---- emitted ----\n%s", msg, xc.WGSL, clip(o.Text))
		}
		if ok, msg := xc.Compare(o.Buffers); !ok {
			for _, alt := range c.Retry {
				alt := alt
				xa, _, d, e := xrun.Build(gc, func(w *wref.Config) {
					if cfgMod != nil {
						cfgMod(w)
					}
					alt(w)
				}, disc)
				if e == nil && d == "" {
					if ok2, _ := xa.Compare(o.Buffers); ok2 {
						ev.Class("accepted-alternative-semantics")
						return
					}
				}
			}
			ev.Fail(c.Check, xc, msg)
			t.Fatalf("%s\n%s\n---- emitted ----\n%s", msg, xc.WGSL, clip(o.Text))
		}
	})
}

func short(s string) string {
	s = strings.TrimPrefix(s, "unsupported:")
	s = strings.TrimSpace(s)
	if i := strings.IndexAny(s, "\n"); i > 0 {
		s = s[:i]
	}
	// drop positions / numbers so that similar reasons group
	var b strings.Builder
	for _, r := range s {
		if r >= '0' && r <= '9' {
			continue
		}
		b.WriteRune(r)
	}
	s = b.String()
	if len(s) > 70 {
		s = s[:70]
	}
	return s
}

func clip(s string) string {
	if len(s) > 6000 {
		return s[:6000] + "\n…"
	}
	return s
}
