package irx

import (
	"errors"
	"fmt"
	"sort"

	"github.com/gogpu/naga/ir"
)

// The IR interpreter (engine E5, DESIGN.md).
//
// Model
//   - A compute entry point is executed for every invocation of the dispatch.
//     Workgroups run one after the other; the invocations of a workgroup run
//     one after the other (0,1,2… or reversed with ReverseOrder) up to their
//     next barrier, which is a rendezvous.  Invocations waiting at different
//     barrier statements, or terminating while others wait, trap.
//   - Storage / uniform globals live in the caller's byte slices, addressed
//     with StructMember.Offset, ArrayType.Stride and the WGSL column stride of
//     matrices; composite stores go member by member, padding is never written.
//     Private, function and workgroup variables are typed cells, zero
//     initialised (WGSL).
//   - Expressions covered by an Emit statement are evaluated AT that statement
//     and cached in the call frame.  Literals, constants, overrides, zero values,
//     globals, locals and arguments are evaluated on demand.  CallResult /
//     AtomicResult / WorkGroupUniformLoadResult are written by their statements.
//     Using an expression that has no cached value traps ("use-before-emit").
//     The values cached by a loop's body are dropped at the start of every
//     iteration, so a stale value of the previous iteration is never read.
//   - DXIL-internal kinds: ExprAlias takes the cached value of its source (no
//     value: trap "alias-before-def").  ExprPhi takes the incoming whose
//     predecessor key matches the arm of the If / the case of the Switch that
//     was executed last and fell through to the merge point (loop phis: initial
//     entry vs back edge).
//   - Arithmetic follows WGSL run-time semantics: x/0 = x, x%0 = 0,
//     INT_MIN/-1 = INT_MIN, shift amounts modulo 32, wrapping integer
//     arithmetic, float -> int conversions saturate; floats are computed in
//     float64 and rounded once to binary32.
//   - Out-of-range indices read zero / drop the store and are recorded in
//     Poison (WGSL leaves the result open); a NaN converted to an integer gives
//     0 and is recorded.
//   - Not modelled (Trap "unsupported:…"): images, samplers, derivatives, ray
//     queries, subgroup operations, f16 / 64-bit scalars, non-compute stages.

// ErrStepLimit is returned when the step budget is exhausted.
var ErrStepLimit = errors.New("irx: step limit")

// RunConfig configures one dispatch.
type RunConfig struct {
	Entry         string               // entry point name (compute)
	Buffers       map[[2]uint32][]byte // (group, binding) -> bytes; stores mutate them in place
	NumWorkgroups [3]uint32
	StepLimit     int64 // executed statements + evaluated expressions over all invocations (<= 0: 1<<26)
	ReverseOrder  bool  // run the invocations of a workgroup in reverse order
	// Lazy: an expression that no Emit of its function covers (and no statement
	// produces) is evaluated on demand at each use instead of trapping with
	// "use-before-emit".  This is the reading of backends that materialise
	// expressions at their first use; it is only meant to keep executing modules
	// with a KNOWN emit defect (see C13-1).
	Lazy bool
}

// RunResult reports what happened.
type RunResult struct {
	Steps  int64
	Trap   string   // non-empty: execution stopped; "unsupported:" prefix = not modelled
	Poison []string // values WGSL leaves open that influenced the run (deduplicated, sorted)
}

type machine struct {
	m      *ir.Module
	cfg    RunConfig
	ep     *ir.EntryPoint
	steps  int64
	limit  int64
	poison map[string]bool

	wgCells  []*Val // per global variable: workgroup cells of the current workgroup
	usesSync bool

	consts    []Val
	constDone []uint8 // 0 no, 1 in progress, 2 done
	gexprs    []Val
	gexprDone []uint8
	loopEmits map[*ir.Statement][]ir.ExpressionHandle
	unemitted map[*ir.Function][]bool
	bufOf     []*[]byte // per global variable: bound buffer

	aborted bool
}

// Run executes a compute entry point of m.
func Run(m *ir.Module, cfg RunConfig) (res *RunResult, err error) {
	mc := &machine{m: m, cfg: cfg, poison: map[string]bool{}, loopEmits: map[*ir.Statement][]ir.ExpressionHandle{}, unemitted: map[*ir.Function][]bool{}}
	mc.limit = cfg.StepLimit
	if mc.limit <= 0 {
		mc.limit = 1 << 26
	}
	res = &RunResult{}
	finish := func() {
		res.Steps = mc.steps
		for k := range mc.poison {
			res.Poison = append(res.Poison, k)
		}
		sort.Strings(res.Poison)
	}
	defer func() {
		if r := recover(); r != nil {
			switch p := r.(type) {
			case trapPanic:
				res.Trap = p.msg
				finish()
			case stepPanic:
				finish()
				err = ErrStepLimit
			default:
				panic(r)
			}
		}
	}()
	for i := range m.EntryPoints {
		if m.EntryPoints[i].Name == cfg.Entry {
			mc.ep = &m.EntryPoints[i]
		}
	}
	if mc.ep == nil {
		return nil, fmt.Errorf("irx: no entry point %q", cfg.Entry)
	}
	if mc.ep.Stage != ir.StageCompute {
		trapf("unsupported: stage %d", mc.ep.Stage)
	}
	wg := mc.ep.Workgroup
	if wg[0] == 0 || wg[1] == 0 || wg[2] == 0 || uint64(wg[0])*uint64(wg[1])*uint64(wg[2]) > 1024 {
		trapf("malformed: workgroup size %v", wg)
	}
	mc.consts = make([]Val, len(m.Constants))
	mc.constDone = make([]uint8, len(m.Constants))
	mc.gexprs = make([]Val, len(m.GlobalExpressions))
	mc.gexprDone = make([]uint8, len(m.GlobalExpressions))
	mc.bufOf = make([]*[]byte, len(m.GlobalVariables))
	for gi := range m.GlobalVariables {
		g := &m.GlobalVariables[gi]
		if g.Binding == nil {
			continue
		}
		key := [2]uint32{g.Binding.Group, g.Binding.Binding}
		if _, ok := cfg.Buffers[key]; ok {
			b := cfg.Buffers[key]
			mc.bufOf[gi] = &b
		}
	}
	mc.usesSync = mc.functionSyncs(&mc.ep.Function, map[ir.FunctionHandle]bool{}, 0)

	n := int(wg[0] * wg[1] * wg[2])
	for gz := uint32(0); gz < cfg.NumWorkgroups[2]; gz++ {
		for gy := uint32(0); gy < cfg.NumWorkgroups[1]; gy++ {
			for gx := uint32(0); gx < cfg.NumWorkgroups[0]; gx++ {
				mc.runWorkgroup([3]uint32{gx, gy, gz}, n)
			}
		}
	}
	finish()
	return res, nil
}

// functionSyncs reports whether f (or a callee) contains a barrier-like statement.
func (mc *machine) functionSyncs(f *ir.Function, seen map[ir.FunctionHandle]bool, depth int) bool {
	var walk func(b ir.Block, d int) bool
	walk = func(b ir.Block, d int) bool {
		if d > 2000 {
			return true
		}
		for _, s := range b {
			switch k := s.Kind.(type) {
			case ir.StmtBarrier, ir.StmtWorkGroupUniformLoad:
				return true
			case ir.StmtCall:
				if int(k.Function) < len(mc.m.Functions) && !seen[k.Function] && depth < 64 {
					seen[k.Function] = true
					if mc.functionSyncs(&mc.m.Functions[k.Function], seen, depth+1) {
						return true
					}
				}
			}
			for _, sb := range SubBlocks(s.Kind) {
				if walk(sb, d+1) {
					return true
				}
			}
		}
		return false
	}
	return walk(ir.Block(f.Body), 0)
}

// ---- invocations -------------------------------------------------------------------------

type yieldKind int

const (
	yFinished yieldKind = iota
	yBarrier
	yTrap
	yStep
)

type yieldMsg struct {
	kind yieldKind
	at   *ir.Statement // barrier statement
	trap string
}

type invocation struct {
	mc      *machine
	wgID    [3]uint32
	localID [3]uint32
	index   uint32
	private []*Val // per global variable
	depth   int

	resume chan bool // true: continue, false: abort
	yield  chan yieldMsg
	done   bool
}

func (mc *machine) runWorkgroup(wgID [3]uint32, n int) {
	m := mc.m
	mc.wgCells = make([]*Val, len(m.GlobalVariables))
	for gi := range m.GlobalVariables {
		if m.GlobalVariables[gi].Space == ir.SpaceWorkGroup {
			v := mc.zero(mc.inner(m.GlobalVariables[gi].Type), 0)
			mc.wgCells[gi] = &v
		}
	}
	wg := mc.ep.Workgroup
	invs := make([]*invocation, n)
	for i := 0; i < n; i++ {
		u := uint32(i)
		inv := &invocation{mc: mc, wgID: wgID, index: u,
			localID: [3]uint32{u % wg[0], (u / wg[0]) % wg[1], u / (wg[0] * wg[1])}}
		invs[i] = inv
	}
	order := make([]*invocation, n)
	for i := range invs {
		if mc.cfg.ReverseOrder {
			order[i] = invs[n-1-i]
		} else {
			order[i] = invs[i]
		}
	}
	if !mc.usesSync {
		for _, inv := range order {
			inv.runEntry()
		}
		return
	}
	// coroutine scheduling: exactly one goroutine runs at any time
	for _, inv := range order {
		inv.resume = make(chan bool)
		inv.yield = make(chan yieldMsg)
		go inv.coroutine()
	}
	abortAll := func() {
		for _, inv := range order {
			if !inv.done {
				inv.resume <- false
				<-inv.yield
				inv.done = true
			}
		}
	}
	for {
		var waiting []*invocation
		var at *ir.Statement
		finished := 0
		for _, inv := range order {
			if inv.done {
				finished++
				continue
			}
			inv.resume <- true
			msg := <-inv.yield
			switch msg.kind {
			case yFinished:
				inv.done = true
				finished++
			case yTrap:
				inv.done = true
				abortAll()
				panic(trapPanic{msg.trap})
			case yStep:
				inv.done = true
				abortAll()
				panic(stepPanic{})
			case yBarrier:
				if at != nil && at != msg.at {
					abortAll()
					panic(trapPanic{"non-uniform barrier: invocations wait at different barriers"})
				}
				at = msg.at
				waiting = append(waiting, inv)
			}
		}
		if len(waiting) == 0 {
			return
		}
		if finished > 0 {
			abortAll()
			panic(trapPanic{"non-uniform barrier: an invocation terminated while others wait at a barrier"})
		}
	}
}

func (inv *invocation) coroutine() {
	if !<-inv.resume {
		inv.yield <- yieldMsg{kind: yFinished}
		return
	}
	defer func() {
		if r := recover(); r != nil {
			switch p := r.(type) {
			case trapPanic:
				inv.yield <- yieldMsg{kind: yTrap, trap: p.msg}
			case stepPanic:
				inv.yield <- yieldMsg{kind: yStep}
			case abortPanic:
				inv.yield <- yieldMsg{kind: yFinished}
			default:
				inv.yield <- yieldMsg{kind: yTrap, trap: fmt.Sprintf("interpreter panic: %v", r)}
			}
			return
		}
		inv.yield <- yieldMsg{kind: yFinished}
	}()
	inv.runEntry()
}

// barrier suspends the invocation until all invocations of the workgroup arrived.
func (inv *invocation) barrier(at *ir.Statement) {
	if inv.resume == nil {
		trapf("internal: barrier in a dispatch analysed as barrier-free")
	}
	inv.yield <- yieldMsg{kind: yBarrier, at: at}
	if !<-inv.resume {
		panic(abortPanic{})
	}
}

func (mc *machine) step() {
	mc.steps++
	if mc.steps > mc.limit {
		panic(stepPanic{})
	}
}

func (mc *machine) poisoned(what string) { mc.poison[what] = true }

// runEntry sets up private memory and the entry point arguments and runs the body.
func (inv *invocation) runEntry() {
	mc := inv.mc
	m := mc.m
	inv.private = make([]*Val, len(m.GlobalVariables))
	for gi := range m.GlobalVariables {
		g := &m.GlobalVariables[gi]
		if g.Space != ir.SpacePrivate {
			continue
		}
		v := mc.zero(mc.inner(g.Type), 0)
		switch {
		case g.InitExpr != nil:
			v = mc.globalExpr(*g.InitExpr)
		case g.Init != nil:
			v = mc.constant(*g.Init)
		}
		inv.private[gi] = &v
	}
	f := &mc.ep.Function
	args := make([]Val, len(f.Arguments))
	for i, a := range f.Arguments {
		args[i] = inv.entryArg(a.Type, a.Binding)
	}
	inv.call(f, args)
}

func (inv *invocation) builtin(b ir.BuiltinValue) Val {
	mc := inv.mc
	wg := mc.ep.Workgroup
	vec3 := func(a [3]uint32) Val {
		return Val{K: vVector, S: ir.ScalarUint, E: []Val{u32V(a[0]), u32V(a[1]), u32V(a[2])}}
	}
	switch b {
	case ir.BuiltinLocalInvocationID:
		return vec3(inv.localID)
	case ir.BuiltinLocalInvocationIndex:
		return u32V(inv.index)
	case ir.BuiltinWorkGroupID:
		return vec3(inv.wgID)
	case ir.BuiltinNumWorkGroups:
		return vec3(mc.cfg.NumWorkgroups)
	case ir.BuiltinGlobalInvocationID:
		return vec3([3]uint32{inv.wgID[0]*wg[0] + inv.localID[0], inv.wgID[1]*wg[1] + inv.localID[1], inv.wgID[2]*wg[2] + inv.localID[2]})
	}
	trapf("unsupported: builtin %d as a compute input", b)
	return Val{}
}

func (inv *invocation) entryArg(th ir.TypeHandle, bp *ir.Binding) Val {
	mc := inv.mc
	if bp != nil && *bp != nil {
		bb, ok := (*bp).(ir.BuiltinBinding)
		if !ok {
			trapf("unsupported: compute entry point input with a location binding")
		}
		return inv.builtin(bb.Builtin)
	}
	st, ok := mc.inner(th).(ir.StructType)
	if !ok {
		trapf("malformed: entry point argument without binding")
	}
	v := Val{K: vStruct, E: make([]Val, len(st.Members))}
	for i, mem := range st.Members {
		v.E[i] = inv.entryArg(mem.Type, mem.Binding)
	}
	return v
}

// BufferSize is the number of bytes a buffer bound to global variable g must
// have; a trailing runtime-sized array is given rtElems elements.
func BufferSize(m *ir.Module, g ir.GlobalVariableHandle, rtElems int) (size int, err error) {
	defer func() {
		if r := recover(); r != nil {
			if p, ok := r.(trapPanic); ok {
				err = errors.New(p.msg)
				return
			}
			panic(r)
		}
	}()
	if int(g) >= len(m.GlobalVariables) {
		return 0, fmt.Errorf("global variable %d out of range", g)
	}
	mc := &machine{m: m}
	in := mc.inner(m.GlobalVariables[g].Type)
	switch t := in.(type) {
	case ir.ArrayType:
		if t.Size.Constant == nil {
			return rtElems * int(t.Stride), nil
		}
	case ir.StructType:
		if n := len(t.Members); n > 0 {
			if at, ok := mc.inner(t.Members[n-1].Type).(ir.ArrayType); ok && at.Size.Constant == nil {
				return int(t.Members[n-1].Offset) + rtElems*int(at.Stride), nil
			}
		}
	}
	return mc.sizeOf(in), nil
}
