package irx

import (
	"math"
	"math/bits"

	"github.com/gogpu/naga/ir"

	"verif/internal/wref"
)

func comp(v Val, i int) Val {
	if v.K == vVector {
		if i >= len(v.E) {
			trapf("ill-typed: component %d of a vec%d", i, len(v.E))
		}
		return v.E[i]
	}
	return v
}

// mapN applies a scalar function component-wise over the arguments (scalars broadcast).
func mapN(args []Val, f func(c []Val) Val) Val {
	n := 0
	for _, a := range args {
		switch a.K {
		case vVector:
			if n != 0 && n != len(a.E) {
				trapf("ill-typed: builtin arguments of different vector sizes")
			}
			n = len(a.E)
		case vScalar:
		default:
			trapf("ill-typed: builtin argument %s", a)
		}
	}
	if n == 0 {
		return f(args)
	}
	out := Val{K: vVector, E: make([]Val, n)}
	for i := 0; i < n; i++ {
		cs := make([]Val, len(args))
		for j := range args {
			cs[j] = comp(args[j], i)
		}
		out.E[i] = f(cs)
	}
	out.S = out.E[0].S
	return out
}

func needArgs(fun ir.MathFunction, args []Val, n int) {
	if len(args) != n {
		trapf("malformed: math function %d with %d arguments, want %d", fun, len(args), n)
	}
}

func isFloat(v Val) bool {
	return (v.K == vScalar || v.K == vVector || v.K == vMatrix) && v.S == ir.ScalarFloat
}

func det(a [][]float64) float64 {
	n := len(a)
	switch n {
	case 1:
		return a[0][0]
	case 2:
		return a[0][0]*a[1][1] - a[0][1]*a[1][0]
	}
	s := 0.0
	for c := 0; c < n; c++ {
		sub := make([][]float64, 0, n-1)
		for r := 1; r < n; r++ {
			row := []float64{}
			for cc := 0; cc < n; cc++ {
				if cc != c {
					row = append(row, a[r][cc])
				}
			}
			sub = append(sub, row)
		}
		t := a[0][c] * det(sub)
		if c%2 == 1 {
			t = -t
		}
		s += t
	}
	return s
}

func (mc *machine) math(fun ir.MathFunction, args []Val) Val {
	a0 := args[0]
	switch fun {
	case ir.MathDot:
		needArgs(fun, args, 2)
		if a0.K != vVector || args[1].K != vVector || len(a0.E) != len(args[1].E) {
			trapf("ill-typed: dot(%s, %s)", a0, args[1])
		}
		if a0.S == ir.ScalarFloat {
			return sumProducts(a0.E, args[1].E)
		}
		var acc uint32
		for i := range a0.E {
			acc += a0.E[i].B * args[1].E[i].B
		}
		return scalarV(a0.S, acc)
	case ir.MathDot4I8Packed:
		needArgs(fun, args, 2)
		var s int32
		for i := 0; i < 4; i++ {
			s += int32(int8(a0.B>>(8*i))) * int32(int8(args[1].B>>(8*i)))
		}
		return i32V(s)
	case ir.MathDot4U8Packed:
		needArgs(fun, args, 2)
		var s uint32
		for i := 0; i < 4; i++ {
			s += ((a0.B >> (8 * i)) & 0xff) * ((args[1].B >> (8 * i)) & 0xff)
		}
		return u32V(s)
	case ir.MathCross:
		needArgs(fun, args, 2)
		a, b := a0.E, args[1].E
		if len(a) != 3 || len(b) != 3 {
			trapf("ill-typed: cross of %s and %s", a0, args[1])
		}
		c := func(i, j int) Val {
			neg := scalarV(ir.ScalarFloat, b[i].B^0x80000000)
			return sumProducts([]Val{a[i], a[j]}, []Val{b[j], neg})
		}
		return Val{K: vVector, S: ir.ScalarFloat, E: []Val{c(1, 2), c(2, 0), c(0, 1)}}
	case ir.MathLength:
		needArgs(fun, args, 1)
		if a0.K == vScalar {
			return scalarV(ir.ScalarFloat, a0.B&^0x80000000)
		}
		s := 0.0
		for _, e := range a0.E {
			s += e.f64() * e.f64()
		}
		return r32(math.Sqrt(s))
	case ir.MathDistance:
		needArgs(fun, args, 2)
		if a0.K == vScalar {
			return r32(math.Abs(a0.f64() - args[1].f64()))
		}
		s := 0.0
		for i := range a0.E {
			d := a0.E[i].f64() - comp(args[1], i).f64()
			s += d * d
		}
		return r32(math.Sqrt(s))
	case ir.MathNormalize:
		needArgs(fun, args, 1)
		s := 0.0
		for _, e := range a0.E {
			s += e.f64() * e.f64()
		}
		l := math.Sqrt(s)
		out := Val{K: vVector, S: ir.ScalarFloat, E: make([]Val, len(a0.E))}
		for i, e := range a0.E {
			out.E[i] = r32(e.f64() / l)
		}
		return out
	case ir.MathFaceForward:
		needArgs(fun, args, 3)
		d := sumProducts(args[1].E, args[2].E)
		if d.f32() < 0 {
			return a0
		}
		return unary(ir.UnaryNegate, a0)
	case ir.MathReflect:
		needArgs(fun, args, 2)
		d := sumProducts(args[1].E, a0.E).f64()
		out := Val{K: vVector, S: ir.ScalarFloat, E: make([]Val, len(a0.E))}
		for i := range a0.E {
			out.E[i] = r32(a0.E[i].f64() - 2*d*args[1].E[i].f64())
		}
		return out
	case ir.MathRefract:
		needArgs(fun, args, 3)
		eta := args[2].f64()
		d := sumProducts(args[1].E, a0.E).f64()
		k := 1 - eta*eta*(1-d*d)
		out := Val{K: vVector, S: ir.ScalarFloat, E: make([]Val, len(a0.E))}
		for i := range a0.E {
			if k < 0 {
				out.E[i] = f32V(0)
			} else {
				out.E[i] = r32(eta*a0.E[i].f64() - (eta*d+math.Sqrt(k))*args[1].E[i].f64())
			}
		}
		return out
	case ir.MathTranspose:
		needArgs(fun, args, 1)
		if a0.K != vMatrix || len(a0.E) == 0 {
			trapf("ill-typed: transpose of %s", a0)
		}
		C, R := len(a0.E), len(a0.E[0].E)
		out := Val{K: vMatrix, S: a0.S, E: make([]Val, R)}
		for r := 0; r < R; r++ {
			col := Val{K: vVector, S: a0.S, E: make([]Val, C)}
			for c := 0; c < C; c++ {
				col.E[c] = a0.E[c].E[r]
			}
			out.E[r] = col
		}
		return out
	case ir.MathDeterminant:
		needArgs(fun, args, 1)
		if a0.K != vMatrix || len(a0.E) == 0 || len(a0.E) != len(a0.E[0].E) {
			trapf("ill-typed: determinant of %s", a0)
		}
		n := len(a0.E)
		mat := make([][]float64, n)
		for r := 0; r < n; r++ {
			mat[r] = make([]float64, n)
			for c := 0; c < n; c++ {
				mat[r][c] = a0.E[c].E[r].f64()
			}
		}
		return r32(det(mat))
	case ir.MathModf:
		needArgs(fun, args, 1)
		whole := mapN(args, func(c []Val) Val { return r32(math.Trunc(c[0].f64())) })
		fract := mapN(args, func(c []Val) Val { return r32(c[0].f64() - math.Trunc(c[0].f64())) })
		return Val{K: vStruct, E: []Val{fract, whole}}
	case ir.MathFrexp:
		needArgs(fun, args, 1)
		fr := mapN(args, func(c []Val) Val { f, _ := math.Frexp(c[0].f64()); return r32(f) })
		ex := mapN(args, func(c []Val) Val { _, e := math.Frexp(c[0].f64()); return i32V(int32(e)) })
		return Val{K: vStruct, E: []Val{fr, ex}}
	case ir.MathPack4x8snorm, ir.MathPack4x8unorm, ir.MathPack2x16snorm, ir.MathPack2x16unorm, ir.MathPack2x16float:
		needArgs(fun, args, 1)
		var r uint32
		for i, e := range a0.E {
			x := e.f64()
			switch fun {
			case ir.MathPack4x8unorm:
				r |= uint32(math.Floor(0.5+255*math.Min(math.Max(x, 0), 1))) << (8 * i)
			case ir.MathPack4x8snorm:
				r |= (uint32(int32(math.Floor(0.5+127*math.Min(math.Max(x, -1), 1)))) & 0xff) << (8 * i)
			case ir.MathPack2x16unorm:
				r |= uint32(math.Floor(0.5+65535*math.Min(math.Max(x, 0), 1))) << (16 * i)
			case ir.MathPack2x16snorm:
				r |= (uint32(int32(math.Floor(0.5+32767*math.Min(math.Max(x, -1), 1)))) & 0xffff) << (16 * i)
			case ir.MathPack2x16float:
				r |= uint32(wref.FloatToHalf(e.f32())) << (16 * i)
			}
		}
		return u32V(r)
	case ir.MathPack4xI8, ir.MathPack4xU8, ir.MathPack4xI8Clamp, ir.MathPack4xU8Clamp:
		needArgs(fun, args, 1)
		var r uint32
		for i, e := range a0.E {
			b := e.B
			switch fun {
			case ir.MathPack4xI8Clamp:
				b = uint32(min(max(int32(e.B), -128), 127))
			case ir.MathPack4xU8Clamp:
				b = min(e.B, 255)
			}
			r |= (b & 0xff) << (8 * i)
		}
		return u32V(r)
	case ir.MathUnpack4x8snorm, ir.MathUnpack4x8unorm, ir.MathUnpack2x16snorm, ir.MathUnpack2x16unorm, ir.MathUnpack2x16float:
		needArgs(fun, args, 1)
		n := 4
		if fun == ir.MathUnpack2x16snorm || fun == ir.MathUnpack2x16unorm || fun == ir.MathUnpack2x16float {
			n = 2
		}
		out := Val{K: vVector, S: ir.ScalarFloat, E: make([]Val, n)}
		for i := range out.E {
			var f float64
			switch fun {
			case ir.MathUnpack4x8unorm:
				f = float64((a0.B>>(8*i))&0xff) / 255
			case ir.MathUnpack4x8snorm:
				f = math.Max(float64(int8(a0.B>>(8*i)))/127, -1)
			case ir.MathUnpack2x16unorm:
				f = float64((a0.B>>(16*i))&0xffff) / 65535
			case ir.MathUnpack2x16snorm:
				f = math.Max(float64(int16(a0.B>>(16*i)))/32767, -1)
			case ir.MathUnpack2x16float:
				f = float64(wref.HalfToFloat(uint16(a0.B >> (16 * i))))
			}
			out.E[i] = r32(f)
		}
		return out
	case ir.MathUnpack4xI8, ir.MathUnpack4xU8:
		needArgs(fun, args, 1)
		k := ir.ScalarUint
		if fun == ir.MathUnpack4xI8 {
			k = ir.ScalarSint
		}
		out := Val{K: vVector, S: k, E: make([]Val, 4)}
		for i := range out.E {
			if fun == ir.MathUnpack4xI8 {
				out.E[i] = i32V(int32(int8(a0.B >> (8 * i))))
			} else {
				out.E[i] = u32V((a0.B >> (8 * i)) & 0xff)
			}
		}
		return out
	case ir.MathOuter, ir.MathInverse:
		trapf("unsupported: math function %d", fun)
	}
	// component-wise functions
	if isFloat(a0) {
		return mapN(args, func(c []Val) Val { return floatMath(fun, c) })
	}
	return mapN(args, func(c []Val) Val { return intMath(fun, c) })
}

func intMath(fun ir.MathFunction, a []Val) Val {
	x := a[0].B
	k := a[0].S
	signed := k == ir.ScalarSint
	if k != ir.ScalarSint && k != ir.ScalarUint {
		trapf("ill-typed: math function %d on %s", fun, a[0])
	}
	arg := func(i int) uint32 {
		if i >= len(a) {
			trapf("malformed: math function %d lacks argument %d", fun, i)
		}
		return a[i].B
	}
	switch fun {
	case ir.MathAbs:
		if signed && int32(x) < 0 {
			return i32V(-int32(x))
		}
		return scalarV(k, x)
	case ir.MathMin:
		if signed {
			return i32V(min(int32(x), int32(arg(1))))
		}
		return u32V(min(x, arg(1)))
	case ir.MathMax:
		if signed {
			return i32V(max(int32(x), int32(arg(1))))
		}
		return u32V(max(x, arg(1)))
	case ir.MathClamp:
		if signed {
			return i32V(min(max(int32(x), int32(arg(1))), int32(arg(2))))
		}
		return u32V(min(max(x, arg(1)), arg(2)))
	case ir.MathSign:
		switch {
		case int32(x) > 0:
			return i32V(1)
		case int32(x) < 0:
			return i32V(-1)
		}
		return i32V(0)
	case ir.MathCountOneBits:
		return scalarV(k, uint32(bits.OnesCount32(x)))
	case ir.MathCountLeadingZeros:
		return scalarV(k, uint32(bits.LeadingZeros32(x)))
	case ir.MathCountTrailingZeros:
		return scalarV(k, uint32(bits.TrailingZeros32(x)))
	case ir.MathReverseBits:
		return scalarV(k, bits.Reverse32(x))
	case ir.MathFirstLeadingBit:
		if signed {
			return scalarV(k, wref.FirstLeadingBitI(int32(x)))
		}
		return scalarV(k, wref.FirstLeadingBitU(x))
	case ir.MathFirstTrailingBit:
		return scalarV(k, wref.FirstTrailingBit(x))
	case ir.MathExtractBits:
		if signed {
			return i32V(wref.ExtractBitsI(int32(x), arg(1), arg(2)))
		}
		return u32V(wref.ExtractBitsU(x, arg(1), arg(2)))
	case ir.MathInsertBits:
		return scalarV(k, wref.InsertBits(x, arg(1), arg(2), arg(3)))
	}
	trapf("unsupported: integer math function %d", fun)
	return Val{}
}

func floatMath(fun ir.MathFunction, a []Val) Val {
	if a[0].S != ir.ScalarFloat {
		trapf("ill-typed: math function %d on %s", fun, a[0])
	}
	x := a[0].f64()
	arg := func(i int) float64 {
		if i >= len(a) {
			trapf("malformed: math function %d lacks argument %d", fun, i)
		}
		return a[i].f64()
	}
	switch fun {
	case ir.MathAbs:
		return scalarV(ir.ScalarFloat, a[0].B&^0x80000000)
	case ir.MathMin:
		return r32(math.Min(x, arg(1)))
	case ir.MathMax:
		return r32(math.Max(x, arg(1)))
	case ir.MathClamp:
		return r32(math.Min(math.Max(x, arg(1)), arg(2)))
	case ir.MathSaturate:
		return r32(math.Min(math.Max(x, 0), 1))
	case ir.MathCos:
		return r32(math.Cos(x))
	case ir.MathCosh:
		return r32(math.Cosh(x))
	case ir.MathSin:
		return r32(math.Sin(x))
	case ir.MathSinh:
		return r32(math.Sinh(x))
	case ir.MathTan:
		return r32(math.Tan(x))
	case ir.MathTanh:
		return r32(math.Tanh(x))
	case ir.MathAcos:
		return r32(math.Acos(x))
	case ir.MathAsin:
		return r32(math.Asin(x))
	case ir.MathAtan:
		return r32(math.Atan(x))
	case ir.MathAtan2:
		return r32(math.Atan2(x, arg(1)))
	case ir.MathAsinh:
		return r32(math.Asinh(x))
	case ir.MathAcosh:
		return r32(math.Acosh(x))
	case ir.MathAtanh:
		return r32(math.Atanh(x))
	case ir.MathRadians:
		return r32(x * math.Pi / 180)
	case ir.MathDegrees:
		return r32(x * 180 / math.Pi)
	case ir.MathCeil:
		return r32(math.Ceil(x))
	case ir.MathFloor:
		return r32(math.Floor(x))
	case ir.MathRound:
		return r32(math.RoundToEven(x))
	case ir.MathFract:
		return r32(x - math.Floor(x))
	case ir.MathTrunc:
		return r32(math.Trunc(x))
	case ir.MathLdexp:
		if len(a) < 2 || a[1].S != ir.ScalarSint {
			trapf("ill-typed: ldexp exponent")
		}
		return r32(math.Ldexp(x, int(int32(a[1].B))))
	case ir.MathExp:
		return r32(math.Exp(x))
	case ir.MathExp2:
		return r32(math.Exp2(x))
	case ir.MathLog:
		return r32(math.Log(x))
	case ir.MathLog2:
		return r32(math.Log2(x))
	case ir.MathPow:
		return r32(math.Pow(x, arg(1)))
	case ir.MathSign:
		switch {
		case x > 0:
			return f32V(1)
		case x < 0:
			return f32V(-1)
		}
		return f32V(0)
	case ir.MathFma:
		return r32(x*arg(1) + arg(2))
	case ir.MathMix:
		t := arg(2)
		return r32(x*(1-t) + arg(1)*t)
	case ir.MathStep:
		if x <= arg(1) {
			return f32V(1)
		}
		return f32V(0)
	case ir.MathSmoothStep:
		lo, hi := x, arg(1)
		t := math.Min(math.Max((arg(2)-lo)/(hi-lo), 0), 1)
		return r32(t * t * (3 - 2*t))
	case ir.MathSqrt:
		return r32(math.Sqrt(x))
	case ir.MathInverseSqrt:
		return r32(1 / math.Sqrt(x))
	case ir.MathQuantizeF16:
		return f32V(wref.HalfToFloat(wref.FloatToHalf(a[0].f32())))
	}
	trapf("unsupported: float math function %d", fun)
	return Val{}
}
