package irx_test

import (
	"fmt"
	"os"
	"path/filepath"
	"sort"
	"strings"
	"testing"

	"github.com/gogpu/naga"
	"github.com/gogpu/naga/ir"

	"verif/internal/irx"
)

func lowerFile(t testing.TB, p string) (*ir.Module, string) {
	b, err := os.ReadFile(p)
	if err != nil {
		t.Fatal(err)
	}
	src := string(b)
	var m *ir.Module
	func() {
		defer func() {
			if r := recover(); r != nil {
				m = nil
			}
		}()
		ast, err := naga.Parse(src)
		if err != nil {
			return
		}
		mm, err := naga.LowerWithSource(ast, src)
		if err != nil {
			return
		}
		m = mm
	}()
	return m, src
}

func TestCorpusSurvey(t *testing.T) {
	files, _ := filepath.Glob("/repo/snapshot/testdata/in/*.wgsl")
	sort.Strings(files)
	byRule := map[string][]string{}
	lowered := 0
	var tot irx.Stats
	for _, p := range files {
		m, _ := lowerFile(t, p)
		if m == nil {
			continue
		}
		lowered++
		is, st := irx.StrictValidateStats(m)
		tot.TypifyUnsupported += st.TypifyUnsupported
		tot.DeadUnemitted += st.DeadUnemitted
		tot.UnreachableReturns += st.UnreachableReturns
		tot.AtomicStores += st.AtomicStores
		tot.Expressions += st.Expressions
		for _, i := range is {
			byRule[i.Rule] = append(byRule[i.Rule], filepath.Base(p)+": "+i.Where+": "+i.Msg)
		}
	}
	t.Logf("files=%d lowered=%d stats=%+v", len(files), lowered, tot)
	var rules []string
	for r := range byRule {
		rules = append(rules, r)
	}
	sort.Strings(rules)
	max := 8
	if os.Getenv("IRX_ALL") != "" {
		max = 1 << 30
	}
	for _, r := range rules {
		l := byRule[r]
		t.Logf("== %s: %d", r, len(l))
		for i, s := range l {
			if i >= max {
				break
			}
			t.Logf("   %s", s)
		}
	}
	_ = strings.Join
	_ = fmt.Sprint
}

// TestDump is a development aid: IRX_SRC=<file.wgsl> [IRX_FN=<name>] dumps the lowered functions.
func TestDump(t *testing.T) {
	p := os.Getenv("IRX_SRC")
	if p == "" {
		t.Skip("IRX_SRC not set")
	}
	m, _ := lowerFile(t, p)
	if m == nil {
		t.Fatal("does not lower")
	}
	want := os.Getenv("IRX_FN")
	for i := range m.Types {
		fmt.Printf("type %d %q %s\n", i, m.Types[i].Name, irx.TypeString(m, m.Types[i].Inner))
	}
	for i := range m.Functions {
		if want == "" || m.Functions[i].Name == want {
			fmt.Println(irx.DumpFunction(m, &m.Functions[i]))
		}
	}
	for i := range m.EntryPoints {
		if want == "" || m.EntryPoints[i].Name == want {
			fmt.Println(irx.DumpFunction(m, &m.EntryPoints[i].Function))
		}
	}
	for _, is := range irx.StrictValidate(m) {
		fmt.Println("ISSUE", is)
	}
}

// TestLowerErr is a development aid: IRX_SRC=<file.wgsl> prints the full Parse/Lower error.
func TestLowerErr(t *testing.T) {
	p := os.Getenv("IRX_SRC")
	if p == "" {
		t.Skip("IRX_SRC not set")
	}
	b, _ := os.ReadFile(p)
	ast, err := naga.Parse(string(b))
	if err != nil {
		fmt.Println("PARSE:", err)
		return
	}
	_, err = naga.LowerWithSource(ast, string(b))
	fmt.Println("LOWER:", err)
}

// TestNagaValidateSurvey is a development aid: which corpus files fail naga.Validate and how.
func TestNagaValidateSurvey(t *testing.T) {
	if os.Getenv("IRX_NV") == "" {
		t.Skip("IRX_NV not set")
	}
	files, _ := filepath.Glob("/repo/snapshot/testdata/in/*.wgsl")
	sort.Strings(files)
	for _, p := range files {
		m, _ := lowerFile(t, p)
		if m == nil {
			continue
		}
		errs, err := naga.Validate(m)
		if err != nil {
			fmt.Println(filepath.Base(p), "ERR", err)
		}
		seen := map[string]bool{}
		for _, e := range errs {
			s := e.Error()
			if len(s) > 160 {
				s = s[:160]
			}
			if !seen[s] {
				seen[s] = true
				fmt.Println(filepath.Base(p), "::", s)
			}
		}
	}
}

// TestDumpGlobals is a development aid: IRX_SRC=<file.wgsl> dumps constants and global expressions.
func TestDumpGlobals(t *testing.T) {
	p := os.Getenv("IRX_SRC")
	if p == "" || os.Getenv("IRX_GLOBALS") == "" {
		t.Skip("IRX_SRC / IRX_GLOBALS not set")
	}
	m, _ := lowerFile(t, p)
	if m == nil {
		t.Fatal("does not lower")
	}
	for i, c := range m.Constants {
		fmt.Printf("const %d %q type=%d init=[%d] abstract=%v value=%+v\n", i, c.Name, c.Type, c.Init, c.IsAbstract, c.Value)
	}
	for i, g := range m.GlobalVariables {
		fmt.Printf("global %d %q type=%d space=%d init=%v initExpr=%v\n", i, g.Name, g.Type, g.Space, g.Init, g.InitExpr)
	}
	for i, e := range m.GlobalExpressions {
		fmt.Printf("gexpr [%d] %T%+v\n", i, e.Kind, e.Kind)
	}
}
