package irx

import (
	"github.com/gogpu/naga/ir"
)

type ctl int

const (
	ctlNone ctl = iota
	ctlBreak
	ctlContinue
	ctlReturn
)

type branchInfo struct {
	kind   int // 0 none, 1 if, 2 switch
	accept bool
	caseIx int
}

type frame struct {
	inv    *invocation
	f      *ir.Function
	args   []Val
	locals []*Val
	cache  []Val
	valid  []bool
	ret    Val
	hasRet bool
	last   branchInfo
	// loop phi support: per active loop, whether the current iteration is the first
	loopFirst []bool
}

// call runs function f with the given argument values and returns its result.
func (inv *invocation) call(f *ir.Function, args []Val) (Val, bool) {
	mc := inv.mc
	if inv.depth > 64 {
		trapf("call depth exceeded (recursion?)")
	}
	inv.depth++
	defer func() { inv.depth-- }()
	fr := &frame{inv: inv, f: f, args: args, locals: make([]*Val, len(f.LocalVars)),
		cache: make([]Val, len(f.Expressions)), valid: make([]bool, len(f.Expressions))}
	for i := range f.LocalVars {
		lv := &f.LocalVars[i]
		v := mc.zero(mc.inner(lv.Type), 0)
		fr.locals[i] = &v
	}
	for i := range f.LocalVars {
		if init := f.LocalVars[i].Init; init != nil {
			iv := fr.pure(*init, 0)
			assignCell(mc, fr.locals[i], iv)
		}
	}
	c := fr.block(ir.Block(f.Body), 0)
	if c == ctlBreak || c == ctlContinue {
		trapf("malformed: break / continue outside a loop or switch")
	}
	return fr.ret, fr.hasRet
}

// emitsOf lists the expressions statically emitted / produced inside the blocks of a loop.
func (mc *machine) emitsOf(key *ir.Statement, blocks ...ir.Block) []ir.ExpressionHandle {
	if l, ok := mc.loopEmits[key]; ok {
		return l
	}
	var out []ir.ExpressionHandle
	var walk func(b ir.Block, d int)
	walk = func(b ir.Block, d int) {
		if d > 2000 {
			return
		}
		for _, s := range b {
			if e, ok := s.Kind.(ir.StmtEmit); ok {
				for h := e.Range.Start; h < e.Range.End; h++ {
					out = append(out, h)
				}
			}
			_, results := StmtUses(s.Kind)
			out = append(out, results...)
			for _, sb := range SubBlocks(s.Kind) {
				walk(sb, d+1)
			}
		}
	}
	for _, b := range blocks {
		walk(b, 0)
	}
	mc.loopEmits[key] = out
	return out
}

func (fr *frame) block(b ir.Block, depth int) ctl {
	mc := fr.inv.mc
	if depth > 2000 {
		trapf("unsupported: statement nesting deeper than 2000")
	}
	for si := range b {
		s := &b[si]
		mc.step()
		switch k := s.Kind.(type) {
		case ir.StmtEmit:
			if int(k.Range.End) > len(fr.f.Expressions) || k.Range.Start > k.Range.End {
				trapf("malformed: Emit [%d..%d) with %d expressions", k.Range.Start, k.Range.End, len(fr.f.Expressions))
			}
			for h := k.Range.Start; h < k.Range.End; h++ {
				mc.step()
				fr.cache[h] = fr.eval(h)
				fr.valid[h] = true
			}
		case ir.StmtBlock:
			if c := fr.block(k.Block, depth+1); c != ctlNone {
				return c
			}
		case ir.StmtIf:
			cv := fr.get(k.Condition)
			if cv.K != vScalar || cv.S != ir.ScalarBool {
				trapf("ill-typed: If condition %s", cv)
			}
			var c ctl
			if cv.B != 0 {
				c = fr.block(k.Accept, depth+1)
			} else {
				c = fr.block(k.Reject, depth+1)
			}
			if c != ctlNone {
				return c
			}
			fr.last = branchInfo{kind: 1, accept: cv.B != 0}
		case ir.StmtSwitch:
			sel := fr.get(k.Selector)
			if sel.K != vScalar || (sel.S != ir.ScalarSint && sel.S != ir.ScalarUint) {
				trapf("ill-typed: Switch selector %s", sel)
			}
			target, def := -1, -1
			for ci := range k.Cases {
				switch cv := k.Cases[ci].Value.(type) {
				case ir.SwitchValueI32:
					if target < 0 && uint32(cv) == sel.B {
						target = ci
					}
				case ir.SwitchValueU32:
					if target < 0 && uint32(cv) == sel.B {
						target = ci
					}
				case ir.SwitchValueDefault:
					if def < 0 {
						def = ci
					}
				}
			}
			if target < 0 {
				target = def
			}
			lastCase := -1
			if target >= 0 {
				for ci := target; ci < len(k.Cases); ci++ {
					lastCase = ci
					c := fr.block(k.Cases[ci].Body, depth+1)
					if c == ctlBreak {
						break
					}
					if c != ctlNone {
						return c
					}
					if !k.Cases[ci].FallThrough {
						break
					}
				}
			}
			fr.last = branchInfo{kind: 2, caseIx: lastCase}
		case ir.StmtLoop:
			emits := mc.emitsOf(s, k.Body, k.Continuing)
			fr.loopFirst = append(fr.loopFirst, true)
			exit := ctlNone
		loop:
			for {
				mc.step()
				for _, h := range emits {
					if int(h) < len(fr.valid) {
						fr.valid[h] = false
					}
				}
				c := fr.block(k.Body, depth+1)
				switch c {
				case ctlBreak:
					break loop
				case ctlReturn:
					exit = ctlReturn
					break loop
				}
				c = fr.block(k.Continuing, depth+1)
				switch c {
				case ctlReturn:
					exit = ctlReturn
					break loop
				case ctlBreak, ctlContinue:
					trapf("malformed: break / continue inside a continuing block")
				}
				if k.BreakIf != nil {
					bv := fr.get(*k.BreakIf)
					if bv.K != vScalar || bv.S != ir.ScalarBool {
						trapf("ill-typed: break_if condition %s", bv)
					}
					if bv.B != 0 {
						break loop
					}
				}
				fr.loopFirst[len(fr.loopFirst)-1] = false
			}
			fr.loopFirst = fr.loopFirst[:len(fr.loopFirst)-1]
			if exit != ctlNone {
				return exit
			}
			fr.last = branchInfo{}
		case ir.StmtBreak:
			return ctlBreak
		case ir.StmtContinue:
			return ctlContinue
		case ir.StmtReturn:
			if k.Value != nil {
				fr.ret = fr.get(*k.Value).clone()
				fr.hasRet = true
			}
			return ctlReturn
		case ir.StmtKill:
			trapf("unsupported: Kill in a compute shader")
		case ir.StmtBarrier:
			fr.inv.barrier(s)
		case ir.StmtStore:
			p := fr.getPtr(k.Pointer, "Store")
			v := fr.get(k.Value)
			mc.store(p, v) // an out-of-range destination drops the store (recorded as poison)
		case ir.StmtAtomic:
			fr.atomic(k)
		case ir.StmtWorkGroupUniformLoad:
			fr.inv.barrier(s)
			p := fr.getPtr(k.Pointer, "workgroupUniformLoad")
			fr.setResult(k.Result, mc.load(p))
			fr.inv.barrier(s)
		case ir.StmtCall:
			if int(k.Function) >= len(mc.m.Functions) {
				trapf("malformed: call of function %d", k.Function)
			}
			callee := &mc.m.Functions[k.Function]
			if len(k.Arguments) != len(callee.Arguments) {
				trapf("malformed: call of %s with %d arguments", callee.Name, len(k.Arguments))
			}
			args := make([]Val, len(k.Arguments))
			for i, a := range k.Arguments {
				args[i] = fr.get(a)
				if args[i].K != vPointer {
					args[i] = args[i].clone()
				}
			}
			rv, has := fr.inv.call(callee, args)
			if k.Result != nil {
				if !has {
					trapf("malformed: call result of %s which returned no value", callee.Name)
				}
				fr.setResult(*k.Result, rv)
			}
		case ir.StmtImageStore, ir.StmtImageAtomic:
			trapf("unsupported: image statement")
		case ir.StmtRayQuery:
			trapf("unsupported: ray query")
		case ir.StmtSubgroupBallot, ir.StmtSubgroupCollectiveOperation, ir.StmtSubgroupGather:
			trapf("unsupported: subgroup operation")
		default:
			trapf("unsupported: statement %T", s.Kind)
		}
	}
	return ctlNone
}

func (fr *frame) setResult(h ir.ExpressionHandle, v Val) {
	if int(h) >= len(fr.cache) {
		trapf("malformed: result expression %d out of range", h)
	}
	fr.cache[h] = v
	fr.valid[h] = true
}

// getPtr returns the pointer value of expression h.
func (fr *frame) getPtr(h ir.ExpressionHandle, who string) *pointer {
	v := fr.get(h)
	if v.K != vPointer || v.P == nil {
		trapf("ill-typed: %s through the non-pointer [%d] = %s", who, h, v)
	}
	return v.P
}

func (fr *frame) atomic(k ir.StmtAtomic) {
	mc := fr.inv.mc
	p := fr.getPtr(k.Pointer, "Atomic")
	at, ok := p.ty.(ir.AtomicType)
	if !ok {
		if st, isScalar := p.ty.(ir.ScalarType); isScalar {
			at = ir.AtomicType{Scalar: st} // the pointee type of a cell pointer may have been resolved to the scalar
		} else {
			trapf("ill-typed: atomic operation on %s", TypeString(mc.m, p.ty))
		}
	}
	checkScalar(at.Scalar)
	signed := at.Scalar.Kind == ir.ScalarSint
	old := mc.load(p)
	if old.K != vScalar {
		trapf("ill-typed: atomic cell holds %s", old)
	}
	var operand Val
	if _, isLoad := k.Fun.(ir.AtomicLoad); !isLoad {
		operand = fr.get(k.Value)
		if operand.K != vScalar || operand.S != at.Scalar.Kind {
			trapf("ill-typed: atomic operand %s for atomic<%s>", operand, scalarString(at.Scalar))
		}
	}
	a, b := old.B, operand.B
	var r uint32
	result := old
	switch fn := k.Fun.(type) {
	case ir.AtomicAdd:
		r = a + b
	case ir.AtomicSubtract:
		r = a - b
	case ir.AtomicAnd:
		r = a & b
	case ir.AtomicInclusiveOr:
		r = a | b
	case ir.AtomicExclusiveOr:
		r = a ^ b
	case ir.AtomicMin:
		if signed {
			r = uint32(min(int32(a), int32(b)))
		} else {
			r = min(a, b)
		}
	case ir.AtomicMax:
		if signed {
			r = uint32(max(int32(a), int32(b)))
		} else {
			r = max(a, b)
		}
	case ir.AtomicStore:
		r = b
	case ir.AtomicLoad:
		r = a
	case ir.AtomicExchange:
		if fn.Compare == nil {
			r = b
		} else {
			cmp := fr.get(*fn.Compare)
			if cmp.K != vScalar {
				trapf("ill-typed: atomic compare value %s", cmp)
			}
			exchanged := cmp.B == a
			r = a
			if exchanged {
				r = b
			}
			result = Val{K: vStruct, E: []Val{old, boolV(exchanged)}}
		}
	default:
		trapf("unsupported: atomic function %T", k.Fun)
	}
	mc.store(p, scalarV(at.Scalar.Kind, r))
	if k.Result != nil {
		fr.setResult(*k.Result, result)
	}
}
