package irx

import (
	"reflect"

	"github.com/gogpu/naga/ir"
)

// Operands returns the expression handles an expression kind refers to, in
// field order.  Known kinds are enumerated explicitly; an unknown kind falls
// back to reflection (every field of type ExpressionHandle, *ExpressionHandle,
// []ExpressionHandle, recursively through nested structs and interfaces), so
// that a kind added to the IR later is still covered.
func Operands(kind ir.ExpressionKind) []ir.ExpressionHandle {
	var out []ir.ExpressionHandle
	opt := func(p *ir.ExpressionHandle) {
		if p != nil {
			out = append(out, *p)
		}
	}
	switch k := kind.(type) {
	case nil:
	case ir.Literal, ir.ExprConstant, ir.ExprOverride, ir.ExprZeroValue,
		ir.ExprFunctionArgument, ir.ExprGlobalVariable, ir.ExprLocalVariable,
		ir.ExprCallResult, ir.ExprAtomicResult, ir.ExprWorkGroupUniformLoadResult,
		ir.ExprRayQueryProceedResult, ir.ExprSubgroupBallotResult, ir.ExprSubgroupOperationResult:
	case ir.ExprCompose:
		out = append(out, k.Components...)
	case ir.ExprAccess:
		out = append(out, k.Base, k.Index)
	case ir.ExprAccessIndex:
		out = append(out, k.Base)
	case ir.ExprSplat:
		out = append(out, k.Value)
	case ir.ExprSwizzle:
		out = append(out, k.Vector)
	case ir.ExprLoad:
		out = append(out, k.Pointer)
	case ir.ExprAlias:
		out = append(out, k.Source)
	case ir.ExprPhi:
		for _, in := range k.Incoming {
			out = append(out, in.Value)
		}
	case ir.ExprImageSample:
		out = append(out, k.Image, k.Sampler, k.Coordinate)
		opt(k.ArrayIndex)
		opt(k.Offset)
		switch l := k.Level.(type) {
		case ir.SampleLevelExact:
			out = append(out, l.Level)
		case ir.SampleLevelBias:
			out = append(out, l.Bias)
		case ir.SampleLevelGradient:
			out = append(out, l.X, l.Y)
		}
		opt(k.DepthRef)
	case ir.ExprImageLoad:
		out = append(out, k.Image, k.Coordinate)
		opt(k.ArrayIndex)
		opt(k.Sample)
		opt(k.Level)
	case ir.ExprImageQuery:
		out = append(out, k.Image)
		if q, ok := k.Query.(ir.ImageQuerySize); ok {
			opt(q.Level)
		}
	case ir.ExprUnary:
		out = append(out, k.Expr)
	case ir.ExprBinary:
		out = append(out, k.Left, k.Right)
	case ir.ExprSelect:
		out = append(out, k.Condition, k.Accept, k.Reject)
	case ir.ExprDerivative:
		out = append(out, k.Expr)
	case ir.ExprRelational:
		out = append(out, k.Argument)
	case ir.ExprMath:
		out = append(out, k.Arg)
		opt(k.Arg1)
		opt(k.Arg2)
		opt(k.Arg3)
	case ir.ExprAs:
		out = append(out, k.Expr)
	case ir.ExprArrayLength:
		out = append(out, k.Array)
	case ir.ExprRayQueryGetIntersection:
		out = append(out, k.Query)
	default:
		return OperandsReflect(kind)
	}
	return out
}

var (
	tExprHandle   = reflect.TypeOf(ir.ExpressionHandle(0))
	tTypeHandle   = reflect.TypeOf(ir.TypeHandle(0))
	tConstHandle  = reflect.TypeOf(ir.ConstantHandle(0))
	tOverHandle   = reflect.TypeOf(ir.OverrideHandle(0))
	tGlobalHandle = reflect.TypeOf(ir.GlobalVariableHandle(0))
	tFuncHandle   = reflect.TypeOf(ir.FunctionHandle(0))
	tBlock        = reflect.TypeOf(ir.Block(nil))
	tStmtSlice    = reflect.TypeOf([]ir.Statement(nil))
	tSwitchCases  = reflect.TypeOf([]ir.SwitchCase(nil))
)

// OperandsReflect is the reflective enumeration of expression handles inside
// any IR value (an expression kind, or a statement kind without descending
// into nested blocks).
func OperandsReflect(v any) []ir.ExpressionHandle {
	var out []ir.ExpressionHandle
	collect(reflect.ValueOf(v), func(t reflect.Type, x uint64) {
		if t == tExprHandle {
			out = append(out, ir.ExpressionHandle(x))
		}
	})
	return out
}

// Handles is every non-expression handle found inside an IR value.
type Handles struct {
	Types     []ir.TypeHandle
	Constants []ir.ConstantHandle
	Overrides []ir.OverrideHandle
	Globals   []ir.GlobalVariableHandle
	Functions []ir.FunctionHandle
}

// HandlesIn collects (reflectively) all type / constant / override / global /
// function handles inside an IR value, not descending into nested statement blocks.
func HandlesIn(v any) Handles {
	var h Handles
	collect(reflect.ValueOf(v), func(t reflect.Type, x uint64) {
		switch t {
		case tTypeHandle:
			h.Types = append(h.Types, ir.TypeHandle(x))
		case tConstHandle:
			h.Constants = append(h.Constants, ir.ConstantHandle(x))
		case tOverHandle:
			h.Overrides = append(h.Overrides, ir.OverrideHandle(x))
		case tGlobalHandle:
			h.Globals = append(h.Globals, ir.GlobalVariableHandle(x))
		case tFuncHandle:
			h.Functions = append(h.Functions, ir.FunctionHandle(x))
		}
	})
	return h
}

// collect walks v and reports every unsigned-integer value whose Go type is a
// named handle type.  Nested statement lists (ir.Block, []ir.Statement,
// []ir.SwitchCase) are not entered: callers walk the statement tree themselves.
func collect(v reflect.Value, f func(reflect.Type, uint64)) {
	if !v.IsValid() {
		return
	}
	switch v.Kind() {
	case reflect.Uint32:
		f(v.Type(), v.Uint())
	case reflect.Pointer, reflect.Interface:
		if !v.IsNil() {
			collect(v.Elem(), f)
		}
	case reflect.Slice, reflect.Array:
		t := v.Type()
		if t == tBlock || t == tStmtSlice || t == tSwitchCases {
			return
		}
		for i := 0; i < v.Len(); i++ {
			collect(v.Index(i), f)
		}
	case reflect.Struct:
		for i := 0; i < v.NumField(); i++ {
			collect(v.Field(i), f)
		}
	}
}

// SubBlocks returns the nested statement blocks of a statement, in execution order.
func SubBlocks(s ir.StatementKind) []ir.Block {
	switch k := s.(type) {
	case ir.StmtBlock:
		return []ir.Block{k.Block}
	case ir.StmtIf:
		return []ir.Block{k.Accept, k.Reject}
	case ir.StmtSwitch:
		out := make([]ir.Block, len(k.Cases))
		for i := range k.Cases {
			out[i] = k.Cases[i].Body
		}
		return out
	case ir.StmtLoop:
		return []ir.Block{k.Body, k.Continuing}
	}
	return nil
}

// StmtUses returns the expression handles a statement reads (its own operands,
// not those of nested blocks, and not the result expressions it produces), and
// the result expressions it produces.
func StmtUses(s ir.StatementKind) (uses, results []ir.ExpressionHandle) {
	opt := func(p *ir.ExpressionHandle) {
		if p != nil {
			uses = append(uses, *p)
		}
	}
	atomicFun := func(f ir.AtomicFunction) {
		if x, ok := f.(ir.AtomicExchange); ok {
			opt(x.Compare)
		}
	}
	switch k := s.(type) {
	case nil, ir.StmtEmit, ir.StmtBlock, ir.StmtBreak, ir.StmtContinue, ir.StmtKill, ir.StmtBarrier:
	case ir.StmtIf:
		uses = append(uses, k.Condition)
	case ir.StmtSwitch:
		uses = append(uses, k.Selector)
	case ir.StmtLoop:
		// BreakIf is evaluated after the continuing block: handled by the walker.
	case ir.StmtReturn:
		opt(k.Value)
	case ir.StmtStore:
		uses = append(uses, k.Pointer, k.Value)
	case ir.StmtImageStore:
		uses = append(uses, k.Image, k.Coordinate)
		opt(k.ArrayIndex)
		uses = append(uses, k.Value)
	case ir.StmtAtomic:
		uses = append(uses, k.Pointer)
		atomicFun(k.Fun)
		if _, isLoad := k.Fun.(ir.AtomicLoad); !isLoad {
			uses = append(uses, k.Value)
		}
		if k.Result != nil {
			results = append(results, *k.Result)
		}
	case ir.StmtImageAtomic:
		uses = append(uses, k.Image, k.Coordinate)
		opt(k.ArrayIndex)
		atomicFun(k.Fun)
		uses = append(uses, k.Value)
	case ir.StmtWorkGroupUniformLoad:
		uses = append(uses, k.Pointer)
		results = append(results, k.Result)
	case ir.StmtCall:
		uses = append(uses, k.Arguments...)
		if k.Result != nil {
			results = append(results, *k.Result)
		}
	case ir.StmtRayQuery:
		uses = append(uses, k.Query)
		switch f := k.Fun.(type) {
		case ir.RayQueryInitialize:
			uses = append(uses, f.AccelerationStructure, f.Descriptor)
		case ir.RayQueryProceed:
			results = append(results, f.Result)
		case ir.RayQueryGenerateIntersection:
			uses = append(uses, f.HitT)
		}
	case ir.StmtSubgroupBallot:
		opt(k.Predicate)
		results = append(results, k.Result)
	case ir.StmtSubgroupCollectiveOperation:
		uses = append(uses, k.Argument)
		results = append(results, k.Result)
	case ir.StmtSubgroupGather:
		switch g := k.Mode.(type) {
		case ir.GatherBroadcast:
			uses = append(uses, g.Index)
		case ir.GatherShuffle:
			uses = append(uses, g.Index)
		case ir.GatherShuffleDown:
			uses = append(uses, g.Delta)
		case ir.GatherShuffleUp:
			uses = append(uses, g.Delta)
		case ir.GatherShuffleXor:
			uses = append(uses, g.Mask)
		case ir.GatherQuadBroadcast:
			uses = append(uses, g.Index)
		}
		uses = append(uses, k.Argument)
		results = append(results, k.Result)
	default:
		// Unknown statement kind: every expression handle in it counts as a use.
		uses = OperandsReflect(s)
	}
	return uses, results
}

// knownStmt reports whether StmtUses has an explicit case for the kind.
func knownStmt(s ir.StatementKind) bool {
	switch s.(type) {
	case nil, ir.StmtEmit, ir.StmtBlock, ir.StmtBreak, ir.StmtContinue, ir.StmtKill, ir.StmtBarrier,
		ir.StmtIf, ir.StmtSwitch, ir.StmtLoop, ir.StmtReturn, ir.StmtStore, ir.StmtImageStore,
		ir.StmtAtomic, ir.StmtImageAtomic, ir.StmtWorkGroupUniformLoad, ir.StmtCall, ir.StmtRayQuery,
		ir.StmtSubgroupBallot, ir.StmtSubgroupCollectiveOperation, ir.StmtSubgroupGather:
		return true
	}
	return false
}

// ExprClass partitions expression kinds for the emit discipline.
type ExprClass int

const (
	// ClassPreEmit: literals, constants, overrides, zero values, globals, locals,
	// function arguments - always available, never inside an Emit range.
	ClassPreEmit ExprClass = iota
	// ClassResult: produced by exactly one statement, never inside an Emit range.
	ClassResult
	// ClassEmit: every other kind; evaluated by the Emit statement covering it.
	ClassEmit
)

// ClassOf returns the emit class of an expression kind.
func ClassOf(kind ir.ExpressionKind) ExprClass {
	switch kind.(type) {
	case ir.Literal, ir.ExprConstant, ir.ExprOverride, ir.ExprZeroValue,
		ir.ExprFunctionArgument, ir.ExprGlobalVariable, ir.ExprLocalVariable:
		return ClassPreEmit
	case ir.ExprCallResult, ir.ExprAtomicResult, ir.ExprWorkGroupUniformLoadResult,
		ir.ExprRayQueryProceedResult, ir.ExprSubgroupBallotResult, ir.ExprSubgroupOperationResult:
		return ClassResult
	}
	return ClassEmit
}
