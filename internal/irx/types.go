package irx

import (
	"fmt"
	"strings"

	"github.com/gogpu/naga/ir"
)

// TypeRes is the type of an expression: either a handle into Module.Types or
// an inline TypeInner value (the same two shapes as ir.TypeResolution).
type TypeRes struct {
	Handle *ir.TypeHandle
	Inner  ir.TypeInner // set when Handle is nil
}

// H makes a handle resolution.
func H(h ir.TypeHandle) TypeRes { return TypeRes{Handle: &h} }

// V makes a value resolution.
func V(in ir.TypeInner) TypeRes { return TypeRes{Inner: in} }

// FromIR converts naga's representation.
func FromIR(r ir.TypeResolution) TypeRes { return TypeRes{Handle: r.Handle, Inner: r.Value} }

// IsZero reports whether the resolution carries nothing.
func (r TypeRes) IsZero() bool { return r.Handle == nil && r.Inner == nil }

// InnerOf resolves r to its TypeInner (nil when the handle is out of range or r is empty).
func InnerOf(m *ir.Module, r TypeRes) ir.TypeInner {
	if r.Handle != nil {
		if int(*r.Handle) >= len(m.Types) {
			return nil
		}
		return m.Types[*r.Handle].Inner
	}
	return r.Inner
}

// canon brings a TypeInner to the canonical form used for comparisons:
// a Pointer whose base is a scalar or a vector becomes the equivalent
// ValuePointer (upstream naga: TypeInner::canonical_form).
func canon(m *ir.Module, in ir.TypeInner) ir.TypeInner {
	if p, ok := in.(ir.PointerType); ok && int(p.Base) < len(m.Types) {
		switch b := m.Types[p.Base].Inner.(type) {
		case ir.ScalarType:
			return ir.ValuePointerType{Size: nil, Scalar: b, Space: p.Space}
		case ir.VectorType:
			sz := b.Size
			return ir.ValuePointerType{Size: &sz, Scalar: b.Scalar, Space: p.Space}
		}
	}
	return in
}

// HandlesEqual reports whether two type handles denote the same type: the same
// handle, or two non-struct types with structurally equal inners.  Names are
// ignored for non-struct types: `alias Vec4 = vec4<f32>` registers a named copy
// of the anonymous vec4<f32>, and upstream naga compares such types by their
// TypeInner.  Struct types are nominal: only the same handle is the same type.
func HandlesEqual(m *ir.Module, a, b ir.TypeHandle) bool {
	return handlesEqualD(m, a, b, 0)
}

// InnersEqual compares two TypeInners structurally up to pointer /
// value-pointer equivalence.  Handles inside (array base, pointer base, …) are
// compared with HandlesEqual.
func InnersEqual(m *ir.Module, a, b ir.TypeInner) bool {
	if a == nil || b == nil {
		return false
	}
	return innersEqual(m, canon(m, a), canon(m, b), 0)
}

func u32pEq(a, b *uint32) bool {
	if (a == nil) != (b == nil) {
		return false
	}
	return a == nil || *a == *b
}

func innersEqual(m *ir.Module, a, b ir.TypeInner, depth int) bool {
	if depth > 64 {
		return false
	}
	switch x := a.(type) {
	case ir.ScalarType:
		y, ok := b.(ir.ScalarType)
		return ok && x == y
	case ir.VectorType:
		y, ok := b.(ir.VectorType)
		return ok && x == y
	case ir.MatrixType:
		y, ok := b.(ir.MatrixType)
		return ok && x == y
	case ir.AtomicType:
		y, ok := b.(ir.AtomicType)
		return ok && x == y
	case ir.SamplerType:
		y, ok := b.(ir.SamplerType)
		return ok && x == y
	case ir.ImageType:
		y, ok := b.(ir.ImageType)
		return ok && x == y
	case ir.AccelerationStructureType:
		_, ok := b.(ir.AccelerationStructureType)
		return ok
	case ir.RayQueryType:
		_, ok := b.(ir.RayQueryType)
		return ok
	case ir.ValuePointerType:
		y, ok := b.(ir.ValuePointerType)
		if !ok || x.Scalar != y.Scalar || x.Space != y.Space || (x.Size == nil) != (y.Size == nil) {
			return false
		}
		return x.Size == nil || *x.Size == *y.Size
	case ir.PointerType:
		y, ok := b.(ir.PointerType)
		return ok && x.Space == y.Space && handlesEqualD(m, x.Base, y.Base, depth+1)
	case ir.ArrayType:
		y, ok := b.(ir.ArrayType)
		return ok && x.Stride == y.Stride && u32pEq(x.Size.Constant, y.Size.Constant) && handlesEqualD(m, x.Base, y.Base, depth+1)
	case ir.BindingArrayType:
		y, ok := b.(ir.BindingArrayType)
		return ok && u32pEq(x.Size, y.Size) && handlesEqualD(m, x.Base, y.Base, depth+1)
	case ir.StructType:
		y, ok := b.(ir.StructType)
		if !ok || x.Span != y.Span || len(x.Members) != len(y.Members) {
			return false
		}
		for i := range x.Members {
			ma, mb := x.Members[i], y.Members[i]
			if ma.Name != mb.Name || ma.Offset != mb.Offset || !handlesEqualD(m, ma.Type, mb.Type, depth+1) || !bindingsEqual(ma.Binding, mb.Binding) {
				return false
			}
		}
		return true
	}
	return false
}

func handlesEqualD(m *ir.Module, a, b ir.TypeHandle, depth int) bool {
	if a == b {
		return true
	}
	if int(a) >= len(m.Types) || int(b) >= len(m.Types) {
		return false
	}
	ta, tb := m.Types[a], m.Types[b]
	if _, isStruct := ta.Inner.(ir.StructType); isStruct {
		return false // distinct struct declarations are distinct types
	}
	if _, isStruct := tb.Inner.(ir.StructType); isStruct {
		return false
	}
	return innersEqual(m, ta.Inner, tb.Inner, depth)
}

func bindingsEqual(a, b *ir.Binding) bool {
	if (a == nil) != (b == nil) {
		return false
	}
	if a == nil {
		return true
	}
	return diffAny(*a, *b, true) == ""
}

// ResEqual compares two resolutions structurally (handle vs value does not matter).
func ResEqual(m *ir.Module, a, b TypeRes) bool {
	if a.Handle != nil && b.Handle != nil {
		return HandlesEqual(m, *a.Handle, *b.Handle)
	}
	return InnersEqual(m, InnerOf(m, a), InnerOf(m, b))
}

// TypeString renders a TypeInner for messages.
func TypeString(m *ir.Module, in ir.TypeInner) string {
	return typeString(m, in, 0)
}

func scalarString(s ir.ScalarType) string {
	k := "?"
	switch s.Kind {
	case ir.ScalarSint:
		k = "i"
	case ir.ScalarUint:
		k = "u"
	case ir.ScalarFloat:
		k = "f"
	case ir.ScalarBool:
		return "bool"
	case ir.ScalarAbstractInt:
		return "AbstractInt"
	case ir.ScalarAbstractFloat:
		return "AbstractFloat"
	}
	return fmt.Sprintf("%s%d", k, int(s.Width)*8)
}

func spaceString(s ir.AddressSpace) string {
	names := []string{"function", "private", "workgroup", "uniform", "storage", "push_constant", "handle", "immediate", "task_payload"}
	if int(s) < len(names) {
		return names[s]
	}
	return fmt.Sprintf("space%d", s)
}

func handleString(m *ir.Module, h ir.TypeHandle, depth int) string {
	if int(h) >= len(m.Types) {
		return fmt.Sprintf("<type %d out of range>", h)
	}
	t := m.Types[h]
	if t.Name != "" {
		return fmt.Sprintf("%s#%d", t.Name, h)
	}
	return fmt.Sprintf("%s#%d", typeString(m, t.Inner, depth+1), h)
}

func typeString(m *ir.Module, in ir.TypeInner, depth int) string {
	if depth > 8 {
		return "…"
	}
	switch x := in.(type) {
	case nil:
		return "<nil>"
	case ir.ScalarType:
		return scalarString(x)
	case ir.VectorType:
		return fmt.Sprintf("vec%d<%s>", x.Size, scalarString(x.Scalar))
	case ir.MatrixType:
		return fmt.Sprintf("mat%dx%d<%s>", x.Columns, x.Rows, scalarString(x.Scalar))
	case ir.AtomicType:
		return fmt.Sprintf("atomic<%s>", scalarString(x.Scalar))
	case ir.PointerType:
		return fmt.Sprintf("ptr<%s,%s>", spaceString(x.Space), handleString(m, x.Base, depth))
	case ir.ValuePointerType:
		if x.Size != nil {
			return fmt.Sprintf("valueptr<%s,vec%d<%s>>", spaceString(x.Space), *x.Size, scalarString(x.Scalar))
		}
		return fmt.Sprintf("valueptr<%s,%s>", spaceString(x.Space), scalarString(x.Scalar))
	case ir.ArrayType:
		if x.Size.Constant != nil {
			return fmt.Sprintf("array<%s,%d,stride=%d>", handleString(m, x.Base, depth), *x.Size.Constant, x.Stride)
		}
		return fmt.Sprintf("array<%s,stride=%d>", handleString(m, x.Base, depth), x.Stride)
	case ir.BindingArrayType:
		return fmt.Sprintf("binding_array<%s>", handleString(m, x.Base, depth))
	case ir.StructType:
		var sb strings.Builder
		sb.WriteString("struct{")
		for i, mem := range x.Members {
			if i > 0 {
				sb.WriteString(",")
			}
			sb.WriteString(mem.Name + ":" + handleString(m, mem.Type, depth))
		}
		sb.WriteString("}")
		return sb.String()
	case ir.SamplerType:
		if x.Comparison {
			return "sampler_comparison"
		}
		return "sampler"
	case ir.ImageType:
		return fmt.Sprintf("image{dim=%d arrayed=%v class=%d ms=%v kind=%d fmt=%d}", x.Dim, x.Arrayed, x.Class, x.Multisampled, x.SampledKind, x.StorageFormat)
	case ir.AccelerationStructureType:
		return "acceleration_structure"
	case ir.RayQueryType:
		return "ray_query"
	}
	return fmt.Sprintf("%T", in)
}

// ResString renders a resolution for messages.
func ResString(m *ir.Module, r TypeRes) string {
	if r.Handle != nil {
		return handleString(m, *r.Handle, 0)
	}
	return typeString(m, r.Inner, 0)
}
