package irx_test

import (
	"strings"
	"testing"

	"github.com/gogpu/naga"
	"github.com/gogpu/naga/ir"

	"verif/internal/irx"
)

const baseSrc = `
struct Params { scale: f32, offset: vec4<f32>, n: u32 }
struct Buf { cnt: atomic<u32>, data: array<f32> }
@group(0) @binding(0) var<uniform> params: Params;
@group(0) @binding(1) var<storage, read_write> buf: Buf;
var<private> acc: f32;

fn helper(x: f32, k: u32) -> f32 {
    var s = x;
    for (var i = 0u; i < k; i++) {
        if s > 10.0 {
            return s;
        }
        s = s * params.scale + f32(i);
    }
    return s;
}

@compute @workgroup_size(4, 2, 1)
fn main(@builtin(global_invocation_id) gid: vec3<u32>) {
    let i = gid.x;
    let old = atomicAdd(&buf.cnt, 1u);
    let v = helper(buf.data[i], params.n) + f32(old);
    acc = v;
    buf.data[i] = acc + params.offset.x;
}

struct VOut { @builtin(position) pos: vec4<f32>, @location(0) uv: vec2<f32> }
@vertex
fn vs(@builtin(vertex_index) vi: u32, @location(0) p: vec2<f32>) -> VOut {
    return VOut(vec4<f32>(p, 0.0, 1.0) + params.offset, p * f32(vi));
}
`

func lowerSrc(t testing.TB, src string) *ir.Module {
	t.Helper()
	ast, err := naga.Parse(src)
	if err != nil {
		t.Fatalf("parse: %v", err)
	}
	m, err := naga.LowerWithSource(ast, src)
	if err != nil {
		t.Fatalf("lower: %v", err)
	}
	return m
}

func TestBaseIsClean(t *testing.T) {
	m := lowerSrc(t, baseSrc)
	if is := irx.StrictValidate(m); len(is) != 0 {
		for _, i := range is {
			t.Errorf("%s", i)
		}
	}
}

func TestHashDeterministicAndComplete(t *testing.T) {
	a, b := lowerSrc(t, baseSrc), lowerSrc(t, baseSrc)
	if irx.Hash(a) != irx.Hash(b) || !irx.Equal(a, b) {
		t.Fatalf("two lowerings of the same source differ: %s", irx.Diff(a, b))
	}
	if irx.Hash(a) != irx.Hash(a) {
		t.Fatal("hash not stable")
	}
	// every kind of edit changes the hash and is located by Diff
	edits := []struct {
		name string
		f    func(m *ir.Module)
		path string
	}{
		{"expression operand", func(m *ir.Module) {
			f := &m.Functions[0]
			for i, e := range f.Expressions {
				if b, ok := e.Kind.(ir.ExprBinary); ok {
					b.Left, b.Right = b.Right, b.Left
					f.Expressions[i].Kind = b
					return
				}
			}
		}, "Functions[0].Expressions["},
		{"statement", func(m *ir.Module) {
			m.Functions[0].Body = append(m.Functions[0].Body, ir.Statement{Kind: ir.StmtKill{}})
		}, "Functions[0].Body"},
		{"binding", func(m *ir.Module) { m.GlobalVariables[0].Binding.Binding = 7 }, "GlobalVariables[0].Binding.Binding"},
		{"workgroup", func(m *ir.Module) { m.EntryPoints[0].Workgroup[1] = 9 }, "EntryPoints[0].Workgroup[1]"},
		{"type inner", func(m *ir.Module) { m.Types[0].Inner = ir.ScalarType{Kind: ir.ScalarBool, Width: 1} }, "Types[0].Inner"},
		{"pointer target", func(m *ir.Module) {
			for i := range m.Types {
				if st, ok := m.Types[i].Inner.(ir.StructType); ok {
					for j := range st.Members {
						if st.Members[j].Binding != nil {
							var nb ir.Binding = ir.LocationBinding{Location: 5}
							st.Members[j].Binding = &nb
							m.Types[i].Inner = st
							return
						}
					}
				}
			}
		}, ".Binding"},
		{"expression type", func(m *ir.Module) {
			m.Functions[0].ExpressionTypes[0] = ir.TypeResolution{Value: ir.ScalarType{Kind: ir.ScalarUint, Width: 4}}
		}, "Functions[0].ExpressionTypes[0]"},
	}
	for _, e := range edits {
		m := lowerSrc(t, baseSrc)
		e.f(m)
		if irx.Hash(m) == irx.Hash(a) {
			t.Errorf("%s: hash unchanged", e.name)
		}
		if irx.HashNoNames(m) == irx.HashNoNames(a) {
			t.Errorf("%s: name-blind hash unchanged", e.name)
		}
		d := irx.Diff(a, m)
		if !strings.Contains(d, e.path) {
			t.Errorf("%s: Diff = %q, want path containing %q", e.name, d, e.path)
		}
	}
}

func TestHashNoNames(t *testing.T) {
	src1 := "struct S { a: f32 }\nfn foo(x: f32) -> f32 { let y = x * 2.0; var s: S; s.a = y; return s.a; }\n"
	src2 := "struct T { b: f32 }\nfn bar(p: f32) -> f32 { let q = p * 2.0; var r: T; r.b = q; return r.b; }\n"
	a, b := lowerSrc(t, src1), lowerSrc(t, src2)
	if irx.Hash(a) == irx.Hash(b) {
		t.Error("renamed programs have the same full hash")
	}
	if irx.HashNoNames(a) != irx.HashNoNames(b) {
		t.Errorf("renamed programs differ without names: %s", irx.DiffNoNames(a, b))
	}
	if d := irx.Diff(a, b); !strings.Contains(d, "Name") {
		t.Errorf("Diff = %q, want a Name path", d)
	}
	// the key set of NamedExpressions still counts
	c := lowerSrc(t, src1)
	for h := range c.Functions[0].NamedExpressions {
		delete(c.Functions[0].NamedExpressions, h)
		break
	}
	if irx.HashNoNames(a) == irx.HashNoNames(c) {
		t.Error("dropping a named expression is invisible to HashNoNames")
	}
	// nil and empty slices / maps are the same
	d := lowerSrc(t, src1)
	if d.Overrides == nil {
		d.Overrides = []ir.Override{}
	}
	if d.Functions[0].NamedExpressions == nil {
		d.Functions[0].NamedExpressions = map[ir.ExpressionHandle]string{}
	}
	if irx.Hash(a) != irx.Hash(d) || !irx.Equal(a, d) {
		t.Error("nil vs empty slice changes the hash")
	}
}

func TestOperandsExplicitMatchesReflective(t *testing.T) {
	m := lowerSrc(t, baseSrc)
	check := func(f *ir.Function) {
		for i, e := range f.Expressions {
			a, b := irx.Operands(e.Kind), irx.OperandsReflect(e.Kind)
			if len(a) != len(b) {
				t.Errorf("[%d] %T: explicit %v reflective %v", i, e.Kind, a, b)
				continue
			}
			seen := map[ir.ExpressionHandle]int{}
			for _, h := range a {
				seen[h]++
			}
			for _, h := range b {
				seen[h]--
			}
			for h, n := range seen {
				if n != 0 {
					t.Errorf("[%d] %T: operand %d differs", i, e.Kind, h)
				}
			}
		}
	}
	for i := range m.Functions {
		check(&m.Functions[i])
	}
	for i := range m.EntryPoints {
		check(&m.EntryPoints[i].Function)
	}
}

// ---- rule sensitivity: hand-made breaches of the contract ---------------------------------

func findStmt(b []ir.Statement, pred func(ir.StatementKind) bool) (*[]ir.Statement, int) {
	for i := range b {
		if pred(b[i].Kind) {
			return &b, i
		}
	}
	return nil, -1
}

func firstEmit(f *ir.Function) int {
	for i, s := range f.Body {
		if _, ok := s.Kind.(ir.StmtEmit); ok {
			return i
		}
	}
	return -1
}

func TestRulesFire(t *testing.T) {
	u32p := func(v uint32) *uint32 { return &v }
	cases := []struct {
		name string
		rule string
		f    func(t *testing.T, m *ir.Module)
	}{
		{"handle out of range", irx.RuleHandleRange, func(t *testing.T, m *ir.Module) {
			f := &m.EntryPoints[0].Function
			f.Expressions[len(f.Expressions)-1].Kind = ir.ExprLoad{Pointer: 10000}
		}},
		{"forward operand", irx.RuleExprOrder, func(t *testing.T, m *ir.Module) {
			f := &m.Functions[0]
			for i, e := range f.Expressions {
				if _, ok := e.Kind.(ir.ExprBinary); ok {
					f.Expressions[i].Kind = ir.ExprUnary{Op: ir.UnaryNegate, Expr: ir.ExpressionHandle(i + 1)}
					return
				}
			}
		}},
		{"type refers forward", irx.RuleTypeOrder, func(t *testing.T, m *ir.Module) {
			m.Types = append(m.Types, ir.Type{Inner: ir.ArrayType{Base: ir.TypeHandle(len(m.Types) + 1), Size: ir.ArraySize{Constant: u32p(2)}, Stride: 4}},
				ir.Type{Inner: ir.ScalarType{Kind: ir.ScalarFloat, Width: 2}})
		}},
		{"abstract type", irx.RuleAbstractType, func(t *testing.T, m *ir.Module) {
			m.Types = append(m.Types, ir.Type{Inner: ir.VectorType{Size: 2, Scalar: ir.ScalarType{Kind: ir.ScalarAbstractInt, Width: 8}}})
		}},
		{"abstract literal", irx.RuleAbstractLiteral, func(t *testing.T, m *ir.Module) {
			f := &m.Functions[0]
			for i, e := range f.Expressions {
				if _, ok := e.Kind.(ir.Literal); ok {
					f.Expressions[i].Kind = ir.Literal{Value: ir.LiteralAbstractFloat(10)}
					return
				}
			}
		}},
		{"duplicate anonymous type", irx.RuleDedup, func(t *testing.T, m *ir.Module) {
			for _, ty := range m.Types {
				if v, ok := ty.Inner.(ir.VectorType); ok && ty.Name == "" {
					m.Types = append(m.Types, ir.Type{Inner: v})
					return
				}
			}
		}},
		{"array stride is part of the type", "", func(t *testing.T, m *ir.Module) {
			m.Types = append(m.Types, ir.Type{Inner: ir.ArrayType{Base: 0, Size: ir.ArraySize{Constant: u32p(3)}, Stride: 4}},
				ir.Type{Inner: ir.ArrayType{Base: 0, Size: ir.ArraySize{Constant: u32p(3)}, Stride: 16}})
		}},
		{"recorded type wrong", irx.RuleTypingMismatch, func(t *testing.T, m *ir.Module) {
			f := &m.Functions[0]
			for i, e := range f.Expressions {
				if _, ok := e.Kind.(ir.ExprBinary); ok {
					f.ExpressionTypes[i] = ir.TypeResolution{Value: ir.VectorType{Size: 3, Scalar: ir.ScalarType{Kind: ir.ScalarFloat, Width: 4}}}
					return
				}
			}
		}},
		{"recorded type missing", irx.RuleTypingMissing, func(t *testing.T, m *ir.Module) {
			f := &m.Functions[0]
			f.ExpressionTypes[len(f.ExpressionTypes)-1] = ir.TypeResolution{}
		}},
		{"emit dropped", irx.RuleEmitMissing, func(t *testing.T, m *ir.Module) {
			f := &m.EntryPoints[0].Function
			i := firstEmit(f)
			f.Body = append(f.Body[:i:i], f.Body[i+1:]...)
		}},
		{"emit twice", irx.RuleEmitMultiple, func(t *testing.T, m *ir.Module) {
			f := &m.EntryPoints[0].Function
			i := firstEmit(f)
			f.Body = append(f.Body[:i+1:i+1], f.Body[i:]...)
		}},
		{"emit after use", irx.RuleEmitUseBefore, func(t *testing.T, m *ir.Module) {
			f := &m.EntryPoints[0].Function
			// move the Emit that precedes the last Store behind it
			for i := len(f.Body) - 1; i > 0; i-- {
				if _, ok := f.Body[i].Kind.(ir.StmtStore); ok {
					if _, ok := f.Body[i-1].Kind.(ir.StmtEmit); ok {
						f.Body[i], f.Body[i-1] = f.Body[i-1], f.Body[i]
						return
					}
				}
			}
			t.Fatal("no Emit+Store pair")
		}},
		{"emitted inside an if, used after it", irx.RuleEmitUseBefore, func(t *testing.T, m *ir.Module) {
			f := &m.EntryPoints[0].Function
			for i := len(f.Body) - 1; i > 0; i-- {
				if _, ok := f.Body[i].Kind.(ir.StmtStore); ok {
					if e, ok := f.Body[i-1].Kind.(ir.StmtEmit); ok {
						f.Body[i-1].Kind = ir.StmtBlock{Block: ir.Block{{Kind: e}}}
						return
					}
				}
			}
			t.Fatal("no Emit+Store pair")
		}},
		{"literal inside an emit range", irx.RuleEmitPre, func(t *testing.T, m *ir.Module) {
			f := &m.Functions[0]
			for i, e := range f.Expressions {
				if _, ok := e.Kind.(ir.Literal); ok && i > 0 {
					f.Body = append([]ir.Statement{{Kind: ir.StmtEmit{Range: ir.Range{Start: ir.ExpressionHandle(i), End: ir.ExpressionHandle(i + 1)}}}}, f.Body...)
					return
				}
			}
		}},
		{"call result inside an emit range", irx.RuleEmitResult, func(t *testing.T, m *ir.Module) {
			f := &m.EntryPoints[0].Function
			for i, e := range f.Expressions {
				if _, ok := e.Kind.(ir.ExprCallResult); ok {
					f.Body = append(f.Body, ir.Statement{Kind: ir.StmtEmit{Range: ir.Range{Start: ir.ExpressionHandle(i), End: ir.ExpressionHandle(i + 1)}}})
					return
				}
			}
		}},
		{"call statement dropped", irx.RuleResultNone, func(t *testing.T, m *ir.Module) {
			f := &m.EntryPoints[0].Function
			b, i := findStmt(f.Body, func(k ir.StatementKind) bool { _, ok := k.(ir.StmtCall); return ok })
			(*b)[i].Kind = ir.StmtBarrier{}
		}},
		{"call statement duplicated", irx.RuleResultMultiple, func(t *testing.T, m *ir.Module) {
			f := &m.EntryPoints[0].Function
			_, i := findStmt(f.Body, func(k ir.StatementKind) bool { _, ok := k.(ir.StmtCall); return ok })
			f.Body = append(f.Body[:i+1:i+1], f.Body[i:]...)
		}},
		{"function falls off the end", irx.RuleReturnMissing, func(t *testing.T, m *ir.Module) {
			f := &m.Functions[0]
			f.Body = f.Body[:len(f.Body)-1]
		}},
		{"return without value", irx.RuleReturnNoValue, func(t *testing.T, m *ir.Module) {
			f := &m.Functions[0]
			f.Body[len(f.Body)-1].Kind = ir.StmtReturn{}
		}},
		{"return of the wrong type", irx.RuleReturnType, func(t *testing.T, m *ir.Module) {
			f := &m.Functions[0]
			h := ir.ExpressionHandle(1) // the u32 argument k
			f.Body[len(f.Body)-1].Kind = ir.StmtReturn{Value: &h}
		}},
		{"value returned from a void function", irx.RuleReturnInVoid, func(t *testing.T, m *ir.Module) {
			f := &m.EntryPoints[0].Function
			h := ir.ExpressionHandle(0)
			f.Body[len(f.Body)-1].Kind = ir.StmtReturn{Value: &h}
		}},
		{"store of the wrong type", irx.RuleStoreType, func(t *testing.T, m *ir.Module) {
			f := &m.EntryPoints[0].Function
			b, i := findStmt(f.Body, func(k ir.StatementKind) bool { _, ok := k.(ir.StmtStore); return ok })
			s := (*b)[i].Kind.(ir.StmtStore)
			s.Value = 0 // gid: vec3<u32>
			(*b)[i].Kind = s
		}},
		{"store through a value", irx.RuleStorePointer, func(t *testing.T, m *ir.Module) {
			f := &m.EntryPoints[0].Function
			b, i := findStmt(f.Body, func(k ir.StatementKind) bool { _, ok := k.(ir.StmtStore); return ok })
			s := (*b)[i].Kind.(ir.StmtStore)
			s.Pointer = 0
			(*b)[i].Kind = s
		}},
		{"call with a missing argument", irx.RuleCallArgc, func(t *testing.T, m *ir.Module) {
			f := &m.EntryPoints[0].Function
			b, i := findStmt(f.Body, func(k ir.StatementKind) bool { _, ok := k.(ir.StmtCall); return ok })
			c := (*b)[i].Kind.(ir.StmtCall)
			c.Arguments = c.Arguments[:1]
			(*b)[i].Kind = c
		}},
		{"call with a wrong argument", irx.RuleCallArgType, func(t *testing.T, m *ir.Module) {
			f := &m.EntryPoints[0].Function
			b, i := findStmt(f.Body, func(k ir.StatementKind) bool { _, ok := k.(ir.StmtCall); return ok })
			c := (*b)[i].Kind.(ir.StmtCall)
			c.Arguments = []ir.ExpressionHandle{c.Arguments[1], c.Arguments[0]}
			(*b)[i].Kind = c
		}},
		{"call without its result", irx.RuleCallResult, func(t *testing.T, m *ir.Module) {
			f := &m.EntryPoints[0].Function
			b, i := findStmt(f.Body, func(k ir.StatementKind) bool { _, ok := k.(ir.StmtCall); return ok })
			c := (*b)[i].Kind.(ir.StmtCall)
			c.Result = nil
			(*b)[i].Kind = c
		}},
		{"entry-point argument without binding", irx.RuleEPMissing, func(t *testing.T, m *ir.Module) {
			m.EntryPoints[0].Function.Arguments[0].Binding = nil
		}},
		{"two outputs at one location", irx.RuleEPDupLocation, func(t *testing.T, m *ir.Module) {
			ep := &m.EntryPoints[1]
			st := m.Types[ep.Function.Result.Type].Inner.(ir.StructType)
			var nb ir.Binding = ir.LocationBinding{Location: 0}
			st.Members[0].Binding = &nb
			m.Types[ep.Function.Result.Type].Inner = st
		}},
		{"two inputs with one builtin", irx.RuleEPDupBuiltin, func(t *testing.T, m *ir.Module) {
			ep := &m.EntryPoints[1]
			ep.Function.Arguments[1].Binding = ep.Function.Arguments[0].Binding
		}},
		{"zero workgroup size", irx.RuleEPWorkgroup, func(t *testing.T, m *ir.Module) { m.EntryPoints[0].Workgroup[2] = 0 }},
		{"compute builtin in a vertex shader", irx.RuleEPStage, func(t *testing.T, m *ir.Module) {
			var nb ir.Binding = ir.BuiltinBinding{Builtin: ir.BuiltinLocalInvocationIndex}
			m.EntryPoints[1].Function.Arguments[0].Binding = &nb
		}},
		{"uniform without binding", irx.RuleGlobalNoBinding, func(t *testing.T, m *ir.Module) { m.GlobalVariables[0].Binding = nil }},
		{"private with binding", irx.RuleGlobalBinding, func(t *testing.T, m *ir.Module) {
			for i := range m.GlobalVariables {
				if m.GlobalVariables[i].Space == ir.SpacePrivate {
					m.GlobalVariables[i].Binding = &ir.ResourceBinding{Group: 3, Binding: 3}
				}
			}
		}},
	}
	for _, c := range cases {
		m := lowerSrc(t, baseSrc)
		if m.EntryPoints[0].Stage != ir.StageCompute || m.EntryPoints[1].Stage != ir.StageVertex || m.Functions[0].Name != "helper" {
			t.Fatal("base module layout changed")
		}
		c.f(t, m)
		issues := irx.StrictValidate(m)
		if c.rule == "" {
			if len(issues) != 0 {
				t.Errorf("%s: unexpected issues %v", c.name, issues)
			}
			continue
		}
		found := false
		for _, is := range issues {
			if is.Rule == c.rule {
				found = true
			}
		}
		if !found {
			t.Errorf("%s: rule %s did not fire; got %v", c.name, c.rule, issues)
		}
	}
}

func TestTypifyAgreesOnBase(t *testing.T) {
	m := lowerSrc(t, baseSrc)
	fs := []*ir.Function{&m.Functions[0], &m.EntryPoints[0].Function, &m.EntryPoints[1].Function}
	n := 0
	for _, f := range fs {
		for h := range f.Expressions {
			r, err := irx.Typify(m, f, ir.ExpressionHandle(h))
			if err != nil {
				t.Errorf("%s [%d]: %v", f.Name, h, err)
				continue
			}
			if !irx.ResEqual(m, r, irx.FromIR(f.ExpressionTypes[h])) {
				t.Errorf("%s [%d]: inferred %s recorded %s", f.Name, h, irx.ResString(m, r), irx.ResString(m, irx.FromIR(f.ExpressionTypes[h])))
			}
			n++
		}
	}
	if n < 40 {
		t.Errorf("only %d expressions typed", n)
	}
}
