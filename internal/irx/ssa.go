package irx

import (
	"fmt"

	"github.com/gogpu/naga/ir"
)

// Rules of the DXIL-internal SSA forms (ExprAlias / ExprPhi).
const (
	RuleAliasUndefined = "ssa.alias-undefined"        // the alias source has no value on some path reaching the alias
	RulePhiUndefined   = "ssa.phi-incoming-undefined" // an incoming has no value at the end of its predecessor
	RulePhiPosition    = "ssa.phi-position"           // a phi that does not directly follow the If / Switch its keys refer to
)

// CheckSSA judges, for every function, that
//   - the source of every ExprAlias is defined (emitted, produced by a statement,
//     or an always-available kind) on every path that reaches the Emit of the alias;
//   - every ExprPhi is emitted directly after an If / Switch (only other phi
//     emits in between), its predecessor keys match that statement, and each
//     incoming is defined at the end of the arm / case it comes from.
//
// "Defined" is dominance over the structured control flow: after an If, what
// both arms (that fall through) defined; nothing defined inside a Switch or a
// Loop counts after it.
func CheckSSA(m *ir.Module) []Issue {
	var out []Issue
	for i := range m.Functions {
		out = append(out, checkSSAFn(fmt.Sprintf("fn %s(#%d)", m.Functions[i].Name, i), &m.Functions[i])...)
	}
	for i := range m.EntryPoints {
		out = append(out, checkSSAFn("ep "+m.EntryPoints[i].Name, &m.EntryPoints[i].Function)...)
	}
	return out
}

type defset []bool

func (d defset) clone() defset { return append(defset(nil), d...) }

func intersect(a, b defset) defset {
	out := make(defset, len(a))
	for i := range a {
		out[i] = a[i] && b[i]
	}
	return out
}

type ssaBranch struct {
	kind     int // 1 if, 2 switch
	armEnd   []defset
	armFalls []bool
}

type ssaWalker struct {
	where  string
	f      *ir.Function
	issues []Issue
}

func (w *ssaWalker) add(rule string, h ir.ExpressionHandle, format string, a ...any) {
	w.issues = append(w.issues, Issue{Rule: rule, Where: fmt.Sprintf("%s [%d]", w.where, h), Msg: fmt.Sprintf(format, a...),
		Fn: w.f, Expr: int(h), Value: -1})
}

func (w *ssaWalker) avail(d defset, h ir.ExpressionHandle) bool {
	if int(h) >= len(w.f.Expressions) {
		return false
	}
	return ClassOf(w.f.Expressions[h].Kind) == ClassPreEmit || d[h]
}

func checkSSAFn(where string, f *ir.Function) []Issue {
	w := &ssaWalker{where: where, f: f}
	w.walk(ir.Block(f.Body), make(defset, len(f.Expressions)), 0)
	return w.issues
}

// walk returns the definitions at the end of the block and whether control falls out of it.
func (w *ssaWalker) walk(b ir.Block, def defset, depth int) (defset, bool) {
	if depth > 2000 {
		return def, true
	}
	f := w.f
	var last *ssaBranch
	for _, s := range b {
		switch k := s.Kind.(type) {
		case ir.StmtEmit:
			onlyPhi := k.Range.End > k.Range.Start
			for h := k.Range.Start; h < k.Range.End && int(h) < len(f.Expressions); h++ {
				switch e := f.Expressions[h].Kind.(type) {
				case ir.ExprAlias:
					onlyPhi = false
					if !w.avail(def, e.Source) {
						w.add(RuleAliasUndefined, h, "alias of [%d] %s, which is not defined on every path reaching this Emit", e.Source, kindNameAt(f, e.Source))
					}
				case ir.ExprPhi:
					w.phi(h, e, last)
				default:
					onlyPhi = false
				}
				def[h] = true
			}
			if !onlyPhi {
				last = nil
			}
			continue
		case ir.StmtBlock:
			d, falls := w.walk(k.Block, def, depth+1)
			def = d
			if !falls {
				return def, false
			}
		case ir.StmtIf:
			a, af := w.walk(k.Accept, def.clone(), depth+1)
			r, rf := w.walk(k.Reject, def.clone(), depth+1)
			last = &ssaBranch{kind: 1, armEnd: []defset{a, r}, armFalls: []bool{af, rf}}
			switch {
			case af && rf:
				def = intersect(a, r)
			case af:
				def = a
			case rf:
				def = r
			default:
				return def, false
			}
			continue
		case ir.StmtSwitch:
			br := &ssaBranch{kind: 2}
			for ci := range k.Cases {
				d, falls := w.walk(k.Cases[ci].Body, def.clone(), depth+1)
				br.armEnd = append(br.armEnd, d)
				br.armFalls = append(br.armFalls, falls)
			}
			last = br
			continue
		case ir.StmtLoop:
			d, _ := w.walk(k.Body, def.clone(), depth+1)
			w.walk(k.Continuing, d, depth+1)
		case ir.StmtReturn, ir.StmtKill, ir.StmtBreak, ir.StmtContinue:
			return def, false
		default:
			_, results := StmtUses(s.Kind)
			for _, r := range results {
				if int(r) < len(def) {
					def[r] = true
				}
			}
		}
		last = nil
	}
	return def, true
}

func kindNameAt(f *ir.Function, h ir.ExpressionHandle) string {
	if int(h) >= len(f.Expressions) {
		return "<out of range>"
	}
	return kindName(f.Expressions[h].Kind)
}

func (w *ssaWalker) phi(h ir.ExpressionHandle, e ir.ExprPhi, last *ssaBranch) {
	if last == nil {
		w.add(RulePhiPosition, h, "phi is not emitted directly after an If or a Switch")
		return
	}
	for _, in := range e.Incoming {
		arm := -1
		switch in.PredKey {
		case ir.PhiPredIfAccept:
			if last.kind == 1 {
				arm = 0
			}
		case ir.PhiPredIfReject:
			if last.kind == 1 {
				arm = 1
			}
		case ir.PhiPredSwitchCase:
			if last.kind == 2 && int(in.CaseIdx) < len(last.armEnd) {
				arm = int(in.CaseIdx)
			}
		}
		if arm < 0 {
			w.add(RulePhiPosition, h, "phi incoming with predecessor key %d / case %d does not match the preceding statement", in.PredKey, in.CaseIdx)
			continue
		}
		if !last.armFalls[arm] && last.kind == 1 {
			continue // the arm never reaches the merge point
		}
		if !w.avail(last.armEnd[arm], in.Value) {
			w.add(RulePhiUndefined, h, "incoming [%d] %s is not defined at the end of its predecessor (key %d, case %d)", in.Value, kindNameAt(w.f, in.Value), in.PredKey, in.CaseIdx)
		}
	}
	if last.kind == 1 {
		need := map[ir.PhiPredKey]bool{}
		for _, in := range e.Incoming {
			need[in.PredKey] = true
		}
		if (last.armFalls[0] && !need[ir.PhiPredIfAccept]) || (last.armFalls[1] && !need[ir.PhiPredIfReject]) {
			w.add(RulePhiPosition, h, "phi lacks an incoming for an arm of the preceding If that reaches it")
		}
	}
}
