package irx

import (
	"fmt"
	"strings"

	"github.com/gogpu/naga/ir"
)

// DumpFunction renders the expression arena (with recorded types) and the
// statement tree of a function, for failure messages and debugging.
func DumpFunction(m *ir.Module, f *ir.Function) string {
	var sb strings.Builder
	fmt.Fprintf(&sb, "fn %s(", f.Name)
	for i, a := range f.Arguments {
		if i > 0 {
			sb.WriteString(", ")
		}
		fmt.Fprintf(&sb, "%s: %s", a.Name, handleString(m, a.Type, 0))
	}
	sb.WriteString(")")
	if f.Result != nil {
		fmt.Fprintf(&sb, " -> %s", handleString(m, f.Result.Type, 0))
	}
	sb.WriteString("\n")
	for i, lv := range f.LocalVars {
		fmt.Fprintf(&sb, "  local %d %s: %s", i, lv.Name, handleString(m, lv.Type, 0))
		if lv.Init != nil {
			fmt.Fprintf(&sb, " = [%d]", *lv.Init)
		}
		sb.WriteString("\n")
	}
	for i, e := range f.Expressions {
		ty := "<no type>"
		if i < len(f.ExpressionTypes) {
			ty = ResString(m, FromIR(f.ExpressionTypes[i]))
		}
		name := ""
		if n, ok := f.NamedExpressions[ir.ExpressionHandle(i)]; ok {
			name = " \"" + n + "\""
		}
		fmt.Fprintf(&sb, "  [%d]%s %s : %s\n", i, name, kindString(e.Kind), ty)
	}
	dumpBlock(&sb, ir.Block(f.Body), 1)
	return sb.String()
}

func kindString(k any) string {
	s := fmt.Sprintf("%T%+v", k, k)
	s = strings.ReplaceAll(s, "ir.", "")
	if len(s) > 200 {
		s = s[:200] + "…"
	}
	return s
}

func dumpBlock(sb *strings.Builder, b ir.Block, depth int) {
	ind := strings.Repeat("  ", depth)
	if depth > 200 {
		sb.WriteString(ind + "…\n")
		return
	}
	for _, s := range b {
		switch k := s.Kind.(type) {
		case ir.StmtEmit:
			fmt.Fprintf(sb, "%sEmit [%d..%d)\n", ind, k.Range.Start, k.Range.End)
		case ir.StmtBlock:
			fmt.Fprintf(sb, "%sBlock {\n", ind)
			dumpBlock(sb, k.Block, depth+1)
			fmt.Fprintf(sb, "%s}\n", ind)
		case ir.StmtIf:
			fmt.Fprintf(sb, "%sIf [%d] {\n", ind, k.Condition)
			dumpBlock(sb, k.Accept, depth+1)
			fmt.Fprintf(sb, "%s} else {\n", ind)
			dumpBlock(sb, k.Reject, depth+1)
			fmt.Fprintf(sb, "%s}\n", ind)
		case ir.StmtSwitch:
			fmt.Fprintf(sb, "%sSwitch [%d] {\n", ind, k.Selector)
			for _, c := range k.Cases {
				fmt.Fprintf(sb, "%s case %T(%v) fallthrough=%v:\n", ind, c.Value, c.Value, c.FallThrough)
				dumpBlock(sb, c.Body, depth+1)
			}
			fmt.Fprintf(sb, "%s}\n", ind)
		case ir.StmtLoop:
			fmt.Fprintf(sb, "%sLoop {\n", ind)
			dumpBlock(sb, k.Body, depth+1)
			fmt.Fprintf(sb, "%s} continuing {\n", ind)
			dumpBlock(sb, k.Continuing, depth+1)
			if k.BreakIf != nil {
				fmt.Fprintf(sb, "%s} break if [%d]\n", ind, *k.BreakIf)
			} else {
				fmt.Fprintf(sb, "%s}\n", ind)
			}
		case ir.StmtReturn:
			if k.Value != nil {
				fmt.Fprintf(sb, "%sReturn [%d]\n", ind, *k.Value)
			} else {
				fmt.Fprintf(sb, "%sReturn\n", ind)
			}
		case ir.StmtCall:
			if k.Result != nil {
				fmt.Fprintf(sb, "%sCall fn%d%v -> [%d]\n", ind, k.Function, k.Arguments, *k.Result)
			} else {
				fmt.Fprintf(sb, "%sCall fn%d%v\n", ind, k.Function, k.Arguments)
			}
		case ir.StmtAtomic:
			if k.Result != nil {
				fmt.Fprintf(sb, "%sAtomic %T ptr=[%d] value=[%d] -> [%d]\n", ind, k.Fun, k.Pointer, k.Value, *k.Result)
			} else {
				fmt.Fprintf(sb, "%sAtomic %T ptr=[%d] value=[%d]\n", ind, k.Fun, k.Pointer, k.Value)
			}
		default:
			fmt.Fprintf(sb, "%s%s\n", ind, kindString(s.Kind))
		}
	}
}
