package irx_test

import (
	"fmt"
	"os"
	"sort"
	"strings"
	"testing"

	"github.com/gogpu/naga"
	"pgregory.net/rapid"

	"verif/internal/ev"
	"verif/internal/irx"
	"verif/internal/wgen"
	"verif/internal/wref"
	"verif/internal/xrun"
)

// runCase lowers the case's WGSL and interprets it; got holds the final buffers.
func runCase(c *xrun.Case, reverse bool) (res *irx.RunResult, got map[[2]int][]byte, rejected string, err error) {
	ast, perr := naga.Parse(c.WGSL)
	if perr != nil {
		return nil, nil, "parse: " + perr.Error(), nil
	}
	m, lerr := naga.LowerWithSource(ast, c.WGSL)
	if lerr != nil {
		return nil, nil, "lower: " + lerr.Error(), nil
	}
	bufs := map[[2]uint32][]byte{}
	for k, b := range c.InitialBuffers() {
		bufs[[2]uint32{uint32(k[0]), uint32(k[1])}] = b
	}
	res, err = irx.Run(m, irx.RunConfig{Entry: c.Entry, Buffers: bufs, NumWorkgroups: c.NumWG, StepLimit: c.StepBudget(), ReverseOrder: reverse})
	got = map[[2]int][]byte{}
	for k, b := range bufs {
		got[[2]int{int(k[0]), int(k[1])}] = b
	}
	return res, got, "", err
}

// TestInterpAgainstReference validates the interpreter: on generated exec-profile
// programs the lowered module, interpreted, must reproduce what the independent
// WGSL reference evaluator computes.  Differences are interpreter bugs or lowering
// bugs (C01 / C09 territory); they are collected by class, the test fails only when
// IRX_REF_STRICT is set (known lowering defects exist on the pinned tree).
func TestInterpAgainstReference(t *testing.T) {
	classes := map[string]int{}
	first := map[string]string{}
	n, compared := 0, 0
	rapid.Check(t, func(t *rapid.T) {
		f := wgen.DefaultFeatures()
		f.ConstOK = wref.ConstOK
		f.Off = func(tag string) bool { return ev.ExcludedQuiet(tag) || ev.ExcludedQuiet("spv."+tag) }
		gc := wgen.GenExec(t, f)
		c, _, discard, err := xrun.Build(gc, nil)
		n++
		if err != nil {
			classes["harness: "+firstWords(err.Error(), 6)]++
			return
		}
		if discard != "" {
			return
		}
		res, got, rej, err := runCase(c, false)
		key := ""
		switch {
		case rej != "":
			key = "rejected: " + firstWords(rej, 8)
		case err != nil:
			key = "error: " + err.Error()
		case res.Trap != "":
			key = "trap: " + firstWords(res.Trap, 6)
		case len(res.Poison) > 0:
			key = "poison: " + res.Poison[0]
		default:
			compared++
			if ok, msg := c.Compare(got); !ok {
				key = "mismatch: " + firstWords(msg, 3)
			}
		}
		if key != "" {
			classes[key]++
			if s, ok := first[key]; !ok || len(c.WGSL) < len(s) {
				first[key] = c.WGSL
			}
		}
	})
	var keys []string
	for k := range classes {
		keys = append(keys, k)
	}
	sort.Strings(keys)
	fmt.Printf("REF: %d programs, %d compared\n", n, compared)
	dir := os.Getenv("IRX_REF_DIR")
	for i, k := range keys {
		fmt.Printf("REF %5d  %s\n", classes[k], k)
		if dir != "" {
			os.MkdirAll(dir, 0o755)
			os.WriteFile(fmt.Sprintf("%s/ref%02d.wgsl", dir, i), []byte("// "+k+"\n"+first[k]), 0o644)
		}
	}
	if os.Getenv("IRX_REF_STRICT") != "" && len(keys) > 0 {
		t.Errorf("%d classes of differences", len(keys))
	}
}

func firstWords(s string, n int) string {
	if i := strings.IndexByte(s, '\n'); i >= 0 {
		s = s[:i]
	}
	w := strings.Fields(s)
	if len(w) > n {
		w = w[:n]
	}
	return strings.Join(w, " ")
}
