package irx

import (
	"math"

	"github.com/gogpu/naga/ir"

	"verif/internal/wref"
)

// get returns the value of expression h as seen by a use: the value cached by
// its Emit / producing statement, or, for the always-available kinds, the value
// computed on demand.
func (fr *frame) get(h ir.ExpressionHandle) Val {
	if int(h) >= len(fr.f.Expressions) {
		trapf("malformed: expression handle %d out of range", h)
	}
	if fr.valid[h] {
		return fr.cache[h]
	}
	kind := fr.f.Expressions[h].Kind
	if ClassOf(kind) == ClassPreEmit {
		return fr.evalKind(h, kind, fr.get)
	}
	if fr.inv.mc.cfg.Lazy && ClassOf(kind) == ClassEmit && fr.inv.mc.neverEmitted(fr.f)[h] {
		fr.inv.mc.step()
		return fr.eval(h)
	}
	trapf("use-before-emit: [%d] %s has no value at this point", h, kindName(kind))
	return Val{}
}

// neverEmitted marks the expressions of f that no Emit statement covers.
func (mc *machine) neverEmitted(f *ir.Function) []bool {
	if l, ok := mc.unemitted[f]; ok {
		return l
	}
	out := make([]bool, len(f.Expressions))
	for i := range out {
		out[i] = true
	}
	var walk func(b ir.Block, d int)
	walk = func(b ir.Block, d int) {
		if d > 2000 {
			return
		}
		for _, s := range b {
			if e, ok := s.Kind.(ir.StmtEmit); ok {
				for h := e.Range.Start; h < e.Range.End && int(h) < len(out); h++ {
					out[h] = false
				}
			}
			for _, sb := range SubBlocks(s.Kind) {
				walk(sb, d+1)
			}
		}
	}
	walk(ir.Block(f.Body), 0)
	mc.unemitted[f] = out
	return out
}

// eval computes expression h at its Emit statement.
func (fr *frame) eval(h ir.ExpressionHandle) Val {
	kind := fr.f.Expressions[h].Kind
	switch k := kind.(type) {
	case ir.ExprAlias:
		if int(k.Source) >= len(fr.f.Expressions) {
			trapf("malformed: alias source %d out of range", k.Source)
		}
		if fr.valid[k.Source] {
			return fr.cache[k.Source]
		}
		sk := fr.f.Expressions[k.Source].Kind
		if ClassOf(sk) == ClassPreEmit {
			return fr.evalKind(k.Source, sk, fr.get)
		}
		if fr.inv.mc.cfg.Lazy && ClassOf(sk) == ClassEmit && fr.inv.mc.neverEmitted(fr.f)[k.Source] {
			return fr.get(k.Source)
		}
		trapf("alias-before-def: [%d] aliases [%d] %s which has no value at this point", h, k.Source, kindName(sk))
	case ir.ExprPhi:
		return fr.phi(h, k)
	}
	return fr.evalKind(h, kind, fr.get)
}

func (fr *frame) phi(h ir.ExpressionHandle, k ir.ExprPhi) Val {
	for _, in := range k.Incoming {
		match := false
		switch in.PredKey {
		case ir.PhiPredIfAccept:
			match = fr.last.kind == 1 && fr.last.accept
		case ir.PhiPredIfReject:
			match = fr.last.kind == 1 && !fr.last.accept
		case ir.PhiPredSwitchCase:
			match = fr.last.kind == 2 && fr.last.caseIx == int(in.CaseIdx)
		case ir.PhiPredLoopInit:
			match = len(fr.loopFirst) > 0 && fr.loopFirst[len(fr.loopFirst)-1]
		case ir.PhiPredLoopBackEdge:
			match = len(fr.loopFirst) > 0 && !fr.loopFirst[len(fr.loopFirst)-1]
		default:
			trapf("unsupported: phi predecessor key %d", in.PredKey)
		}
		if !match {
			continue
		}
		if int(in.Value) >= len(fr.f.Expressions) {
			trapf("malformed: phi incoming %d out of range", in.Value)
		}
		if fr.valid[in.Value] {
			return fr.cache[in.Value]
		}
		sk := fr.f.Expressions[in.Value].Kind
		if ClassOf(sk) == ClassPreEmit {
			return fr.evalKind(in.Value, sk, fr.get)
		}
		trapf("phi-incoming-undefined: [%d] takes [%d] %s which has no value on the path taken", h, in.Value, kindName(sk))
	}
	trapf("phi-without-predecessor: [%d] has no incoming for the branch taken (%+v)", h, fr.last)
	return Val{}
}

// pure evaluates a constant initialiser expression tree without the cache.
func (fr *frame) pure(h ir.ExpressionHandle, depth int) Val {
	if depth > 256 {
		trapf("malformed: initialiser expression too deep")
	}
	if int(h) >= len(fr.f.Expressions) {
		trapf("malformed: expression handle %d out of range", h)
	}
	kind := fr.f.Expressions[h].Kind
	switch kind.(type) {
	case ir.ExprLoad, ir.ExprCallResult, ir.ExprAtomicResult, ir.ExprWorkGroupUniformLoadResult, ir.ExprAlias, ir.ExprPhi,
		ir.ExprLocalVariable, ir.ExprFunctionArgument:
		trapf("malformed: local variable initialiser [%d] is %s", h, kindName(kind))
	}
	return fr.evalKind(h, kind, func(x ir.ExpressionHandle) Val { return fr.pure(x, depth+1) })
}

// ---- module-scope values ----------------------------------------------------------------

func (mc *machine) constant(h ir.ConstantHandle) Val {
	if int(h) >= len(mc.m.Constants) {
		trapf("malformed: constant %d out of range", h)
	}
	switch mc.constDone[h] {
	case 2:
		return mc.consts[h]
	case 1:
		trapf("malformed: constant %d depends on itself", h)
	}
	mc.constDone[h] = 1
	c := &mc.m.Constants[h]
	var v Val
	if len(mc.m.GlobalExpressions) > 0 && int(c.Init) < len(mc.m.GlobalExpressions) {
		v = mc.globalExpr(c.Init)
	} else {
		v = mc.constValue(c.Type, c.Value)
	}
	mc.consts[h] = v
	mc.constDone[h] = 2
	return v
}

func (mc *machine) constValue(th ir.TypeHandle, cv ir.ConstantValue) Val {
	in := mc.inner(th)
	switch x := cv.(type) {
	case ir.ScalarValue:
		st, ok := in.(ir.ScalarType)
		if !ok {
			trapf("malformed: scalar constant of type %s", TypeString(mc.m, in))
		}
		checkScalar(st)
		return scalarV(st.Kind, uint32(x.Bits))
	case ir.ZeroConstantValue:
		return mc.zero(in, 0)
	case ir.CompositeValue:
		comps := make([]Val, len(x.Components))
		for i, ch := range x.Components {
			comps[i] = mc.constant(ch)
		}
		return mc.compose(in, comps)
	}
	trapf("unsupported: constant value %T", cv)
	return Val{}
}

func (mc *machine) globalExpr(h ir.ExpressionHandle) Val {
	if int(h) >= len(mc.m.GlobalExpressions) {
		trapf("malformed: global expression %d out of range", h)
	}
	switch mc.gexprDone[h] {
	case 2:
		return mc.gexprs[h]
	case 1:
		trapf("malformed: global expression %d depends on itself", h)
	}
	mc.gexprDone[h] = 1
	kind := mc.m.GlobalExpressions[h].Kind
	switch kind.(type) {
	case ir.ExprLoad, ir.ExprCallResult, ir.ExprAtomicResult, ir.ExprWorkGroupUniformLoadResult, ir.ExprAlias, ir.ExprPhi,
		ir.ExprLocalVariable, ir.ExprFunctionArgument, ir.ExprGlobalVariable:
		trapf("malformed: global expression [%d] is %s", h, kindName(kind))
	}
	ev := &frame{inv: &invocation{mc: mc}}
	v := ev.evalKind(h, kind, mc.globalExpr)
	mc.gexprs[h] = v
	mc.gexprDone[h] = 2
	return v
}

// compose builds a value of type in from components.
func (mc *machine) compose(in ir.TypeInner, comps []Val) Val {
	switch t := in.(type) {
	case ir.VectorType:
		checkScalar(t.Scalar)
		out := Val{K: vVector, S: t.Scalar.Kind}
		for _, c := range comps {
			switch c.K {
			case vScalar:
				out.E = append(out.E, c)
			case vVector:
				out.E = append(out.E, c.E...)
			default:
				trapf("ill-typed: vector component %s", c)
			}
		}
		if len(out.E) != int(t.Size) {
			trapf("ill-typed: compose of vec%d from %d scalar components", t.Size, len(out.E))
		}
		for i := range out.E {
			if out.E[i].S != t.Scalar.Kind {
				trapf("ill-typed: vec%d<%s> component of scalar kind %d", t.Size, scalarString(t.Scalar), out.E[i].S)
			}
		}
		return out.clone()
	case ir.MatrixType:
		out := Val{K: vMatrix, S: t.Scalar.Kind}
		if len(comps) == int(t.Columns) {
			for _, c := range comps {
				if c.K != vVector || len(c.E) != int(t.Rows) {
					trapf("ill-typed: matrix column %s", c)
				}
			}
			out.E = comps
			return out.clone()
		}
		if len(comps) == int(t.Columns)*int(t.Rows) {
			for c := 0; c < int(t.Columns); c++ {
				col := Val{K: vVector, S: t.Scalar.Kind}
				for r := 0; r < int(t.Rows); r++ {
					x := comps[c*int(t.Rows)+r]
					if x.K != vScalar {
						trapf("ill-typed: matrix component %s", x)
					}
					col.E = append(col.E, x)
				}
				out.E = append(out.E, col)
			}
			return out
		}
		trapf("ill-typed: compose of mat%dx%d from %d components", t.Columns, t.Rows, len(comps))
	case ir.ArrayType:
		if t.Size.Constant == nil || int(*t.Size.Constant) != len(comps) {
			trapf("ill-typed: compose of an array from %d components", len(comps))
		}
		return Val{K: vArray, E: comps}.clone()
	case ir.StructType:
		if len(t.Members) != len(comps) {
			trapf("ill-typed: compose of a struct with %d members from %d components", len(t.Members), len(comps))
		}
		return Val{K: vStruct, E: comps}.clone()
	}
	trapf("unsupported: compose of %T", in)
	return Val{}
}

// ---- expression kinds ---------------------------------------------------------------------

func literalVal(l ir.LiteralValue) Val {
	switch x := l.(type) {
	case ir.LiteralBool:
		return boolV(bool(x))
	case ir.LiteralI32:
		return i32V(int32(x))
	case ir.LiteralU32:
		return u32V(uint32(x))
	case ir.LiteralF32:
		return f32V(float32(x))
	case ir.LiteralAbstractInt, ir.LiteralAbstractFloat:
		trapf("malformed: abstract literal %v reaches execution", l)
	}
	trapf("unsupported: literal %T", l)
	return Val{}
}

func idxOf(v Val) int64 {
	if v.K != vScalar {
		trapf("ill-typed: index %s", v)
	}
	switch v.S {
	case ir.ScalarSint:
		return int64(int32(v.B))
	case ir.ScalarUint:
		return int64(v.B)
	}
	trapf("ill-typed: index of scalar kind %d", v.S)
	return 0
}

func (fr *frame) evalKind(h ir.ExpressionHandle, kind ir.ExpressionKind, get func(ir.ExpressionHandle) Val) Val {
	mc := fr.inv.mc
	m := mc.m
	switch k := kind.(type) {
	case ir.Literal:
		return literalVal(k.Value)
	case ir.ExprConstant:
		return mc.constant(k.Constant)
	case ir.ExprOverride:
		if int(k.Override) >= len(m.Overrides) {
			trapf("malformed: override %d out of range", k.Override)
		}
		o := &m.Overrides[k.Override]
		if o.Init == nil {
			trapf("unsupported: override %q without default value", o.Name)
		}
		return mc.globalExpr(*o.Init)
	case ir.ExprZeroValue:
		return mc.zero(mc.inner(k.Type), 0)
	case ir.ExprCompose:
		comps := make([]Val, len(k.Components))
		for i, c := range k.Components {
			comps[i] = get(c)
		}
		return mc.compose(mc.inner(k.Type), comps)
	case ir.ExprSplat:
		v := get(k.Value)
		if v.K != vScalar {
			trapf("ill-typed: splat of %s", v)
		}
		out := Val{K: vVector, S: v.S, E: make([]Val, k.Size)}
		for i := range out.E {
			out.E[i] = v
		}
		return out
	case ir.ExprSwizzle:
		v := get(k.Vector)
		if v.K != vVector {
			trapf("ill-typed: swizzle of %s", v)
		}
		out := Val{K: vVector, S: v.S, E: make([]Val, k.Size)}
		for i := range out.E {
			c := int(k.Pattern[i])
			if c >= len(v.E) {
				trapf("ill-typed: swizzle component %d of a vec%d", c, len(v.E))
			}
			out.E[i] = v.E[c]
		}
		return out
	case ir.ExprAccess:
		return fr.access(get(k.Base), idxOf(get(k.Index)), false)
	case ir.ExprAccessIndex:
		return fr.access(get(k.Base), int64(k.Index), true)
	case ir.ExprFunctionArgument:
		if fr.f == nil || int(k.Index) >= len(fr.args) {
			trapf("malformed: function argument %d", k.Index)
		}
		return fr.args[k.Index]
	case ir.ExprGlobalVariable:
		return fr.globalPtr(k.Variable)
	case ir.ExprLocalVariable:
		if fr.f == nil || int(k.Variable) >= len(fr.locals) {
			trapf("malformed: local variable %d", k.Variable)
		}
		return Val{K: vPointer, P: &pointer{cell: fr.locals[k.Variable], ty: mc.inner(fr.f.LocalVars[k.Variable].Type), space: ir.SpaceFunction}}
	case ir.ExprLoad:
		p := get(k.Pointer)
		if p.K != vPointer || p.P == nil {
			trapf("ill-typed: load through the non-pointer [%d] = %s", k.Pointer, p)
		}
		return mc.load(p.P)
	case ir.ExprUnary:
		return unary(k.Op, get(k.Expr))
	case ir.ExprBinary:
		return mc.binary(k.Op, get(k.Left), get(k.Right))
	case ir.ExprSelect:
		c, a, r := get(k.Condition), get(k.Accept), get(k.Reject)
		if c.K == vScalar {
			if c.B != 0 {
				return a
			}
			return r
		}
		if c.K != vVector || a.K != vVector || r.K != vVector || len(a.E) != len(c.E) || len(r.E) != len(c.E) {
			trapf("ill-typed: select(%s, %s, %s)", r, a, c)
		}
		out := Val{K: vVector, S: a.S, E: make([]Val, len(c.E))}
		for i := range c.E {
			if c.E[i].B != 0 {
				out.E[i] = a.E[i]
			} else {
				out.E[i] = r.E[i]
			}
		}
		return out
	case ir.ExprRelational:
		v := get(k.Argument)
		switch k.Fun {
		case ir.RelationalAll, ir.RelationalAny:
			if v.K == vScalar {
				return v
			}
			r := k.Fun == ir.RelationalAll
			for _, e := range v.E {
				if k.Fun == ir.RelationalAll {
					r = r && e.B != 0
				} else {
					r = r || e.B != 0
				}
			}
			return boolV(r)
		case ir.RelationalIsNan:
			return mapScalars(v, func(x Val) Val { return boolV(math.IsNaN(x.f64())) })
		case ir.RelationalIsInf:
			return mapScalars(v, func(x Val) Val { return boolV(math.IsInf(x.f64(), 0)) })
		}
		trapf("unsupported: relational function %d", k.Fun)
	case ir.ExprMath:
		args := []Val{get(k.Arg)}
		for _, p := range []*ir.ExpressionHandle{k.Arg1, k.Arg2, k.Arg3} {
			if p != nil {
				args = append(args, get(*p))
			}
		}
		return mc.math(k.Fun, args)
	case ir.ExprAs:
		v := get(k.Expr)
		if k.Convert != nil && *k.Convert != 4 && !(k.Kind == ir.ScalarBool && *k.Convert == 1) {
			trapf("unsupported: conversion to width %d", *k.Convert)
		}
		conv := k.Convert != nil
		f := func(x Val) Val { return mc.as(x, k.Kind, conv) }
		if v.K == vMatrix {
			out := Val{K: vMatrix, S: k.Kind, E: make([]Val, len(v.E))}
			for i := range v.E {
				out.E[i] = mapScalars(v.E[i], f)
			}
			return out
		}
		return mapScalars(v, f)
	case ir.ExprArrayLength:
		p := get(k.Array)
		if p.K != vPointer || p.P == nil {
			trapf("ill-typed: arrayLength of %s", p)
		}
		at, ok := p.P.ty.(ir.ArrayType)
		if !ok || p.P.buf == nil {
			trapf("ill-typed: arrayLength of a pointer to %s", TypeString(m, p.P.ty))
		}
		if at.Size.Constant != nil {
			return u32V(*at.Size.Constant)
		}
		return u32V(uint32(rtLen(*p.P.buf, p.P.off, at.Stride)))
	case ir.ExprCallResult, ir.ExprAtomicResult, ir.ExprWorkGroupUniformLoadResult:
		trapf("malformed: %s [%d] evaluated by an Emit", kindName(kind), h)
	case ir.ExprAlias:
		return get(k.Source)
	case ir.ExprPhi:
		trapf("malformed: phi [%d] outside an Emit", h)
	case ir.ExprImageSample, ir.ExprImageLoad, ir.ExprImageQuery:
		trapf("unsupported: image expression")
	case ir.ExprDerivative:
		trapf("unsupported: derivative")
	case ir.ExprRayQueryProceedResult, ir.ExprRayQueryGetIntersection:
		trapf("unsupported: ray query")
	case ir.ExprSubgroupBallotResult, ir.ExprSubgroupOperationResult:
		trapf("unsupported: subgroup operation")
	}
	trapf("unsupported: expression %T", kind)
	return Val{}
}

func (fr *frame) globalPtr(gh ir.GlobalVariableHandle) Val {
	mc := fr.inv.mc
	if int(gh) >= len(mc.m.GlobalVariables) {
		trapf("malformed: global variable %d out of range", gh)
	}
	g := &mc.m.GlobalVariables[gh]
	p := &pointer{ty: mc.inner(g.Type), space: g.Space, what: g.Name}
	switch g.Space {
	case ir.SpaceStorage, ir.SpaceUniform:
		if mc.bufOf[gh] == nil {
			trapf("missing binding: no buffer bound for %q", g.Name)
		}
		p.buf = mc.bufOf[gh]
		if sz := mc.sizeOf(p.ty); sz > len(*p.buf) {
			trapf("buffer too small: %q needs %d bytes, %d bound", g.Name, sz, len(*p.buf))
		}
	case ir.SpacePrivate:
		if fr.inv.private == nil || fr.inv.private[gh] == nil {
			trapf("malformed: private variable %q in a constant context", g.Name)
		}
		p.cell = fr.inv.private[gh]
	case ir.SpaceWorkGroup:
		p.cell = mc.wgCells[gh]
	default:
		trapf("unsupported: global variable in address space %s", spaceString(g.Space))
	}
	return Val{K: vPointer, P: p}
}

// elemTypeOf navigates a type without touching memory (for out-of-range pointers).
func (mc *machine) elemTypeOf(in ir.TypeInner, i int64, constIdx bool) ir.TypeInner {
	switch t := in.(type) {
	case ir.VectorType:
		return t.Scalar
	case ir.MatrixType:
		return ir.VectorType{Size: t.Rows, Scalar: t.Scalar}
	case ir.ArrayType:
		return mc.inner(t.Base)
	case ir.StructType:
		if !constIdx || i < 0 || i >= int64(len(t.Members)) {
			trapf("malformed: member %d of a struct", i)
		}
		return mc.inner(t.Members[i].Type)
	}
	trapf("malformed: index through a pointer to %s", TypeString(mc.m, in))
	return nil
}

func (fr *frame) access(base Val, i int64, constIdx bool) Val {
	mc := fr.inv.mc
	switch base.K {
	case vPointer:
		p := base.P
		if p.oob {
			return Val{K: vPointer, P: &pointer{oob: true, ty: mc.elemTypeOf(p.ty, i, constIdx), space: p.space, what: p.what}}
		}
		np, ok := mc.indexPtr(p, i, constIdx)
		if !ok {
			mc.poisoned("out-of-range index")
			return Val{K: vPointer, P: &pointer{oob: true, ty: mc.elemTypeOf(p.ty, i, constIdx), space: p.space, what: p.what}}
		}
		return Val{K: vPointer, P: np}
	case vVector, vMatrix, vArray:
		if i < 0 || i >= int64(len(base.E)) {
			mc.poisoned("out-of-range index")
			if len(base.E) == 0 {
				trapf("index into an empty value")
			}
			return zeroLike(base.E[0])
		}
		return base.E[i]
	case vStruct:
		if !constIdx || i < 0 || i >= int64(len(base.E)) {
			trapf("malformed: member %d of %s", i, base)
		}
		return base.E[i]
	}
	trapf("ill-typed: index into %s", base)
	return Val{}
}

func zeroLike(v Val) Val {
	out := v.clone()
	var z func(x *Val)
	z = func(x *Val) {
		x.B = 0
		for i := range x.E {
			z(&x.E[i])
		}
	}
	z(&out)
	return out
}

func mapScalars(v Val, f func(Val) Val) Val {
	switch v.K {
	case vScalar:
		return f(v)
	case vVector:
		out := Val{K: vVector, E: make([]Val, len(v.E))}
		for i := range v.E {
			out.E[i] = f(v.E[i])
		}
		if len(out.E) > 0 {
			out.S = out.E[0].S
		}
		return out
	}
	trapf("ill-typed: component-wise operation on %s", v)
	return Val{}
}

func unary(op ir.UnaryOperator, v Val) Val {
	if v.K == vMatrix {
		out := Val{K: vMatrix, S: v.S, E: make([]Val, len(v.E))}
		for i := range v.E {
			out.E[i] = unary(op, v.E[i])
		}
		return out
	}
	return mapScalars(v, func(x Val) Val {
		switch op {
		case ir.UnaryNegate:
			switch x.S {
			case ir.ScalarSint:
				return i32V(-int32(x.B))
			case ir.ScalarFloat:
				return scalarV(ir.ScalarFloat, x.B^0x80000000)
			}
		case ir.UnaryLogicalNot:
			if x.S == ir.ScalarBool {
				return boolV(x.B == 0)
			}
		case ir.UnaryBitwiseNot:
			if x.S == ir.ScalarSint || x.S == ir.ScalarUint {
				return scalarV(x.S, ^x.B)
			}
		}
		trapf("ill-typed: unary operator %d on %s", op, x)
		return Val{}
	})
}

func r32(x float64) Val { return f32V(float32(x)) }

// as converts (conv) or bit-casts a scalar to kind.
func (mc *machine) as(x Val, kind ir.ScalarKind, conv bool) Val {
	if x.K != vScalar {
		trapf("ill-typed: cast of %s", x)
	}
	if !conv {
		if kind == ir.ScalarBool || x.S == ir.ScalarBool {
			trapf("ill-typed: bitcast involving bool")
		}
		return scalarV(kind, x.B)
	}
	switch kind {
	case ir.ScalarBool:
		switch x.S {
		case ir.ScalarBool:
			return x
		case ir.ScalarFloat:
			return boolV(x.f32() != 0)
		}
		return boolV(x.B != 0)
	case ir.ScalarSint:
		switch x.S {
		case ir.ScalarBool, ir.ScalarSint, ir.ScalarUint:
			return i32V(int32(x.B))
		case ir.ScalarFloat:
			f := x.f32()
			if math.IsNaN(float64(f)) {
				mc.poisoned("NaN converted to an integer")
				return i32V(0)
			}
			v, _ := wref.F32ToI32(f)
			return i32V(v)
		}
	case ir.ScalarUint:
		switch x.S {
		case ir.ScalarBool, ir.ScalarSint, ir.ScalarUint:
			return u32V(x.B)
		case ir.ScalarFloat:
			f := x.f32()
			if math.IsNaN(float64(f)) {
				mc.poisoned("NaN converted to an integer")
				return u32V(0)
			}
			v, _ := wref.F32ToU32(f)
			return u32V(v)
		}
	case ir.ScalarFloat:
		switch x.S {
		case ir.ScalarBool:
			return f32V(float32(x.B))
		case ir.ScalarSint:
			return f32V(float32(int32(x.B)))
		case ir.ScalarUint:
			return f32V(float32(x.B))
		case ir.ScalarFloat:
			return x
		}
	}
	trapf("unsupported: conversion of %s to scalar kind %d", x, kind)
	return Val{}
}

// ---- binary operators -------------------------------------------------------------------------

func isCompare(op ir.BinaryOperator) bool {
	switch op {
	case ir.BinaryEqual, ir.BinaryNotEqual, ir.BinaryLess, ir.BinaryLessEqual, ir.BinaryGreater, ir.BinaryGreaterEqual:
		return true
	}
	return false
}

func (mc *machine) binary(op ir.BinaryOperator, a, b Val) Val {
	if a.K == vMatrix || b.K == vMatrix {
		return mc.matBinary(op, a, b)
	}
	switch {
	case a.K == vScalar && b.K == vScalar:
		return mc.scalarBinary(op, a, b)
	case a.K == vVector && b.K == vVector:
		if len(a.E) != len(b.E) {
			trapf("ill-typed: binary operator %d on vec%d and vec%d", op, len(a.E), len(b.E))
		}
		out := Val{K: vVector, E: make([]Val, len(a.E))}
		for i := range a.E {
			out.E[i] = mc.scalarBinary(op, a.E[i], b.E[i])
		}
		out.S = out.E[0].S
		return out
	case a.K == vVector && b.K == vScalar:
		out := Val{K: vVector, E: make([]Val, len(a.E))}
		for i := range a.E {
			out.E[i] = mc.scalarBinary(op, a.E[i], b)
		}
		out.S = out.E[0].S
		return out
	case a.K == vScalar && b.K == vVector:
		out := Val{K: vVector, E: make([]Val, len(b.E))}
		for i := range b.E {
			out.E[i] = mc.scalarBinary(op, a, b.E[i])
		}
		out.S = out.E[0].S
		return out
	}
	trapf("ill-typed: binary operator %d on %s and %s", op, a, b)
	return Val{}
}

func (mc *machine) scalarBinary(op ir.BinaryOperator, a, b Val) Val {
	if op == ir.BinaryShiftLeft || op == ir.BinaryShiftRight {
		if b.S != ir.ScalarUint {
			trapf("ill-typed: shift amount %s", b)
		}
		n := b.B & 31
		switch a.S {
		case ir.ScalarSint:
			if op == ir.BinaryShiftLeft {
				return scalarV(a.S, a.B<<n)
			}
			return i32V(int32(a.B) >> n)
		case ir.ScalarUint:
			if op == ir.BinaryShiftLeft {
				return u32V(a.B << n)
			}
			return u32V(a.B >> n)
		}
		trapf("ill-typed: shift of %s", a)
	}
	if a.S != b.S {
		trapf("ill-typed: binary operator %d on %s and %s", op, a, b)
	}
	switch a.S {
	case ir.ScalarBool:
		switch op {
		case ir.BinaryAnd, ir.BinaryLogicalAnd:
			return boolV(a.B&b.B != 0)
		case ir.BinaryInclusiveOr, ir.BinaryLogicalOr:
			return boolV(a.B|b.B != 0)
		case ir.BinaryExclusiveOr:
			return boolV(a.B != b.B)
		case ir.BinaryEqual:
			return boolV(a.B == b.B)
		case ir.BinaryNotEqual:
			return boolV(a.B != b.B)
		}
	case ir.ScalarSint:
		x, y := int32(a.B), int32(b.B)
		switch op {
		case ir.BinaryAdd:
			return i32V(x + y)
		case ir.BinarySubtract:
			return i32V(x - y)
		case ir.BinaryMultiply:
			return i32V(x * y)
		case ir.BinaryDivide:
			return i32V(wref.DivI32(x, y))
		case ir.BinaryModulo:
			return i32V(wref.RemI32(x, y))
		case ir.BinaryAnd:
			return i32V(x & y)
		case ir.BinaryInclusiveOr:
			return i32V(x | y)
		case ir.BinaryExclusiveOr:
			return i32V(x ^ y)
		case ir.BinaryEqual:
			return boolV(x == y)
		case ir.BinaryNotEqual:
			return boolV(x != y)
		case ir.BinaryLess:
			return boolV(x < y)
		case ir.BinaryLessEqual:
			return boolV(x <= y)
		case ir.BinaryGreater:
			return boolV(x > y)
		case ir.BinaryGreaterEqual:
			return boolV(x >= y)
		}
	case ir.ScalarUint:
		x, y := a.B, b.B
		switch op {
		case ir.BinaryAdd:
			return u32V(x + y)
		case ir.BinarySubtract:
			return u32V(x - y)
		case ir.BinaryMultiply:
			return u32V(x * y)
		case ir.BinaryDivide:
			return u32V(wref.DivU32(x, y))
		case ir.BinaryModulo:
			return u32V(wref.RemU32(x, y))
		case ir.BinaryAnd:
			return u32V(x & y)
		case ir.BinaryInclusiveOr:
			return u32V(x | y)
		case ir.BinaryExclusiveOr:
			return u32V(x ^ y)
		case ir.BinaryEqual:
			return boolV(x == y)
		case ir.BinaryNotEqual:
			return boolV(x != y)
		case ir.BinaryLess:
			return boolV(x < y)
		case ir.BinaryLessEqual:
			return boolV(x <= y)
		case ir.BinaryGreater:
			return boolV(x > y)
		case ir.BinaryGreaterEqual:
			return boolV(x >= y)
		}
	case ir.ScalarFloat:
		x, y := a.f64(), b.f64()
		switch op {
		case ir.BinaryAdd:
			return r32(x + y)
		case ir.BinarySubtract:
			return r32(x - y)
		case ir.BinaryMultiply:
			return r32(x * y)
		case ir.BinaryDivide:
			return r32(x / y)
		case ir.BinaryModulo:
			return r32(math.Mod(x, y))
		case ir.BinaryEqual:
			return boolV(x == y)
		case ir.BinaryNotEqual:
			return boolV(x != y)
		case ir.BinaryLess:
			return boolV(x < y)
		case ir.BinaryLessEqual:
			return boolV(x <= y)
		case ir.BinaryGreater:
			return boolV(x > y)
		case ir.BinaryGreaterEqual:
			return boolV(x >= y)
		}
	}
	trapf("ill-typed: binary operator %d on %s and %s", op, a, b)
	return Val{}
}

// sumProducts is sum_i x[i]*y[i] in binary32: every product and every partial sum is rounded, left to right.
func sumProducts(xs, ys []Val) Val {
	if len(xs) != len(ys) || len(xs) == 0 {
		trapf("ill-typed: dot of %d and %d components", len(xs), len(ys))
	}
	var acc float32
	for i := range xs {
		p := float32(xs[i].f64() * ys[i].f64())
		if i == 0 {
			acc = p
		} else {
			acc = float32(float64(acc) + float64(p))
		}
	}
	return f32V(acc)
}

func (mc *machine) matBinary(op ir.BinaryOperator, a, b Val) Val {
	col := func(m Val, c int) Val { return m.E[c] }
	switch {
	case a.K == vMatrix && b.K == vMatrix && (op == ir.BinaryAdd || op == ir.BinarySubtract):
		if len(a.E) != len(b.E) {
			trapf("ill-typed: matrix %d of different shapes", op)
		}
		out := Val{K: vMatrix, S: a.S, E: make([]Val, len(a.E))}
		for c := range a.E {
			out.E[c] = mc.binary(op, col(a, c), col(b, c))
		}
		return out
	case a.K == vMatrix && b.K == vScalar && op == ir.BinaryMultiply:
		out := Val{K: vMatrix, S: a.S, E: make([]Val, len(a.E))}
		for c := range a.E {
			out.E[c] = mc.binary(op, col(a, c), b)
		}
		return out
	case a.K == vScalar && b.K == vMatrix && op == ir.BinaryMultiply:
		out := Val{K: vMatrix, S: b.S, E: make([]Val, len(b.E))}
		for c := range b.E {
			out.E[c] = mc.binary(op, a, col(b, c))
		}
		return out
	case a.K == vMatrix && b.K == vVector && op == ir.BinaryMultiply:
		C := len(a.E)
		if C == 0 || len(b.E) != C {
			trapf("ill-typed: matrix * vector shapes")
		}
		R := len(a.E[0].E)
		out := Val{K: vVector, S: a.S, E: make([]Val, R)}
		for r := 0; r < R; r++ {
			xs := make([]Val, C)
			for c := 0; c < C; c++ {
				xs[c] = a.E[c].E[r]
			}
			out.E[r] = sumProducts(xs, b.E)
		}
		return out
	case a.K == vVector && b.K == vMatrix && op == ir.BinaryMultiply:
		C := len(b.E)
		out := Val{K: vVector, S: b.S, E: make([]Val, C)}
		for c := 0; c < C; c++ {
			out.E[c] = sumProducts(a.E, b.E[c].E)
		}
		return out
	case a.K == vMatrix && b.K == vMatrix && op == ir.BinaryMultiply:
		K, C := len(a.E), len(b.E)
		if K == 0 || C == 0 || len(b.E[0].E) != K {
			trapf("ill-typed: matrix * matrix shapes")
		}
		R := len(a.E[0].E)
		out := Val{K: vMatrix, S: a.S, E: make([]Val, C)}
		for c := 0; c < C; c++ {
			cv := Val{K: vVector, S: a.S, E: make([]Val, R)}
			for r := 0; r < R; r++ {
				xs := make([]Val, K)
				for k := 0; k < K; k++ {
					xs[k] = a.E[k].E[r]
				}
				cv.E[r] = sumProducts(xs, b.E[c].E)
			}
			out.E[c] = cv
		}
		return out
	}
	trapf("ill-typed: matrix operator %d on %s and %s", op, a, b)
	return Val{}
}
