// Package irx holds tools over naga's public IR package (github.com/gogpu/naga/ir):
//
//   - Hash / HashNoNames / Equal / Diff: a reflective, deterministic deep hash and
//     comparison of an *ir.Module (used by C12 immutability, C13 idempotence, C19 equality);
//   - Typify: an independent expression type inference written from the WGSL / naga
//     typing rules (it shares no code with ir.ResolveExpressionType);
//   - StrictValidate: the structural contract of property C09.
//
// Nothing in this package calls into naga's own validator or type resolver.
package irx

import (
	"crypto/sha256"
	"encoding/binary"
	"fmt"
	"math"
	"reflect"
	"sort"

	"github.com/gogpu/naga/ir"
)

// How the deep walk works (Hash, HashNoNames, Diff share it):
//
//   - pointers are followed (nil and non-nil are distinguished); a pointer that is
//     already on the current path is written as a back-reference (cycle protection);
//   - slices and arrays are walked element by element, length first; a nil slice and
//     an empty slice are THE SAME (len 0), likewise nil / empty maps: they are not
//     distinguishable by any IR consumer;
//   - interfaces contribute the dynamic type's name (package path + name) and then
//     the dynamic value; a nil interface is distinct from every non-nil one;
//   - structs contribute every field in declaration order, exported or not.  Only
//     the read-only reflect accessors (Int, Uint, Float, String, Bool, Len, Index,
//     Field, Elem, MapKeys, MapIndex, IsNil) are used, which are legal on values
//     reached through unexported fields, so neither unsafe nor reflect.NewAt is needed;
//   - maps are walked in sorted key order (integers numerically, strings
//     lexically, anything else by the hash of the key);
//   - floats are hashed by their bit pattern (NaN payloads and -0 are distinguished);
//   - func / chan / unsafe.Pointer values cannot occur in the IR; if one shows up
//     only its nil-ness is recorded.
//
// Fields ignored by HashNoNames (and by Diff with names=false), exhaustively:
//
//	any struct field called "Name" whose type is string, that is
//	  ir.Type.Name, ir.StructMember.Name, ir.Constant.Name, ir.Override.Name,
//	  ir.GlobalVariable.Name, ir.Function.Name, ir.FunctionArgument.Name,
//	  ir.LocalVariable.Name, ir.EntryPoint.Name
//	the VALUES (not the keys) of ir.Function.NamedExpressions
//	the CONTENTS (not the length) of ir.Module.TypeAliasNames
//
// The pinned ir.Module carries no debug source text; if a later version adds a
// string field called Source / SourceCode / DebugSource it is ignored as well.

type walker struct {
	names bool
	h     interface{ Write([]byte) (int, error) }
	path  map[visitKey]int
	buf   [9]byte
}

type visitKey struct {
	p uintptr
	t reflect.Type
}

func (w *walker) tag(b byte) { w.buf[0] = b; w.h.Write(w.buf[:1]) }
func (w *walker) u64(b byte, v uint64) {
	w.buf[0] = b
	binary.LittleEndian.PutUint64(w.buf[1:], v)
	w.h.Write(w.buf[:9])
}
func (w *walker) str(b byte, s string) {
	w.u64(b, uint64(len(s)))
	w.h.Write([]byte(s))
}

func ignoredStringField(f reflect.StructField) bool {
	if f.Type.Kind() != reflect.String {
		return false
	}
	switch f.Name {
	case "Name", "Source", "SourceCode", "DebugSource":
		return true
	}
	return false
}

var (
	tFunction = reflect.TypeOf(ir.Function{})
	tModule   = reflect.TypeOf(ir.Module{})
)

// fieldMode says how a field is treated when names are ignored:
// 0 normal, 1 skipped, 2 map whose values are skipped, 3 slice whose contents are skipped.
func fieldMode(st reflect.Type, f reflect.StructField) int {
	if ignoredStringField(f) {
		return 1
	}
	if st == tFunction && f.Name == "NamedExpressions" {
		return 2
	}
	if st == tModule && f.Name == "TypeAliasNames" {
		return 3
	}
	return 0
}

func (w *walker) value(v reflect.Value) {
	switch v.Kind() {
	case reflect.Bool:
		if v.Bool() {
			w.tag(2)
		} else {
			w.tag(1)
		}
	case reflect.Int, reflect.Int8, reflect.Int16, reflect.Int32, reflect.Int64:
		w.u64(3, uint64(v.Int()))
	case reflect.Uint, reflect.Uint8, reflect.Uint16, reflect.Uint32, reflect.Uint64, reflect.Uintptr:
		w.u64(4, v.Uint())
	case reflect.Float32:
		w.u64(5, uint64(math.Float32bits(float32(v.Float()))))
	case reflect.Float64:
		w.u64(6, math.Float64bits(v.Float()))
	case reflect.Complex64, reflect.Complex128:
		c := v.Complex()
		w.u64(7, math.Float64bits(real(c)))
		w.u64(7, math.Float64bits(imag(c)))
	case reflect.String:
		w.str(8, v.String())
	case reflect.Pointer:
		if v.IsNil() {
			w.tag(9)
			return
		}
		k := visitKey{v.Pointer(), v.Type()}
		if depth, on := w.path[k]; on {
			w.u64(10, uint64(len(w.path)-depth))
			return
		}
		w.path[k] = len(w.path)
		w.tag(11)
		w.value(v.Elem())
		delete(w.path, k)
	case reflect.Interface:
		if v.IsNil() {
			w.tag(12)
			return
		}
		e := v.Elem()
		w.str(13, e.Type().PkgPath()+"."+e.Type().String())
		w.value(e)
	case reflect.Slice, reflect.Array:
		n := v.Len()
		w.u64(14, uint64(n))
		for i := 0; i < n; i++ {
			w.value(v.Index(i))
		}
	case reflect.Map:
		w.mapValue(v, false)
	case reflect.Struct:
		t := v.Type()
		w.u64(15, uint64(t.NumField()))
		for i := 0; i < t.NumField(); i++ {
			mode := 0
			if !w.names {
				mode = fieldMode(t, t.Field(i))
			}
			switch mode {
			case 1:
				w.tag(16)
			case 2:
				w.mapValue(v.Field(i), true)
			case 3:
				w.u64(17, uint64(v.Field(i).Len()))
			default:
				w.value(v.Field(i))
			}
		}
	default: // Func, Chan, UnsafePointer: not part of the IR
		nilish := false
		switch v.Kind() {
		case reflect.Func, reflect.Chan, reflect.UnsafePointer:
			nilish = v.IsNil()
		}
		if nilish {
			w.tag(18)
		} else {
			w.tag(19)
		}
	}
}

func (w *walker) mapValue(v reflect.Value, keysOnly bool) {
	keys := sortedKeys(v)
	w.u64(20, uint64(len(keys)))
	for _, k := range keys {
		w.value(k)
		if !keysOnly {
			w.value(v.MapIndex(k))
		}
	}
}

// sortedKeys returns the keys of map v in a deterministic order.
func sortedKeys(v reflect.Value) []reflect.Value {
	keys := v.MapKeys()
	if len(keys) < 2 {
		return keys
	}
	switch keys[0].Kind() {
	case reflect.Int, reflect.Int8, reflect.Int16, reflect.Int32, reflect.Int64:
		sort.Slice(keys, func(i, j int) bool { return keys[i].Int() < keys[j].Int() })
	case reflect.Uint, reflect.Uint8, reflect.Uint16, reflect.Uint32, reflect.Uint64, reflect.Uintptr:
		sort.Slice(keys, func(i, j int) bool { return keys[i].Uint() < keys[j].Uint() })
	case reflect.String:
		sort.Slice(keys, func(i, j int) bool { return keys[i].String() < keys[j].String() })
	default:
		hs := make([]uint64, len(keys))
		for i, k := range keys {
			hs[i] = hashValue(k, true)
		}
		idx := make([]int, len(keys))
		for i := range idx {
			idx[i] = i
		}
		sort.SliceStable(idx, func(a, b int) bool { return hs[idx[a]] < hs[idx[b]] })
		out := make([]reflect.Value, len(keys))
		for i, j := range idx {
			out[i] = keys[j]
		}
		keys = out
	}
	return keys
}

func hashValue(v reflect.Value, names bool) uint64 {
	h := sha256.New()
	w := &walker{names: names, h: h, path: map[visitKey]int{}}
	w.value(v)
	var sum [sha256.Size]byte
	return binary.LittleEndian.Uint64(h.Sum(sum[:0]))
}

// Hash returns a deterministic deep hash of the whole module (first 8 bytes of a
// SHA-256 over a canonical serialisation of every field reachable from m).
func Hash(m *ir.Module) uint64 { return hashValue(reflect.ValueOf(m), true) }

// HashNoNames is Hash with identifier names ignored (see the list at the top
// of this file): two modules that differ only by a consistent renaming of user
// identifiers hash alike.
func HashNoNames(m *ir.Module) uint64 { return hashValue(reflect.ValueOf(m), false) }

// HashAny hashes an arbitrary value with the same walk (e.g. one *ir.Function).
func HashAny(v any) uint64 { return hashValue(reflect.ValueOf(v), true) }

// Equal reports whether the two modules are deeply equal (names included).
func Equal(a, b *ir.Module) bool { return Diff(a, b) == "" }

// Diff returns "" when a and b are deeply equal, otherwise the path of the first
// difference found (declaration order, depth first) with both values, e.g.
// "Functions[2].Expressions[5].Kind.(ir.ExprBinary).Op: 3 != 4".
func Diff(a, b *ir.Module) string { return diffAny(a, b, true) }

// DiffNoNames is Diff with the same fields ignored as HashNoNames.
func DiffNoNames(a, b *ir.Module) string { return diffAny(a, b, false) }

func diffAny(a, b any, names bool) string {
	d := &differ{names: names, path: map[[2]visitKey]bool{}}
	return d.diff("", reflect.ValueOf(a), reflect.ValueOf(b))
}

type differ struct {
	names bool
	path  map[[2]visitKey]bool
}

func short(v reflect.Value) string {
	switch v.Kind() {
	case reflect.Bool:
		return fmt.Sprint(v.Bool())
	case reflect.Int, reflect.Int8, reflect.Int16, reflect.Int32, reflect.Int64:
		return fmt.Sprint(v.Int())
	case reflect.Uint, reflect.Uint8, reflect.Uint16, reflect.Uint32, reflect.Uint64, reflect.Uintptr:
		return fmt.Sprint(v.Uint())
	case reflect.Float32, reflect.Float64:
		return fmt.Sprint(v.Float())
	case reflect.String:
		return fmt.Sprintf("%q", v.String())
	}
	return v.Type().String()
}

func (d *differ) diff(p string, a, b reflect.Value) string {
	if a.IsValid() != b.IsValid() {
		return p + ": one side missing"
	}
	if !a.IsValid() {
		return ""
	}
	if a.Type() != b.Type() {
		return fmt.Sprintf("%s: type %s != %s", p, a.Type(), b.Type())
	}
	switch a.Kind() {
	case reflect.Bool:
		if a.Bool() != b.Bool() {
			return fmt.Sprintf("%s: %s != %s", p, short(a), short(b))
		}
	case reflect.Int, reflect.Int8, reflect.Int16, reflect.Int32, reflect.Int64:
		if a.Int() != b.Int() {
			return fmt.Sprintf("%s: %s != %s", p, short(a), short(b))
		}
	case reflect.Uint, reflect.Uint8, reflect.Uint16, reflect.Uint32, reflect.Uint64, reflect.Uintptr:
		if a.Uint() != b.Uint() {
			return fmt.Sprintf("%s: %s != %s", p, short(a), short(b))
		}
	case reflect.Float32:
		if math.Float32bits(float32(a.Float())) != math.Float32bits(float32(b.Float())) {
			return fmt.Sprintf("%s: %s != %s", p, short(a), short(b))
		}
	case reflect.Float64:
		if math.Float64bits(a.Float()) != math.Float64bits(b.Float()) {
			return fmt.Sprintf("%s: %s != %s", p, short(a), short(b))
		}
	case reflect.Complex64, reflect.Complex128:
		if a.Complex() != b.Complex() {
			return fmt.Sprintf("%s: complex values differ", p)
		}
	case reflect.String:
		if a.String() != b.String() {
			return fmt.Sprintf("%s: %s != %s", p, short(a), short(b))
		}
	case reflect.Pointer:
		if a.IsNil() != b.IsNil() {
			return fmt.Sprintf("%s: nil=%v != nil=%v", p, a.IsNil(), b.IsNil())
		}
		if a.IsNil() {
			return ""
		}
		k := [2]visitKey{{a.Pointer(), a.Type()}, {b.Pointer(), b.Type()}}
		if d.path[k] {
			return ""
		}
		d.path[k] = true
		r := d.diff(p, a.Elem(), b.Elem())
		delete(d.path, k)
		return r
	case reflect.Interface:
		if a.IsNil() != b.IsNil() {
			return fmt.Sprintf("%s: nil=%v != nil=%v", p, a.IsNil(), b.IsNil())
		}
		if a.IsNil() {
			return ""
		}
		ea, eb := a.Elem(), b.Elem()
		if ea.Type() != eb.Type() {
			return fmt.Sprintf("%s: dynamic type %s != %s", p, ea.Type(), eb.Type())
		}
		return d.diff(p+".("+ea.Type().String()+")", ea, eb)
	case reflect.Slice, reflect.Array:
		if a.Len() != b.Len() {
			return fmt.Sprintf("%s: len %d != %d", p, a.Len(), b.Len())
		}
		for i := 0; i < a.Len(); i++ {
			if r := d.diff(fmt.Sprintf("%s[%d]", p, i), a.Index(i), b.Index(i)); r != "" {
				return r
			}
		}
	case reflect.Map:
		return d.diffMap(p, a, b, false)
	case reflect.Struct:
		t := a.Type()
		for i := 0; i < t.NumField(); i++ {
			f := t.Field(i)
			mode := 0
			if !d.names {
				mode = fieldMode(t, f)
			}
			fp := f.Name
			if p != "" {
				fp = p + "." + f.Name
			}
			var r string
			switch mode {
			case 1:
			case 2:
				r = d.diffMap(fp, a.Field(i), b.Field(i), true)
			case 3:
				if a.Field(i).Len() != b.Field(i).Len() {
					r = fmt.Sprintf("%s: len %d != %d", fp, a.Field(i).Len(), b.Field(i).Len())
				}
			default:
				r = d.diff(fp, a.Field(i), b.Field(i))
			}
			if r != "" {
				return r
			}
		}
	default:
		an, bn := false, false
		switch a.Kind() {
		case reflect.Func, reflect.Chan, reflect.UnsafePointer:
			an, bn = a.IsNil(), b.IsNil()
		}
		if an != bn {
			return fmt.Sprintf("%s: nil=%v != nil=%v", p, an, bn)
		}
	}
	return ""
}

func (d *differ) diffMap(p string, a, b reflect.Value, keysOnly bool) string {
	if a.Len() != b.Len() {
		return fmt.Sprintf("%s: map len %d != %d", p, a.Len(), b.Len())
	}
	ka, kb := sortedKeys(a), sortedKeys(b)
	for i := range ka {
		kp := fmt.Sprintf("%s[key#%d]", p, i)
		if r := d.diff(kp, ka[i], kb[i]); r != "" {
			return r
		}
		if keysOnly {
			continue
		}
		vp := fmt.Sprintf("%s[%s]", p, short(ka[i]))
		if r := d.diff(vp, a.MapIndex(ka[i]), b.MapIndex(kb[i])); r != "" {
			return r
		}
	}
	return ""
}
