package irx

import (
	"errors"
	"fmt"

	"github.com/gogpu/naga/ir"
)

// ErrUnsupported is returned by Typify for expression kinds the harness does
// not model (ray queries without the special type, DXIL-internal kinds, outer
// products, …).  Callers skip such expressions and count them.
var ErrUnsupported = errors.New("irx: expression kind not modelled")

// Typifier infers expression types of one function independently of the
// ExpressionTypes recorded in it.  It is written from the WGSL typing rules in
// the shape of upstream naga's proc::typifier; it shares no code with
// ir.ResolveExpressionType.
type Typifier struct {
	m     *ir.Module
	f     *ir.Function
	res   []TypeRes
	err   []error
	done  []bool
	wgul  map[ir.ExpressionHandle]ir.ExpressionHandle // WorkGroupUniformLoad result -> pointer
	wgulB bool
	busy  []bool

	// SSA accepts the DXIL-internal kinds: ExprAlias has the type of its source,
	// ExprPhi the type of its incomings; their operands may be later expressions.
	SSA bool
}

// NewTypifier prepares a typifier for f (a function of m or an entry point's function).
func NewTypifier(m *ir.Module, f *ir.Function) *Typifier {
	n := len(f.Expressions)
	return &Typifier{m: m, f: f, res: make([]TypeRes, n), err: make([]error, n), done: make([]bool, n), busy: make([]bool, n)}
}

// Typify infers the type of expression h of function f.
func Typify(m *ir.Module, f *ir.Function, h ir.ExpressionHandle) (TypeRes, error) {
	return NewTypifier(m, f).Type(h)
}

// Type returns the inferred type of expression h (memoised).
func (t *Typifier) Type(h ir.ExpressionHandle) (TypeRes, error) {
	if int(h) >= len(t.f.Expressions) {
		return TypeRes{}, fmt.Errorf("expression handle %d out of range (%d expressions)", h, len(t.f.Expressions))
	}
	if t.done[h] {
		return t.res[h], t.err[h]
	}
	if t.busy[h] {
		return TypeRes{}, fmt.Errorf("expression [%d] depends on itself", h)
	}
	kind := t.f.Expressions[h].Kind
	ssaKind := false
	switch kind.(type) {
	case ir.ExprAlias, ir.ExprPhi:
		ssaKind = t.SSA
	}
	if !ssaKind {
		for _, op := range Operands(kind) {
			if op >= h {
				t.done[h] = true
				t.err[h] = fmt.Errorf("operand [%d] of expression [%d] is not an earlier expression", op, h)
				return TypeRes{}, t.err[h]
			}
		}
	}
	t.busy[h] = true
	r, err := t.infer(h, kind)
	t.busy[h] = false
	t.done[h] = true
	t.res[h], t.err[h] = r, err
	return r, err
}

var (
	scBool = ir.ScalarType{Kind: ir.ScalarBool, Width: 1}
	scU32  = ir.ScalarType{Kind: ir.ScalarUint, Width: 4}
	scI32  = ir.ScalarType{Kind: ir.ScalarSint, Width: 4}
	scF32  = ir.ScalarType{Kind: ir.ScalarFloat, Width: 4}
)

func (t *Typifier) typeOK(h ir.TypeHandle) error {
	if int(h) >= len(t.m.Types) {
		return fmt.Errorf("type handle %d out of range", h)
	}
	return nil
}

// inner returns the TypeInner of an operand.
func (t *Typifier) inner(h ir.ExpressionHandle) (ir.TypeInner, error) {
	r, err := t.Type(h)
	if err != nil {
		return nil, err
	}
	in := InnerOf(t.m, r)
	if in == nil {
		return nil, fmt.Errorf("expression [%d] has no resolvable type", h)
	}
	return in, nil
}

func literalScalar(v ir.LiteralValue) (ir.ScalarType, error) {
	switch v.(type) {
	case ir.LiteralF64:
		return ir.ScalarType{Kind: ir.ScalarFloat, Width: 8}, nil
	case ir.LiteralF32:
		return scF32, nil
	case ir.LiteralF16:
		return ir.ScalarType{Kind: ir.ScalarFloat, Width: 2}, nil
	case ir.LiteralU32:
		return scU32, nil
	case ir.LiteralI32:
		return scI32, nil
	case ir.LiteralU64:
		return ir.ScalarType{Kind: ir.ScalarUint, Width: 8}, nil
	case ir.LiteralI64:
		return ir.ScalarType{Kind: ir.ScalarSint, Width: 8}, nil
	case ir.LiteralBool:
		return scBool, nil
	case ir.LiteralAbstractInt:
		return ir.ScalarType{Kind: ir.ScalarAbstractInt, Width: 8}, nil
	case ir.LiteralAbstractFloat:
		return ir.ScalarType{Kind: ir.ScalarAbstractFloat, Width: 8}, nil
	}
	return ir.ScalarType{}, fmt.Errorf("unknown literal %T", v)
}

// scalarOf returns the component scalar of a scalar / vector / matrix.
func scalarOf(in ir.TypeInner) (ir.ScalarType, bool) {
	switch x := in.(type) {
	case ir.ScalarType:
		return x, true
	case ir.VectorType:
		return x.Scalar, true
	case ir.MatrixType:
		return x.Scalar, true
	}
	return ir.ScalarType{}, false
}

func (t *Typifier) infer(h ir.ExpressionHandle, kind ir.ExpressionKind) (TypeRes, error) {
	m, f := t.m, t.f
	switch k := kind.(type) {
	case ir.Literal:
		s, err := literalScalar(k.Value)
		if err != nil {
			return TypeRes{}, err
		}
		return V(s), nil

	case ir.ExprConstant:
		if int(k.Constant) >= len(m.Constants) {
			return TypeRes{}, fmt.Errorf("constant handle %d out of range", k.Constant)
		}
		return H(m.Constants[k.Constant].Type), t.typeOK(m.Constants[k.Constant].Type)

	case ir.ExprOverride:
		if int(k.Override) >= len(m.Overrides) {
			return TypeRes{}, fmt.Errorf("override handle %d out of range", k.Override)
		}
		return H(m.Overrides[k.Override].Ty), t.typeOK(m.Overrides[k.Override].Ty)

	case ir.ExprZeroValue:
		return H(k.Type), t.typeOK(k.Type)

	case ir.ExprCompose:
		if err := t.typeOK(k.Type); err != nil {
			return TypeRes{}, err
		}
		if err := t.composeOK(k); err != nil {
			return TypeRes{}, err
		}
		return H(k.Type), nil

	case ir.ExprSplat:
		in, err := t.inner(k.Value)
		if err != nil {
			return TypeRes{}, err
		}
		s, ok := in.(ir.ScalarType)
		if !ok {
			return TypeRes{}, fmt.Errorf("splat of non-scalar %s", TypeString(m, in))
		}
		return V(ir.VectorType{Size: k.Size, Scalar: s}), nil

	case ir.ExprSwizzle:
		in, err := t.inner(k.Vector)
		if err != nil {
			return TypeRes{}, err
		}
		v, ok := in.(ir.VectorType)
		if !ok {
			return TypeRes{}, fmt.Errorf("swizzle of non-vector %s", TypeString(m, in))
		}
		if k.Size < 2 || k.Size > 4 {
			return TypeRes{}, fmt.Errorf("swizzle size %d", k.Size)
		}
		for i := 0; i < int(k.Size); i++ {
			if uint8(k.Pattern[i]) >= uint8(v.Size) {
				return TypeRes{}, fmt.Errorf("swizzle component %d of vec%d", k.Pattern[i], v.Size)
			}
		}
		return V(ir.VectorType{Size: k.Size, Scalar: v.Scalar}), nil

	case ir.ExprAccess:
		in, err := t.inner(k.Base)
		if err != nil {
			return TypeRes{}, err
		}
		return t.access(in, nil)

	case ir.ExprAccessIndex:
		in, err := t.inner(k.Base)
		if err != nil {
			return TypeRes{}, err
		}
		idx := k.Index
		return t.access(in, &idx)

	case ir.ExprFunctionArgument:
		if int(k.Index) >= len(f.Arguments) {
			return TypeRes{}, fmt.Errorf("argument index %d out of range", k.Index)
		}
		return H(f.Arguments[k.Index].Type), t.typeOK(f.Arguments[k.Index].Type)

	case ir.ExprGlobalVariable:
		if int(k.Variable) >= len(m.GlobalVariables) {
			return TypeRes{}, fmt.Errorf("global variable handle %d out of range", k.Variable)
		}
		gv := m.GlobalVariables[k.Variable]
		if err := t.typeOK(gv.Type); err != nil {
			return TypeRes{}, err
		}
		if gv.Space == ir.SpaceHandle {
			return H(gv.Type), nil
		}
		return V(ir.PointerType{Base: gv.Type, Space: gv.Space}), nil

	case ir.ExprLocalVariable:
		if int(k.Variable) >= len(f.LocalVars) {
			return TypeRes{}, fmt.Errorf("local variable index %d out of range", k.Variable)
		}
		lv := f.LocalVars[k.Variable]
		return V(ir.PointerType{Base: lv.Type, Space: ir.SpaceFunction}), t.typeOK(lv.Type)

	case ir.ExprLoad:
		in, err := t.inner(k.Pointer)
		if err != nil {
			return TypeRes{}, err
		}
		switch p := in.(type) {
		case ir.PointerType:
			if err := t.typeOK(p.Base); err != nil {
				return TypeRes{}, err
			}
			if a, ok := m.Types[p.Base].Inner.(ir.AtomicType); ok {
				return V(a.Scalar), nil
			}
			return H(p.Base), nil
		case ir.ValuePointerType:
			if p.Size != nil {
				return V(ir.VectorType{Size: *p.Size, Scalar: p.Scalar}), nil
			}
			return V(p.Scalar), nil
		}
		return TypeRes{}, fmt.Errorf("load through non-pointer %s", TypeString(m, in))

	case ir.ExprImageSample:
		img, err := t.image(k.Image)
		if err != nil {
			return TypeRes{}, err
		}
		if k.Gather != nil {
			switch img.Class {
			case ir.ImageClassSampled:
				return V(ir.VectorType{Size: 4, Scalar: ir.ScalarType{Kind: img.SampledKind, Width: 4}}), nil
			case ir.ImageClassDepth:
				return V(ir.VectorType{Size: 4, Scalar: scF32}), nil
			}
			return TypeRes{}, fmt.Errorf("gather from image class %d", img.Class)
		}
		return imageResult(img)

	case ir.ExprImageLoad:
		img, err := t.image(k.Image)
		if err != nil {
			return TypeRes{}, err
		}
		return imageResult(img)

	case ir.ExprImageQuery:
		img, err := t.image(k.Image)
		if err != nil {
			return TypeRes{}, err
		}
		switch k.Query.(type) {
		case ir.ImageQuerySize:
			switch img.Dim {
			case ir.Dim1D:
				return V(scU32), nil
			case ir.Dim2D, ir.DimCube:
				return V(ir.VectorType{Size: 2, Scalar: scU32}), nil
			case ir.Dim3D:
				return V(ir.VectorType{Size: 3, Scalar: scU32}), nil
			}
			return TypeRes{}, fmt.Errorf("image dimension %d", img.Dim)
		case ir.ImageQueryNumLevels, ir.ImageQueryNumLayers, ir.ImageQueryNumSamples:
			return V(scU32), nil
		}
		return TypeRes{}, fmt.Errorf("unknown image query %T", k.Query)

	case ir.ExprUnary:
		r, err := t.Type(k.Expr)
		return r, err

	case ir.ExprBinary:
		return t.binary(k)

	case ir.ExprSelect:
		r, err := t.Type(k.Accept)
		return r, err

	case ir.ExprDerivative:
		r, err := t.Type(k.Expr)
		return r, err

	case ir.ExprRelational:
		in, err := t.inner(k.Argument)
		if err != nil {
			return TypeRes{}, err
		}
		switch k.Fun {
		case ir.RelationalAll, ir.RelationalAny:
			return V(scBool), nil
		case ir.RelationalIsNan, ir.RelationalIsInf:
			switch a := in.(type) {
			case ir.ScalarType:
				return V(scBool), nil
			case ir.VectorType:
				return V(ir.VectorType{Size: a.Size, Scalar: scBool}), nil
			}
			return TypeRes{}, fmt.Errorf("relational on %s", TypeString(m, in))
		}
		return TypeRes{}, fmt.Errorf("unknown relational function %d", k.Fun)

	case ir.ExprMath:
		return t.math(k)

	case ir.ExprAs:
		in, err := t.inner(k.Expr)
		if err != nil {
			return TypeRes{}, err
		}
		conv := func(s ir.ScalarType) ir.ScalarType {
			w := s.Width
			if k.Convert != nil {
				w = *k.Convert
			}
			return ir.ScalarType{Kind: k.Kind, Width: w}
		}
		switch a := in.(type) {
		case ir.ScalarType:
			return V(conv(a)), nil
		case ir.VectorType:
			return V(ir.VectorType{Size: a.Size, Scalar: conv(a.Scalar)}), nil
		case ir.MatrixType:
			return V(ir.MatrixType{Columns: a.Columns, Rows: a.Rows, Scalar: conv(a.Scalar)}), nil
		}
		return TypeRes{}, fmt.Errorf("cast of %s", TypeString(m, in))

	case ir.ExprCallResult:
		if int(k.Function) >= len(m.Functions) {
			return TypeRes{}, fmt.Errorf("function handle %d out of range", k.Function)
		}
		r := m.Functions[k.Function].Result
		if r == nil {
			return TypeRes{}, fmt.Errorf("call result of function %d which returns nothing", k.Function)
		}
		return H(r.Type), t.typeOK(r.Type)

	case ir.ExprAtomicResult:
		return H(k.Ty), t.typeOK(k.Ty)

	case ir.ExprArrayLength:
		return V(scU32), nil

	case ir.ExprWorkGroupUniformLoadResult:
		ptr, ok := t.wgulPointer(h)
		if !ok {
			return TypeRes{}, fmt.Errorf("no WorkGroupUniformLoad statement produces [%d]", h)
		}
		if ptr >= h {
			return TypeRes{}, fmt.Errorf("WorkGroupUniformLoad pointer [%d] is not earlier than its result [%d]", ptr, h)
		}
		in, err := t.inner(ptr)
		if err != nil {
			return TypeRes{}, err
		}
		switch p := in.(type) {
		case ir.PointerType:
			if err := t.typeOK(p.Base); err != nil {
				return TypeRes{}, err
			}
			if a, ok := m.Types[p.Base].Inner.(ir.AtomicType); ok {
				return V(a.Scalar), nil
			}
			return H(p.Base), nil
		case ir.ValuePointerType:
			if p.Size != nil {
				return V(ir.VectorType{Size: *p.Size, Scalar: p.Scalar}), nil
			}
			return V(p.Scalar), nil
		}
		return TypeRes{}, fmt.Errorf("workgroupUniformLoad through non-pointer %s", TypeString(m, in))

	case ir.ExprRayQueryProceedResult:
		return V(scBool), nil

	case ir.ExprRayQueryGetIntersection:
		if m.SpecialTypes.RayIntersection == nil {
			return TypeRes{}, ErrUnsupported
		}
		return H(*m.SpecialTypes.RayIntersection), t.typeOK(*m.SpecialTypes.RayIntersection)

	case ir.ExprSubgroupBallotResult:
		return V(ir.VectorType{Size: 4, Scalar: scU32}), nil

	case ir.ExprSubgroupOperationResult:
		return H(k.Type), t.typeOK(k.Type)

	case ir.ExprAlias:
		if !t.SSA {
			return TypeRes{}, ErrUnsupported
		}
		return t.Type(k.Source)

	case ir.ExprPhi:
		if !t.SSA {
			return TypeRes{}, ErrUnsupported
		}
		if len(k.Incoming) == 0 {
			return TypeRes{}, fmt.Errorf("phi without incomings")
		}
		first, err := t.Type(k.Incoming[0].Value)
		if err != nil {
			return TypeRes{}, err
		}
		for _, in := range k.Incoming[1:] {
			r, err := t.Type(in.Value)
			if err != nil {
				return TypeRes{}, err
			}
			if !ResEqual(m, first, r) {
				return TypeRes{}, fmt.Errorf("phi incomings of different types %s and %s", ResString(m, first), ResString(m, r))
			}
		}
		return first, nil
	}
	return TypeRes{}, ErrUnsupported
}

// access types base[index]; idx == nil is a dynamic index.
func (t *Typifier) access(base ir.TypeInner, idx *uint32) (TypeRes, error) {
	m := t.m
	oob := func(n int) error {
		if idx != nil && int(*idx) >= n {
			return fmt.Errorf("constant index %d out of bounds for %s", *idx, TypeString(m, base))
		}
		return nil
	}
	switch b := base.(type) {
	case ir.VectorType:
		return V(b.Scalar), oob(int(b.Size))
	case ir.MatrixType:
		return V(ir.VectorType{Size: b.Rows, Scalar: b.Scalar}), oob(int(b.Columns))
	case ir.ArrayType:
		if b.Size.Constant != nil {
			if err := oob(int(*b.Size.Constant)); err != nil {
				return TypeRes{}, err
			}
		}
		return H(b.Base), t.typeOK(b.Base)
	case ir.BindingArrayType:
		return H(b.Base), t.typeOK(b.Base)
	case ir.StructType:
		if idx == nil {
			return TypeRes{}, fmt.Errorf("dynamic index into a struct")
		}
		if err := oob(len(b.Members)); err != nil {
			return TypeRes{}, err
		}
		return H(b.Members[*idx].Type), t.typeOK(b.Members[*idx].Type)
	case ir.ValuePointerType:
		if b.Size == nil {
			return TypeRes{}, fmt.Errorf("index through pointer to scalar")
		}
		return V(ir.ValuePointerType{Size: nil, Scalar: b.Scalar, Space: b.Space}), oob(int(*b.Size))
	case ir.PointerType:
		if err := t.typeOK(b.Base); err != nil {
			return TypeRes{}, err
		}
		switch p := m.Types[b.Base].Inner.(type) {
		case ir.VectorType:
			return V(ir.ValuePointerType{Size: nil, Scalar: p.Scalar, Space: b.Space}), oob(int(p.Size))
		case ir.MatrixType:
			rows := p.Rows
			return V(ir.ValuePointerType{Size: &rows, Scalar: p.Scalar, Space: b.Space}), oob(int(p.Columns))
		case ir.ArrayType:
			if p.Size.Constant != nil {
				if err := oob(int(*p.Size.Constant)); err != nil {
					return TypeRes{}, err
				}
			}
			return V(ir.PointerType{Base: p.Base, Space: b.Space}), t.typeOK(p.Base)
		case ir.BindingArrayType:
			return V(ir.PointerType{Base: p.Base, Space: b.Space}), t.typeOK(p.Base)
		case ir.StructType:
			if idx == nil {
				return TypeRes{}, fmt.Errorf("dynamic index into a struct")
			}
			if err := oob(len(p.Members)); err != nil {
				return TypeRes{}, err
			}
			return V(ir.PointerType{Base: p.Members[*idx].Type, Space: b.Space}), t.typeOK(p.Members[*idx].Type)
		}
		return TypeRes{}, fmt.Errorf("index through pointer to %s", TypeString(m, m.Types[b.Base].Inner))
	}
	return TypeRes{}, fmt.Errorf("index into %s", TypeString(m, base))
}

func (t *Typifier) image(h ir.ExpressionHandle) (ir.ImageType, error) {
	in, err := t.inner(h)
	if err != nil {
		return ir.ImageType{}, err
	}
	img, ok := in.(ir.ImageType)
	if !ok {
		return ir.ImageType{}, fmt.Errorf("image operand [%d] has type %s", h, TypeString(t.m, in))
	}
	return img, nil
}

func imageResult(img ir.ImageType) (TypeRes, error) {
	switch img.Class {
	case ir.ImageClassDepth:
		return V(scF32), nil
	case ir.ImageClassSampled:
		return V(ir.VectorType{Size: 4, Scalar: ir.ScalarType{Kind: img.SampledKind, Width: 4}}), nil
	case ir.ImageClassStorage:
		return V(ir.VectorType{Size: 4, Scalar: img.StorageFormat.Scalar()}), nil
	case ir.ImageClassExternal:
		return V(ir.VectorType{Size: 4, Scalar: scF32}), nil
	}
	return TypeRes{}, fmt.Errorf("image class %d", img.Class)
}

func (t *Typifier) binary(k ir.ExprBinary) (TypeRes, error) {
	lr, err := t.Type(k.Left)
	if err != nil {
		return TypeRes{}, err
	}
	rr, err := t.Type(k.Right)
	if err != nil {
		return TypeRes{}, err
	}
	l, r := InnerOf(t.m, lr), InnerOf(t.m, rr)
	if l == nil || r == nil {
		return TypeRes{}, fmt.Errorf("binary operand without type")
	}
	isValue := func(in ir.TypeInner) bool {
		switch in.(type) {
		case ir.ScalarType, ir.VectorType, ir.MatrixType:
			return true
		}
		return false
	}
	if !isValue(l) || !isValue(r) {
		return TypeRes{}, fmt.Errorf("binary operator %d applied to %s and %s", k.Op, TypeString(t.m, l), TypeString(t.m, r))
	}
	switch k.Op {
	case ir.BinaryAdd, ir.BinarySubtract, ir.BinaryDivide, ir.BinaryModulo:
		// scalar op vector broadcasts to the vector type (WGSL); otherwise the left type.
		if _, ls := l.(ir.ScalarType); ls {
			if _, rv := r.(ir.VectorType); rv {
				return rr, nil
			}
		}
		return lr, nil
	case ir.BinaryMultiply:
		switch a := l.(type) {
		case ir.MatrixType:
			switch b := r.(type) {
			case ir.MatrixType:
				return V(ir.MatrixType{Columns: b.Columns, Rows: a.Rows, Scalar: a.Scalar}), nil
			case ir.VectorType:
				return V(ir.VectorType{Size: a.Rows, Scalar: a.Scalar}), nil
			case ir.ScalarType:
				return lr, nil
			}
		case ir.VectorType:
			switch b := r.(type) {
			case ir.MatrixType:
				return V(ir.VectorType{Size: b.Columns, Scalar: b.Scalar}), nil
			case ir.VectorType, ir.ScalarType:
				return lr, nil
			}
		case ir.ScalarType:
			switch r.(type) {
			case ir.ScalarType, ir.VectorType, ir.MatrixType:
				return rr, nil
			}
		}
		return TypeRes{}, fmt.Errorf("multiply of %s and %s", TypeString(t.m, l), TypeString(t.m, r))
	case ir.BinaryEqual, ir.BinaryNotEqual, ir.BinaryLess, ir.BinaryLessEqual, ir.BinaryGreater, ir.BinaryGreaterEqual,
		ir.BinaryLogicalAnd, ir.BinaryLogicalOr:
		switch a := l.(type) {
		case ir.ScalarType:
			return V(scBool), nil
		case ir.VectorType:
			return V(ir.VectorType{Size: a.Size, Scalar: scBool}), nil
		}
		return TypeRes{}, fmt.Errorf("comparison of %s", TypeString(t.m, l))
	case ir.BinaryAnd, ir.BinaryExclusiveOr, ir.BinaryInclusiveOr:
		// WGSL has no mixed scalar/vector bitwise operators; if a front end accepts
		// one, the broadcast reading is taken rather than flagged.
		if _, ls := l.(ir.ScalarType); ls {
			if _, rv := r.(ir.VectorType); rv {
				return rr, nil
			}
		}
		return lr, nil
	case ir.BinaryShiftLeft, ir.BinaryShiftRight:
		return lr, nil
	}
	return TypeRes{}, fmt.Errorf("unknown binary operator %d", k.Op)
}

func (t *Typifier) math(k ir.ExprMath) (TypeRes, error) {
	m := t.m
	ar, err := t.Type(k.Arg)
	if err != nil {
		return TypeRes{}, err
	}
	a := InnerOf(m, ar)
	if a == nil {
		return TypeRes{}, fmt.Errorf("math argument without type")
	}
	for _, p := range []*ir.ExpressionHandle{k.Arg1, k.Arg2, k.Arg3} {
		if p != nil {
			if _, err := t.Type(*p); err != nil {
				return TypeRes{}, err
			}
		}
	}
	switch k.Fun {
	case ir.MathAbs, ir.MathMin, ir.MathMax, ir.MathClamp, ir.MathSaturate,
		ir.MathCos, ir.MathCosh, ir.MathSin, ir.MathSinh, ir.MathTan, ir.MathTanh,
		ir.MathAcos, ir.MathAsin, ir.MathAtan, ir.MathAtan2, ir.MathAsinh, ir.MathAcosh, ir.MathAtanh,
		ir.MathRadians, ir.MathDegrees,
		ir.MathCeil, ir.MathFloor, ir.MathRound, ir.MathFract, ir.MathTrunc, ir.MathLdexp,
		ir.MathExp, ir.MathExp2, ir.MathLog, ir.MathLog2, ir.MathPow,
		ir.MathCross, ir.MathNormalize, ir.MathFaceForward, ir.MathReflect, ir.MathRefract,
		ir.MathSign, ir.MathFma, ir.MathMix, ir.MathStep, ir.MathSmoothStep, ir.MathSqrt, ir.MathInverseSqrt,
		ir.MathInverse, ir.MathQuantizeF16,
		ir.MathCountTrailingZeros, ir.MathCountLeadingZeros, ir.MathCountOneBits, ir.MathReverseBits,
		ir.MathExtractBits, ir.MathInsertBits, ir.MathFirstTrailingBit, ir.MathFirstLeadingBit:
		return ar, nil
	case ir.MathDot:
		v, ok := a.(ir.VectorType)
		if !ok {
			return TypeRes{}, fmt.Errorf("dot of %s", TypeString(m, a))
		}
		return V(v.Scalar), nil
	case ir.MathDot4I8Packed:
		return V(scI32), nil
	case ir.MathDot4U8Packed:
		return V(scU32), nil
	case ir.MathDistance, ir.MathLength:
		switch x := a.(type) {
		case ir.ScalarType:
			return V(x), nil
		case ir.VectorType:
			return V(x.Scalar), nil
		}
		return TypeRes{}, fmt.Errorf("length/distance of %s", TypeString(m, a))
	case ir.MathTranspose:
		x, ok := a.(ir.MatrixType)
		if !ok {
			return TypeRes{}, fmt.Errorf("transpose of %s", TypeString(m, a))
		}
		return V(ir.MatrixType{Columns: x.Rows, Rows: x.Columns, Scalar: x.Scalar}), nil
	case ir.MathDeterminant:
		x, ok := a.(ir.MatrixType)
		if !ok {
			return TypeRes{}, fmt.Errorf("determinant of %s", TypeString(m, a))
		}
		return V(x.Scalar), nil
	case ir.MathPack4x8snorm, ir.MathPack4x8unorm, ir.MathPack2x16snorm, ir.MathPack2x16unorm, ir.MathPack2x16float,
		ir.MathPack4xI8, ir.MathPack4xU8, ir.MathPack4xI8Clamp, ir.MathPack4xU8Clamp:
		return V(scU32), nil
	case ir.MathUnpack4x8snorm, ir.MathUnpack4x8unorm:
		return V(ir.VectorType{Size: 4, Scalar: scF32}), nil
	case ir.MathUnpack2x16snorm, ir.MathUnpack2x16unorm, ir.MathUnpack2x16float:
		return V(ir.VectorType{Size: 2, Scalar: scF32}), nil
	case ir.MathUnpack4xI8:
		return V(ir.VectorType{Size: 4, Scalar: scI32}), nil
	case ir.MathUnpack4xU8:
		return V(ir.VectorType{Size: 4, Scalar: scU32}), nil
	case ir.MathModf, ir.MathFrexp:
		return t.modfFrexp(k.Fun == ir.MathModf, a)
	}
	// MathOuter is not reachable from WGSL; anything else is unknown to the harness.
	return TypeRes{}, ErrUnsupported
}

// modfFrexp finds the predeclared result struct: exactly two members,
// ("fract","whole") both of the argument type for modf, ("fract","exp") with
// fract of the argument type and exp the i32 scalar/vector of the same shape
// for frexp.  If the module holds no such struct, or more than one distinct
// candidate, the expression is left unchecked.
func (t *Typifier) modfFrexp(modf bool, arg ir.TypeInner) (TypeRes, error) {
	m := t.m
	var second ir.TypeInner
	secondName := "whole"
	switch a := arg.(type) {
	case ir.ScalarType:
		second = a
		if !modf {
			second = scI32
		}
	case ir.VectorType:
		second = a
		if !modf {
			second = ir.VectorType{Size: a.Size, Scalar: scI32}
		}
	default:
		return TypeRes{}, fmt.Errorf("modf/frexp of %s", TypeString(m, arg))
	}
	if !modf {
		secondName = "exp"
	}
	found := -1
	for i := range m.Types {
		st, ok := m.Types[i].Inner.(ir.StructType)
		if !ok || len(st.Members) != 2 || st.Members[0].Name != "fract" || st.Members[1].Name != secondName {
			continue
		}
		if int(st.Members[0].Type) >= len(m.Types) || int(st.Members[1].Type) >= len(m.Types) {
			continue
		}
		if !InnersEqual(m, m.Types[st.Members[0].Type].Inner, arg) || !InnersEqual(m, m.Types[st.Members[1].Type].Inner, second) {
			continue
		}
		if len(m.Types[i].Name) < 2 || m.Types[i].Name[:2] != "__" {
			continue // predeclared result structs carry a reserved name
		}
		if found >= 0 {
			return TypeRes{}, ErrUnsupported
		}
		found = i
	}
	if found < 0 {
		return TypeRes{}, ErrUnsupported
	}
	return H(ir.TypeHandle(found)), nil
}

// wgulPointer finds the pointer operand of the statement producing result h.
func (t *Typifier) wgulPointer(h ir.ExpressionHandle) (ir.ExpressionHandle, bool) {
	if !t.wgulB {
		t.wgulB = true
		t.wgul = map[ir.ExpressionHandle]ir.ExpressionHandle{}
		var walk func(b ir.Block, depth int)
		walk = func(b ir.Block, depth int) {
			if depth > 10000 {
				return
			}
			for _, s := range b {
				if w, ok := s.Kind.(ir.StmtWorkGroupUniformLoad); ok {
					if _, dup := t.wgul[w.Result]; !dup {
						t.wgul[w.Result] = w.Pointer
					}
				}
				for _, sb := range SubBlocks(s.Kind) {
					walk(sb, depth+1)
				}
			}
		}
		walk(ir.Block(t.f.Body), 0)
	}
	p, ok := t.wgul[h]
	return p, ok
}

// composeOK checks that the components of a Compose build a value of its type:
// vector: scalars and vectors of the component scalar adding up to the size;
// matrix: one column vector per column (or Columns*Rows scalars);
// array: Size elements of the base type; struct: one value per member.
func (t *Typifier) composeOK(k ir.ExprCompose) error {
	m := t.m
	comps := make([]ir.TypeInner, len(k.Components))
	res := make([]TypeRes, len(k.Components))
	for i, c := range k.Components {
		r, err := t.Type(c)
		if err != nil {
			return err
		}
		res[i] = r
		comps[i] = InnerOf(m, r)
		if comps[i] == nil {
			return fmt.Errorf("compose component [%d] has no type", c)
		}
	}
	bad := func(why string) error {
		return fmt.Errorf("compose of %s from %d components: %s", handleString(m, k.Type, 0), len(comps), why)
	}
	switch ty := m.Types[k.Type].Inner.(type) {
	case ir.VectorType:
		n := 0
		for _, c := range comps {
			switch x := c.(type) {
			case ir.ScalarType:
				if x != ty.Scalar {
					return bad("component scalar " + scalarString(x))
				}
				n++
			case ir.VectorType:
				if x.Scalar != ty.Scalar {
					return bad("component scalar " + scalarString(x.Scalar))
				}
				n += int(x.Size)
			default:
				return bad("component of type " + TypeString(m, c))
			}
		}
		if n != int(ty.Size) {
			return bad(fmt.Sprintf("%d scalar components for a vec%d", n, ty.Size))
		}
	case ir.MatrixType:
		col := ir.VectorType{Size: ty.Rows, Scalar: ty.Scalar}
		allCols, allScalars := len(comps) == int(ty.Columns), len(comps) == int(ty.Columns)*int(ty.Rows)
		for _, c := range comps {
			if v, ok := c.(ir.VectorType); !ok || v != col {
				allCols = false
			}
			if s, ok := c.(ir.ScalarType); !ok || s != ty.Scalar {
				allScalars = false
			}
		}
		if !allCols && !allScalars {
			return bad("components are neither the column vectors nor the scalars of the matrix")
		}
	case ir.ArrayType:
		if ty.Size.Constant == nil || int(*ty.Size.Constant) != len(comps) {
			return bad("wrong number of elements")
		}
		for _, r := range res {
			if !ResEqual(m, r, H(ty.Base)) {
				return bad("element of type " + ResString(m, r))
			}
		}
	case ir.StructType:
		if len(ty.Members) != len(comps) {
			return bad("wrong number of members")
		}
		for i, r := range res {
			if !ResEqual(m, r, H(ty.Members[i].Type)) {
				return bad(fmt.Sprintf("member %d of type %s", i, ResString(m, r)))
			}
		}
	default:
		return bad("type is not constructible")
	}
	return nil
}
