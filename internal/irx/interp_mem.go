package irx

import (
	"encoding/binary"
	"fmt"
	"math"

	"github.com/gogpu/naga/ir"
)

// ---- values -----------------------------------------------------------------------
//
// A Val is a WGSL value.  Scalars (bool, i32, u32, f32) keep their bit pattern
// in B (bool: 0/1).  Vectors, matrices (a slice of column vectors), arrays and
// structs keep their components in E.  A pointer value has P set.

type vkind uint8

const (
	vNone vkind = iota
	vScalar
	vVector
	vMatrix
	vArray
	vStruct
	vPointer
)

// Val is an interpreter value.
type Val struct {
	K vkind
	S ir.ScalarKind // scalar kind (component kind for vectors / matrices)
	B uint32
	E []Val
	P *pointer
}

func scalarV(k ir.ScalarKind, b uint32) Val { return Val{K: vScalar, S: k, B: b} }
func boolV(b bool) Val {
	if b {
		return Val{K: vScalar, S: ir.ScalarBool, B: 1}
	}
	return Val{K: vScalar, S: ir.ScalarBool}
}
func u32V(x uint32) Val  { return Val{K: vScalar, S: ir.ScalarUint, B: x} }
func i32V(x int32) Val   { return Val{K: vScalar, S: ir.ScalarSint, B: uint32(x)} }
func f32V(x float32) Val { return Val{K: vScalar, S: ir.ScalarFloat, B: math.Float32bits(x)} }
func (v Val) f32() float32 {
	return math.Float32frombits(v.B)
}
func (v Val) f64() float64 { return float64(math.Float32frombits(v.B)) }

func (v Val) clone() Val {
	if v.E != nil {
		e := make([]Val, len(v.E))
		for i := range v.E {
			e[i] = v.E[i].clone()
		}
		v.E = e
	}
	return v
}

func (v Val) String() string {
	switch v.K {
	case vScalar:
		switch v.S {
		case ir.ScalarBool:
			return fmt.Sprint(v.B != 0)
		case ir.ScalarSint:
			return fmt.Sprintf("%di", int32(v.B))
		case ir.ScalarUint:
			return fmt.Sprintf("%du", v.B)
		case ir.ScalarFloat:
			return fmt.Sprintf("%g(0x%08x)", v.f32(), v.B)
		}
	case vPointer:
		return "ptr"
	case vNone:
		return "<none>"
	}
	s := "("
	for i := range v.E {
		if i > 0 {
			s += ", "
		}
		s += v.E[i].String()
	}
	return s + ")"
}

// pointer is a reference into typed-cell memory (cell) or into a bound buffer (buf).
type pointer struct {
	cell  *Val
	buf   *[]byte
	off   int
	ty    ir.TypeInner // pointee type
	space ir.AddressSpace
	what  string // for messages
	oob   bool   // an index on the way was out of range: loads give zero, stores are dropped
}

// ---- traps --------------------------------------------------------------------------

type trapPanic struct{ msg string }
type abortPanic struct{}
type stepPanic struct{}

func trapf(format string, a ...any) { panic(trapPanic{fmt.Sprintf(format, a...)}) }

// ---- layout (WGSL rules, taking offsets / strides from the IR) -------------------------

func (mc *machine) inner(h ir.TypeHandle) ir.TypeInner {
	if int(h) >= len(mc.m.Types) {
		trapf("malformed: type handle %d out of range", h)
	}
	return mc.m.Types[h].Inner
}

func checkScalar(s ir.ScalarType) {
	switch s.Kind {
	case ir.ScalarBool:
		return
	case ir.ScalarSint, ir.ScalarUint, ir.ScalarFloat:
		if s.Width == 4 {
			return
		}
	}
	trapf("unsupported: scalar kind %d width %d", s.Kind, s.Width)
}

// colStride is the distance between matrix columns in a buffer (the alignment of vecR).
func colStride(rows ir.VectorSize) int {
	if rows == 2 {
		return 8
	}
	return 16
}

// sizeOf is the WGSL size of a type in a buffer (0 for runtime-sized arrays).
func (mc *machine) sizeOf(in ir.TypeInner) int {
	switch t := in.(type) {
	case ir.ScalarType:
		return int(t.Width)
	case ir.AtomicType:
		return int(t.Scalar.Width)
	case ir.VectorType:
		return int(t.Size) * int(t.Scalar.Width)
	case ir.MatrixType:
		return int(t.Columns) * colStride(t.Rows)
	case ir.ArrayType:
		if t.Size.Constant == nil {
			return 0
		}
		return int(*t.Size.Constant) * int(t.Stride)
	case ir.StructType:
		return int(t.Span)
	}
	trapf("unsupported: size of %T", in)
	return 0
}

// zero builds the zero value of a type (runtime arrays get n elements).
func (mc *machine) zero(in ir.TypeInner, depth int) Val {
	if depth > 32 {
		trapf("malformed: type nesting too deep")
	}
	switch t := in.(type) {
	case ir.ScalarType:
		checkScalar(t)
		return scalarV(t.Kind, 0)
	case ir.AtomicType:
		checkScalar(t.Scalar)
		return scalarV(t.Scalar.Kind, 0)
	case ir.VectorType:
		checkScalar(t.Scalar)
		v := Val{K: vVector, S: t.Scalar.Kind, E: make([]Val, t.Size)}
		for i := range v.E {
			v.E[i] = scalarV(t.Scalar.Kind, 0)
		}
		return v
	case ir.MatrixType:
		checkScalar(t.Scalar)
		v := Val{K: vMatrix, S: t.Scalar.Kind, E: make([]Val, t.Columns)}
		for i := range v.E {
			v.E[i] = mc.zero(ir.VectorType{Size: t.Rows, Scalar: t.Scalar}, depth+1)
		}
		return v
	case ir.ArrayType:
		if t.Size.Constant == nil {
			trapf("unsupported: zero value of a runtime-sized array")
		}
		n := int(*t.Size.Constant)
		if n > 1<<16 {
			trapf("unsupported: array of %d elements", n)
		}
		v := Val{K: vArray, E: make([]Val, n)}
		ei := mc.inner(t.Base)
		for i := range v.E {
			v.E[i] = mc.zero(ei, depth+1)
		}
		return v
	case ir.StructType:
		v := Val{K: vStruct, E: make([]Val, len(t.Members))}
		for i, mem := range t.Members {
			v.E[i] = mc.zero(mc.inner(mem.Type), depth+1)
		}
		return v
	}
	trapf("unsupported: value of type %T", in)
	return Val{}
}

// rtLen is the element count of a runtime-sized array starting at off in buf.
func rtLen(buf []byte, off int, stride uint32) int {
	if stride == 0 || off >= len(buf) {
		return 0
	}
	return (len(buf) - off) / int(stride)
}

// decode reads a value of type in from buf at off.
func (mc *machine) decode(in ir.TypeInner, buf []byte, off int, depth int) Val {
	if depth > 32 {
		trapf("malformed: type nesting too deep")
	}
	need := func(n int) {
		if off < 0 || off+n > len(buf) {
			trapf("buffer too small: %d bytes at offset %d of a %d-byte buffer", n, off, len(buf))
		}
	}
	switch t := in.(type) {
	case ir.ScalarType:
		checkScalar(t)
		need(4)
		b := binary.LittleEndian.Uint32(buf[off:])
		if t.Kind == ir.ScalarBool {
			if b != 0 {
				b = 1
			}
		}
		return scalarV(t.Kind, b)
	case ir.AtomicType:
		checkScalar(t.Scalar)
		need(4)
		return scalarV(t.Scalar.Kind, binary.LittleEndian.Uint32(buf[off:]))
	case ir.VectorType:
		checkScalar(t.Scalar)
		need(4 * int(t.Size))
		v := Val{K: vVector, S: t.Scalar.Kind, E: make([]Val, t.Size)}
		for i := range v.E {
			v.E[i] = scalarV(t.Scalar.Kind, binary.LittleEndian.Uint32(buf[off+4*i:]))
		}
		return v
	case ir.MatrixType:
		v := Val{K: vMatrix, S: t.Scalar.Kind, E: make([]Val, t.Columns)}
		cs := colStride(t.Rows)
		for i := range v.E {
			v.E[i] = mc.decode(ir.VectorType{Size: t.Rows, Scalar: t.Scalar}, buf, off+i*cs, depth+1)
		}
		return v
	case ir.ArrayType:
		n := 0
		if t.Size.Constant != nil {
			n = int(*t.Size.Constant)
		} else {
			n = rtLen(buf, off, t.Stride)
		}
		v := Val{K: vArray, E: make([]Val, n)}
		ei := mc.inner(t.Base)
		for i := range v.E {
			v.E[i] = mc.decode(ei, buf, off+i*int(t.Stride), depth+1)
		}
		return v
	case ir.StructType:
		v := Val{K: vStruct, E: make([]Val, len(t.Members))}
		for i, mem := range t.Members {
			v.E[i] = mc.decode(mc.inner(mem.Type), buf, off+int(mem.Offset), depth+1)
		}
		return v
	}
	trapf("unsupported: load of %T from a buffer", in)
	return Val{}
}

// encode writes v (of type in) into buf at off; padding is never written.
func (mc *machine) encode(in ir.TypeInner, v Val, buf []byte, off int, depth int) {
	if depth > 32 {
		trapf("malformed: type nesting too deep")
	}
	need := func(n int) {
		if off < 0 || off+n > len(buf) {
			trapf("buffer too small: %d bytes at offset %d of a %d-byte buffer", n, off, len(buf))
		}
	}
	shape := func(k vkind, n int) {
		if v.K != k || (n >= 0 && len(v.E) != n) {
			trapf("ill-typed store: value %s into %s", v, TypeString(mc.m, in))
		}
	}
	switch t := in.(type) {
	case ir.ScalarType:
		shape(vScalar, -1)
		need(4)
		binary.LittleEndian.PutUint32(buf[off:], v.B)
	case ir.AtomicType:
		shape(vScalar, -1)
		need(4)
		binary.LittleEndian.PutUint32(buf[off:], v.B)
	case ir.VectorType:
		shape(vVector, int(t.Size))
		need(4 * int(t.Size))
		for i := range v.E {
			binary.LittleEndian.PutUint32(buf[off+4*i:], v.E[i].B)
		}
	case ir.MatrixType:
		shape(vMatrix, int(t.Columns))
		cs := colStride(t.Rows)
		for i := range v.E {
			mc.encode(ir.VectorType{Size: t.Rows, Scalar: t.Scalar}, v.E[i], buf, off+i*cs, depth+1)
		}
	case ir.ArrayType:
		if t.Size.Constant != nil {
			shape(vArray, int(*t.Size.Constant))
		} else {
			shape(vArray, -1)
		}
		ei := mc.inner(t.Base)
		for i := range v.E {
			mc.encode(ei, v.E[i], buf, off+i*int(t.Stride), depth+1)
		}
	case ir.StructType:
		shape(vStruct, len(t.Members))
		for i, mem := range t.Members {
			mc.encode(mc.inner(mem.Type), v.E[i], buf, off+int(mem.Offset), depth+1)
		}
	default:
		trapf("unsupported: store of %T into a buffer", in)
	}
}

// load reads through a pointer.
func (mc *machine) load(p *pointer) Val {
	if p == nil {
		trapf("malformed: load through a non-pointer")
	}
	if p.oob {
		if at, ok := p.ty.(ir.ArrayType); ok && at.Size.Constant == nil {
			return Val{K: vArray}
		}
		return mc.zero(p.ty, 0)
	}
	if p.cell != nil {
		return p.cell.clone()
	}
	return mc.decode(p.ty, *p.buf, p.off, 0)
}

// store writes through a pointer.
func (mc *machine) store(p *pointer, v Val) {
	if p == nil {
		trapf("malformed: store through a non-pointer")
	}
	if v.K == vPointer || v.K == vNone {
		trapf("ill-typed store: value %s", v)
	}
	if p.oob {
		return
	}
	if p.cell != nil {
		assignCell(mc, p.cell, v)
		return
	}
	if p.space == ir.SpaceUniform {
		trapf("malformed: store into uniform memory")
	}
	mc.encode(p.ty, v, *p.buf, p.off, 0)
}

// assignCell stores src into dst keeping dst's shape (a shape mismatch is a type error of the IR).
func assignCell(mc *machine, dst *Val, src Val) {
	if dst.K != src.K || len(dst.E) != len(src.E) {
		trapf("ill-typed store: value %s into cell %s", src, *dst)
	}
	if dst.K == vScalar {
		if dst.S != src.S {
			trapf("ill-typed store: scalar kind %d into %d", src.S, dst.S)
		}
		dst.B = src.B
		return
	}
	for i := range dst.E {
		assignCell(mc, &dst.E[i], src.E[i])
	}
}

// index produces the pointer to element i of the object p points to; ok=false when i is out of range.
func (mc *machine) indexPtr(p *pointer, i int64, constIdx bool) (*pointer, bool) {
	switch t := p.ty.(type) {
	case ir.VectorType:
		if i < 0 || i >= int64(t.Size) {
			return nil, false
		}
		np := &pointer{ty: t.Scalar, space: p.space, what: p.what}
		if p.cell != nil {
			np.cell = &p.cell.E[i]
		} else {
			np.buf, np.off = p.buf, p.off+4*int(i)
		}
		return np, true
	case ir.MatrixType:
		if i < 0 || i >= int64(t.Columns) {
			return nil, false
		}
		np := &pointer{ty: ir.VectorType{Size: t.Rows, Scalar: t.Scalar}, space: p.space, what: p.what}
		if p.cell != nil {
			np.cell = &p.cell.E[i]
		} else {
			np.buf, np.off = p.buf, p.off+colStride(t.Rows)*int(i)
		}
		return np, true
	case ir.ArrayType:
		np := &pointer{ty: mc.inner(t.Base), space: p.space, what: p.what}
		if p.cell != nil {
			if i < 0 || i >= int64(len(p.cell.E)) {
				return nil, false
			}
			np.cell = &p.cell.E[i]
			return np, true
		}
		n := int64(0)
		if t.Size.Constant != nil {
			n = int64(*t.Size.Constant)
		} else {
			n = int64(rtLen(*p.buf, p.off, t.Stride))
		}
		if i < 0 || i >= n {
			return nil, false
		}
		np.buf, np.off = p.buf, p.off+int(i)*int(t.Stride)
		return np, true
	case ir.StructType:
		if !constIdx {
			trapf("malformed: dynamic index into a struct")
		}
		if i < 0 || i >= int64(len(t.Members)) {
			trapf("malformed: member %d of a struct with %d members", i, len(t.Members))
		}
		np := &pointer{ty: mc.inner(t.Members[i].Type), space: p.space, what: p.what}
		if p.cell != nil {
			np.cell = &p.cell.E[i]
		} else {
			np.buf, np.off = p.buf, p.off+int(t.Members[i].Offset)
		}
		return np, true
	}
	trapf("malformed: index through a pointer to %s", TypeString(mc.m, p.ty))
	return nil, false
}
