package irx

import (
	"errors"
	"fmt"
	"sort"

	"github.com/gogpu/naga/ir"
)

// Issue is one breach of the C09 contract.
type Issue struct {
	Rule  string `json:"rule"`  // stable rule id, e.g. "emit.use-before"
	Where string `json:"where"` // "fn name", "ep name [12]", "type 3", …
	Msg   string `json:"msg"`

	// Structured context for callers that classify issues (not serialised).
	Fn       *ir.Function `json:"-"` // function the issue is in (nil at module level)
	Expr     int          `json:"-"` // expression handle the issue is about, -1 if none
	Value    int          `json:"-"` // for stores/returns/calls: the value expression, -1 if none
	Recorded TypeRes      `json:"-"` // typing.*, stores.type (pointee), returns.type / calls.argtype (expected)
	Inferred TypeRes      `json:"-"` // typing.mismatch / typing.missing (when inferable), value type for stores/returns/calls
}

func (i Issue) String() string { return i.Rule + " @ " + i.Where + ": " + i.Msg }

// Stats counts what StrictValidate looked at and what it deliberately skipped.
type Stats struct {
	Functions          int
	Expressions        int
	MaxExprsInFunction int
	Statements         int
	MaxBlockDepth      int
	TypifyUnsupported  int // expressions whose kind Typify does not model (typing rule skipped)
	DeadUnemitted      int // Emit-class expressions neither emitted nor used by anything evaluated (allowed)
	UnreachableReturns int // Return statements after a terminator (not on any path; not checked by returns.*)
	AtomicStores       int // Store through a pointer to atomic<T> with a T value (accepted, as upstream)
	StoresChecked      int
	CallsChecked       int
	Emits              int
}

// Rule ids (stable; documented in checks/c09).
const (
	RuleHandleRange     = "handles.range"      // a handle is >= the length of the arena it indexes
	RuleTypeOrder       = "handles.type-order" // a type refers to a type that is not earlier
	RuleConstOrder      = "handles.const-order"
	RuleGExprOrder      = "handles.gexpr-order"
	RuleExprOrder       = "handles.expr-order"
	RuleAbstractType    = "abstract.type"
	RuleAbstractLiteral = "abstract.literal"
	RuleAbstractExprTy  = "abstract.exprtype"
	RuleAbstractConst   = "abstract.constant"
	RuleDedup           = "dedup.type"
	RuleTypingMissing   = "typing.missing"
	RuleTypingMismatch  = "typing.mismatch"
	RuleTypingError     = "typing.ill-typed"
	RuleEmitRange       = "emit.range"
	RuleEmitPre         = "emit.preemit-in-range"
	RuleEmitResult      = "emit.result-in-range"
	RuleEmitMultiple    = "emit.multiple"
	RuleEmitMissing     = "emit.missing"
	RuleEmitUseBefore   = "emit.use-before"
	RuleResultNone      = "emit.result-unproduced"
	RuleResultMultiple  = "emit.result-multiple"
	RuleResultKind      = "emit.result-kind"
	RuleReturnMissing   = "returns.missing"
	RuleReturnNoValue   = "returns.novalue"
	RuleReturnType      = "returns.type"
	RuleReturnInVoid    = "returns.value-in-void"
	RuleStorePointer    = "stores.pointer"
	RuleStoreType       = "stores.type"
	RuleCallArgc        = "calls.argc"
	RuleCallArgType     = "calls.argtype"
	RuleCallResult      = "calls.result"
	RuleEPMissing       = "ep.binding-missing"
	RuleEPDupLocation   = "ep.binding-dup-location"
	RuleEPDupBuiltin    = "ep.binding-dup-builtin"
	RuleEPWorkgroup     = "ep.workgroup-size"
	RuleEPStage         = "ep.stage"
	RuleGlobalNoBinding = "globals.binding-missing"
	RuleGlobalBinding   = "globals.binding-unexpected"
)

// StrictValidate checks the structural contract of property C09 on m and
// returns every breach found (nil when the module satisfies it).
func StrictValidate(m *ir.Module) []Issue {
	is, _ := StrictValidateStats(m)
	return is
}

// Options selects the IR dialect judged.
type Options struct {
	// SSA: the module went through the DXIL pre-emission passes.  ExprAlias and
	// ExprPhi are legal; their operands may be later expressions and are not
	// subject to the Emit scoping rule (dominance is judged by CheckSSA instead).
	SSA bool
}

// StrictValidateOpts is StrictValidate for a given dialect; with Options.SSA the
// issues of CheckSSA are appended.
func StrictValidateOpts(m *ir.Module, o Options) []Issue {
	v := &validator{m: m, opts: o}
	is, _ := v.run()
	if o.SSA {
		is = append(is, CheckSSA(m)...)
	}
	return is
}

// StrictValidateStats is StrictValidate plus counters.
func StrictValidateStats(m *ir.Module) ([]Issue, Stats) {
	v := &validator{m: m}
	return v.run()
}

func (v *validator) run() ([]Issue, Stats) {
	m := v.m
	v.types()
	v.constantsAndGlobals()
	handlesOK := len(v.issues) == 0
	for i := range m.Functions {
		v.function(fmt.Sprintf("fn %s(#%d)", m.Functions[i].Name, i), &m.Functions[i], nil)
	}
	for i := range m.EntryPoints {
		ep := &m.EntryPoints[i]
		v.function(fmt.Sprintf("ep %s", ep.Name), &ep.Function, ep)
	}
	_ = handlesOK
	const maxIssues = 200
	if len(v.issues) > maxIssues {
		v.issues = v.issues[:maxIssues]
	}
	return v.issues, v.st
}

type validator struct {
	opts   Options
	m      *ir.Module
	issues []Issue
	st     Stats
	seen   map[string]bool
	curFn  *ir.Function
}

func (v *validator) add(rule, where, format string, a ...any) {
	v.addX(Issue{Expr: -1, Value: -1}, rule, where, format, a...)
}

// addX is add with structured context.
func (v *validator) addX(ctx Issue, rule, where, format string, a ...any) {
	msg := fmt.Sprintf(format, a...)
	key := rule + "\x00" + where + "\x00" + msg
	if v.seen == nil {
		v.seen = map[string]bool{}
	}
	if v.seen[key] {
		return
	}
	v.seen[key] = true
	ctx.Rule, ctx.Where, ctx.Msg = rule, where, msg
	if ctx.Fn == nil {
		ctx.Fn = v.curFn
	}
	v.issues = append(v.issues, ctx)
}

func abstractScalar(s ir.ScalarType) bool {
	return s.Kind == ir.ScalarAbstractInt || s.Kind == ir.ScalarAbstractFloat
}

// innerAbstract reports an abstract scalar kind directly inside a TypeInner.
func innerAbstract(in ir.TypeInner) bool {
	switch x := in.(type) {
	case ir.ScalarType:
		return abstractScalar(x)
	case ir.VectorType:
		return abstractScalar(x.Scalar)
	case ir.MatrixType:
		return abstractScalar(x.Scalar)
	case ir.AtomicType:
		return abstractScalar(x.Scalar)
	case ir.ValuePointerType:
		return abstractScalar(x.Scalar)
	}
	return false
}

func (v *validator) typeInRange(where, what string, h ir.TypeHandle) bool {
	if int(h) >= len(v.m.Types) {
		v.add(RuleHandleRange, where, "%s: type handle %d out of range (%d types)", what, h, len(v.m.Types))
		return false
	}
	return true
}

// ---- module level -----------------------------------------------------------

func (v *validator) types() {
	m := v.m
	for i := range m.Types {
		where := fmt.Sprintf("type %d", i)
		t := &m.Types[i]
		if t.Inner == nil {
			v.add(RuleHandleRange, where, "type has no inner")
			continue
		}
		if innerAbstract(t.Inner) {
			v.add(RuleAbstractType, where, "abstract scalar kind in %s", TypeString(m, t.Inner))
		}
		var deps []ir.TypeHandle
		switch x := t.Inner.(type) {
		case ir.ArrayType:
			deps = append(deps, x.Base)
		case ir.PointerType:
			deps = append(deps, x.Base)
		case ir.BindingArrayType:
			deps = append(deps, x.Base)
		case ir.StructType:
			for _, mem := range x.Members {
				deps = append(deps, mem.Type)
			}
		default:
			deps = HandlesIn(t.Inner).Types
		}
		for _, d := range deps {
			if !v.typeInRange(where, "component", d) {
				continue
			}
			if int(d) >= i {
				v.add(RuleTypeOrder, where, "%s refers to type %d which is not earlier", TypeString(m, t.Inner), d)
			}
		}
	}
	// dedup: anonymous types must be pairwise structurally distinct.  Earlier
	// types being unique, comparing embedded handles by value is exact.
	seen := map[string]int{}
	for i := range m.Types {
		t := &m.Types[i]
		if t.Name != "" || t.Inner == nil {
			continue
		}
		if _, isStruct := t.Inner.(ir.StructType); isStruct {
			continue // an anonymous struct cannot be written in WGSL; generated ones are compared by identity
		}
		key := fmt.Sprintf("%T|%s", t.Inner, flatKey(t.Inner))
		if j, dup := seen[key]; dup {
			v.add(RuleDedup, fmt.Sprintf("type %d", i), "anonymous %s is structurally equal to type %d", TypeString(m, t.Inner), j)
		} else {
			seen[key] = i
		}
	}
	for _, p := range []struct {
		name string
		h    *ir.TypeHandle
	}{{"ExternalTextureParams", m.SpecialTypes.ExternalTextureParams},
		{"ExternalTextureTransferFunction", m.SpecialTypes.ExternalTextureTransferFunction},
		{"RayIntersection", m.SpecialTypes.RayIntersection}} {
		if p.h != nil {
			v.typeInRange("special types", p.name, *p.h)
		}
	}
}

// flatKey is an exact textual key of a TypeInner (all fields, pointers followed).
func flatKey(in ir.TypeInner) string {
	switch x := in.(type) {
	case ir.ArrayType:
		if x.Size.Constant != nil {
			return fmt.Sprintf("%d/%d/%d", x.Base, *x.Size.Constant, x.Stride)
		}
		return fmt.Sprintf("%d/rt/%d", x.Base, x.Stride)
	case ir.BindingArrayType:
		if x.Size != nil {
			return fmt.Sprintf("%d/%d", x.Base, *x.Size)
		}
		return fmt.Sprintf("%d/unbounded", x.Base)
	case ir.ValuePointerType:
		if x.Size != nil {
			return fmt.Sprintf("%d/%v/%d", *x.Size, x.Scalar, x.Space)
		}
		return fmt.Sprintf("s/%v/%d", x.Scalar, x.Space)
	}
	return fmt.Sprintf("%+v", in)
}

func (v *validator) constantsAndGlobals() {
	m := v.m
	for i := range m.Constants {
		c := &m.Constants[i]
		where := fmt.Sprintf("constant %d (%s)", i, c.Name)
		if v.typeInRange(where, "type", c.Type) && isAbstractDeep(m, c.Type, 0) {
			v.add(RuleAbstractConst, where, "constant of abstract type %s", handleString(m, c.Type, 0))
		}
		switch cv := c.Value.(type) {
		case ir.ScalarValue:
			if cv.Kind == ir.ScalarAbstractInt || cv.Kind == ir.ScalarAbstractFloat {
				v.add(RuleAbstractConst, where, "scalar value of abstract kind %d", cv.Kind)
			}
		case ir.CompositeValue:
			for _, ch := range cv.Components {
				if int(ch) >= len(m.Constants) {
					v.add(RuleHandleRange, where, "component constant %d out of range (%d constants)", ch, len(m.Constants))
				} else if int(ch) >= i {
					v.add(RuleConstOrder, where, "component constant %d is not earlier", ch)
				}
			}
		}
		if len(m.GlobalExpressions) > 0 || c.Init != 0 {
			if int(c.Init) >= len(m.GlobalExpressions) {
				v.add(RuleHandleRange, where, "init: global expression %d out of range (%d)", c.Init, len(m.GlobalExpressions))
			}
		}
	}
	for i := range m.Overrides {
		o := &m.Overrides[i]
		where := fmt.Sprintf("override %d (%s)", i, o.Name)
		v.typeInRange(where, "type", o.Ty)
		if o.Init != nil && int(*o.Init) >= len(m.GlobalExpressions) {
			v.add(RuleHandleRange, where, "init: global expression %d out of range (%d)", *o.Init, len(m.GlobalExpressions))
		}
	}
	for i := range m.GlobalVariables {
		g := &m.GlobalVariables[i]
		where := fmt.Sprintf("global %d (%s)", i, g.Name)
		v.typeInRange(where, "type", g.Type)
		if g.Init != nil && int(*g.Init) >= len(m.Constants) {
			v.add(RuleHandleRange, where, "init: constant %d out of range (%d)", *g.Init, len(m.Constants))
		}
		if g.InitExpr != nil && int(*g.InitExpr) >= len(m.GlobalExpressions) {
			v.add(RuleHandleRange, where, "init: global expression %d out of range (%d)", *g.InitExpr, len(m.GlobalExpressions))
		}
		switch g.Space {
		case ir.SpaceUniform, ir.SpaceStorage, ir.SpaceHandle:
			if g.Binding == nil {
				v.add(RuleGlobalNoBinding, where, "resource variable in space %s has no @group/@binding", spaceString(g.Space))
			}
		case ir.SpacePrivate, ir.SpaceWorkGroup, ir.SpaceFunction, ir.SpacePushConstant, ir.SpaceImmediate, ir.SpaceTaskPayload:
			if g.Binding != nil {
				v.add(RuleGlobalBinding, where, "variable in space %s carries a resource binding", spaceString(g.Space))
			}
		}
	}
	for i := range m.GlobalExpressions {
		where := fmt.Sprintf("global expression [%d]", i)
		kind := m.GlobalExpressions[i].Kind
		if kind == nil {
			v.add(RuleHandleRange, where, "expression has no kind")
			continue
		}
		if lit, ok := kind.(ir.Literal); ok {
			switch lit.Value.(type) {
			case ir.LiteralAbstractInt, ir.LiteralAbstractFloat:
				v.add(RuleAbstractLiteral, where, "abstract literal %T(%v)", lit.Value, lit.Value)
			}
		}
		for _, op := range Operands(kind) {
			if int(op) >= len(m.GlobalExpressions) {
				v.add(RuleHandleRange, where, "operand [%d] out of range (%d global expressions)", op, len(m.GlobalExpressions))
			} else if int(op) >= i {
				v.add(RuleGExprOrder, where, "operand [%d] is not an earlier global expression", op)
			}
		}
		hs := HandlesIn(kind)
		for _, th := range hs.Types {
			v.typeInRange(where, "type operand", th)
		}
		for _, ch := range hs.Constants {
			if int(ch) >= len(m.Constants) {
				v.add(RuleHandleRange, where, "constant %d out of range (%d)", ch, len(m.Constants))
			} else if init := m.Constants[ch].Init; int(init) >= i && int(init) < len(m.GlobalExpressions) {
				v.add(RuleGExprOrder, where, "refers to constant %d whose init [%d] is not an earlier global expression", ch, init)
			}
		}
		for _, oh := range hs.Overrides {
			if int(oh) >= len(m.Overrides) {
				v.add(RuleHandleRange, where, "override %d out of range (%d)", oh, len(m.Overrides))
			}
		}
		for _, gh := range hs.Globals {
			if int(gh) >= len(m.GlobalVariables) {
				v.add(RuleHandleRange, where, "global variable %d out of range (%d)", gh, len(m.GlobalVariables))
			}
		}
		for _, fh := range hs.Functions {
			if int(fh) >= len(m.Functions) {
				v.add(RuleHandleRange, where, "function %d out of range (%d)", fh, len(m.Functions))
			}
		}
	}
}

// isAbstractDeep reports an abstract scalar anywhere inside type h.
func isAbstractDeep(m *ir.Module, h ir.TypeHandle, depth int) bool {
	if int(h) >= len(m.Types) || depth > 32 {
		return false
	}
	in := m.Types[h].Inner
	if innerAbstract(in) {
		return true
	}
	switch x := in.(type) {
	case ir.ArrayType:
		return isAbstractDeep(m, x.Base, depth+1)
	case ir.PointerType:
		return isAbstractDeep(m, x.Base, depth+1)
	case ir.StructType:
		for _, mem := range x.Members {
			if isAbstractDeep(m, mem.Type, depth+1) {
				return true
			}
		}
	}
	return false
}

// ---- function level ---------------------------------------------------------

func (v *validator) function(where string, f *ir.Function, ep *ir.EntryPoint) {
	m := v.m
	v.curFn = f
	defer func() { v.curFn = nil }()
	v.st.Functions++
	n := len(f.Expressions)
	v.st.Expressions += n
	if n > v.st.MaxExprsInFunction {
		v.st.MaxExprsInFunction = n
	}
	ok := true // handles usable for the deeper rules
	for i, a := range f.Arguments {
		ok = v.typeInRange(where, fmt.Sprintf("argument %d", i), a.Type) && ok
	}
	if f.Result != nil {
		ok = v.typeInRange(where, "result", f.Result.Type) && ok
	}
	for i, lv := range f.LocalVars {
		ok = v.typeInRange(where, fmt.Sprintf("local %d", i), lv.Type) && ok
		if lv.Init != nil && int(*lv.Init) >= n {
			v.add(RuleHandleRange, where, "local %d init: expression %d out of range (%d)", i, *lv.Init, n)
			ok = false
		}
	}
	hs := make([]ir.ExpressionHandle, 0, len(f.NamedExpressions))
	for h := range f.NamedExpressions {
		hs = append(hs, h)
	}
	sort.Slice(hs, func(i, j int) bool { return hs[i] < hs[j] })
	for _, h := range hs {
		if int(h) >= n {
			v.add(RuleHandleRange, where, "named expression %d out of range (%d)", h, n)
		}
	}

	// expressions: handle ranges, backward references, abstract literals
	for i := 0; i < n; i++ {
		kind := f.Expressions[i].Kind
		ew := fmt.Sprintf("%s [%d]", where, i)
		if kind == nil {
			v.add(RuleHandleRange, ew, "expression has no kind")
			ok = false
			continue
		}
		ssaKind := false
		switch kind.(type) {
		case ir.ExprAlias, ir.ExprPhi:
			ssaKind = v.opts.SSA
		}
		for _, op := range Operands(kind) {
			if int(op) >= n {
				v.add(RuleHandleRange, ew, "%s: operand [%d] out of range (%d expressions)", kindName(kind), op, n)
				ok = false
			} else if int(op) >= i && !ssaKind {
				v.addX(Issue{Expr: i, Value: -1}, RuleExprOrder, ew, "%s: operand [%d] is not an earlier expression", kindName(kind), op)
				ok = false
			}
		}
		h := HandlesIn(kind)
		for _, th := range h.Types {
			ok = v.typeInRange(ew, kindName(kind), th) && ok
		}
		for _, ch := range h.Constants {
			if int(ch) >= len(m.Constants) {
				v.add(RuleHandleRange, ew, "constant %d out of range (%d)", ch, len(m.Constants))
				ok = false
			}
		}
		for _, oh := range h.Overrides {
			if int(oh) >= len(m.Overrides) {
				v.add(RuleHandleRange, ew, "override %d out of range (%d)", oh, len(m.Overrides))
				ok = false
			}
		}
		for _, gh := range h.Globals {
			if int(gh) >= len(m.GlobalVariables) {
				v.add(RuleHandleRange, ew, "global variable %d out of range (%d)", gh, len(m.GlobalVariables))
				ok = false
			}
		}
		for _, fh := range h.Functions {
			if int(fh) >= len(m.Functions) {
				v.add(RuleHandleRange, ew, "function %d out of range (%d)", fh, len(m.Functions))
				ok = false
			}
		}
		switch k := kind.(type) {
		case ir.ExprLocalVariable:
			if int(k.Variable) >= len(f.LocalVars) {
				v.add(RuleHandleRange, ew, "local variable %d out of range (%d)", k.Variable, len(f.LocalVars))
				ok = false
			}
		case ir.ExprFunctionArgument:
			if int(k.Index) >= len(f.Arguments) {
				v.add(RuleHandleRange, ew, "argument %d out of range (%d)", k.Index, len(f.Arguments))
				ok = false
			}
		case ir.Literal:
			switch k.Value.(type) {
			case ir.LiteralAbstractInt, ir.LiteralAbstractFloat:
				v.addX(Issue{Expr: i, Value: -1}, RuleAbstractLiteral, ew, "abstract literal %T(%v)", k.Value, k.Value)
			}
		}
	}

	// statements: handle ranges
	ok = v.stmtHandles(where, f, ir.Block(f.Body), 0) && ok

	// typing
	ty := NewTypifier(m, f)
	ty.SSA = v.opts.SSA
	if len(f.ExpressionTypes) != n {
		v.add(RuleTypingMissing, where, "ExpressionTypes has %d entries for %d expressions", len(f.ExpressionTypes), n)
	}
	for i := 0; i < n && ok; i++ {
		ew := fmt.Sprintf("%s [%d]", where, i)
		kind := f.Expressions[i].Kind
		if i >= len(f.ExpressionTypes) {
			continue
		}
		rec := FromIR(f.ExpressionTypes[i])
		if rec.Handle != nil && int(*rec.Handle) >= len(m.Types) {
			v.add(RuleHandleRange, ew, "recorded type handle %d out of range (%d types)", *rec.Handle, len(m.Types))
			continue
		}
		if !rec.IsZero() {
			recIn := InnerOf(m, rec)
			if innerAbstract(recIn) || (rec.Handle != nil && isAbstractDeep(m, *rec.Handle, 0)) {
				v.addX(Issue{Expr: i, Value: -1, Recorded: rec}, RuleAbstractExprTy, ew, "%s has recorded abstract type %s", kindName(kind), ResString(m, rec))
			}
		}
		inf, err := ty.Type(ir.ExpressionHandle(i))
		if err != nil {
			if errors.Is(err, ErrUnsupported) {
				v.st.TypifyUnsupported++
				continue
			}
			recS := "none"
			if !rec.IsZero() {
				recS = ResString(m, rec)
			}
			v.addX(Issue{Expr: i, Value: -1, Recorded: rec}, RuleTypingError, ew, "%s cannot be typed: %v (recorded type: %s)", kindString(kind), err, recS)
			continue
		}
		if rec.IsZero() {
			v.addX(Issue{Expr: i, Value: -1, Inferred: inf}, RuleTypingMissing, ew, "%s has no recorded type (inferred %s)", kindName(kind), ResString(m, inf))
			continue
		}
		if !ResEqual(m, rec, inf) {
			v.addX(Issue{Expr: i, Value: -1, Recorded: rec, Inferred: inf}, RuleTypingMismatch, ew, "%s: recorded type %s, inferred %s", kindString(kind), ResString(m, rec), ResString(m, inf))
		}
	}

	if !ok {
		return // the deeper rules index arenas with these handles
	}
	v.emitDiscipline(where, f)
	v.returns(where, f)
	v.storesAndCalls(where, f, ty, ir.Block(f.Body), 0)
	if ep != nil {
		v.entryPoint(where, ep)
	}
}

func kindName(k any) string {
	s := fmt.Sprintf("%T", k)
	if len(s) > 3 && s[:3] == "ir." {
		s = s[3:]
	}
	return s
}

// stmtHandles checks every handle appearing in the statement tree.
func (v *validator) stmtHandles(where string, f *ir.Function, b ir.Block, depth int) bool {
	m := v.m
	ok := true
	if depth > v.st.MaxBlockDepth {
		v.st.MaxBlockDepth = depth
	}
	n := len(f.Expressions)
	for si, s := range b {
		v.st.Statements++
		sw := fmt.Sprintf("%s stmt#%d@depth%d %s", where, si, depth, kindName(s.Kind))
		if s.Kind == nil {
			v.add(RuleHandleRange, sw, "statement has no kind")
			ok = false
			continue
		}
		if e, isEmit := s.Kind.(ir.StmtEmit); isEmit {
			if e.Range.Start > e.Range.End || int(e.Range.End) > n {
				v.add(RuleEmitRange, sw, "range [%d..%d) with %d expressions", e.Range.Start, e.Range.End, n)
				ok = false
			}
			continue
		}
		for _, h := range OperandsReflect(s.Kind) {
			if int(h) >= n {
				v.add(RuleHandleRange, sw, "expression %d out of range (%d)", h, n)
				ok = false
			}
		}
		hs := HandlesIn(s.Kind)
		for _, fh := range hs.Functions {
			if int(fh) >= len(m.Functions) {
				v.add(RuleHandleRange, sw, "function %d out of range (%d)", fh, len(m.Functions))
				ok = false
			}
		}
		for _, th := range hs.Types {
			ok = v.typeInRange(sw, "type", th) && ok
		}
		for _, gh := range hs.Globals {
			if int(gh) >= len(m.GlobalVariables) {
				v.add(RuleHandleRange, sw, "global variable %d out of range", gh)
				ok = false
			}
		}
		if depth < 5000 {
			for _, sb := range SubBlocks(s.Kind) {
				ok = v.stmtHandles(where, f, sb, depth+1) && ok
			}
		}
	}
	return ok
}

// ---- emit discipline --------------------------------------------------------

type emitWalk struct {
	v        *validator
	where    string
	f        *ir.Function
	class    []ExprClass
	emitted  []int  // number of Emit ranges covering the expression
	produced []int  // number of statements producing the (result) expression
	avail    []bool // in scope now
	scope    []ir.ExpressionHandle
	pending  map[ir.ExpressionHandle]string // first failed use, judged at the end
	order    []ir.ExpressionHandle
}

func (w *emitWalk) isAvail(h ir.ExpressionHandle) bool {
	return w.class[h] == ClassPreEmit || w.avail[h]
}

func (w *emitWalk) use(h ir.ExpressionHandle, by string) {
	if w.isAvail(h) {
		return
	}
	if _, dup := w.pending[h]; !dup {
		w.pending[h] = by
		w.order = append(w.order, h)
	}
}

func (w *emitWalk) makeAvail(h ir.ExpressionHandle) {
	if !w.avail[h] {
		w.avail[h] = true
		w.scope = append(w.scope, h)
	}
}

func (w *emitWalk) leave(base int) {
	for _, h := range w.scope[base:] {
		w.avail[h] = false
	}
	w.scope = w.scope[:base]
}

// scoped walks a block in its own scope (upstream naga: validate_block).
func (w *emitWalk) scoped(b ir.Block, depth int) {
	base := len(w.scope)
	w.block(b, depth)
	w.leave(base)
}

func (w *emitWalk) block(b ir.Block, depth int) {
	if depth > 5000 {
		return
	}
	f := w.f
	for _, s := range b {
		switch k := s.Kind.(type) {
		case ir.StmtEmit:
			w.v.st.Emits++
			for h := k.Range.Start; h < k.Range.End; h++ {
				kind := f.Expressions[h].Kind
				switch w.class[h] {
				case ClassPreEmit:
					w.v.addX(Issue{Expr: int(h), Value: -1}, RuleEmitPre, fmt.Sprintf("%s [%d]", w.where, h), "%s is covered by Emit [%d..%d)", kindName(kind), k.Range.Start, k.Range.End)
					continue
				case ClassResult:
					w.v.add(RuleEmitResult, fmt.Sprintf("%s [%d]", w.where, h), "%s is covered by Emit [%d..%d)", kindName(kind), k.Range.Start, k.Range.End)
					continue
				}
				w.emitted[h]++
				ssaKind := false
				switch kind.(type) {
				case ir.ExprAlias, ir.ExprPhi:
					ssaKind = w.v.opts.SSA
				}
				if !ssaKind {
					for _, op := range Operands(kind) {
						w.use(op, fmt.Sprintf("operand of emitted [%d] %s", h, kindName(kind)))
					}
				}
				w.makeAvail(h)
			}
		case ir.StmtBlock:
			w.scoped(k.Block, depth+1)
		case ir.StmtIf:
			w.use(k.Condition, "If condition")
			w.scoped(k.Accept, depth+1)
			w.scoped(k.Reject, depth+1)
		case ir.StmtSwitch:
			w.use(k.Selector, "Switch selector")
			for i := range k.Cases {
				w.scoped(k.Cases[i].Body, depth+1)
			}
		case ir.StmtLoop:
			// the continuing block and break_if see the body's scope
			base := len(w.scope)
			w.block(k.Body, depth+1)
			w.block(k.Continuing, depth+1)
			if k.BreakIf != nil {
				w.use(*k.BreakIf, "Loop break_if")
			}
			w.leave(base)
		default:
			uses, results := StmtUses(s.Kind)
			for _, u := range uses {
				w.use(u, kindName(s.Kind))
			}
			for _, r := range results {
				if w.class[r] != ClassResult {
					w.v.add(RuleResultKind, fmt.Sprintf("%s [%d]", w.where, r), "%s produces into %s", kindName(s.Kind), kindName(f.Expressions[r].Kind))
					continue
				}
				w.produced[r]++
				w.makeAvail(r)
			}
		}
	}
}

func (v *validator) emitDiscipline(where string, f *ir.Function) {
	n := len(f.Expressions)
	w := &emitWalk{v: v, where: where, f: f, class: make([]ExprClass, n), emitted: make([]int, n),
		produced: make([]int, n), avail: make([]bool, n), pending: map[ir.ExpressionHandle]string{}}
	for i := range f.Expressions {
		w.class[i] = ClassOf(f.Expressions[i].Kind)
	}
	w.block(ir.Block(f.Body), 0)
	for i := 0; i < n; i++ {
		ew := fmt.Sprintf("%s [%d]", where, i)
		kind := f.Expressions[i].Kind
		switch w.class[i] {
		case ClassEmit:
			if w.emitted[i] > 1 {
				v.addX(Issue{Expr: i, Value: -1}, RuleEmitMultiple, ew, "%s is covered by %d Emit ranges", kindName(kind), w.emitted[i])
			}
			if w.emitted[i] == 0 {
				if _, used := w.pending[ir.ExpressionHandle(i)]; !used {
					v.st.DeadUnemitted++
				}
			}
		case ClassResult:
			if w.produced[i] > 1 {
				v.add(RuleResultMultiple, ew, "%s is produced by %d statements", kindName(kind), w.produced[i])
			}
		}
	}
	for _, h := range w.order {
		ew := fmt.Sprintf("%s [%d]", where, h)
		kind := f.Expressions[h].Kind
		by := w.pending[h]
		switch {
		case w.class[h] == ClassEmit && w.emitted[h] == 0:
			v.addX(Issue{Expr: int(h), Value: -1}, RuleEmitMissing, ew, "%s is used (%s) but covered by no Emit range", kindName(kind), by)
		case w.class[h] == ClassResult && w.produced[h] == 0:
			v.add(RuleResultNone, ew, "%s is used (%s) but produced by no statement", kindName(kind), by)
		default:
			v.addX(Issue{Expr: int(h), Value: -1}, RuleEmitUseBefore, ew, "%s is used (%s) where it is not in scope: its emission does not precede the use on this path", kindName(kind), by)
		}
	}
}

// ---- returns ----------------------------------------------------------------

type flow struct {
	falls     bool // control can reach the end of the construct
	breaks    bool // a reachable Break targets the innermost enclosing loop/switch
	continues bool // a reachable Continue targets the innermost enclosing loop
}

func (v *validator) returns(where string, f *ir.Function) {
	m := v.m
	ty := NewTypifier(m, f)
	ty.SSA = v.opts.SSA
	var walk func(b ir.Block, reachable bool, depth int) flow
	walk = func(b ir.Block, reachable bool, depth int) flow {
		out := flow{}
		live := reachable
		if depth > 5000 {
			return flow{falls: true}
		}
		for _, s := range b {
			switch k := s.Kind.(type) {
			case ir.StmtReturn:
				if !live {
					v.st.UnreachableReturns++
				}
				if f.Result == nil {
					if k.Value != nil {
						v.add(RuleReturnInVoid, where, "Return [%d] with a value in a function without result", *k.Value)
					}
				} else if live {
					if k.Value == nil {
						v.add(RuleReturnNoValue, where, "reachable Return without value; the function returns %s", handleString(m, f.Result.Type, 0))
					} else if r, err := ty.Type(*k.Value); err == nil {
						if !ResEqual(m, r, H(f.Result.Type)) {
							v.addX(Issue{Expr: -1, Value: int(*k.Value), Recorded: H(f.Result.Type), Inferred: r}, RuleReturnType, where, "Return [%d] of type %s; the function returns %s", *k.Value, ResString(m, r), handleString(m, f.Result.Type, 0))
						}
					}
				}
				live = false
			case ir.StmtKill:
				live = false
			case ir.StmtBreak:
				if live {
					out.breaks = true
				}
				live = false
			case ir.StmtContinue:
				if live {
					out.continues = true
				}
				live = false
			case ir.StmtBlock:
				fl := walk(k.Block, live, depth+1)
				out.breaks = out.breaks || fl.breaks
				out.continues = out.continues || fl.continues
				live = live && fl.falls
			case ir.StmtIf:
				a := walk(k.Accept, live, depth+1)
				r := walk(k.Reject, live, depth+1)
				out.breaks = out.breaks || a.breaks || r.breaks
				out.continues = out.continues || a.continues || r.continues
				live = live && (a.falls || r.falls)
			case ir.StmtSwitch:
				falls := false
				hasDefault := false
				entered := live // a case body is entered by selection, or by fall-through from the previous one
				prevFalls := false
				for i := range k.Cases {
					c := &k.Cases[i]
					if _, d := c.Value.(ir.SwitchValueDefault); d {
						hasDefault = true
					}
					fl := walk(c.Body, entered || prevFalls, depth+1)
					out.continues = out.continues || fl.continues
					if fl.breaks {
						falls = true // break leaves the switch
					}
					if fl.falls {
						if c.FallThrough && i+1 < len(k.Cases) {
							prevFalls = true
						} else {
							falls = true
							prevFalls = false
						}
					} else {
						prevFalls = false
					}
				}
				if !hasDefault {
					falls = true
				}
				live = live && falls
			case ir.StmtLoop:
				body := walk(k.Body, live, depth+1)
				cont := walk(k.Continuing, live && (body.falls || body.continues), depth+1)
				exits := body.breaks || cont.breaks || k.BreakIf != nil
				live = live && exits
			default:
				// Emit, Store, Call, Atomic, barriers, …: fall through
			}
		}
		out.falls = live
		return out
	}
	fl := walk(ir.Block(f.Body), true, 0)
	if f.Result != nil && fl.falls {
		v.add(RuleReturnMissing, where, "control can reach the end of the body without Return; the function returns %s", handleString(m, f.Result.Type, 0))
	}
}

// ---- stores and calls ---------------------------------------------------------

func (v *validator) storesAndCalls(where string, f *ir.Function, ty *Typifier, b ir.Block, depth int) {
	m := v.m
	if depth > 5000 {
		return
	}
	for _, s := range b {
		switch k := s.Kind.(type) {
		case ir.StmtStore:
			pr, err1 := ty.Type(k.Pointer)
			vr, err2 := ty.Type(k.Value)
			if err1 != nil || err2 != nil {
				continue
			}
			v.st.StoresChecked++
			sw := fmt.Sprintf("%s Store([%d] <- [%d])", where, k.Pointer, k.Value)
			switch p := InnerOf(m, pr).(type) {
			case ir.PointerType:
				if a, ok := m.Types[p.Base].Inner.(ir.AtomicType); ok {
					if !InnersEqual(m, a.Scalar, InnerOf(m, vr)) {
						v.addX(Issue{Expr: int(k.Pointer), Value: int(k.Value), Recorded: H(p.Base), Inferred: vr}, RuleStoreType, sw, "pointee %s, value %s", handleString(m, p.Base, 0), ResString(m, vr))
					} else {
						v.st.AtomicStores++
					}
					continue
				}
				if !ResEqual(m, H(p.Base), vr) {
					v.addX(Issue{Expr: int(k.Pointer), Value: int(k.Value), Recorded: H(p.Base), Inferred: vr}, RuleStoreType, sw, "pointee %s, value %s", handleString(m, p.Base, 0), ResString(m, vr))
				}
			case ir.ValuePointerType:
				var want ir.TypeInner = p.Scalar
				if p.Size != nil {
					want = ir.VectorType{Size: *p.Size, Scalar: p.Scalar}
				}
				if !InnersEqual(m, want, InnerOf(m, vr)) {
					v.addX(Issue{Expr: int(k.Pointer), Value: int(k.Value), Recorded: V(want), Inferred: vr}, RuleStoreType, sw, "pointee %s, value %s", TypeString(m, want), ResString(m, vr))
				}
			default:
				v.add(RuleStorePointer, sw, "store through non-pointer %s", ResString(m, pr))
			}
		case ir.StmtCall:
			callee := &m.Functions[k.Function]
			sw := fmt.Sprintf("%s Call(fn %s#%d)", where, callee.Name, k.Function)
			v.st.CallsChecked++
			if len(k.Arguments) != len(callee.Arguments) {
				v.add(RuleCallArgc, sw, "%d arguments for %d parameters", len(k.Arguments), len(callee.Arguments))
			} else {
				for i, a := range k.Arguments {
					ar, err := ty.Type(a)
					if err != nil {
						continue
					}
					if !ResEqual(m, ar, H(callee.Arguments[i].Type)) {
						v.addX(Issue{Expr: -1, Value: int(a), Recorded: H(callee.Arguments[i].Type), Inferred: ar}, RuleCallArgType, sw, "argument %d [%d] has type %s, parameter %s", i, a, ResString(m, ar), handleString(m, callee.Arguments[i].Type, 0))
					}
				}
			}
			switch {
			case k.Result == nil && callee.Result != nil:
				v.add(RuleCallResult, sw, "callee returns %s but the call has no result expression", handleString(m, callee.Result.Type, 0))
			case k.Result != nil && callee.Result == nil:
				v.add(RuleCallResult, sw, "callee returns nothing but the call has result [%d]", *k.Result)
			case k.Result != nil:
				cr, ok := f.Expressions[*k.Result].Kind.(ir.ExprCallResult)
				if !ok {
					v.add(RuleCallResult, sw, "result [%d] is %s, not CallResult", *k.Result, kindName(f.Expressions[*k.Result].Kind))
				} else if cr.Function != k.Function {
					v.add(RuleCallResult, sw, "result [%d] is CallResult of fn %d", *k.Result, cr.Function)
				}
			}
		}
		for _, sb := range SubBlocks(s.Kind) {
			v.storesAndCalls(where, f, ty, sb, depth+1)
		}
	}
}

// ---- entry points -------------------------------------------------------------

type ioItem struct {
	what string
	b    ir.Binding
}

func derefBinding(p *ir.Binding) ir.Binding {
	if p == nil {
		return nil
	}
	return *p
}

// collectIO flattens an argument / result into its bound leaves.
func (v *validator) collectIO(where, what string, ty ir.TypeHandle, b ir.Binding, out *[]ioItem) {
	m := v.m
	if b != nil {
		*out = append(*out, ioItem{what, b})
		return
	}
	st, ok := m.Types[ty].Inner.(ir.StructType)
	if !ok {
		v.add(RuleEPMissing, where, "%s of type %s has neither @builtin nor @location", what, handleString(m, ty, 0))
		return
	}
	for _, mem := range st.Members {
		mb := derefBinding(mem.Binding)
		mw := what + "." + mem.Name
		if mb == nil {
			v.add(RuleEPMissing, where, "%s of type %s has neither @builtin nor @location", mw, handleString(m, mem.Type, 0))
			continue
		}
		*out = append(*out, ioItem{mw, mb})
	}
}

func (v *validator) checkIO(where, dir string, stage ir.ShaderStage, items []ioItem) {
	locs := map[[2]int64]string{}
	builtins := map[ir.BuiltinValue]string{}
	for _, it := range items {
		switch b := it.b.(type) {
		case ir.LocationBinding:
			key := [2]int64{int64(b.Location), -1}
			if b.BlendSrc != nil {
				key[1] = int64(*b.BlendSrc)
			}
			if prev, dup := locs[key]; dup {
				v.add(RuleEPDupLocation, where, "%s %s and %s share @location(%d)", dir, prev, it.what, b.Location)
			}
			locs[key] = it.what
			if stage == ir.StageCompute {
				v.add(RuleEPStage, where, "compute entry point %s %s carries @location(%d)", dir, it.what, b.Location)
			}
		case ir.BuiltinBinding:
			if prev, dup := builtins[b.Builtin]; dup {
				v.add(RuleEPDupBuiltin, where, "%s %s and %s share builtin %d", dir, prev, it.what, b.Builtin)
			}
			builtins[b.Builtin] = it.what
			if !builtinAllowed(b.Builtin, stage, dir == "output") {
				v.add(RuleEPStage, where, "builtin %d is not a %s stage-%d %s", b.Builtin, dir, stage, it.what)
			}
		}
	}
}

// builtinAllowed is the WGSL core table; extension builtins and mesh/task
// stages are not judged.
func builtinAllowed(b ir.BuiltinValue, stage ir.ShaderStage, output bool) bool {
	if stage == ir.StageMesh || stage == ir.StageTask {
		return true
	}
	type sd struct {
		s   ir.ShaderStage
		out bool
	}
	var allowed []sd
	switch b {
	case ir.BuiltinVertexIndex, ir.BuiltinInstanceIndex:
		allowed = []sd{{ir.StageVertex, false}}
	case ir.BuiltinPosition:
		allowed = []sd{{ir.StageVertex, true}, {ir.StageFragment, false}}
	case ir.BuiltinFrontFacing, ir.BuiltinSampleIndex:
		allowed = []sd{{ir.StageFragment, false}}
	case ir.BuiltinFragDepth:
		allowed = []sd{{ir.StageFragment, true}}
	case ir.BuiltinSampleMask:
		allowed = []sd{{ir.StageFragment, false}, {ir.StageFragment, true}}
	case ir.BuiltinLocalInvocationID, ir.BuiltinLocalInvocationIndex, ir.BuiltinGlobalInvocationID,
		ir.BuiltinWorkGroupID, ir.BuiltinNumWorkGroups:
		allowed = []sd{{ir.StageCompute, false}}
	default:
		return true
	}
	for _, a := range allowed {
		if a.s == stage && a.out == output {
			return true
		}
	}
	return false
}

func (v *validator) entryPoint(where string, ep *ir.EntryPoint) {
	f := &ep.Function
	var in, out []ioItem
	for i, a := range f.Arguments {
		name := a.Name
		if name == "" {
			name = fmt.Sprintf("arg%d", i)
		}
		v.collectIO(where, "argument "+name, a.Type, derefBinding(a.Binding), &in)
	}
	if f.Result != nil {
		v.collectIO(where, "result", f.Result.Type, derefBinding(f.Result.Binding), &out)
	}
	v.checkIO(where, "input", ep.Stage, in)
	v.checkIO(where, "output", ep.Stage, out)
	switch ep.Stage {
	case ir.StageCompute:
		if ep.Workgroup[0] == 0 || ep.Workgroup[1] == 0 || ep.Workgroup[2] == 0 {
			v.add(RuleEPWorkgroup, where, "compute entry point with workgroup size %v", ep.Workgroup)
		}
		if f.Result != nil {
			v.add(RuleEPStage, where, "compute entry point has a result")
		}
	}
	if ep.TaskPayload != nil && int(*ep.TaskPayload) >= len(v.m.GlobalVariables) {
		v.add(RuleHandleRange, where, "task payload global %d out of range", *ep.TaskPayload)
	}
}
