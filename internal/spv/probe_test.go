package spv

import (
	"os"
	"strings"
	"testing"

	"github.com/gogpu/naga/spirv"
)

// TestProbe compiles each snippet in $SPV_PROBE (separated by lines of ----) and reports errors.
func TestProbe(t *testing.T) {
	f := os.Getenv("SPV_PROBE")
	if f == "" {
		t.Skip()
	}
	data, _ := os.ReadFile(f)
	for i, src := range strings.Split(string(data), "\n----\n") {
		_, err := compileWGSL(src, spirv.Version1_3, false)
		t.Logf("snippet %d: err=%v", i, err)
	}
}
