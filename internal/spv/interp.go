package spv

import (
	"encoding/binary"
	"errors"
	"fmt"
	"runtime/debug"
	"sort"
)

// ErrStepLimit is returned by Run when cfg.StepLimit instructions were executed.
var ErrStepLimit = errors.New("spv: step limit exceeded")

// Key identifies a resource binding.
type Key struct{ Set, Binding uint32 }

// RunConfig configures one dispatch.
type RunConfig struct {
	Entry         string         // OpEntryPoint name; GLCompute only
	Buffers       map[Key][]byte // StorageBuffer / Uniform resources; stores mutate them in place
	NumWorkgroups [3]uint32
	StepLimit     int64  // total executed instructions over all invocations (<= 0: 1<<26)
	ReverseOrder  bool   // run the invocations of a workgroup in reverse order
	PushConstants []byte // bound to the PushConstant variable, if any
}

// RunResult reports what happened.
type RunResult struct {
	Steps  int64
	Trap   string
	Poison []string
	Info   map[string]int64
}

const (
	idNone uint8 = iota
	idConst
	idGlobalVar
	idLocal
	idOther
)

type prepared struct {
	kind    []uint8
	slot    []int32
	consts  []Value
	ty      []*Type
	gvars   []*Inst
	err     string // module level problem found while preparing (reported as trap at Run)
	valType []uint32
	// first structured-control-flow violation per function (static rules cfg.*); executing such a
	// function traps, because dominance-based construct membership is unreliable once an
	// irregular edge exists and the dynamic bookkeeping alone could miss it.
	cfgIssue map[*Function]string
}

type trapPanic struct{ msg string }
type stepPanic struct{}

const (
	cSel = iota
	cSwitch
	cLoop
)

type consEntry struct {
	kind   int
	header int
	merge  int
	cont   int
	inCont bool
}

type frame struct {
	fn     *Function
	cf     *cfgInfo
	vals   []Value
	block  *Block
	prev   int // predecessor block index (-1 at entry)
	pc     int
	cons   []consEntry
	retDst uint32
	callIn *Inst
}

const (
	stRun = iota
	stBarrier
	stDone
)

type invocation struct {
	stack      []*frame
	gv         []Value
	state      int
	barrierAt  int
	localID    [3]uint32
	localIndex uint32
}

type interp struct {
	m       *Module
	p       *prepared
	cfg     *RunConfig
	res     *RunResult
	limit   int64
	steps   int64
	bufs    map[uint32]*boundBuffer
	wg      map[uint32]*Value // workgroup variable cells of the current workgroup
	hist    [512]int64
	histX   map[uint16]int64
	pseen   map[string]bool
	cur     *invocation
	cells   int64
	depth   int
	curInst *Inst
	local   [3]uint32
	wgID    [3]uint32
}

// ty / vt are bounds-checked lookups (corrupt modules may name ids beyond the bound).
func (it *interp) ty(id uint32) *Type {
	if int(id) < len(it.p.ty) {
		return it.p.ty[id]
	}
	return nil
}

func (it *interp) vt(id uint32) uint32 {
	if int(id) < len(it.p.valType) {
		return it.p.valType[id]
	}
	return 0
}

func (it *interp) trap(format string, a ...interface{}) {
	msg := fmt.Sprintf(format, a...)
	if it.curInst != nil {
		msg += fmt.Sprintf(" [inst %d: %s]", it.curInst.Index, it.m.DisasmInst(it.curInst)[7:])
	}
	panic(trapPanic{msg})
}

func (it *interp) unsupported(what string) {
	panic(trapPanic{"unsupported: " + what})
}

// poison records that a poison value reached an observable use.
func (it *interp) poison(what string) {
	if it.curInst != nil {
		what += fmt.Sprintf(" [inst %d %s]", it.curInst.Index, it.curInst.Name())
	}
	if it.pseen[what] {
		return
	}
	it.pseen[what] = true
	if len(it.res.Poison) < 64 {
		it.res.Poison = append(it.res.Poison, what)
	}
}

func (m *Module) prepare() *prepared {
	if m.prep != nil {
		return m.prep
	}
	// ids of a sane module are smaller than its word count; anything beyond is corrupt
	limit := 16
	for _, in := range m.Insts {
		limit += len(in.Words)
	}
	n := 1
	tooBig := uint32(0)
	for id := range m.defs {
		if int64(id) >= int64(limit) {
			tooBig = id
			continue
		}
		if int(id) >= n {
			n = int(id) + 1
		}
	}
	p := &prepared{kind: make([]uint8, n), slot: make([]int32, n), ty: make([]*Type, n), valType: make([]uint32, n)}
	m.prep = p
	if tooBig != 0 {
		p.err = fmt.Sprintf("result id %%%d is implausibly large for a module of %d words", tooBig, limit-16)
	}
	for id, t := range m.types {
		if int(id) < n {
			p.ty[id] = t
		}
	}
	for id, in := range m.defs {
		if int(id) < n {
			p.valType[id] = in.Type
		}
	}
	// constants, in module order
	it := &interp{m: m, p: p, res: &RunResult{}, pseen: map[string]bool{}}
	inFunc := false
	for _, in := range m.Insts {
		switch in.Op {
		case OpFunction:
			inFunc = true
		case OpFunctionEnd:
			inFunc = false
		}
		if inFunc || in.Result == 0 || m.defs[in.Result] != in || int(in.Result) >= n {
			continue
		}
		switch in.Op {
		case OpConstantTrue, OpConstantFalse, OpConstant, OpConstantComposite, OpConstantNull,
			OpSpecConstantTrue, OpSpecConstantFalse, OpSpecConstant, OpSpecConstantComposite, OpSpecConstantOp, OpUndef:
			v, err := it.evalConst(in)
			if err != "" {
				if p.err == "" {
					p.err = err
				}
				continue
			}
			p.kind[in.Result] = idConst
			p.slot[in.Result] = int32(len(p.consts))
			p.consts = append(p.consts, v)
		case OpVariable:
			p.kind[in.Result] = idGlobalVar
			p.slot[in.Result] = int32(len(p.gvars))
			p.gvars = append(p.gvars, in)
		default:
			p.kind[in.Result] = idOther
		}
	}
	for _, f := range m.funcs {
		k := 0
		for _, pi := range f.Params {
			if m.defs[pi.Result] == pi && int(pi.Result) < n {
				p.kind[pi.Result] = idLocal
				p.slot[pi.Result] = int32(k)
				k++
			}
		}
		for _, b := range f.Blocks {
			for _, in := range b.Insts {
				if in.Result != 0 && in.Op != OpLabel && m.defs[in.Result] == in && int(in.Result) < n {
					p.kind[in.Result] = idLocal
					p.slot[in.Result] = int32(k)
					k++
				}
			}
		}
		f.numLocals = k
		f.analysis()
	}
	p.cfgIssue = map[*Function]string{}
	cv := &validator{m: m, perRule: map[string]int{}, shader: true}
	for _, f := range m.funcs {
		cv.issues = cv.issues[:0]
		cv.cfg(f)
		if len(cv.issues) > 0 {
			p.cfgIssue[f] = cv.issues[0].String()
		}
	}
	return p
}

func (it *interp) evalConst(in *Inst) (v Value, err string) {
	defer func() {
		if r := recover(); r != nil {
			if tp, ok := r.(trapPanic); ok {
				err = "constant " + it.m.idStr(in.Result) + ": " + tp.msg
				return
			}
			panic(r)
		}
	}()
	t := it.ty(in.Type)
	if t == nil {
		return Value{}, fmt.Sprintf("constant %%%d has no type", in.Result)
	}
	getC := func(id uint32) Value {
		if int(id) < len(it.p.kind) && it.p.kind[id] == idConst {
			return it.p.consts[it.p.slot[id]]
		}
		it.trap("constituent %%%d is not a previously defined constant", id)
		return Value{}
	}
	switch in.Op {
	case OpConstantTrue, OpSpecConstantTrue:
		return sc(1), ""
	case OpConstantFalse, OpSpecConstantFalse:
		return sc(0), ""
	case OpConstant, OpSpecConstant:
		var bits uint64
		if len(in.Args) >= 1 {
			bits = uint64(in.Args[0])
		}
		if len(in.Args) >= 2 {
			bits |= uint64(in.Args[1]) << 32
		}
		return sc(bits & maskW(t.Width)), ""
	case OpConstantNull:
		return it.newValue(in.Type, false), ""
	case OpUndef:
		return it.newValue(in.Type, true), ""
	case OpConstantComposite, OpSpecConstantComposite:
		es := make([]Value, len(in.Args))
		for i, a := range in.Args {
			es[i] = getC(a)
		}
		return comp(es), ""
	case OpSpecConstantOp:
		if len(in.Args) < 1 {
			return Value{}, "malformed OpSpecConstantOp"
		}
		syn := &Inst{Op: uint16(in.Args[0]), Index: in.Index, Type: in.Type, Result: in.Result, Args: in.Args[1:], Known: true}
		v, ok := it.execPure(syn, getC)
		if !ok {
			return Value{}, "unsupported: OpSpecConstantOp " + OpcodeName(syn.Op)
		}
		return v, ""
	}
	return Value{}, "unsupported: constant " + in.Name()
}

// newValue builds a zero (or all-poison) value of the given type.
func (it *interp) newValue(tid uint32, poison bool) Value {
	return it.newValueD(tid, poison, 0)
}

// maxCells bounds the memory one Run may materialise (corrupt array lengths, recursive types).
const maxCells = 1 << 22

func (it *interp) newValueD(tid uint32, poison bool, depth int) Value {
	t := it.ty(tid)
	if t == nil {
		it.trap("value of unknown type %%%d", tid)
	}
	it.cells++
	if depth > 64 || it.cells > maxCells || int64(t.Count) > maxCells-it.cells {
		it.unsupported("value too large or too deeply nested to materialise (type " + it.m.TypeString(tid) + ")")
	}
	switch t.Kind {
	case TBool, TInt, TFloat:
		return Value{K: kScalar, Poison: poison}
	case TVector, TMatrix, TArray:
		es := make([]Value, t.Count)
		for i := range es {
			es[i] = it.newValueD(t.Elem, poison, depth+1)
		}
		return comp(es)
	case TStruct:
		es := make([]Value, len(t.Members))
		for i, mm := range t.Members {
			es[i] = it.newValueD(mm, poison, depth+1)
		}
		return comp(es)
	case TPointer:
		return Value{K: kPointer}
	case TRuntimeArray:
		it.trap("cannot materialise a runtime array value")
	}
	it.unsupported("value of type " + it.m.TypeString(tid))
	return Value{}
}

// Run executes a GLCompute entry point.
func Run(m *Module, cfg RunConfig) (res *RunResult, err error) {
	res = &RunResult{Info: map[string]int64{}}
	it := &interp{m: m, cfg: &cfg, res: res, pseen: map[string]bool{}, histX: map[uint16]int64{}, bufs: map[uint32]*boundBuffer{}}
	it.limit = cfg.StepLimit
	if it.limit <= 0 {
		it.limit = 1 << 26
	}
	defer func() {
		res.Steps = it.steps
		for op, n := range it.hist {
			if n > 0 {
				res.Info["op:"+OpcodeName(uint16(op))] = n
			}
		}
		for op, n := range it.histX {
			res.Info["op:"+OpcodeName(op)] = n
		}
		if r := recover(); r != nil {
			switch tp := r.(type) {
			case trapPanic:
				res.Trap = tp.msg
			case stepPanic:
				err = ErrStepLimit
			default:
				// A Go run-time failure while executing a module that violates the structural
				// rules (wrong operand classes, missing types …) is reported as a trap; on a
				// module the validator accepts it is a bug of this interpreter.
				if is := Validate(m); len(is) > 0 {
					res.Trap = fmt.Sprintf("malformed module: %s (interpreter stopped with: %v)", is[0], r)
				} else {
					err = fmt.Errorf("spv: internal interpreter error: %v\n%s", r, debug.Stack())
				}
			}
		}
	}()
	it.p = m.prepare()
	if it.p.err != "" {
		panic(trapPanic{it.p.err})
	}
	var ep *EntryPointInfo
	eps := m.EntryPoints()
	for i := range eps {
		if eps[i].Name == cfg.Entry {
			ep = &eps[i]
			break
		}
	}
	if ep == nil {
		return res, fmt.Errorf("spv: entry point %q not found", cfg.Entry)
	}
	if ep.Model != EMGLCompute {
		return res, fmt.Errorf("spv: entry point %q is %s, only GLCompute can be executed", cfg.Entry, EnumName("ExecutionModel", ep.Model))
	}
	fn := m.funcByID[ep.Func]
	if fn == nil || len(fn.Blocks) == 0 {
		panic(trapPanic{"entry point function has no body"})
	}
	ls := ep.LocalSize
	if ls[0] == 0 || ls[1] == 0 || ls[2] == 0 {
		panic(trapPanic{"entry point has no (or a zero) LocalSize"})
	}
	// bind buffers
	for _, gv := range it.p.gvars {
		sc := gv.Arg(0)
		switch sc {
		case SCStorageBuffer, SCUniform:
			bb := &boundBuffer{varID: gv.Result}
			ds, ok1 := m.Deco(gv.Result, DecDescriptorSet)
			bd, ok2 := m.Deco(gv.Result, DecBinding)
			if ok1 && ok2 && len(ds.Params) > 0 && len(bd.Params) > 0 {
				bb.key = Key{ds.Params[0], bd.Params[0]}
				if data, ok := cfg.Buffers[bb.key]; ok {
					bb.data = data
				} else {
					bb.missing = true
				}
			} else {
				bb.missing = true
			}
			it.bufs[gv.Result] = bb
		case SCPushConstant:
			bb := &boundBuffer{varID: gv.Result, push: true, data: cfg.PushConstants, missing: cfg.PushConstants == nil}
			it.bufs[gv.Result] = bb
		}
	}
	if uint64(ls[0])*uint64(ls[1])*uint64(ls[2]) > 1<<16 {
		panic(trapPanic{fmt.Sprintf("unsupported: LocalSize %v exceeds 65536 invocations", ls)})
	}
	nInv := int(ls[0] * ls[1] * ls[2])
	for wz := uint32(0); wz < cfg.NumWorkgroups[2]; wz++ {
		for wy := uint32(0); wy < cfg.NumWorkgroups[1]; wy++ {
			for wx := uint32(0); wx < cfg.NumWorkgroups[0]; wx++ {
				it.wgID = [3]uint32{wx, wy, wz}
				it.wg = map[uint32]*Value{}
				invs := make([]*invocation, nInv)
				for li := 0; li < nInv; li++ {
					inv := &invocation{localIndex: uint32(li)}
					inv.localID = [3]uint32{uint32(li) % ls[0], uint32(li) / ls[0] % ls[1], uint32(li) / (ls[0] * ls[1])}
					it.initGlobals(inv, ls)
					fr := it.newFrame(fn)
					inv.stack = []*frame{fr}
					invs[li] = inv
				}
				order := make([]int, nInv)
				for i := range order {
					order[i] = i
					if cfg.ReverseOrder {
						order[i] = nInv - 1 - i
					}
				}
				for {
					for _, li := range order {
						if invs[li].state == stRun {
							it.runInvocation(invs[li])
						}
					}
					nb, nd := 0, 0
					bar := -1
					for _, inv := range invs {
						switch inv.state {
						case stBarrier:
							nb++
							if bar >= 0 && bar != inv.barrierAt {
								panic(trapPanic{fmt.Sprintf("non-uniform barrier: invocations of workgroup %v wait at different OpControlBarrier instructions (%d and %d)", it.wgID, bar, inv.barrierAt)})
							}
							bar = inv.barrierAt
						case stDone:
							nd++
						}
					}
					if nb == 0 {
						break
					}
					if nd > 0 {
						panic(trapPanic{fmt.Sprintf("non-uniform barrier: %d invocation(s) of workgroup %v terminated while %d wait at OpControlBarrier (inst %d)", nd, it.wgID, nb, bar)})
					}
					for _, inv := range invs {
						inv.state = stRun
					}
				}
			}
		}
	}
	return res, nil
}

func (it *interp) newFrame(fn *Function) *frame {
	if msg, bad := it.p.cfgIssue[fn]; bad {
		it.trap("malformed control flow in function %%%d: %s", fn.ID, msg)
	}
	return &frame{fn: fn, cf: fn.analysis(), vals: make([]Value, fn.numLocals), block: fn.Blocks[0], prev: -1, pc: 0}
}

func (it *interp) initGlobals(inv *invocation, ls [3]uint32) {
	inv.gv = make([]Value, len(it.p.gvars))
	for i, gv := range it.p.gvars {
		pt := it.ty(gv.Type)
		if pt == nil || pt.Kind != TPointer {
			continue // reported when used
		}
		sc := gv.Arg(0)
		p := &Pointer{Type: pt.Elem, Storage: sc, Root: gv.Result}
		switch sc {
		case SCStorageBuffer, SCUniform, SCPushConstant:
			p.Buf = it.bufs[gv.Result]
		case SCWorkgroup:
			cell := it.wg[gv.Result]
			if cell == nil {
				v := it.newValue(pt.Elem, true)
				if len(gv.Args) >= 2 {
					v = it.get(nil, inv, gv.Args[1]).deepCopy()
				}
				cell = &v
				it.wg[gv.Result] = cell
			}
			p.Cell = cell
		case SCPrivate, SCInput, SCOutput:
			v := it.newValue(pt.Elem, true)
			if len(gv.Args) >= 2 {
				v = it.get(nil, inv, gv.Args[1]).deepCopy()
			}
			if sc == SCInput {
				if d, ok := it.m.Deco(gv.Result, DecBuiltIn); ok && len(d.Params) > 0 {
					it.fillBuiltin(&v, pt.Elem, d.Params[0], inv, ls)
				}
			}
			p.Cell = &v
		case SCUniformConstant:
			// images / samplers: not modelled; any access traps as unsupported
		}
		inv.gv[i] = ptrV(p)
	}
}

func (it *interp) fillBuiltin(v *Value, tid uint32, bi uint32, inv *invocation, ls [3]uint32) {
	t := it.ty(tid)
	vec3 := func(a [3]uint32) {
		if t.Kind == TVector && t.Count == 3 {
			*v = comp([]Value{sc(uint64(a[0])), sc(uint64(a[1])), sc(uint64(a[2]))})
		}
	}
	switch bi {
	case BIGlobalInvocationId:
		vec3([3]uint32{it.wgID[0]*ls[0] + inv.localID[0], it.wgID[1]*ls[1] + inv.localID[1], it.wgID[2]*ls[2] + inv.localID[2]})
	case BILocalInvocationId:
		vec3(inv.localID)
	case BIWorkgroupId:
		vec3(it.wgID)
	case BINumWorkgroups:
		vec3(it.cfg.NumWorkgroups)
	case BIWorkgroupSize:
		vec3(ls)
	case BILocalInvocationIndex:
		if t.Kind == TInt {
			*v = sc(uint64(inv.localIndex))
		}
	}
}

// get reads an id in the context of a frame / invocation.
func (it *interp) get(fr *frame, inv *invocation, id uint32) Value {
	if int(id) < len(it.p.kind) {
		switch it.p.kind[id] {
		case idConst:
			return it.p.consts[it.p.slot[id]]
		case idGlobalVar:
			v := inv.gv[it.p.slot[id]]
			if v.K == kUnset {
				it.trap("global variable %%%d has no usable pointer type", id)
			}
			return v
		case idLocal:
			if fr != nil {
				s := int(it.p.slot[id])
				if s < len(fr.vals) && fr.vals[s].K != kUnset {
					return fr.vals[s]
				}
			}
			it.trap("use of %%%d before its definition was executed", id)
		}
	}
	it.trap("use of %%%d which is not a value", id)
	return Value{}
}

func (it *interp) runInvocation(inv *invocation) {
	it.cur = inv
	defer func() { it.curInst = nil }()
	for inv.state == stRun {
		fr := inv.stack[len(inv.stack)-1]
		if fr.pc >= len(fr.block.Insts) {
			it.curInst = fr.block.Insts[len(fr.block.Insts)-1]
			it.trap("malformed control flow: block %%%d has no terminator", fr.block.Label)
		}
		in := fr.block.Insts[fr.pc]
		it.curInst = in
		it.steps++
		if it.steps > it.limit {
			panic(stepPanic{})
		}
		if in.Op < 512 {
			it.hist[in.Op]++
		} else {
			it.histX[in.Op]++
		}
		it.exec(inv, fr, in)
	}
}

func (it *interp) set(fr *frame, id uint32, v Value) {
	if int(id) < len(it.p.kind) && it.p.kind[id] == idLocal {
		fr.vals[it.p.slot[id]] = v
		return
	}
	it.trap("result id %%%d is not a function-local id", id)
}

// exec executes one instruction of the top frame.
func (it *interp) exec(inv *invocation, fr *frame, in *Inst) {
	g := func(id uint32) Value { return it.get(fr, inv, id) }
	switch in.Op {
	case OpLabel, OpNop, OpLine, 317 /*OpNoLine*/ :
		fr.pc++
	case OpSelectionMerge:
		kind := cSel
		if fr.block.Term != nil && fr.block.Term.Op == OpSwitch {
			kind = cSwitch
		}
		bi := fr.block.Index
		fr.cons = append(fr.cons, consEntry{kind: kind, header: bi, merge: fr.cf.mergeOf[bi], cont: -1})
		fr.pc++
	case OpLoopMerge:
		bi := fr.block.Index
		fr.cons = append(fr.cons, consEntry{kind: cLoop, header: bi, merge: fr.cf.mergeOf[bi], cont: fr.cf.contOf[bi]})
		fr.pc++
	case OpBranch:
		it.branch(fr, in.Arg(0))
	case OpBranchConditional:
		c := g(in.Arg(0))
		if c.Poison {
			it.poison("branch condition is poison")
			c.Bits = 0
		}
		if c.Bits&1 != 0 {
			it.branch(fr, in.Arg(1))
		} else {
			it.branch(fr, in.Arg(2))
		}
	case OpSwitch:
		s := g(in.Arg(0))
		if s.Poison {
			it.poison("switch selector is poison")
			s.Bits = 0
		}
		target := in.Arg(1)
		ops := in.Operands
		for i := 2; i+1 < len(ops); i += 2 {
			lit := uint64(ops[i].Word)
			if len(ops[i].Words) > 1 {
				lit |= uint64(ops[i].Words[1]) << 32
			}
			w := uint32(32)
			if st := it.ty(it.vt(in.Arg(0))); st != nil && st.Kind == TInt {
				w = st.Width
			}
			if lit&maskW(w) == s.Bits {
				target = ops[i+1].Word
				break
			}
		}
		it.branch(fr, target)
	case OpPhi:
		found := false
		for i := 0; i+1 < len(in.Args); i += 2 {
			pb := fr.fn.byLabel[in.Args[i+1]]
			if pb != nil && pb.Index == fr.prev {
				// all phis of a block read their operands before any is written: operands come
				// from other blocks, or from earlier iterations held in a snapshot.
				it.setPhi(fr, in, g(in.Args[i]))
				found = true
				break
			}
		}
		if !found {
			it.trap("malformed control flow: OpPhi has no operand for predecessor block index %d", fr.prev)
		}
		fr.pc++
	case OpReturn, OpReturnValue:
		var rv Value
		if in.Op == OpReturnValue {
			rv = g(in.Arg(0))
		}
		inv.stack = inv.stack[:len(inv.stack)-1]
		if len(inv.stack) == 0 {
			inv.state = stDone
			return
		}
		caller := inv.stack[len(inv.stack)-1]
		if in.Op == OpReturnValue {
			it.set(caller, fr.retDst, rv)
		} else if ct := it.ty(fr.callIn.Type); ct != nil && ct.Kind != TVoid {
			it.trap("OpReturn from a function whose call expects a value")
		} else {
			// a void call still defines its result id
			it.set(caller, fr.retDst, Value{K: kScalar, Poison: true})
		}
		caller.pc++
	case OpKill, OpTerminateInvocation:
		it.trap("%s executed in a compute shader", in.Name())
	case OpUnreachable:
		it.trap("OpUnreachable reached")
	case OpFunctionCall:
		callee := it.m.funcByID[in.Arg(0)]
		if callee == nil || len(callee.Blocks) == 0 {
			it.trap("call of %%%d which has no body", in.Arg(0))
		}
		if len(inv.stack) > 256 {
			it.trap("call depth exceeds 256 (recursion?)")
		}
		nf := it.newFrame(callee)
		nf.retDst, nf.callIn = in.Result, in
		args := in.Args[1:]
		if len(args) != len(callee.Params) {
			it.trap("call of %%%d with %d arguments, function has %d parameters", in.Arg(0), len(args), len(callee.Params))
		}
		for i, a := range args {
			it.set(nf, callee.Params[i].Result, g(a))
		}
		inv.stack = append(inv.stack, nf)
	case OpVariable:
		pt := it.ty(in.Type)
		if pt == nil || pt.Kind != TPointer {
			it.trap("OpVariable result type is not a pointer")
		}
		v := it.newValue(pt.Elem, true)
		if len(in.Args) >= 2 {
			v = g(in.Args[1]).deepCopy()
		}
		it.set(fr, in.Result, ptrV(&Pointer{Cell: &v, Type: pt.Elem, Storage: in.Arg(0), Root: in.Result}))
		fr.pc++
	case OpLoad:
		p := it.ptr(g(in.Arg(0)))
		it.set(fr, in.Result, it.load(p))
		fr.pc++
	case OpStore:
		p := it.ptr(g(in.Arg(0)))
		it.store(p, g(in.Arg(1)))
		fr.pc++
	case OpCopyMemory:
		dst, src := it.ptr(g(in.Arg(0))), it.ptr(g(in.Arg(1)))
		it.store(dst, it.load(src))
		fr.pc++
	case OpAccessChain, OpInBoundsAccessChain:
		p := it.ptr(g(in.Arg(0)))
		for _, ix := range in.Args[1:] {
			p = it.chain(p, g(ix), ix)
		}
		it.set(fr, in.Result, ptrV(p))
		fr.pc++
	case OpArrayLength:
		p := it.ptr(g(in.Arg(0)))
		it.set(fr, in.Result, it.arrayLength(p, in.Arg(1)))
		fr.pc++
	case OpControlBarrier:
		scope := g(in.Arg(0))
		if scope.Poison || scope.Bits != 2 {
			it.unsupported(fmt.Sprintf("OpControlBarrier with execution scope %d", scope.Bits))
		}
		fr.pc++
		inv.state = stBarrier
		inv.barrierAt = in.Index
	case OpMemoryBarrier:
		fr.pc++ // invocations run sequentially: every write is already visible
	case OpAtomicLoad, OpAtomicStore, OpAtomicExchange, OpAtomicCompareExchange, OpAtomicCompareExchangeWk, OpAtomicIIncrement, OpAtomicIDecrement,
		OpAtomicIAdd, OpAtomicISub, OpAtomicSMin, OpAtomicUMin, OpAtomicSMax, OpAtomicUMax, OpAtomicAnd, OpAtomicOr, OpAtomicXor:
		it.atomic(fr, in, g)
		fr.pc++
	default:
		if in.Result == 0 {
			it.unsupported(in.Name())
		}
		v, ok := it.execPure(in, g)
		if !ok {
			it.unsupported(in.Name())
		}
		it.set(fr, in.Result, v)
		fr.pc++
	}
}

// setPhi writes a phi result.  Phis at the top of a block conceptually execute in
// parallel; a later phi may name an earlier phi of the same block as its operand for
// this edge and must then see the OLD value.  We therefore stage phi results and commit
// them when the first non-phi instruction is reached — implemented by evaluating every
// phi of the block at the first phi.
func (it *interp) setPhi(fr *frame, first *Inst, firstVal Value) {
	// Fast path: only one phi.
	next := fr.pc + 1
	if next >= len(fr.block.Insts) || fr.block.Insts[next].Op != OpPhi {
		it.set(fr, first.Result, firstVal)
		return
	}
	type pend struct {
		id uint32
		v  Value
	}
	ps := []pend{{first.Result, firstVal}}
	inv := it.cur
	for k := next; k < len(fr.block.Insts) && fr.block.Insts[k].Op == OpPhi; k++ {
		in := fr.block.Insts[k]
		it.curInst = in
		it.steps++
		it.hist[OpPhi]++
		found := false
		for i := 0; i+1 < len(in.Args); i += 2 {
			pb := fr.fn.byLabel[in.Args[i+1]]
			if pb != nil && pb.Index == fr.prev {
				ps = append(ps, pend{in.Result, it.get(fr, inv, in.Args[i])})
				found = true
				break
			}
		}
		if !found {
			it.trap("malformed control flow: OpPhi has no operand for predecessor block index %d", fr.prev)
		}
		fr.pc = k
	}
	for _, p := range ps {
		it.set(fr, p.id, p.v)
	}
}

func (it *interp) innermostLoop(st []consEntry, k int) bool {
	for j := k + 1; j < len(st); j++ {
		if st[j].kind == cLoop {
			return false
		}
	}
	return true
}

// branch transfers control, enforcing the structured control flow rules dynamically.
func (it *interp) branch(fr *frame, target uint32) {
	tb := fr.fn.byLabel[target]
	if tb == nil {
		it.trap("malformed control flow: branch to %%%d which is not a block of this function", target)
	}
	ti := tb.Index
	if ti == 0 {
		it.trap("malformed control flow: branch to the entry block")
	}
	st := fr.cons
	handled := false
	for k := len(st) - 1; k >= 0 && !handled; k-- {
		e := &st[k]
		switch {
		case e.kind == cLoop && ti == e.header:
			if !it.innermostLoop(st, k) {
				it.trap("malformed control flow: back edge to loop header %%%d which is not the innermost loop", target)
			}
			if !e.inCont && e.cont != e.header {
				it.trap("malformed control flow: back edge to %%%d from outside the loop's continue construct", target)
			}
			fr.cons = st[:k]
			handled = true
		case ti == e.merge:
			ok := k == len(st)-1
			if !ok && e.kind == cLoop {
				ok = it.innermostLoop(st, k)
			}
			if !ok && e.kind == cSwitch {
				ok = true
				for j := k + 1; j < len(st); j++ {
					if st[j].kind != cSel {
						ok = false
					}
				}
			}
			if !ok {
				it.trap("malformed control flow: branch to merge block %%%d of a construct that is not a valid exit from here", target)
			}
			fr.cons = st[:k]
			handled = true
			// the merge block of an inner selection may at the same time be the continue target
			// of the enclosing loop
			for j := k - 1; j >= 0; j-- {
				if st[j].kind == cLoop {
					if st[j].cont == ti && !st[j].inCont {
						st[j].inCont = true
						fr.cons = st[:j+1]
					}
					break
				}
			}
		case e.kind == cLoop && ti == e.cont:
			if !it.innermostLoop(st, k) {
				it.trap("malformed control flow: branch to continue target %%%d of a loop that is not the innermost", target)
			}
			if e.inCont {
				it.trap("malformed control flow: branch to continue target %%%d from inside the continue construct", target)
			}
			e.inCont = true
			fr.cons = st[:k+1]
			handled = true
		}
	}
	if !handled {
		want := -1
		if len(st) > 0 {
			want = st[len(st)-1].header
		}
		if fr.cf.parent[ti] != want {
			it.trap("malformed control flow: branch from %%%d to %%%d enters or leaves a construct irregularly (target belongs to construct of block #%d, current construct is block #%d)",
				fr.block.Label, target, fr.cf.parent[ti], want)
		}
	}
	fr.prev = fr.block.Index
	fr.block = tb
	fr.pc = 0
}

func (it *interp) ptr(v Value) *Pointer {
	if v.K != kPointer || v.Ptr == nil {
		it.trap("operand is not a pointer")
	}
	return v.Ptr
}

func (it *interp) indexValue(v Value, id uint32) int64 {
	if v.K != kScalar {
		it.trap("access chain index is not a scalar")
	}
	if v.Poison {
		it.poison("access chain index is poison")
		return 0
	}
	w := uint32(32)
	if t := it.ty(it.vt(id)); t != nil && t.Kind == TInt {
		w = t.Width
	}
	return sext(v.Bits, w) // indexes are treated as signed (spec: OpAccessChain)
}

func (it *interp) scalarSize(t *Type) int64 {
	switch t.Kind {
	case TInt, TFloat:
		return int64(t.Width / 8)
	}
	it.trap("type %s has no explicit layout size", it.m.TypeString(t.ID))
	return 0
}

// chain applies one access-chain index.
func (it *interp) chain(p *Pointer, ixv Value, ixID uint32) *Pointer {
	t := it.ty(p.Type)
	if t == nil {
		it.trap("access chain through unknown type %%%d", p.Type)
	}
	ix := it.indexValue(ixv, ixID)
	np := &Pointer{Storage: p.Storage, Root: p.Root, Buf: p.Buf, MatStride: p.MatStride, RowMajor: p.RowMajor}
	var n int64 = -1
	switch t.Kind {
	case TVector, TMatrix, TArray:
		n = int64(t.Count)
		np.Type = t.Elem
	case TStruct:
		n = int64(len(t.Members))
	case TRuntimeArray:
		np.Type = t.Elem
	default:
		it.trap("access chain into non-composite type %s", it.m.TypeString(p.Type))
	}
	if ix < 0 || (n >= 0 && ix >= n) {
		it.trap("out-of-object access: index %d into %s of variable %s", ix, it.m.TypeString(p.Type), it.m.idStr(p.Root))
	}
	if t.Kind == TStruct {
		np.Type = t.Members[ix]
	}
	if p.Buf == nil {
		if p.Cell == nil {
			it.unsupported("access to " + EnumName("StorageClass", p.Storage) + " variable " + it.m.idStr(p.Root))
		}
		if p.Cell.K != kComposite || int(ix) >= len(p.Cell.Elems) {
			it.trap("out-of-object access: index %d into cell of %s", ix, it.m.TypeString(p.Type))
		}
		np.Cell = &p.Cell.Elems[ix]
		return np
	}
	switch t.Kind {
	case TStruct:
		d, ok := it.m.MemberDeco(t.ID, int(ix), DecOffset)
		if !ok || len(d.Params) == 0 {
			it.trap("struct %s member %d has no Offset decoration", it.m.TypeString(t.ID), ix)
		}
		np.Off = p.Off + int64(d.Params[0])
		np.MatStride, np.RowMajor = 0, false
		if ms, ok := it.m.MemberDeco(t.ID, int(ix), DecMatrixStride); ok && len(ms.Params) > 0 {
			np.MatStride = ms.Params[0]
		}
		if _, ok := it.m.MemberDeco(t.ID, int(ix), DecRowMajor); ok {
			np.RowMajor = true
		}
	case TArray, TRuntimeArray:
		d, ok := it.m.Deco(t.ID, DecArrayStride)
		if !ok || len(d.Params) == 0 {
			it.trap("array type %s has no ArrayStride decoration", it.m.TypeString(t.ID))
		}
		np.Off = p.Off + ix*int64(d.Params[0])
	case TMatrix:
		if p.MatStride == 0 {
			it.trap("matrix in buffer memory without MatrixStride")
		}
		col := it.ty(t.Elem)
		es := it.scalarSize(it.ty(col.Elem))
		if p.RowMajor {
			np.Off = p.Off + ix*es
			np.CompStride = p.MatStride
		} else {
			np.Off = p.Off + ix*int64(p.MatStride)
		}
	case TVector:
		es := it.scalarSize(it.ty(t.Elem))
		if p.CompStride != 0 {
			es = int64(p.CompStride)
		}
		np.Off = p.Off + ix*es
	}
	return np
}

func (it *interp) bufCheck(p *Pointer, size int64, what string) {
	b := p.Buf
	if b.missing {
		if b.push {
			it.trap("missing buffer: push constants not provided for %s", it.m.idStr(p.Root))
		}
		it.trap("missing buffer: set %d binding %d (variable %s)", b.key.Set, b.key.Binding, it.m.idStr(p.Root))
	}
	if p.Off < 0 || p.Off+size > int64(len(b.data)) {
		it.trap("out-of-object access: %s of %d byte(s) at offset %d of buffer set %d binding %d (%d bytes, variable %s)", what, size, p.Off, b.key.Set, b.key.Binding, len(b.data), it.m.idStr(p.Root))
	}
}

func (it *interp) load(p *Pointer) Value {
	if p.Buf != nil {
		return it.loadBuf(p)
	}
	if p.Cell == nil {
		it.unsupported("load from " + EnumName("StorageClass", p.Storage) + " variable " + it.m.idStr(p.Root))
	}
	return p.Cell.deepCopy()
}

func (it *interp) store(p *Pointer, v Value) {
	if p.Buf != nil {
		it.storeBuf(p, v)
		return
	}
	if p.Cell == nil {
		it.unsupported("store to " + EnumName("StorageClass", p.Storage) + " variable " + it.m.idStr(p.Root))
	}
	assign(p.Cell, v)
}

// guardComposite bounds recursion depth and element counts of buffer loads / stores
// (corrupt modules can declare self-containing structs or absurd array lengths).
func (it *interp) guardComposite(p *Pointer) *Type {
	t := it.ty(p.Type)
	if t == nil {
		it.trap("memory access through unknown type %%%d", p.Type)
	}
	if it.depth > 64 || int64(t.Count) > maxCells {
		it.unsupported("type too large or too deeply nested for a memory access (" + it.m.TypeString(p.Type) + ")")
	}
	return t
}

func (it *interp) loadBuf(p *Pointer) Value {
	t := it.guardComposite(p)
	it.depth++
	defer func() { it.depth-- }()
	switch t.Kind {
	case TInt, TFloat:
		sz := int64(t.Width / 8)
		it.bufCheck(p, sz, "load")
		d := p.Buf.data[p.Off:]
		switch sz {
		case 1:
			return sc(uint64(d[0]))
		case 2:
			return sc(uint64(binary.LittleEndian.Uint16(d)))
		case 4:
			return sc(uint64(binary.LittleEndian.Uint32(d)))
		case 8:
			return sc(binary.LittleEndian.Uint64(d))
		}
		it.unsupported(fmt.Sprintf("%d-bit scalar in buffer", t.Width))
	case TBool:
		it.trap("OpTypeBool in externally visible memory")
	case TVector, TMatrix, TArray:
		es := make([]Value, t.Count)
		for i := range es {
			es[i] = it.loadBuf(it.chainConst(p, int64(i)))
		}
		return comp(es)
	case TStruct:
		es := make([]Value, len(t.Members))
		for i := range es {
			es[i] = it.loadBuf(it.chainConst(p, int64(i)))
		}
		return comp(es)
	case TRuntimeArray:
		it.trap("load of a whole runtime array")
	}
	it.unsupported("load of " + it.m.TypeString(p.Type) + " from a buffer")
	return Value{}
}

func (it *interp) chainConst(p *Pointer, i int64) *Pointer {
	return it.chain(p, sc(uint64(i)), 0)
}

func (it *interp) storeBuf(p *Pointer, v Value) {
	t := it.guardComposite(p)
	it.depth++
	defer func() { it.depth-- }()
	switch t.Kind {
	case TInt, TFloat:
		sz := int64(t.Width / 8)
		it.bufCheck(p, sz, "store")
		if v.K != kScalar {
			it.trap("store of a non-scalar value to a scalar location")
		}
		bits := v.Bits
		if v.Poison {
			it.poison(fmt.Sprintf("poison stored to buffer set %d binding %d offset %d", p.Buf.key.Set, p.Buf.key.Binding, p.Off))
			bits = 0
		}
		d := p.Buf.data[p.Off:]
		switch sz {
		case 1:
			d[0] = byte(bits)
		case 2:
			binary.LittleEndian.PutUint16(d, uint16(bits))
		case 4:
			binary.LittleEndian.PutUint32(d, uint32(bits))
		case 8:
			binary.LittleEndian.PutUint64(d, bits)
		default:
			it.unsupported(fmt.Sprintf("%d-bit scalar in buffer", t.Width))
		}
		return
	case TVector, TMatrix, TArray, TStruct:
		n := int(t.Count)
		if t.Kind == TStruct {
			n = len(t.Members)
		}
		if v.K != kComposite || len(v.Elems) != n {
			it.trap("store of a value whose shape does not match %s", it.m.TypeString(p.Type))
		}
		for i := 0; i < n; i++ {
			it.storeBuf(it.chainConst(p, int64(i)), v.Elems[i])
		}
		return
	case TBool:
		it.trap("OpTypeBool in externally visible memory")
	case TRuntimeArray:
		it.trap("store of a whole runtime array")
	}
	it.unsupported("store of " + it.m.TypeString(p.Type) + " to a buffer")
}

func (it *interp) arrayLength(p *Pointer, member uint32) Value {
	t := it.ty(p.Type)
	if t == nil || t.Kind != TStruct || int(member) >= len(t.Members) {
		it.trap("OpArrayLength: operand is not a pointer to a struct with member %d", member)
	}
	if p.Buf == nil {
		it.trap("OpArrayLength on non-buffer memory")
	}
	it.bufCheck(p, 0, "OpArrayLength")
	at := it.ty(t.Members[member])
	if at == nil || at.Kind != TRuntimeArray {
		it.trap("OpArrayLength: member %d is not a runtime array", member)
	}
	od, ok := it.m.MemberDeco(t.ID, int(member), DecOffset)
	sd, ok2 := it.m.Deco(at.ID, DecArrayStride)
	if !ok || !ok2 || len(od.Params) == 0 || len(sd.Params) == 0 || sd.Params[0] == 0 {
		it.trap("OpArrayLength: missing Offset / ArrayStride decoration")
	}
	avail := int64(len(p.Buf.data)) - p.Off - int64(od.Params[0])
	if avail < 0 {
		avail = 0
	}
	return sc(uint64(avail/int64(sd.Params[0])) & 0xffffffff)
}

func (it *interp) atomic(fr *frame, in *Inst, g func(uint32) Value) {
	// pointer is always the first argument
	p := it.ptr(g(in.Arg(0)))
	t := it.ty(p.Type)
	if t == nil || (t.Kind != TInt && t.Kind != TFloat) {
		it.trap("atomic on non-scalar type %s", it.m.TypeString(p.Type))
	}
	w := t.Width
	val := func(i int) Value {
		v := g(in.Arg(i))
		if v.Poison {
			it.poison("atomic operand is poison")
			v = sc(0)
		}
		return v
	}
	old := it.load(p)
	if old.Poison && in.Op != OpAtomicStore {
		it.poison("atomic operation reads uninitialised (poison) memory")
		old = sc(0)
	}
	var nv Value
	write := true
	switch in.Op {
	case OpAtomicLoad:
		write = false
	case OpAtomicStore:
		nv = val(3)
		it.store(p, nv)
		return
	case OpAtomicExchange:
		nv = val(3)
	case OpAtomicCompareExchange, OpAtomicCompareExchangeWk:
		v, c := val(4), val(5)
		if old.Bits == c.Bits {
			nv = v
		} else {
			write = false
		}
	case OpAtomicIIncrement:
		nv = sc((old.Bits + 1) & maskW(w))
	case OpAtomicIDecrement:
		nv = sc((old.Bits - 1) & maskW(w))
	case OpAtomicIAdd:
		nv = sc((old.Bits + val(3).Bits) & maskW(w))
	case OpAtomicISub:
		nv = sc((old.Bits - val(3).Bits) & maskW(w))
	case OpAtomicSMin, OpAtomicSMax:
		a, b := sext(old.Bits, w), sext(val(3).Bits, w)
		if (in.Op == OpAtomicSMin) == (b < a) {
			a = b
		}
		nv = sc(uint64(a) & maskW(w))
	case OpAtomicUMin, OpAtomicUMax:
		a, b := old.Bits, val(3).Bits
		if (in.Op == OpAtomicUMin) == (b < a) {
			a = b
		}
		nv = sc(a)
	case OpAtomicAnd:
		nv = sc(old.Bits & val(3).Bits)
	case OpAtomicOr:
		nv = sc(old.Bits | val(3).Bits)
	case OpAtomicXor:
		nv = sc(old.Bits ^ val(3).Bits)
	}
	if write {
		it.store(p, nv)
	}
	it.set(fr, in.Result, old)
}

// sortedInfoKeys is a helper for deterministic printing of RunResult.Info.
func (r *RunResult) SortedInfoKeys() []string {
	ks := make([]string, 0, len(r.Info))
	for k := range r.Info {
		ks = append(ks, k)
	}
	sort.Strings(ks)
	return ks
}
