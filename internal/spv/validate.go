package spv

import (
	"fmt"
	"sort"
)

// Issue is one violated rule.
type Issue struct {
	Rule string // short stable id, e.g. "id.defined-once"
	Msg  string
	Inst int // instruction index (Module.Insts), -1 for module level
}

func (i Issue) String() string { return fmt.Sprintf("%s @%d: %s", i.Rule, i.Inst, i.Msg) }

// Rules lists every rule id Validate can report, with a one line description.
var Rules = map[string]string{}

// RuleIDs returns the sorted rule ids.
func RuleIDs() []string {
	ids := make([]string, 0, len(Rules))
	for id := range Rules {
		ids = append(ids, id)
	}
	sort.Strings(ids)
	return ids
}

func rule(id, desc string) string {
	Rules[id] = desc
	return id
}

type validator struct {
	m       *Module
	issues  []Issue
	perRule map[string]int
	// where each instruction lives
	fnOf    []*Function // per instruction index: enclosing function (nil = module scope)
	blkOf   []*Block
	posIn   []int // position inside its block
	shader  bool
	depth   int
	curInst int
}

const maxPerRule = 25

func (v *validator) add(rule string, inst int, format string, a ...interface{}) {
	v.perRule[rule]++
	if v.perRule[rule] > maxPerRule {
		return
	}
	v.issues = append(v.issues, Issue{Rule: rule, Msg: fmt.Sprintf(format, a...), Inst: inst})
}

// Validate checks the structural rules (universal SPIR-V rules plus the Vulkan
// environment rules for shaders).  An empty result means no violation was found.
func Validate(m *Module) []Issue {
	v := &validator{m: m, perRule: map[string]int{}}
	v.m.unchk = map[string]int{}
	v.shader = m.caps[1]
	v.locate()
	v.guard("header", v.header)
	v.guard("layout", v.layout)
	v.guard("ids", v.ids)
	v.guard("types", v.typesAndConstants)
	v.guard("functions", v.functions)
	for _, f := range m.funcs {
		f := f
		v.guard("cfg", func() { v.cfg(f) })
		v.guard("ssa", func() { v.ssa(f) })
	}
	v.guard("relations", v.relations)
	v.guard("decorations", v.decorations)
	v.guard("entrypoints", v.entryPoints)
	v.guard("capabilities", v.capabilities)
	sort.SliceStable(v.issues, func(i, j int) bool {
		a, b := v.issues[i], v.issues[j]
		if a.Inst != b.Inst {
			return a.Inst < b.Inst
		}
		if a.Rule != b.Rule {
			return a.Rule < b.Rule
		}
		return a.Msg < b.Msg
	})
	return v.issues
}

var rMalformed = rule("inst.malformed", "an instruction (or module part) is so ill-formed that a rule could not be evaluated; the root cause is normally reported by id.kind / type.operand / inst.operands")

// guard runs one pass; a Go run-time failure inside it (only possible on modules whose operands
// have the wrong class) becomes an issue instead of a crash.
func (v *validator) guard(pass string, f func()) {
	defer func() {
		if r := recover(); r != nil {
			v.depth = 0
			v.add(rMalformed, v.curInst, "pass %s stopped: %v", pass, r)
		}
	}()
	v.curInst = -1
	f()
}

func (v *validator) locate() {
	n := len(v.m.Insts)
	v.fnOf = make([]*Function, n)
	v.blkOf = make([]*Block, n)
	v.posIn = make([]int, n)
	for _, f := range v.m.funcs {
		for i := f.First; i <= f.End && i < n; i++ {
			v.fnOf[i] = f
		}
		for _, b := range f.Blocks {
			for k, in := range b.Insts {
				v.blkOf[in.Index] = b
				v.posIn[in.Index] = k
			}
		}
	}
}

// ---------------------------------------------------------------- header

var (
	rHdrVersion = rule("header.version", "version word is 0x00MMmm00 with 1.0 <= version <= 1.6")
	rHdrBound   = rule("header.bound", "bound is greater than every id in the module")
	rHdrSchema  = rule("header.schema", "schema word is 0")
	rOperands   = rule("inst.operands", "instruction has the operand count its opcode requires")
)

func (v *validator) header() {
	m := v.m
	if m.Version&0xff0000ff != 0 || m.Major != 1 || m.Minor < 0 || m.Minor > 6 {
		v.add(rHdrVersion, -1, "version word %#08x", m.Version)
	}
	if m.Schema != 0 {
		v.add(rHdrSchema, -1, "schema %d", m.Schema)
	}
	if m.Bound == 0 {
		v.add(rHdrBound, -1, "bound is 0")
	}
	for _, in := range m.Insts {
		if in.DecodeEr != "" {
			v.add(rOperands, in.Index, "%s: %s", in.Name(), in.DecodeEr)
		}
		if !in.Known {
			continue
		}
		for _, o := range in.Operands {
			switch o.Kind {
			case KindID, KindResult, KindResultType:
				if o.Word >= m.Bound {
					v.add(rHdrBound, in.Index, "id %%%d >= bound %d in %s", o.Word, m.Bound, in.Name())
				}
			}
		}
	}
}

// ---------------------------------------------------------------- layout

var (
	rLayoutOrder  = rule("layout.order", "instructions appear in the section order of SPIR-V §2.4 (Logical Layout of a Module)")
	rLayoutMemMod = rule("layout.memory-model", "exactly one OpMemoryModel")
	rLayoutFunc   = rule("layout.function", "functions are OpFunction, parameters, blocks, OpFunctionEnd; body instructions live inside blocks")
)

func isTypeOp(op uint16) bool {
	switch op {
	case OpTypeVoid, OpTypeBool, OpTypeInt, OpTypeFloat, OpTypeVector, OpTypeMatrix, OpTypeImage, OpTypeSampler, OpTypeSampledImage, OpTypeArray,
		OpTypeRuntimeArray, OpTypeStruct, OpTypeOpaque, OpTypePointer, OpTypeFunction, OpTypeEvent, OpTypeDeviceEvent, OpTypeReserveId, OpTypeQueue,
		OpTypePipe, OpTypeForwardPointer, OpTypeRayQueryKHR, OpTypeAccelStructKHR:
		return true
	}
	return false
}

func isConstOp(op uint16) bool {
	switch op {
	case OpConstantTrue, OpConstantFalse, OpConstant, OpConstantComposite, OpConstantSampler, OpConstantNull,
		OpSpecConstantTrue, OpSpecConstantFalse, OpSpecConstant, OpSpecConstantComposite, OpSpecConstantOp:
		return true
	}
	return false
}

// section returns the layout section of a module-scope instruction, -1 if it may
// appear anywhere from the type section on, -2 if it does not belong at module scope.
func section(in *Inst) int {
	switch in.Op {
	case OpCapability:
		return 0
	case OpExtension:
		return 1
	case OpExtInstImport:
		return 2
	case OpMemoryModel:
		return 3
	case OpEntryPoint:
		return 4
	case OpExecutionMode, OpExecutionModeId:
		return 5
	case OpString, OpSourceExtension, OpSource, OpSourceContinued:
		return 6
	case OpName, OpMemberName:
		return 7
	case OpModuleProcessed:
		return 8
	case OpDecorate, OpMemberDecorate, OpDecorationGroup, OpGroupDecorate, OpGroupMemberDecorate, OpDecorateId, 5632, 5633:
		return 9
	case OpVariable, OpUndef:
		return 10
	case OpLine, 317, OpExtInst, OpNop:
		return -1
	case OpFunction:
		return 11
	}
	if isTypeOp(in.Op) || isConstOp(in.Op) {
		return 10
	}
	return -2
}

func (v *validator) layout() {
	cur := 0
	memModels := 0
	var inFunc *Inst
	inBlock := false
	seenBody := false // a function with a body has been seen
	for _, in := range v.m.Insts {
		if in.Op == OpMemoryModel {
			memModels++
		}
		if inFunc == nil {
			s := section(in)
			switch {
			case s == -2:
				v.add(rLayoutOrder, in.Index, "%s outside of a function", in.Name())
			case s == -1:
				if cur < 10 && in.Op != OpNop && in.Op != OpExtInst {
					v.add(rLayoutOrder, in.Index, "%s before the type/constant section", in.Name())
				}
			case s < cur:
				v.add(rLayoutOrder, in.Index, "%s (section %d) after an instruction of section %d", in.Name(), s, cur)
			default:
				cur = s
			}
			if in.Op == OpFunction {
				inFunc = in
				inBlock = false
			}
			continue
		}
		// inside a function
		switch in.Op {
		case OpFunctionEnd:
			if inBlock {
				v.add(rLayoutFunc, in.Index, "OpFunctionEnd inside a block (missing terminator)")
			}
			f := v.fnOf[inFunc.Index]
			if f != nil {
				if len(f.Blocks) > 0 {
					seenBody = true
				} else if seenBody {
					v.add(rLayoutOrder, inFunc.Index, "function declaration (no body) after a function definition")
				}
			}
			inFunc = nil
		case OpFunction:
			v.add(rLayoutFunc, in.Index, "OpFunction inside a function (missing OpFunctionEnd)")
		case OpFunctionParameter:
			if f := v.fnOf[in.Index]; f != nil && (inBlock || len(f.Blocks) > 0 && f.Blocks[0].Insts[0].Index < in.Index) {
				v.add(rLayoutFunc, in.Index, "OpFunctionParameter after the first block")
			}
		case OpLabel:
			if inBlock {
				v.add(rBlockTerm, in.Index, "OpLabel inside a block: previous block has no terminator")
			}
			inBlock = true
		case OpLine, 317:
		default:
			if !inBlock {
				v.add(rBlockAfterTerm, in.Index, "%s is not inside a block (after a terminator or before the first OpLabel)", in.Name())
			}
			if isTerminator(in.Op) {
				inBlock = false
			}
			if s := section(in); s >= 0 && s != 10 || isTypeOp(in.Op) || isConstOp(in.Op) {
				v.add(rLayoutOrder, in.Index, "%s inside a function", in.Name())
			}
		}
	}
	if inFunc != nil {
		v.add(rLayoutFunc, inFunc.Index, "function without OpFunctionEnd")
	}
	if memModels != 1 {
		v.add(rLayoutMemMod, -1, "%d OpMemoryModel instructions", memModels)
	}
}

// ---------------------------------------------------------------- ids

var (
	rIDOnce    = rule("id.defined-once", "every result id is defined exactly once")
	rIDZero    = rule("id.zero", "id 0 is never used")
	rIDUndef   = rule("id.undefined", "every used id is defined somewhere")
	rIDForward = rule("id.forward", "ids are used after their definition except where forward references are allowed")
	rIDKind    = rule("id.kind", "operand ids refer to the right class of object (type / value / label / function)")
)

// forwardOK reports whether operand k (index into in.Operands) of in may be a forward reference.
func forwardOK(m *Module, in *Inst, k int) bool {
	switch in.Op {
	case OpEntryPoint, OpExecutionMode, OpExecutionModeId, OpName, OpMemberName, OpDecorate, OpMemberDecorate, OpDecorateId, OpGroupDecorate,
		OpGroupMemberDecorate, 5632, 5633, OpTypeForwardPointer, OpLoopMerge, OpSelectionMerge, OpBranch, OpPhi, OpLine:
		return true
	case OpFunctionCall:
		return k == 2 // the function
	case OpBranchConditional:
		return k >= 1
	case OpSwitch:
		return k >= 1
	case OpTypePointer, OpTypeStruct, OpTypeArray, OpTypeRuntimeArray, OpTypeFunction:
		// forward declared pointers
		id := in.Operands[k].Word
		for _, x := range m.Insts {
			if x.Op == OpTypeForwardPointer && x.Arg(0) == id {
				return true
			}
			if x.Op == OpFunction {
				break
			}
		}
	}
	return false
}

func (v *validator) ids() {
	m := v.m
	first := map[uint32]int{}
	for _, in := range m.Insts {
		if !in.Known {
			continue
		}
		for _, o := range in.Operands {
			if o.Kind == KindResult {
				if o.Word == 0 {
					v.add(rIDZero, in.Index, "%s defines id 0", in.Name())
				} else if p, dup := first[o.Word]; dup {
					v.add(rIDOnce, in.Index, "%%%d defined by %s here and by %s at %d", o.Word, in.Name(), m.Insts[p].Name(), p)
				} else {
					first[o.Word] = in.Index
				}
			}
		}
	}
	for _, in := range m.Insts {
		if !in.Known {
			continue
		}
		for k, o := range in.Operands {
			if o.Kind != KindID && o.Kind != KindResultType {
				continue
			}
			if o.Word == 0 {
				v.add(rIDZero, in.Index, "%s uses id 0", in.Name())
				continue
			}
			d, ok := first[o.Word]
			if !ok {
				v.add(rIDUndef, in.Index, "%s uses %%%d which is never defined", in.Name(), o.Word)
				continue
			}
			def := m.Insts[d]
			// kind checks
			if o.Kind == KindResultType && m.types[o.Word] == nil {
				v.add(rIDKind, in.Index, "result type %%%d of %s is defined by %s, not a type", o.Word, in.Name(), def.Name())
			}
			// order: module-scope uses and uses of module-scope objects
			if v.fnOf[in.Index] == nil || v.fnOf[d] == nil {
				if d >= in.Index && !forwardOK(m, in, k) {
					v.add(rIDForward, in.Index, "%s uses %%%d before its definition at %d (%s)", in.Name(), o.Word, d, def.Name())
				}
			}
		}
	}
}

// ---------------------------------------------------------------- SSA dominance

var (
	rSSADom   = rule("ssa.dominance", "inside a function every use of an id is dominated by its definition")
	rSSAPhi   = rule("ssa.phi-dominance", "OpPhi operand i is defined in a block that dominates predecessor i")
	rSSACross = rule("ssa.cross-function", "ids defined inside a function are used only in that function")
	rPhiPreds = rule("phi.predecessors", "OpPhi lists exactly the CFG predecessors of its block, each once")
	rPhiPos   = rule("phi.position", "OpPhi instructions come first in their block")
	rPhiType  = rule("phi.type", "OpPhi value operands have the result type")
)

func (v *validator) ssa(f *Function) {
	m := v.m
	c := f.analysis()
	param := map[uint32]bool{}
	for _, p := range f.Params {
		param[p.Result] = true
	}
	for _, b := range f.Blocks {
		reach := c.d.reach[b.Index]
		seenNonPhi := false
		for _, in := range b.Insts {
			if !in.Known {
				continue
			}
			if in.Op == OpPhi {
				if seenNonPhi {
					v.add(rPhiPos, in.Index, "OpPhi after a non-phi instruction")
				}
				v.phi(f, c, b, in)
				continue
			}
			if in.Op != OpLabel && in.Op != OpLine && in.Op != 317 {
				seenNonPhi = true
			}
			for k, o := range in.Operands {
				if o.Kind != KindID {
					continue
				}
				def := m.defs[o.Word]
				if def == nil {
					continue
				}
				df := v.fnOf[def.Index]
				if df == nil || def.Op == OpFunction {
					continue // module scope object
				}
				if def.Op == OpLabel {
					if df != f {
						v.add(rSSACross, in.Index, "%s names label %%%d of another function", in.Name(), o.Word)
					}
					continue
				}
				if df != f {
					v.add(rSSACross, in.Index, "%s uses %%%d defined in another function", in.Name(), o.Word)
					continue
				}
				if param[o.Word] || !reach {
					continue
				}
				_ = k
				db := v.blkOf[def.Index]
				if db == nil {
					continue
				}
				if db == b {
					if def.Index >= in.Index {
						v.add(rSSADom, in.Index, "%s uses %%%d defined later in the same block (at %d)", in.Name(), o.Word, def.Index)
					}
				} else if !c.d.dom(db.Index, b.Index) {
					v.add(rSSADom, in.Index, "%s in block %%%d uses %%%d defined in block %%%d which does not dominate it", in.Name(), b.Label, o.Word, db.Label)
				}
			}
		}
	}
}

func (v *validator) phi(f *Function, c *cfgInfo, b *Block, in *Inst) {
	m := v.m
	if len(in.Args)%2 != 0 {
		return
	}
	seen := map[int]int{}
	for i := 0; i+1 < len(in.Args); i += 2 {
		val, lab := in.Args[i], in.Args[i+1]
		pb := f.byLabel[lab]
		if pb == nil {
			v.add(rPhiPreds, in.Index, "OpPhi parent %%%d is not a block of this function", lab)
			continue
		}
		seen[pb.Index]++
		isPred := false
		for _, p := range c.pred[b.Index] {
			if p == pb.Index {
				isPred = true
			}
		}
		if !isPred {
			v.add(rPhiPreds, in.Index, "OpPhi parent %%%d is not a predecessor of block %%%d", lab, b.Label)
		}
		if t := m.TypeOf(val); t != 0 && t != in.Type {
			v.add(rPhiType, in.Index, "OpPhi operand %%%d has type %s, result type is %s", val, m.TypeString(t), m.TypeString(in.Type))
		}
		def := m.defs[val]
		if def == nil {
			continue
		}
		df := v.fnOf[def.Index]
		if df == nil {
			continue
		}
		if df != f {
			v.add(rSSACross, in.Index, "OpPhi uses %%%d defined in another function", val)
			continue
		}
		if def.Op == OpFunctionParameter || !c.d.reach[pb.Index] {
			continue
		}
		db := v.blkOf[def.Index]
		if db != nil && !c.d.dom(db.Index, pb.Index) {
			v.add(rSSAPhi, in.Index, "OpPhi operand %%%d (defined in block %%%d) does not dominate predecessor %%%d", val, db.Label, lab)
		}
	}
	for _, p := range c.pred[b.Index] {
		switch seen[p] {
		case 0:
			v.add(rPhiPreds, in.Index, "OpPhi has no operand for predecessor %%%d", f.Blocks[p].Label)
		case 1:
		default:
			v.add(rPhiPreds, in.Index, "OpPhi lists predecessor %%%d %d times", f.Blocks[p].Label, seen[p])
		}
	}
}
