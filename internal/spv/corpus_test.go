package spv

import (
	"fmt"
	"os"
	"path/filepath"
	"sort"
	"strings"
	"testing"

	"github.com/gogpu/naga/spirv"
)

const corpusDir = "/repo/snapshot/testdata/in"

// knownNagaIssues lists (file, rule) pairs that were investigated and found to be real
// defects of the emitted module (not of this validator).  See the engine report.
// key: "file.wgsl|rule" or "*|rule" ; value: reason.
var knownNagaIssues = map[string]string{}

func corpusFiles(t testing.TB) []string {
	fs, err := filepath.Glob(filepath.Join(corpusDir, "*.wgsl"))
	if err != nil || len(fs) == 0 {
		t.Skipf("corpus not available: %v", err)
	}
	sort.Strings(fs)
	return fs
}

// TestCorpusValidate parses and validates every corpus module for four versions with
// and without debug info.  Every issue is either a validator bug (fix it) or a naga
// defect (list it in knownNagaIssues after investigation).
func TestCorpusValidate(t *testing.T) {
	versions := []spirv.Version{spirv.Version1_0, spirv.Version1_3, spirv.Version1_4, spirv.Version1_6}
	only := os.Getenv("SPV_CORPUS_ONLY")
	type agg struct {
		count int
		first string
		files map[string]bool
	}
	byRule := map[string]*agg{}
	compiled, skipped, modules := 0, 0, 0
	unchecked := map[string]int{}
	for _, f := range corpusFiles(t) {
		base := filepath.Base(f)
		if only != "" && !strings.Contains(base, only) {
			continue
		}
		src, err := os.ReadFile(f)
		if err != nil {
			t.Fatal(err)
		}
		okAny := false
		for _, ver := range versions {
			for _, dbg := range []bool{false, true} {
				bin, err := compileWGSL(string(src), ver, dbg)
				if err != nil {
					continue
				}
				okAny = true
				modules++
				m, err := Parse(bin)
				if err != nil {
					t.Errorf("%s v%d.%d debug=%v: Parse: %v", base, ver.Major, ver.Minor, dbg, err)
					continue
				}
				if m.Major != int(ver.Major) || m.Minor != int(ver.Minor) {
					// documented auto-upgrade is allowed; just make sure it is not a downgrade
					if m.Minor < int(ver.Minor) {
						t.Errorf("%s: requested %d.%d, module says %d.%d", base, ver.Major, ver.Minor, m.Major, m.Minor)
					}
				}
				_ = m.Disassemble()
				for _, is := range Validate(m) {
					if _, known := knownNagaIssues[base+"|"+is.Rule]; known {
						continue
					}
					if _, known := knownNagaIssues["*|"+is.Rule]; known {
						continue
					}
					a := byRule[is.Rule]
					if a == nil {
						a = &agg{files: map[string]bool{}}
						byRule[is.Rule] = a
					}
					a.count++
					a.files[base] = true
					if a.first == "" {
						ctx := ""
						if is.Inst >= 0 {
							ctx = m.DisasmRange(is.Inst-2, is.Inst+1)
						}
						a.first = fmt.Sprintf("%s v%d.%d debug=%v: %s\n%s", base, ver.Major, ver.Minor, dbg, is, ctx)
					}
				}
				for k, n := range m.Unchecked() {
					unchecked[k] += n
				}
			}
		}
		if okAny {
			compiled++
		} else {
			skipped++
		}
	}
	t.Logf("corpus: %d files compiled, %d skipped (naga rejects), %d modules validated", compiled, skipped, modules)
	var ks []string
	for k := range unchecked {
		ks = append(ks, fmt.Sprintf("%s=%d", k, unchecked[k]))
	}
	sort.Strings(ks)
	t.Logf("unchecked instructions: %s", strings.Join(ks, " "))
	var rules []string
	for r := range byRule {
		rules = append(rules, r)
	}
	sort.Strings(rules)
	for _, r := range rules {
		a := byRule[r]
		var fl []string
		for f := range a.files {
			fl = append(fl, f)
		}
		sort.Strings(fl)
		if len(fl) > 12 {
			fl = append(fl[:12], fmt.Sprintf("… (%d files)", len(a.files)))
		}
		t.Errorf("rule %s: %d issue(s) in %v\nfirst: %s", r, a.count, fl, a.first)
	}
}
