package spv

import (
	"fmt"
	"os"
	"path/filepath"
	"sort"
	"strings"
	"testing"

	"github.com/gogpu/naga/spirv"
)

const corpusDir = "/repo/snapshot/testdata/in"

// knownNagaIssues lists (file, rule) pairs that were investigated and found to be real
// defects of the emitted module (not of this validator).  See the engine report.
// key: "file.wgsl|rule" or "*|rule" ; value: reason.
var knownNagaIssues = func() map[string]string {
	m := map[string]string{}
	// BoundsCheckReadZeroSkipWrite image loads: OpBranchConditional emitted without OpSelectionMerge
	for _, f := range []string{"bounds-check-image-restrict-depth.wgsl", "bounds-check-image-restrict.wgsl", "bounds-check-image-rzsw-depth.wgsl",
		"bounds-check-image-rzsw.wgsl", "image.wgsl", "storage-textures.wgsl", "texture-external.wgsl"} {
		m[f+"|cfg.merge-missing"] = "RZSW image load: conditional branches without merge instruction"
	}
	// BoundsCheckRestrict with unsigned coordinates: OpConstantComposite vecN<u32> built from the i32 constant 1
	for _, f := range []string{"image.wgsl", "storage-textures.wgsl", "texture-external.wgsl"} {
		m[f+"|const.type"] = "Restrict image load: vecN<u32> constant composed of i32 constituents"
	}
	return m
}()

func corpusFiles(t testing.TB) []string {
	fs, err := filepath.Glob(filepath.Join(corpusDir, "*.wgsl"))
	if err != nil || len(fs) == 0 {
		t.Skipf("corpus not available: %v", err)
	}
	sort.Strings(fs)
	return fs
}

// TestCorpusValidate parses and validates every corpus module for four versions with
// and without debug info.  Every issue is either a validator bug (fix it) or a naga
// defect (list it in knownNagaIssues after investigation).
func TestCorpusValidate(t *testing.T) {
	versions := []spirv.Version{spirv.Version1_0, spirv.Version1_3, spirv.Version1_4, spirv.Version1_6}
	only := os.Getenv("SPV_CORPUS_ONLY")
	type agg struct {
		count int
		first string
		files map[string]bool
	}
	byRule := map[string]*agg{}
	compiled, skipped, modules := 0, 0, 0
	unchecked := map[string]int{}
	for _, f := range corpusFiles(t) {
		base := filepath.Base(f)
		if only != "" && !strings.Contains(base, only) {
			continue
		}
		src, err := os.ReadFile(f)
		if err != nil {
			t.Fatal(err)
		}
		okAny := false
		type optSet struct {
			ver  spirv.Version
			dbg  bool
			opts spirv.Options
		}
		var sets []optSet
		for _, ver := range versions {
			for _, dbg := range []bool{false, true} {
				sets = append(sets, optSet{ver, dbg, spirv.Options{Version: ver, Debug: dbg}})
			}
		}
		for _, ver := range []spirv.Version{spirv.Version1_1, spirv.Version1_5} {
			sets = append(sets,
				optSet{ver, false, spirv.Options{Version: ver, ForceLoopBounding: true}},
				optSet{ver, false, spirv.Options{Version: ver, ForcePointSize: true, AdjustCoordinateSpace: true, UseStorageInputOutput16: true}},
				optSet{ver, false, spirv.Options{Version: ver, BoundsCheckPolicies: spirv.BoundsCheckPolicies{ImageLoad: spirv.BoundsCheckRestrict, ImageStore: spirv.BoundsCheckRestrict, Index: spirv.BoundsCheckRestrict}}},
				optSet{ver, true, spirv.Options{Version: ver, Debug: true, BoundsCheckPolicies: spirv.BoundsCheckPolicies{ImageLoad: spirv.BoundsCheckReadZeroSkipWrite, ImageStore: spirv.BoundsCheckReadZeroSkipWrite, Index: spirv.BoundsCheckReadZeroSkipWrite}}},
			)
		}
		for _, os := range sets {
			{
				ver, dbg := os.ver, os.dbg
				bin, err := compileWGSLOpts(string(src), os.opts)
				if err != nil {
					continue
				}
				okAny = true
				modules++
				m, err := Parse(bin)
				if err != nil {
					t.Errorf("%s v%d.%d debug=%v: Parse: %v", base, ver.Major, ver.Minor, dbg, err)
					continue
				}
				if m.Major != int(ver.Major) || m.Minor != int(ver.Minor) {
					// documented auto-upgrade is allowed; just make sure it is not a downgrade
					if m.Minor < int(ver.Minor) {
						t.Errorf("%s: requested %d.%d, module says %d.%d", base, ver.Major, ver.Minor, m.Major, m.Minor)
					}
				}
				_ = m.Disassemble()
				for _, is := range Validate(m) {
					if _, known := knownNagaIssues[base+"|"+is.Rule]; known {
						continue
					}
					if _, known := knownNagaIssues["*|"+is.Rule]; known {
						continue
					}
					a := byRule[is.Rule]
					if a == nil {
						a = &agg{files: map[string]bool{}}
						byRule[is.Rule] = a
					}
					a.count++
					a.files[base] = true
					if a.first == "" {
						ctx := ""
						if is.Inst >= 0 {
							ctx = m.DisasmRange(is.Inst-2, is.Inst+1)
						}
						a.first = fmt.Sprintf("%s v%d.%d debug=%v: %s\n%s", base, ver.Major, ver.Minor, dbg, is, ctx)
					}
				}
				for k, n := range m.Unchecked() {
					unchecked[k] += n
				}
			}
		}
		if okAny {
			compiled++
		} else {
			skipped++
		}
	}
	t.Logf("corpus: %d files compiled, %d skipped (naga rejects), %d modules validated", compiled, skipped, modules)
	var ks []string
	for k := range unchecked {
		ks = append(ks, fmt.Sprintf("%s=%d", k, unchecked[k]))
	}
	sort.Strings(ks)
	t.Logf("unchecked instructions: %s", strings.Join(ks, " "))
	var rules []string
	for r := range byRule {
		rules = append(rules, r)
	}
	sort.Strings(rules)
	for _, r := range rules {
		a := byRule[r]
		var fl []string
		for f := range a.files {
			fl = append(fl, f)
		}
		sort.Strings(fl)
		if len(fl) > 12 {
			fl = append(fl[:12], fmt.Sprintf("… (%d files)", len(a.files)))
		}
		t.Errorf("rule %s: %d issue(s) in %v\nfirst: %s", r, a.count, fl, a.first)
	}
}

// TestCorpusRun executes every GLCompute entry point of the corpus on zero-filled
// buffers.  The results are not judged (the shaders index with garbage); the point is
// that the interpreter itself never fails: every outcome is a clean result, a trap or
// the step limit.
func TestCorpusRun(t *testing.T) {
	traps := map[string]int{}
	runs := 0
	for _, f := range corpusFiles(t) {
		base := filepath.Base(f)
		src, _ := os.ReadFile(f)
		bin, err := compileWGSL(string(src), spirv.Version1_3, true)
		if err != nil {
			continue
		}
		m, err := Parse(bin)
		if err != nil {
			t.Errorf("%s: %v", base, err)
			continue
		}
		for _, ep := range m.EntryPoints() {
			if ep.Model != EMGLCompute {
				continue
			}
			bufs := map[Key][]byte{}
			for _, rv := range m.ResourceVars() {
				bufs[Key{rv.Set, rv.Binding}] = make([]byte, 1024)
			}
			for _, rev := range []bool{false, true} {
				res, err := Run(m, RunConfig{Entry: ep.Name, Buffers: bufs, NumWorkgroups: [3]uint32{1, 1, 1}, StepLimit: 200000, ReverseOrder: rev, PushConstants: make([]byte, 256)})
				runs++
				if err != nil && err != ErrStepLimit {
					t.Errorf("%s %s: %v", base, ep.Name, err)
					continue
				}
				if res.Trap != "" {
					key := res.Trap
					if i := strings.Index(key, " ["); i > 0 {
						key = key[:i]
					}
					if len(key) > 60 {
						key = key[:60]
					}
					traps[key]++
					if os.Getenv("SPV_TRAPS") != "" {
						t.Logf("%s %s: %s", base, ep.Name, res.Trap)
					}
				}
			}
		}
	}
	var ks []string
	for k, n := range traps {
		ks = append(ks, fmt.Sprintf("%4d  %s", n, k))
	}
	sort.Strings(ks)
	t.Logf("%d runs; traps:\n%s", runs, strings.Join(ks, "\n"))
}
