/*
Engine E3 — independent SPIR-V reader, structural validator and compute interpreter.

Nothing here imports the compiler under test (only the _test files do, to obtain
binaries).  Everything is written from the SPIR-V 1.6 unified specification and the
GLSL.std.450 extended instruction set specification.

# API

	Parse(b) (*Module, error)        byte stream -> instructions with decoded operands; fails only on a
	                                 malformed stream (size, magic, word count 0 / overrun)
	(*Module).Disassemble() string   one line per instruction, prefixed with the index used by Issue.Inst
	(*Module).DisasmRange(a, b)      excerpt for reports
	Validate(m) []Issue              structural rules; rule ids in Rules / RuleIDs()
	(*Module).Unchecked()            "Op#N": opcode not in the operand table (ids not checked);
	                                 "nocheck:OpX": decoded, but no type-relation rule (filled by Validate)
	Run(m, RunConfig) (*RunResult, error)
	reflection: EntryPoints, ResourceVars, GlobalVars, Decorations, Deco, MemberDeco, Type, TypeOf,
	            Def, ConstantValue, ConstU32, Name, MemberName, Capabilities, Extensions, Functions,
	            TypeString, AtLeast

# Interpreter model (the oracle; each rule cites the spec in the code next to it)

  - StorageBuffer / Uniform (+ BufferBlock) / PushConstant memory is the caller's byte slice, addressed
    only through Offset / ArrayStride / MatrixStride / RowMajor|ColMajor.  Composite loads and stores
    go member by member, padding is never written.  An access outside the slice, a constant or dynamic
    access-chain index outside a sized composite (indexes are signed), a missing binding => Trap.
  - Private / Function / Workgroup / Input variables hold typed cells, poison unless initialised.
  - Poison (per scalar component): shift >= width; U/S Div/Rem/Mod by 0; S Div/Rem/Mod INT_MIN by -1;
    FRem / FMod by 0; ConvertFToU/S of NaN, Inf or a value not representable; BitField* with
    offset+count > width; VectorExtract/InsertDynamic out of range; VectorShuffle 0xFFFFFFFF; OpUndef;
    uninitialised memory; GLSL.std.450: see glsl.go.  Poison propagates through every operation;
    OpSelect propagates only the selected arm (a poison condition poisons the result).  Poison that
    reaches a buffer store, branch / switch condition, access index or atomic operand is recorded in
    RunResult.Poison and replaced by 0.
  - Floats: computed in float64 from the exact operand values and rounded once (nearest even) to the
    result width (16, 32, 64).  For + - * / sqrt that equals IEEE arithmetic in the narrow format
    (2p+2 rule).  Fma uses math.FMA in float64 and is then rounded (double rounding possible in rare
    cases).  OpDot and matrix products round every product and every partial sum, left to right.
    FConvert narrowing and PackHalf2x16 use round-to-nearest-even.  NaN / Inf are ordinary values.
    FMin/FMax with a NaN operand return the other operand (x NaN -> y; y NaN -> x).
  - Control flow: block by block; OpPhi by dynamic predecessor (all phis of a block read before any
    is written).  A construct stack mirrors merge instructions; a branch must stay in the current
    construct or be a structured exit, else Trap "malformed control flow".  In addition the static
    cfg.* rules are evaluated once per function and executing a function that violates them traps.
  - Invocations of a workgroup run one after the other (0,1,2… or reversed with ReverseOrder) up to
    their next OpControlBarrier(Workgroup); the barrier is a rendezvous.  Waiting at different
    barrier instructions, or terminating while others wait, is a Trap ("non-uniform barrier").
  - StepLimit counts executed instructions over all invocations (ErrStepLimit).
  - Anything not modelled (images, samplers, subgroup operations, ray queries, derivatives, OpKill,
    OpAtomicFAddEXT, subgroup-scope barriers, unknown opcodes) => Trap with prefix "unsupported:".

# Limitations

  - Only GLCompute; no images / samplers; no subgroup operations.
  - Data races between invocations are not detected (compare a forward and a ReverseOrder run).
  - The transcendental functions are far more accurate than any GPU; compare with a tolerance.
  - Pointer duplicates (OpTypePointer declared twice) are deliberately NOT reported: SPIR-V allows them.
  - Post-dominance parts of the structured control flow rules (back-edge block post-dominates the
    continue target) and "branch into the middle of a continue construct" are not checked.
  - Image instruction operand/result relations, group-non-uniform and ray-query operand types are not
    checked (they are counted in Unchecked()).
*/
package spv
