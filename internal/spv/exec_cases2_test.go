package spv

import "math"

func fbits(vs ...uint32) []byte { return u32s(vs...) }

func u16s(vs ...uint16) []byte {
	b := make([]byte, 2*len(vs))
	for i, v := range vs {
		b[2*i], b[2*i+1] = byte(v), byte(v>>8)
	}
	return b
}

func casesFloat() []execCase {
	return []execCase{
		{
			name: "float_rounding",
			src: hdrOF + `
@compute @workgroup_size(1) fn main() {
  o[0] = a[0] + a[1];
  o[1] = a[2] / a[3];
  o[2] = a[4] + a[2];
  o[3] = sqrt(a[5]);
  o[4] = a[0] * a[3];
  o[5] = a[2] - a[0];
  o[6] = -a[1];
}`,
			in: io(f32s(0, 0, 0, 0, 0, 0, 0), f32s(0.1, 0.2, 1, 3, 16777216, 2)),
			// binary32 round-to-nearest-even: 0.1f+0.2f = 0x3E99999A; 1/3 = 0x3EAAAAAB; 2^24+1 = 2^24;
			// sqrt(2) = 0x3FB504F3; 0.1f*3 = 0x3E99999A; 1-0.1f = 0x3F666666; -0.2f = 0xBE4CCCCD
			want: map[Key][]byte{k(0): fbits(0x3E99999A, 0x3EAAAAAB, 0x4B800000, 0x3FB504F3, 0x3E99999A, 0x3F666666, 0xBE4CCCCD)},
		},
		{
			name: "float_builtins",
			src: hdrOF + `
@compute @workgroup_size(1) fn main() {
  o[0] = floor(a[0]);  o[1] = ceil(a[0]);  o[2] = trunc(a[1]);  o[3] = round(a[2]);  o[4] = round(a[3]);
  o[5] = fract(a[4]);  o[6] = fract(a[5]);  o[7] = abs(a[6]);  o[8] = sign(a[6]);  o[9] = sign(a[7]);
  o[10] = min(a[8], a[9]); o[11] = max(a[8], a[9]); o[12] = clamp(a[10], a[7], a[11]); o[13] = mix(a[9], a[12], a[13]);
  o[14] = step(a[8], a[9]); o[15] = step(a[9], a[8]); o[16] = sqrt(a[14]); o[17] = fma(a[9], a[11], a[12]);
  o[18] = inverseSqrt(a[12]); o[19] = smoothstep(a[7], a[8], a[13]); o[20] = exp2(a[11]); o[21] = log2(a[15]);
  o[22] = pow(a[9], a[11]); o[23] = a[16] % a[11]; o[24] = saturate(a[10]);
}`,
			in: io(f32s(make([]float32, 25)...), f32s(-1.5, -1.7, 2.3, -2.7, 1.75, -0.25, -3.5, 0, 1, 2, 5, 3, 4, 0.5, 16, 8, 7.5, -7.5)),
			// floor(-1.5)=-2 ceil=-1 trunc(-1.7)=-1 round(2.3)=2 round(-2.7)=-3 fract(1.75)=.75 fract(-.25)=.75
			// abs=3.5 sign(-3.5)=-1 sign(0)=0 min(1,2)=1 max=2 clamp(5,0,3)=3 mix(2,4,.5)=3 step(1,2)=1 step(2,1)=0
			// sqrt(16)=4 fma(2,3,4)=10 inverseSqrt(4)=.5 smoothstep(0,1,.5)=.5 exp2(3)=8 log2(8)=3 pow(2,3)=8
			// 7.5 % 3 = 1.5 ; saturate(5)=1
			want: map[Key][]byte{k(0): f32s(-2, -1, -1, 2, -3, 0.75, 0.75, 3.5, -1, 0, 1, 2, 3, 3, 1, 0, 4, 10, 0.5, 0.5, 8, 3, 8, 1.5, 1)},
		},
		{
			name:     "float_rem_negative",
			knownBad: true,
			note:     "WGSL f32 % is the truncated remainder (-7.5 % 3 = -1.5, sign of the dividend); naga emits OpFMod (floored, sign of the divisor) which gives 1.5",
			src: hdrOF + `
@compute @workgroup_size(1) fn main() { o[0] = a[0] % a[1]; o[1] = a[2] % a[3]; }`,
			in:   io(f32s(0, 0), f32s(-7.5, 3, 7.5, -3)),
			want: map[Key][]byte{k(0): f32s(-1.5, 1.5)},
		},
		{
			name:       "round_tie",
			note:       "WGSL round() is ties-to-even; naga emits GLSL.std.450 Round whose tie direction is implementation defined (known candidate)",
			wantPoison: "poison stored",
			src: hdrOF + `
@compute @workgroup_size(1) fn main() { o[0] = round(a[0]); }`,
			in: io(f32s(0), f32s(2.5)),
		},
		{
			name: "vectors_swizzle",
			src: hdrOF + `
@compute @workgroup_size(1) fn main() {
  let v = vec4<f32>(a[0], a[1], a[2], a[3]);
  let r = v.wzyx;
  o[0] = r.x; o[1] = r.y; o[2] = r.z; o[3] = r.w;
  let s = v.xy + v.zw;
  o[4] = s.x; o[5] = s.y;
  let t = v.zzz * 2.0;
  o[6] = t.x; o[7] = t.y; o[8] = t.z;
  o[9] = dot(v.xyz, v.yzw);
  var w = v;
  w.y = 9.0;
  w = vec4<f32>(w.xy, 7.0, w.x);
  o[10] = w.x; o[11] = w.y; o[12] = w.z; o[13] = w.w;
  let c = cross(vec3<f32>(a[0], 0.0, 0.0), vec3<f32>(0.0, a[1], 0.0));
  o[14] = c.x; o[15] = c.y; o[16] = c.z;
  o[17] = length(v.zw);
  let n = normalize(v.zw);
  o[18] = n.x; o[19] = n.y;
  o[20] = distance(v.xy, v.zw + vec2<f32>(1.0, 2.0));
  let rf = reflect(vec2<f32>(a[0], -a[0]), vec2<f32>(0.0, 1.0));
  o[21] = rf.x; o[22] = rf.y;
  let ff = faceForward(vec2<f32>(a[0], a[1]), vec2<f32>(0.0, 1.0), vec2<f32>(0.0, 1.0));
  o[23] = ff.x; o[24] = ff.y;
}`,
			in: io(f32s(make([]float32, 25)...), f32s(1, 2, 3, 4)),
			// wzyx = 4,3,2,1 ; xy+zw=(4,6) ; zzz*2=(6,6,6) ; dot((1,2,3),(2,3,4)) = 2+6+12 = 20
			// w = (1,9,7,1) ; cross((1,0,0),(0,2,0)) = (0,0,2) ; length(3,4)=5 ; normalize = (0.6,0.8)
			// distance((1,2),(4,6)) = 5 ; reflect((1,-1),(0,1)) = (1,-1) - 2*(-1)*(0,1) = (1,1)
			// faceForward(N=(1,2), I=(0,1), Nref=(0,1)): dot(Nref,I)=1 >= 0 -> -N = (-1,-2)
			want: map[Key][]byte{k(0): f32s(4, 3, 2, 1, 4, 6, 6, 6, 6, 20, 1, 9, 7, 1, 0, 0, 2, 5, 0.6, 0.8, 5, 1, 1, -1, -2)},
		},
		{
			name: "matrices",
			src: hdrOF + `
struct M { m: mat2x3<f32>, q: mat2x2<f32> }
@group(0) @binding(2) var<storage, read> mm: M;
@compute @workgroup_size(1) fn main() {
  let q = mm.q;
  let v = vec2<f32>(a[0], a[1]);
  let qv = q * v;   o[0] = qv.x; o[1] = qv.y;
  let vq = v * q;   o[2] = vq.x; o[3] = vq.y;
  let qq = q * q;   o[4] = qq[0].x; o[5] = qq[0].y; o[6] = qq[1].x; o[7] = qq[1].y;
  let tq = transpose(q); o[8] = tq[0].x; o[9] = tq[0].y; o[10] = tq[1].x; o[11] = tq[1].y;
  o[12] = determinant(q);
  let m = mm.m;
  let mv = m * vec2<f32>(1.0, 2.0); o[13] = mv.x; o[14] = mv.y; o[15] = mv.z;
  let vm = vec3<f32>(1.0, 1.0, 1.0) * m; o[16] = vm.x; o[17] = vm.y;
  let tm = m[0].xy + 2.0 * m[1].yz; o[18] = tm.x; o[19] = tm.y;
  let sm = m * 2.0; o[20] = sm[1].z;
  let pm = q + q; o[21] = pm[1].x;
  o[22] = mm.m[1][2]; o[23] = mm.m[0].y;
  let mq = m * q; o[24] = mq[0].x; o[25] = mq[1].z;
}`,
			in: func() map[Key][]byte {
				return map[Key][]byte{k(0): f32s(make([]float32, 26)...), k(1): f32s(5, 6),
					// mat2x3 columns (1,2,3),(4,5,6) with column stride 16; mat2x2 columns (1,2),(3,4) at offset 32, stride 8
					k(2): f32s(1, 2, 3, 99, 4, 5, 6, 99, 1, 2, 3, 4)}
			},
			// q*v = 5*(1,2)+6*(3,4) = (23,34); v*q = (5+12, 15+24) = (17,39); q*q = ((7,10),(15,22));
			// transpose = ((1,3),(2,4)); det = 1*4-3*2 = -2; m*(1,2) = (9,12,15); (1,1,1)*m = (6,15);
			// (1,2)+2*(5,6) = (11,14); (m*2)[1].z = 12; (q+q)[1].x = 6; m[1][2]=6; m[0].y=2
			// m*q: col0 = 1*c0+2*c1 = (9,12,15) -> x=9; col1 = 3*c0+4*c1 = (19,26,33) -> z=33
			want: map[Key][]byte{k(0): f32s(23, 34, 17, 39, 7, 10, 15, 22, 1, 3, 2, 4, -2, 9, 12, 15, 6, 15, 11, 14, 12, 6, 6, 2, 9, 33)},
		},
		{
			name:     "transpose_times_vector_type",
			knownBad: true,
			note:     "transpose of a non-square matrix keeps the operand's column type in later typing: transpose(mat2x3)*vec3 declares result vec3<f32> instead of vec2<f32>, and transpose(m)[0] extracts a vec3 from a mat3x2 (invalid SPIR-V)",
			src: hdrOF + `
struct M { m: mat2x3<f32> }
@group(0) @binding(2) var<storage, read> mm: M;
@compute @workgroup_size(1) fn main() {
  let tm = transpose(mm.m) * vec3<f32>(1.0, 0.0, 2.0); o[0] = tm.x; o[1] = tm.y;
}`,
			in: func() map[Key][]byte {
				return map[Key][]byte{k(0): f32s(0, 0), k(1): f32s(0), k(2): f32s(1, 2, 3, 99, 4, 5, 6, 99)}
			},
			want: map[Key][]byte{k(0): f32s(7, 16)},
		},
		{
			name: "pack_unpack",
			src: hdrOA + `
@group(0) @binding(2) var<storage, read_write> g: array<f32>;
@compute @workgroup_size(1) fn main() {
  o[0] = pack4x8unorm(vec4<f32>(0.0, 1.0, 0.2, 0.6));
  o[1] = pack4x8snorm(vec4<f32>(-1.0, 1.0, 0.0, -0.25));
  o[2] = pack2x16unorm(vec2<f32>(1.0, 0.0));
  o[3] = pack2x16snorm(vec2<f32>(-1.0, 1.0));
  o[4] = pack2x16float(vec2<f32>(1.0, -2.0));
  o[5] = pack4x8unorm(vec4<f32>(2.0, -1.0, 1.0, 0.0));
  let u = unpack4x8unorm(a[0]);  g[0] = u.x; g[1] = u.y; g[2] = u.z; g[3] = u.w;
  let h = unpack2x16float(a[1]); g[4] = h.x; g[5] = h.y;
  let s = unpack4x8snorm(a[2]);  g[6] = s.x; g[7] = s.y; g[8] = s.z; g[9] = s.w;
  let t = unpack2x16snorm(a[3]); g[10] = t.x; g[11] = t.y;
  let w = unpack2x16unorm(a[4]); g[12] = w.x; g[13] = w.y;
}`,
			in: func() map[Key][]byte {
				return map[Key][]byte{k(0): u32s(0, 0, 0, 0, 0, 0), k(1): u32s(0xFF000080, 0x3C00C000, 0x00007F81, 0x80004000, 0xFFFF0000), k(2): f32s(make([]float32, 14)...)}
			},
			// unorm: 0,255,51,153 -> 0x9933FF00 ; snorm: -127=0x81, 127=0x7F, 0, round(-31.75)=-32=0xE0 -> 0xE0007F81
			// 0x0000FFFF ; 0x7FFF8001 ; half(1.0)=0x3C00, half(-2.0)=0xC000 -> 0xC0003C00 ; clamped: 255,0,255,0 -> 0x00FF00FF
			want: map[Key][]byte{
				k(0): u32s(0x9933FF00, 0xE0007F81, 0x0000FFFF, 0x7FFF8001, 0xC0003C00, 0x00FF00FF),
				k(2): f32s(float32(128)/float32(255), 0, 0, 1, -2, 1, -1, 1, 0, 0, float32(16384)/float32(32767), -1, 0, 1),
			},
		},
		{
			name: "modf_frexp_ldexp",
			src: hdrOF + `
@group(0) @binding(2) var<storage, read_write> e: array<i32>;
@compute @workgroup_size(1) fn main() {
  let m = modf(a[0]); o[0] = m.fract; o[1] = m.whole;
  let f = frexp(a[1]); o[2] = f.fract; e[0] = f.exp;
  o[3] = ldexp(a[2], e[1]);
  let mv = modf(vec2<f32>(a[3], a[0])); o[4] = mv.fract.x; o[5] = mv.whole.x; o[6] = mv.fract.y;
}`,
			in: func() map[Key][]byte {
				return map[Key][]byte{k(0): f32s(make([]float32, 7)...), k(1): f32s(1.75, 8, 0.75, -2.5), k(2): i32s(0, 3)}
			},
			// modf(1.75) = (.75, 1) ; frexp(8) = (.5, 4) ; ldexp(.75, 3) = 6 ; modf(-2.5) = (-.5, -2)
			want: map[Key][]byte{k(0): f32s(0.75, 1, 0.5, 6, -0.5, -2, 0.75), k(2): i32s(4, 3)},
		},
		{
			name: "transcendental_exact_points",
			src: hdrOF + `
@compute @workgroup_size(1) fn main() {
  o[0] = sin(a[0]); o[1] = cos(a[0]); o[2] = exp(a[0]); o[3] = log(a[1]); o[4] = atan2(a[0], a[1]);
  o[5] = tan(a[0]); o[6] = asin(a[0]); o[7] = acos(a[1]); o[8] = sinh(a[0]); o[9] = cosh(a[0]); o[10] = tanh(a[0]);
  o[11] = degrees(a[0]); o[12] = radians(a[0]); o[13] = atan(a[0]);
}`,
			in:   io(f32s(make([]float32, 14)...), f32s(0, 1)),
			want: map[Key][]byte{k(0): f32s(0, 1, 1, 0, 0, 0, 0, 0, 0, 1, 0, 0, 0, 0)},
		},
		{
			name: "f16_arithmetic",
			src: `
enable f16;
@group(0) @binding(0) var<storage, read_write> o: array<f16>;
@group(0) @binding(1) var<storage, read> a: array<f16>;
@group(0) @binding(2) var<storage, read> f: array<f32>;
@group(0) @binding(3) var<storage, read_write> g: array<f32>;
@compute @workgroup_size(1) fn main() {
  o[0] = a[0] * a[1] + a[2];
  o[1] = sqrt(a[3]);
  o[2] = f16(i32(a[0]) + 1);
  o[3] = f16(f[0]);
  o[4] = f16(f[1]);
  g[0] = f32(a[0]) + 0.25;
  let v = vec2<f16>(a[0], a[1]) * a[1];
  o[5] = v.x; o[6] = v.y;
  o[7] = a[4] + a[5];
}`,
			in: func() map[Key][]byte {
				return map[Key][]byte{k(0): u16s(0, 0, 0, 0, 0, 0, 0, 0), k(1): u16s(0x3E00, 0x4000, 0x3400, 0x4880, 0x6800, 0x3C00), k(2): f32s(0.1, 2049), k(3): f32s(0)}
			},
			// 1.5*2+.25 = 3.25 (0x4280); sqrt(9)=3 (0x4200); f16(1+1)=2 (0x4000); f16(0.1f)=0x2E66; f16(2049)= tie -> even 2048 (0x6800)
			// (1.5,2)*2 = (3,4) = 0x4200,0x4400 ; 2048+1 in binary16 = tie -> 2048 (0x6800) ; f32(1.5)+.25 = 1.75
			want: map[Key][]byte{k(0): u16s(0x4280, 0x4200, 0x4000, 0x2E66, 0x6800, 0x4200, 0x4400, 0x6800), k(3): f32s(1.75)},
		},
		{
			name: "float_inf_nan_ordinary",
			src: hdrOA + `
@group(0) @binding(2) var<storage, read> f: array<f32>;
@compute @workgroup_size(1) fn main() {
  let big = f[0] * f[0];
  o[0] = bitcast<u32>(big);
  o[1] = select(0u, 1u, big > f[0]);
  o[2] = bitcast<u32>(-big);
}`,
			in: func() map[Key][]byte {
				return map[Key][]byte{k(0): u32s(0, 0, 0), k(1): u32s(0), k(2): f32s(float32(math.MaxFloat32))}
			},
			want: map[Key][]byte{k(0): u32s(0x7F800000, 1, 0xFF800000)},
		},
	}
}
