package spv

import (
	"fmt"
	"math"
	"strings"
)

const (
	kUnset uint8 = iota
	kScalar
	kComposite
	kPointer
)

// Value is an interpreter value.  Scalars keep their raw bits (bool 0/1; integers
// masked to their width; floats as IEEE bits of their width) plus a poison flag.
// Values held in SSA ids are immutable; memory cells are separate deep copies.
type Value struct {
	K      uint8
	Poison bool
	Bits   uint64
	Elems  []Value
	Ptr    *Pointer
}

// Pointer is either a reference to a typed memory cell (Private / Function /
// Workgroup / Input) or a byte address inside a bound buffer.
type Pointer struct {
	Cell    *Value
	Buf     *boundBuffer
	Off     int64
	Type    uint32 // pointee type
	Storage uint32
	// layout context inherited from the enclosing struct member
	MatStride  uint32
	RowMajor   bool
	CompStride uint32 // != 0: vector whose components are this many bytes apart (row-major column)
	Root       uint32 // variable id, for messages
}

type boundBuffer struct {
	key     Key
	data    []byte
	missing bool
	push    bool
	varID   uint32
}

func sc(bits uint64) Value  { return Value{K: kScalar, Bits: bits} }
func poisonSc() Value       { return Value{K: kScalar, Poison: true} }
func boolV(b bool) Value    { return Value{K: kScalar, Bits: b2u(b)} }
func comp(es []Value) Value { return Value{K: kComposite, Elems: es} }
func ptrV(p *Pointer) Value { return Value{K: kPointer, Ptr: p} }
func b2u(b bool) uint64 {
	if b {
		return 1
	}
	return 0
}

func (v Value) anyPoison() bool {
	if v.Poison {
		return true
	}
	for i := range v.Elems {
		if v.Elems[i].anyPoison() {
			return true
		}
	}
	return false
}

func (v Value) deepCopy() Value {
	if v.K != kComposite {
		return v
	}
	es := make([]Value, len(v.Elems))
	for i := range v.Elems {
		es[i] = v.Elems[i].deepCopy()
	}
	return Value{K: kComposite, Elems: es}
}

// assign copies src into the cell dst (same shape) without reallocating dst's
// element slices, so pointers into dst stay valid.
func assign(dst *Value, src Value) {
	if src.K != kComposite || dst.K != kComposite || len(dst.Elems) != len(src.Elems) {
		*dst = src.deepCopy()
		return
	}
	for i := range src.Elems {
		assign(&dst.Elems[i], src.Elems[i])
	}
}

func allPoison(v Value) Value {
	if v.K == kComposite {
		es := make([]Value, len(v.Elems))
		for i := range es {
			es[i] = allPoison(v.Elems[i])
		}
		return comp(es)
	}
	v.Poison = true
	return v
}

func (v Value) String() string {
	switch v.K {
	case kUnset:
		return "<unset>"
	case kScalar:
		if v.Poison {
			return "poison"
		}
		return fmt.Sprintf("%#x", v.Bits)
	case kPointer:
		return "<ptr>"
	}
	var sb strings.Builder
	sb.WriteByte('(')
	for i, e := range v.Elems {
		if i > 0 {
			sb.WriteByte(' ')
		}
		sb.WriteString(e.String())
	}
	sb.WriteByte(')')
	return sb.String()
}

// ------------------------------------------------------------ scalar helpers

func maskW(w uint32) uint64 {
	if w >= 64 {
		return ^uint64(0)
	}
	return (uint64(1) << w) - 1
}

func sext(bits uint64, w uint32) int64 {
	if w >= 64 {
		return int64(bits)
	}
	sh := 64 - w
	return int64(bits<<sh) >> sh
}

// fdec decodes float bits of the given width to float64 (exact).
func fdec(bits uint64, w uint32) float64 {
	switch w {
	case 16:
		return float64(halfToFloat32(uint16(bits)))
	case 32:
		return float64(math.Float32frombits(uint32(bits)))
	}
	return math.Float64frombits(bits)
}

// fenc rounds a float64 to the given width (round to nearest even) and returns bits.
// For + - * / sqrt on operands of width 16 or 32 computed exactly-rounded in float64
// the double rounding is innocuous (53 >= 2p+2).
func fenc(f float64, w uint32) uint64 {
	switch w {
	case 16:
		return uint64(float64ToHalf(f))
	case 32:
		return uint64(math.Float32bits(float32(f)))
	}
	return math.Float64bits(f)
}

func fIsNaN(bits uint64, w uint32) bool {
	f := fdec(bits, w)
	return f != f
}
