package spv

func casesMemory() []execCase {
	return []execCase{
		{
			name: "struct_vec3_padding",
			src: `
struct P { pos: vec3<f32>, id: u32, vel: vec3<f32>, pad: f32 }
struct Buf { count: u32, items: array<P, 2>, tail: vec3<u32> }
@group(0) @binding(0) var<storage, read_write> buf: Buf;
@compute @workgroup_size(1) fn main() {
  buf.items[1].pos = buf.items[0].vel + vec3<f32>(1.0, 1.0, 1.0);
  buf.items[1].id = buf.count + 5u;
  buf.tail = vec3<u32>(7u, 8u, 9u);
  buf.items[0] = P(vec3<f32>(9.0, 9.0, 9.0), 3u, vec3<f32>(8.0, 8.0, 8.0), 2.0);
}`,
			// layout: count@0 (pad 4..15), items@16 stride 32 {pos@0,id@12,vel@16,pad@28}, tail@80 (pad 92..95), size 96
			in: func() map[Key][]byte {
				b := cat(u32s(2), fill(12, 0xAA),
					f32s(1, 2, 3), u32s(11), f32s(4, 5, 6), f32s(0.5),
					fill(32, 0xAA),
					fill(16, 0xAA))
				return map[Key][]byte{k(0): b}
			},
			want: map[Key][]byte{k(0): cat(u32s(2), fill(12, 0xAA),
				f32s(9, 9, 9), u32s(3), f32s(8, 8, 8), f32s(2),
				f32s(5, 6, 7), u32s(7), fill(16, 0xAA),
				u32s(7, 8, 9), fill(4, 0xAA))},
		},
		{
			name: "runtime_array_length",
			src: `
struct B { n: u32, data: array<vec2<u32>> }
@group(0) @binding(0) var<storage, read_write> b: B;
@compute @workgroup_size(1) fn main() {
  let len = arrayLength(&b.data);
  b.n = len;
  for (var i = 0u; i < len; i++) { b.data[i] = vec2<u32>(i, len - i); }
}`,
			in:   func() map[Key][]byte { return map[Key][]byte{k(0): make([]byte, 8+8*5)} },
			want: map[Key][]byte{k(0): u32s(5, 0, 0, 5, 1, 4, 2, 3, 3, 2, 4, 1)},
		},
		{
			name: "uniform_buffer",
			src: `
struct U { a: vec4<f32>, arr: array<vec4<u32>, 2>, s: f32 }
@group(0) @binding(1) var<uniform> u: U;
@group(0) @binding(0) var<storage, read_write> o: array<f32>;
@compute @workgroup_size(1) fn main() {
  o[0] = u.a.x + u.a.w;
  o[1] = f32(u.arr[1].z + u.arr[0].y);
  o[2] = u.s;
}`,
			in: func() map[Key][]byte {
				return map[Key][]byte{k(0): f32s(0, 0, 0), k(1): cat(f32s(1, 2, 3, 4), u32s(10, 20, 30, 40, 50, 60, 70, 80), f32s(2.5), fill(12, 0))}
			},
			want: map[Key][]byte{k(0): f32s(5, 90, 2.5)},
		},
		{
			name: "nested_arrays_and_vec3_array",
			src: `
struct B { g: array<array<u32, 3>, 2>, v: array<vec3<f32>, 2> }
@group(0) @binding(0) var<storage, read_write> b: B;
@group(0) @binding(1) var<storage, read> a: array<u32>;
@compute @workgroup_size(1) fn main() {
  b.g[a[0]][a[1]] = b.g[0][0] + 100u;
  b.v[a[0]] = b.v[0].zyx;
  b.v[0].y = 42.0;
  let whole = b.g[0];
  b.g[0] = array<u32, 3>(whole[2], whole[1], whole[0]);
}`,
			// g: 2 x (3 x u32) = 24 bytes @0; v @32 (align 16) stride 16, size 32 -> total 64
			in: func() map[Key][]byte {
				return map[Key][]byte{k(0): cat(u32s(1, 2, 3, 4, 5, 6), fill(8, 0xAA), f32s(7, 8, 9), fill(4, 0xAA), f32s(0, 0, 0), fill(4, 0xAA)), k(1): u32s(1, 2)}
			},
			want: map[Key][]byte{k(0): cat(u32s(3, 2, 1, 4, 5, 101), fill(8, 0xAA), f32s(7, 42, 9), fill(4, 0xAA), f32s(9, 8, 7), fill(4, 0xAA))},
		},
		{
			name: "matrix_store_padding",
			src: `
struct B { m: mat3x3<f32>, n: mat2x2<f32> }
@group(0) @binding(0) var<storage, read_write> b: B;
@compute @workgroup_size(1) fn main() {
  let t = transpose(b.m);
  b.m = t;
  b.n[1] = b.n[0] * 2.0;
  b.m[2].y = 77.0;
}`,
			// m: 3 columns, stride 16 (48 bytes); n @48: 2 columns stride 8
			in: func() map[Key][]byte {
				return map[Key][]byte{k(0): cat(f32s(1, 2, 3), fill(4, 0xAA), f32s(4, 5, 6), fill(4, 0xAA), f32s(7, 8, 9), fill(4, 0xAA), f32s(1, 2, 0, 0))}
			},
			want: map[Key][]byte{k(0): cat(f32s(1, 4, 7), fill(4, 0xAA), f32s(2, 5, 8), fill(4, 0xAA), f32s(3, 77, 9), fill(4, 0xAA), f32s(1, 2, 2, 4))},
		},
		{
			name:     "zero_init_vars",
			knownBad: true,
			note:     "WGSL zero-initialises variables declared without initializer; naga emits function and private OpVariables without initializer (undefined contents); only workgroup memory is zeroed",
			src: hdrOA + `
struct S { x: u32, v: vec2<f32> }
var<private> p: u32;
var<private> ps: S;
var<workgroup> w: array<u32, 3>;
@compute @workgroup_size(1) fn main() {
  var x: u32;
  var arr: array<u32, 4>;
  var s: S;
  o[0] = x + 1u;
  o[1] = arr[a[0]] + 2u;
  o[2] = s.x + u32(s.v.y) + 3u;
  o[3] = p + 4u;
  o[4] = ps.x + u32(ps.v.x) + 5u;
  o[5] = w[a[0]] + 6u;
}`,
			in:   io(u32s(9, 9, 9, 9, 9, 9), u32s(2)),
			want: map[Key][]byte{k(0): u32s(1, 2, 3, 4, 5, 6)},
		},
		{
			name:     "private_initializer",
			knownBad: true,
			note:     "var<private> x: i32 = 3; is emitted as OpVariable Private without initializer: the initial value is lost",
			src: hdrOA + `
var<private> pv: i32 = 3;
var<private> pa: array<u32, 2> = array<u32, 2>(10u, 20u);
@compute @workgroup_size(1) fn main() {
  o[0] = u32(pv);
  o[1] = pa[a[0]];
  pv = pv + 1;
  o[2] = u32(pv);
}`,
			in:   io(u32s(9, 9, 9), u32s(1)),
			want: map[Key][]byte{k(0): u32s(3, 20, 4)},
		},
		{
			name: "dynamic_indexing",
			src: hdrOA + `
@compute @workgroup_size(1) fn main() {
  let v = vec4<u32>(10u, 20u, 30u, 40u);
  o[0] = v[a[0]];
  var arr = array<u32, 4>(1u, 2u, 3u, 4u);
  arr[a[1]] = 9u;
  o[1] = arr[a[0]] + arr[a[1]];
  var m = mat2x2<f32>(1.0, 2.0, 3.0, 4.0);
  m[a[2]][a[2]] = 8.0;
  o[2] = u32(m[1][1] + m[a[2]][0]);
  var w = vec3<u32>(1u, 2u, 3u);
  w[a[0]] = 7u;
  o[3] = w.x + w.y * 10u + w.z * 100u;
  let la = array<u32, 3>(5u, 6u, 7u);
  o[4] = la[a[1]];
}`,
			in: io(u32s(0, 0, 0, 0, 0), u32s(2, 0, 1)),
			// v[2]=30 ; arr=(9,2,3,4): arr[2]+arr[0] = 12 ; m[1][1]=8, m[1][0]=3 -> 11 ; w=(1,2,7) -> 1+20+700=721 ; la[0]=5
			want: map[Key][]byte{k(0): u32s(30, 12, 11, 721, 5)},
		},
		{
			name: "value_semantics",
			src: hdrOA + `
struct S { x: u32, arr: array<u32, 2> }
@compute @workgroup_size(1) fn main() {
  var s = S(1u, array<u32, 2>(2u, 3u));
  var t = s;
  t.x = 5u;
  t.arr[1] = 6u;
  o[0] = s.x; o[1] = s.arr[1]; o[2] = t.x; o[3] = t.arr[1];
  var ss = array<S, 2>(s, t);
  ss[a[0]].arr[a[0]] = 8u;
  o[4] = ss[1].arr[1]; o[5] = ss[0].arr[1]; o[6] = t.arr[1];
}`,
			in:   io(u32s(0, 0, 0, 0, 0, 0, 0), u32s(1)),
			want: map[Key][]byte{k(0): u32s(1, 3, 5, 6, 8, 3, 6)},
		},
		{
			name: "pointers",
			src: hdrOA + `
fn bump(p: ptr<function, u32>, by: u32) { *p = *p + by; }
fn swap(v: ptr<function, vec2<u32>>) { let t = (*v).x; (*v).x = (*v).y; (*v).y = t; }
fn sum(p: ptr<function, array<u32, 3>>) -> u32 { return (*p)[0] + (*p)[1] + (*p)[2]; }
@compute @workgroup_size(1) fn main() {
  var x = 5u;
  bump(&x, 3u);
  bump(&x, x);
  o[0] = x;
  var v = vec2<u32>(1u, 2u);
  swap(&v);
  o[1] = v.x * 10u + v.y;
  o[2] = 78u;
  var loc = array<u32, 3>(1u, 2u, 3u);
  let q = &loc[a[0]];
  *q = 9u;
  o[3] = sum(&loc);
}`,
			in:   io(u32s(0, 0, 0, 0), u32s(1)),
			want: map[Key][]byte{k(0): u32s(16, 21, 78, 13)},
		},
		{
			name:     "private_pointer_param",
			knownBad: true,
			note:     "indexing through a ptr<private,...> parameter emits OpAccessChain with a Function-class result pointer type on a Private-class base (invalid SPIR-V)",
			src: hdrOA + `
var<private> g: array<u32, 3>;
fn setg(p: ptr<private, array<u32, 3>>, i: u32, v: u32) { (*p)[i] = v; }
@compute @workgroup_size(1) fn main() {
  g = array<u32, 3>(0u, 0u, 0u);
  setg(&g, a[0], 77u);
  g[0] = 1u;
  g[2] = g[1] + g[0];
  o[0] = g[2];
}`,
			in:   io(u32s(0), u32s(1)),
			want: map[Key][]byte{k(0): u32s(78)},
		},
		{
			name: "short_circuit_and_compound",
			src: hdrOA + `
var<private> hits: u32;
var<private> idx: u32;
fn side() -> bool { hits += 1u; return true; }
fn next() -> u32 { idx += 1u; return idx - 1u; }
@compute @workgroup_size(1) fn main() {
  hits = 0u; idx = 0u;
  let f = a[0] > 5u;
  let t = a[0] < 5u;
  let r1 = f && side();
  let r2 = t || side();
  o[0] = hits;
  let r3 = t && side();
  let r4 = f || side();
  o[1] = hits;
  o[2] = select(0u, 1u, r1) + select(0u, 2u, r2) + select(0u, 4u, r3) + select(0u, 8u, r4);
  var arr = array<u32, 3>(10u, 20u, 30u);
  arr[next()] += 5u;
  o[3] = idx; o[4] = arr[0]; o[5] = arr[1];
}`,
			in:   io(u32s(9, 9, 9, 9, 9, 9), u32s(1)),
			want: map[Key][]byte{k(0): u32s(0, 2, 14, 1, 15, 20)},
		},
	}
}
