package spv

import (
	"testing"

	"github.com/gogpu/naga/spirv"
)

func benchCase(b *testing.B, name string) (execCase, []byte) {
	for _, c := range execCases() {
		if c.name == name {
			bin, err := compileWGSL(c.src, spirv.Version1_3, false)
			if err != nil {
				b.Fatal(err)
			}
			return c, bin
		}
	}
	b.Fatalf("no case %s", name)
	return execCase{}, nil
}

func BenchmarkParseValidate(b *testing.B) {
	_, bin := benchCase(b, "switch")
	b.ReportAllocs()
	for i := 0; i < b.N; i++ {
		m, err := Parse(bin)
		if err != nil {
			b.Fatal(err)
		}
		if is := Validate(m); len(is) != 0 {
			b.Fatal(is)
		}
	}
}

func BenchmarkParseRun(b *testing.B) {
	c, bin := benchCase(b, "prefix_sum_barriers_in_loop")
	b.ReportAllocs()
	var steps int64
	for i := 0; i < b.N; i++ {
		m, err := Parse(bin)
		if err != nil {
			b.Fatal(err)
		}
		res, err := Run(m, RunConfig{Entry: "main", Buffers: c.in(), NumWorkgroups: [3]uint32{1, 1, 1}})
		if err != nil || res.Trap != "" {
			b.Fatal(err, res.Trap)
		}
		steps = res.Steps
	}
	b.ReportMetric(float64(steps), "steps/run")
}
