package spv

import (
	"encoding/binary"
	"strings"
	"testing"
)

// A tiny assembler for hand-built modules exercising features naga does not emit.
type asm struct {
	ws   [][]uint32
	next uint32
	ver  uint32
}

func newAsm(minor uint32) *asm { return &asm{next: 1, ver: 0x00010000 | minor<<8} }
func (a *asm) id() uint32      { a.next++; return a.next - 1 }
func (a *asm) op(op uint16, ws ...uint32) {
	a.ws = append(a.ws, append([]uint32{uint32(op)}, ws...))
}
func (a *asm) r(op uint16, ws ...uint32) uint32 { // "R ..." instructions
	id := a.id()
	a.op(op, append([]uint32{id}, ws...)...)
	return id
}
func (a *asm) tr(op uint16, t uint32, ws ...uint32) uint32 { // "T R ..." instructions
	id := a.id()
	a.op(op, append([]uint32{t, id}, ws...)...)
	return id
}
func sw(s string) []uint32 {
	b := append([]byte(s), 0)
	for len(b)%4 != 0 {
		b = append(b, 0)
	}
	out := make([]uint32, len(b)/4)
	for i := range out {
		out[i] = binary.LittleEndian.Uint32(b[4*i:])
	}
	return out
}
func (a *asm) bytes() []byte {
	ws := []uint32{Magic, a.ver, 0, a.next, 0}
	for _, in := range a.ws {
		w := append([]uint32(nil), in...)
		w[0] = uint32(len(w))<<16 | w[0]
		ws = append(ws, w...)
	}
	b := make([]byte, 4*len(ws))
	for i, w := range ws {
		binary.LittleEndian.PutUint32(b[4*i:], w)
	}
	return b
}

// prologue emits capability/memory model/entry point for a compute shader "main"
// with LocalSize (1,1,1); returns the id reserved for the function.
func (a *asm) prologue(iface ...uint32) uint32 {
	fn := a.id()
	a.op(OpCapability, 1)
	a.op(OpMemoryModel, 0, 1)
	a.op(OpEntryPoint, append(append([]uint32{EMGLCompute, fn}, sw("main")...), iface...)...)
	a.op(OpExecutionMode, fn, XMLocalSize, 1, 1, 1)
	return fn
}

func TestAsmBufferBlockRowMajorPhi(t *testing.T) {
	a := newAsm(0)
	// reserve ids used by decorations
	st, arr, v := a.id(), a.id(), a.id()
	fn := a.prologue()
	a.op(OpDecorate, st, DecBufferBlock)
	a.op(OpMemberDecorate, st, 0, DecOffset, 0)
	a.op(OpMemberDecorate, st, 0, DecRowMajor)
	a.op(OpMemberDecorate, st, 0, DecMatrixStride, 8)
	a.op(OpMemberDecorate, st, 1, DecOffset, 16)
	a.op(OpDecorate, arr, DecArrayStride, 4)
	a.op(OpDecorate, v, DecDescriptorSet, 0)
	a.op(OpDecorate, v, DecBinding, 0)
	void := a.r(OpTypeVoid)
	f32 := a.r(OpTypeFloat, 32)
	i32 := a.r(OpTypeInt, 32, 1)
	boolT := a.r(OpTypeBool)
	v2 := a.r(OpTypeVector, f32, 2)
	m2 := a.r(OpTypeMatrix, v2, 2)
	a.op(OpTypeRuntimeArray, arr, i32)
	a.op(OpTypeStruct, st, m2, arr)
	pst := a.r(OpTypePointer, SCUniform, st)
	pm := a.r(OpTypePointer, SCUniform, m2)
	pi := a.r(OpTypePointer, SCUniform, i32)
	fnT := a.r(OpTypeFunction, void)
	c := func(x int32) uint32 { return a.tr(OpConstant, i32, uint32(x)) }
	c0, c1, c2, c3, c4, c5, cm7 := c(0), c(1), c(2), c(3), c(4), c(5), c(-7)
	a.op(OpVariable, pst, v, SCUniform)
	a.op(OpFunction, void, fn, 0, fnT)
	entry, header, body, cont, merge := a.id(), a.id(), a.id(), a.id(), a.id()
	a.op(OpLabel, entry)
	mp := a.tr(OpAccessChain, pm, v, c0)
	mv := a.tr(OpLoad, m2, mp)
	col1 := a.tr(OpCompositeExtract, v2, mv, 1)
	x := a.tr(OpCompositeExtract, f32, col1, 0)
	y := a.tr(OpCompositeExtract, f32, col1, 1)
	xi := a.tr(OpConvertFToS, i32, x)
	yi := a.tr(OpConvertFToS, i32, y)
	p0 := a.tr(OpAccessChain, pi, v, c1, c0)
	a.op(OpStore, p0, xi)
	p1 := a.tr(OpAccessChain, pi, v, c1, c1)
	a.op(OpStore, p1, yi)
	a.op(OpBranch, header)
	a.op(OpLabel, header)
	iNext, sNext := a.id(), a.id()
	iPhi := a.tr(OpPhi, i32, c0, entry, iNext, cont)
	sPhi := a.tr(OpPhi, i32, c0, entry, sNext, cont)
	cond := a.tr(OpSLessThan, boolT, iPhi, c5)
	a.op(OpLoopMerge, merge, cont, 0)
	a.op(OpBranchConditional, cond, body, merge)
	a.op(OpLabel, body)
	a.op(OpIAdd, i32, sNext, sPhi, iPhi)
	a.op(OpBranch, cont)
	a.op(OpLabel, cont)
	a.op(OpIAdd, i32, iNext, iPhi, c1)
	a.op(OpBranch, header)
	a.op(OpLabel, merge)
	p2 := a.tr(OpAccessChain, pi, v, c1, c2)
	a.op(OpStore, p2, sPhi)
	smod := a.tr(OpSMod, i32, cm7, c3)
	srem := a.tr(OpSRem, i32, cm7, c3)
	p3 := a.tr(OpAccessChain, pi, v, c1, c3)
	a.op(OpStore, p3, smod)
	p4 := a.tr(OpAccessChain, pi, v, c1, c4)
	a.op(OpStore, p4, srem)
	a.op(OpReturn)
	a.op(OpFunctionEnd)
	m, err := Parse(a.bytes())
	if err != nil {
		t.Fatal(err)
	}
	if is := Validate(m); len(is) != 0 {
		t.Errorf("validate: %v\n%s", is, m.Disassemble())
	}
	buf := cat(f32s(1, 2, 3, 4), i32s(0, 0, 0, 0, 0))
	res, err := Run(m, RunConfig{Entry: "main", Buffers: map[Key][]byte{{0, 0}: buf}, NumWorkgroups: [3]uint32{1, 1, 1}})
	if err != nil || res.Trap != "" || len(res.Poison) != 0 {
		t.Fatalf("run: %v %+v\n%s", err, res, m.Disassemble())
	}
	// row-major with stride 8: rows (1,2),(3,4) -> column 1 = (2,4); sum 0..4 = 10; SMod(-7,3)=2; SRem(-7,3)=-1
	got := getI32(buf[16:])
	want := []int32{2, 4, 10, 2, -1}
	for i := range want {
		if got[i] != want[i] {
			t.Errorf("arr[%d] = %d, want %d", i, got[i], want[i])
		}
	}
}

// trapModule builds: buffer {array<u32>} at (0,0); main does `body(a)`.
func trapModule(body func(a *asm, env map[string]uint32)) *asm {
	a := newAsm(3)
	st, arr, v := a.id(), a.id(), a.id()
	fn := a.prologue()
	a.op(OpDecorate, st, DecBlock)
	a.op(OpMemberDecorate, st, 0, DecOffset, 0)
	a.op(OpDecorate, arr, DecArrayStride, 4)
	a.op(OpDecorate, v, DecDescriptorSet, 0)
	a.op(OpDecorate, v, DecBinding, 0)
	env := map[string]uint32{"v": v}
	env["void"] = a.r(OpTypeVoid)
	env["u32"] = a.r(OpTypeInt, 32, 0)
	env["bool"] = a.r(OpTypeBool)
	a.op(OpTypeRuntimeArray, arr, env["u32"])
	a.op(OpTypeStruct, st, arr)
	pst := a.r(OpTypePointer, SCStorageBuffer, st)
	env["pu"] = a.r(OpTypePointer, SCStorageBuffer, env["u32"])
	env["pf"] = a.r(OpTypePointer, SCFunction, env["u32"])
	fnT := a.r(OpTypeFunction, env["void"])
	for i, n := range []string{"c0", "c1", "c2", "c3", "c40"} {
		val := uint32(i)
		if n == "c40" {
			val = 40
		}
		env[n] = a.tr(OpConstant, env["u32"], val)
	}
	env["true"] = a.tr(OpConstantTrue, env["bool"])
	a.op(OpVariable, pst, v, SCStorageBuffer)
	a.op(OpFunction, env["void"], fn, 0, fnT)
	body(a, env)
	a.op(OpFunctionEnd)
	return a
}

func runAsm(t *testing.T, a *asm, bufs map[Key][]byte, limit int64) (*Module, *RunResult, error) {
	t.Helper()
	m, err := Parse(a.bytes())
	if err != nil {
		t.Fatal(err)
	}
	res, err := Run(m, RunConfig{Entry: "main", Buffers: bufs, NumWorkgroups: [3]uint32{1, 1, 1}, StepLimit: limit})
	return m, res, err
}

func TestAsmTraps(t *testing.T) {
	// out of bounds store
	a := trapModule(func(a *asm, e map[string]uint32) {
		a.op(OpLabel, a.id())
		p := a.tr(OpAccessChain, e["pu"], e["v"], e["c0"], e["c40"])
		a.op(OpStore, p, e["c1"])
		a.op(OpReturn)
	})
	_, res, err := runAsm(t, a, map[Key][]byte{{0, 0}: make([]byte, 16)}, 0)
	if err != nil || !strings.Contains(res.Trap, "out-of-object access") {
		t.Errorf("oob store: %v %+v", err, res)
	}
	// missing buffer
	_, res, err = runAsm(t, a, map[Key][]byte{}, 0)
	if err != nil || !strings.Contains(res.Trap, "missing buffer") {
		t.Errorf("missing buffer: %v %+v", err, res)
	}
	// OpUnreachable
	a = trapModule(func(a *asm, e map[string]uint32) {
		a.op(OpLabel, a.id())
		a.op(OpUnreachable)
	})
	_, res, _ = runAsm(t, a, map[Key][]byte{{0, 0}: make([]byte, 16)}, 0)
	if !strings.Contains(res.Trap, "OpUnreachable") {
		t.Errorf("unreachable: %+v", res)
	}
	// infinite loop -> step limit
	a = trapModule(func(a *asm, e map[string]uint32) {
		entry, hdr, cont, merge := a.id(), a.id(), a.id(), a.id()
		a.op(OpLabel, entry)
		a.op(OpBranch, hdr)
		a.op(OpLabel, hdr)
		a.op(OpLoopMerge, merge, cont, 0)
		a.op(OpBranch, cont)
		a.op(OpLabel, cont)
		a.op(OpBranch, hdr)
		a.op(OpLabel, merge)
		a.op(OpReturn)
	})
	m, res, err := runAsm(t, a, map[Key][]byte{{0, 0}: make([]byte, 16)}, 1000)
	if err != ErrStepLimit || res.Steps < 1000 {
		t.Errorf("step limit: %v %+v", err, res)
	}
	if is := Validate(m); len(is) != 0 {
		t.Errorf("infinite loop module should be valid: %v", is)
	}
	// malformed control flow: jump into the middle of a selection construct
	a = trapModule(func(a *asm, e map[string]uint32) {
		entry, hdr, thenB, inner, merge := a.id(), a.id(), a.id(), a.id(), a.id()
		a.op(OpLabel, entry)
		a.op(OpBranch, inner) // enters the construct headed by hdr without passing hdr
		a.op(OpLabel, hdr)
		a.op(OpSelectionMerge, merge, 0)
		a.op(OpBranchConditional, e["true"], thenB, merge)
		a.op(OpLabel, thenB)
		a.op(OpBranch, inner)
		a.op(OpLabel, inner)
		a.op(OpBranch, merge)
		a.op(OpLabel, merge)
		a.op(OpReturn)
	})
	// (hdr is unreachable here, so statically `inner` is not inside any construct: this one is fine)
	_, res, _ = runAsm(t, a, map[Key][]byte{{0, 0}: make([]byte, 16)}, 0)
	if res.Trap != "" {
		t.Errorf("jump to a block whose construct header is unreachable must not trap: %+v", res)
	}
	// a real violation: branch from outside into a case of a reachable selection
	a = trapModule(func(a *asm, e map[string]uint32) {
		entry, sel1, t1, m1, sel2, t2, m2 := a.id(), a.id(), a.id(), a.id(), a.id(), a.id(), a.id()
		_ = sel1
		a.op(OpLabel, entry)
		a.op(OpSelectionMerge, m1, 0)
		a.op(OpBranchConditional, e["true"], t1, m1)
		a.op(OpLabel, t1)
		a.op(OpBranch, t2) // jumps into the second selection's arm
		a.op(OpLabel, m1)
		a.op(OpBranch, sel2)
		a.op(OpLabel, sel2)
		a.op(OpSelectionMerge, m2, 0)
		a.op(OpBranchConditional, e["true"], t2, m2)
		a.op(OpLabel, t2)
		a.op(OpBranch, m2)
		a.op(OpLabel, m2)
		a.op(OpReturn)
	})
	m, res, _ = runAsm(t, a, map[Key][]byte{{0, 0}: make([]byte, 16)}, 0)
	if !strings.Contains(res.Trap, "malformed control flow") {
		t.Errorf("branch into another construct: %+v\n%v", res, Validate(m))
	}
	found := false
	for _, is := range Validate(m) {
		if is.Rule == "cfg.structured-exit" {
			found = true
		}
	}
	if !found {
		t.Errorf("validator misses the irregular branch: %v", Validate(m))
	}
	// uninitialised function variable -> poison reaching a store; division by zero -> poison
	a = trapModule(func(a *asm, e map[string]uint32) {
		a.op(OpLabel, a.id())
		lv := a.tr(OpVariable, e["pf"], SCFunction)
		x := a.tr(OpLoad, e["u32"], lv)
		p := a.tr(OpAccessChain, e["pu"], e["v"], e["c0"], e["c0"])
		a.op(OpStore, p, x)
		d := a.tr(OpUDiv, e["u32"], e["c3"], e["c0"])
		p1 := a.tr(OpAccessChain, e["pu"], e["v"], e["c0"], e["c1"])
		a.op(OpStore, p1, d)
		// select with a poison arm that is NOT selected stays clean
		s := a.tr(OpSelect, e["u32"], e["true"], e["c2"], d)
		p2 := a.tr(OpAccessChain, e["pu"], e["v"], e["c0"], e["c2"])
		a.op(OpStore, p2, s)
		a.op(OpReturn)
	})
	buf := make([]byte, 16)
	_, res, _ = runAsm(t, a, map[Key][]byte{{0, 0}: buf}, 0)
	if res.Trap != "" || len(res.Poison) != 2 {
		t.Errorf("poison tracking: %+v", res)
	}
	if got := getU32(buf); got[2] != 2 {
		t.Errorf("select result %v", got)
	}
}

func TestAsmBarrierDivergence(t *testing.T) {
	a := newAsm(3)
	lidV := a.id()
	fn := a.id()
	a.op(OpCapability, 1)
	a.op(OpMemoryModel, 0, 1)
	a.op(OpEntryPoint, append(append([]uint32{EMGLCompute, fn}, sw("main")...), lidV)...)
	a.op(OpExecutionMode, fn, XMLocalSize, 2, 1, 1)
	a.op(OpDecorate, lidV, DecBuiltIn, BILocalInvocationIndex)
	void := a.r(OpTypeVoid)
	u32 := a.r(OpTypeInt, 32, 0)
	boolT := a.r(OpTypeBool)
	pin := a.r(OpTypePointer, SCInput, u32)
	fnT := a.r(OpTypeFunction, void)
	c0 := a.tr(OpConstant, u32, 0)
	c2 := a.tr(OpConstant, u32, 2)
	c264 := a.tr(OpConstant, u32, 264)
	a.op(OpVariable, pin, lidV, SCInput)
	a.op(OpFunction, void, fn, 0, fnT)
	entry, thenB, merge := a.id(), a.id(), a.id()
	a.op(OpLabel, entry)
	li := a.tr(OpLoad, u32, lidV)
	cond := a.tr(OpIEqual, boolT, li, c0)
	a.op(OpSelectionMerge, merge, 0)
	a.op(OpBranchConditional, cond, thenB, merge)
	a.op(OpLabel, thenB)
	a.op(OpControlBarrier, c2, c2, c264)
	a.op(OpBranch, merge)
	a.op(OpLabel, merge)
	a.op(OpReturn)
	a.op(OpFunctionEnd)
	m, res, err := runAsm(t, a, nil, 0)
	if err != nil || !strings.Contains(res.Trap, "non-uniform barrier") {
		t.Errorf("divergent barrier: %v %+v\n%s", err, res, m.Disassemble())
	}
	if is := Validate(m); len(is) != 0 {
		t.Errorf("module should be structurally valid: %v", is)
	}
}

func TestAsmSpecConstantsAndMisc(t *testing.T) {
	var sum, sel, wgs uint32
	a := trapModule(func(a *asm, e map[string]uint32) {
		a.op(OpLabel, a.id())
		p := a.tr(OpAccessChain, e["pu"], e["v"], e["c0"], e["c0"])
		a.op(OpStore, p, sum)
		p1 := a.tr(OpAccessChain, e["pu"], e["v"], e["c0"], e["c1"])
		a.op(OpStore, p1, sel)
		// OpCopyMemory from element 1 to element 2
		p2 := a.tr(OpAccessChain, e["pu"], e["v"], e["c0"], e["c2"])
		a.op(OpCopyMemory, p2, p1)
		// OpVectorInsertDynamic / ExtractDynamic round trip, out-of-range extract is poison (not stored)
		a.op(OpReturn)
	})
	// splice spec constants into the type/constant section: they must precede the function.
	// trapModule already emitted everything, so rebuild: insert before OpVariable.
	var out [][]uint32
	for _, in := range a.ws {
		if uint16(in[0]) == OpVariable {
			// ids: u32 type is the 2nd type id created in trapModule (void, u32, bool)
			var u32T, c3, c40 uint32
			for _, x := range a.ws {
				if uint16(x[0]) == OpTypeInt {
					u32T = x[1]
				}
				if uint16(x[0]) == OpConstant && x[3] == 3 {
					c3 = x[2]
				}
				if uint16(x[0]) == OpConstant && x[3] == 40 {
					c40 = x[2]
				}
			}
			sc := a.id()
			out = append(out, []uint32{OpSpecConstant, u32T, sc, 5})
			sum = a.id()
			out = append(out, []uint32{OpSpecConstantOp, u32T, sum, OpIAdd, sc, c40}) // 5 + 40
			sel = a.id()
			out = append(out, []uint32{OpSpecConstantOp, u32T, sel, OpIMul, sum, c3}) // 45 * 3
			_ = wgs
		}
		out = append(out, in)
	}
	// the stores were assembled with sum/sel == 0: patch them
	n := 0
	for _, in := range out {
		if uint16(in[0]) == OpStore && in[2] == 0 {
			if n == 0 {
				in[2] = sum
			} else {
				in[2] = sel
			}
			n++
		}
	}
	a.ws = out
	buf := make([]byte, 16)
	m, res, err := runAsm(t, a, map[Key][]byte{{0, 0}: buf}, 0)
	if err != nil || res.Trap != "" || len(res.Poison) != 0 {
		t.Fatalf("%v %+v\n%s", err, res, m.Disassemble())
	}
	if is := Validate(m); len(is) != 0 {
		t.Errorf("validate: %v\n%s", is, m.Disassemble())
	}
	if got := getU32(buf); got[0] != 45 || got[1] != 135 || got[2] != 135 {
		t.Errorf("got %v", got)
	}
}
