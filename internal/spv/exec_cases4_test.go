package spv

func casesControl() []execCase {
	return []execCase{
		{
			name: "loops",
			src: hdrOA + `
@compute @workgroup_size(1) fn main() {
  var s = 0u; var i = 0u;
  loop {
    if (i >= a[0]) { break; }
    if (i % 2u == 0u) { i++; continue; }
    s += i; i++;
  }
  o[0] = s;
  var j = 0u; var t = 0u;
  loop { t += j; continuing { j++; break if j == 5u; } }
  o[1] = t;
  var u = 0;
  for (var k = 0; k < 5; k++) { if (k == 3) { continue; } u += k * k; }
  o[2] = u32(u);
  var w = a[1]; var c = 0u;
  while (w > 0u) { w = w / 2u; c++; }
  o[3] = c;
  var n = 0u;
  for (var x = 0u; x < 4u; x++) { for (var y = 0u; y < 4u; y++) { if (y > x) { break; } n += 1u; } }
  o[4] = n;
}`,
			in: io(u32s(0, 0, 0, 0, 0), u32s(10, 100)),
			// 1+3+5+7+9=25 ; 0+1+2+3+4=10 ; 0+1+4+16=21 ; 100,50,25,12,6,3,1,0 -> 7 ; 1+2+3+4=10
			want: map[Key][]byte{k(0): u32s(25, 10, 21, 7, 10)},
		},
		{
			name: "switch",
			src: hdrOA + `
@compute @workgroup_size(1) fn main() {
  var acc = 0u;
  for (var i = 0u; i < a[0]; i++) {
    switch (i) {
      case 0u, 2u: { acc += 1u; }
      case 1u: { acc += 10u; continue; }
      case 3u: { break; }
      default: { acc += 100u; }
    }
    acc += 1000u;
  }
  o[0] = acc;
  let x = bitcast<i32>(a[1]);
  var r = 0u;
  switch (x) {
    case -1: { r = 1u; }
    case 2147483647: { r = 2u; }
    case 0, default: { r = 3u; }
  }
  o[1] = r;
  switch (a[2]) { default: { o[2] = 5u; } }
  var q = 0u;
  switch (a[0]) {
    case 6u: { if (a[2] == 7u) { q = 1u; break; } q = 2u; }
    default: { q = 3u; }
  }
  o[3] = q;
}`,
			in: io(u32s(0, 0, 0, 0), u32s(6, 0xFFFFFFFF, 7)),
			// i=0:+1+1000 i=1:+10 i=2:+1+1000 i=3:+1000 i=4,5:+100+1000 -> 5212
			want: map[Key][]byte{k(0): u32s(5212, 1, 5, 1)},
		},
		{
			name: "nested_return",
			src: hdrOA + `
fn find(limit: u32) -> u32 {
  for (var i = 0u; i < 10u; i++) {
    for (var j = 0u; j < 10u; j++) {
      if (i * j == limit) { return i * 10u + j; }
      if (j > i) { break; }
    }
  }
  return 999u;
}
fn classify(x: u32) -> u32 {
  if (x < 10u) { if (x < 5u) { return 1u; } else { return 2u; } }
  else if (x < 20u) { return 3u; }
  return 4u;
}
@compute @workgroup_size(1) fn main() {
  o[0] = find(a[0]); o[1] = find(a[1]); o[2] = find(a[2]);
  o[3] = classify(a[0]) * 1000u + classify(a[1]) * 100u + classify(15u) * 10u + classify(a[2]);
}`,
			in:   io(u32s(0, 0, 0, 0), u32s(6, 7, 97)),
			want: map[Key][]byte{k(0): u32s(23, 71, 999, 2234)},
		},
		{
			name: "fib_collatz",
			src: hdrOA + `
@compute @workgroup_size(1) fn main() {
  var x = 0u; var y = 1u;
  for (var i = 0u; i < a[0]; i++) { let t = x + y; x = y; y = t; }
  o[0] = x;
  var n = a[1]; var steps = 0u;
  while (n != 1u) { if (n % 2u == 0u) { n = n / 2u; } else { n = 3u * n + 1u; } steps++; }
  o[1] = steps;
}`,
			in:   io(u32s(0, 0), u32s(10, 27)),
			want: map[Key][]byte{k(0): u32s(55, 111)},
		},
		{
			name: "loop_in_switch_in_loop",
			src: hdrOA + `
@compute @workgroup_size(1) fn main() {
  var acc = 0u;
  var i = 0u;
  loop {
    if (i == a[0]) { break; }
    switch (i % 3u) {
      case 0u: {
        var j = 0u;
        loop { if (j == 3u) { break; } acc += 1u; j++; }
      }
      case 1u: {
        if (i > 2u) { i++; continue; }
        acc += 10u;
      }
      default: { acc += 100u; }
    }
    i++;
  }
  o[0] = acc;
}`,
			in: io(u32s(0), u32s(6)),
			// i=0:+3 i=1:+10 i=2:+100 i=3:+3 i=4: continue i=5:+100 -> 216
			want: map[Key][]byte{k(0): u32s(216)},
		},
	}
}

func casesKnownBadControl() []execCase {
	return []execCase{
		{
			name:     "switch_default_break_unreachable",
			knownBad: true,
			note:     "a function whose last statement is `switch i { default: { break; } }` gets OpUnreachable in the (reachable) merge block",
			src: hdrOA + `
fn f(i: u32) { switch i { default: { break; } } }
@compute @workgroup_size(1) fn main() { f(a[0]); o[0] = 7u; }`,
			in:   io(u32s(0), u32s(1)),
			want: map[Key][]byte{k(0): u32s(7)},
		},
	}
}

func casesParallel() []execCase {
	return []execCase{
		{
			name: "builtins_dispatch",
			wg:   [3]uint32{2, 2, 1},
			src: `
@group(0) @binding(0) var<storage, read_write> o: array<u32>;
@compute @workgroup_size(2, 1, 1)
fn main(@builtin(global_invocation_id) gid: vec3<u32>, @builtin(local_invocation_id) lid: vec3<u32>, @builtin(workgroup_id) wid: vec3<u32>,
        @builtin(num_workgroups) nwg: vec3<u32>, @builtin(local_invocation_index) li: u32) {
  o[gid.y * 4u + gid.x] = wid.x * 1000u + wid.y * 100u + lid.x * 10u + nwg.x + li * 10000u;
}`,
			in: func() map[Key][]byte { return map[Key][]byte{k(0): make([]byte, 32)} },
			// gid.x = wid.x*2+lid.x ; index = gid.y*4+gid.x
			want: map[Key][]byte{k(0): u32s(2, 10012, 1002, 11012, 102, 10112, 1102, 11112)},
		},
		{
			name: "workgroup_reduce",
			src: hdrOA + `
var<workgroup> wg: array<u32, 4>;
@compute @workgroup_size(4) fn main(@builtin(local_invocation_index) li: u32) {
  wg[li] = a[li];
  workgroupBarrier();
  if (li == 0u) { o[0] = wg[0] + wg[1] + wg[2] + wg[3]; }
  o[1u + li] = wg[(li + 1u) % 4u];
}`,
			in:   io(u32s(0, 0, 0, 0, 0), u32s(1, 20, 300, 4000)),
			want: map[Key][]byte{k(0): u32s(4321, 20, 300, 4000, 1)},
		},
		{
			name: "prefix_sum_barriers_in_loop",
			src: hdrOA + `
var<workgroup> buf: array<u32, 8>;
@compute @workgroup_size(8) fn main(@builtin(local_invocation_index) li: u32) {
  buf[li] = a[li];
  workgroupBarrier();
  for (var d = 1u; d < 8u; d = d * 2u) {
    var v = 0u;
    if (li >= d) { v = buf[li - d]; }
    workgroupBarrier();
    buf[li] += v;
    workgroupBarrier();
  }
  o[li] = buf[li];
}`,
			in:   io(make([]byte, 32), u32s(1, 2, 3, 4, 5, 6, 7, 8)),
			want: map[Key][]byte{k(0): u32s(1, 3, 6, 10, 15, 21, 28, 36)},
		},
		{
			name: "atomics",
			src: `
struct A { cnt: atomic<u32>, mx: atomic<u32>, mn: atomic<u32>, bits: atomic<u32>, mask: atomic<u32>, x: atomic<u32>, ce: atomic<u32>, smin: atomic<i32>, smax: atomic<i32>, sub: atomic<u32>, st: atomic<u32>, ex: atomic<u32> }
@group(0) @binding(0) var<storage, read_write> s: A;
@group(0) @binding(1) var<storage, read_write> o: array<u32>;
var<workgroup> wc: atomic<u32>;
@compute @workgroup_size(8) fn main(@builtin(local_invocation_index) li: u32) {
  atomicAdd(&s.cnt, 1u);
  atomicMax(&s.mx, li * 3u);
  atomicMin(&s.mn, 100u - li);
  atomicOr(&s.bits, 1u << li);
  atomicAnd(&s.mask, ~(1u << li));
  atomicXor(&s.x, 1u << li);
  atomicMin(&s.smin, i32(li) - 4);
  atomicMax(&s.smax, i32(li) - 4);
  atomicSub(&s.sub, 2u);
  atomicAdd(&wc, li);
  if (li == 0u) {
    let r = atomicCompareExchangeWeak(&s.ce, 5u, 9u);
    o[0] = r.old_value; o[1] = select(0u, 1u, r.exchanged);
    let r2 = atomicCompareExchangeWeak(&s.ce, 5u, 11u);
    o[2] = r2.old_value; o[3] = select(0u, 1u, r2.exchanged);
    atomicStore(&s.st, 123u);
    o[4] = atomicExchange(&s.ex, 55u);
    o[5] = atomicLoad(&s.st);
  }
  workgroupBarrier();
  if (li == 7u) { o[6] = atomicLoad(&wc); }
}`,
			in: func() map[Key][]byte {
				return map[Key][]byte{k(0): cat(u32s(0, 0, 1000, 0, 0xFFFF, 0, 5), i32s(100, -100), u32s(100, 0, 44)), k(1): make([]byte, 28)}
			},
			// cnt=8 mx=21 mn=93 bits=0xFF mask=0xFF00 x=0xFF ce=9 smin=-4 smax=3 sub=84 st=123 ex=55 ; wc = 0+..+7 = 28
			want: map[Key][]byte{k(0): cat(u32s(8, 21, 93, 0xFF, 0xFF00, 0xFF, 9), i32s(-4, 3), u32s(84, 123, 55)), k(1): u32s(5, 1, 9, 0, 44, 123, 28)},
		},
		{
			name: "divergent_return",
			src: hdrOA + `
@compute @workgroup_size(4) fn main(@builtin(local_invocation_index) li: u32) {
  if (li >= a[0]) { return; }
  o[li] = li + 10u;
}`,
			in:   io(u32s(0, 0, 0, 0), u32s(2)),
			want: map[Key][]byte{k(0): u32s(10, 11, 0, 0)},
		},
		{
			name: "workgroup_reverse_struct",
			src: hdrOA + `
struct W { v: vec2<u32>, f: f32 }
var<workgroup> ws: array<W, 4>;
var<workgroup> flag: u32;
@compute @workgroup_size(4) fn main(@builtin(local_invocation_index) li: u32) {
  ws[li] = W(vec2<u32>(a[li], li), f32(li) * 0.5);
  if (li == 3u) { flag = 7u; }
  workgroupBarrier();
  let w = ws[3u - li];
  o[li] = w.v.x * 100u + w.v.y * 10u + u32(w.f * 2.0) + flag * 1000u;
}`,
			in: io(u32s(0, 0, 0, 0), u32s(1, 2, 3, 4)),
			// li=0 reads ws[3] = ((4,3),1.5): 400+30+3+7000 ; li=1 reads ws[2]: 300+20+2+7000 ; ...
			want: map[Key][]byte{k(0): u32s(7433, 7322, 7211, 7100)},
		},
	}
}
