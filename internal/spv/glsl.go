package spv

import (
	"math"
	"math/bits"
)

// glsl evaluates a GLSL.std.450 extended instruction.
//
// Precision: every function is computed in float64 from the exact operand values and
// rounded once to the result width.  That is correctly rounded for Sqrt, Fma (up to a
// rare double rounding of math.FMA's float64 result), Floor … and "much better than
// required" for the transcendentals; callers compare those with a tolerance.
//
// Poison rules (GLSL.std.450 spec text in quotes):
//
//	Round         "if fract(x)==0.5 the result rounds in an implementation-chosen direction"
//	FClamp/UClamp/SClamp/NClamp "undefined if minVal > maxVal"
//	SmoothStep    "undefined if edge0 >= edge1"
//	Pow           "undefined if x < 0. undefined if x = 0 and y <= 0"
//	Sqrt          "undefined if x < 0";  InverseSqrt "undefined if x <= 0"
//	Log, Log2     "undefined if x <= 0"
//	Asin, Acos    "undefined if |x| > 1";  Acosh "x < 1";  Atanh "|x| >= 1"
//	Atan2         "undefined if x and y are both 0"
//	Frexp         "undefined if x is an infinity or NaN" (not stated for all versions; conservative)
//	Ldexp         "undefined if exp > +128 (f32) or the product is not representable"; exp < -126
//	              "may be flushed to zero" -> poison unless the exact result is zero
//	Normalize     zero vector: 0/0 — treated as poison by design decision of the harness
//	Pack{S,U}norm exact .5 ties of the scaled value (GLSL round()) -> poison
//	FMin/FMax     NaN operand: "which operand is the result is undefined" — no poison, we
//	              return y if x is NaN, otherwise x if y is NaN.
func (it *interp) glsl(in *Inst, g func(uint32) Value) (Value, bool) {
	a := in.Args[2:]
	rt := in.Type
	n := in.Args[1]
	arg := func(i int) Value {
		if i >= len(a) {
			it.trap("GLSL.std.450 %s: missing operand %d", GLSLName(n), i)
		}
		return g(a[i])
	}
	st := it.scalarType(rt)
	fw := uint32(32)
	if st != nil && st.Kind == TFloat {
		fw = st.Width
	}
	f1 := func(f func(x float64) (float64, bool)) (Value, bool) {
		return it.zip1(rt, arg(0), func(x Value) Value {
			if x.Poison {
				return x
			}
			r, p := f(fdec(x.Bits, fw))
			return pz(p, fenc(r, fw))
		}), true
	}
	f2 := func(f func(x, y float64) (float64, bool)) (Value, bool) {
		return it.zip2(rt, arg(0), arg(1), func(x, y Value) Value {
			if x.Poison || y.Poison {
				return poisonSc()
			}
			r, p := f(fdec(x.Bits, fw), fdec(y.Bits, fw))
			return pz(p, fenc(r, fw))
		}), true
	}
	f3 := func(f func(x, y, z float64) (float64, bool)) (Value, bool) {
		return it.zip3(rt, arg(0), arg(1), arg(2), func(x, y, z Value) Value {
			if x.Poison || y.Poison || z.Poison {
				return poisonSc()
			}
			r, p := f(fdec(x.Bits, fw), fdec(y.Bits, fw), fdec(z.Bits, fw))
			return pz(p, fenc(r, fw))
		}), true
	}
	ok1 := func(f func(float64) float64) func(float64) (float64, bool) {
		return func(x float64) (float64, bool) { return f(x), false }
	}
	rnd := func(x float64) float64 { return fdec(fenc(x, fw), fw) } // round intermediate to the working width
	iw := uint32(32)
	if st != nil && st.Kind == TInt {
		iw = st.Width
	}
	i1 := func(f func(x uint64) uint64) (Value, bool) {
		return it.zip1(rt, arg(0), func(x Value) Value {
			if x.Poison {
				return x
			}
			return sc(f(x.Bits) & maskW(iw))
		}), true
	}
	i2 := func(f func(x, y uint64) uint64) (Value, bool) {
		return it.zip2(rt, arg(0), arg(1), func(x, y Value) Value {
			if x.Poison || y.Poison {
				return poisonSc()
			}
			return sc(f(x.Bits, y.Bits) & maskW(iw))
		}), true
	}
	smin := func(x, y uint64) uint64 {
		if sext(y, iw) < sext(x, iw) {
			return y
		}
		return x
	}
	smax := func(x, y uint64) uint64 {
		if sext(x, iw) < sext(y, iw) {
			return y
		}
		return x
	}
	umin := func(x, y uint64) uint64 {
		if y < x {
			return y
		}
		return x
	}
	umax := func(x, y uint64) uint64 {
		if x < y {
			return y
		}
		return x
	}
	fmin := func(x, y float64) float64 {
		if x != x {
			return y
		}
		if y < x {
			return y
		}
		return x
	}
	fmax := func(x, y float64) float64 {
		if x != x {
			return y
		}
		if x < y {
			return y
		}
		return x
	}
	nmin := func(x, y float64) float64 {
		if x != x {
			return y
		}
		if y != y {
			return x
		}
		return math.Min(x, y)
	}
	nmax := func(x, y float64) float64 {
		if x != x {
			return y
		}
		if y != y {
			return x
		}
		return math.Max(x, y)
	}

	switch n {
	case GLRound:
		return f1(func(x float64) (float64, bool) {
			if x-math.Floor(x) == 0.5 {
				return 0, true
			}
			return math.RoundToEven(x), false
		})
	case GLRoundEven:
		return f1(ok1(math.RoundToEven))
	case GLTrunc:
		return f1(ok1(math.Trunc))
	case GLFAbs:
		return f1(ok1(math.Abs))
	case GLFSign:
		return f1(func(x float64) (float64, bool) {
			switch {
			case x > 0:
				return 1, false
			case x < 0:
				return -1, false
			}
			return 0, false
		})
	case GLFloor:
		return f1(ok1(math.Floor))
	case GLCeil:
		return f1(ok1(math.Ceil))
	case GLFract:
		return f1(func(x float64) (float64, bool) { return x - math.Floor(x), false })
	case GLRadians:
		return f1(func(x float64) (float64, bool) { return x * math.Pi / 180, false })
	case GLDegrees:
		return f1(func(x float64) (float64, bool) { return x * 180 / math.Pi, false })
	case GLSin:
		return f1(ok1(math.Sin))
	case GLCos:
		return f1(ok1(math.Cos))
	case GLTan:
		return f1(ok1(math.Tan))
	case GLAsin:
		return f1(func(x float64) (float64, bool) { return math.Asin(x), math.Abs(x) > 1 })
	case GLAcos:
		return f1(func(x float64) (float64, bool) { return math.Acos(x), math.Abs(x) > 1 })
	case GLAtan:
		return f1(ok1(math.Atan))
	case GLSinh:
		return f1(ok1(math.Sinh))
	case GLCosh:
		return f1(ok1(math.Cosh))
	case GLTanh:
		return f1(ok1(math.Tanh))
	case GLAsinh:
		return f1(ok1(math.Asinh))
	case GLAcosh:
		return f1(func(x float64) (float64, bool) { return math.Acosh(x), x < 1 })
	case GLAtanh:
		return f1(func(x float64) (float64, bool) { return math.Atanh(x), math.Abs(x) >= 1 })
	case GLAtan2:
		return f2(func(y, x float64) (float64, bool) { return math.Atan2(y, x), x == 0 && y == 0 })
	case GLPow:
		return f2(func(x, y float64) (float64, bool) { return math.Pow(x, y), x < 0 || (x == 0 && y <= 0) })
	case GLExp:
		return f1(ok1(math.Exp))
	case GLLog:
		return f1(func(x float64) (float64, bool) { return math.Log(x), x <= 0 })
	case GLExp2:
		return f1(ok1(math.Exp2))
	case GLLog2:
		return f1(func(x float64) (float64, bool) { return math.Log2(x), x <= 0 })
	case GLSqrt:
		return f1(func(x float64) (float64, bool) { return math.Sqrt(x), x < 0 })
	case GLInverseSqrt:
		return f1(func(x float64) (float64, bool) { return 1 / math.Sqrt(x), x <= 0 })
	case GLFMin:
		return f2(func(x, y float64) (float64, bool) { return fmin(x, y), false })
	case GLFMax:
		return f2(func(x, y float64) (float64, bool) { return fmax(x, y), false })
	case GLNMin:
		return f2(func(x, y float64) (float64, bool) { return nmin(x, y), false })
	case GLNMax:
		return f2(func(x, y float64) (float64, bool) { return nmax(x, y), false })
	case GLFClamp:
		return f3(func(x, lo, hi float64) (float64, bool) { return fmin(fmax(x, lo), hi), lo > hi })
	case GLNClamp:
		return f3(func(x, lo, hi float64) (float64, bool) { return nmin(nmax(x, lo), hi), lo > hi })
	case GLFMix:
		// x*(1-a) + y*a, each step rounded to the working width
		return f3(func(x, y, t float64) (float64, bool) {
			return rnd(rnd(x*rnd(1-t)) + rnd(y*t)), false
		})
	case GLStep:
		return f2(func(edge, x float64) (float64, bool) {
			if x < edge {
				return 0, false
			}
			return 1, false
		})
	case GLSmoothStep:
		return f3(func(e0, e1, x float64) (float64, bool) {
			if e0 >= e1 {
				return 0, true
			}
			t := (x - e0) / (e1 - e0)
			t = math.Min(math.Max(t, 0), 1)
			return t * t * (3 - 2*t), false
		})
	case GLFma:
		return f3(func(x, y, z float64) (float64, bool) { return math.FMA(x, y, z), false })
	case GLSAbs:
		return i1(func(x uint64) uint64 {
			if sext(x, iw) < 0 {
				return -x
			}
			return x
		})
	case GLSSign:
		return i1(func(x uint64) uint64 {
			s := sext(x, iw)
			switch {
			case s > 0:
				return 1
			case s < 0:
				return ^uint64(0)
			}
			return 0
		})
	case GLUMin:
		return i2(umin)
	case GLSMin:
		return i2(smin)
	case GLUMax:
		return i2(umax)
	case GLSMax:
		return i2(smax)
	case GLUClamp, GLSClamp:
		signed := n == GLSClamp
		return it.zip3(rt, arg(0), arg(1), arg(2), func(x, lo, hi Value) Value {
			if x.Poison || lo.Poison || hi.Poison {
				return poisonSc()
			}
			if signed {
				if sext(lo.Bits, iw) > sext(hi.Bits, iw) {
					return poisonSc()
				}
				return sc(smin(smax(x.Bits, lo.Bits), hi.Bits))
			}
			if lo.Bits > hi.Bits {
				return poisonSc()
			}
			return sc(umin(umax(x.Bits, lo.Bits), hi.Bits))
		}), true
	case GLFindILsb:
		return i1(func(x uint64) uint64 {
			if x == 0 {
				return ^uint64(0)
			}
			return uint64(bits.TrailingZeros64(x))
		})
	case GLFindUMsb:
		return i1(func(x uint64) uint64 {
			if x == 0 {
				return ^uint64(0)
			}
			return uint64(63 - bits.LeadingZeros64(x))
		})
	case GLFindSMsb:
		return i1(func(x uint64) uint64 {
			if sext(x, iw) < 0 {
				x = ^x & maskW(iw)
			}
			if x == 0 {
				return ^uint64(0)
			}
			return uint64(63 - bits.LeadingZeros64(x))
		})

	// ------------------------------------------------------------ geometric
	case GLLength, GLDistance:
		var xs []Value
		x := arg(0)
		if x.K == kComposite {
			xs = x.Elems
		} else {
			xs = []Value{x}
		}
		var ys []Value
		if n == GLDistance {
			y := arg(1)
			if y.K == kComposite {
				ys = y.Elems
			} else {
				ys = []Value{y}
			}
			if len(ys) != len(xs) {
				it.trap("Distance operand shapes")
			}
		}
		sum := 0.0
		for i := range xs {
			if xs[i].Poison || (ys != nil && ys[i].Poison) {
				return poisonSc(), true
			}
			d := fdec(xs[i].Bits, fw)
			if ys != nil {
				d = rnd(d - fdec(ys[i].Bits, fw))
			}
			sum += d * d
		}
		return sc(fenc(math.Sqrt(sum), fw)), true
	case GLCross:
		x, y := arg(0), arg(1)
		if len(x.Elems) != 3 || len(y.Elems) != 3 {
			it.trap("Cross operand shapes")
		}
		c := func(i, j int) Value {
			if x.Elems[i].Poison || x.Elems[j].Poison || y.Elems[i].Poison || y.Elems[j].Poison {
				return poisonSc()
			}
			xi, xj, yi, yj := fdec(x.Elems[i].Bits, fw), fdec(x.Elems[j].Bits, fw), fdec(y.Elems[i].Bits, fw), fdec(y.Elems[j].Bits, fw)
			return sc(fenc(rnd(xi*yj)-rnd(yi*xj), fw))
		}
		return comp([]Value{c(1, 2), c(2, 0), c(0, 1)}), true
	case GLNormalize:
		x := arg(0)
		xs := x.Elems
		if x.K == kScalar {
			xs = []Value{x}
		}
		sum := 0.0
		for _, e := range xs {
			if e.Poison {
				return allPoison(x), true
			}
			d := fdec(e.Bits, fw)
			sum += d * d
		}
		if sum == 0 {
			return allPoison(x), true
		}
		l := math.Sqrt(sum)
		es := make([]Value, len(xs))
		for i, e := range xs {
			es[i] = sc(fenc(fdec(e.Bits, fw)/l, fw))
		}
		if x.K == kScalar {
			return es[0], true
		}
		return comp(es), true
	case GLFaceForward, GLReflect, GLRefract:
		return it.glslVec(n, fw, in, g), true
	case GLDeterminant:
		mtx, p := it.matF(arg(0), fw)
		if p {
			return poisonSc(), true
		}
		return sc(fenc(det(mtx), fw)), true
	case GLMatrixInverse:
		v := arg(0)
		mtx, p := it.matF(v, fw)
		if p {
			return allPoison(v), true
		}
		nn := len(mtx)
		d := det(mtx)
		cols := make([]Value, nn)
		for c := 0; c < nn; c++ {
			es := make([]Value, nn)
			for r := 0; r < nn; r++ {
				// inverse[c][r] (column c, row r) = cofactor(row c, col r)/det  (adjugate transposed)
				// mtx is indexed [col][row]; element (row i, col j) = mtx[j][i].
				es[r] = sc(fenc(cofactor(mtx, c, r)/d, fw))
			}
			cols[c] = comp(es)
		}
		return comp(cols), true

	// ------------------------------------------------------------ modf / frexp / ldexp
	case GLModf, GLModfStruct:
		x := arg(0)
		whole := it.zip1(it.typeOfID(a[0]), x, func(e Value) Value {
			if e.Poison {
				return e
			}
			return sc(fenc(math.Trunc(fdec(e.Bits, fw)), fw))
		})
		ft := it.scalarType(it.typeOfID(a[0]))
		w := ft.Width
		fr := it.zip1(it.typeOfID(a[0]), x, func(e Value) Value {
			if e.Poison {
				return e
			}
			f := fdec(e.Bits, w)
			if math.IsInf(f, 0) {
				return sc(fenc(math.Copysign(0, f), w))
			}
			return sc(fenc(f-math.Trunc(f), w))
		})
		if n == GLModfStruct {
			return comp([]Value{fr, whole}), true
		}
		it.store(it.ptr(arg(1)), whole)
		return fr, true
	case GLFrexp, GLFrexpStruct:
		x := arg(0)
		xt := it.typeOfID(a[0])
		ft := it.scalarType(xt)
		w := ft.Width
		var et uint32 // exponent type
		if n == GLFrexpStruct {
			if t := it.ty(rt); t != nil && t.Kind == TStruct && len(t.Members) == 2 {
				et = t.Members[1]
			}
		} else if pt := it.ty(it.typeOfID(a[1])); pt != nil && pt.Kind == TPointer {
			et = pt.Elem
		}
		es := it.scalarType(et)
		if es == nil || es.Kind != TInt {
			it.trap("Frexp exponent type")
		}
		sig := it.zip1(xt, x, func(e Value) Value {
			if e.Poison {
				return e
			}
			f := fdec(e.Bits, w)
			if f != f || math.IsInf(f, 0) {
				return poisonSc()
			}
			fr, _ := math.Frexp(f)
			return sc(fenc(fr, w))
		})
		exp := it.zip1(et, x, func(e Value) Value {
			if e.Poison {
				return e
			}
			f := fdec(e.Bits, w)
			if f != f || math.IsInf(f, 0) {
				return poisonSc()
			}
			_, ex := math.Frexp(f)
			return sc(uint64(int64(ex)) & maskW(es.Width))
		})
		if n == GLFrexpStruct {
			return comp([]Value{sig, exp}), true
		}
		it.store(it.ptr(arg(1)), exp)
		return sig, true
	case GLLdexp:
		et := it.scalarType(it.typeOfID(a[1]))
		if et == nil || et.Kind != TInt {
			it.trap("Ldexp exponent type")
		}
		return it.zip2(rt, arg(0), arg(1), func(x, e Value) Value {
			if x.Poison || e.Poison {
				return poisonSc()
			}
			f := fdec(x.Bits, fw)
			ex := sext(e.Bits, et.Width)
			maxE, minE := int64(128), int64(-126)
			switch fw {
			case 16:
				maxE, minE = 16, -14
			case 64:
				maxE, minE = 1024, -1022
			}
			if ex > maxE {
				return poisonSc()
			}
			if ex < -4000 {
				ex = -4000
			}
			r := math.Ldexp(f, int(ex))
			rb := fenc(r, fw)
			rr := fdec(rb, fw)
			if math.IsInf(rr, 0) && !math.IsInf(f, 0) {
				return poisonSc()
			}
			if ex < minE && rr != 0 && f == f && !math.IsInf(f, 0) {
				return poisonSc()
			}
			return sc(rb)
		}), true

	// ------------------------------------------------------------ pack / unpack
	case GLPackSnorm4x8, GLPackUnorm4x8, GLPackSnorm2x16, GLPackUnorm2x16:
		v := arg(0)
		cnt, bitsPer := 4, uint(8)
		if n == GLPackSnorm2x16 || n == GLPackUnorm2x16 {
			cnt, bitsPer = 2, 16
		}
		if len(v.Elems) != cnt {
			it.trap("%s operand shape", GLSLName(n))
		}
		snorm := n == GLPackSnorm4x8 || n == GLPackSnorm2x16
		var out uint64
		for i, e := range v.Elems {
			if e.Poison {
				return poisonSc(), true
			}
			f := fdec(e.Bits, 32)
			var scaled float64
			if snorm {
				scale := float64(int(1)<<(bitsPer-1) - 1)
				scaled = float64(float32(math.Min(math.Max(f, -1), 1)) * float32(scale))
			} else {
				scale := float64(int(1)<<bitsPer - 1)
				scaled = float64(float32(math.Min(math.Max(f, 0), 1)) * float32(scale))
			}
			if scaled != scaled {
				return poisonSc(), true // clamp of NaN is unspecified
			}
			if scaled-math.Floor(scaled) == 0.5 {
				return poisonSc(), true
			}
			q := int64(math.RoundToEven(scaled))
			out |= (uint64(q) & maskW(uint32(bitsPer))) << (uint(i) * bitsPer)
		}
		return sc(out), true
	case GLPackHalf2x16:
		v := arg(0)
		if len(v.Elems) != 2 {
			it.trap("PackHalf2x16 operand shape")
		}
		var out uint64
		for i, e := range v.Elems {
			if e.Poison {
				return poisonSc(), true
			}
			out |= uint64(float64ToHalf(fdec(e.Bits, 32))) << (16 * uint(i))
		}
		return sc(out), true
	case GLUnpackHalf2x16:
		v := it.needScalar(arg(0))
		if v.Poison {
			return comp([]Value{poisonSc(), poisonSc()}), true
		}
		return comp([]Value{
			sc(uint64(math.Float32bits(halfToFloat32(uint16(v.Bits))))),
			sc(uint64(math.Float32bits(halfToFloat32(uint16(v.Bits >> 16))))),
		}), true
	case GLUnpackSnorm4x8, GLUnpackUnorm4x8, GLUnpackSnorm2x16, GLUnpackUnorm2x16:
		v := it.needScalar(arg(0))
		cnt, bitsPer := 4, uint32(8)
		if n == GLUnpackSnorm2x16 || n == GLUnpackUnorm2x16 {
			cnt, bitsPer = 2, 16
		}
		snorm := n == GLUnpackSnorm4x8 || n == GLUnpackSnorm2x16
		es := make([]Value, cnt)
		for i := range es {
			if v.Poison {
				es[i] = poisonSc()
				continue
			}
			raw := (v.Bits >> (uint(i) * uint(bitsPer))) & maskW(bitsPer)
			var f float32
			if snorm {
				f = float32(sext(raw, bitsPer)) / float32(int(1)<<(bitsPer-1)-1)
				if f < -1 {
					f = -1
				}
			} else {
				f = float32(raw) / float32(int(1)<<bitsPer-1)
			}
			es[i] = sc(uint64(math.Float32bits(f)))
		}
		return comp(es), true
	case GLPackDouble2x32, GLUnpackDouble2x32:
		if n == GLPackDouble2x32 {
			return it.bitcast(rt, it.typeOfID(a[0]), arg(0)), true
		}
		return it.bitcast(rt, it.typeOfID(a[0]), arg(0)), true
	}
	it.unsupported("GLSL.std.450 " + GLSLName(n))
	return Value{}, false
}

func (it *interp) floats(v Value, w uint32) ([]float64, bool) {
	xs := v.Elems
	if v.K == kScalar {
		xs = []Value{v}
	}
	out := make([]float64, len(xs))
	for i, e := range xs {
		if e.Poison {
			return nil, true
		}
		out[i] = fdec(e.Bits, w)
	}
	return out, false
}

func (it *interp) glslVec(n uint32, fw uint32, in *Inst, g func(uint32) Value) Value {
	a := in.Args[2:]
	rnd := func(x float64) float64 { return fdec(fenc(x, fw), fw) }
	mk := func(like Value, fs []float64) Value {
		if like.K == kScalar {
			return sc(fenc(fs[0], fw))
		}
		es := make([]Value, len(fs))
		for i := range es {
			es[i] = sc(fenc(fs[i], fw))
		}
		return comp(es)
	}
	dot := func(x, y []float64) float64 {
		s := 0.0
		for i := range x {
			s = rnd(s + rnd(x[i]*y[i]))
		}
		return s
	}
	v0 := g(a[0])
	x0, p0 := it.floats(v0, fw)
	x1, p1 := it.floats(g(a[1]), fw)
	if len(x0) != len(x1) {
		it.trap("%s operand shapes", GLSLName(n))
	}
	switch n {
	case GLFaceForward: // N, I, Nref: dot(Nref, I) < 0 ? N : -N
		x2, p2 := it.floats(g(a[2]), fw)
		if p0 || p1 || p2 {
			return allPoison(v0)
		}
		out := make([]float64, len(x0))
		neg := !(dot(x2, x1) < 0)
		for i := range out {
			out[i] = x0[i]
			if neg {
				out[i] = -x0[i]
			}
		}
		return mk(v0, out)
	case GLReflect: // I - 2*dot(N,I)*N
		if p0 || p1 {
			return allPoison(v0)
		}
		d := dot(x1, x0)
		out := make([]float64, len(x0))
		for i := range out {
			out[i] = x0[i] - rnd(rnd(2*d)*x1[i])
		}
		return mk(v0, out)
	case GLRefract: // I, N, eta
		ev := g(a[2])
		if p0 || p1 || ev.Poison {
			return allPoison(v0)
		}
		ew := fw
		if t := it.scalarType(it.typeOfID(a[2])); t != nil {
			ew = t.Width
		}
		eta := fdec(ev.Bits, ew)
		d := dot(x1, x0)
		k := 1 - eta*eta*(1-d*d)
		out := make([]float64, len(x0))
		if k >= 0 {
			for i := range out {
				out[i] = eta*x0[i] - (eta*d+math.Sqrt(k))*x1[i]
			}
		}
		return mk(v0, out)
	}
	it.unsupported("GLSL.std.450 " + GLSLName(n))
	return Value{}
}

// matF converts a square matrix value (columns of rows) to [col][row] float64.
func (it *interp) matF(v Value, w uint32) ([][]float64, bool) {
	n := len(v.Elems)
	out := make([][]float64, n)
	for c := range out {
		if len(v.Elems[c].Elems) != n {
			it.trap("matrix is not square")
		}
		out[c] = make([]float64, n)
		for r := range out[c] {
			e := v.Elems[c].Elems[r]
			if e.Poison {
				return nil, true
			}
			out[c][r] = fdec(e.Bits, w)
		}
	}
	return out, false
}

func det(m [][]float64) float64 {
	n := len(m)
	switch n {
	case 1:
		return m[0][0]
	case 2:
		return m[0][0]*m[1][1] - m[1][0]*m[0][1]
	}
	s := 0.0
	for j := 0; j < n; j++ {
		s += m[j][0] * cofactor(m, 0, j) // expand along row 0: element (row 0, col j) = m[j][0]
	}
	return s
}

// cofactor of the element at (row i, col j); m is indexed [col][row].
func cofactor(m [][]float64, i, j int) float64 {
	n := len(m)
	if n == 1 {
		return 1
	}
	sub := make([][]float64, 0, n-1)
	for c := 0; c < n; c++ {
		if c == j {
			continue
		}
		col := make([]float64, 0, n-1)
		for r := 0; r < n; r++ {
			if r == i {
				continue
			}
			col = append(col, m[c][r])
		}
		sub = append(sub, col)
	}
	d := det(sub)
	if (i+j)%2 == 1 {
		d = -d
	}
	return d
}
