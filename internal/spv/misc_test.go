package spv

import (
	"math"
	"os"
	"runtime/debug"
	"sort"
	"strconv"
	"strings"
	"testing"

	"github.com/gogpu/naga/spirv"
)

func TestHalfRoundTrip(t *testing.T) {
	for h := 0; h < 0x10000; h++ {
		f := halfToFloat32(uint16(h))
		if f != f {
			if g := float32ToHalf(f); g&0x7c00 != 0x7c00 || g&0x3ff == 0 {
				t.Fatalf("NaN %#04x -> %#04x", h, g)
			}
			continue
		}
		if g := float32ToHalf(f); g != uint16(h) {
			t.Fatalf("half %#04x -> %g -> %#04x", h, f, g)
		}
	}
	cases := []struct {
		f float64
		h uint16
	}{
		{1, 0x3C00}, {-2, 0xC000}, {65504, 0x7BFF}, {65519.99, 0x7BFF}, {65520, 0x7C00}, {1e9, 0x7C00}, {math.Inf(-1), 0xFC00},
		{5.960464477539063e-08, 0x0001}, {2.9802322387695312e-08, 0x0000} /* tie to even */, {2.98023223876953125e-08 * 1.0000001, 0x0001},
		{8.940696716308594e-08, 0x0002} /* 1.5 ulp: tie to even -> 2 */, {0.1, 0x2E66}, {2049, 0x6800}, {2051, 0x6802}, {6.103515625e-05, 0x0400},
		{6.097555160522461e-05, 0x03FF}, {math.Copysign(0, -1), 0x8000},
	}
	for _, c := range cases {
		if g := float64ToHalf(c.f); g != c.h {
			t.Errorf("float64ToHalf(%g) = %#04x, want %#04x", c.f, g, c.h)
		}
	}
}

// A data race between invocations shows up as a difference between the two schedules.
func TestReverseOrderDetectsScheduleDependence(t *testing.T) {
	src := `
@group(0) @binding(0) var<storage, read_write> o: array<u32>;
@compute @workgroup_size(4) fn main(@builtin(local_invocation_index) li: u32) { o[0] = li; }`
	m := mustModule(t, src, spirv.Version1_3)
	var got [2]uint32
	for i, rev := range []bool{false, true} {
		buf := make([]byte, 4)
		res, err := Run(m, RunConfig{Entry: "main", Buffers: map[Key][]byte{{0, 0}: buf}, NumWorkgroups: [3]uint32{1, 1, 1}, ReverseOrder: rev})
		if err != nil || res.Trap != "" {
			t.Fatal(err, res.Trap)
		}
		got[i] = getU32(buf)[0]
	}
	if got != [2]uint32{3, 0} {
		t.Errorf("forward/reverse results %v, want [3 0]", got)
	}
}

func TestReflection(t *testing.T) {
	m := mustModule(t, mutSrc, spirv.Version1_4)
	eps := m.EntryPoints()
	if len(eps) != 1 || eps[0].Name != "main" || eps[0].Model != EMGLCompute || eps[0].LocalSize != [3]uint32{4, 1, 1} {
		t.Fatalf("entry points: %+v", eps)
	}
	rvs := m.ResourceVars()
	sort.Slice(rvs, func(i, j int) bool { return rvs[i].Binding < rvs[j].Binding })
	if len(rvs) != 2 || rvs[0].Binding != 0 || rvs[1].Binding != 1 || rvs[0].Storage != SCStorageBuffer || !rvs[1].NonWrite || rvs[0].NonWrite {
		t.Fatalf("resource vars: %+v", rvs)
	}
	// (naga emits no OpName for module-scope variables even with Debug, so Name stays empty)
	// wrapper struct { S } with S {vec3 @0, f32 @12, array<u32,3> @16, mat2x3 @32 stride 16}
	wrap := m.Type(rvs[1].Pointee)
	if wrap == nil || wrap.Kind != TStruct || len(wrap.Members) != 1 {
		t.Fatalf("wrapper: %+v", wrap)
	}
	s := m.Type(wrap.Members[0])
	if s == nil || s.Kind != TStruct || len(s.Members) != 4 {
		t.Fatalf("S: %+v", s)
	}
	wantOff := []uint32{0, 12, 16, 32}
	for i, w := range wantOff {
		d, ok := m.MemberDeco(s.ID, i, DecOffset)
		if !ok || d.Params[0] != w {
			t.Errorf("member %d offset %v, want %d", i, d.Params, w)
		}
	}
	if d, ok := m.MemberDeco(s.ID, 3, DecMatrixStride); !ok || d.Params[0] != 16 {
		t.Errorf("matrix stride %v", d)
	}
	nMember := 0
	for _, d := range m.Decorations(s.ID) {
		if d.Member >= 0 {
			nMember++
		}
	}
	if nMember < 6 {
		t.Errorf("member decorations: %d", nMember)
	}
	if at := m.Type(s.Members[2]); at.Kind != TArray || at.Count != 3 {
		t.Errorf("array member: %+v", at)
	}
	if cv, ok := m.ConstantValue(m.Type(s.Members[2]).LenID); !ok || cv.Bits != 3 {
		t.Errorf("array length constant: %+v", cv)
	}
	dis := m.Disassemble()
	for _, w := range []string{"OpEntryPoint GLCompute", "OpLoopMerge", "OpControlBarrier", "OpArrayLength"} {
		if !strings.Contains(dis, w) {
			t.Errorf("disassembly lacks %q", w)
		}
	}
	if len(Rules) < 50 {
		t.Errorf("only %d rules registered", len(Rules))
	}
}

func TestStepLimitAndDeterminism(t *testing.T) {
	src := hdrOA + `
@compute @workgroup_size(1) fn main() { var i = 0u; loop { if (a[0] == 7u) { break; } i++; } o[0] = i; }`
	m := mustModule(t, src, spirv.Version1_3)
	var steps [2]int64
	for k := range steps {
		res, err := Run(m, RunConfig{Entry: "main", Buffers: map[Key][]byte{{0, 0}: make([]byte, 4), {0, 1}: make([]byte, 4)}, NumWorkgroups: [3]uint32{1, 1, 1}, StepLimit: 5000})
		if err != ErrStepLimit {
			t.Fatalf("err = %v, res = %+v", err, res)
		}
		steps[k] = res.Steps
	}
	if steps[0] != steps[1] {
		t.Errorf("nondeterministic step counts %v", steps)
	}
	// with loop bounding the same shader terminates… after 2^64 iterations; just make sure it validates and runs
	bin, err := compileWGSLOpts(src, spirv.Options{Version: spirv.Version1_3, ForceLoopBounding: true})
	if err != nil {
		t.Fatal(err)
	}
	mb, err := Parse(bin)
	if err != nil {
		t.Fatal(err)
	}
	if is := Validate(mb); len(is) != 0 {
		t.Errorf("loop bounded module: %v", is)
	}
	in := u32s(7)
	out := make([]byte, 4)
	res, err := Run(mb, RunConfig{Entry: "main", Buffers: map[Key][]byte{{0, 0}: out, {0, 1}: in}, NumWorkgroups: [3]uint32{1, 1, 1}})
	if err != nil || res.Trap != "" || len(res.Poison) != 0 || getU32(out)[0] != 0 {
		t.Errorf("loop bounded run: %v %+v %v", err, res, getU32(out))
	}
}

func TestIndexBoundsPolicies(t *testing.T) {
	src := hdrOA + `
var<private> loc: array<u32, 4>;
@compute @workgroup_size(1) fn main() {
  o[a[0]] = 5u;
  var arr = array<u32, 4>(1u, 2u, 3u, 4u);
  o[0] = arr[a[0]] + o[a[1]];
}`
	run := func(p spirv.BoundsCheckPolicy) (*RunResult, []uint32, *Module) {
		bin, err := compileWGSLOpts(src, spirv.Options{Version: spirv.Version1_3, BoundsCheckPolicies: spirv.BoundsCheckPolicies{Index: p}})
		if err != nil {
			t.Fatal(err)
		}
		m, err := Parse(bin)
		if err != nil {
			t.Fatal(err)
		}
		if is := Validate(m); len(is) != 0 {
			t.Errorf("policy %d: %v", p, is)
		}
		out := u32s(10, 20, 30, 40)
		res, err := Run(m, RunConfig{Entry: "main", Buffers: map[Key][]byte{{0, 0}: out, {0, 1}: u32s(100, 200)}, NumWorkgroups: [3]uint32{1, 1, 1}})
		if err != nil {
			t.Fatal(err)
		}
		return res, getU32(out), m
	}
	res, _, _ := run(spirv.BoundsCheckUnchecked)
	if !strings.Contains(res.Trap, "out-of-object access") {
		t.Errorf("unchecked: %+v", res)
	}
	// Suspected naga defect: BoundsCheckPolicies.Index (and ImageStore) are accepted but never
	// consulted by the code generator, so both policies still produce the unchecked access.
	// If that gets fixed the expected results are: Restrict o[3]=5, o[0]=arr[3]+o[3]=9;
	// ReadZeroSkipWrite: store skipped, o[0]=0.
	for _, p := range []spirv.BoundsCheckPolicy{spirv.BoundsCheckRestrict, spirv.BoundsCheckReadZeroSkipWrite} {
		res, out, m := run(p)
		if res.Trap != "" {
			t.Logf("known defect: Index policy %d ignored: %s", p, res.Trap)
			continue
		}
		want := [2]uint32{9, 5}
		if p == spirv.BoundsCheckReadZeroSkipWrite {
			want = [2]uint32{0, 40}
		}
		if len(res.Poison) != 0 || out[0] != want[0] || out[3] != want[1] {
			t.Errorf("policy %d: %+v %v\n%s", p, res, out, dumpIf(m))
		}
	}
}

// The reader, validator, disassembler and interpreter must survive arbitrary damage to a
// module (they are run on mutated binaries by the sensitivity tests of the checks).
func TestRobustAgainstCorruptModules(t *testing.T) {
	var bins [][]byte
	for _, c := range execCases()[:0] {
		_ = c
	}
	for _, name := range []string{"switch", "atomics", "matrices", "pointers", "prefix_sum_barriers_in_loop", "pack_unpack", "struct_vec3_padding"} {
		for _, c := range execCases() {
			if c.name == name {
				bin, err := compileWGSL(c.src, spirv.Version1_3, true)
				if err != nil {
					t.Fatal(err)
				}
				bins = append(bins, bin)
			}
		}
	}
	seed := uint64(0x9E3779B97F4A7C15)
	next := func() uint64 {
		seed ^= seed << 13
		seed ^= seed >> 7
		seed ^= seed << 17
		return seed
	}
	iters := 1500
	if testing.Short() {
		iters = 500
	}
	if n, err := strconv.Atoi(os.Getenv("SPV_FUZZ_ITERS")); err == nil && n > 0 {
		iters = n
	}
	for it := 0; it < iters; it++ {
		src := bins[it%len(bins)]
		b := append([]byte(nil), src...)
		nmut := 1 + int(next()%3)
		for k := 0; k < nmut; k++ {
			w := 5 + int(next()%uint64(len(b)/4-5))
			switch next() % 4 {
			case 0: // small id-like value
				b[4*w], b[4*w+1], b[4*w+2], b[4*w+3] = byte(next()%200), 0, 0, 0
			case 1: // flip a bit
				b[4*w+int(next()%4)] ^= 1 << (next() % 8)
			case 2: // copy another word
				o := 5 + int(next()%uint64(len(b)/4-5))
				copy(b[4*w:4*w+4], b[4*o:4*o+4])
			case 3: // random word
				x := next()
				b[4*w], b[4*w+1], b[4*w+2], b[4*w+3] = byte(x), byte(x>>8), byte(x>>16), byte(x>>24)
			}
		}
		func() {
			defer func() {
				if r := recover(); r != nil {
					t.Fatalf("iteration %d: panic %v\n%s", it, r, debug.Stack())
				}
			}()
			m, err := Parse(b)
			if err != nil {
				return
			}
			_ = m.Disassemble()
			_ = Validate(m)
			_ = m.EntryPoints()
			_ = m.ResourceVars()
			bufs := map[Key][]byte{}
			for _, rv := range m.ResourceVars() {
				bufs[Key{rv.Set, rv.Binding}] = make([]byte, 128)
			}
			res, err := Run(m, RunConfig{Entry: "main", Buffers: bufs, NumWorkgroups: [3]uint32{1, 1, 1}, StepLimit: 20000})
			if err != nil && err != ErrStepLimit && strings.Contains(err.Error(), "internal interpreter error") {
				t.Fatalf("iteration %d: %v", it, err)
			}
			_ = res
		}()
	}
}

// Valid WGSL that GenerateSPIRV rejects (suspected naga defects seen while writing the
// execution tests; they belong to property C08).  Logged, never failed.
func TestNagaRejectsValidPrograms(t *testing.T) {
	progs := map[string]string{
		"compound assignment through a pointer parameter": hdrOA + `
fn bump(p: ptr<function, u32>, by: u32) { *p += by; }
@compute @workgroup_size(1) fn main() { var x = a[0]; bump(&x, 3u); o[0] = x; }`,
		"all() builtin": hdrOI + `
@compute @workgroup_size(1) fn main() { let v = vec3<i32>(a[0], a[1], a[2]); o[0] = select(0, 1, all(v > vec3<i32>(-3))); }`,
		"any() builtin": hdrOI + `
@compute @workgroup_size(1) fn main() { let v = vec3<i32>(a[0], a[1], a[2]); o[0] = select(0, 1, any(v > vec3<i32>(2))); }`,
	}
	for name, src := range progs {
		if _, err := compileWGSL(src, spirv.Version1_3, false); err != nil {
			t.Logf("known defect: %s: %v", name, err)
		} else {
			t.Logf("%s: now accepted", name)
		}
	}
}

func TestDuplicatePointerTypesObservation(t *testing.T) {
	m := mustModule(t, mutSrc, spirv.Version1_3)
	ws := words(m)
	tp := findInst(t, m, func(in *Inst) bool { return in.Op == OpTypePointer })
	ws = insert(ws, tp.Index+1, mkInst(OpTypePointer, m.Bound, tp.Args[0], tp.Args[1]))
	mm, err := Parse(encode(m, ws, m.Bound+1))
	if err != nil {
		t.Fatal(err)
	}
	if is := Validate(mm); len(is) != 0 {
		t.Errorf("duplicate pointer type must not be a violation: %v", is)
	}
	if obs := DuplicatePointerTypes(mm); len(obs) != 1 {
		t.Errorf("observations: %v", obs)
	}
	if obs := DuplicatePointerTypes(m); len(obs) != 0 {
		t.Logf("naga itself duplicates pointer types: %v", obs)
	}
}
