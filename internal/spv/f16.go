package spv

import "math"

// halfToFloat32 converts IEEE binary16 bits to float32 (exact).
func halfToFloat32(h uint16) float32 {
	sign := uint32(h>>15) << 31
	exp := uint32(h>>10) & 0x1f
	man := uint32(h) & 0x3ff
	switch {
	case exp == 0:
		if man == 0 {
			return math.Float32frombits(sign)
		}
		// subnormal: value = man * 2^-24
		f := float32(man) * float32(math.Ldexp(1, -24))
		if sign != 0 {
			f = -f
		}
		return f
	case exp == 31:
		if man == 0 {
			return math.Float32frombits(sign | 0x7f800000)
		}
		return math.Float32frombits(sign | 0x7fc00000 | man<<13)
	}
	return math.Float32frombits(sign | (exp+112)<<23 | man<<13)
}

// float64ToHalf rounds a float64 to binary16 (round to nearest, ties to even).
// Going through float64 directly avoids double rounding when the source is an exact
// float32 or float64 value.
func float64ToHalf(f float64) uint16 {
	b := math.Float64bits(f)
	sign := uint16(b>>48) & 0x8000
	if f != f {
		return sign | 0x7e00
	}
	a := math.Abs(f)
	if math.IsInf(a, 0) {
		return sign | 0x7c00
	}
	if a == 0 {
		return sign
	}
	// Scale so that the unit in the last place of the target is 1, then round to even.
	fr, e := math.Frexp(a) // a = fr * 2^e, fr in [0.5,1)
	// normal half: exponent e-1 in [-14, 15]; 11 significant bits
	var q float64
	var ulpExp int
	if e-1 < -14 {
		ulpExp = -24 // subnormal spacing
	} else {
		ulpExp = e - 1 - 10
	}
	_ = fr
	q = math.RoundToEven(math.Ldexp(a, -ulpExp))
	v := math.Ldexp(q, ulpExp)
	if v >= 65520 { // rounds past max finite (65504 + half ulp = 65520)
		return sign | 0x7c00
	}
	if v == 0 {
		return sign
	}
	_, e2 := math.Frexp(v)
	if e2-1 < -14 {
		return sign | uint16(math.Ldexp(v, 24))
	}
	man := uint16(math.Ldexp(v, -(e2-1)+10)) & 0x3ff
	return sign | uint16(e2-1+15)<<10 | man
}

func float32ToHalf(f float32) uint16 { return float64ToHalf(float64(f)) }
