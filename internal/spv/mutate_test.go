package spv

import (
	"encoding/binary"
	"testing"

	"github.com/gogpu/naga/spirv"
)

// encode re-serialises a module from (possibly edited) instruction word lists.
func encode(m *Module, insts [][]uint32, bound uint32) []byte {
	ws := []uint32{Magic, m.Version, m.Generator, bound, m.Schema}
	for _, in := range insts {
		w := append([]uint32(nil), in...)
		w[0] = uint32(len(w))<<16 | (w[0] & 0xffff)
		ws = append(ws, w...)
	}
	b := make([]byte, 4*len(ws))
	for i, w := range ws {
		binary.LittleEndian.PutUint32(b[4*i:], w)
	}
	return b
}

func words(m *Module) [][]uint32 {
	out := make([][]uint32, len(m.Insts))
	for i, in := range m.Insts {
		out[i] = append([]uint32(nil), in.Words...)
	}
	return out
}

func mkInst(op uint16, ws ...uint32) []uint32 {
	return append([]uint32{uint32(op)}, ws...)
}

const mutSrc = `
struct S { a: vec3<f32>, b: f32, c: array<u32, 3>, m: mat2x3<f32> }
@group(0) @binding(0) var<storage, read_write> out: array<u32>;
@group(0) @binding(1) var<storage, read> inp: S;
var<workgroup> wg: array<u32, 4>;
var<private> pv: i32;
fn helper(p: ptr<function, u32>, k: u32) -> u32 { *p = *p + k; return *p * 2u; }
@compute @workgroup_size(4)
fn main(@builtin(global_invocation_id) gid: vec3<u32>, @builtin(local_invocation_index) li: u32) {
  var x: u32 = gid.x;
  wg[li] = li * 2u;
  workgroupBarrier();
  var acc = 0u;
  for (var i = 0u; i < 4u; i++) {
    if (i == 2u) { continue; }
    acc += wg[i];
  }
  let h = helper(&x, 5u);
  switch (li) {
    case 0u, 1u: { acc += 100u; }
    case 2u: { acc += 200u; }
    default: { acc += 300u; }
  }
  let v = vec2<f32>(inp.b, 1.0) * 2.0;
  out[gid.x] = acc + h + arrayLength(&out) + inp.c[1] + u32(inp.m[1].y) + u32(pv) + u32(v.x);
}
`

type mutant struct {
	name string
	rule string // a rule that must fire
	edit func(t *testing.T, m *Module, ws [][]uint32) ([][]uint32, uint32)
}

func findInst(t *testing.T, m *Module, pred func(*Inst) bool) *Inst {
	t.Helper()
	for _, in := range m.Insts {
		if pred(in) {
			return in
		}
	}
	t.Fatalf("mutation anchor not found")
	return nil
}

func remove(ws [][]uint32, i int) [][]uint32 {
	out := append([][]uint32(nil), ws[:i]...)
	return append(out, ws[i+1:]...)
}

func insert(ws [][]uint32, i int, in []uint32) [][]uint32 {
	out := append([][]uint32(nil), ws[:i]...)
	out = append(out, in)
	return append(out, ws[i:]...)
}

func TestValidateMutants(t *testing.T) {
	for _, ver := range []spirv.Version{spirv.Version1_0, spirv.Version1_4} {
		base := mustModule(t, mutSrc, ver)
		if is := Validate(base); len(is) != 0 {
			t.Fatalf("unmutated module has issues: %v", is)
		}
		opIs := func(op uint16) func(*Inst) bool { return func(in *Inst) bool { return in.Op == op } }
		muts := []mutant{
			{"drop OpLoopMerge", "cfg.back-edge", func(t *testing.T, m *Module, ws [][]uint32) ([][]uint32, uint32) {
				return remove(ws, findInst(t, m, opIs(OpLoopMerge)).Index), m.Bound
			}},
			{"drop OpSelectionMerge before switch", "cfg.merge-missing", func(t *testing.T, m *Module, ws [][]uint32) ([][]uint32, uint32) {
				sw := findInst(t, m, opIs(OpSwitch))
				return remove(ws, sw.Index-1), m.Bound
			}},
			{"duplicate OpTypeVector", "type.duplicate", func(t *testing.T, m *Module, ws [][]uint32) ([][]uint32, uint32) {
				tv := findInst(t, m, opIs(OpTypeVector))
				return insert(ws, tv.Index+1, mkInst(OpTypeVector, m.Bound, tv.Args[0], tv.Args[1])), m.Bound + 1
			}},
			{"64-bit int without capability", "capability.missing", func(t *testing.T, m *Module, ws [][]uint32) ([][]uint32, uint32) {
				tv := findInst(t, m, opIs(OpTypeVector))
				return insert(ws, tv.Index, mkInst(OpTypeInt, m.Bound, 64, 0)), m.Bound + 1
			}},
			{"drop ArrayStride", "layout.array-stride", func(t *testing.T, m *Module, ws [][]uint32) ([][]uint32, uint32) {
				// the runtime array of the output buffer
				ra := findInst(t, m, opIs(OpTypeRuntimeArray))
				d := findInst(t, m, func(in *Inst) bool {
					return in.Op == OpDecorate && in.Arg(0) == ra.Result && in.Arg(1) == DecArrayStride
				})
				return remove(ws, d.Index), m.Bound
			}},
			{"drop member Offset", "layout.offset", func(t *testing.T, m *Module, ws [][]uint32) ([][]uint32, uint32) {
				d := findInst(t, m, func(in *Inst) bool { return in.Op == OpMemberDecorate && in.Arg(2) == DecOffset && in.Arg(1) == 2 })
				return remove(ws, d.Index), m.Bound
			}},
			{"overlapping members", "layout.overlap", func(t *testing.T, m *Module, ws [][]uint32) ([][]uint32, uint32) {
				d := findInst(t, m, func(in *Inst) bool {
					return in.Op == OpMemberDecorate && in.Arg(2) == DecOffset && in.Arg(1) == 1 && in.Arg(3) == 12
				})
				ws[d.Index][4] = 8
				return ws, m.Bound
			}},
			{"drop MatrixStride", "layout.matrix-stride", func(t *testing.T, m *Module, ws [][]uint32) ([][]uint32, uint32) {
				d := findInst(t, m, func(in *Inst) bool { return in.Op == OpMemberDecorate && in.Arg(2) == DecMatrixStride })
				return remove(ws, d.Index), m.Bound
			}},
			{"drop Block", "layout.block", func(t *testing.T, m *Module, ws [][]uint32) ([][]uint32, uint32) {
				d := findInst(t, m, func(in *Inst) bool { return in.Op == OpDecorate && in.Arg(1) == DecBlock })
				return remove(ws, d.Index), m.Bound
			}},
			{"drop Binding", "resource.binding", func(t *testing.T, m *Module, ws [][]uint32) ([][]uint32, uint32) {
				d := findInst(t, m, func(in *Inst) bool { return in.Op == OpDecorate && in.Arg(1) == DecBinding })
				return remove(ws, d.Index), m.Bound
			}},
			{"use before def in sibling block", "ssa.dominance", func(t *testing.T, m *Module, ws [][]uint32) ([][]uint32, uint32) {
				// find the "acc += 100" add inside a switch case and make the "+= 200" case use its result
				var adds []*Inst
				for _, in := range m.Insts {
					if in.Op == OpIAdd {
						if c, ok := m.ConstU32(in.Arg(1)); ok && (c == 100 || c == 200) {
							adds = append(adds, in)
						}
					}
				}
				if len(adds) != 2 {
					t.Fatalf("anchor: %d adds", len(adds))
				}
				ws[adds[1].Index][3] = adds[0].Result
				return ws, m.Bound
			}},
			{"use before def in same block", "ssa.dominance", func(t *testing.T, m *Module, ws [][]uint32) ([][]uint32, uint32) {
				mul := findInst(t, m, opIs(OpIMul))
				ws[mul.Index][3] = mul.Result
				return ws, m.Bound
			}},
			{"omit used input from interface", "entrypoint.interface-missing", func(t *testing.T, m *Module, ws [][]uint32) ([][]uint32, uint32) {
				ep := findInst(t, m, opIs(OpEntryPoint))
				w := ws[ep.Index]
				ws[ep.Index] = w[:len(w)-1]
				return ws, m.Bound
			}},
			{"swap sections", "layout.order", func(t *testing.T, m *Module, ws [][]uint32) ([][]uint32, uint32) {
				a := findInst(t, m, opIs(OpMemoryModel)).Index
				b := findInst(t, m, opIs(OpEntryPoint)).Index
				ws[a], ws[b] = ws[b], ws[a]
				return ws, m.Bound
			}},
			{"types after globals", "id.forward", func(t *testing.T, m *Module, ws [][]uint32) ([][]uint32, uint32) {
				a := findInst(t, m, opIs(OpTypeFloat)).Index
				b := findInst(t, m, opIs(OpTypeVector)).Index
				ws[a], ws[b] = ws[b], ws[a]
				return ws, m.Bound
			}},
			{"duplicate result id", "id.defined-once", func(t *testing.T, m *Module, ws [][]uint32) ([][]uint32, uint32) {
				var adds []*Inst
				for _, in := range m.Insts {
					if in.Op == OpIAdd {
						adds = append(adds, in)
					}
				}
				ws[adds[1].Index][2] = adds[0].Result
				return ws, m.Bound
			}},
			{"bound too small", "header.bound", func(t *testing.T, m *Module, ws [][]uint32) ([][]uint32, uint32) {
				return ws, m.Bound - 1
			}},
			{"undefined id", "id.undefined", func(t *testing.T, m *Module, ws [][]uint32) ([][]uint32, uint32) {
				mul := findInst(t, m, opIs(OpIMul))
				ws[mul.Index][3] = m.Bound
				return ws, m.Bound + 1
			}},
			{"load wrong type", "mem.load-type", func(t *testing.T, m *Module, ws [][]uint32) ([][]uint32, uint32) {
				f := findInst(t, m, opIs(OpTypeFloat))
				ld := findInst(t, m, func(in *Inst) bool { return in.Op == OpLoad && m.Type(in.Type).Kind == TInt })
				ws[ld.Index][1] = f.Result
				return ws, m.Bound
			}},
			{"IAdd on float", "type.result", func(t *testing.T, m *Module, ws [][]uint32) ([][]uint32, uint32) {
				f := findInst(t, m, opIs(OpTypeFloat))
				a := findInst(t, m, opIs(OpIAdd))
				ws[a.Index][1] = f.Result
				return ws, m.Bound
			}},
			{"SLessThan operand mismatch (vector vs scalar)", "type.operand-relation", func(t *testing.T, m *Module, ws [][]uint32) ([][]uint32, uint32) {
				c := findInst(t, m, opIs(OpULessThan))
				gid := findInst(t, m, func(in *Inst) bool {
					return in.Op == OpLoad && m.Type(in.Type).Kind == TVector && m.Type(m.Type(in.Type).Elem).Kind == TInt
				})
				ws[c.Index][3] = gid.Result
				return ws, m.Bound
			}},
			{"access chain struct index out of range", "mem.access-chain", func(t *testing.T, m *Module, ws [][]uint32) ([][]uint32, uint32) {
				var five uint32
				for _, in := range m.Insts {
					if c, ok := m.ConstU32(in.Result); ok && c == 5 && in.Op == OpConstant {
						five = in.Result
					}
				}
				ac := findInst(t, m, func(in *Inst) bool {
					if in.Op != OpAccessChain || len(in.Args) != 2 {
						return false
					}
					pt := m.Type(m.TypeOf(in.Arg(0)))
					return pt != nil && m.Type(pt.Elem).Kind == TStruct && len(m.Type(pt.Elem).Members) == 4
				})
				ws[ac.Index][4] = five
				return ws, m.Bound
			}},
			{"call arity", "call.signature", func(t *testing.T, m *Module, ws [][]uint32) ([][]uint32, uint32) {
				c := findInst(t, m, opIs(OpFunctionCall))
				w := ws[c.Index]
				ws[c.Index] = w[:len(w)-1]
				return ws, m.Bound
			}},
			{"return value type", "return.type", func(t *testing.T, m *Module, ws [][]uint32) ([][]uint32, uint32) {
				r := findInst(t, m, opIs(OpReturnValue))
				p := findInst(t, m, opIs(OpFunctionParameter)) // the pointer parameter
				ws[r.Index][1] = p.Result
				return ws, m.Bound
			}},
			{"variable after code", "var.function-position", func(t *testing.T, m *Module, ws [][]uint32) ([][]uint32, uint32) {
				var vi *Inst
				for _, in := range m.Insts {
					if in.Op == OpVariable && in.Arg(0) == SCFunction {
						vi = in
					}
				}
				// move the last function variable after the following instruction
				ws[vi.Index], ws[vi.Index+1] = ws[vi.Index+1], ws[vi.Index]
				return ws, m.Bound
			}},
			{"variable storage class mismatch", "var.storage-class", func(t *testing.T, m *Module, ws [][]uint32) ([][]uint32, uint32) {
				vi := findInst(t, m, func(in *Inst) bool { return in.Op == OpVariable && in.Arg(0) == SCPrivate })
				ws[vi.Index][3] = SCWorkgroup
				return ws, m.Bound
			}},
			{"instruction after terminator", "block.after-terminator", func(t *testing.T, m *Module, ws [][]uint32) ([][]uint32, uint32) {
				r := findInst(t, m, opIs(OpReturnValue))
				return insert(ws, r.Index+1, mkInst(OpNop+1-1)), m.Bound // OpNop after the terminator
			}},
			{"missing terminator", "block.terminator", func(t *testing.T, m *Module, ws [][]uint32) ([][]uint32, uint32) {
				var br *Inst
				for _, in := range m.Insts {
					if in.Op == OpBranch {
						br = in
					}
				}
				return remove(ws, br.Index), m.Bound
			}},
			{"branch to other function's block", "block.branch-target", func(t *testing.T, m *Module, ws [][]uint32) ([][]uint32, uint32) {
				lab := findInst(t, m, opIs(OpLabel)) // helper's entry block
				var br *Inst
				for _, in := range m.Insts {
					if in.Op == OpBranch {
						br = in
					}
				}
				ws[br.Index][1] = lab.Result
				return ws, m.Bound
			}},
			{"continue target equals merge", "cfg.merge-target", func(t *testing.T, m *Module, ws [][]uint32) ([][]uint32, uint32) {
				lm := findInst(t, m, opIs(OpLoopMerge))
				ws[lm.Index][2] = ws[lm.Index][1]
				return ws, m.Bound
			}},
			{"branch into a construct", "cfg.structured-exit", func(t *testing.T, m *Module, ws [][]uint32) ([][]uint32, uint32) {
				// a "continue" branch inside the loop body is redirected to a switch case block after the loop
				sw := findInst(t, m, opIs(OpSwitch))
				caseLabel := sw.Args[len(sw.Args)-1]
				lm := findInst(t, m, opIs(OpLoopMerge))
				br := findInst(t, m, func(in *Inst) bool { return in.Op == OpBranch && in.Arg(0) == lm.Arg(1) && in.Index > lm.Index })
				ws[br.Index][1] = caseLabel
				return ws, m.Bound
			}},
			{"missing LocalSize", "entrypoint.local-size", func(t *testing.T, m *Module, ws [][]uint32) ([][]uint32, uint32) {
				return remove(ws, findInst(t, m, opIs(OpExecutionMode)).Index), m.Bound
			}},
			{"drop BuiltIn", "interface.location", func(t *testing.T, m *Module, ws [][]uint32) ([][]uint32, uint32) {
				d := findInst(t, m, func(in *Inst) bool { return in.Op == OpDecorate && in.Arg(1) == DecBuiltIn })
				return remove(ws, d.Index), m.Bound
			}},
			{"store type mismatch", "mem.store-type", func(t *testing.T, m *Module, ws [][]uint32) ([][]uint32, uint32) {
				st := findInst(t, m, func(in *Inst) bool { return in.Op == OpStore && m.Def(in.Arg(1)).Op == OpConstant })
				var fc uint32
				for _, in := range m.Insts {
					if in.Op == OpConstant && m.Type(in.Type).Kind == TFloat {
						fc = in.Result
					}
				}
				ws[st.Index][2] = fc
				return ws, m.Bound
			}},
			{"bad version", "header.version", func(t *testing.T, m *Module, ws [][]uint32) ([][]uint32, uint32) {
				m.Version = 0x00010700
				return ws, m.Bound
			}},
			{"composite extract out of range", "composite.shape", func(t *testing.T, m *Module, ws [][]uint32) ([][]uint32, uint32) {
				ce := findInst(t, m, opIs(OpCompositeExtract))
				ws[ce.Index][4] = 7
				return ws, m.Bound
			}},
			{"extinst wrong type", "type.operand-relation", func(t *testing.T, m *Module, ws [][]uint32) ([][]uint32, uint32) {
				vts := findInst(t, m, opIs(OpVectorTimesScalar))
				ws[vts.Index][3], ws[vts.Index][4] = ws[vts.Index][4], ws[vts.Index][3]
				return ws, m.Bound
			}},
		}
		if ver == spirv.Version1_0 {
			muts = append(muts, mutant{"drop storage buffer extension", "extension.missing", func(t *testing.T, m *Module, ws [][]uint32) ([][]uint32, uint32) {
				return remove(ws, findInst(t, m, opIs(OpExtension)).Index), m.Bound
			}})
		} else {
			muts = append(muts, mutant{"omit used storage buffer from interface at 1.4", "entrypoint.interface-missing", func(t *testing.T, m *Module, ws [][]uint32) ([][]uint32, uint32) {
				ep := findInst(t, m, opIs(OpEntryPoint))
				sb := findInst(t, m, func(in *Inst) bool { return in.Op == OpVariable && in.Arg(0) == SCStorageBuffer })
				var w []uint32
				w = append(w, ws[ep.Index][:3]...)
				// keep name words, drop the storage buffer id from the interface list
				nameEnd := 3
				for nameEnd < len(ws[ep.Index]) {
					x := ws[ep.Index][nameEnd]
					nameEnd++
					if x>>24 == 0 {
						break
					}
				}
				w = append(w, ws[ep.Index][3:nameEnd]...)
				for _, id := range ws[ep.Index][nameEnd:] {
					if id != sb.Result {
						w = append(w, id)
					}
				}
				ws[ep.Index] = w
				return ws, m.Bound
			}})
		}
		for _, mu := range muts {
			m := mustModule(t, mutSrc, ver)
			ws, bound := mu.edit(t, m, words(m))
			bin := encode(m, ws, bound)
			mm, err := Parse(bin)
			if err != nil {
				t.Errorf("v1.%d %s: mutated module does not parse: %v", ver.Minor, mu.name, err)
				continue
			}
			issues := Validate(mm)
			hit := false
			for _, is := range issues {
				if is.Rule == mu.rule {
					hit = true
				}
			}
			if !hit {
				t.Errorf("v1.%d mutant %q: rule %s did not fire; got %v", ver.Minor, mu.name, mu.rule, issues)
			}
		}
	}
}

func TestParseErrors(t *testing.T) {
	m := mustModule(t, mutSrc, spirv.Version1_3)
	good := encode(m, words(m), m.Bound)
	if _, err := Parse(good); err != nil {
		t.Fatalf("round trip: %v", err)
	}
	if _, err := Parse(good[:10]); err == nil {
		t.Errorf("short header accepted")
	}
	bad := append([]byte(nil), good...)
	bad[0] ^= 0xff
	if _, err := Parse(bad); err == nil {
		t.Errorf("bad magic accepted")
	}
	trunc := append([]byte(nil), good...)
	binary.LittleEndian.PutUint32(trunc[len(trunc)-4:], 2<<16|OpFunctionEnd)
	if _, err := Parse(trunc); err == nil {
		t.Errorf("truncated instruction accepted")
	}
	zero := append([]byte(nil), good...)
	binary.LittleEndian.PutUint32(zero[20:], 0x00000011) // word count 0
	if _, err := Parse(zero); err == nil {
		t.Errorf("word count 0 accepted")
	}
	if _, err := Parse(good[:len(good)-2]); err == nil {
		t.Errorf("unaligned size accepted")
	}
}
