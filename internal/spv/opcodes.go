package spv

// Operand grammar, written from the SPIR-V specification (unified1 grammar).
//
// Each opcode has a pattern of space separated tokens:
//
//	T        result type id
//	R        result id
//	i i? i*  id reference (required / optional / zero or more)
//	n n? n*  literal integer (one word each)
//	s s?     literal string (nul terminated, word padded)
//	c        context dependent literal: all remaining words (width given by result type)
//	x        extended instruction number (literal)
//	o        OpSpecConstantOp opcode followed by that opcode's operands
//	e:Kind   single word enumerant / bit mask of the given kind (no parameters)
//	e?:Kind  optional enumerant
//	M?       optional MemoryAccess mask followed by its parameters
//	I? I     optional / required ImageOperands mask followed by id parameters
//	D        Decoration followed by its parameters
//	X        ExecutionMode followed by its parameters
//	L        LoopControl mask followed by literal parameters
//	P*       (id, id) pairs            (OpPhi)
//	W*       (literal, id) pairs       (OpSwitch; literal width = selector width)
//	G*       (id, literal) pairs       (OpGroupMemberDecorate)

// Opcode numbers used by name elsewhere in the package.
const (
	OpNop                     = 0
	OpUndef                   = 1
	OpSourceContinued         = 2
	OpSource                  = 3
	OpSourceExtension         = 4
	OpName                    = 5
	OpMemberName              = 6
	OpString                  = 7
	OpLine                    = 8
	OpExtension               = 10
	OpExtInstImport           = 11
	OpExtInst                 = 12
	OpMemoryModel             = 14
	OpEntryPoint              = 15
	OpExecutionMode           = 16
	OpCapability              = 17
	OpTypeVoid                = 19
	OpTypeBool                = 20
	OpTypeInt                 = 21
	OpTypeFloat               = 22
	OpTypeVector              = 23
	OpTypeMatrix              = 24
	OpTypeImage               = 25
	OpTypeSampler             = 26
	OpTypeSampledImage        = 27
	OpTypeArray               = 28
	OpTypeRuntimeArray        = 29
	OpTypeStruct              = 30
	OpTypeOpaque              = 31
	OpTypePointer             = 32
	OpTypeFunction            = 33
	OpTypeEvent               = 34
	OpTypeDeviceEvent         = 35
	OpTypeReserveId           = 36
	OpTypeQueue               = 37
	OpTypePipe                = 38
	OpTypeForwardPointer      = 39
	OpConstantTrue            = 41
	OpConstantFalse           = 42
	OpConstant                = 43
	OpConstantComposite       = 44
	OpConstantSampler         = 45
	OpConstantNull            = 46
	OpSpecConstantTrue        = 48
	OpSpecConstantFalse       = 49
	OpSpecConstant            = 50
	OpSpecConstantComposite   = 51
	OpSpecConstantOp          = 52
	OpFunction                = 54
	OpFunctionParameter       = 55
	OpFunctionEnd             = 56
	OpFunctionCall            = 57
	OpVariable                = 59
	OpImageTexelPointer       = 60
	OpLoad                    = 61
	OpStore                   = 62
	OpCopyMemory              = 63
	OpCopyMemorySized         = 64
	OpAccessChain             = 65
	OpInBoundsAccessChain     = 66
	OpPtrAccessChain          = 67
	OpArrayLength             = 68
	OpInBoundsPtrAccessChain  = 70
	OpDecorate                = 71
	OpMemberDecorate          = 72
	OpDecorationGroup         = 73
	OpGroupDecorate           = 74
	OpGroupMemberDecorate     = 75
	OpVectorExtractDynamic    = 77
	OpVectorInsertDynamic     = 78
	OpVectorShuffle           = 79
	OpCompositeConstruct      = 80
	OpCompositeExtract        = 81
	OpCompositeInsert         = 82
	OpCopyObject              = 83
	OpTranspose               = 84
	OpSampledImage            = 86
	OpImageSampleImplicitLod  = 87
	OpImageFetch              = 95
	OpImageRead               = 98
	OpImageWrite              = 99
	OpImage                   = 100
	OpImageQuerySizeLod       = 103
	OpImageQuerySize          = 104
	OpImageQueryLod           = 105
	OpImageQueryLevels        = 106
	OpImageQuerySamples       = 107
	OpConvertFToU             = 109
	OpConvertFToS             = 110
	OpConvertSToF             = 111
	OpConvertUToF             = 112
	OpUConvert                = 113
	OpSConvert                = 114
	OpFConvert                = 115
	OpQuantizeToF16           = 116
	OpBitcast                 = 124
	OpSNegate                 = 126
	OpFNegate                 = 127
	OpIAdd                    = 128
	OpFAdd                    = 129
	OpISub                    = 130
	OpFSub                    = 131
	OpIMul                    = 132
	OpFMul                    = 133
	OpUDiv                    = 134
	OpSDiv                    = 135
	OpFDiv                    = 136
	OpUMod                    = 137
	OpSRem                    = 138
	OpSMod                    = 139
	OpFRem                    = 140
	OpFMod                    = 141
	OpVectorTimesScalar       = 142
	OpMatrixTimesScalar       = 143
	OpVectorTimesMatrix       = 144
	OpMatrixTimesVector       = 145
	OpMatrixTimesMatrix       = 146
	OpOuterProduct            = 147
	OpDot                     = 148
	OpIAddCarry               = 149
	OpISubBorrow              = 150
	OpUMulExtended            = 151
	OpSMulExtended            = 152
	OpAny                     = 154
	OpAll                     = 155
	OpIsNan                   = 156
	OpIsInf                   = 157
	OpLogicalEqual            = 164
	OpLogicalNotEqual         = 165
	OpLogicalOr               = 166
	OpLogicalAnd              = 167
	OpLogicalNot              = 168
	OpSelect                  = 169
	OpIEqual                  = 170
	OpINotEqual               = 171
	OpUGreaterThan            = 172
	OpSGreaterThan            = 173
	OpUGreaterThanEqual       = 174
	OpSGreaterThanEqual       = 175
	OpULessThan               = 176
	OpSLessThan               = 177
	OpULessThanEqual          = 178
	OpSLessThanEqual          = 179
	OpFOrdEqual               = 180
	OpFUnordEqual             = 181
	OpFOrdNotEqual            = 182
	OpFUnordNotEqual          = 183
	OpFOrdLessThan            = 184
	OpFUnordLessThan          = 185
	OpFOrdGreaterThan         = 186
	OpFUnordGreaterThan       = 187
	OpFOrdLessThanEqual       = 188
	OpFUnordLessThanEqual     = 189
	OpFOrdGreaterThanEqual    = 190
	OpFUnordGreaterThanEqual  = 191
	OpShiftRightLogical       = 194
	OpShiftRightArithmetic    = 195
	OpShiftLeftLogical        = 196
	OpBitwiseOr               = 197
	OpBitwiseXor              = 198
	OpBitwiseAnd              = 199
	OpNot                     = 200
	OpBitFieldInsert          = 201
	OpBitFieldSExtract        = 202
	OpBitFieldUExtract        = 203
	OpBitReverse              = 204
	OpBitCount                = 205
	OpDPdx                    = 207
	OpFwidthCoarse            = 215
	OpControlBarrier          = 224
	OpMemoryBarrier           = 225
	OpAtomicLoad              = 227
	OpAtomicStore             = 228
	OpAtomicExchange          = 229
	OpAtomicCompareExchange   = 230
	OpAtomicCompareExchangeWk = 231
	OpAtomicIIncrement        = 232
	OpAtomicIDecrement        = 233
	OpAtomicIAdd              = 234
	OpAtomicISub              = 235
	OpAtomicSMin              = 236
	OpAtomicUMin              = 237
	OpAtomicSMax              = 238
	OpAtomicUMax              = 239
	OpAtomicAnd               = 240
	OpAtomicOr                = 241
	OpAtomicXor               = 242
	OpPhi                     = 245
	OpLoopMerge               = 246
	OpSelectionMerge          = 247
	OpLabel                   = 248
	OpBranch                  = 249
	OpBranchConditional       = 250
	OpSwitch                  = 251
	OpKill                    = 252
	OpReturn                  = 253
	OpReturnValue             = 254
	OpUnreachable             = 255
	OpModuleProcessed         = 330
	OpExecutionModeId         = 331
	OpDecorateId              = 332
	OpGroupNonUniformElect    = 333
	OpGroupNonUniformQuadSwap = 366
	OpCopyLogical             = 400
	OpTerminateInvocation     = 4416
	OpSDot                    = 4450
	OpUDot                    = 4451
	OpSUDot                   = 4452
	OpSDotAccSat              = 4453
	OpUDotAccSat              = 4454
	OpSUDotAccSat             = 4455
	OpTypeRayQueryKHR         = 4472
	OpTypeAccelStructKHR      = 5341
	OpDemoteToHelper          = 5380
	OpAtomicFAddEXT           = 6035
)

type opInfo struct {
	name string
	pat  string
}

var opTable = map[uint16]opInfo{
	0:   {"OpNop", ""},
	1:   {"OpUndef", "T R"},
	2:   {"OpSourceContinued", "s"},
	3:   {"OpSource", "e:SourceLanguage n i? s?"},
	4:   {"OpSourceExtension", "s"},
	5:   {"OpName", "i s"},
	6:   {"OpMemberName", "i n s"},
	7:   {"OpString", "R s"},
	8:   {"OpLine", "i n n"},
	10:  {"OpExtension", "s"},
	11:  {"OpExtInstImport", "R s"},
	12:  {"OpExtInst", "T R i x i*"},
	14:  {"OpMemoryModel", "e:AddressingModel e:MemoryModel"},
	15:  {"OpEntryPoint", "e:ExecutionModel i s i*"},
	16:  {"OpExecutionMode", "i X"},
	17:  {"OpCapability", "e:Capability"},
	19:  {"OpTypeVoid", "R"},
	20:  {"OpTypeBool", "R"},
	21:  {"OpTypeInt", "R n n"},
	22:  {"OpTypeFloat", "R n n?"},
	23:  {"OpTypeVector", "R i n"},
	24:  {"OpTypeMatrix", "R i n"},
	25:  {"OpTypeImage", "R i e:Dim n n n n e:ImageFormat e?:AccessQualifier"},
	26:  {"OpTypeSampler", "R"},
	27:  {"OpTypeSampledImage", "R i"},
	28:  {"OpTypeArray", "R i i"},
	29:  {"OpTypeRuntimeArray", "R i"},
	30:  {"OpTypeStruct", "R i*"},
	31:  {"OpTypeOpaque", "R s"},
	32:  {"OpTypePointer", "R e:StorageClass i"},
	33:  {"OpTypeFunction", "R i i*"},
	34:  {"OpTypeEvent", "R"},
	35:  {"OpTypeDeviceEvent", "R"},
	36:  {"OpTypeReserveId", "R"},
	37:  {"OpTypeQueue", "R"},
	38:  {"OpTypePipe", "R e:AccessQualifier"},
	39:  {"OpTypeForwardPointer", "i e:StorageClass"},
	41:  {"OpConstantTrue", "T R"},
	42:  {"OpConstantFalse", "T R"},
	43:  {"OpConstant", "T R c"},
	44:  {"OpConstantComposite", "T R i*"},
	45:  {"OpConstantSampler", "T R e:SamplerAddressingMode n e:SamplerFilterMode"},
	46:  {"OpConstantNull", "T R"},
	48:  {"OpSpecConstantTrue", "T R"},
	49:  {"OpSpecConstantFalse", "T R"},
	50:  {"OpSpecConstant", "T R c"},
	51:  {"OpSpecConstantComposite", "T R i*"},
	52:  {"OpSpecConstantOp", "T R o"},
	54:  {"OpFunction", "T R e:FunctionControl i"},
	55:  {"OpFunctionParameter", "T R"},
	56:  {"OpFunctionEnd", ""},
	57:  {"OpFunctionCall", "T R i i*"},
	59:  {"OpVariable", "T R e:StorageClass i?"},
	60:  {"OpImageTexelPointer", "T R i i i"},
	61:  {"OpLoad", "T R i M?"},
	62:  {"OpStore", "i i M?"},
	63:  {"OpCopyMemory", "i i M? M?"},
	64:  {"OpCopyMemorySized", "i i i M? M?"},
	65:  {"OpAccessChain", "T R i i*"},
	66:  {"OpInBoundsAccessChain", "T R i i*"},
	67:  {"OpPtrAccessChain", "T R i i i*"},
	68:  {"OpArrayLength", "T R i n"},
	69:  {"OpGenericPtrMemSemantics", "T R i"},
	70:  {"OpInBoundsPtrAccessChain", "T R i i i*"},
	71:  {"OpDecorate", "i D"},
	72:  {"OpMemberDecorate", "i n D"},
	73:  {"OpDecorationGroup", "R"},
	74:  {"OpGroupDecorate", "i i*"},
	75:  {"OpGroupMemberDecorate", "i G*"},
	77:  {"OpVectorExtractDynamic", "T R i i"},
	78:  {"OpVectorInsertDynamic", "T R i i i"},
	79:  {"OpVectorShuffle", "T R i i n*"},
	80:  {"OpCompositeConstruct", "T R i*"},
	81:  {"OpCompositeExtract", "T R i n*"},
	82:  {"OpCompositeInsert", "T R i i n*"},
	83:  {"OpCopyObject", "T R i"},
	84:  {"OpTranspose", "T R i"},
	86:  {"OpSampledImage", "T R i i"},
	87:  {"OpImageSampleImplicitLod", "T R i i I?"},
	88:  {"OpImageSampleExplicitLod", "T R i i I"},
	89:  {"OpImageSampleDrefImplicitLod", "T R i i i I?"},
	90:  {"OpImageSampleDrefExplicitLod", "T R i i i I"},
	91:  {"OpImageSampleProjImplicitLod", "T R i i I?"},
	92:  {"OpImageSampleProjExplicitLod", "T R i i I"},
	93:  {"OpImageSampleProjDrefImplicitLod", "T R i i i I?"},
	94:  {"OpImageSampleProjDrefExplicitLod", "T R i i i I"},
	95:  {"OpImageFetch", "T R i i I?"},
	96:  {"OpImageGather", "T R i i i I?"},
	97:  {"OpImageDrefGather", "T R i i i I?"},
	98:  {"OpImageRead", "T R i i I?"},
	99:  {"OpImageWrite", "i i i I?"},
	100: {"OpImage", "T R i"},
	101: {"OpImageQueryFormat", "T R i"},
	102: {"OpImageQueryOrder", "T R i"},
	103: {"OpImageQuerySizeLod", "T R i i"},
	104: {"OpImageQuerySize", "T R i"},
	105: {"OpImageQueryLod", "T R i i"},
	106: {"OpImageQueryLevels", "T R i"},
	107: {"OpImageQuerySamples", "T R i"},
	109: {"OpConvertFToU", "T R i"},
	110: {"OpConvertFToS", "T R i"},
	111: {"OpConvertSToF", "T R i"},
	112: {"OpConvertUToF", "T R i"},
	113: {"OpUConvert", "T R i"},
	114: {"OpSConvert", "T R i"},
	115: {"OpFConvert", "T R i"},
	116: {"OpQuantizeToF16", "T R i"},
	117: {"OpConvertPtrToU", "T R i"},
	118: {"OpSatConvertSToU", "T R i"},
	119: {"OpSatConvertUToS", "T R i"},
	120: {"OpConvertUToPtr", "T R i"},
	121: {"OpPtrCastToGeneric", "T R i"},
	122: {"OpGenericCastToPtr", "T R i"},
	123: {"OpGenericCastToPtrExplicit", "T R i e:StorageClass"},
	124: {"OpBitcast", "T R i"},
	126: {"OpSNegate", "T R i"},
	127: {"OpFNegate", "T R i"},
	128: {"OpIAdd", "T R i i"},
	129: {"OpFAdd", "T R i i"},
	130: {"OpISub", "T R i i"},
	131: {"OpFSub", "T R i i"},
	132: {"OpIMul", "T R i i"},
	133: {"OpFMul", "T R i i"},
	134: {"OpUDiv", "T R i i"},
	135: {"OpSDiv", "T R i i"},
	136: {"OpFDiv", "T R i i"},
	137: {"OpUMod", "T R i i"},
	138: {"OpSRem", "T R i i"},
	139: {"OpSMod", "T R i i"},
	140: {"OpFRem", "T R i i"},
	141: {"OpFMod", "T R i i"},
	142: {"OpVectorTimesScalar", "T R i i"},
	143: {"OpMatrixTimesScalar", "T R i i"},
	144: {"OpVectorTimesMatrix", "T R i i"},
	145: {"OpMatrixTimesVector", "T R i i"},
	146: {"OpMatrixTimesMatrix", "T R i i"},
	147: {"OpOuterProduct", "T R i i"},
	148: {"OpDot", "T R i i"},
	149: {"OpIAddCarry", "T R i i"},
	150: {"OpISubBorrow", "T R i i"},
	151: {"OpUMulExtended", "T R i i"},
	152: {"OpSMulExtended", "T R i i"},
	154: {"OpAny", "T R i"},
	155: {"OpAll", "T R i"},
	156: {"OpIsNan", "T R i"},
	157: {"OpIsInf", "T R i"},
	158: {"OpIsFinite", "T R i"},
	159: {"OpIsNormal", "T R i"},
	160: {"OpSignBitSet", "T R i"},
	161: {"OpLessOrGreater", "T R i i"},
	162: {"OpOrdered", "T R i i"},
	163: {"OpUnordered", "T R i i"},
	164: {"OpLogicalEqual", "T R i i"},
	165: {"OpLogicalNotEqual", "T R i i"},
	166: {"OpLogicalOr", "T R i i"},
	167: {"OpLogicalAnd", "T R i i"},
	168: {"OpLogicalNot", "T R i"},
	169: {"OpSelect", "T R i i i"},
	170: {"OpIEqual", "T R i i"},
	171: {"OpINotEqual", "T R i i"},
	172: {"OpUGreaterThan", "T R i i"},
	173: {"OpSGreaterThan", "T R i i"},
	174: {"OpUGreaterThanEqual", "T R i i"},
	175: {"OpSGreaterThanEqual", "T R i i"},
	176: {"OpULessThan", "T R i i"},
	177: {"OpSLessThan", "T R i i"},
	178: {"OpULessThanEqual", "T R i i"},
	179: {"OpSLessThanEqual", "T R i i"},
	180: {"OpFOrdEqual", "T R i i"},
	181: {"OpFUnordEqual", "T R i i"},
	182: {"OpFOrdNotEqual", "T R i i"},
	183: {"OpFUnordNotEqual", "T R i i"},
	184: {"OpFOrdLessThan", "T R i i"},
	185: {"OpFUnordLessThan", "T R i i"},
	186: {"OpFOrdGreaterThan", "T R i i"},
	187: {"OpFUnordGreaterThan", "T R i i"},
	188: {"OpFOrdLessThanEqual", "T R i i"},
	189: {"OpFUnordLessThanEqual", "T R i i"},
	190: {"OpFOrdGreaterThanEqual", "T R i i"},
	191: {"OpFUnordGreaterThanEqual", "T R i i"},
	194: {"OpShiftRightLogical", "T R i i"},
	195: {"OpShiftRightArithmetic", "T R i i"},
	196: {"OpShiftLeftLogical", "T R i i"},
	197: {"OpBitwiseOr", "T R i i"},
	198: {"OpBitwiseXor", "T R i i"},
	199: {"OpBitwiseAnd", "T R i i"},
	200: {"OpNot", "T R i"},
	201: {"OpBitFieldInsert", "T R i i i i"},
	202: {"OpBitFieldSExtract", "T R i i i"},
	203: {"OpBitFieldUExtract", "T R i i i"},
	204: {"OpBitReverse", "T R i"},
	205: {"OpBitCount", "T R i"},
	207: {"OpDPdx", "T R i"},
	208: {"OpDPdy", "T R i"},
	209: {"OpFwidth", "T R i"},
	210: {"OpDPdxFine", "T R i"},
	211: {"OpDPdyFine", "T R i"},
	212: {"OpFwidthFine", "T R i"},
	213: {"OpDPdxCoarse", "T R i"},
	214: {"OpDPdyCoarse", "T R i"},
	215: {"OpFwidthCoarse", "T R i"},
	218: {"OpEmitVertex", ""},
	219: {"OpEndPrimitive", ""},
	220: {"OpEmitStreamVertex", "i"},
	221: {"OpEndStreamPrimitive", "i"},
	224: {"OpControlBarrier", "i i i"},
	225: {"OpMemoryBarrier", "i i"},
	227: {"OpAtomicLoad", "T R i i i"},
	228: {"OpAtomicStore", "i i i i"},
	229: {"OpAtomicExchange", "T R i i i i"},
	230: {"OpAtomicCompareExchange", "T R i i i i i i"},
	231: {"OpAtomicCompareExchangeWeak", "T R i i i i i i"},
	232: {"OpAtomicIIncrement", "T R i i i"},
	233: {"OpAtomicIDecrement", "T R i i i"},
	234: {"OpAtomicIAdd", "T R i i i i"},
	235: {"OpAtomicISub", "T R i i i i"},
	236: {"OpAtomicSMin", "T R i i i i"},
	237: {"OpAtomicUMin", "T R i i i i"},
	238: {"OpAtomicSMax", "T R i i i i"},
	239: {"OpAtomicUMax", "T R i i i i"},
	240: {"OpAtomicAnd", "T R i i i i"},
	241: {"OpAtomicOr", "T R i i i i"},
	242: {"OpAtomicXor", "T R i i i i"},
	245: {"OpPhi", "T R P*"},
	246: {"OpLoopMerge", "i i L"},
	247: {"OpSelectionMerge", "i e:SelectionControl"},
	248: {"OpLabel", "R"},
	249: {"OpBranch", "i"},
	250: {"OpBranchConditional", "i i i n*"},
	251: {"OpSwitch", "i i W*"},
	252: {"OpKill", ""},
	253: {"OpReturn", ""},
	254: {"OpReturnValue", "i"},
	255: {"OpUnreachable", ""},
	256: {"OpLifetimeStart", "i n"},
	257: {"OpLifetimeStop", "i n"},
	317: {"OpNoLine", ""},
	318: {"OpAtomicFlagTestAndSet", "T R i i i"},
	319: {"OpAtomicFlagClear", "i i i"},
	330: {"OpModuleProcessed", "s"},
	331: {"OpExecutionModeId", "i X"},
	332: {"OpDecorateId", "i D"},
	333: {"OpGroupNonUniformElect", "T R i"},
	334: {"OpGroupNonUniformAll", "T R i i"},
	335: {"OpGroupNonUniformAny", "T R i i"},
	336: {"OpGroupNonUniformAllEqual", "T R i i"},
	337: {"OpGroupNonUniformBroadcast", "T R i i i"},
	338: {"OpGroupNonUniformBroadcastFirst", "T R i i"},
	339: {"OpGroupNonUniformBallot", "T R i i"},
	340: {"OpGroupNonUniformInverseBallot", "T R i i"},
	341: {"OpGroupNonUniformBallotBitExtract", "T R i i i"},
	342: {"OpGroupNonUniformBallotBitCount", "T R i e:GroupOperation i"},
	343: {"OpGroupNonUniformBallotFindLSB", "T R i i"},
	344: {"OpGroupNonUniformBallotFindMSB", "T R i i"},
	345: {"OpGroupNonUniformShuffle", "T R i i i"},
	346: {"OpGroupNonUniformShuffleXor", "T R i i i"},
	347: {"OpGroupNonUniformShuffleUp", "T R i i i"},
	348: {"OpGroupNonUniformShuffleDown", "T R i i i"},
	349: {"OpGroupNonUniformIAdd", "T R i e:GroupOperation i i?"},
	350: {"OpGroupNonUniformFAdd", "T R i e:GroupOperation i i?"},
	351: {"OpGroupNonUniformIMul", "T R i e:GroupOperation i i?"},
	352: {"OpGroupNonUniformFMul", "T R i e:GroupOperation i i?"},
	353: {"OpGroupNonUniformSMin", "T R i e:GroupOperation i i?"},
	354: {"OpGroupNonUniformUMin", "T R i e:GroupOperation i i?"},
	355: {"OpGroupNonUniformFMin", "T R i e:GroupOperation i i?"},
	356: {"OpGroupNonUniformSMax", "T R i e:GroupOperation i i?"},
	357: {"OpGroupNonUniformUMax", "T R i e:GroupOperation i i?"},
	358: {"OpGroupNonUniformFMax", "T R i e:GroupOperation i i?"},
	359: {"OpGroupNonUniformBitwiseAnd", "T R i e:GroupOperation i i?"},
	360: {"OpGroupNonUniformBitwiseOr", "T R i e:GroupOperation i i?"},
	361: {"OpGroupNonUniformBitwiseXor", "T R i e:GroupOperation i i?"},
	362: {"OpGroupNonUniformLogicalAnd", "T R i e:GroupOperation i i?"},
	363: {"OpGroupNonUniformLogicalOr", "T R i e:GroupOperation i i?"},
	364: {"OpGroupNonUniformLogicalXor", "T R i e:GroupOperation i i?"},
	365: {"OpGroupNonUniformQuadBroadcast", "T R i i i"},
	366: {"OpGroupNonUniformQuadSwap", "T R i i i"},
	400: {"OpCopyLogical", "T R i"},
	401: {"OpPtrEqual", "T R i i"},
	402: {"OpPtrNotEqual", "T R i i"},
	403: {"OpPtrDiff", "T R i i"},

	4416: {"OpTerminateInvocation", ""},
	4450: {"OpSDot", "T R i i e?:PackedVectorFormat"},
	4451: {"OpUDot", "T R i i e?:PackedVectorFormat"},
	4452: {"OpSUDot", "T R i i e?:PackedVectorFormat"},
	4453: {"OpSDotAccSat", "T R i i i e?:PackedVectorFormat"},
	4454: {"OpUDotAccSat", "T R i i i e?:PackedVectorFormat"},
	4455: {"OpSUDotAccSat", "T R i i i e?:PackedVectorFormat"},
	4472: {"OpTypeRayQueryKHR", "R"},
	4473: {"OpRayQueryInitializeKHR", "i i i i i i i i"},
	4474: {"OpRayQueryTerminateKHR", "i"},
	4475: {"OpRayQueryGenerateIntersectionKHR", "i i"},
	4476: {"OpRayQueryConfirmIntersectionKHR", "i"},
	4477: {"OpRayQueryProceedKHR", "T R i"},
	4479: {"OpRayQueryGetIntersectionTypeKHR", "T R i i"},
	5341: {"OpTypeAccelerationStructureKHR", "R"},
	5380: {"OpDemoteToHelperInvocation", ""},
	5381: {"OpIsHelperInvocationEXT", "T R"},
	6016: {"OpRayQueryGetRayTMinKHR", "T R i"},
	6017: {"OpRayQueryGetRayFlagsKHR", "T R i"},
	6018: {"OpRayQueryGetIntersectionTKHR", "T R i i"},
	6019: {"OpRayQueryGetIntersectionInstanceCustomIndexKHR", "T R i i"},
	6020: {"OpRayQueryGetIntersectionInstanceIdKHR", "T R i i"},
	6021: {"OpRayQueryGetIntersectionInstanceShaderBindingTableRecordOffsetKHR", "T R i i"},
	6022: {"OpRayQueryGetIntersectionGeometryIndexKHR", "T R i i"},
	6023: {"OpRayQueryGetIntersectionPrimitiveIndexKHR", "T R i i"},
	6024: {"OpRayQueryGetIntersectionBarycentricsKHR", "T R i i"},
	6025: {"OpRayQueryGetIntersectionFrontFaceKHR", "T R i i"},
	6026: {"OpRayQueryGetIntersectionCandidateAABBOpaqueKHR", "T R i"},
	6027: {"OpRayQueryGetIntersectionObjectRayDirectionKHR", "T R i i"},
	6028: {"OpRayQueryGetIntersectionObjectRayOriginKHR", "T R i i"},
	6029: {"OpRayQueryGetWorldRayDirectionKHR", "T R i"},
	6030: {"OpRayQueryGetWorldRayOriginKHR", "T R i"},
	6031: {"OpRayQueryGetIntersectionObjectToWorldKHR", "T R i i"},
	6032: {"OpRayQueryGetIntersectionWorldToObjectKHR", "T R i i"},
	6035: {"OpAtomicFAddEXT", "T R i i i i"},
}

// OpName returns the mnemonic of an opcode ("Op#123" when unknown).
func OpcodeName(op uint16) string {
	if oi, ok := opTable[op]; ok {
		return oi.name
	}
	return "Op#" + utoa(uint32(op))
}

func utoa(v uint32) string {
	if v == 0 {
		return "0"
	}
	var b [10]byte
	i := len(b)
	for v > 0 {
		i--
		b[i] = byte('0' + v%10)
		v /= 10
	}
	return string(b[i:])
}

// Storage classes.
const (
	SCUniformConstant = 0
	SCInput           = 1
	SCUniform         = 2
	SCOutput          = 3
	SCWorkgroup       = 4
	SCCrossWorkgroup  = 5
	SCPrivate         = 6
	SCFunction        = 7
	SCGeneric         = 8
	SCPushConstant    = 9
	SCAtomicCounter   = 10
	SCImage           = 11
	SCStorageBuffer   = 12
	SCPhysicalStorage = 5349
	SCTaskPayloadEXT  = 5402
)

// Decorations.
const (
	DecRelaxedPrecision = 0
	DecSpecId           = 1
	DecBlock            = 2
	DecBufferBlock      = 3
	DecRowMajor         = 4
	DecColMajor         = 5
	DecArrayStride      = 6
	DecMatrixStride     = 7
	DecBuiltIn          = 11
	DecNoPerspective    = 13
	DecFlat             = 14
	DecPatch            = 15
	DecCentroid         = 16
	DecSample           = 17
	DecInvariant        = 18
	DecRestrict         = 19
	DecAliased          = 20
	DecVolatile         = 21
	DecCoherent         = 23
	DecNonWritable      = 24
	DecNonReadable      = 25
	DecUniformId        = 27
	DecLocation         = 30
	DecComponent        = 31
	DecIndex            = 32
	DecBinding          = 33
	DecDescriptorSet    = 34
	DecOffset           = 35
	DecLinkage          = 41
	DecNoContraction    = 42
	DecInputAttachment  = 43
	DecAlignmentId      = 46
	DecMaxByteOffsetId  = 47
	DecPerPrimitiveEXT  = 5271
	DecNonUniform       = 5300
	DecCounterBuffer    = 5634
	DecUserSemantic     = 5635
	DecUserTypeGOOGLE   = 5636
	DecPerVertexKHR     = 5285
)

// BuiltIns used by the interpreter / validator.
const (
	BIPosition             = 0
	BIPointSize            = 1
	BIClipDistance         = 3
	BICullDistance         = 4
	BIPrimitiveId          = 7
	BILayer                = 9
	BIViewportIndex        = 10
	BIFragCoord            = 15
	BIFrontFacing          = 17
	BISampleId             = 18
	BISamplePosition       = 19
	BISampleMask           = 20
	BIFragDepth            = 22
	BINumWorkgroups        = 24
	BIWorkgroupSize        = 25
	BIWorkgroupId          = 26
	BILocalInvocationId    = 27
	BIGlobalInvocationId   = 28
	BILocalInvocationIndex = 29
	BISubgroupSize         = 36
	BINumSubgroups         = 38
	BISubgroupId           = 40
	BISubgroupLocalInvId   = 41
	BIVertexIndex          = 42
	BIInstanceIndex        = 43
	BIBaseVertex           = 4424
	BIBaseInstance         = 4425
	BIDrawIndex            = 4426
	BIViewIndex            = 4440
	BIBaryCoordKHR         = 5286
	BIBaryCoordNoPerspKHR  = 5287
)

// Execution models.
const (
	EMVertex    = 0
	EMTessCtrl  = 1
	EMTessEval  = 2
	EMGeometry  = 3
	EMFragment  = 4
	EMGLCompute = 5
	EMKernel    = 6
	EMTaskNV    = 5267
	EMMeshNV    = 5268
	EMTaskEXT   = 5364
	EMMeshEXT   = 5365
)

// Execution modes.
const (
	XMOriginUpperLeft = 7
	XMOriginLowerLeft = 8
	XMLocalSize       = 17
	XMLocalSizeId     = 38
)

var enumNames = map[string]map[uint32]string{
	"SourceLanguage":  {0: "Unknown", 1: "ESSL", 2: "GLSL", 3: "OpenCL_C", 4: "OpenCL_CPP", 5: "HLSL", 6: "CPP_for_OpenCL", 7: "SYCL", 10: "WGSL", 11: "Slang", 12: "Zig"},
	"AddressingModel": {0: "Logical", 1: "Physical32", 2: "Physical64", 5348: "PhysicalStorageBuffer64"},
	"MemoryModel":     {0: "Simple", 1: "GLSL450", 2: "OpenCL", 3: "Vulkan"},
	"ExecutionModel": {0: "Vertex", 1: "TessellationControl", 2: "TessellationEvaluation", 3: "Geometry", 4: "Fragment", 5: "GLCompute", 6: "Kernel",
		5267: "TaskNV", 5268: "MeshNV", 5313: "RayGenerationKHR", 5314: "IntersectionKHR", 5315: "AnyHitKHR", 5316: "ClosestHitKHR", 5317: "MissKHR", 5318: "CallableKHR", 5364: "TaskEXT", 5365: "MeshEXT"},
	"StorageClass": {0: "UniformConstant", 1: "Input", 2: "Uniform", 3: "Output", 4: "Workgroup", 5: "CrossWorkgroup", 6: "Private", 7: "Function", 8: "Generic", 9: "PushConstant", 10: "AtomicCounter", 11: "Image", 12: "StorageBuffer",
		5328: "CallableDataKHR", 5329: "IncomingCallableDataKHR", 5338: "RayPayloadKHR", 5339: "HitAttributeKHR", 5342: "IncomingRayPayloadKHR", 5343: "ShaderRecordBufferKHR", 5349: "PhysicalStorageBuffer", 5402: "TaskPayloadWorkgroupEXT"},
	"Dim": {0: "1D", 1: "2D", 2: "3D", 3: "Cube", 4: "Rect", 5: "Buffer", 6: "SubpassData"},
	"ImageFormat": {0: "Unknown", 1: "Rgba32f", 2: "Rgba16f", 3: "R32f", 4: "Rgba8", 5: "Rgba8Snorm", 6: "Rg32f", 7: "Rg16f", 8: "R11fG11fB10f", 9: "R16f", 10: "Rgba16", 11: "Rgb10A2", 12: "Rg16", 13: "Rg8", 14: "R16", 15: "R8",
		16: "Rgba16Snorm", 17: "Rg16Snorm", 18: "Rg8Snorm", 19: "R16Snorm", 20: "R8Snorm", 21: "Rgba32i", 22: "Rgba16i", 23: "Rgba8i", 24: "R32i", 25: "Rg32i", 26: "Rg16i", 27: "Rg8i", 28: "R16i", 29: "R8i",
		30: "Rgba32ui", 31: "Rgba16ui", 32: "Rgba8ui", 33: "R32ui", 34: "Rgb10a2ui", 35: "Rg32ui", 36: "Rg16ui", 37: "Rg8ui", 38: "R16ui", 39: "R8ui", 40: "R64ui", 41: "R64i"},
	"AccessQualifier":       {0: "ReadOnly", 1: "WriteOnly", 2: "ReadWrite"},
	"SamplerAddressingMode": {0: "None", 1: "ClampToEdge", 2: "Clamp", 3: "Repeat", 4: "RepeatMirrored"},
	"SamplerFilterMode":     {0: "Nearest", 1: "Linear"},
	"GroupOperation":        {0: "Reduce", 1: "InclusiveScan", 2: "ExclusiveScan", 3: "ClusteredReduce"},
	"PackedVectorFormat":    {0: "PackedVectorFormat4x8Bit"},
	"Scope":                 {0: "CrossDevice", 1: "Device", 2: "Workgroup", 3: "Subgroup", 4: "Invocation", 5: "QueueFamily", 6: "ShaderCallKHR"},
	"Decoration": {0: "RelaxedPrecision", 1: "SpecId", 2: "Block", 3: "BufferBlock", 4: "RowMajor", 5: "ColMajor", 6: "ArrayStride", 7: "MatrixStride", 8: "GLSLShared", 9: "GLSLPacked", 10: "CPacked", 11: "BuiltIn",
		13: "NoPerspective", 14: "Flat", 15: "Patch", 16: "Centroid", 17: "Sample", 18: "Invariant", 19: "Restrict", 20: "Aliased", 21: "Volatile", 22: "Constant", 23: "Coherent", 24: "NonWritable", 25: "NonReadable",
		26: "Uniform", 27: "UniformId", 28: "SaturatedConversion", 29: "Stream", 30: "Location", 31: "Component", 32: "Index", 33: "Binding", 34: "DescriptorSet", 35: "Offset", 36: "XfbBuffer", 37: "XfbStride",
		38: "FuncParamAttr", 39: "FPRoundingMode", 40: "FPFastMathMode", 41: "LinkageAttributes", 42: "NoContraction", 43: "InputAttachmentIndex", 44: "Alignment", 45: "MaxByteOffset", 46: "AlignmentId", 47: "MaxByteOffsetId",
		4469: "NoSignedWrap", 4470: "NoUnsignedWrap", 5271: "PerPrimitiveEXT", 5272: "PerViewNV", 5273: "PerTaskNV", 5285: "PerVertexKHR", 5300: "NonUniform", 5355: "RestrictPointer", 5356: "AliasedPointer",
		5634: "CounterBuffer", 5635: "UserSemantic", 5636: "UserTypeGOOGLE"},
	"BuiltIn": {0: "Position", 1: "PointSize", 3: "ClipDistance", 4: "CullDistance", 5: "VertexId", 6: "InstanceId", 7: "PrimitiveId", 8: "InvocationId", 9: "Layer", 10: "ViewportIndex",
		11: "TessLevelOuter", 12: "TessLevelInner", 13: "TessCoord", 14: "PatchVertices", 15: "FragCoord", 16: "PointCoord", 17: "FrontFacing", 18: "SampleId", 19: "SamplePosition", 20: "SampleMask",
		22: "FragDepth", 23: "HelperInvocation", 24: "NumWorkgroups", 25: "WorkgroupSize", 26: "WorkgroupId", 27: "LocalInvocationId", 28: "GlobalInvocationId", 29: "LocalInvocationIndex",
		30: "WorkDim", 31: "GlobalSize", 32: "EnqueuedWorkgroupSize", 33: "GlobalOffset", 34: "GlobalLinearId", 36: "SubgroupSize", 37: "SubgroupMaxSize", 38: "NumSubgroups", 39: "NumEnqueuedSubgroups",
		40: "SubgroupId", 41: "SubgroupLocalInvocationId", 42: "VertexIndex", 43: "InstanceIndex", 4416: "SubgroupEqMask", 4417: "SubgroupGeMask", 4418: "SubgroupGtMask", 4419: "SubgroupLeMask", 4420: "SubgroupLtMask",
		4424: "BaseVertex", 4425: "BaseInstance", 4426: "DrawIndex", 4438: "DeviceIndex", 4440: "ViewIndex", 5014: "FragStencilRefEXT", 5286: "BaryCoordKHR", 5287: "BaryCoordNoPerspKHR",
		5294: "PrimitivePointIndicesEXT", 5295: "PrimitiveLineIndicesEXT", 5296: "PrimitiveTriangleIndicesEXT", 5299: "CullPrimitiveEXT"},
	"ExecutionMode": {0: "Invocations", 1: "SpacingEqual", 2: "SpacingFractionalEven", 3: "SpacingFractionalOdd", 4: "VertexOrderCw", 5: "VertexOrderCcw", 6: "PixelCenterInteger", 7: "OriginUpperLeft", 8: "OriginLowerLeft",
		9: "EarlyFragmentTests", 10: "PointMode", 11: "Xfb", 12: "DepthReplacing", 14: "DepthGreater", 15: "DepthLess", 16: "DepthUnchanged", 17: "LocalSize", 18: "LocalSizeHint", 19: "InputPoints", 20: "InputLines",
		21: "InputLinesAdjacency", 22: "Triangles", 23: "InputTrianglesAdjacency", 24: "Quads", 25: "Isolines", 26: "OutputVertices", 27: "OutputPoints", 28: "OutputLineStrip", 29: "OutputTriangleStrip",
		30: "VecTypeHint", 31: "ContractionOff", 33: "Initializer", 34: "Finalizer", 35: "SubgroupSize", 36: "SubgroupsPerWorkgroup", 37: "SubgroupsPerWorkgroupId", 38: "LocalSizeId", 39: "LocalSizeHintId",
		4446: "PostDepthCoverage", 4459: "DenormPreserve", 4460: "DenormFlushToZero", 4461: "SignedZeroInfNanPreserve", 4462: "RoundingModeRTE", 4463: "RoundingModeRTZ", 5027: "StencilRefReplacingEXT",
		5269: "OutputLinesEXT", 5270: "OutputPrimitivesEXT", 5289: "DerivativeGroupQuadsNV", 5290: "DerivativeGroupLinearNV", 5298: "OutputTrianglesEXT"},
	"Capability": {0: "Matrix", 1: "Shader", 2: "Geometry", 3: "Tessellation", 4: "Addresses", 5: "Linkage", 6: "Kernel", 7: "Vector16", 8: "Float16Buffer", 9: "Float16", 10: "Float64", 11: "Int64", 12: "Int64Atomics",
		13: "ImageBasic", 14: "ImageReadWrite", 15: "ImageMipmap", 17: "Pipes", 18: "Groups", 19: "DeviceEnqueue", 20: "LiteralSampler", 21: "AtomicStorage", 22: "Int16", 23: "TessellationPointSize", 24: "GeometryPointSize",
		25: "ImageGatherExtended", 27: "StorageImageMultisample", 28: "UniformBufferArrayDynamicIndexing", 29: "SampledImageArrayDynamicIndexing", 30: "StorageBufferArrayDynamicIndexing", 31: "StorageImageArrayDynamicIndexing",
		32: "ClipDistance", 33: "CullDistance", 34: "ImageCubeArray", 35: "SampleRateShading", 36: "ImageRect", 37: "SampledRect", 38: "GenericPointer", 39: "Int8", 40: "InputAttachment", 41: "SparseResidency", 42: "MinLod",
		43: "Sampled1D", 44: "Image1D", 45: "SampledCubeArray", 46: "SampledBuffer", 47: "ImageBuffer", 48: "ImageMSArray", 49: "StorageImageExtendedFormats", 50: "ImageQuery", 51: "DerivativeControl",
		52: "InterpolationFunction", 53: "TransformFeedback", 54: "GeometryStreams", 55: "StorageImageReadWithoutFormat", 56: "StorageImageWriteWithoutFormat", 57: "MultiViewport", 58: "SubgroupDispatch", 59: "NamedBarrier",
		60: "PipeStorage", 61: "GroupNonUniform", 62: "GroupNonUniformVote", 63: "GroupNonUniformArithmetic", 64: "GroupNonUniformBallot", 65: "GroupNonUniformShuffle", 66: "GroupNonUniformShuffleRelative",
		67: "GroupNonUniformClustered", 68: "GroupNonUniformQuad", 69: "ShaderLayer", 70: "ShaderViewportIndex", 71: "UniformDecoration",
		4423: "SubgroupBallotKHR", 4427: "DrawParameters", 4428: "WorkgroupMemoryExplicitLayoutKHR", 4431: "SubgroupVoteKHR", 4433: "StorageBuffer16BitAccess", 4434: "UniformAndStorageBuffer16BitAccess",
		4435: "StoragePushConstant16", 4436: "StorageInputOutput16", 4437: "DeviceGroup", 4439: "MultiView", 4441: "VariablePointersStorageBuffer", 4442: "VariablePointers", 4445: "AtomicStorageOps",
		4447: "SampleMaskPostDepthCoverage", 4448: "StorageBuffer8BitAccess", 4449: "UniformAndStorageBuffer8BitAccess", 4450: "StoragePushConstant8", 4464: "DenormPreserve", 4465: "DenormFlushToZero",
		4466: "SignedZeroInfNanPreserve", 4467: "RoundingModeRTE", 4468: "RoundingModeRTZ", 4471: "RayQueryProvisionalKHR", 4472: "RayQueryKHR", 4478: "RayTraversalPrimitiveCullingKHR", 4479: "RayTracingKHR",
		5013: "StencilExportEXT", 5016: "Int64ImageEXT", 5055: "ShaderClockKHR", 5266: "MeshShadingNV", 5283: "MeshShadingEXT", 5284: "FragmentBarycentricKHR", 5291: "FragmentDensityEXT",
		5301: "ShaderNonUniform", 5302: "RuntimeDescriptorArray", 5345: "VulkanMemoryModel", 5346: "VulkanMemoryModelDeviceScope", 5347: "PhysicalStorageBufferAddresses", 5379: "DemoteToHelperInvocation",
		5612: "AtomicFloat32MinMaxEXT", 6016: "DotProductInputAll", 6017: "DotProductInput4x8Bit", 6018: "DotProductInput4x8BitPacked", 6019: "DotProduct", 6033: "AtomicFloat32AddEXT", 6034: "AtomicFloat64AddEXT"},
}

var maskNames = map[string][]string{
	"FunctionControl":  {"Inline", "DontInline", "Pure", "Const"},
	"SelectionControl": {"Flatten", "DontFlatten"},
	"LoopControl":      {"Unroll", "DontUnroll", "DependencyInfinite", "DependencyLength", "MinIterations", "MaxIterations", "IterationMultiple", "PeelCount", "PartialCount"},
	"MemoryAccess":     {"Volatile", "Aligned", "Nontemporal", "MakePointerAvailable", "MakePointerVisible", "NonPrivatePointer"},
	"ImageOperands":    {"Bias", "Lod", "Grad", "ConstOffset", "Offset", "ConstOffsets", "Sample", "MinLod", "MakeTexelAvailable", "MakeTexelVisible", "NonPrivateTexel", "VolatileTexel", "SignExtend", "ZeroExtend", "Nontemporal", "", "Offsets"},
}

// EnumName returns the spec name of an enumerant ("Kind(N)" if unknown).
func EnumName(kind string, v uint32) string {
	if mn, ok := maskNames[kind]; ok {
		if v == 0 {
			return "None"
		}
		s := ""
		for i := 0; i < 32; i++ {
			if v&(1<<uint(i)) != 0 {
				n := "bit" + utoa(uint32(i))
				if i < len(mn) && mn[i] != "" {
					n = mn[i]
				}
				if s != "" {
					s += "|"
				}
				s += n
			}
		}
		return s
	}
	if m, ok := enumNames[kind]; ok {
		if n, ok := m[v]; ok {
			return n
		}
	}
	return kind + "(" + utoa(v) + ")"
}

// GLSL.std.450 extended instruction numbers.
const (
	GLRound                 = 1
	GLRoundEven             = 2
	GLTrunc                 = 3
	GLFAbs                  = 4
	GLSAbs                  = 5
	GLFSign                 = 6
	GLSSign                 = 7
	GLFloor                 = 8
	GLCeil                  = 9
	GLFract                 = 10
	GLRadians               = 11
	GLDegrees               = 12
	GLSin                   = 13
	GLCos                   = 14
	GLTan                   = 15
	GLAsin                  = 16
	GLAcos                  = 17
	GLAtan                  = 18
	GLSinh                  = 19
	GLCosh                  = 20
	GLTanh                  = 21
	GLAsinh                 = 22
	GLAcosh                 = 23
	GLAtanh                 = 24
	GLAtan2                 = 25
	GLPow                   = 26
	GLExp                   = 27
	GLLog                   = 28
	GLExp2                  = 29
	GLLog2                  = 30
	GLSqrt                  = 31
	GLInverseSqrt           = 32
	GLDeterminant           = 33
	GLMatrixInverse         = 34
	GLModf                  = 35
	GLModfStruct            = 36
	GLFMin                  = 37
	GLUMin                  = 38
	GLSMin                  = 39
	GLFMax                  = 40
	GLUMax                  = 41
	GLSMax                  = 42
	GLFClamp                = 43
	GLUClamp                = 44
	GLSClamp                = 45
	GLFMix                  = 46
	GLIMix                  = 47
	GLStep                  = 48
	GLSmoothStep            = 49
	GLFma                   = 50
	GLFrexp                 = 51
	GLFrexpStruct           = 52
	GLLdexp                 = 53
	GLPackSnorm4x8          = 54
	GLPackUnorm4x8          = 55
	GLPackSnorm2x16         = 56
	GLPackUnorm2x16         = 57
	GLPackHalf2x16          = 58
	GLPackDouble2x32        = 59
	GLUnpackSnorm2x16       = 60
	GLUnpackUnorm2x16       = 61
	GLUnpackHalf2x16        = 62
	GLUnpackSnorm4x8        = 63
	GLUnpackUnorm4x8        = 64
	GLUnpackDouble2x32      = 65
	GLLength                = 66
	GLDistance              = 67
	GLCross                 = 68
	GLNormalize             = 69
	GLFaceForward           = 70
	GLReflect               = 71
	GLRefract               = 72
	GLFindILsb              = 73
	GLFindSMsb              = 74
	GLFindUMsb              = 75
	GLInterpolateAtCentroid = 76
	GLInterpolateAtSample   = 77
	GLInterpolateAtOffset   = 78
	GLNMin                  = 79
	GLNMax                  = 80
	GLNClamp                = 81
)

var glslNames = map[uint32]string{
	1: "Round", 2: "RoundEven", 3: "Trunc", 4: "FAbs", 5: "SAbs", 6: "FSign", 7: "SSign", 8: "Floor", 9: "Ceil", 10: "Fract", 11: "Radians", 12: "Degrees",
	13: "Sin", 14: "Cos", 15: "Tan", 16: "Asin", 17: "Acos", 18: "Atan", 19: "Sinh", 20: "Cosh", 21: "Tanh", 22: "Asinh", 23: "Acosh", 24: "Atanh", 25: "Atan2",
	26: "Pow", 27: "Exp", 28: "Log", 29: "Exp2", 30: "Log2", 31: "Sqrt", 32: "InverseSqrt", 33: "Determinant", 34: "MatrixInverse", 35: "Modf", 36: "ModfStruct",
	37: "FMin", 38: "UMin", 39: "SMin", 40: "FMax", 41: "UMax", 42: "SMax", 43: "FClamp", 44: "UClamp", 45: "SClamp", 46: "FMix", 47: "IMix", 48: "Step", 49: "SmoothStep",
	50: "Fma", 51: "Frexp", 52: "FrexpStruct", 53: "Ldexp", 54: "PackSnorm4x8", 55: "PackUnorm4x8", 56: "PackSnorm2x16", 57: "PackUnorm2x16", 58: "PackHalf2x16", 59: "PackDouble2x32",
	60: "UnpackSnorm2x16", 61: "UnpackUnorm2x16", 62: "UnpackHalf2x16", 63: "UnpackSnorm4x8", 64: "UnpackUnorm4x8", 65: "UnpackDouble2x32", 66: "Length", 67: "Distance", 68: "Cross",
	69: "Normalize", 70: "FaceForward", 71: "Reflect", 72: "Refract", 73: "FindILsb", 74: "FindSMsb", 75: "FindUMsb", 76: "InterpolateAtCentroid", 77: "InterpolateAtSample",
	78: "InterpolateAtOffset", 79: "NMin", 80: "NMax", 81: "NClamp",
}

// GLSLName returns the GLSL.std.450 instruction name.
func GLSLName(n uint32) string {
	if s, ok := glslNames[n]; ok {
		return s
	}
	return "GLSL#" + utoa(n)
}
