package spv

import (
	"encoding/binary"
	"fmt"
	"math"
	"testing"

	"github.com/gogpu/naga"
	"github.com/gogpu/naga/spirv"
)

// compileWGSL runs the pipeline under test: Parse -> LowerWithSource -> GenerateSPIRV.
func compileWGSL(src string, ver spirv.Version, debug bool) (bin []byte, err error) {
	return compileWGSLOpts(src, spirv.Options{Version: ver, Debug: debug})
}

func compileWGSLOpts(src string, opts spirv.Options) (bin []byte, err error) {
	defer func() {
		if r := recover(); r != nil {
			err = fmt.Errorf("panic: %v", r)
		}
	}()
	ast, err := naga.Parse(src)
	if err != nil {
		return nil, err
	}
	mod, err := naga.LowerWithSource(ast, src)
	if err != nil {
		return nil, err
	}
	return naga.GenerateSPIRV(mod, opts)
}

func mustModule(t testing.TB, src string, ver spirv.Version) *Module {
	t.Helper()
	bin, err := compileWGSL(src, ver, true)
	if err != nil {
		t.Fatalf("compile: %v", err)
	}
	m, err := Parse(bin)
	if err != nil {
		t.Fatalf("parse: %v", err)
	}
	return m
}

func u32s(vs ...uint32) []byte {
	b := make([]byte, 4*len(vs))
	for i, v := range vs {
		binary.LittleEndian.PutUint32(b[4*i:], v)
	}
	return b
}

func i32s(vs ...int32) []byte {
	b := make([]byte, 4*len(vs))
	for i, v := range vs {
		binary.LittleEndian.PutUint32(b[4*i:], uint32(v))
	}
	return b
}

func f32s(vs ...float32) []byte {
	b := make([]byte, 4*len(vs))
	for i, v := range vs {
		binary.LittleEndian.PutUint32(b[4*i:], math.Float32bits(v))
	}
	return b
}

func getU32(b []byte) []uint32 {
	out := make([]uint32, len(b)/4)
	for i := range out {
		out[i] = binary.LittleEndian.Uint32(b[4*i:])
	}
	return out
}

func getI32(b []byte) []int32 {
	out := make([]int32, len(b)/4)
	for i := range out {
		out[i] = int32(binary.LittleEndian.Uint32(b[4*i:]))
	}
	return out
}

func getF32(b []byte) []float32 {
	out := make([]float32, len(b)/4)
	for i := range out {
		out[i] = math.Float32frombits(binary.LittleEndian.Uint32(b[4*i:]))
	}
	return out
}
