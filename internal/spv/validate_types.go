package spv

// Per-opcode result-type / operand-type relations.

var (
	rTypeResult     = rule("type.result", "the result type of an instruction belongs to the class its opcode requires")
	rTypeOperandRel = rule("type.operand-relation", "operand types relate to the result type as the opcode requires (class, width, component count, equality)")
	rTypeOperandVal = rule("type.operand-value", "operands are values (have a type), not types / labels / functions")
	rTypeUnsigned   = rule("type.unsigned-result", "OpUDiv / OpUMod / OpConvertFToU operate on types with Signedness 0 as the specification demands")
	rTypeSelect     = rule("type.select", "OpSelect: objects have the result type; the condition is a bool scalar, or a bool vector of the same size (required for vectors before 1.4)")
	rTypeLoad       = rule("mem.load-type", "OpLoad result type equals the pointee type of its pointer operand")
	rTypeStore      = rule("mem.store-type", "OpStore object type equals the pointee type of its pointer operand")
	rTypeChain      = rule("mem.access-chain", "OpAccessChain: indices are integers, struct indices in-range constants, result is a pointer to the walked type in the same storage class")
	rTypeArrLen     = rule("mem.array-length", "OpArrayLength: result u32, operand points to a struct whose indexed (last) member is a runtime array")
	rTypeCopyMem    = rule("mem.copy-memory", "OpCopyMemory operands are pointers to the same type")
	rTypeCall       = rule("call.signature", "OpFunctionCall argument count / types and result type match the callee's OpTypeFunction")
	rTypeReturn     = rule("return.type", "OpReturnValue value type equals the function return type; OpReturn only in void functions")
	rTypeComposite  = rule("composite.shape", "OpCompositeConstruct / Extract / Insert / VectorShuffle / dynamic vector ops are consistent with the composite types")
	rTypeBranch     = rule("branch.condition", "OpBranchConditional condition is a bool scalar; OpSwitch selector an integer scalar")
	rTypeAtomic     = rule("atomic.types", "atomic instructions operate on a pointer to a 32/64-bit integer (or float for load/store/exchange) scalar; value and result have the pointee type; scope and semantics are 32-bit integer constants")
	rAtomicClass    = rule("atomic.storage-class", "atomic pointers are in Uniform, Workgroup, Image, StorageBuffer, PhysicalStorageBuffer or TaskPayloadWorkgroupEXT (Vulkan)")
	rTypeBarrier    = rule("barrier.operands", "barrier scope / semantics operands are 32-bit integer constants")
	rTypeExtInst    = rule("extinst.types", "GLSL.std.450 operand and result types follow the instruction's signature")
	rExtInstSet     = rule("extinst.set", "OpExtInst set operand is an OpExtInstImport result")
)

type tinfo struct {
	t  *Type
	sc *Type  // scalar component type (for scalars: itself)
	n  uint32 // vector component count; 1 for scalars; 0 for non scalar/vector types
}

func (v *validator) ti(id uint32) tinfo {
	t := v.m.types[id]
	if t == nil {
		return tinfo{}
	}
	switch t.Kind {
	case TBool, TInt, TFloat:
		return tinfo{t, t, 1}
	case TVector:
		return tinfo{t, v.m.types[t.Elem], t.Count}
	}
	return tinfo{t: t}
}

func (x tinfo) isInt() bool   { return x.sc != nil && x.sc.Kind == TInt }
func (x tinfo) isFloat() bool { return x.sc != nil && x.sc.Kind == TFloat }
func (x tinfo) isBool() bool  { return x.sc != nil && x.sc.Kind == TBool }

// operandType returns the type of value operand id, reporting when it is not a value.
func (v *validator) operandType(in *Inst, id uint32) (uint32, bool) {
	d := v.m.defs[id]
	if d == nil {
		return 0, false // reported by id.undefined
	}
	if d.Type == 0 || v.m.types[d.Type] == nil {
		if d.Type == 0 {
			v.add(rTypeOperandVal, in.Index, "%s operand %%%d is defined by %s and has no type", in.Name(), id, d.Name())
		}
		return 0, false
	}
	return d.Type, true
}

func (v *validator) matrixInfo(id uint32) (cols uint32, rows uint32, comp uint32, ok bool) {
	t := v.m.types[id]
	if t == nil || t.Kind != TMatrix {
		return
	}
	ct := v.m.types[t.Elem]
	if ct == nil || ct.Kind != TVector {
		return
	}
	return t.Count, ct.Count, ct.Elem, true
}

func (v *validator) relations() {
	m := v.m
	for _, in := range m.Insts {
		if !in.Known || v.fnOf[in.Index] == nil && in.Op != OpVariable {
			continue
		}
		if v.blkOf[in.Index] == nil && in.Op != OpVariable {
			continue
		}
		v.relationGuarded(in)
	}
}

func (v *validator) relationGuarded(in *Inst) {
	defer func() {
		if r := recover(); r != nil {
			v.add(rMalformed, in.Index, "%s: operand classes too ill-formed to check (%v)", in.Name(), r)
		}
	}()
	v.relation(in)
}

func (v *validator) relation(in *Inst) {
	m := v.m
	bad := func(format string, a ...interface{}) { v.add(rTypeOperandRel, in.Index, in.Name()+": "+format, a...) }
	badRes := func(format string, a ...interface{}) { v.add(rTypeResult, in.Index, in.Name()+": "+format, a...) }
	ts := func(id uint32) string { return m.TypeString(id) }
	rt := v.ti(in.Type)
	if in.Type != 0 && rt.t == nil {
		return // id.kind reported
	}
	// fetch operand types for plain "T R i i i" instructions
	opT := func(i int) (tinfo, uint32, bool) {
		id := in.Arg(i)
		t, ok := v.operandType(in, id)
		if !ok {
			return tinfo{}, 0, false
		}
		return v.ti(t), t, true
	}
	switch in.Op {
	case OpNop, OpLabel, OpLine, 317, OpLoopMerge, OpSelectionMerge, OpBranch, OpKill, OpUnreachable, OpFunctionEnd, OpTerminateInvocation, OpDemoteToHelper, OpUndef:
		return
	case OpVariable:
		return // checked in functions()

	case OpSNegate, OpNot:
		if !rt.isInt() {
			badRes("result type %s is not an integer scalar or vector", ts(in.Type))
			return
		}
		if a, at, ok := opT(0); ok && (!a.isInt() || a.n != rt.n || a.sc.Width != rt.sc.Width) {
			bad("operand type %s does not match result type %s", ts(at), ts(in.Type))
		}
	case OpFNegate:
		if !rt.isFloat() {
			badRes("result type %s is not a float scalar or vector", ts(in.Type))
			return
		}
		if _, at, ok := opT(0); ok && at != in.Type {
			bad("operand type %s differs from result type %s", ts(at), ts(in.Type))
		}
	case OpIAdd, OpISub, OpIMul, OpUDiv, OpSDiv, OpUMod, OpSRem, OpSMod, OpBitwiseOr, OpBitwiseXor, OpBitwiseAnd:
		if !rt.isInt() {
			badRes("result type %s is not an integer scalar or vector", ts(in.Type))
			return
		}
		for i := 0; i < 2; i++ {
			if a, at, ok := opT(i); ok && (!a.isInt() || a.n != rt.n || a.sc.Width != rt.sc.Width) {
				bad("operand %d type %s does not match result type %s", i+1, ts(at), ts(in.Type))
			}
		}
		if in.Op == OpUDiv || in.Op == OpUMod {
			if rt.sc.Signed {
				v.add(rTypeUnsigned, in.Index, "%s result type %s is signed", in.Name(), ts(in.Type))
			}
			for i := 0; i < 2; i++ {
				if _, at, ok := opT(i); ok && at != in.Type {
					v.add(rTypeUnsigned, in.Index, "%s operand %d type %s differs from result type %s", in.Name(), i+1, ts(at), ts(in.Type))
				}
			}
		}
	case OpFAdd, OpFSub, OpFMul, OpFDiv, OpFRem, OpFMod:
		if !rt.isFloat() {
			badRes("result type %s is not a float scalar or vector", ts(in.Type))
			return
		}
		for i := 0; i < 2; i++ {
			if _, at, ok := opT(i); ok && at != in.Type {
				bad("operand %d type %s differs from result type %s", i+1, ts(at), ts(in.Type))
			}
		}
	case OpShiftRightLogical, OpShiftRightArithmetic, OpShiftLeftLogical:
		if !rt.isInt() {
			badRes("result type %s is not an integer scalar or vector", ts(in.Type))
			return
		}
		if a, at, ok := opT(0); ok && (!a.isInt() || a.n != rt.n || a.sc.Width != rt.sc.Width) {
			bad("base type %s does not match result type %s", ts(at), ts(in.Type))
		}
		if a, at, ok := opT(1); ok && (!a.isInt() || a.n != rt.n) {
			bad("shift type %s is not an integer type with %d component(s)", ts(at), rt.n)
		}
	case OpBitFieldInsert, OpBitFieldSExtract, OpBitFieldUExtract:
		if !rt.isInt() {
			badRes("result type %s is not an integer scalar or vector", ts(in.Type))
			return
		}
		nb := 1
		if in.Op == OpBitFieldInsert {
			nb = 2
		}
		for i := 0; i < nb; i++ {
			if _, at, ok := opT(i); ok && at != in.Type {
				bad("operand %d type %s differs from result type %s", i+1, ts(at), ts(in.Type))
			}
		}
		for i := nb; i < nb+2; i++ {
			if a, at, ok := opT(i); ok && (!a.isInt() || a.n != 1) {
				bad("offset/count operand type %s is not an integer scalar", ts(at))
			}
		}
	case OpBitReverse:
		if !rt.isInt() {
			badRes("result type %s is not an integer scalar or vector", ts(in.Type))
			return
		}
		if _, at, ok := opT(0); ok && at != in.Type {
			bad("operand type %s differs from result type %s", ts(at), ts(in.Type))
		}
	case OpBitCount:
		if !rt.isInt() {
			badRes("result type %s is not an integer scalar or vector", ts(in.Type))
			return
		}
		if a, at, ok := opT(0); ok && (!a.isInt() || a.n != rt.n) {
			bad("operand type %s is not an integer type with %d component(s)", ts(at), rt.n)
		}
	case OpVectorTimesScalar:
		if !rt.isFloat() || rt.t.Kind != TVector {
			badRes("result type %s is not a float vector", ts(in.Type))
			return
		}
		if _, at, ok := opT(0); ok && at != in.Type {
			bad("vector type %s differs from result type %s", ts(at), ts(in.Type))
		}
		if _, at, ok := opT(1); ok && at != rt.sc.ID {
			bad("scalar type %s is not the component type of %s", ts(at), ts(in.Type))
		}
	case OpMatrixTimesScalar:
		_, _, comp, ok := v.matrixInfo(in.Type)
		if !ok {
			badRes("result type %s is not a matrix", ts(in.Type))
			return
		}
		if _, at, ok := opT(0); ok && at != in.Type {
			bad("matrix type %s differs from result type %s", ts(at), ts(in.Type))
		}
		if _, at, ok := opT(1); ok && at != comp {
			bad("scalar type %s is not the component type of %s", ts(at), ts(in.Type))
		}
	case OpVectorTimesMatrix:
		if !rt.isFloat() || rt.t.Kind != TVector {
			badRes("result type %s is not a float vector", ts(in.Type))
			return
		}
		a, at, ok1 := opT(0)
		_, mt, ok2 := opT(1)
		if ok1 && ok2 {
			cols, rows, comp, ok := v.matrixInfo(mt)
			if !ok {
				bad("second operand type %s is not a matrix", ts(mt))
			} else if !a.isFloat() || a.t.Kind != TVector || a.n != rows || a.sc.ID != comp || rt.n != cols || rt.sc.ID != comp {
				bad("%s x %s does not give %s", ts(at), ts(mt), ts(in.Type))
			}
		}
	case OpMatrixTimesVector:
		if !rt.isFloat() || rt.t.Kind != TVector {
			badRes("result type %s is not a float vector", ts(in.Type))
			return
		}
		_, mt, ok1 := opT(0)
		a, at, ok2 := opT(1)
		if ok1 && ok2 {
			cols, rows, comp, ok := v.matrixInfo(mt)
			if !ok {
				bad("first operand type %s is not a matrix", ts(mt))
			} else if !a.isFloat() || a.t.Kind != TVector || a.n != cols || a.sc.ID != comp || rt.n != rows || rt.sc.ID != comp {
				bad("%s x %s does not give %s", ts(mt), ts(at), ts(in.Type))
			}
		}
	case OpMatrixTimesMatrix:
		rc, rr, rcomp, ok := v.matrixInfo(in.Type)
		if !ok {
			badRes("result type %s is not a matrix", ts(in.Type))
			return
		}
		_, lt, ok1 := opT(0)
		_, rtt, ok2 := opT(1)
		if ok1 && ok2 {
			lc, lr, lcomp, okl := v.matrixInfo(lt)
			rcc, rrr, rcomp2, okr := v.matrixInfo(rtt)
			if !okl || !okr {
				bad("operands %s, %s are not both matrices", ts(lt), ts(rtt))
			} else if lr != rr || rcc != rc || lc != rrr || lcomp != rcomp || rcomp2 != rcomp {
				bad("%s x %s does not give %s", ts(lt), ts(rtt), ts(in.Type))
			}
		}
	case OpOuterProduct:
		rc, rr, rcomp, ok := v.matrixInfo(in.Type)
		if !ok {
			badRes("result type %s is not a matrix", ts(in.Type))
			return
		}
		a, at, ok1 := opT(0)
		b, bt, ok2 := opT(1)
		if ok1 && ok2 && (a.t.Kind != TVector || b.t.Kind != TVector || a.n != rr || b.n != rc || a.sc.ID != rcomp || b.sc.ID != rcomp) {
			bad("%s (x) %s does not give %s", ts(at), ts(bt), ts(in.Type))
		}
	case OpDot:
		if !rt.isFloat() || rt.n != 1 {
			badRes("result type %s is not a float scalar", ts(in.Type))
			return
		}
		a, at, ok1 := opT(0)
		_, bt, ok2 := opT(1)
		if ok1 && ok2 && (a.t.Kind != TVector || at != bt || a.sc.ID != in.Type) {
			bad("operands %s, %s are not the same vector type of %s", ts(at), ts(bt), ts(in.Type))
		}
	case OpTranspose:
		rc, rr, rcomp, ok := v.matrixInfo(in.Type)
		if !ok {
			badRes("result type %s is not a matrix", ts(in.Type))
			return
		}
		if _, at, ok := opT(0); ok {
			c, r, comp, okm := v.matrixInfo(at)
			if !okm || c != rr || r != rc || comp != rcomp {
				bad("operand %s is not the transpose shape of %s", ts(at), ts(in.Type))
			}
		}
	case OpAny, OpAll:
		if !rt.isBool() || rt.n != 1 {
			badRes("result type %s is not bool", ts(in.Type))
			return
		}
		if a, at, ok := opT(0); ok && (!a.isBool() || a.t.Kind != TVector) {
			bad("operand type %s is not a bool vector", ts(at))
		}
	case OpIsNan, OpIsInf:
		if !rt.isBool() {
			badRes("result type %s is not a bool scalar or vector", ts(in.Type))
			return
		}
		if a, at, ok := opT(0); ok && (!a.isFloat() || a.n != rt.n) {
			bad("operand type %s is not a float type with %d component(s)", ts(at), rt.n)
		}
	case OpLogicalEqual, OpLogicalNotEqual, OpLogicalOr, OpLogicalAnd, OpLogicalNot:
		if !rt.isBool() {
			badRes("result type %s is not a bool scalar or vector", ts(in.Type))
			return
		}
		n := 2
		if in.Op == OpLogicalNot {
			n = 1
		}
		for i := 0; i < n; i++ {
			if _, at, ok := opT(i); ok && at != in.Type {
				bad("operand %d type %s differs from result type %s", i+1, ts(at), ts(in.Type))
			}
		}
	case OpSelect:
		c, ct, ok := opT(0)
		for i := 1; i <= 2; i++ {
			if _, at, ok := opT(i); ok && at != in.Type {
				v.add(rTypeSelect, in.Index, "OpSelect object %d type %s differs from result type %s", i, ts(at), ts(in.Type))
			}
		}
		if !ok {
			return
		}
		if !c.isBool() {
			v.add(rTypeSelect, in.Index, "OpSelect condition type %s is not a bool scalar or vector", ts(ct))
			return
		}
		composites := m.AtLeast(1, 4)
		switch rt.t.Kind {
		case TBool, TInt, TFloat, TPointer:
			if c.n != 1 {
				v.add(rTypeSelect, in.Index, "OpSelect of scalar %s with vector condition %s", ts(in.Type), ts(ct))
			}
		case TVector:
			if c.n == 1 {
				if !composites {
					v.add(rTypeSelect, in.Index, "OpSelect of %s with a scalar condition requires SPIR-V 1.4 (module is %d.%d)", ts(in.Type), m.Major, m.Minor)
				}
			} else if c.n != rt.n {
				v.add(rTypeSelect, in.Index, "OpSelect of %s with condition %s", ts(in.Type), ts(ct))
			}
		case TMatrix, TArray, TStruct:
			if !composites {
				v.add(rTypeSelect, in.Index, "OpSelect of composite %s requires SPIR-V 1.4 (module is %d.%d)", ts(in.Type), m.Major, m.Minor)
			} else if c.n != 1 {
				v.add(rTypeSelect, in.Index, "OpSelect of composite %s with vector condition", ts(in.Type))
			}
		default:
			v.add(rTypeSelect, in.Index, "OpSelect of type %s", ts(in.Type))
		}
	case OpIEqual, OpINotEqual, OpUGreaterThan, OpSGreaterThan, OpUGreaterThanEqual, OpSGreaterThanEqual, OpULessThan, OpSLessThan, OpULessThanEqual, OpSLessThanEqual:
		if !rt.isBool() {
			badRes("result type %s is not a bool scalar or vector", ts(in.Type))
			return
		}
		a, at, ok1 := opT(0)
		b, bt, ok2 := opT(1)
		if ok1 && (!a.isInt() || a.n != rt.n) {
			bad("operand 1 type %s is not an integer type with %d component(s)", ts(at), rt.n)
		}
		if ok2 && (!b.isInt() || b.n != rt.n) {
			bad("operand 2 type %s is not an integer type with %d component(s)", ts(bt), rt.n)
		}
		if ok1 && ok2 && a.isInt() && b.isInt() && a.sc.Width != b.sc.Width {
			bad("operand widths differ: %s vs %s", ts(at), ts(bt))
		}
	case OpFOrdEqual, OpFUnordEqual, OpFOrdNotEqual, OpFUnordNotEqual, OpFOrdLessThan, OpFUnordLessThan, OpFOrdGreaterThan, OpFUnordGreaterThan,
		OpFOrdLessThanEqual, OpFUnordLessThanEqual, OpFOrdGreaterThanEqual, OpFUnordGreaterThanEqual:
		if !rt.isBool() {
			badRes("result type %s is not a bool scalar or vector", ts(in.Type))
			return
		}
		a, at, ok1 := opT(0)
		_, bt, ok2 := opT(1)
		if ok1 && (!a.isFloat() || a.n != rt.n) {
			bad("operand 1 type %s is not a float type with %d component(s)", ts(at), rt.n)
		}
		if ok1 && ok2 && at != bt {
			bad("operand types differ: %s vs %s", ts(at), ts(bt))
		}
	case OpConvertFToU, OpConvertFToS:
		if !rt.isInt() {
			badRes("result type %s is not an integer scalar or vector", ts(in.Type))
			return
		}
		if in.Op == OpConvertFToU && rt.sc.Signed {
			v.add(rTypeUnsigned, in.Index, "OpConvertFToU result type %s is signed", ts(in.Type))
		}
		if a, at, ok := opT(0); ok && (!a.isFloat() || a.n != rt.n) {
			bad("operand type %s is not a float type with %d component(s)", ts(at), rt.n)
		}
	case OpConvertSToF, OpConvertUToF:
		if !rt.isFloat() {
			badRes("result type %s is not a float scalar or vector", ts(in.Type))
			return
		}
		if a, at, ok := opT(0); ok && (!a.isInt() || a.n != rt.n) {
			bad("operand type %s is not an integer type with %d component(s)", ts(at), rt.n)
		}
	case OpUConvert, OpSConvert:
		if !rt.isInt() {
			badRes("result type %s is not an integer scalar or vector", ts(in.Type))
			return
		}
		if a, at, ok := opT(0); ok {
			if !a.isInt() || a.n != rt.n {
				bad("operand type %s is not an integer type with %d component(s)", ts(at), rt.n)
			} else if a.sc.Width == rt.sc.Width {
				bad("operand %s and result %s have the same width", ts(at), ts(in.Type))
			}
		}
	case OpFConvert:
		if !rt.isFloat() {
			badRes("result type %s is not a float scalar or vector", ts(in.Type))
			return
		}
		if a, at, ok := opT(0); ok {
			if !a.isFloat() || a.n != rt.n {
				bad("operand type %s is not a float type with %d component(s)", ts(at), rt.n)
			} else if a.sc.Width == rt.sc.Width {
				bad("operand %s and result %s have the same width", ts(at), ts(in.Type))
			}
		}
	case OpQuantizeToF16:
		if !rt.isFloat() || rt.sc.Width != 32 {
			badRes("result type %s is not a 32-bit float scalar or vector", ts(in.Type))
			return
		}
		if _, at, ok := opT(0); ok && at != in.Type {
			bad("operand type %s differs from result type %s", ts(at), ts(in.Type))
		}
	case OpBitcast:
		a, at, ok := opT(0)
		if !ok {
			return
		}
		rp, ap := rt.t.Kind == TPointer, a.t != nil && a.t.Kind == TPointer
		numeric := func(x tinfo) bool { return x.isInt() || x.isFloat() }
		switch {
		case rp && ap:
		case rp || ap:
			// pointer <-> integer casts need Physical addressing; not judged here
		case !numeric(rt):
			badRes("result type %s is not a pointer or numeric scalar / vector", ts(in.Type))
		case !numeric(a):
			bad("operand type %s is not a pointer or numeric scalar / vector", ts(at))
		case rt.n*rt.sc.Width != a.n*a.sc.Width:
			bad("operand %s and result %s differ in total bit width", ts(at), ts(in.Type))
		}
	case OpCopyObject:
		if _, at, ok := opT(0); ok && at != in.Type {
			bad("operand type %s differs from result type %s", ts(at), ts(in.Type))
		}
	case OpCopyLogical:
		if !m.AtLeast(1, 4) {
			v.add(rCapVersion, in.Index, "OpCopyLogical requires SPIR-V 1.4 (module is %d.%d)", m.Major, m.Minor)
		}
		if _, at, ok := opT(0); ok && at == in.Type {
			bad("operand and result types are the same type %s", ts(at))
		}

	// ------------------------------------------------------------ composites
	case OpVectorExtractDynamic:
		a, at, ok := opT(0)
		if ok {
			if a.t.Kind != TVector {
				v.add(rTypeComposite, in.Index, "OpVectorExtractDynamic on %s", ts(at))
			} else if a.sc.ID != in.Type {
				v.add(rTypeComposite, in.Index, "OpVectorExtractDynamic result type %s is not the component type of %s", ts(in.Type), ts(at))
			}
		}
		if ix, it, ok := opT(1); ok && (!ix.isInt() || ix.n != 1) {
			v.add(rTypeComposite, in.Index, "OpVectorExtractDynamic index type %s is not an integer scalar", ts(it))
		}
	case OpVectorInsertDynamic:
		if rt.t.Kind != TVector {
			v.add(rTypeComposite, in.Index, "OpVectorInsertDynamic result type %s is not a vector", ts(in.Type))
			return
		}
		if _, at, ok := opT(0); ok && at != in.Type {
			v.add(rTypeComposite, in.Index, "OpVectorInsertDynamic vector type %s differs from result type %s", ts(at), ts(in.Type))
		}
		if _, ct, ok := opT(1); ok && ct != rt.sc.ID {
			v.add(rTypeComposite, in.Index, "OpVectorInsertDynamic component type %s is not the component type of %s", ts(ct), ts(in.Type))
		}
		if ix, it, ok := opT(2); ok && (!ix.isInt() || ix.n != 1) {
			v.add(rTypeComposite, in.Index, "OpVectorInsertDynamic index type %s is not an integer scalar", ts(it))
		}
	case OpVectorShuffle:
		if rt.t.Kind != TVector {
			v.add(rTypeComposite, in.Index, "OpVectorShuffle result type %s is not a vector", ts(in.Type))
			return
		}
		a, at, ok1 := opT(0)
		b, bt, ok2 := opT(1)
		if !ok1 || !ok2 {
			return
		}
		if a.t.Kind != TVector || b.t.Kind != TVector {
			v.add(rTypeComposite, in.Index, "OpVectorShuffle operands %s, %s are not vectors", ts(at), ts(bt))
			return
		}
		if a.sc.ID != rt.sc.ID || b.sc.ID != rt.sc.ID {
			v.add(rTypeComposite, in.Index, "OpVectorShuffle operand component types differ from the result's")
		}
		lits := in.Args[2:]
		if uint32(len(lits)) != rt.n {
			v.add(rTypeComposite, in.Index, "OpVectorShuffle has %d component literals, result type %s", len(lits), ts(in.Type))
		}
		for _, l := range lits {
			if l != 0xffffffff && l >= a.n+b.n {
				v.add(rTypeComposite, in.Index, "OpVectorShuffle component literal %d out of range (%d components available)", l, a.n+b.n)
			}
		}
	case OpCompositeConstruct:
		v.compositeConstruct(in, rt)
	case OpCompositeExtract:
		_, at, ok := opT(0)
		if !ok {
			return
		}
		wt, ok := v.walkLiteral(in, at, in.Args[1:])
		if ok && wt != in.Type {
			v.add(rTypeComposite, in.Index, "OpCompositeExtract result type %s, indexes select %s", ts(in.Type), ts(wt))
		}
	case OpCompositeInsert:
		_, ot, ok1 := opT(0)
		_, ct, ok2 := opT(1)
		if ok2 && ct != in.Type {
			v.add(rTypeComposite, in.Index, "OpCompositeInsert composite type %s differs from result type %s", ts(ct), ts(in.Type))
		}
		if ok1 && ok2 {
			wt, ok := v.walkLiteral(in, ct, in.Args[2:])
			if ok && wt != ot {
				v.add(rTypeComposite, in.Index, "OpCompositeInsert object type %s, indexes select %s", ts(ot), ts(wt))
			}
		}

	// ------------------------------------------------------------ memory
	case OpLoad:
		p, pt, ok := opT(0)
		if !ok {
			return
		}
		if p.t.Kind != TPointer {
			v.add(rTypeLoad, in.Index, "OpLoad operand type %s is not a pointer", ts(pt))
		} else if p.t.Elem != in.Type {
			v.add(rTypeLoad, in.Index, "OpLoad result type %s, pointee type %s", ts(in.Type), ts(p.t.Elem))
		}
	case OpStore:
		p, pt, ok1 := opT(0)
		_, ot, ok2 := opT(1)
		if !ok1 {
			return
		}
		if p.t.Kind != TPointer {
			v.add(rTypeStore, in.Index, "OpStore pointer operand type %s is not a pointer", ts(pt))
		} else if ok2 && p.t.Elem != ot {
			v.add(rTypeStore, in.Index, "OpStore object type %s, pointee type %s", ts(ot), ts(p.t.Elem))
		}
		if ok1 && p.t.Kind == TPointer {
			switch p.t.Storage {
			case SCUniformConstant, SCInput, SCPushConstant:
				v.add(rTypeStore, in.Index, "OpStore to read-only storage class %s", EnumName("StorageClass", p.t.Storage))
			}
		}
	case OpCopyMemory:
		a, at, ok1 := opT(0)
		b, bt, ok2 := opT(1)
		if ok1 && ok2 {
			if a.t.Kind != TPointer || b.t.Kind != TPointer {
				v.add(rTypeCopyMem, in.Index, "OpCopyMemory operands %s, %s are not pointers", ts(at), ts(bt))
			} else if a.t.Elem != b.t.Elem {
				v.add(rTypeCopyMem, in.Index, "OpCopyMemory pointee types differ: %s vs %s", ts(a.t.Elem), ts(b.t.Elem))
			}
		}
	case OpAccessChain, OpInBoundsAccessChain:
		v.accessChain(in, rt)
	case OpArrayLength:
		if !rt.isInt() || rt.n != 1 || rt.sc.Width != 32 || rt.sc.Signed {
			v.add(rTypeArrLen, in.Index, "OpArrayLength result type %s is not a 32-bit unsigned integer", ts(in.Type))
		}
		p, pt, ok := opT(0)
		if !ok {
			return
		}
		var st *Type
		if p.t.Kind == TPointer {
			st = m.types[p.t.Elem]
		}
		if st == nil || st.Kind != TStruct {
			v.add(rTypeArrLen, in.Index, "OpArrayLength operand type %s is not a pointer to a struct", ts(pt))
			return
		}
		mi := in.Arg(1)
		if int(mi) >= len(st.Members) || int(mi) != len(st.Members)-1 {
			v.add(rTypeArrLen, in.Index, "OpArrayLength member %d is not the last member of %s", mi, ts(st.ID))
		} else if at := m.types[st.Members[mi]]; at == nil || at.Kind != TRuntimeArray {
			v.add(rTypeArrLen, in.Index, "OpArrayLength member %d of %s is not a runtime array", mi, ts(st.ID))
		}

	// ------------------------------------------------------------ functions / control
	case OpFunctionCall:
		callee := m.funcByID[in.Arg(0)]
		if callee == nil {
			if m.defs[in.Arg(0)] != nil {
				v.add(rTypeCall, in.Index, "OpFunctionCall of %%%d which is not a function", in.Arg(0))
			}
			return
		}
		ft := m.types[callee.TypeID]
		if ft == nil || ft.Kind != TFunction {
			return
		}
		if ft.Elem != in.Type {
			v.add(rTypeCall, in.Index, "OpFunctionCall result type %s, callee returns %s", ts(in.Type), ts(ft.Elem))
		}
		args := in.Args[1:]
		if len(args) != len(ft.Members) {
			v.add(rTypeCall, in.Index, "OpFunctionCall passes %d arguments, callee takes %d", len(args), len(ft.Members))
			return
		}
		for i, a := range args {
			if at, ok := v.operandType(in, a); ok && at != ft.Members[i] {
				v.add(rTypeCall, in.Index, "OpFunctionCall argument %d has type %s, parameter type is %s", i, ts(at), ts(ft.Members[i]))
			}
		}
	case OpReturn, OpReturnValue:
		f := v.fnOf[in.Index]
		if f == nil {
			return
		}
		rtt := m.types[f.RetType]
		if in.Op == OpReturn {
			if rtt != nil && rtt.Kind != TVoid {
				v.add(rTypeReturn, in.Index, "OpReturn in a function returning %s", ts(f.RetType))
			}
			return
		}
		if at, ok := v.operandType(in, in.Arg(0)); ok && at != f.RetType {
			v.add(rTypeReturn, in.Index, "OpReturnValue of %s in a function returning %s", ts(at), ts(f.RetType))
		}
	case OpBranchConditional:
		if c, ct, ok := opT(0); ok && (!c.isBool() || c.n != 1) {
			v.add(rTypeBranch, in.Index, "OpBranchConditional condition type %s is not bool", ts(ct))
		}
		if n := len(in.Args); n != 3 && n != 5 {
			v.add(rOperands, in.Index, "OpBranchConditional has %d operands (3, or 5 with branch weights)", n)
		}
	case OpSwitch:
		if c, ct, ok := opT(0); ok && (!c.isInt() || c.n != 1) {
			v.add(rTypeBranch, in.Index, "OpSwitch selector type %s is not an integer scalar", ts(ct))
		}
		// literals must be distinct
		seen := map[uint64]bool{}
		for i := 2; i+1 < len(in.Operands); i += 2 {
			o := in.Operands[i]
			lit := uint64(o.Word)
			if len(o.Words) > 1 {
				lit |= uint64(o.Words[1]) << 32
			}
			if seen[lit] {
				v.add(rTypeBranch, in.Index, "OpSwitch repeats case literal %d", lit)
			}
			seen[lit] = true
		}
	case OpPhi:
		// checked in ssa()

	// ------------------------------------------------------------ atomics / barriers
	case OpAtomicLoad, OpAtomicStore, OpAtomicExchange, OpAtomicCompareExchange, OpAtomicCompareExchangeWk, OpAtomicIIncrement, OpAtomicIDecrement,
		OpAtomicIAdd, OpAtomicISub, OpAtomicSMin, OpAtomicUMin, OpAtomicSMax, OpAtomicUMax, OpAtomicAnd, OpAtomicOr, OpAtomicXor, OpAtomicFAddEXT:
		v.atomic(in, rt)
	case OpControlBarrier, OpMemoryBarrier:
		for i := range in.Args {
			v.scopeOperand(in, in.Args[i], rTypeBarrier)
		}
	case OpExtInst:
		v.extInst(in, rt)
	case OpDPdx, 208, 209, 210, 211, 212, 213, 214, OpFwidthCoarse:
		if !rt.isFloat() {
			badRes("result type %s is not a float scalar or vector", ts(in.Type))
			return
		}
		if _, at, ok := opT(0); ok && at != in.Type {
			bad("operand type %s differs from result type %s", ts(at), ts(in.Type))
		}
	default:
		m.unchk[in.Name()]++
	}
	v.imageOperands(in)
}

var rImageOperands = rule("image.operands", "image operand ids have the class their bit demands: Bias float scalar; Lod float scalar (sampling) or integer scalar (fetch / query); Grad floats; ConstOffset / Offset integers; Sample integer scalar")

// imageOperands checks the types of the ids following an ImageOperands mask.
func (v *validator) imageOperands(in *Inst) {
	pos := -1
	for k, o := range in.Operands {
		if o.Kind == KindEnum && o.Enum == "ImageOperands" {
			pos = k
			break
		}
	}
	if pos < 0 {
		return
	}
	mask := in.Operands[pos].Word
	ids := in.Operands[pos+1:]
	next := func() (tinfo, uint32, bool) {
		if len(ids) == 0 || ids[0].Kind != KindID {
			return tinfo{}, 0, false
		}
		id := ids[0].Word
		ids = ids[1:]
		t, ok := v.operandType(in, id)
		if !ok {
			return tinfo{}, 0, false
		}
		return v.ti(t), t, true
	}
	fetch := in.Op == OpImageFetch || in.Op == OpImageRead || in.Op == OpImageWrite
	say := func(what string, t uint32) {
		v.add(rImageOperands, in.Index, "%s: image operand %s has type %s", in.Name(), what, v.m.TypeString(t))
	}
	if mask&0x1 != 0 { // Bias
		if x, t, ok := next(); ok && (!x.isFloat() || x.n != 1) {
			say("Bias", t)
		}
	}
	if mask&0x2 != 0 { // Lod
		if x, t, ok := next(); ok {
			if fetch && (!x.isInt() || x.n != 1) {
				say("Lod", t)
			}
			if !fetch && (!x.isFloat() || x.n != 1) {
				say("Lod", t)
			}
		}
	}
	if mask&0x4 != 0 { // Grad dx dy
		for _, w := range []string{"Grad dx", "Grad dy"} {
			if x, t, ok := next(); ok && !x.isFloat() {
				say(w, t)
			}
		}
	}
	if mask&0x8 != 0 { // ConstOffset
		if x, t, ok := next(); ok && !x.isInt() {
			say("ConstOffset", t)
		}
	}
	if mask&0x10 != 0 { // Offset
		if x, t, ok := next(); ok && !x.isInt() {
			say("Offset", t)
		}
	}
	if mask&0x20 != 0 { // ConstOffsets
		next()
	}
	if mask&0x40 != 0 { // Sample
		if x, t, ok := next(); ok && (!x.isInt() || x.n != 1) {
			say("Sample", t)
		}
	}
}

func (v *validator) scopeOperand(in *Inst, id uint32, rule string) {
	d := v.m.defs[id]
	if d == nil {
		return
	}
	t := v.m.types[d.Type]
	if t == nil || t.Kind != TInt || t.Width != 32 {
		v.add(rule, in.Index, "%s scope/semantics operand %%%d is not a 32-bit integer", in.Name(), id)
		return
	}
	if v.shader && !isConstOp(d.Op) {
		v.add(rule, in.Index, "%s scope/semantics operand %%%d is defined by %s, not a constant instruction", in.Name(), id, d.Name())
	}
}

func (v *validator) atomic(in *Inst, rt tinfo) {
	m := v.m
	pt, ok := v.operandType(in, in.Arg(0))
	if !ok {
		return
	}
	p := m.types[pt]
	if p.Kind != TPointer {
		v.add(rTypeAtomic, in.Index, "%s pointer operand has type %s", in.Name(), m.TypeString(pt))
		return
	}
	et := m.types[p.Elem]
	floatOK := in.Op == OpAtomicLoad || in.Op == OpAtomicStore || in.Op == OpAtomicExchange || in.Op == OpAtomicFAddEXT
	if et == nil || !(et.Kind == TInt || (floatOK && et.Kind == TFloat)) {
		v.add(rTypeAtomic, in.Index, "%s on pointee type %s", in.Name(), m.TypeString(p.Elem))
		return
	}
	if in.Op == OpAtomicFAddEXT && et.Kind != TFloat {
		v.add(rTypeAtomic, in.Index, "OpAtomicFAddEXT on pointee type %s", m.TypeString(p.Elem))
	}
	if in.Type != 0 && in.Type != p.Elem {
		v.add(rTypeAtomic, in.Index, "%s result type %s differs from pointee type %s", in.Name(), m.TypeString(in.Type), m.TypeString(p.Elem))
	}
	if v.shader {
		switch p.Storage {
		case SCUniform, SCWorkgroup, SCImage, SCStorageBuffer, SCPhysicalStorage, SCTaskPayloadEXT:
		default:
			v.add(rAtomicClass, in.Index, "%s on a pointer in storage class %s", in.Name(), EnumName("StorageClass", p.Storage))
		}
	}
	// operand layout: pointer, scope, semantics [, semantics] , value [, comparator]
	nSem := 2
	var vals []int
	switch in.Op {
	case OpAtomicLoad, OpAtomicIIncrement, OpAtomicIDecrement:
	case OpAtomicCompareExchange, OpAtomicCompareExchangeWk:
		nSem = 3
		vals = []int{4, 5}
	default:
		vals = []int{3}
	}
	for i := 1; i <= nSem && i < len(in.Args); i++ {
		v.scopeOperand(in, in.Args[i], rTypeAtomic)
	}
	for _, k := range vals {
		if k < len(in.Args) {
			if vt, ok := v.operandType(in, in.Args[k]); ok && vt != p.Elem {
				v.add(rTypeAtomic, in.Index, "%s value operand type %s differs from pointee type %s", in.Name(), m.TypeString(vt), m.TypeString(p.Elem))
			}
		}
	}
}

func (v *validator) compositeConstruct(in *Inst, rt tinfo) {
	m := v.m
	ts := m.TypeString
	t := rt.t
	switch t.Kind {
	case TVector:
		total := uint32(0)
		for i, a := range in.Args {
			at, ok := v.operandType(in, a)
			if !ok {
				return
			}
			x := v.ti(at)
			if x.sc == nil || x.sc.ID != t.Elem || x.n == 0 {
				v.add(rTypeComposite, in.Index, "OpCompositeConstruct constituent %d has type %s, result is %s", i, ts(at), ts(in.Type))
				return
			}
			total += x.n
		}
		if total != t.Count {
			v.add(rTypeComposite, in.Index, "OpCompositeConstruct supplies %d components for %s", total, ts(in.Type))
		}
		if len(in.Args) < 2 {
			v.add(rTypeComposite, in.Index, "OpCompositeConstruct of a vector needs at least two constituents")
		}
	case TMatrix, TArray, TStruct:
		wantN := int64(t.Count)
		if t.Kind == TStruct {
			wantN = int64(len(t.Members))
		} else if t.Kind == TArray && t.Count == 0 {
			return
		}
		if int64(len(in.Args)) != wantN {
			v.add(rTypeComposite, in.Index, "OpCompositeConstruct has %d constituents for %s", len(in.Args), ts(in.Type))
			return
		}
		for i, a := range in.Args {
			w := t.Elem
			if t.Kind == TStruct {
				w = t.Members[i]
			}
			if at, ok := v.operandType(in, a); ok && at != w {
				v.add(rTypeComposite, in.Index, "OpCompositeConstruct constituent %d has type %s, want %s", i, ts(at), ts(w))
			}
		}
	default:
		v.add(rTypeComposite, in.Index, "OpCompositeConstruct result type %s is not a composite", ts(in.Type))
	}
}

// walkLiteral follows literal indexes through a composite type.
func (v *validator) walkLiteral(in *Inst, tid uint32, idx []uint32) (uint32, bool) {
	m := v.m
	if len(idx) == 0 {
		v.add(rTypeComposite, in.Index, "%s without indexes", in.Name())
		return 0, false
	}
	for _, ix := range idx {
		t := m.types[tid]
		if t == nil {
			return 0, false
		}
		switch t.Kind {
		case TVector, TMatrix:
			if ix >= t.Count {
				v.add(rTypeComposite, in.Index, "%s index %d out of range for %s", in.Name(), ix, m.TypeString(tid))
				return 0, false
			}
			tid = t.Elem
		case TArray:
			if t.Count != 0 && ix >= t.Count {
				v.add(rTypeComposite, in.Index, "%s index %d out of range for %s", in.Name(), ix, m.TypeString(tid))
				return 0, false
			}
			tid = t.Elem
		case TStruct:
			if int(ix) >= len(t.Members) {
				v.add(rTypeComposite, in.Index, "%s index %d out of range for %s", in.Name(), ix, m.TypeString(tid))
				return 0, false
			}
			tid = t.Members[ix]
		default:
			v.add(rTypeComposite, in.Index, "%s indexes into non-composite %s", in.Name(), m.TypeString(tid))
			return 0, false
		}
	}
	return tid, true
}

func (v *validator) accessChain(in *Inst, rt tinfo) {
	m := v.m
	ts := m.TypeString
	if rt.t.Kind != TPointer {
		v.add(rTypeChain, in.Index, "%s result type %s is not a pointer", in.Name(), ts(in.Type))
		return
	}
	bt, ok := v.operandType(in, in.Arg(0))
	if !ok {
		return
	}
	b := m.types[bt]
	if b.Kind != TPointer {
		v.add(rTypeChain, in.Index, "%s base type %s is not a pointer", in.Name(), ts(bt))
		return
	}
	if b.Storage != rt.t.Storage {
		v.add(rTypeChain, in.Index, "%s result storage class %s differs from the base's %s", in.Name(), EnumName("StorageClass", rt.t.Storage), EnumName("StorageClass", b.Storage))
	}
	cur := b.Elem
	for k, ixID := range in.Args[1:] {
		it, ok := v.operandType(in, ixID)
		if !ok {
			return
		}
		ix := v.ti(it)
		if !ix.isInt() || ix.n != 1 {
			v.add(rTypeChain, in.Index, "%s index %d has type %s, not an integer scalar", in.Name(), k, ts(it))
			return
		}
		t := m.types[cur]
		if t == nil {
			return
		}
		switch t.Kind {
		case TVector, TMatrix, TArray, TRuntimeArray:
			// a constant index into a fixed-size composite must be in range
			if c, isC := m.ConstU32(ixID); isC && m.defs[ixID].Op == OpConstant && t.Kind != TRuntimeArray && t.Count != 0 {
				val := int64(c)
				if ix.sc.Signed {
					val = sext(uint64(c), ix.sc.Width)
				}
				if val < 0 || val >= int64(t.Count) {
					v.add(rTypeChain, in.Index, "%s constant index %d out of range for %s", in.Name(), val, ts(cur))
				}
			}
			cur = t.Elem
		case TStruct:
			d := m.defs[ixID]
			if d == nil || d.Op != OpConstant {
				v.add(rTypeChain, in.Index, "%s index %d into struct %s is not an OpConstant", in.Name(), k, ts(cur))
				return
			}
			c := d.Arg(0)
			if int(c) >= len(t.Members) {
				v.add(rTypeChain, in.Index, "%s struct member index %d out of range for %s", in.Name(), c, ts(cur))
				return
			}
			cur = t.Members[c]
		default:
			v.add(rTypeChain, in.Index, "%s index %d applied to non-composite type %s", in.Name(), k, ts(cur))
			return
		}
	}
	if cur != rt.t.Elem {
		v.add(rTypeChain, in.Index, "%s result pointee type %s, indexes select %s", in.Name(), ts(rt.t.Elem), ts(cur))
	}
}

// ---------------------------------------------------------------- GLSL.std.450

func (v *validator) extInst(in *Inst, rt tinfo) {
	m := v.m
	if len(in.Args) < 2 {
		return
	}
	set := m.defs[in.Args[0]]
	if set == nil || set.Op != OpExtInstImport {
		v.add(rExtInstSet, in.Index, "OpExtInst set %%%d is not an OpExtInstImport", in.Args[0])
		return
	}
	if m.extImps[in.Args[0]] != "GLSL.std.450" {
		m.unchk["OpExtInst:"+m.extImps[in.Args[0]]]++
		return
	}
	n := in.Args[1]
	args := in.Args[2:]
	ts := m.TypeString
	bad := func(format string, a ...interface{}) {
		v.add(rTypeExtInst, in.Index, "GLSL.std.450 "+GLSLName(n)+": "+format, a...)
	}
	var ats []uint32
	for _, a := range args {
		t, ok := v.operandType(in, a)
		if !ok {
			return
		}
		ats = append(ats, t)
	}
	want := func(k int) bool {
		if len(args) != k {
			bad("%d operands, want %d", len(args), k)
			return false
		}
		return true
	}
	allSame := func() {
		for i, t := range ats {
			if t != in.Type {
				bad("operand %d type %s differs from result type %s", i+1, ts(t), ts(in.Type))
			}
		}
	}
	floatRes := func() bool {
		if !rt.isFloat() {
			bad("result type %s is not a float scalar or vector", ts(in.Type))
			return false
		}
		return true
	}
	intRes := func() bool {
		if !rt.isInt() {
			bad("result type %s is not an integer scalar or vector", ts(in.Type))
			return false
		}
		return true
	}
	// integer operands of S*/U* ops: same width and component count as the result (signedness free)
	intLike := func() {
		for i, t := range ats {
			x := v.ti(t)
			if !x.isInt() || x.n != rt.n || x.sc.Width != rt.sc.Width {
				bad("operand %d type %s does not match result type %s", i+1, ts(t), ts(in.Type))
			}
		}
	}
	switch n {
	case GLRound, GLRoundEven, GLTrunc, GLFAbs, GLFSign, GLFloor, GLCeil, GLFract, GLRadians, GLDegrees, GLSin, GLCos, GLTan, GLAsin, GLAcos, GLAtan,
		GLSinh, GLCosh, GLTanh, GLAsinh, GLAcosh, GLAtanh, GLExp, GLLog, GLExp2, GLLog2, GLSqrt, GLInverseSqrt, GLNormalize:
		if want(1) && floatRes() {
			allSame()
		}
	case GLAtan2, GLPow, GLFMin, GLFMax, GLNMin, GLNMax, GLStep, GLReflect:
		if want(2) && floatRes() {
			allSame()
		}
	case GLFClamp, GLNClamp, GLFMix, GLSmoothStep, GLFma, GLFaceForward:
		if want(3) && floatRes() {
			allSame()
		}
	case GLSAbs, GLSSign, GLFindILsb, GLFindSMsb, GLFindUMsb:
		if want(1) && intRes() {
			intLike()
		}
	case GLUMin, GLSMin, GLUMax, GLSMax:
		if want(2) && intRes() {
			intLike()
		}
	case GLUClamp, GLSClamp:
		if want(3) && intRes() {
			intLike()
		}
	case GLLength:
		if want(1) {
			x := v.ti(ats[0])
			if !rt.isFloat() || rt.n != 1 || !x.isFloat() || x.sc.ID != in.Type {
				bad("Length of %s giving %s", ts(ats[0]), ts(in.Type))
			}
		}
	case GLDistance:
		if want(2) {
			x := v.ti(ats[0])
			if !rt.isFloat() || rt.n != 1 || !x.isFloat() || x.sc.ID != in.Type || ats[0] != ats[1] {
				bad("Distance of %s, %s giving %s", ts(ats[0]), ts(ats[1]), ts(in.Type))
			}
		}
	case GLCross:
		if want(2) && floatRes() {
			if rt.n != 3 || rt.t.Kind != TVector {
				bad("result type %s is not a 3-component vector", ts(in.Type))
			}
			allSame()
		}
	case GLRefract:
		if want(3) && floatRes() {
			if ats[0] != in.Type || ats[1] != in.Type {
				bad("I / N types %s, %s differ from result type %s", ts(ats[0]), ts(ats[1]), ts(in.Type))
			}
			if e := v.ti(ats[2]); !e.isFloat() || e.n != 1 {
				bad("eta type %s is not a float scalar", ts(ats[2]))
			}
		}
	case GLDeterminant:
		if want(1) {
			c, r, comp, ok := v.matrixInfo(ats[0])
			if !ok || c != r || comp != in.Type {
				bad("Determinant of %s giving %s", ts(ats[0]), ts(in.Type))
			}
		}
	case GLMatrixInverse:
		if want(1) {
			c, r, _, ok := v.matrixInfo(ats[0])
			if !ok || c != r || ats[0] != in.Type {
				bad("MatrixInverse of %s giving %s", ts(ats[0]), ts(in.Type))
			}
		}
	case GLModf, GLFrexp:
		if want(2) && floatRes() {
			if ats[0] != in.Type {
				bad("operand type %s differs from result type %s", ts(ats[0]), ts(in.Type))
			}
			p := m.types[ats[1]]
			if p == nil || p.Kind != TPointer {
				bad("second operand type %s is not a pointer", ts(ats[1]))
			} else if n == GLModf && p.Elem != in.Type {
				bad("whole-part pointer points to %s, want %s", ts(p.Elem), ts(in.Type))
			} else if n == GLFrexp {
				if e := v.ti(p.Elem); !e.isInt() || e.n != rt.n {
					bad("exponent pointer points to %s", ts(p.Elem))
				}
			}
		}
	case GLModfStruct, GLFrexpStruct:
		if want(1) {
			st := rt.t
			if st.Kind != TStruct || len(st.Members) != 2 || st.Members[0] != ats[0] {
				bad("result type %s is not a struct {%s, …}", ts(in.Type), ts(ats[0]))
			} else if n == GLModfStruct && st.Members[1] != ats[0] {
				bad("result struct %s second member is not %s", ts(in.Type), ts(ats[0]))
			} else if n == GLFrexpStruct {
				x, e := v.ti(ats[0]), v.ti(st.Members[1])
				if !e.isInt() || e.n != x.n {
					bad("result struct %s second member is not an integer type matching %s", ts(in.Type), ts(ats[0]))
				}
			}
		}
	case GLLdexp:
		if want(2) && floatRes() {
			if ats[0] != in.Type {
				bad("operand type %s differs from result type %s", ts(ats[0]), ts(in.Type))
			}
			if e := v.ti(ats[1]); !e.isInt() || e.n != rt.n {
				bad("exponent type %s is not an integer type with %d component(s)", ts(ats[1]), rt.n)
			}
		}
	case GLPackSnorm4x8, GLPackUnorm4x8, GLPackSnorm2x16, GLPackUnorm2x16, GLPackHalf2x16:
		if want(1) {
			cnt := uint32(2)
			if n == GLPackSnorm4x8 || n == GLPackUnorm4x8 {
				cnt = 4
			}
			x := v.ti(ats[0])
			if !rt.isInt() || rt.n != 1 || rt.sc.Width != 32 {
				bad("result type %s is not a 32-bit integer scalar", ts(in.Type))
			}
			if !x.isFloat() || x.sc.Width != 32 || x.n != cnt || x.t.Kind != TVector {
				bad("operand type %s is not vec%d<f32>", ts(ats[0]), cnt)
			}
		}
	case GLUnpackSnorm4x8, GLUnpackUnorm4x8, GLUnpackSnorm2x16, GLUnpackUnorm2x16, GLUnpackHalf2x16:
		if want(1) {
			cnt := uint32(2)
			if n == GLUnpackSnorm4x8 || n == GLUnpackUnorm4x8 {
				cnt = 4
			}
			x := v.ti(ats[0])
			if !x.isInt() || x.n != 1 || x.sc.Width != 32 {
				bad("operand type %s is not a 32-bit integer scalar", ts(ats[0]))
			}
			if !rt.isFloat() || rt.sc.Width != 32 || rt.n != cnt || rt.t.Kind != TVector {
				bad("result type %s is not vec%d<f32>", ts(in.Type), cnt)
			}
		}
	default:
		m.unchk["GLSL.std.450:"+GLSLName(n)]++
	}
}
