package spv

import (
	"fmt"
	"math"
	"strings"
)

// Disassemble renders the module as text (one instruction per line, prefixed by the
// instruction index used in Issue.Inst).
func (m *Module) Disassemble() string {
	var sb strings.Builder
	fmt.Fprintf(&sb, "; SPIR-V %d.%d  generator %#x  bound %d  schema %d\n", m.Major, m.Minor, m.Generator, m.Bound, m.Schema)
	for _, in := range m.Insts {
		sb.WriteString(m.DisasmInst(in))
		sb.WriteByte('\n')
	}
	return sb.String()
}

func (m *Module) idStr(id uint32) string {
	if n := m.names[id]; n != "" {
		return fmt.Sprintf("%%%d(%s)", id, n)
	}
	return fmt.Sprintf("%%%d", id)
}

// DisasmInst renders one instruction.
func (m *Module) DisasmInst(in *Inst) string {
	var sb strings.Builder
	fmt.Fprintf(&sb, "%5d: ", in.Index)
	indent := ""
	switch in.Op {
	case OpLabel, OpFunction, OpFunctionEnd, OpFunctionParameter:
	default:
		if in.Index >= 0 && m.inFunction(in.Index) {
			indent = "  "
		}
	}
	sb.WriteString(indent)
	if in.Result != 0 {
		fmt.Fprintf(&sb, "%s = ", m.idStr(in.Result))
	}
	sb.WriteString(in.Name())
	if !in.Known && in.DecodeEr == "" {
		for _, w := range in.Args {
			fmt.Fprintf(&sb, " %#x", w)
		}
		return sb.String()
	}
	extSet := uint32(0)
	for oi, o := range in.Operands {
		switch o.Kind {
		case KindResult:
			continue
		case KindResultType:
			fmt.Fprintf(&sb, " %s", m.TypeString(o.Word))
			if m.types[o.Word] == nil {
				fmt.Fprintf(&sb, "(%%%d)", o.Word)
			} else {
				fmt.Fprintf(&sb, "[%%%d]", o.Word)
			}
		case KindID:
			fmt.Fprintf(&sb, " %s", m.idStr(o.Word))
			if in.Op == OpExtInst && extSet == 0 {
				extSet = o.Word
			}
			if c := m.defs[o.Word]; c != nil && c.Op == OpConstant && in.Op != OpConstantComposite {
				fmt.Fprintf(&sb, "{%s}", m.constStr(c))
			}
		case KindLiteral:
			if (in.Op == OpConstant || in.Op == OpSpecConstant) && oi == 2 {
				fmt.Fprintf(&sb, " %s", m.constStr(in))
			} else if o.Words != nil && len(o.Words) > 1 {
				fmt.Fprintf(&sb, " %#x", o.Words)
			} else {
				fmt.Fprintf(&sb, " %d", o.Word)
			}
		case KindString:
			fmt.Fprintf(&sb, " %q", o.Str)
		case KindEnum:
			fmt.Fprintf(&sb, " %s", EnumName(o.Enum, o.Word))
		case KindExtInst:
			if m.extImps[extSet] == "GLSL.std.450" {
				fmt.Fprintf(&sb, " %s", GLSLName(o.Word))
			} else {
				fmt.Fprintf(&sb, " ext#%d", o.Word)
			}
		}
	}
	if in.DecodeEr != "" {
		fmt.Fprintf(&sb, "   ; DECODE ERROR: %s", in.DecodeEr)
	}
	return sb.String()
}

func (m *Module) inFunction(idx int) bool {
	for _, f := range m.funcs {
		if idx > f.First && idx < f.End {
			return true
		}
	}
	return false
}

func (m *Module) constStr(c *Inst) string {
	t := m.types[c.Type]
	if t == nil || len(c.Args) == 0 {
		return "?"
	}
	v := uint64(c.Args[0])
	if len(c.Args) > 1 {
		v |= uint64(c.Args[1]) << 32
	}
	switch t.Kind {
	case TInt:
		if t.Signed {
			switch {
			case t.Width <= 32:
				return fmt.Sprintf("%d", int32(uint32(v)<<(32-t.Width))>>(32-t.Width))
			default:
				return fmt.Sprintf("%d", int64(v))
			}
		}
		return fmt.Sprintf("%du", v)
	case TFloat:
		switch t.Width {
		case 32:
			return fmt.Sprintf("%gf(%#x)", math.Float32frombits(uint32(v)), uint32(v))
		case 64:
			return fmt.Sprintf("%glf", math.Float64frombits(v))
		case 16:
			return fmt.Sprintf("%gh(%#x)", halfToFloat32(uint16(v)), uint16(v))
		}
	}
	return fmt.Sprintf("%#x", v)
}

// DisasmRange renders instructions [from, to] (clamped), for reports.
func (m *Module) DisasmRange(from, to int) string {
	if from < 0 {
		from = 0
	}
	if to >= len(m.Insts) {
		to = len(m.Insts) - 1
	}
	var sb strings.Builder
	for i := from; i <= to; i++ {
		sb.WriteString(m.DisasmInst(m.Insts[i]))
		sb.WriteByte('\n')
	}
	return sb.String()
}
