package spv

import (
	"bytes"
	"fmt"
	"os"
	"testing"

	"github.com/gogpu/naga/spirv"
)

// execCase is one hand-written compute shader with buffer contents computed BY HAND
// from WGSL semantics.
type execCase struct {
	name string
	src  string
	wg   [3]uint32             // dispatch (default 1,1,1)
	in   func() map[Key][]byte // fresh buffers
	want map[Key][]byte        // expected final contents (whole buffer)
	// expected deviations (suspected naga defects): substring that must appear in
	// RunResult.Poison; the buffer comparison is skipped for such cases.
	wantPoison string
	note       string
	// knownBad marks a reproducer of a suspected naga defect: the run must NOT produce the
	// WGSL-defined result cleanly (wrong bytes, poison, trap or validator issue).  When it
	// suddenly does, the test fails so that the list gets updated.
	knownBad bool
}

func cat(bs ...[]byte) []byte   { return bytes.Join(bs, nil) }
func fill(n int, b byte) []byte { return bytes.Repeat([]byte{b}, n) }

const hdrOA = `
@group(0) @binding(0) var<storage, read_write> o: array<u32>;
@group(0) @binding(1) var<storage, read> a: array<u32>;
`
const hdrOI = `
@group(0) @binding(0) var<storage, read_write> o: array<i32>;
@group(0) @binding(1) var<storage, read> a: array<i32>;
`
const hdrOF = `
@group(0) @binding(0) var<storage, read_write> o: array<f32>;
@group(0) @binding(1) var<storage, read> a: array<f32>;
`

func k(b uint32) Key { return Key{0, b} }

func io(out []byte, in []byte) func() map[Key][]byte {
	return func() map[Key][]byte {
		m := map[Key][]byte{k(0): append([]byte(nil), out...)}
		if in != nil {
			m[k(1)] = append([]byte(nil), in...)
		}
		return m
	}
}

func runCase(t *testing.T, c execCase, opts spirv.Options, reverse bool) {
	t.Helper()
	bin, err := compileWGSLOpts(c.src, opts)
	if err != nil {
		t.Fatalf("compile: %v", err)
	}
	m, err := Parse(bin)
	if err != nil {
		t.Fatalf("parse: %v", err)
	}
	issues := Validate(m)
	if len(issues) != 0 && !c.knownBad {
		t.Errorf("validator: %v", issues)
	}
	bufs := c.in()
	wg := c.wg
	if wg == [3]uint32{} {
		wg = [3]uint32{1, 1, 1}
	}
	res, err := Run(m, RunConfig{Entry: "main", Buffers: bufs, NumWorkgroups: wg, StepLimit: 1 << 22, ReverseOrder: reverse})
	if err != nil {
		t.Fatalf("run: %v", err)
	}
	if c.knownBad {
		bad := len(issues) != 0 || res.Trap != "" || len(res.Poison) != 0
		for key, want := range c.want {
			if !bytes.Equal(bufs[key], want) {
				bad = true
				t.Logf("known defect (%s): buffer %v got %s want %s", c.note, key, dump(bufs[key]), dump(want))
			}
		}
		if len(issues) != 0 || res.Trap != "" || len(res.Poison) != 0 {
			t.Logf("known defect (%s): issues=%v trap=%q poison=%v", c.note, issues, res.Trap, res.Poison)
		}
		if !bad {
			t.Errorf("known defect no longer reproduces: %s", c.note)
		}
		return
	}
	if res.Trap != "" {
		t.Fatalf("trap: %s\n%s", res.Trap, dumpIf(m))
	}
	if c.wantPoison != "" {
		found := false
		for _, p := range res.Poison {
			if bytes.Contains([]byte(p), []byte(c.wantPoison)) {
				found = true
			}
		}
		if !found {
			t.Errorf("expected poison %q (%s), got %v", c.wantPoison, c.note, res.Poison)
		}
		return
	}
	if len(res.Poison) != 0 {
		t.Errorf("poison: %v\n%s", res.Poison, dumpIf(m))
	}
	for key, want := range c.want {
		got := bufs[key]
		if !bytes.Equal(got, want) {
			t.Errorf("buffer %v:\n got  %s\n want %s", key, dump(got), dump(want))
			t.Log(dumpIf(m))
		}
	}
}

func dumpIf(m *Module) string {
	if os.Getenv("SPV_DUMP") != "" {
		return m.Disassemble()
	}
	return "(set SPV_DUMP=1 for the disassembly)"
}

func dump(b []byte) string {
	s := ""
	for i, w := range getU32(b) {
		if i > 0 {
			s += " "
		}
		s += fmt.Sprintf("%08x", w)
	}
	return s
}

func TestExec(t *testing.T) {
	for _, c := range execCases() {
		c := c
		t.Run(c.name, func(t *testing.T) {
			runCase(t, c, spirv.Options{Version: spirv.Version1_3, Debug: true}, false)
			runCase(t, c, spirv.Options{Version: spirv.Version1_0}, true)
			runCase(t, c, spirv.Options{Version: spirv.Version1_5, Debug: true}, false)
			runCase(t, c, spirv.Options{Version: spirv.Version1_4, ForceLoopBounding: true}, true)
		})
	}
}
