package spv

// domTree is a dominator tree over the blocks of one function.
type domTree struct {
	reach     []bool
	rpo       []int
	idom      []int // entry: itself; unreachable: -1
	pre, post []int
}

// dom reports whether a dominates b (false if either is unreachable in this graph).
func (d *domTree) dom(a, b int) bool {
	if a < 0 || b < 0 || !d.reach[a] || !d.reach[b] {
		return false
	}
	return d.pre[a] <= d.pre[b] && d.post[b] <= d.post[a]
}

func (d *domTree) sdomStrict(a, b int) bool { return a != b && d.dom(a, b) }

func buildDom(n int, succ [][]int) *domTree {
	d := &domTree{reach: make([]bool, n), idom: make([]int, n), pre: make([]int, n), post: make([]int, n)}
	for i := range d.idom {
		d.idom[i] = -1
	}
	if n == 0 {
		return d
	}
	pred := make([][]int, n)
	for i, ss := range succ {
		for _, s := range ss {
			pred[s] = append(pred[s], i)
		}
	}
	type frame struct{ b, k int }
	var order []int
	st := []frame{{0, 0}}
	d.reach[0] = true
	for len(st) > 0 {
		fr := &st[len(st)-1]
		if fr.k < len(succ[fr.b]) {
			s := succ[fr.b][fr.k]
			fr.k++
			if !d.reach[s] {
				d.reach[s] = true
				st = append(st, frame{s, 0})
			}
			continue
		}
		order = append(order, fr.b)
		st = st[:len(st)-1]
	}
	rpoNum := make([]int, n)
	for i := range rpoNum {
		rpoNum[i] = -1
	}
	for i := len(order) - 1; i >= 0; i-- {
		rpoNum[order[i]] = len(d.rpo)
		d.rpo = append(d.rpo, order[i])
	}
	// Cooper / Harvey / Kennedy
	d.idom[0] = 0
	intersect := func(a, b int) int {
		for a != b {
			for rpoNum[a] > rpoNum[b] {
				a = d.idom[a]
			}
			for rpoNum[b] > rpoNum[a] {
				b = d.idom[b]
			}
		}
		return a
	}
	for changed := true; changed; {
		changed = false
		for _, b := range d.rpo[1:] {
			nd := -1
			for _, p := range pred[b] {
				if !d.reach[p] || d.idom[p] < 0 {
					continue
				}
				if nd < 0 {
					nd = p
				} else {
					nd = intersect(p, nd)
				}
			}
			if nd >= 0 && d.idom[b] != nd {
				d.idom[b] = nd
				changed = true
			}
		}
	}
	kids := make([][]int, n)
	for _, b := range d.rpo[1:] {
		kids[d.idom[b]] = append(kids[d.idom[b]], b)
	}
	t := 0
	st = []frame{{0, 0}}
	d.pre[0] = t
	t++
	for len(st) > 0 {
		fr := &st[len(st)-1]
		if fr.k < len(kids[fr.b]) {
			k := kids[fr.b][fr.k]
			fr.k++
			d.pre[k] = t
			t++
			st = append(st, frame{k, 0})
			continue
		}
		d.post[fr.b] = t
		t++
		st = st[:len(st)-1]
	}
	return d
}

// cfgInfo is the control-flow analysis of one function: the plain dominator tree (for
// SSA dominance) and the structural one (SPIR-V 1.6 §2.11: CFG edges plus header->merge
// and loop-header->continue-target edges) with the structured-control-flow declarations.
type cfgInfo struct {
	fn        *Function
	n         int
	succ      [][]int
	pred      [][]int
	badTarget [][]uint32 // branch targets that are not labels of this function
	d         *domTree   // plain
	s         *domTree   // structural

	mergeOf      []int // header -> merge block index, -1 none, -2 declared target not a block of the function
	contOf       []int // loop header -> continue target index, -1 none / not a block
	isLoopHdr    []bool
	isSwitchHdr  []bool
	headerOfMrg  map[int][]int // merge block -> headers declaring it
	headerOfCont map[int][]int
	// parent[b]: innermost construct (given by its header block) containing b, not counting the
	// construct b itself heads; -1 = function body; -2 = structurally unreachable.
	parent []int
}

func (f *Function) analysis() *cfgInfo {
	if f.cfg != nil {
		return f.cfg
	}
	n := len(f.Blocks)
	c := &cfgInfo{fn: f, n: n, succ: make([][]int, n), pred: make([][]int, n), badTarget: make([][]uint32, n),
		mergeOf: make([]int, n), contOf: make([]int, n), isLoopHdr: make([]bool, n),
		isSwitchHdr: make([]bool, n), headerOfMrg: map[int][]int{}, headerOfCont: map[int][]int{}, parent: make([]int, n)}
	f.cfg = c
	idx := func(label uint32) int {
		if b := f.byLabel[label]; b != nil {
			return b.Index
		}
		return -1
	}
	ssucc := make([][]int, n)
	addS := func(i, j int) {
		for _, x := range ssucc[i] {
			if x == j {
				return
			}
		}
		ssucc[i] = append(ssucc[i], j)
	}
	for i, b := range f.Blocks {
		c.mergeOf[i], c.contOf[i] = -1, -1
		for _, s := range b.Succ {
			if j := idx(s); j >= 0 {
				c.succ[i] = append(c.succ[i], j)
				c.pred[j] = append(c.pred[j], i)
				addS(i, j)
			} else {
				c.badTarget[i] = append(c.badTarget[i], s)
			}
		}
		if b.Merge != nil {
			mi := idx(b.Merge.Arg(0))
			if mi < 0 {
				mi = -2
			}
			c.mergeOf[i] = mi
			if mi >= 0 {
				c.headerOfMrg[mi] = append(c.headerOfMrg[mi], i)
				addS(i, mi)
			}
			if b.Merge.Op == OpLoopMerge {
				c.isLoopHdr[i] = true
				ci := idx(b.Merge.Arg(1))
				c.contOf[i] = ci
				if ci >= 0 {
					c.headerOfCont[ci] = append(c.headerOfCont[ci], i)
					addS(i, ci)
				}
			} else if b.Term != nil && b.Term.Op == OpSwitch {
				c.isSwitchHdr[i] = true
			}
		}
	}
	c.d = buildDom(n, c.succ)
	c.s = buildDom(n, ssucc)
	for b := 0; b < n; b++ {
		if !c.s.reach[b] {
			c.parent[b] = -2
			continue
		}
		c.parent[b] = -1
		for a := b; a != 0; {
			a = c.s.idom[a]
			if c.mergeOf[a] != -1 {
				mi := c.mergeOf[a]
				if mi < 0 || !c.s.dom(mi, b) {
					c.parent[b] = a
					break
				}
			}
		}
	}
	return c
}
