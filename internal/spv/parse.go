// Package spv is an independent SPIR-V binary reader, structural validator and
// compute-shader interpreter written from the SPIR-V specification.  It shares no
// code with the compiler under test.
package spv

import (
	"encoding/binary"
	"errors"
	"fmt"
	"sort"
	"strings"
)

const Magic = 0x07230203

// OperandKind classifies one decoded operand.
type OperandKind uint8

const (
	KindResultType OperandKind = iota
	KindResult
	KindID
	KindLiteral // one or more literal words (Words holds all of them)
	KindString
	KindEnum // enumerant or mask; Enum holds the kind name
	KindExtInst
)

// Operand is one decoded operand of an instruction.
type Operand struct {
	Kind  OperandKind
	Word  uint32   // first (or only) word
	Words []uint32 // multi-word literal (nil for single words)
	Str   string   // KindString
	Enum  string   // KindEnum: enum kind name
}

// Inst is one decoded instruction.
type Inst struct {
	Op       uint16
	Index    int      // position in Module.Insts
	Offset   int      // word offset in the binary
	Words    []uint32 // all words including the first
	Type     uint32   // result type id or 0
	Result   uint32   // result id or 0
	Args     []uint32 // raw words after result type / result id
	Operands []Operand
	Known    bool // opcode present in the operand table and operands decoded without error
	DecodeEr string
}

func (in *Inst) Name() string { return OpcodeName(in.Op) }

// Arg returns raw argument word i or 0.
func (in *Inst) Arg(i int) uint32 {
	if i < len(in.Args) {
		return in.Args[i]
	}
	return 0
}

// IDs returns every id operand used by the instruction (including the result type,
// excluding the result id).
func (in *Inst) IDs() []uint32 {
	var out []uint32
	for _, o := range in.Operands {
		if o.Kind == KindID || o.Kind == KindResultType {
			out = append(out, o.Word)
		}
	}
	return out
}

// TypeKind enumerates SPIR-V type classes.
type TypeKind int

const (
	TVoid TypeKind = iota + 1
	TBool
	TInt
	TFloat
	TVector
	TMatrix
	TImage
	TSampler
	TSampledImage
	TArray
	TRuntimeArray
	TStruct
	TPointer
	TFunction
	TOpaque // anything else declared by an OpType* instruction (ray query, acceleration structure …)
)

func (k TypeKind) String() string {
	switch k {
	case TVoid:
		return "void"
	case TBool:
		return "bool"
	case TInt:
		return "int"
	case TFloat:
		return "float"
	case TVector:
		return "vector"
	case TMatrix:
		return "matrix"
	case TImage:
		return "image"
	case TSampler:
		return "sampler"
	case TSampledImage:
		return "sampledimage"
	case TArray:
		return "array"
	case TRuntimeArray:
		return "runtimearray"
	case TStruct:
		return "struct"
	case TPointer:
		return "pointer"
	case TFunction:
		return "function"
	case TOpaque:
		return "opaque"
	}
	return "?"
}

// Type describes a declared type.
type Type struct {
	ID      uint32
	Kind    TypeKind
	Width   uint32   // int / float
	Signed  bool     // int
	Elem    uint32   // vector component, matrix column, array element, pointer pointee, function return, image sampled type, sampled image's image type
	Count   uint32   // vector components, matrix columns, array length (resolved constant; 0 if not resolvable)
	LenID   uint32   // array length id
	Members []uint32 // struct members / function parameters
	Storage uint32   // pointer storage class
	// image
	Dim, Depth, Arrayed, MS, Sampled, Format uint32
	Inst                                     *Inst
}

// Decoration is one decoration applied to an id (Member == -1) or a struct member.
type Decoration struct {
	Dec    uint32
	Member int
	Params []uint32
	Str    string
	Inst   int
}

// Name of the decoration.
func (d Decoration) Name() string { return EnumName("Decoration", d.Dec) }

type EntryPointInfo struct {
	Name      string
	Model     uint32
	Func      uint32
	Interface []uint32
	Modes     []ExecMode
	LocalSize [3]uint32 // resolved (LocalSize, LocalSizeId or WorkgroupSize builtin); zero if absent
	Inst      int
}

type ExecMode struct {
	Mode   uint32
	Params []uint32
	IsID   bool // OpExecutionModeId / id operands
	Inst   int
}

type ResourceVar struct {
	ID       uint32
	Storage  uint32
	Set      uint32
	Binding  uint32
	HasSet   bool
	HasBind  bool
	Pointee  uint32
	TypeID   uint32 // pointer type id
	Name     string
	NonWrite bool // NonWritable on the variable or on all members of the block
}

// Function is the static shape of one function.
type Function struct {
	ID      uint32
	TypeID  uint32 // function type
	RetType uint32
	Control uint32
	Params  []*Inst
	Blocks  []*Block
	First   int // index of OpFunction
	End     int // index of OpFunctionEnd (or last inst)
	byLabel map[uint32]*Block
	cfg     *cfgInfo
	// interpreter
	numLocals int
}

// Block is one basic block.
type Block struct {
	Label uint32
	Index int     // in Function.Blocks
	Insts []*Inst // including OpLabel and the terminator
	Merge *Inst   // OpSelectionMerge / OpLoopMerge or nil
	Term  *Inst   // terminator or nil
	Succ  []uint32
}

// Module is a parsed SPIR-V module.
type Module struct {
	Version   uint32 // raw version word
	Major     int
	Minor     int
	Generator uint32
	Bound     uint32
	Schema    uint32
	Insts     []*Inst

	defs     map[uint32]*Inst
	types    map[uint32]*Type
	names    map[uint32]string
	mnames   map[uint32]map[uint32]string
	decos    map[uint32][]Decoration
	funcs    []*Function
	funcByID map[uint32]*Function
	caps     map[uint32]bool
	exts     map[string]bool
	extImps  map[uint32]string
	unknown  map[string]int
	unchk    map[string]int
	prep     *prepared
}

var errTrunc = errors.New("spv: truncated module")

// Parse decodes the binary.  It fails only when the word stream itself is malformed.
func Parse(b []byte) (*Module, error) {
	if len(b) < 20 {
		return nil, errTrunc
	}
	if len(b)%4 != 0 {
		return nil, fmt.Errorf("spv: size %d is not a multiple of 4", len(b))
	}
	w := make([]uint32, len(b)/4)
	for i := range w {
		w[i] = binary.LittleEndian.Uint32(b[4*i:])
	}
	if w[0] != Magic {
		if w[0] == 0x03022307 {
			return nil, fmt.Errorf("spv: big-endian module not supported")
		}
		return nil, fmt.Errorf("spv: bad magic %#x", w[0])
	}
	m := &Module{
		Version: w[1], Major: int(w[1] >> 16 & 0xff), Minor: int(w[1] >> 8 & 0xff),
		Generator: w[2], Bound: w[3], Schema: w[4],
		defs: map[uint32]*Inst{}, types: map[uint32]*Type{}, names: map[uint32]string{}, mnames: map[uint32]map[uint32]string{},
		decos: map[uint32][]Decoration{}, funcByID: map[uint32]*Function{}, caps: map[uint32]bool{}, exts: map[string]bool{},
		extImps: map[uint32]string{}, unknown: map[string]int{}, unchk: map[string]int{},
	}
	pos := 5
	for pos < len(w) {
		wc := int(w[pos] >> 16)
		op := uint16(w[pos] & 0xffff)
		if wc == 0 {
			return nil, fmt.Errorf("spv: instruction at word %d has word count 0", pos)
		}
		if pos+wc > len(w) {
			return nil, fmt.Errorf("spv: instruction %s at word %d overruns the module (count %d, %d left)", OpcodeName(op), pos, wc, len(w)-pos)
		}
		in := &Inst{Op: op, Index: len(m.Insts), Offset: pos, Words: w[pos : pos+wc : pos+wc]}
		m.Insts = append(m.Insts, in)
		pos += wc
	}
	// Decoding needs type widths for OpConstant / OpSwitch, so decode in order and
	// register int/float types as we go.
	widths := map[uint32]uint32{}
	valType := map[uint32]uint32{}
	for _, in := range m.Insts {
		m.decode(in, widths, valType)
		if in.Result != 0 {
			if _, dup := m.defs[in.Result]; !dup {
				m.defs[in.Result] = in
			}
			if in.Type != 0 {
				valType[in.Result] = in.Type
			}
		}
		switch in.Op {
		case OpTypeInt, OpTypeFloat:
			if len(in.Args) >= 1 {
				widths[in.Result] = in.Args[0]
			}
		}
	}
	m.index()
	return m, nil
}

func strWords(ws []uint32) (string, int, bool) {
	var sb []byte
	for i, x := range ws {
		for k := 0; k < 4; k++ {
			c := byte(x >> (8 * uint(k)))
			if c == 0 {
				return string(sb), i + 1, true
			}
			sb = append(sb, c)
		}
	}
	return string(sb), len(ws), false
}

var decoIDParams = map[uint32]bool{DecUniformId: true, DecAlignmentId: true, DecMaxByteOffsetId: true, DecCounterBuffer: true}

func (m *Module) decode(in *Inst, widths map[uint32]uint32, valType map[uint32]uint32) {
	oi, ok := opTable[in.Op]
	ws := in.Words[1:]
	if !ok {
		in.Args = ws
		m.unknown[OpcodeName(in.Op)]++
		return
	}
	p := 0
	fail := func(s string) {
		if in.DecodeEr == "" {
			in.DecodeEr = s
		}
	}
	need := func() bool {
		if p >= len(ws) {
			fail("missing operand")
			return false
		}
		return true
	}
	toks := strings.Fields(oi.pat)
	argStart := 0
	for _, t := range toks {
		switch {
		case t == "T":
			if need() {
				in.Type = ws[p]
				in.Operands = append(in.Operands, Operand{Kind: KindResultType, Word: ws[p]})
				p++
				argStart = p
			}
		case t == "R":
			if need() {
				in.Result = ws[p]
				in.Operands = append(in.Operands, Operand{Kind: KindResult, Word: ws[p]})
				p++
				argStart = p
			}
		case t == "i":
			if need() {
				in.Operands = append(in.Operands, Operand{Kind: KindID, Word: ws[p]})
				p++
			}
		case t == "i?":
			if p < len(ws) {
				in.Operands = append(in.Operands, Operand{Kind: KindID, Word: ws[p]})
				p++
			}
		case t == "i*":
			for p < len(ws) {
				in.Operands = append(in.Operands, Operand{Kind: KindID, Word: ws[p]})
				p++
			}
		case t == "n":
			if need() {
				in.Operands = append(in.Operands, Operand{Kind: KindLiteral, Word: ws[p]})
				p++
			}
		case t == "n?":
			if p < len(ws) {
				in.Operands = append(in.Operands, Operand{Kind: KindLiteral, Word: ws[p]})
				p++
			}
		case t == "n*":
			for p < len(ws) {
				in.Operands = append(in.Operands, Operand{Kind: KindLiteral, Word: ws[p]})
				p++
			}
		case t == "x":
			if need() {
				in.Operands = append(in.Operands, Operand{Kind: KindExtInst, Word: ws[p]})
				p++
			}
		case t == "s" || t == "s?":
			if p >= len(ws) {
				if t == "s" {
					fail("missing string")
				}
				break
			}
			s, n, term := strWords(ws[p:])
			if !term {
				fail("unterminated string")
			}
			in.Operands = append(in.Operands, Operand{Kind: KindString, Str: s, Word: ws[p]})
			p += n
		case t == "c":
			if need() {
				in.Operands = append(in.Operands, Operand{Kind: KindLiteral, Word: ws[p], Words: ws[p:]})
				p = len(ws)
			}
		case t == "o":
			if need() {
				sop := uint16(ws[p])
				in.Operands = append(in.Operands, Operand{Kind: KindLiteral, Word: ws[p]})
				p++
				// literal operands of the few spec-constant ops that have them
				switch sop {
				case OpCompositeExtract:
					if need() {
						in.Operands = append(in.Operands, Operand{Kind: KindID, Word: ws[p]})
						p++
					}
					for p < len(ws) {
						in.Operands = append(in.Operands, Operand{Kind: KindLiteral, Word: ws[p]})
						p++
					}
				case OpCompositeInsert, OpVectorShuffle:
					for k := 0; k < 2 && p < len(ws); k++ {
						in.Operands = append(in.Operands, Operand{Kind: KindID, Word: ws[p]})
						p++
					}
					for p < len(ws) {
						in.Operands = append(in.Operands, Operand{Kind: KindLiteral, Word: ws[p]})
						p++
					}
				default:
					for p < len(ws) {
						in.Operands = append(in.Operands, Operand{Kind: KindID, Word: ws[p]})
						p++
					}
				}
			}
		case strings.HasPrefix(t, "e:"):
			if need() {
				in.Operands = append(in.Operands, Operand{Kind: KindEnum, Word: ws[p], Enum: t[2:]})
				p++
			}
		case strings.HasPrefix(t, "e?:"):
			if p < len(ws) {
				in.Operands = append(in.Operands, Operand{Kind: KindEnum, Word: ws[p], Enum: t[3:]})
				p++
			}
		case t == "M?":
			if p < len(ws) {
				mask := ws[p]
				in.Operands = append(in.Operands, Operand{Kind: KindEnum, Word: mask, Enum: "MemoryAccess"})
				p++
				if mask&0x2 != 0 { // Aligned
					if need() {
						in.Operands = append(in.Operands, Operand{Kind: KindLiteral, Word: ws[p]})
						p++
					}
				}
				if mask&0x8 != 0 { // MakePointerAvailable <scope id>
					if need() {
						in.Operands = append(in.Operands, Operand{Kind: KindID, Word: ws[p]})
						p++
					}
				}
				if mask&0x10 != 0 { // MakePointerVisible <scope id>
					if need() {
						in.Operands = append(in.Operands, Operand{Kind: KindID, Word: ws[p]})
						p++
					}
				}
			}
		case t == "I" || t == "I?":
			if p >= len(ws) {
				if t == "I" {
					fail("missing image operands")
				}
				break
			}
			mask := ws[p]
			in.Operands = append(in.Operands, Operand{Kind: KindEnum, Word: mask, Enum: "ImageOperands"})
			p++
			// every parameter of every image operand is an id; Grad has two.
			for bit := uint(0); bit < 17; bit++ {
				if mask&(1<<bit) == 0 {
					continue
				}
				n := 1
				switch bit {
				case 2:
					n = 2
				case 10, 11, 12, 13, 14: // NonPrivateTexel, VolatileTexel, SignExtend, ZeroExtend, Nontemporal
					n = 0
				}
				for k := 0; k < n; k++ {
					if need() {
						in.Operands = append(in.Operands, Operand{Kind: KindID, Word: ws[p]})
						p++
					}
				}
			}
		case t == "D":
			if need() {
				dec := ws[p]
				in.Operands = append(in.Operands, Operand{Kind: KindEnum, Word: dec, Enum: "Decoration"})
				p++
				switch {
				case dec == DecLinkage || dec == DecUserSemantic || dec == DecUserTypeGOOGLE:
					if p < len(ws) {
						s, n, term := strWords(ws[p:])
						if !term {
							fail("unterminated string")
						}
						in.Operands = append(in.Operands, Operand{Kind: KindString, Str: s, Word: ws[p]})
						p += n
					}
					if dec == DecLinkage && p < len(ws) {
						in.Operands = append(in.Operands, Operand{Kind: KindLiteral, Word: ws[p]})
						p++
					}
				case dec == DecBuiltIn:
					if need() {
						in.Operands = append(in.Operands, Operand{Kind: KindEnum, Word: ws[p], Enum: "BuiltIn"})
						p++
					}
				case decoIDParams[dec] || in.Op == OpDecorateId:
					for p < len(ws) {
						in.Operands = append(in.Operands, Operand{Kind: KindID, Word: ws[p]})
						p++
					}
				default:
					for p < len(ws) {
						in.Operands = append(in.Operands, Operand{Kind: KindLiteral, Word: ws[p]})
						p++
					}
				}
			}
		case t == "X":
			if need() {
				mode := ws[p]
				in.Operands = append(in.Operands, Operand{Kind: KindEnum, Word: mode, Enum: "ExecutionMode"})
				p++
				isID := in.Op == OpExecutionModeId || mode == 37 || mode == 38 || mode == 39
				for p < len(ws) {
					k := KindLiteral
					if isID {
						k = KindID
					}
					in.Operands = append(in.Operands, Operand{Kind: k, Word: ws[p]})
					p++
				}
			}
		case t == "L":
			if need() {
				in.Operands = append(in.Operands, Operand{Kind: KindEnum, Word: ws[p], Enum: "LoopControl"})
				p++
				for p < len(ws) {
					in.Operands = append(in.Operands, Operand{Kind: KindLiteral, Word: ws[p]})
					p++
				}
			}
		case t == "P*":
			for p < len(ws) {
				in.Operands = append(in.Operands, Operand{Kind: KindID, Word: ws[p]})
				p++
				if need() {
					in.Operands = append(in.Operands, Operand{Kind: KindID, Word: ws[p]})
					p++
				}
			}
		case t == "W*":
			// literal width follows the selector's type
			lw := 1
			if len(ws) > 0 {
				if wd := widths[valType[ws[0]]]; wd > 32 {
					lw = int((wd + 31) / 32)
				}
			}
			for p < len(ws) {
				if p+lw > len(ws) {
					fail("truncated switch literal")
					p = len(ws)
					break
				}
				op := Operand{Kind: KindLiteral, Word: ws[p]}
				if lw > 1 {
					op.Words = ws[p : p+lw]
				}
				in.Operands = append(in.Operands, op)
				p += lw
				if need() {
					in.Operands = append(in.Operands, Operand{Kind: KindID, Word: ws[p]})
					p++
				}
			}
		case t == "G*":
			for p < len(ws) {
				in.Operands = append(in.Operands, Operand{Kind: KindID, Word: ws[p]})
				p++
				if need() {
					in.Operands = append(in.Operands, Operand{Kind: KindLiteral, Word: ws[p]})
					p++
				}
			}
		default:
			panic("spv: bad operand pattern token " + t)
		}
	}
	if p < len(ws) {
		fail(fmt.Sprintf("%d excess operand word(s)", len(ws)-p))
	}
	if argStart > len(ws) {
		argStart = len(ws)
	}
	in.Args = ws[argStart:]
	in.Known = in.DecodeEr == ""
}

// index builds the reflection tables (types, names, decorations, functions).
func (m *Module) index() {
	var curF *Function
	var curB *Block
	for _, in := range m.Insts {
		switch in.Op {
		case OpCapability:
			if len(in.Args) > 0 {
				m.caps[in.Args[0]] = true
			}
		case OpExtension:
			if len(in.Operands) > 0 {
				m.exts[in.Operands[0].Str] = true
			}
		case OpExtInstImport:
			if len(in.Operands) > 1 {
				m.extImps[in.Result] = in.Operands[1].Str
			}
		case OpName:
			if len(in.Operands) > 1 {
				m.names[in.Operands[0].Word] = in.Operands[1].Str
			}
		case OpMemberName:
			if len(in.Operands) > 2 {
				t := in.Operands[0].Word
				if m.mnames[t] == nil {
					m.mnames[t] = map[uint32]string{}
				}
				m.mnames[t][in.Operands[1].Word] = in.Operands[2].Str
			}
		case OpDecorate, OpDecorateId:
			if len(in.Args) >= 2 {
				d := Decoration{Dec: in.Args[1], Member: -1, Params: in.Args[2:], Inst: in.Index}
				for _, o := range in.Operands {
					if o.Kind == KindString {
						d.Str = o.Str
					}
				}
				m.decos[in.Args[0]] = append(m.decos[in.Args[0]], d)
			}
		case OpMemberDecorate:
			if len(in.Args) >= 3 {
				d := Decoration{Dec: in.Args[2], Member: int(in.Args[1]), Params: in.Args[3:], Inst: in.Index}
				for _, o := range in.Operands {
					if o.Kind == KindString {
						d.Str = o.Str
					}
				}
				m.decos[in.Args[0]] = append(m.decos[in.Args[0]], d)
			}
		}
		if t := m.mkType(in); t != nil {
			if _, dup := m.types[t.ID]; !dup && m.defs[t.ID] == in {
				m.types[t.ID] = t
			}
		}
		// functions / blocks
		switch in.Op {
		case OpFunction:
			curF = &Function{ID: in.Result, RetType: in.Type, Control: in.Arg(0), TypeID: in.Arg(1), First: in.Index, End: in.Index, byLabel: map[uint32]*Block{}}
			m.funcs = append(m.funcs, curF)
			if _, dup := m.funcByID[in.Result]; !dup {
				m.funcByID[in.Result] = curF
			}
			curB = nil
		case OpFunctionEnd:
			if curF != nil {
				curF.End = in.Index
			}
			curF, curB = nil, nil
		case OpFunctionParameter:
			if curF != nil && curB == nil {
				curF.Params = append(curF.Params, in)
			}
		case OpLabel:
			if curF != nil {
				curB = &Block{Label: in.Result, Index: len(curF.Blocks)}
				curF.Blocks = append(curF.Blocks, curB)
				if _, dup := curF.byLabel[in.Result]; !dup {
					curF.byLabel[in.Result] = curB
				}
			}
		}
		if curF != nil {
			curF.End = in.Index
		}
		if curB != nil {
			curB.Insts = append(curB.Insts, in)
			switch in.Op {
			case OpSelectionMerge, OpLoopMerge:
				curB.Merge = in
			case OpBranch, OpBranchConditional, OpSwitch, OpKill, OpReturn, OpReturnValue, OpUnreachable, OpTerminateInvocation:
				curB.Term = in
				curB.Succ = branchTargets(in)
				curB = nil
			}
		}
	}
}

func isTerminator(op uint16) bool {
	switch op {
	case OpBranch, OpBranchConditional, OpSwitch, OpKill, OpReturn, OpReturnValue, OpUnreachable, OpTerminateInvocation:
		return true
	}
	return false
}

// branchTargets lists successor labels (with duplicates removed, order preserved).
func branchTargets(in *Inst) []uint32 {
	var t []uint32
	add := func(x uint32) {
		for _, y := range t {
			if y == x {
				return
			}
		}
		t = append(t, x)
	}
	switch in.Op {
	case OpBranch:
		if len(in.Args) >= 1 {
			add(in.Args[0])
		}
	case OpBranchConditional:
		if len(in.Args) >= 3 {
			add(in.Args[1])
			add(in.Args[2])
		}
	case OpSwitch:
		ids := 0
		for i, o := range in.Operands {
			if o.Kind == KindID {
				ids++
				if ids >= 2 && i >= 1 {
					add(o.Word)
				}
			}
		}
	}
	return t
}

func (m *Module) mkType(in *Inst) *Type {
	t := &Type{ID: in.Result, Inst: in}
	a := in.Args
	switch in.Op {
	case OpTypeVoid:
		t.Kind = TVoid
	case OpTypeBool:
		t.Kind = TBool
	case OpTypeInt:
		t.Kind = TInt
		t.Width = in.Arg(0)
		t.Signed = in.Arg(1) != 0
	case OpTypeFloat:
		t.Kind = TFloat
		t.Width = in.Arg(0)
	case OpTypeVector:
		t.Kind = TVector
		t.Elem, t.Count = in.Arg(0), in.Arg(1)
	case OpTypeMatrix:
		t.Kind = TMatrix
		t.Elem, t.Count = in.Arg(0), in.Arg(1)
	case OpTypeImage:
		t.Kind = TImage
		t.Elem, t.Dim, t.Depth, t.Arrayed, t.MS, t.Sampled, t.Format = in.Arg(0), in.Arg(1), in.Arg(2), in.Arg(3), in.Arg(4), in.Arg(5), in.Arg(6)
	case OpTypeSampler:
		t.Kind = TSampler
	case OpTypeSampledImage:
		t.Kind = TSampledImage
		t.Elem = in.Arg(0)
	case OpTypeArray:
		t.Kind = TArray
		t.Elem, t.LenID = in.Arg(0), in.Arg(1)
		if c := m.defs[t.LenID]; c != nil && (c.Op == OpConstant || c.Op == OpSpecConstant) && len(c.Args) >= 1 {
			t.Count = c.Args[0]
		}
	case OpTypeRuntimeArray:
		t.Kind = TRuntimeArray
		t.Elem = in.Arg(0)
	case OpTypeStruct:
		t.Kind = TStruct
		t.Members = a
	case OpTypePointer:
		t.Kind = TPointer
		t.Storage, t.Elem = in.Arg(0), in.Arg(1)
	case OpTypeFunction:
		t.Kind = TFunction
		t.Elem = in.Arg(0)
		if len(a) > 1 {
			t.Members = a[1:]
		}
	case OpTypeOpaque, OpTypeEvent, OpTypeDeviceEvent, OpTypeReserveId, OpTypeQueue, OpTypePipe, OpTypeRayQueryKHR, OpTypeAccelStructKHR:
		t.Kind = TOpaque
	default:
		return nil
	}
	if t.ID == 0 {
		return nil
	}
	return t
}

// ---------------------------------------------------------------- reflection

// Def returns the instruction defining id (nil if none).
func (m *Module) Def(id uint32) *Inst { return m.defs[id] }

// Type returns the declared type with this id, or nil.
func (m *Module) Type(id uint32) *Type { return m.types[id] }

// TypeOf returns the result type id of the value id (0 if none).
func (m *Module) TypeOf(id uint32) uint32 {
	if d := m.defs[id]; d != nil {
		return d.Type
	}
	return 0
}

// Name returns the OpName of id or "".
func (m *Module) Name(id uint32) string { return m.names[id] }

// MemberName returns the OpMemberName or "".
func (m *Module) MemberName(id uint32, member uint32) string { return m.mnames[id][member] }

// Decorations lists all decorations of id, member decorations included (Member >= 0).
func (m *Module) Decorations(id uint32) []Decoration { return m.decos[id] }

// Deco finds a decoration on id itself.
func (m *Module) Deco(id uint32, dec uint32) (Decoration, bool) {
	for _, d := range m.decos[id] {
		if d.Member < 0 && d.Dec == dec {
			return d, true
		}
	}
	return Decoration{}, false
}

// MemberDeco finds a member decoration.
func (m *Module) MemberDeco(id uint32, member int, dec uint32) (Decoration, bool) {
	for _, d := range m.decos[id] {
		if d.Member == member && d.Dec == dec {
			return d, true
		}
	}
	return Decoration{}, false
}

// HasCapability reports whether OpCapability cap is declared.
func (m *Module) HasCapability(c uint32) bool { return m.caps[c] }

// Capabilities lists the declared capabilities (sorted).
func (m *Module) Capabilities() []uint32 {
	var out []uint32
	for c := range m.caps {
		out = append(out, c)
	}
	sort.Slice(out, func(i, j int) bool { return out[i] < out[j] })
	return out
}

// Extensions lists OpExtension strings (sorted).
func (m *Module) Extensions() []string {
	var out []string
	for e := range m.exts {
		out = append(out, e)
	}
	sort.Strings(out)
	return out
}

// Functions returns the functions in module order.
func (m *Module) Functions() []*Function { return m.funcs }

// Unchecked counts instructions whose operands the validator could not judge: opcodes
// missing from the operand table ("Op#N") and, after Validate ran, opcodes that are
// decoded but have no type-relation rule ("nocheck:OpXxx").
func (m *Module) Unchecked() map[string]int {
	out := map[string]int{}
	for k, v := range m.unknown {
		out[k] = v
	}
	for k, v := range m.unchk {
		out["nocheck:"+k] = v
	}
	return out
}

// AtLeast reports version >= major.minor.
func (m *Module) AtLeast(major, minor int) bool {
	return m.Major > major || (m.Major == major && m.Minor >= minor)
}

// ConstantValue describes a constant: scalar bits or constituent ids.
type ConstantValue struct {
	Type    uint32
	Op      uint16
	Bits    uint64   // scalar value (bool: 0/1)
	Elems   []uint32 // composite constituents
	IsNull  bool
	IsSpec  bool
	IsUndef bool
}

// ConstantValue returns the value of a constant instruction (spec constants: default).
func (m *Module) ConstantValue(id uint32) (ConstantValue, bool) {
	in := m.defs[id]
	if in == nil {
		return ConstantValue{}, false
	}
	cv := ConstantValue{Type: in.Type, Op: in.Op}
	switch in.Op {
	case OpConstantTrue, OpSpecConstantTrue:
		cv.Bits = 1
	case OpConstantFalse, OpSpecConstantFalse:
	case OpConstant, OpSpecConstant:
		if len(in.Args) >= 1 {
			cv.Bits = uint64(in.Args[0])
		}
		if len(in.Args) >= 2 {
			cv.Bits |= uint64(in.Args[1]) << 32
		}
	case OpConstantComposite, OpSpecConstantComposite:
		cv.Elems = in.Args
	case OpConstantNull:
		cv.IsNull = true
	case OpUndef:
		cv.IsUndef = true
	case OpSpecConstantOp:
	default:
		return ConstantValue{}, false
	}
	switch in.Op {
	case OpSpecConstantTrue, OpSpecConstantFalse, OpSpecConstant, OpSpecConstantComposite, OpSpecConstantOp:
		cv.IsSpec = true
	}
	return cv, true
}

// ConstU32 returns the value of an integer scalar OpConstant / OpSpecConstant of width <= 32.
func (m *Module) ConstU32(id uint32) (uint32, bool) {
	in := m.defs[id]
	if in == nil || (in.Op != OpConstant && in.Op != OpSpecConstant) || len(in.Args) < 1 {
		return 0, false
	}
	t := m.types[in.Type]
	if t == nil || t.Kind != TInt || t.Width > 32 {
		return 0, false
	}
	return in.Args[0], true
}

// EntryPoints lists the entry points with their execution modes.
func (m *Module) EntryPoints() []EntryPointInfo {
	var eps []EntryPointInfo
	for _, in := range m.Insts {
		if in.Op != OpEntryPoint || len(in.Operands) < 3 {
			continue
		}
		ep := EntryPointInfo{Model: in.Operands[0].Word, Func: in.Operands[1].Word, Name: in.Operands[2].Str, Inst: in.Index}
		for _, o := range in.Operands[3:] {
			if o.Kind == KindID {
				ep.Interface = append(ep.Interface, o.Word)
			}
		}
		eps = append(eps, ep)
	}
	for _, in := range m.Insts {
		if (in.Op != OpExecutionMode && in.Op != OpExecutionModeId) || len(in.Args) < 2 {
			continue
		}
		for i := range eps {
			if eps[i].Func != in.Args[0] {
				continue
			}
			em := ExecMode{Mode: in.Args[1], Params: in.Args[2:], Inst: in.Index}
			em.IsID = in.Op == OpExecutionModeId || em.Mode == 37 || em.Mode == 38 || em.Mode == 39
			eps[i].Modes = append(eps[i].Modes, em)
		}
	}
	// WorkgroupSize builtin constant overrides LocalSize.
	var wgs [3]uint32
	haveWGS := false
	for id, ds := range m.decos {
		for _, d := range ds {
			if d.Member < 0 && d.Dec == DecBuiltIn && len(d.Params) > 0 && d.Params[0] == BIWorkgroupSize {
				if cv, ok := m.ConstantValue(id); ok && len(cv.Elems) == 3 {
					haveWGS = true
					for k := 0; k < 3; k++ {
						wgs[k], _ = m.ConstU32(cv.Elems[k])
					}
				}
			}
		}
	}
	for i := range eps {
		for _, em := range eps[i].Modes {
			if em.Mode == XMLocalSize && len(em.Params) >= 3 {
				copy(eps[i].LocalSize[:], em.Params[:3])
			}
			if em.Mode == XMLocalSizeId && len(em.Params) >= 3 {
				for k := 0; k < 3; k++ {
					eps[i].LocalSize[k], _ = m.ConstU32(em.Params[k])
				}
			}
		}
		if haveWGS && (eps[i].Model == EMGLCompute || eps[i].Model == EMKernel) {
			eps[i].LocalSize = wgs
		}
	}
	return eps
}

// GlobalVars returns all module-scope OpVariable instructions.
func (m *Module) GlobalVars() []*Inst {
	var out []*Inst
	inFunc := false
	for _, in := range m.Insts {
		switch in.Op {
		case OpFunction:
			inFunc = true
		case OpFunctionEnd:
			inFunc = false
		case OpVariable:
			if !inFunc {
				out = append(out, in)
			}
		}
	}
	return out
}

// ResourceVars lists variables in StorageBuffer / Uniform / UniformConstant / PushConstant.
func (m *Module) ResourceVars() []ResourceVar {
	var out []ResourceVar
	for _, in := range m.GlobalVars() {
		sc := in.Arg(0)
		if sc != SCStorageBuffer && sc != SCUniform && sc != SCUniformConstant && sc != SCPushConstant {
			continue
		}
		rv := ResourceVar{ID: in.Result, Storage: sc, TypeID: in.Type, Name: m.names[in.Result]}
		if pt := m.types[in.Type]; pt != nil && pt.Kind == TPointer {
			rv.Pointee = pt.Elem
		}
		if d, ok := m.Deco(in.Result, DecDescriptorSet); ok && len(d.Params) > 0 {
			rv.Set, rv.HasSet = d.Params[0], true
		}
		if d, ok := m.Deco(in.Result, DecBinding); ok && len(d.Params) > 0 {
			rv.Binding, rv.HasBind = d.Params[0], true
		}
		if _, ok := m.Deco(in.Result, DecNonWritable); ok {
			rv.NonWrite = true
		} else if st := m.types[m.stripArrays(rv.Pointee)]; st != nil && st.Kind == TStruct && len(st.Members) > 0 {
			all := true
			for i := range st.Members {
				if _, ok := m.MemberDeco(st.ID, i, DecNonWritable); !ok {
					all = false
				}
			}
			rv.NonWrite = all
		}
		out = append(out, rv)
	}
	return out
}

// stripArrays removes outer (runtime) array levels (binding arrays).
func (m *Module) stripArrays(id uint32) uint32 {
	for i := 0; i < 8; i++ {
		t := m.types[id]
		if t == nil || (t.Kind != TArray && t.Kind != TRuntimeArray) {
			return id
		}
		id = t.Elem
	}
	return id
}

// TypeString renders a type for messages.
func (m *Module) TypeString(id uint32) string {
	return m.typeString(id, 0)
}

func (m *Module) typeString(id uint32, depth int) string {
	t := m.types[id]
	if t == nil {
		return fmt.Sprintf("%%%d?", id)
	}
	if depth > 6 {
		return fmt.Sprintf("%%%d", id)
	}
	switch t.Kind {
	case TVoid:
		return "void"
	case TBool:
		return "bool"
	case TInt:
		if t.Signed {
			return fmt.Sprintf("i%d", t.Width)
		}
		return fmt.Sprintf("u%d", t.Width)
	case TFloat:
		return fmt.Sprintf("f%d", t.Width)
	case TVector:
		return fmt.Sprintf("vec%d<%s>", t.Count, m.typeString(t.Elem, depth+1))
	case TMatrix:
		return fmt.Sprintf("mat%d<%s>", t.Count, m.typeString(t.Elem, depth+1))
	case TArray:
		return fmt.Sprintf("array<%s,%d>", m.typeString(t.Elem, depth+1), t.Count)
	case TRuntimeArray:
		return fmt.Sprintf("array<%s>", m.typeString(t.Elem, depth+1))
	case TStruct:
		s := fmt.Sprintf("struct%%%d{", id)
		for i, mm := range t.Members {
			if i > 0 {
				s += ","
			}
			s += m.typeString(mm, depth+1)
		}
		return s + "}"
	case TPointer:
		return fmt.Sprintf("ptr<%s,%s>", EnumName("StorageClass", t.Storage), m.typeString(t.Elem, depth+1))
	case TFunction:
		return fmt.Sprintf("fn%%%d", id)
	case TImage:
		return fmt.Sprintf("image%%%d", id)
	case TSampler:
		return "sampler"
	case TSampledImage:
		return fmt.Sprintf("sampledimage%%%d", id)
	}
	return fmt.Sprintf("opaque%%%d", id)
}
