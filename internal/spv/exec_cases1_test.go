package spv

func execCases() []execCase {
	var cs []execCase
	cs = append(cs, casesInt()...)
	cs = append(cs, casesFloat()...)
	cs = append(cs, casesMemory()...)
	cs = append(cs, casesControl()...)
	cs = append(cs, casesKnownBadControl()...)
	cs = append(cs, casesParallel()...)
	return cs
}

func casesInt() []execCase {
	return []execCase{
		{
			name: "arith_wrap",
			src: hdrOA + `
@compute @workgroup_size(1) fn main() {
  o[0] = a[0] + a[1];
  o[1] = a[2] - a[1];
  o[2] = a[0] * a[3];
  o[3] = a[4] / a[3];
  o[4] = a[4] % a[3];
  o[5] = bitcast<u32>(bitcast<i32>(a[5]) + bitcast<i32>(a[2]));
  o[6] = bitcast<u32>(-bitcast<i32>(a[6]));
  o[7] = bitcast<u32>(bitcast<i32>(a[5]) * bitcast<i32>(a[1]));
}`,
			in: io(u32s(0, 0, 0, 0, 0, 0, 0, 0), u32s(0xFFFFFFFF, 2, 1, 3, 100, 0x7FFFFFFF, 0x80000000)),
			// 0xFFFFFFFF+2 wraps to 1; 1-2 wraps; 0xFFFFFFFF*3 = 0xFFFFFFFD; 100/3=33; 100%3=1;
			// INT_MAX+1 wraps to INT_MIN; -INT_MIN = INT_MIN; INT_MAX*2 = 0xFFFFFFFE
			want: map[Key][]byte{k(0): u32s(1, 0xFFFFFFFF, 0xFFFFFFFD, 33, 1, 0x80000000, 0x80000000, 0xFFFFFFFE)},
		},
		{
			name: "i32_div_rem_negative",
			src: hdrOI + `
@compute @workgroup_size(1) fn main() {
  o[0] = a[0] / a[1];
  o[1] = a[0] % a[1];
  o[2] = a[2] / a[3];
  o[3] = a[2] % a[3];
  o[4] = a[0] / a[3];
  o[5] = a[0] % a[3];
  o[6] = a[4] / a[5];
  o[7] = a[4] % a[5];
  o[8] = a[0] / a[6];
  o[9] = a[0] % a[6];
}`,
			in: io(i32s(9, 9, 9, 9, 9, 9, 9, 9, 9, 9), i32s(-7, 2, 7, -2, -2147483648, -1, 0)),
			// WGSL: truncating division; remainder has the sign of the dividend; INT_MIN/-1 = INT_MIN,
			// INT_MIN % -1 = 0; x/0 = x; x%0 = 0.
			want: map[Key][]byte{k(0): i32s(-3, -1, -3, 1, 3, -1, -2147483648, 0, -7, 0)},
		},
		{
			name: "u32_div_zero",
			src: hdrOA + `
@compute @workgroup_size(1) fn main() {
  o[0] = a[0] / a[1];
  o[1] = a[0] % a[1];
  o[2] = a[0] / a[2];
  o[3] = a[0] % a[2];
}`,
			in:   io(u32s(9, 9, 9, 9), u32s(5, 0, 0xFFFFFFFF)),
			want: map[Key][]byte{k(0): u32s(5, 0, 0, 5)},
		},
		{
			name: "shifts",
			src: hdrOA + `
@compute @workgroup_size(1) fn main() {
  o[0] = a[0] << a[1];
  o[1] = a[2] >> a[3];
  o[2] = bitcast<u32>(bitcast<i32>(a[2]) >> a[3]);
  o[3] = a[4] << 4u;
  o[4] = a[4] >> 4u;
  o[5] = bitcast<u32>(bitcast<i32>(a[4]) << a[3]);
}`,
			in:   io(u32s(9, 9, 9, 9, 9, 9), u32s(1, 31, 0x80000000, 4, 0xF0F0F0F0, 33)),
			want: map[Key][]byte{k(0): u32s(0x80000000, 0x08000000, 0xF8000000, 0x0F0F0F00, 0x0F0F0F0F, 0x0F0F0F00)},
		},
		{
			name:       "shift_amount_ge_width",
			note:       "WGSL: a dynamic shift amount is taken modulo the bit width (1u << 33u == 2u); naga emits a bare OpShiftLeftLogical whose result is undefined for Shift >= 32",
			wantPoison: "poison stored",
			src: hdrOA + `
@compute @workgroup_size(1) fn main() { o[0] = a[0] << a[1]; }`,
			in: io(u32s(9), u32s(1, 33)),
		},
		{
			name: "comparisons",
			src: hdrOA + `
@group(0) @binding(2) var<storage, read> f: array<f32>;
fn b(x: bool, s: u32) -> u32 { return select(0u, 1u << s, x); }
@compute @workgroup_size(1) fn main() {
  let x = bitcast<i32>(a[0]); let y = bitcast<i32>(a[1]);
  o[0] = b(x < y, 0u) | b(x <= y, 1u) | b(x > y, 2u) | b(x >= y, 3u) | b(x == y, 4u) | b(x != y, 5u);
  let p = a[0]; let q = a[1];
  o[1] = b(p < q, 0u) | b(p <= q, 1u) | b(p > q, 2u) | b(p >= q, 3u) | b(p == q, 4u) | b(p != q, 5u);
  let u = f[0]; let v = f[1];
  o[2] = b(u < v, 0u) | b(u <= v, 1u) | b(u > v, 2u) | b(u >= v, 3u) | b(u == v, 4u) | b(u != v, 5u);
  let w = f[2];
  o[3] = b(u < w, 0u) | b(u <= w, 1u) | b(u > w, 2u) | b(u >= w, 3u) | b(u == w, 4u) | b(u != w, 5u);
  o[4] = b(!(x < y), 0u) | b((x < y) && (p < q), 1u) | b((x < y) || (p < q), 2u) | b((x < y) != (p < q), 3u);
}`,
			in: func() map[Key][]byte {
				return map[Key][]byte{k(0): u32s(9, 9, 9, 9, 9), k(1): u32s(0xFFFFFFFF, 2), k(2): f32s(1.5, 1.5, -2)}
			},
			// i32 -1 vs 2: < <= != -> 1|2|32 = 35 ; u32 0xFFFFFFFF vs 2: > >= != -> 4|8|32 = 44
			// 1.5 vs 1.5: <= >= == -> 2|8|16 = 26 ; 1.5 vs -2: > >= != -> 44
			// x<y true, p<q false: !t=0, t&&f=0, t||f=4, t!=f=8 -> 12
			want: map[Key][]byte{k(0): u32s(35, 44, 26, 44, 12)},
		},
		{
			name: "select",
			src: hdrOA + `
@compute @workgroup_size(1) fn main() {
  o[0] = select(10u, 20u, a[0] < a[1]);
  let v = select(vec3<u32>(1u, 2u, 3u), vec3<u32>(4u, 5u, 6u), vec3<bool>(a[0] < a[1], a[0] > a[1], true));
  o[1] = v.x; o[2] = v.y; o[3] = v.z;
  let w = select(vec2<u32>(7u, 8u), vec2<u32>(9u, 10u), a[0] > a[1]);
  o[4] = w.x; o[5] = w.y;
}`,
			in:   io(u32s(0, 0, 0, 0, 0, 0), u32s(1, 2)),
			want: map[Key][]byte{k(0): u32s(20, 4, 2, 6, 7, 8)},
		},
		{
			name: "int_vectors",
			src: hdrOI + `
@compute @workgroup_size(1) fn main() {
  let v = vec3<i32>(a[0], a[1], a[2]);
  let m = v * vec3<i32>(2);
  let d = v / vec3<i32>(2);
  let r = v % vec3<i32>(2);
  let s = 2 * v + 1;
  let n = -v;
  o[0] = m.x; o[1] = m.y; o[2] = m.z;
  o[3] = d.x; o[4] = d.y; o[5] = d.z;
  o[6] = r.x; o[7] = r.y; o[8] = r.z;
  o[9] = s.x; o[10] = s.y; o[11] = s.z;
  o[12] = n.x; o[13] = n.y; o[14] = n.z;
  let u = vec2<u32>(0xF0u, 0x0Fu);
  let w = (u | vec2<u32>(1u)) ^ (u & vec2<u32>(0x30u));
  o[15] = i32(w.x); o[16] = i32(w.y); o[17] = i32((~u).y);
  let cmp = v > vec3<i32>(0, -2, 2);
  o[18] = select(0, 1, cmp.x); o[19] = select(0, 1, cmp.y); o[20] = select(0, 1, cmp.z);
  o[21] = dot(v, vec3<i32>(4, -5, 6));
}`,
			in: io(i32s(make([]int32, 22)...), i32s(1, -2, 3)),
			// v*2=(2,-4,6); v/2=(0,-1,1); v%2=(1,0,1); 2v+1=(3,-3,7); -v=(-1,2,-3)
			// (0xF0|1)^(0xF0&0x30) = 0xF1^0x30 = 0xC1 ; (0x0F|1)^(0x0F&0x30)=0x0F ; ~0x0F = 0xFFFFFFF0 = -16
			// (1,-2,3) > (0,-2,2) = (t,f,t) ; dot = 4+10+18 = 32
			want: map[Key][]byte{k(0): i32s(2, -4, 6, 0, -1, 1, 1, 0, 1, 3, -3, 7, -1, 2, -3, 0xC1, 0x0F, -16, 1, 0, 1, 32)},
		},
		{
			name: "bit_builtins",
			src: hdrOA + `
@compute @workgroup_size(1) fn main() {
  o[0] = countOneBits(a[0]);
  o[1] = reverseBits(a[1]);
  o[2] = firstLeadingBit(a[2]);
  o[3] = bitcast<u32>(firstLeadingBit(bitcast<i32>(a[3])));
  o[4] = bitcast<u32>(firstLeadingBit(bitcast<i32>(a[4])));
  o[5] = firstLeadingBit(a[5]);
  o[6] = firstTrailingBit(a[2]);
  o[7] = firstTrailingBit(a[5]);
  o[8] = extractBits(a[6], 8u, 8u);
  o[9] = bitcast<u32>(extractBits(bitcast<i32>(a[7]), 12u, 4u));
  o[10] = insertBits(a[3], a[5], 4u, 8u);
}`,
			in: io(u32s(make([]uint32, 11)...), u32s(0xF0F0, 1, 0x00F0, 0xFFFFFFFF, 0xFFFFFFF0, 0, 0xABCD1234, 0x0000F000, 8, 28)),
			// countOneBits(0xF0F0)=8; reverseBits(1)=0x80000000; flb(0xF0)=7; flb(i32 -1) = -1; flb(i32 0xFFFFFFF0) = 3;
			// flb(0u) = 0xFFFFFFFF; ftb(0xF0)=4; ftb(0)=0xFFFFFFFF; extractBits(0xABCD1234,8,8)=0x12;
			// extractBits(i32 0xF000,12,4) = sign-extended 0xF = -1; insertBits(0xFFFFFFFF,0,4,8)=0xFFFFF00F;
			want: map[Key][]byte{k(0): u32s(8, 0x80000000, 7, 0xFFFFFFFF, 3, 0xFFFFFFFF, 4, 0xFFFFFFFF, 0x12, 0xFFFFFFFF, 0xFFFFF00F)},
		},
		{
			name:     "clz_ctz",
			knownBad: true,
			note:     "countLeadingZeros is emitted as a bare FindUMsb (clz(1) gives 0, clz(0) gives -1) and countTrailingZeros as a bare FindILsb (ctz(0) gives -1 instead of 32)",
			src: hdrOA + `
@compute @workgroup_size(1) fn main() {
  o[0] = countLeadingZeros(a[0]);
  o[1] = countTrailingZeros(a[1]);
  o[2] = countLeadingZeros(a[2]);
  o[3] = countTrailingZeros(a[2]);
}`,
			in:   io(u32s(9, 9, 9, 9), u32s(1, 8, 0)),
			want: map[Key][]byte{k(0): u32s(31, 3, 32, 32)},
		},
		{
			name:     "extract_insert_bits_clamp",
			knownBad: true,
			note:     "WGSL clamps offset/count of extractBits/insertBits (o=min(offset,32), c=min(count,32-o)); naga passes them unclamped to OpBitField*, undefined when offset+count > 32",
			src: hdrOA + `
@compute @workgroup_size(1) fn main() {
  o[0] = extractBits(a[0], a[1], 8u);
  o[1] = insertBits(a[2], a[3], a[1], 8u);
}`,
			in:   io(u32s(9, 9), u32s(0xABCD1234, 28, 0, 0xFFFFFFFF)),
			want: map[Key][]byte{k(0): u32s(0xA, 0xF0000000)},
		},
		{
			name: "int_minmax_abs",
			src: hdrOI + `
@compute @workgroup_size(1) fn main() {
  o[0] = abs(a[0]);
  o[1] = abs(a[1]);
  o[2] = min(a[2], a[3]);
  o[3] = max(a[2], a[3]);
  o[4] = bitcast<i32>(min(bitcast<u32>(a[2]), bitcast<u32>(a[3])));
  o[5] = bitcast<i32>(max(bitcast<u32>(a[2]), bitcast<u32>(a[3])));
  o[6] = clamp(a[4], -5, 5);
  o[7] = bitcast<i32>(clamp(7u, 2u, bitcast<u32>(a[5])));
  o[8] = sign(a[4]);
  o[9] = sign(a[3]) + sign(a[6]);
}`,
			in: io(i32s(make([]int32, 10)...), i32s(-5, -2147483648, -1, 1, -10, 5, 0)),
			// abs(-5)=5; abs(INT_MIN)=INT_MIN; min(-1,1)=-1; max=1; unsigned min(0xFFFFFFFF,1)=1, max=0xFFFFFFFF=-1;
			// clamp(-10,-5,5)=-5; clamp(7u,2u,5u)=5; sign(-10)=-1; sign(1)+sign(0)=1
			want: map[Key][]byte{k(0): i32s(5, -2147483648, -1, 1, 1, -1, -5, 5, -1, 1)},
		},
		{
			name: "packed_dot",
			src: hdrOA + `
@compute @workgroup_size(1) fn main() {
  o[0] = dot4U8Packed(a[0], a[1]);
  o[1] = bitcast<u32>(dot4I8Packed(a[2], a[1]));
}`,
			in: io(u32s(0, 0), u32s(0x01020304, 0x05060708, 0xFF020304)),
			// 4*8+3*7+2*6+1*5 = 70 ; signed: 32+21+12+(-1*5) = 60
			want: map[Key][]byte{k(0): u32s(70, 60)},
		},
		{
			name: "conversions",
			src: hdrOA + `
@group(0) @binding(2) var<storage, read> f: array<f32>;
@group(0) @binding(3) var<storage, read_write> g: array<f32>;
@compute @workgroup_size(1) fn main() {
  g[0] = f32(bitcast<i32>(a[0]));
  g[1] = f32(a[1]);
  o[0] = bitcast<u32>(i32(f[0]));
  o[1] = u32(f[1]);
  g[2] = bitcast<f32>(a[2]);
  o[2] = bitcast<u32>(f[2]);
  let bv = bitcast<vec2<u32>>(vec2<f32>(f[3], f[4]));
  o[3] = bv.x; o[4] = bv.y;
  o[5] = u32(a[1] > 5u);
  g[3] = f32(a[1] < 5u);
  o[6] = select(0u, 1u, bool(a[3]));
  o[7] = bitcast<u32>(i32(a[0]));
  o[8] = u32(bitcast<i32>(a[0]));
  let iv = vec2<i32>(vec2<f32>(f[5], f[6]));
  o[9] = bitcast<u32>(iv.x); o[10] = bitcast<u32>(iv.y);
  let fv = vec3<f32>(vec3<u32>(a[3], a[4], a[5]));
  g[4] = fv.x; g[5] = fv.y; g[6] = fv.z;
}`,
			in: func() map[Key][]byte {
				return map[Key][]byte{k(0): u32s(make([]uint32, 11)...), k(1): u32s(0xFFFFFFFD, 3000000000, 0x3F800000, 2, 7, 16777217),
					k(2): f32s(-2.7, 3.9, float32(negZero()), 1, 2, 1.9, -1.9), k(3): f32s(make([]float32, 7)...)}
			},
			// f32(-3) = -3; f32(3e9) exact; i32(-2.7)=-2; u32(3.9)=3; bitcast(0x3F800000)=1.0; bits(-0.0)=0x80000000
			// bits(1.0), bits(2.0); u32(true)=1; f32(false)=0; bool(2)=true; i32(u32 x)=reinterpret; (1,-1);
			// f32(16777217u) rounds to nearest even = 16777216
			want: map[Key][]byte{
				k(0): u32s(0xFFFFFFFE, 3, 0x80000000, 0x3F800000, 0x40000000, 1, 1, 0xFFFFFFFD, 0xFFFFFFFD, 1, 0xFFFFFFFF),
				k(3): f32s(-3, 3e9, 1, 0, 2, 7, 16777216),
			},
		},
		{
			name:       "f2i_out_of_range",
			note:       "WGSL clamps i32(3e9) to 2147483647; naga emits a bare OpConvertFToS whose result is undefined (known candidate)",
			wantPoison: "poison stored",
			src: hdrOA + `
@group(0) @binding(2) var<storage, read> f: array<f32>;
@compute @workgroup_size(1) fn main() {
  o[0] = bitcast<u32>(i32(f[0]));
}`,
			in: func() map[Key][]byte { return map[Key][]byte{k(0): u32s(0), k(1): u32s(0), k(2): f32s(3e9)} },
		},
	}
}

func negZero() float64 {
	z := 0.0
	return -z
}
