package spv

import "sort"

// Decorations, Vulkan-environment layout rules, entry points, capabilities, extensions.

var (
	rDecoTarget   = rule("deco.target", "decorations are applied to the kind of object they are defined for (and member indexes are in range)")
	rDecoDup      = rule("deco.duplicate", "the same decoration is not applied twice to the same target")
	rBlockDeco    = rule("layout.block", "the struct type of a Uniform / StorageBuffer / PushConstant variable is decorated Block (BufferBlock for old-style storage buffers), not both")
	rOffsetDeco   = rule("layout.offset", "every member of an explicitly laid out struct has an Offset decoration")
	rStrideDeco   = rule("layout.array-stride", "arrays in explicitly laid out storage classes have an ArrayStride decoration")
	rMatrixDeco   = rule("layout.matrix-stride", "matrix members of explicitly laid out structs have MatrixStride and ColMajor or RowMajor")
	rOverlap      = rule("layout.overlap", "members of an explicitly laid out struct do not overlap, strides cover their elements and offsets respect scalar alignment")
	rBindingDeco  = rule("resource.binding", "resource variables have DescriptorSet and Binding decorations")
	rIfaceDeco    = rule("interface.location", "Input / Output variables carry Location or BuiltIn (on the variable or on every member of its Block struct)")
	rFlatDeco     = rule("interface.flat", "integer and double precision Fragment inputs are decorated Flat")
	rBuiltinType  = rule("builtin.type", "compute built-in variables have the type the Vulkan environment prescribes")
	rEPNone       = rule("entrypoint.none", "a module without the Linkage capability has at least one entry point")
	rEPModel      = rule("entrypoint.model", "execution model is a defined enumerant; entry function has type void()")
	rEPDup        = rule("entrypoint.duplicate", "no two entry points share execution model and name")
	rEPIfaceClass = rule("entrypoint.interface-class", "interface ids are module-scope variables (Input/Output only before 1.4), listed once")
	rEPIfaceMiss  = rule("entrypoint.interface-missing", "every Input/Output (1.4+: every module-scope) variable referenced by the entry point's call tree is in its interface")
	rEPLocalSize  = rule("entrypoint.local-size", "GLCompute entry points declare LocalSize / LocalSizeId or a WorkgroupSize constant")
	rEPOrigin     = rule("entrypoint.origin", "Fragment entry points declare OriginUpperLeft or OriginLowerLeft (exactly one)")
	rEPMode       = rule("entrypoint.mode", "execution modes target entry points and are used with an execution model they apply to")
	rCapMissing   = rule("capability.missing", "each used feature has one of its enabling capabilities declared (directly or implied)")
	rCapVersion   = rule("capability.version", "features are available in the module's SPIR-V version")
	rExtMissing   = rule("extension.missing", "features that are extensions in the module's version have their OpExtension")
	rMemModel     = rule("memory-model", "shader modules use the Logical addressing model with GLSL450 or Vulkan memory model")
)

var decoTargets = map[uint32]string{
	// "S" struct type, "A" array/runtime array/pointer type, "V" variable, "M" member only, "v" variable or member, "b" builtin target (variable, member, constant)
	DecBlock: "S", DecBufferBlock: "S", DecArrayStride: "A", DecMatrixStride: "M", DecRowMajor: "M", DecColMajor: "M",
	DecBinding: "V", DecDescriptorSet: "V", DecLocation: "v", DecBuiltIn: "b", DecFlat: "v", DecNoPerspective: "v", DecCentroid: "v", DecSample: "v",
	DecIndex: "V", DecInputAttachment: "V",
}

func (v *validator) decorations() {
	m := v.m
	type key struct {
		id  uint32
		mem int
		dec uint32
	}
	seen := map[key]int{}
	for _, in := range m.Insts {
		if !in.Known || (in.Op != OpDecorate && in.Op != OpMemberDecorate) {
			continue
		}
		var id, dec uint32
		mem := -1
		if in.Op == OpDecorate {
			id, dec = in.Arg(0), in.Arg(1)
		} else {
			id, dec = in.Arg(0), in.Arg(2)
			mem = int(in.Arg(1))
		}
		def := m.defs[id]
		if def == nil {
			continue
		}
		k := key{id, mem, dec}
		switch dec {
		case DecUserSemantic, DecUserTypeGOOGLE, 38 /*FuncParamAttr*/, DecLinkage:
		default:
			if p, dup := seen[k]; dup {
				v.add(rDecoDup, in.Index, "%s applied twice to %%%d (first at %d)", EnumName("Decoration", dec), id, p)
			}
			seen[k] = in.Index
		}
		t := m.types[id]
		if mem >= 0 {
			if t == nil || t.Kind != TStruct {
				v.add(rDecoTarget, in.Index, "OpMemberDecorate target %%%d is not a struct type", id)
				continue
			}
			if mem >= len(t.Members) {
				v.add(rDecoTarget, in.Index, "OpMemberDecorate member %d out of range for %s", mem, m.TypeString(id))
				continue
			}
		}
		kind, ok := decoTargets[dec]
		if !ok {
			continue
		}
		good := true
		switch kind {
		case "S":
			good = mem < 0 && t != nil && t.Kind == TStruct
		case "A":
			good = mem < 0 && t != nil && (t.Kind == TArray || t.Kind == TRuntimeArray || t.Kind == TPointer)
		case "M":
			good = mem >= 0
		case "V":
			good = mem < 0 && def.Op == OpVariable
		case "v":
			good = mem >= 0 || def.Op == OpVariable || def.Op == OpFunctionParameter
		case "b":
			good = mem >= 0 || def.Op == OpVariable || isConstOp(def.Op)
		}
		if !good {
			v.add(rDecoTarget, in.Index, "%s applied to %%%d (%s)", EnumName("Decoration", dec), id, def.Name())
		}
	}
	if !v.shader {
		return
	}
	// memory model
	for _, in := range m.Insts {
		if in.Op == OpMemoryModel && in.Known {
			if in.Arg(0) != 0 && in.Arg(0) != 5348 {
				v.add(rMemModel, in.Index, "addressing model %s in a shader module", EnumName("AddressingModel", in.Arg(0)))
			}
			if in.Arg(1) != 1 && in.Arg(1) != 3 {
				v.add(rMemModel, in.Index, "memory model %s in a shader module", EnumName("MemoryModel", in.Arg(1)))
			}
			if in.Arg(1) == 3 && !m.caps[5345] {
				v.add(rCapMissing, in.Index, "memory model Vulkan requires capability VulkanMemoryModel")
			}
		}
	}
	// resources and interfaces
	checkedStruct := map[uint32]bool{}
	for _, gv := range m.GlobalVars() {
		if !gv.Known {
			continue
		}
		pt := m.types[gv.Type]
		if pt == nil || pt.Kind != TPointer {
			continue
		}
		sc := gv.Arg(0)
		switch sc {
		case SCUniform, SCStorageBuffer, SCPushConstant:
			inner := m.stripArrays(pt.Elem)
			st := m.types[inner]
			if st == nil || st.Kind != TStruct {
				v.add(rBlockDeco, gv.Index, "%s variable %s has pointee type %s which is not a (array of) struct", EnumName("StorageClass", sc), m.idStr(gv.Result), m.TypeString(pt.Elem))
			} else {
				_, hasBlock := m.Deco(st.ID, DecBlock)
				_, hasBB := m.Deco(st.ID, DecBufferBlock)
				switch {
				case hasBlock && hasBB:
					v.add(rBlockDeco, gv.Index, "struct %s is decorated both Block and BufferBlock", m.TypeString(st.ID))
				case sc == SCUniform && !(hasBlock || hasBB):
					v.add(rBlockDeco, gv.Index, "struct %s of Uniform variable %s is decorated neither Block nor BufferBlock", m.TypeString(st.ID), m.idStr(gv.Result))
				case sc != SCUniform && !hasBlock:
					v.add(rBlockDeco, gv.Index, "struct %s of %s variable %s is not decorated Block", m.TypeString(st.ID), EnumName("StorageClass", sc), m.idStr(gv.Result))
				}
				if hasBB && m.AtLeast(1, 4) {
					// deprecated but still valid; not reported
					_ = hasBB
				}
				if !checkedStruct[st.ID] {
					checkedStruct[st.ID] = true
					v.explicitLayout(gv, st.ID, 0, false, map[uint32]bool{})
				}
			}
			if sc != SCPushConstant {
				v.needBinding(gv)
			}
		case SCUniformConstant:
			v.needBinding(gv)
		case SCInput, SCOutput:
			v.interfaceVar(gv, pt)
		}
	}
}

func (v *validator) needBinding(gv *Inst) {
	m := v.m
	_, ds := m.Deco(gv.Result, DecDescriptorSet)
	_, bd := m.Deco(gv.Result, DecBinding)
	if !ds || !bd {
		v.add(rBindingDeco, gv.Index, "resource variable %s lacks DescriptorSet and/or Binding", m.idStr(gv.Result))
	}
}

// sizeOf computes the byte size implied by explicit layout decorations (0 if unknown).
func (v *validator) sizeOf(tid uint32, matStride uint32, rowMajor bool) uint32 {
	v.depth++
	defer func() { v.depth-- }()
	m := v.m
	t := m.types[tid]
	if t == nil || v.depth > 32 {
		return 0
	}
	switch t.Kind {
	case TInt, TFloat:
		return t.Width / 8
	case TVector:
		return t.Count * v.sizeOf(t.Elem, 0, false)
	case TMatrix:
		ct := m.types[t.Elem]
		if ct == nil || matStride == 0 {
			return 0
		}
		es := v.sizeOf(ct.Elem, 0, false)
		if rowMajor {
			return (ct.Count-1)*matStride + t.Count*es
		}
		return (t.Count-1)*matStride + ct.Count*es
	case TArray:
		d, ok := m.Deco(t.ID, DecArrayStride)
		if !ok || len(d.Params) == 0 || t.Count == 0 {
			return 0
		}
		es := v.sizeOf(t.Elem, matStride, rowMajor)
		if es == 0 {
			return 0
		}
		return (t.Count-1)*d.Params[0] + es
	case TStruct:
		var end uint32
		for i, mm := range t.Members {
			od, ok := m.MemberDeco(t.ID, i, DecOffset)
			if !ok || len(od.Params) == 0 {
				return 0
			}
			ms, rm := v.memberMatrix(t.ID, i)
			sz := v.sizeOf(mm, ms, rm)
			if mt := m.types[mm]; mt != nil && mt.Kind == TRuntimeArray {
				sz = 0
			} else if sz == 0 {
				return 0
			}
			if od.Params[0]+sz > end {
				end = od.Params[0] + sz
			}
		}
		return end
	}
	return 0
}

func (v *validator) memberMatrix(st uint32, i int) (uint32, bool) {
	var ms uint32
	if d, ok := v.m.MemberDeco(st, i, DecMatrixStride); ok && len(d.Params) > 0 {
		ms = d.Params[0]
	}
	_, rm := v.m.MemberDeco(st, i, DecRowMajor)
	return ms, rm
}

// scalarAlign is the scalar alignment of a type (the weakest alignment any Vulkan layout demands).
func (v *validator) scalarAlign(tid uint32) uint32 {
	v.depth++
	defer func() { v.depth-- }()
	if v.depth > 32 {
		return 1
	}
	t := v.m.types[tid]
	for i := 0; t != nil && i < 8; i++ {
		switch t.Kind {
		case TInt, TFloat:
			return t.Width / 8
		case TVector, TMatrix, TArray, TRuntimeArray:
			t = v.m.types[t.Elem]
		case TStruct:
			var a uint32 = 1
			for _, mm := range t.Members {
				if x := v.scalarAlign(mm); x > a {
					a = x
				}
			}
			return a
		default:
			return 1
		}
	}
	return 1
}

func (v *validator) containsMatrix(tid uint32) bool {
	t := v.m.types[tid]
	for i := 0; t != nil && i < 8; i++ {
		switch t.Kind {
		case TMatrix:
			return true
		case TArray, TRuntimeArray:
			t = v.m.types[t.Elem]
		default:
			return false
		}
	}
	return false
}

// explicitLayout checks one struct (recursively) used in an explicitly laid out storage class.
func (v *validator) explicitLayout(gv *Inst, sid uint32, depth int, _ bool, visiting map[uint32]bool) {
	m := v.m
	st := m.types[sid]
	if st == nil || st.Kind != TStruct || visiting[sid] || depth > 16 {
		return
	}
	visiting[sid] = true
	defer delete(visiting, sid)
	type span struct {
		off, size uint32
		idx       int
	}
	var spans []span
	for i, mm := range st.Members {
		od, hasOff := m.MemberDeco(sid, i, DecOffset)
		if !hasOff || len(od.Params) == 0 {
			v.add(rOffsetDeco, gv.Index, "member %d of %s (used by %s) has no Offset", i, m.TypeString(sid), m.idStr(gv.Result))
		}
		ms, rm := v.memberMatrix(sid, i)
		if v.containsMatrix(mm) {
			_, cm := m.MemberDeco(sid, i, DecColMajor)
			if ms == 0 {
				v.add(rMatrixDeco, gv.Index, "matrix member %d of %s has no MatrixStride", i, m.TypeString(sid))
			}
			if cm == rm {
				v.add(rMatrixDeco, gv.Index, "matrix member %d of %s must have exactly one of ColMajor / RowMajor", i, m.TypeString(sid))
			}
		}
		v.layoutOfType(gv, mm, depth, visiting)
		if hasOff && len(od.Params) > 0 {
			if a := v.scalarAlign(mm); a > 1 && od.Params[0]%a != 0 {
				v.add(rOverlap, gv.Index, "member %d of %s at Offset %d is not aligned to its scalar alignment %d", i, m.TypeString(sid), od.Params[0], a)
			}
			sz := v.sizeOf(mm, ms, rm)
			spans = append(spans, span{od.Params[0], sz, i})
		}
	}
	sorted := append([]span(nil), spans...)
	sort.SliceStable(sorted, func(i, j int) bool { return sorted[i].off < sorted[j].off })
	for i := 0; i+1 < len(sorted); i++ {
		a, b := sorted[i], sorted[i+1]
		if a.size != 0 && a.off+a.size > b.off {
			v.add(rOverlap, gv.Index, "members %d (offset %d, size %d) and %d (offset %d) of %s overlap", a.idx, a.off, a.size, b.idx, b.off, m.TypeString(sid))
		}
	}
	// ordered consistently: offsets must not decrease with member index (Vulkan: "members ... in order of increasing offset"?).
	// The universal rule only forbids overlap; no report for mere reordering.
}

func (v *validator) layoutOfType(gv *Inst, tid uint32, depth int, visiting map[uint32]bool) {
	m := v.m
	t := m.types[tid]
	if t == nil {
		return
	}
	switch t.Kind {
	case TArray, TRuntimeArray:
		d, ok := m.Deco(tid, DecArrayStride)
		if !ok || len(d.Params) == 0 {
			v.add(rStrideDeco, gv.Index, "array type %s (%%%d) reachable from %s has no ArrayStride", m.TypeString(tid), tid, m.idStr(gv.Result))
		} else {
			es := v.sizeOfElem(t.Elem)
			if es != 0 && d.Params[0] < es {
				v.add(rOverlap, gv.Index, "ArrayStride %d of %s is smaller than its element size %d", d.Params[0], m.TypeString(tid), es)
			}
			if a := v.scalarAlign(t.Elem); a > 1 && d.Params[0]%a != 0 {
				v.add(rOverlap, gv.Index, "ArrayStride %d of %s is not a multiple of the scalar alignment %d", d.Params[0], m.TypeString(tid), a)
			}
		}
		v.layoutOfType(gv, t.Elem, depth+1, visiting)
	case TStruct:
		v.explicitLayout(gv, tid, depth+1, false, visiting)
	case TBool:
		v.add(rOverlap, gv.Index, "OpTypeBool inside explicitly laid out type used by %s", m.idStr(gv.Result))
	}
}

// sizeOfElem: element size for stride checks; matrices need context, so they are skipped (0).
func (v *validator) sizeOfElem(tid uint32) uint32 {
	if v.containsMatrix(tid) {
		return 0
	}
	return v.sizeOf(tid, 0, false)
}

func (v *validator) interfaceVar(gv *Inst, pt *Type) {
	m := v.m
	_, hasLoc := m.Deco(gv.Result, DecLocation)
	bi, hasBI := m.Deco(gv.Result, DecBuiltIn)
	if hasBI && len(bi.Params) > 0 {
		v.builtinType(gv, pt.Elem, bi.Params[0])
	}
	if hasLoc || hasBI {
		return
	}
	st := m.types[m.stripArrays(pt.Elem)]
	if st != nil && st.Kind == TStruct {
		if _, blk := m.Deco(st.ID, DecBlock); blk {
			all := len(st.Members) > 0
			for i := range st.Members {
				_, l := m.MemberDeco(st.ID, i, DecLocation)
				_, b := m.MemberDeco(st.ID, i, DecBuiltIn)
				if !l && !b {
					all = false
				}
			}
			// a Block with Location on the variable was handled above; members all decorated is fine
			if all {
				return
			}
		}
	}
	v.add(rIfaceDeco, gv.Index, "%s variable %s has neither Location nor BuiltIn", EnumName("StorageClass", gv.Arg(0)), m.idStr(gv.Result))
}

func (v *validator) builtinType(gv *Inst, tid uint32, bi uint32) {
	m := v.m
	x := v.ti(tid)
	switch bi {
	case BIGlobalInvocationId, BILocalInvocationId, BIWorkgroupId, BINumWorkgroups:
		if !(x.isInt() && x.n == 3 && x.sc.Width == 32) {
			v.add(rBuiltinType, gv.Index, "BuiltIn %s variable has type %s, want a 3-component vector of 32-bit integers", EnumName("BuiltIn", bi), m.TypeString(tid))
		}
	case BILocalInvocationIndex:
		if !(x.isInt() && x.n == 1 && x.sc.Width == 32) {
			v.add(rBuiltinType, gv.Index, "BuiltIn LocalInvocationIndex variable has type %s, want a 32-bit integer", m.TypeString(tid))
		}
	}
}

// ---------------------------------------------------------------- entry points

func (v *validator) reachableGlobals(fn uint32) (map[uint32]bool, map[uint32]bool) {
	m := v.m
	funcs := map[uint32]bool{}
	globals := map[uint32]bool{}
	var visit func(id uint32)
	visit = func(id uint32) {
		if funcs[id] {
			return
		}
		funcs[id] = true
		f := m.funcByID[id]
		if f == nil {
			return
		}
		for i := f.First; i <= f.End && i < len(m.Insts); i++ {
			in := m.Insts[i]
			if !in.Known {
				continue
			}
			for k, o := range in.Operands {
				if o.Kind != KindID {
					continue
				}
				d := m.defs[o.Word]
				if d == nil {
					continue
				}
				if d.Op == OpVariable && v.fnOf[d.Index] == nil {
					globals[o.Word] = true
				}
				if in.Op == OpFunctionCall && k == 2 {
					visit(o.Word)
				}
			}
		}
	}
	visit(fn)
	return funcs, globals
}

var validModels = map[uint32]bool{0: true, 1: true, 2: true, 3: true, 4: true, 5: true, 6: true, 5267: true, 5268: true, 5313: true, 5314: true, 5315: true, 5316: true, 5317: true, 5318: true, 5364: true, 5365: true}

func (v *validator) entryPoints() {
	m := v.m
	eps := m.EntryPoints()
	type nk struct {
		model uint32
		name  string
	}
	names := map[nk]bool{}
	isEP := map[uint32]bool{}
	if len(eps) == 0 && !m.caps[5] {
		v.add(rEPNone, -1, "no OpEntryPoint and no Linkage capability")
	}
	for _, ep := range eps {
		isEP[ep.Func] = true
		if !validModels[ep.Model] {
			v.add(rEPModel, ep.Inst, "execution model %d", ep.Model)
		}
		if names[nk{ep.Model, ep.Name}] {
			v.add(rEPDup, ep.Inst, "entry point %q of model %s declared twice", ep.Name, EnumName("ExecutionModel", ep.Model))
		}
		names[nk{ep.Model, ep.Name}] = true
		f := m.funcByID[ep.Func]
		if f == nil {
			if m.defs[ep.Func] != nil {
				v.add(rEPModel, ep.Inst, "entry point %%%d is not a function", ep.Func)
			}
			continue
		}
		if rt := m.types[f.RetType]; rt == nil || rt.Kind != TVoid || len(f.Params) != 0 {
			v.add(rEPModel, ep.Inst, "entry point function %%%d does not have type void()", ep.Func)
		}
		if len(f.Blocks) == 0 {
			v.add(rEPModel, ep.Inst, "entry point function %%%d has no body", ep.Func)
		}
		// interface
		listed := map[uint32]int{}
		for _, id := range ep.Interface {
			listed[id]++
			d := m.defs[id]
			if d == nil {
				continue
			}
			if d.Op != OpVariable || v.fnOf[d.Index] != nil {
				v.add(rEPIfaceClass, ep.Inst, "interface id %%%d is defined by %s, not a module-scope OpVariable", id, d.Name())
				continue
			}
			sc := d.Arg(0)
			if !m.AtLeast(1, 4) && sc != SCInput && sc != SCOutput {
				v.add(rEPIfaceClass, ep.Inst, "interface variable %s has storage class %s (only Input/Output before 1.4)", m.idStr(id), EnumName("StorageClass", sc))
			}
		}
		for id, n := range listed {
			if n > 1 && m.AtLeast(1, 4) {
				v.add(rEPIfaceClass, ep.Inst, "interface variable %s listed %d times", m.idStr(id), n)
			}
		}
		_, globals := v.reachableGlobals(ep.Func)
		var gl []uint32
		for g := range globals {
			gl = append(gl, g)
		}
		sort.Slice(gl, func(i, j int) bool { return gl[i] < gl[j] })
		for _, g := range gl {
			sc := m.defs[g].Arg(0)
			need := sc == SCInput || sc == SCOutput || m.AtLeast(1, 4)
			if need && listed[g] == 0 {
				v.add(rEPIfaceMiss, ep.Inst, "%s variable %s is used by entry point %q but not listed in its interface", EnumName("StorageClass", sc), m.idStr(g), ep.Name)
			}
		}
		// execution modes
		has := func(mode uint32) bool {
			for _, em := range ep.Modes {
				if em.Mode == mode {
					return true
				}
			}
			return false
		}
		switch ep.Model {
		case EMGLCompute:
			if !has(XMLocalSize) && !has(XMLocalSizeId) && ep.LocalSize == [3]uint32{} {
				v.add(rEPLocalSize, ep.Inst, "GLCompute entry point %q has no LocalSize", ep.Name)
			}
			for _, em := range ep.Modes {
				if em.Mode == XMLocalSize && len(em.Params) >= 3 && (em.Params[0] == 0 || em.Params[1] == 0 || em.Params[2] == 0) {
					v.add(rEPLocalSize, em.Inst, "LocalSize %v has a zero dimension", em.Params[:3])
				}
			}
		case EMFragment:
			n := 0
			if has(XMOriginUpperLeft) {
				n++
			}
			if has(XMOriginLowerLeft) {
				n++
			}
			if n != 1 {
				v.add(rEPOrigin, ep.Inst, "Fragment entry point %q declares %d Origin modes", ep.Name, n)
			}
		}
		for _, em := range ep.Modes {
			ok := true
			switch em.Mode {
			case XMLocalSize, XMLocalSizeId, 18, 39:
				ok = ep.Model == EMGLCompute || ep.Model == EMKernel || ep.Model == EMTaskNV || ep.Model == EMMeshNV || ep.Model == EMTaskEXT || ep.Model == EMMeshEXT
			case 6, XMOriginUpperLeft, XMOriginLowerLeft, 9, 12, 14, 15, 16, 4446, 5027:
				ok = ep.Model == EMFragment
			case 0:
				ok = ep.Model == EMGeometry
			}
			if !ok {
				v.add(rEPMode, em.Inst, "execution mode %s on a %s entry point", EnumName("ExecutionMode", em.Mode), EnumName("ExecutionModel", ep.Model))
			}
		}
		// Fragment inputs: Flat on integer / double
		if ep.Model == EMFragment {
			for _, id := range ep.Interface {
				d := m.defs[id]
				if d == nil || d.Op != OpVariable || d.Arg(0) != SCInput {
					continue
				}
				if _, bi := m.Deco(id, DecBuiltIn); bi {
					continue
				}
				pt := m.types[d.Type]
				if pt == nil {
					continue
				}
				x := v.ti(m.stripArrays(pt.Elem))
				if x.sc == nil {
					continue
				}
				if x.sc.Kind == TInt || (x.sc.Kind == TFloat && x.sc.Width == 64) {
					if _, flat := m.Deco(id, DecFlat); !flat {
						v.add(rFlatDeco, d.Index, "Fragment input %s of type %s is not decorated Flat", m.idStr(id), m.TypeString(pt.Elem))
					}
				}
			}
		}
	}
	for _, in := range m.Insts {
		if (in.Op == OpExecutionMode || in.Op == OpExecutionModeId) && in.Known && !isEP[in.Arg(0)] {
			v.add(rEPMode, in.Index, "%s targets %%%d which is not an entry point", in.Name(), in.Arg(0))
		}
	}
}

// ---------------------------------------------------------------- capabilities

// implied capabilities (spec: "Implicitly Declares")
var capImplies = map[uint32][]uint32{
	1: {0}, 2: {1}, 3: {1}, 7: {6}, 8: {6}, 12: {11}, 13: {6}, 14: {13}, 15: {13}, 17: {6}, 19: {6}, 20: {6}, 21: {1}, 23: {3}, 24: {2}, 25: {1},
	27: {1}, 28: {1}, 29: {1}, 30: {1}, 31: {1}, 32: {1}, 33: {1}, 34: {45}, 35: {1}, 36: {37}, 37: {1}, 38: {4}, 40: {1}, 41: {1}, 42: {1}, 43: {}, 44: {43},
	45: {1}, 46: {}, 47: {46}, 48: {1}, 49: {1}, 50: {1}, 51: {1}, 52: {1}, 53: {1}, 54: {2}, 55: {1}, 56: {1}, 57: {2},
	62: {61}, 63: {61}, 64: {61}, 65: {61}, 66: {61}, 67: {61}, 68: {61}, 69: {1}, 70: {1}, 71: {1},
	4427: {1}, 4434: {4433}, 4435: {}, 4436: {}, 4439: {1}, 4441: {1}, 4442: {4441}, 4449: {4448}, 4472: {1}, 4479: {1}, 5283: {1}, 5266: {1}, 5284: {}, 5301: {1}, 5302: {1},
	5379: {1}, 5016: {1}, 6033: {1}, 5013: {1}, 4445: {},
}

func (v *validator) hasCap(c uint32) bool {
	seen := map[uint32]bool{}
	var has func(decl, want uint32) bool
	has = func(decl, want uint32) bool {
		if decl == want {
			return true
		}
		if seen[decl] {
			return false
		}
		seen[decl] = true
		for _, i := range capImplies[decl] {
			if has(i, want) {
				return true
			}
		}
		return false
	}
	for d := range v.m.caps {
		seen = map[uint32]bool{}
		if has(d, c) {
			return true
		}
	}
	return false
}

func (v *validator) needCap(inst int, what string, caps ...uint32) {
	for _, c := range caps {
		if v.hasCap(c) {
			return
		}
	}
	names := ""
	for i, c := range caps {
		if i > 0 {
			names += " or "
		}
		names += EnumName("Capability", c)
	}
	v.add(rCapMissing, inst, "%s requires capability %s", what, names)
}

// capability -> (first core version minor, extension providing it earlier)
type capAvail struct {
	minor int
	ext   string
}

var capAvailability = map[uint32]capAvail{
	61: {3, ""}, 62: {3, ""}, 63: {3, ""}, 64: {3, ""}, 65: {3, ""}, 66: {3, ""}, 67: {3, ""}, 68: {3, ""},
	4427: {3, "SPV_KHR_shader_draw_parameters"}, 4433: {3, "SPV_KHR_16bit_storage"}, 4434: {3, "SPV_KHR_16bit_storage"}, 4435: {3, "SPV_KHR_16bit_storage"},
	4436: {3, "SPV_KHR_16bit_storage"}, 4439: {3, "SPV_KHR_multiview"}, 4441: {3, "SPV_KHR_variable_pointers"}, 4442: {3, "SPV_KHR_variable_pointers"},
	4448: {5, "SPV_KHR_8bit_storage"}, 4449: {5, "SPV_KHR_8bit_storage"}, 4450: {5, "SPV_KHR_8bit_storage"},
	5301: {5, "SPV_EXT_descriptor_indexing"}, 5302: {5, "SPV_EXT_descriptor_indexing"}, 5345: {5, "SPV_KHR_vulkan_memory_model"},
	5379: {6, "SPV_EXT_demote_to_helper_invocation"}, 6016: {6, "SPV_KHR_integer_dot_product"}, 6017: {6, "SPV_KHR_integer_dot_product"},
	6018: {6, "SPV_KHR_integer_dot_product"}, 6019: {6, "SPV_KHR_integer_dot_product"},
	4472: {99, "SPV_KHR_ray_query"}, 4479: {99, "SPV_KHR_ray_tracing"}, 5284: {99, "SPV_KHR_fragment_shader_barycentric"}, 5283: {99, "SPV_EXT_mesh_shader"},
	6033: {99, "SPV_EXT_shader_atomic_float_add"}, 6034: {99, "SPV_EXT_shader_atomic_float_add"}, 5016: {99, "SPV_EXT_shader_image_int64"},
	4423: {99, "SPV_KHR_shader_ballot"}, 5013: {99, "SPV_EXT_shader_stencil_export"},
}

func (v *validator) capabilities() {
	m := v.m
	for _, in := range m.Insts {
		if !in.Known {
			continue
		}
		switch in.Op {
		case OpCapability:
			c := in.Arg(0)
			if av, ok := capAvailability[c]; ok && m.Major == 1 && m.Minor < av.minor {
				if av.ext == "" {
					v.add(rCapVersion, in.Index, "capability %s requires SPIR-V 1.%d (module is %d.%d)", EnumName("Capability", c), av.minor, m.Major, m.Minor)
				} else if !m.exts[av.ext] {
					v.add(rExtMissing, in.Index, "capability %s requires OpExtension %q before SPIR-V 1.%d", EnumName("Capability", c), av.ext, av.minor)
				}
			}
		case OpTypeInt:
			switch in.Arg(0) {
			case 8:
				v.needCap(in.Index, "OpTypeInt 8", 39)
			case 16:
				v.needCap(in.Index, "OpTypeInt 16", 22)
			case 64:
				v.needCap(in.Index, "OpTypeInt 64", 11)
			}
		case OpTypeFloat:
			switch in.Arg(0) {
			case 16:
				v.needCap(in.Index, "OpTypeFloat 16", 9)
			case 64:
				v.needCap(in.Index, "OpTypeFloat 64", 10)
			}
		case OpTypeMatrix:
			v.needCap(in.Index, "OpTypeMatrix", 0)
		case OpTypeRuntimeArray:
			v.needCap(in.Index, "OpTypeRuntimeArray", 1)
		case OpTypeImage:
			v.imageCaps(in)
		case OpTypePointer, OpVariable:
			sc := in.Arg(0)
			switch sc {
			case SCUniform, SCOutput, SCPrivate, SCPushConstant, SCStorageBuffer:
				v.needCap(in.Index, "storage class "+EnumName("StorageClass", sc), 1)
			case SCAtomicCounter:
				v.needCap(in.Index, "storage class AtomicCounter", 21)
			case SCGeneric:
				v.needCap(in.Index, "storage class Generic", 38)
			}
			if sc == SCStorageBuffer && !m.AtLeast(1, 3) && !m.exts["SPV_KHR_storage_buffer_storage_class"] && !m.exts["SPV_KHR_variable_pointers"] {
				v.add(rExtMissing, in.Index, "storage class StorageBuffer requires OpExtension \"SPV_KHR_storage_buffer_storage_class\" before SPIR-V 1.3")
			}
			if in.Op == OpVariable {
				v.narrowStorage(in)
			}
		case OpEntryPoint:
			switch in.Arg(0) {
			case EMVertex, EMFragment, EMGLCompute:
				v.needCap(in.Index, "execution model "+EnumName("ExecutionModel", in.Arg(0)), 1)
			case EMGeometry:
				v.needCap(in.Index, "execution model Geometry", 2)
			case EMTessCtrl, EMTessEval:
				v.needCap(in.Index, "execution model Tessellation*", 3)
			case EMKernel:
				v.needCap(in.Index, "execution model Kernel", 6)
			case EMTaskEXT, EMMeshEXT:
				v.needCap(in.Index, "execution model Task/MeshEXT", 5283)
			case EMTaskNV, EMMeshNV:
				v.needCap(in.Index, "execution model Task/MeshNV", 5266)
			}
		case OpDecorate, OpMemberDecorate:
			dec := in.Arg(1)
			params := in.Args[2:]
			if in.Op == OpMemberDecorate {
				dec = in.Arg(2)
				params = in.Args[3:]
			}
			switch dec {
			case DecSample:
				v.needCap(in.Index, "decoration Sample", 35)
			case DecInputAttachment:
				v.needCap(in.Index, "decoration InputAttachmentIndex", 40)
			case DecNonUniform:
				v.needCap(in.Index, "decoration NonUniform", 5301)
			case DecPerVertexKHR:
				v.needCap(in.Index, "decoration PerVertexKHR", 5284)
			case DecBuiltIn:
				if len(params) > 0 {
					v.builtinCaps(in, params[0])
				}
			}
		case OpImageQuerySizeLod, OpImageQuerySize, OpImageQueryLod, OpImageQueryLevels, OpImageQuerySamples:
			v.needCap(in.Index, in.Name(), 50, 6)
		case 210, 211, 212, 213, 214, 215:
			v.needCap(in.Index, in.Name(), 51)
		case OpDemoteToHelper, 5381:
			v.needCap(in.Index, in.Name(), 5379)
		case OpTerminateInvocation:
			if !m.AtLeast(1, 6) && !m.exts["SPV_KHR_terminate_invocation"] {
				v.add(rExtMissing, in.Index, "OpTerminateInvocation requires OpExtension \"SPV_KHR_terminate_invocation\" before SPIR-V 1.6")
			}
		case OpSDot, OpUDot, OpSUDot, OpSDotAccSat, OpUDotAccSat, OpSUDotAccSat:
			v.needCap(in.Index, in.Name(), 6019)
			if len(in.Operands) > 0 && in.Operands[len(in.Operands)-1].Kind == KindEnum {
				v.needCap(in.Index, in.Name()+" with PackedVectorFormat4x8Bit", 6018)
			}
		case OpAtomicFAddEXT:
			v.needCap(in.Index, in.Name(), 6033, 6034)
		case OpTypeRayQueryKHR, 4473, 4474, 4475, 4476, 4477, 4479:
			v.needCap(in.Index, in.Name(), 4472)
		case OpTypeAccelStructKHR:
			v.needCap(in.Index, in.Name(), 4472, 4479)
		case OpImageRead, OpImageWrite:
			// Unknown format needs the WithoutFormat capability
			if it := v.imageTypeOf(in.Arg(0)); it != nil && it.Format == 0 && it.Dim != 6 {
				if in.Op == OpImageRead {
					v.needCap(in.Index, "OpImageRead of an image with Unknown format", 55)
				} else {
					v.needCap(in.Index, "OpImageWrite to an image with Unknown format", 56)
				}
			}
		default:
			if in.Op >= 6016 && in.Op <= 6032 {
				v.needCap(in.Index, in.Name(), 4472)
			}
			if in.Op >= OpGroupNonUniformElect && in.Op <= OpGroupNonUniformQuadSwap {
				v.groupCaps(in)
			}
			// 64-bit atomics
			if in.Op >= OpAtomicLoad && in.Op <= OpAtomicXor {
				if pt := m.types[m.TypeOf(in.Arg(0))]; pt != nil && pt.Kind == TPointer {
					if et := m.types[pt.Elem]; et != nil && et.Kind == TInt && et.Width == 64 {
						v.needCap(in.Index, in.Name()+" on a 64-bit integer", 12)
					}
				}
			}
		}
	}
}

func (v *validator) imageTypeOf(id uint32) *Type {
	t := v.m.types[v.m.TypeOf(id)]
	if t != nil && t.Kind == TSampledImage {
		t = v.m.types[t.Elem]
	}
	if t != nil && t.Kind == TImage {
		return t
	}
	return nil
}

func (v *validator) groupCaps(in *Inst) {
	switch {
	case in.Op == 333:
		v.needCap(in.Index, in.Name(), 61)
	case in.Op >= 334 && in.Op <= 336:
		v.needCap(in.Index, in.Name(), 62)
	case in.Op >= 337 && in.Op <= 344:
		v.needCap(in.Index, in.Name(), 64)
	case in.Op == 345 || in.Op == 346:
		v.needCap(in.Index, in.Name(), 65)
	case in.Op == 347 || in.Op == 348:
		v.needCap(in.Index, in.Name(), 66)
	case in.Op >= 349 && in.Op <= 364:
		// GroupOperation: Reduce/Scans need Arithmetic; ClusteredReduce needs Clustered
		if in.Arg(1) == 3 {
			v.needCap(in.Index, in.Name()+" ClusteredReduce", 67)
		} else {
			v.needCap(in.Index, in.Name(), 63)
		}
	case in.Op == 365 || in.Op == 366:
		v.needCap(in.Index, in.Name(), 68)
	}
	if !v.m.AtLeast(1, 3) {
		v.add(rCapVersion, in.Index, "%s requires SPIR-V 1.3 (module is %d.%d)", in.Name(), v.m.Major, v.m.Minor)
	}
}

func (v *validator) builtinCaps(in *Inst, bi uint32) {
	switch bi {
	case BIClipDistance:
		v.needCap(in.Index, "BuiltIn ClipDistance", 32)
	case BICullDistance:
		v.needCap(in.Index, "BuiltIn CullDistance", 33)
	case BISampleId, BISamplePosition:
		v.needCap(in.Index, "BuiltIn "+EnumName("BuiltIn", bi), 35)
	case BIPrimitiveId:
		v.needCap(in.Index, "BuiltIn PrimitiveId", 2, 3, 4479, 5266, 5283)
	case BILayer:
		v.needCap(in.Index, "BuiltIn Layer", 2, 69, 5254, 5266, 5283)
	case BIViewportIndex:
		v.needCap(in.Index, "BuiltIn ViewportIndex", 57, 70, 5254, 5266, 5283)
	case BIViewIndex:
		v.needCap(in.Index, "BuiltIn ViewIndex", 4439)
	case BIBaseVertex, BIBaseInstance, BIDrawIndex:
		v.needCap(in.Index, "BuiltIn "+EnumName("BuiltIn", bi), 4427, 5266, 5283)
	case BISubgroupSize, BISubgroupLocalInvId:
		v.needCap(in.Index, "BuiltIn "+EnumName("BuiltIn", bi), 61, 6, 4423)
	case BINumSubgroups, BISubgroupId:
		v.needCap(in.Index, "BuiltIn "+EnumName("BuiltIn", bi), 61, 6)
	case BIBaryCoordKHR, BIBaryCoordNoPerspKHR:
		v.needCap(in.Index, "BuiltIn "+EnumName("BuiltIn", bi), 5284)
	}
}

var shaderFormats = map[uint32]bool{1: true, 2: true, 3: true, 4: true, 5: true, 21: true, 22: true, 23: true, 24: true, 30: true, 31: true, 32: true, 33: true}

func (v *validator) imageCaps(in *Inst) {
	dim, arrayed, ms, sampled, format := in.Arg(1), in.Arg(3), in.Arg(4), in.Arg(5), in.Arg(6)
	switch dim {
	case 0: // 1D
		if sampled == 2 {
			v.needCap(in.Index, "storage image Dim 1D", 44)
		} else {
			v.needCap(in.Index, "image Dim 1D", 43)
		}
	case 3: // Cube
		if arrayed == 1 {
			if sampled == 2 {
				v.needCap(in.Index, "arrayed storage Cube image", 34)
			} else {
				v.needCap(in.Index, "arrayed Cube image", 45)
			}
		}
	case 4:
		if sampled == 2 {
			v.needCap(in.Index, "storage image Dim Rect", 36)
		} else {
			v.needCap(in.Index, "image Dim Rect", 37)
		}
	case 5:
		if sampled == 2 {
			v.needCap(in.Index, "storage image Dim Buffer", 47)
		} else {
			v.needCap(in.Index, "image Dim Buffer", 46)
		}
	case 6:
		v.needCap(in.Index, "image Dim SubpassData", 40)
	}
	if ms == 1 && sampled == 2 && dim != 6 {
		v.needCap(in.Index, "multisampled storage image", 27)
	}
	if ms == 1 && arrayed == 1 && sampled == 2 {
		v.needCap(in.Index, "multisampled arrayed storage image", 48)
	}
	switch {
	case format == 0:
	case shaderFormats[format]:
		v.needCap(in.Index, "image format "+EnumName("ImageFormat", format), 1)
	case format == 40 || format == 41:
		v.needCap(in.Index, "image format "+EnumName("ImageFormat", format), 5016)
	case format <= 39:
		v.needCap(in.Index, "image format "+EnumName("ImageFormat", format), 49)
	}
}

// narrowStorage: a variable in an interface storage class whose type contains 16- or 8-bit
// scalars needs the matching storage capability.
func (v *validator) narrowStorage(in *Inst) {
	m := v.m
	pt := m.types[in.Type]
	if pt == nil || pt.Kind != TPointer {
		return
	}
	has16, has8 := false, false
	var walk func(id uint32, depth int)
	walk = func(id uint32, depth int) {
		t := m.types[id]
		if t == nil || depth > 16 {
			return
		}
		switch t.Kind {
		case TInt, TFloat:
			if t.Width == 16 {
				has16 = true
			}
			if t.Width == 8 {
				has8 = true
			}
		case TVector, TMatrix, TArray, TRuntimeArray:
			walk(t.Elem, depth+1)
		case TStruct:
			for _, mm := range t.Members {
				walk(mm, depth+1)
			}
		}
	}
	walk(pt.Elem, 0)
	if !has16 && !has8 {
		return
	}
	sc := in.Arg(0)
	bufferBlock := false
	if st := m.types[m.stripArrays(pt.Elem)]; st != nil {
		_, bufferBlock = m.Deco(st.ID, DecBufferBlock)
	}
	what := "variable " + m.idStr(in.Result) + " in " + EnumName("StorageClass", sc)
	if has16 {
		switch sc {
		case SCStorageBuffer:
			v.needCap(in.Index, what+" containing 16-bit types", 4433, 4434)
		case SCUniform:
			if bufferBlock {
				v.needCap(in.Index, what+" (BufferBlock) containing 16-bit types", 4433, 4434)
			} else {
				v.needCap(in.Index, what+" containing 16-bit types", 4434)
			}
		case SCPushConstant:
			v.needCap(in.Index, what+" containing 16-bit types", 4435)
		case SCInput, SCOutput:
			v.needCap(in.Index, what+" containing 16-bit types", 4436)
		}
	}
	if has8 {
		switch sc {
		case SCStorageBuffer:
			v.needCap(in.Index, what+" containing 8-bit types", 4448, 4449)
		case SCUniform:
			if bufferBlock {
				v.needCap(in.Index, what+" (BufferBlock) containing 8-bit types", 4448, 4449)
			} else {
				v.needCap(in.Index, what+" containing 8-bit types", 4449)
			}
		case SCPushConstant:
			v.needCap(in.Index, what+" containing 8-bit types", 4450)
		}
	}
}
