package spv

// ---------------------------------------------------------------- types and constants

var (
	rTypeDup        = rule("type.duplicate", "non-aggregate, non-pointer types are not declared twice with identical operands")
	rTypeOperand    = rule("type.operand", "type declarations have well-formed operands (component types, counts, widths, constant lengths)")
	rConstType      = rule("const.type", "constant instructions have a result type of the right class and matching constituents")
	rConstBits      = rule("const.high-bits", "OpConstant of a type narrower than 32 bits has zero / sign extended high-order bits")
	rBlockTerm      = rule("block.terminator", "every block ends in exactly one termination instruction")
	rBlockAfterTerm = rule("block.after-terminator", "no instruction follows a terminator without a new OpLabel")
	rFuncType       = rule("func.type", "OpFunction / OpFunctionParameter agree with the OpTypeFunction")
	rFuncEntryBr    = rule("block.entry-predecessor", "the entry block of a function is not the target of any branch")
	rBranchTarget   = rule("block.branch-target", "branch targets are OpLabel ids of the same function")
	rVarPos         = rule("var.function-position", "Function-storage OpVariables are the first instructions of the entry block")
	rVarClass       = rule("var.storage-class", "OpVariable storage class equals its pointer type's; Function class only inside functions")
	rVarInit        = rule("var.initializer", "OpVariable initializer is a constant or module-scope variable of the pointee type")
	rMergePos       = rule("merge.position", "merge instructions immediately precede the block's branch (OpBranchConditional/OpSwitch for selections; OpBranch/OpBranchConditional for loops)")
	rRecursion      = rule("func.recursion", "the static call graph has no cycles")
)

func typeKey(in *Inst) string {
	b := make([]byte, 0, 4+4*len(in.Args))
	b = append(b, byte(in.Op), byte(in.Op>>8))
	for _, w := range in.Args {
		b = append(b, byte(w), byte(w>>8), byte(w>>16), byte(w>>24))
	}
	return string(b)
}

func (v *validator) isScalar(id uint32) bool {
	t := v.m.types[id]
	return t != nil && (t.Kind == TBool || t.Kind == TInt || t.Kind == TFloat)
}

func (v *validator) typesAndConstants() {
	m := v.m
	seen := map[string]int{}
	for _, in := range m.Insts {
		if !in.Known {
			continue
		}
		if isTypeOp(in.Op) {
			switch in.Op {
			case OpTypeArray, OpTypeRuntimeArray, OpTypeStruct, OpTypePointer, OpTypeForwardPointer:
			default:
				k := typeKey(in)
				if p, dup := seen[k]; dup {
					v.add(rTypeDup, in.Index, "%s %%%d repeats the declaration %%%d at %d", in.Name(), in.Result, m.Insts[p].Result, p)
				} else {
					seen[k] = in.Index
				}
			}
			v.typeOperands(in)
			continue
		}
		if isConstOp(in.Op) {
			v.constant(in)
		}
	}
}

func (v *validator) typeOperands(in *Inst) {
	m := v.m
	isType := func(id uint32) bool { return m.types[id] != nil }
	switch in.Op {
	case OpTypeInt:
		switch in.Arg(0) {
		case 8, 16, 32, 64:
		default:
			v.add(rTypeOperand, in.Index, "OpTypeInt width %d", in.Arg(0))
		}
		if in.Arg(1) > 1 {
			v.add(rTypeOperand, in.Index, "OpTypeInt signedness %d", in.Arg(1))
		}
	case OpTypeFloat:
		switch in.Arg(0) {
		case 16, 32, 64:
		default:
			v.add(rTypeOperand, in.Index, "OpTypeFloat width %d", in.Arg(0))
		}
	case OpTypeVector:
		if !v.isScalar(in.Arg(0)) {
			v.add(rTypeOperand, in.Index, "OpTypeVector component type %%%d is not a scalar type", in.Arg(0))
		}
		switch n := in.Arg(1); {
		case n >= 2 && n <= 4:
		case (n == 8 || n == 16) && m.caps[7]:
		default:
			v.add(rTypeOperand, in.Index, "OpTypeVector component count %d", n)
		}
	case OpTypeMatrix:
		ct := m.types[in.Arg(0)]
		if ct == nil || ct.Kind != TVector {
			v.add(rTypeOperand, in.Index, "OpTypeMatrix column type %%%d is not a vector", in.Arg(0))
		} else if st := m.types[ct.Elem]; st == nil || st.Kind != TFloat {
			v.add(rTypeOperand, in.Index, "OpTypeMatrix column type %s is not a vector of floats", m.TypeString(ct.ID))
		}
		if n := in.Arg(1); n < 2 || n > 4 {
			v.add(rTypeOperand, in.Index, "OpTypeMatrix column count %d", n)
		}
	case OpTypeArray:
		et := m.types[in.Arg(0)]
		if et == nil || et.Kind == TVoid || et.Kind == TFunction {
			v.add(rTypeOperand, in.Index, "OpTypeArray element type %%%d is not a concrete type", in.Arg(0))
		} else if v.shader && et.Kind == TRuntimeArray {
			v.add(rTypeOperand, in.Index, "OpTypeArray of runtime arrays")
		}
		ld := m.defs[in.Arg(1)]
		if ld == nil {
			break
		}
		lt := m.types[ld.Type]
		switch ld.Op {
		case OpConstant, OpSpecConstant:
			if lt == nil || lt.Kind != TInt {
				v.add(rTypeOperand, in.Index, "OpTypeArray length %%%d is not an integer constant", in.Arg(1))
			} else {
				val := uint64(ld.Arg(0)) | uint64(ld.Arg(1))<<32
				neg := lt.Signed && sext(val&maskW(lt.Width), lt.Width) < 0
				if val&maskW(lt.Width) == 0 || neg {
					v.add(rTypeOperand, in.Index, "OpTypeArray length must be at least 1")
				}
			}
		case OpSpecConstantOp:
		default:
			v.add(rTypeOperand, in.Index, "OpTypeArray length %%%d is defined by %s, not a constant instruction", in.Arg(1), ld.Name())
		}
	case OpTypeRuntimeArray:
		et := m.types[in.Arg(0)]
		if et == nil || et.Kind == TVoid || et.Kind == TFunction {
			v.add(rTypeOperand, in.Index, "OpTypeRuntimeArray element type %%%d is not a concrete type", in.Arg(0))
		} else if v.shader && et.Kind == TRuntimeArray {
			v.add(rTypeOperand, in.Index, "OpTypeRuntimeArray of runtime arrays")
		}
	case OpTypeStruct:
		for i, mm := range in.Args {
			mt := m.types[mm]
			if mt == nil {
				if d := m.defs[mm]; d != nil {
					v.add(rTypeOperand, in.Index, "OpTypeStruct member %d (%%%d) is not a type", i, mm)
				}
				continue
			}
			if mt.Kind == TVoid || mt.Kind == TFunction {
				v.add(rTypeOperand, in.Index, "OpTypeStruct member %d has type %s", i, mt.Kind)
			}
			if mm == in.Result {
				v.add(rTypeOperand, in.Index, "OpTypeStruct contains itself")
			}
			if v.shader && mt.Kind == TRuntimeArray && i != len(in.Args)-1 {
				v.add(rTypeOperand, in.Index, "runtime array is member %d of %d: only the last member may be a runtime array", i, len(in.Args))
			}
		}
	case OpTypePointer:
		if d := m.defs[in.Arg(1)]; d != nil && !isType(in.Arg(1)) {
			v.add(rTypeOperand, in.Index, "OpTypePointer pointee %%%d is not a type", in.Arg(1))
		}
	case OpTypeFunction:
		if !isType(in.Arg(0)) {
			v.add(rTypeOperand, in.Index, "OpTypeFunction return type %%%d is not a type", in.Arg(0))
		}
		for i, p := range in.Args[1:] {
			pt := m.types[p]
			if pt == nil || pt.Kind == TVoid {
				v.add(rTypeOperand, in.Index, "OpTypeFunction parameter %d type %%%d is not a non-void type", i, p)
			}
		}
	case OpTypeImage:
		st := m.types[in.Arg(0)]
		if st == nil || (st.Kind != TVoid && st.Kind != TInt && st.Kind != TFloat) {
			v.add(rTypeOperand, in.Index, "OpTypeImage sampled type %%%d is not void or a numeric scalar", in.Arg(0))
		}
		if in.Arg(1) > 6 || in.Arg(2) > 2 || in.Arg(3) > 1 || in.Arg(4) > 1 || in.Arg(5) > 2 {
			v.add(rTypeOperand, in.Index, "OpTypeImage Dim/Depth/Arrayed/MS/Sampled operand out of range")
		}
	case OpTypeSampledImage:
		it := m.types[in.Arg(0)]
		if it == nil || it.Kind != TImage {
			v.add(rTypeOperand, in.Index, "OpTypeSampledImage image type %%%d is not an OpTypeImage", in.Arg(0))
		}
	}
}

func (v *validator) isConstDef(id uint32) bool {
	d := v.m.defs[id]
	return d != nil && (isConstOp(d.Op) || d.Op == OpUndef)
}

func (v *validator) constant(in *Inst) {
	m := v.m
	t := m.types[in.Type]
	if t == nil {
		return
	}
	switch in.Op {
	case OpConstantTrue, OpConstantFalse, OpSpecConstantTrue, OpSpecConstantFalse:
		if t.Kind != TBool {
			v.add(rConstType, in.Index, "%s has type %s", in.Name(), m.TypeString(in.Type))
		}
	case OpConstant, OpSpecConstant:
		if t.Kind != TInt && t.Kind != TFloat {
			v.add(rConstType, in.Index, "%s has type %s", in.Name(), m.TypeString(in.Type))
			return
		}
		want := int((t.Width + 31) / 32)
		if len(in.Args) != want {
			v.add(rConstType, in.Index, "%s of %s has %d value word(s), want %d", in.Name(), m.TypeString(in.Type), len(in.Args), want)
			return
		}
		if t.Width < 32 {
			val := in.Args[0]
			hi := val >> t.Width
			ok := hi == 0
			if t.Kind == TInt && t.Signed {
				ok = uint32(int32(val<<(32-t.Width))>>(32-t.Width)) == val
			}
			if !ok {
				v.add(rConstBits, in.Index, "%s of %s has value word %#x", in.Name(), m.TypeString(in.Type), val)
			}
		}
	case OpConstantComposite, OpSpecConstantComposite:
		wantN := int64(t.Count)
		switch t.Kind {
		case TVector, TMatrix, TArray:
			if t.Kind == TArray && t.Count == 0 {
				return
			}
		case TStruct:
			wantN = int64(len(t.Members))
		default:
			v.add(rConstType, in.Index, "%s has non-composite type %s", in.Name(), m.TypeString(in.Type))
			return
		}
		if int64(len(in.Args)) != wantN {
			v.add(rConstType, in.Index, "%s of %s has %d constituents, want %d", in.Name(), m.TypeString(in.Type), len(in.Args), wantN)
			return
		}
		for i, c := range in.Args {
			if m.defs[c] == nil {
				continue
			}
			if !v.isConstDef(c) {
				v.add(rConstType, in.Index, "constituent %d (%%%d) is defined by %s, not a constant", i, c, m.defs[c].Name())
				continue
			}
			w := t.Elem
			if t.Kind == TStruct {
				w = t.Members[i]
			}
			if ct := m.TypeOf(c); ct != w {
				v.add(rConstType, in.Index, "constituent %d (%%%d) has type %s, want %s", i, c, m.TypeString(ct), m.TypeString(w))
			}
		}
	case OpConstantNull:
		switch t.Kind {
		case TBool, TInt, TFloat, TVector, TMatrix, TArray, TStruct, TPointer:
		case TOpaque:
		default:
			v.add(rConstType, in.Index, "OpConstantNull of type %s", m.TypeString(in.Type))
		}
	}
}

// ---------------------------------------------------------------- functions and blocks

func (v *validator) functions() {
	m := v.m
	calls := map[uint32][]uint32{}
	for _, f := range m.funcs {
		fi := m.Insts[f.First]
		ft := m.types[f.TypeID]
		if ft == nil || ft.Kind != TFunction {
			v.add(rFuncType, fi.Index, "OpFunction function type %%%d is not an OpTypeFunction", f.TypeID)
		} else {
			if ft.Elem != f.RetType {
				v.add(rFuncType, fi.Index, "OpFunction result type %s differs from the function type's return type %s", m.TypeString(f.RetType), m.TypeString(ft.Elem))
			}
			if len(f.Params) != len(ft.Members) {
				v.add(rFuncType, fi.Index, "function has %d OpFunctionParameter, type has %d", len(f.Params), len(ft.Members))
			} else {
				for i, p := range f.Params {
					if p.Type != ft.Members[i] {
						v.add(rFuncType, p.Index, "parameter %d has type %s, function type says %s", i, m.TypeString(p.Type), m.TypeString(ft.Members[i]))
					}
				}
			}
		}
		c := f.analysis()
		for bi, b := range f.Blocks {
			if b.Term == nil {
				v.add(rBlockTerm, b.Insts[len(b.Insts)-1].Index, "block %%%d has no terminator", b.Label)
			}
			for _, bad := range c.badTarget[bi] {
				idx := b.Insts[len(b.Insts)-1].Index
				v.add(rBranchTarget, idx, "branch to %%%d which is not a block of this function", bad)
			}
			for _, s := range c.succ[bi] {
				if s == 0 {
					v.add(rFuncEntryBr, b.Insts[len(b.Insts)-1].Index, "branch to the entry block %%%d", f.Blocks[0].Label)
				}
			}
			if b.Merge != nil {
				idx := len(b.Insts) - 2
				if idx < 0 || b.Insts[idx] != b.Merge || b.Term == nil {
					v.add(rMergePos, b.Merge.Index, "%s is not immediately followed by the block's terminator", b.Merge.Name())
				} else {
					switch {
					case b.Merge.Op == OpSelectionMerge && b.Term.Op != OpBranchConditional && b.Term.Op != OpSwitch:
						v.add(rMergePos, b.Merge.Index, "OpSelectionMerge followed by %s", b.Term.Name())
					case b.Merge.Op == OpLoopMerge && b.Term.Op != OpBranch && b.Term.Op != OpBranchConditional:
						v.add(rMergePos, b.Merge.Index, "OpLoopMerge followed by %s", b.Term.Name())
					}
				}
				nm := 0
				for _, in := range b.Insts {
					if in.Op == OpSelectionMerge || in.Op == OpLoopMerge {
						nm++
					}
				}
				if nm > 1 {
					v.add(rMergePos, b.Merge.Index, "block %%%d has %d merge instructions", b.Label, nm)
				}
			}
			// variables
			varsDone := false
			for k, in := range b.Insts {
				switch in.Op {
				case OpLabel, OpLine, 317:
				case OpVariable:
					if in.Arg(0) != SCFunction {
						v.add(rVarClass, in.Index, "OpVariable inside a function has storage class %s", EnumName("StorageClass", in.Arg(0)))
					}
					if bi != 0 || varsDone {
						v.add(rVarPos, in.Index, "OpVariable at position %d of block %%%d: must be at the start of the entry block", k, b.Label)
					}
				default:
					varsDone = true
				}
				if in.Op == OpFunctionCall {
					calls[f.ID] = append(calls[f.ID], in.Arg(0))
				}
			}
		}
	}
	for _, in := range m.Insts {
		if in.Op != OpVariable || !in.Known {
			continue
		}
		pt := m.types[in.Type]
		if pt == nil || pt.Kind != TPointer {
			v.add(rVarClass, in.Index, "OpVariable result type %s is not a pointer", m.TypeString(in.Type))
			continue
		}
		if pt.Storage != in.Arg(0) {
			v.add(rVarClass, in.Index, "OpVariable storage class %s differs from its pointer type's %s", EnumName("StorageClass", in.Arg(0)), EnumName("StorageClass", pt.Storage))
		}
		if v.fnOf[in.Index] == nil && in.Arg(0) == SCFunction {
			v.add(rVarClass, in.Index, "module-scope OpVariable with Function storage class")
		}
		if len(in.Args) >= 2 {
			id := in.Args[1]
			d := m.defs[id]
			if d != nil {
				okKind := isConstOp(d.Op) || d.Op == OpUndef || (d.Op == OpVariable && v.fnOf[d.Index] == nil)
				if !okKind {
					v.add(rVarInit, in.Index, "initializer %%%d is defined by %s", id, d.Name())
				} else if d.Op != OpVariable && d.Type != pt.Elem {
					v.add(rVarInit, in.Index, "initializer %%%d has type %s, pointee is %s", id, m.TypeString(d.Type), m.TypeString(pt.Elem))
				}
			}
		}
	}
	// recursion
	state := map[uint32]int{}
	var visit func(id uint32) bool
	visit = func(id uint32) bool {
		switch state[id] {
		case 1:
			return true
		case 2:
			return false
		}
		state[id] = 1
		for _, c := range calls[id] {
			if visit(c) {
				state[id] = 2
				return true
			}
		}
		state[id] = 2
		return false
	}
	for _, f := range m.funcs {
		if state[f.ID] == 0 && visit(f.ID) {
			v.add(rRecursion, f.First, "function %%%d is part of a call cycle", f.ID)
		}
	}
}

// ---------------------------------------------------------------- structured control flow

var (
	rCfgMergeMissing = rule("cfg.merge-missing", "a conditional branch with two or more successors that are not merge / continue targets, and every OpSwitch, is preceded by a merge instruction")
	rCfgMergeUnique  = rule("cfg.merge-unique", "a block is the merge block of at most one header")
	rCfgMergeDom     = rule("cfg.header-dominates-merge", "a header strictly (structurally) dominates its merge block")
	rCfgMergeTarget  = rule("cfg.merge-target", "merge block and continue target are blocks of the function; continue target differs from the merge block")
	rCfgBackEdge     = rule("cfg.back-edge", "back edges branch only to loop headers and each loop header has exactly one back edge")
	rCfgContinue     = rule("cfg.continue-dominance", "a loop header structurally dominates its continue target, which dominates the back-edge block")
	rCfgExit         = rule("cfg.structured-exit", "a branch stays in its construct or leaves it by a structured exit (own merge, innermost loop's merge or continue target, innermost switch's merge)")
	rCfgSwitchFall   = rule("cfg.switch-fallthrough", "a case construct branches to at most one other case, is entered from at most one other case, and fall-through follows operand order")
)

func (v *validator) cfg(f *Function) {
	if !v.shader || len(f.Blocks) == 0 {
		return
	}
	c := f.analysis()
	lastIdx := func(b int) int { bb := f.Blocks[b]; return bb.Insts[len(bb.Insts)-1].Index }
	// every merge / continue target in the function
	special := map[int]bool{}
	for h := 0; h < c.n; h++ {
		if c.mergeOf[h] >= 0 {
			special[c.mergeOf[h]] = true
		}
		if c.contOf[h] >= 0 {
			special[c.contOf[h]] = true
		}
	}
	for h, b := range f.Blocks {
		if b.Merge != nil {
			if c.mergeOf[h] == -2 {
				v.add(rCfgMergeTarget, b.Merge.Index, "merge block %%%d is not a block of this function", b.Merge.Arg(0))
			}
			if c.mergeOf[h] == h {
				v.add(rCfgMergeTarget, b.Merge.Index, "block %%%d is its own merge block", b.Label)
			}
			if c.isLoopHdr[h] {
				if c.contOf[h] < 0 {
					v.add(rCfgMergeTarget, b.Merge.Index, "continue target %%%d is not a block of this function", b.Merge.Arg(1))
				} else if c.contOf[h] == c.mergeOf[h] {
					v.add(rCfgMergeTarget, b.Merge.Index, "continue target and merge block are both %%%d", b.Merge.Arg(0))
				}
			}
			if mi := c.mergeOf[h]; mi >= 0 && mi != h && c.s.reach[h] && !c.s.dom(h, mi) {
				v.add(rCfgMergeDom, b.Merge.Index, "header %%%d does not dominate its merge block %%%d", b.Label, f.Blocks[mi].Label)
			}
			if ci := c.contOf[h]; ci >= 0 && c.s.reach[h] && !c.s.dom(h, ci) {
				v.add(rCfgContinue, b.Merge.Index, "loop header %%%d does not dominate its continue target %%%d", b.Label, f.Blocks[ci].Label)
			}
		}
		if b.Term == nil || !c.s.reach[h] {
			continue
		}
		switch b.Term.Op {
		case OpSwitch:
			if b.Merge == nil || b.Merge.Op != OpSelectionMerge {
				v.add(rCfgMergeMissing, b.Term.Index, "OpSwitch is not preceded by OpSelectionMerge")
			}
		case OpBranchConditional:
			if b.Merge == nil {
				n := 0
				for _, s := range c.succ[h] {
					if !special[s] {
						n++
					}
				}
				if n > 1 {
					v.add(rCfgMergeMissing, b.Term.Index, "OpBranchConditional with %d non-merge successors has no merge instruction", n)
				}
			}
		}
	}
	for mi, hs := range c.headerOfMrg {
		if len(hs) > 1 {
			v.add(rCfgMergeUnique, f.Blocks[hs[1]].Merge.Index, "block %%%d is the merge block of %d headers", f.Blocks[mi].Label, len(hs))
		}
	}
	// back edges (structural graph)
	backEdges := make([][]int, c.n)
	for b := 0; b < c.n; b++ {
		if !c.s.reach[b] {
			continue
		}
		for _, t := range c.succ[b] {
			if c.s.dom(t, b) {
				backEdges[t] = append(backEdges[t], b)
				if !c.isLoopHdr[t] {
					v.add(rCfgBackEdge, lastIdx(b), "back edge from %%%d to %%%d which has no OpLoopMerge", f.Blocks[b].Label, f.Blocks[t].Label)
				}
			}
		}
	}
	for h := 0; h < c.n; h++ {
		if !c.isLoopHdr[h] || !c.s.reach[h] {
			continue
		}
		if n := len(backEdges[h]); n != 1 {
			v.add(rCfgBackEdge, f.Blocks[h].Merge.Index, "loop header %%%d is the target of %d back edges, exactly one is required", f.Blocks[h].Label, n)
		} else if ci := c.contOf[h]; ci >= 0 && !c.s.dom(ci, backEdges[h][0]) {
			v.add(rCfgContinue, f.Blocks[h].Merge.Index, "continue target %%%d does not dominate the back-edge block %%%d", f.Blocks[ci].Label, f.Blocks[backEdges[h][0]].Label)
		}
	}
	// structured exits
	for b := 0; b < c.n; b++ {
		if !c.s.reach[b] || c.parent[b] == -2 {
			continue
		}
		// chain of constructs containing b, innermost first
		var chain []int
		if c.mergeOf[b] != -1 {
			chain = append(chain, b)
		}
		for p := c.parent[b]; p >= 0; p = c.parent[p] {
			chain = append(chain, p)
			if len(chain) > c.n {
				break
			}
		}
		inner := -1
		if len(chain) > 0 {
			inner = chain[0]
		}
		for _, t := range c.succ[b] {
			if !c.s.reach[t] {
				continue
			}
			ok := false
			loopSeen, switchSeen := false, false
			for k, h := range chain {
				if c.isLoopHdr[h] {
					if t == h && !loopSeen { // back edge to the innermost loop
						ok = true
					}
					if t == c.contOf[h] && !loopSeen {
						ok = true
					}
					if t == c.mergeOf[h] && !loopSeen {
						ok = true
					}
					loopSeen = true
				} else if t == c.mergeOf[h] {
					if k == 0 {
						ok = true
					} else if c.isSwitchHdr[h] && !loopSeen && !switchSeen {
						ok = true
					}
				}
				if c.isSwitchHdr[h] {
					switchSeen = true
				}
				if ok {
					break
				}
			}
			if !ok {
				// must stay in the innermost construct
				ok = c.parent[t] == inner
			}
			if !ok {
				v.add(rCfgExit, lastIdx(b), "branch from %%%d to %%%d is not a structured exit (source construct header %s, target construct header %s)",
					f.Blocks[b].Label, f.Blocks[t].Label, v.blockName(f, inner), v.blockName(f, c.parent[t]))
			}
		}
	}
	// switch fall-through
	for h, b := range f.Blocks {
		if !c.isSwitchHdr[h] || !c.s.reach[h] || b.Term == nil {
			continue
		}
		mi := c.mergeOf[h]
		// ordered case targets: default first in operand order? The rule speaks about Target operands.
		var targets []int // in operand order, distinct, excluding merge
		def := -1
		ids := 0
		for _, o := range b.Term.Operands {
			if o.Kind != KindID {
				continue
			}
			ids++
			if ids == 1 {
				continue
			}
			tb := f.byLabel[o.Word]
			if tb == nil {
				continue
			}
			if ids == 2 {
				def = tb.Index
				continue
			}
			if tb.Index == mi {
				continue
			}
			dup := false
			for _, x := range targets {
				if x == tb.Index {
					dup = true
				}
			}
			if !dup {
				targets = append(targets, tb.Index)
			}
		}
		all := append([]int(nil), targets...)
		if def >= 0 && def != mi {
			isT := false
			for _, x := range targets {
				if x == def {
					isT = true
				}
			}
			if !isT {
				all = append(all, def)
			}
		}
		caseOf := func(blk int) int {
			for _, t := range all {
				if c.s.dom(t, blk) && (mi < 0 || !c.s.dom(mi, blk)) {
					return t
				}
			}
			return -1
		}
		outTo := map[int]map[int]bool{}
		inFrom := map[int]map[int]bool{}
		for blk := 0; blk < c.n; blk++ {
			if !c.s.reach[blk] {
				continue
			}
			ca := caseOf(blk)
			if ca < 0 {
				continue
			}
			for _, t := range c.succ[blk] {
				for _, ct := range all {
					if t == ct && ct != ca {
						if outTo[ca] == nil {
							outTo[ca] = map[int]bool{}
						}
						if inFrom[ct] == nil {
							inFrom[ct] = map[int]bool{}
						}
						outTo[ca][ct] = true
						inFrom[ct][ca] = true
					}
				}
			}
		}
		for ca, ts := range outTo {
			if len(ts) > 1 {
				v.add(rCfgSwitchFall, b.Term.Index, "case %%%d branches to %d other cases", f.Blocks[ca].Label, len(ts))
			}
			for ct := range ts {
				if ca == def || ct == def {
					continue
				}
				pi, pj := -1, -1
				for k, x := range targets {
					if x == ca {
						pi = k
					}
					if x == ct {
						pj = k
					}
				}
				if pi >= 0 && pj >= 0 && pj != pi+1 {
					// the default may sit between the two
					if !(def >= 0 && outTo[ca][def] || inFrom[ct][def]) {
						v.add(rCfgSwitchFall, b.Term.Index, "case %%%d falls through to %%%d which does not immediately follow it in the OpSwitch operands", f.Blocks[ca].Label, f.Blocks[ct].Label)
					}
				}
			}
		}
		for ct, fs := range inFrom {
			if len(fs) > 1 {
				v.add(rCfgSwitchFall, b.Term.Index, "case %%%d is branched to by %d other cases", f.Blocks[ct].Label, len(fs))
			}
		}
	}
}

func (v *validator) blockName(f *Function, b int) string {
	if b < 0 || b >= len(f.Blocks) {
		return "<function body>"
	}
	return "%" + utoa(f.Blocks[b].Label)
}

// DuplicatePointerTypes lists OpTypePointer declarations repeating an earlier one.  SPIR-V
// explicitly allows this (§2.8: pointer types may have multiple ids "to allow for differing
// decorations"), so it is NOT part of Validate; checks may count it as an observation.
func DuplicatePointerTypes(m *Module) []Issue {
	var out []Issue
	seen := map[string]int{}
	for _, in := range m.Insts {
		if in.Op != OpTypePointer || !in.Known {
			continue
		}
		k := typeKey(in)
		if p, dup := seen[k]; dup {
			out = append(out, Issue{Rule: "observation.duplicate-pointer-type", Inst: in.Index,
				Msg: "OpTypePointer %" + utoa(in.Result) + " repeats %" + utoa(m.Insts[p].Result)})
		} else {
			seen[k] = in.Index
		}
	}
	return out
}
