package spv

import (
	"math"
	"math/bits"
)

// scalarType returns the scalar component type of a scalar / vector / matrix type.
func (it *interp) scalarType(tid uint32) *Type {
	t := it.ty(tid)
	for i := 0; t != nil && i < 3; i++ {
		switch t.Kind {
		case TVector, TMatrix:
			t = it.ty(t.Elem)
		default:
			return t
		}
	}
	return t
}

func (it *interp) typeOfID(id uint32) uint32 {
	if int(id) < len(it.p.valType) {
		return it.vt(id)
	}
	return 0
}

// vecCount returns the number of components for vectors, 0 for scalars.
func (it *interp) vecCount(tid uint32) int {
	if t := it.ty(tid); t != nil && t.Kind == TVector {
		return int(t.Count)
	}
	return 0
}

func (it *interp) needScalar(v Value) Value {
	if v.K != kScalar {
		it.trap("expected a scalar operand")
	}
	return v
}

// zip1 applies f per component of a (shape given by the result type).
func (it *interp) zip1(rt uint32, a Value, f func(a Value) Value) Value {
	n := it.vecCount(rt)
	if n == 0 {
		return f(it.needScalar(a))
	}
	if a.K != kComposite || len(a.Elems) != n {
		it.trap("operand shape does not match result type %s", it.m.TypeString(rt))
	}
	es := make([]Value, n)
	for i := range es {
		es[i] = f(it.needScalar(a.Elems[i]))
	}
	return comp(es)
}

func (it *interp) zip2(rt uint32, a, b Value, f func(a, b Value) Value) Value {
	n := it.vecCount(rt)
	if n == 0 {
		return f(it.needScalar(a), it.needScalar(b))
	}
	if a.K != kComposite || len(a.Elems) != n || b.K != kComposite || len(b.Elems) != n {
		it.trap("operand shapes do not match result type %s", it.m.TypeString(rt))
	}
	es := make([]Value, n)
	for i := range es {
		es[i] = f(it.needScalar(a.Elems[i]), it.needScalar(b.Elems[i]))
	}
	return comp(es)
}

func (it *interp) zip3(rt uint32, a, b, c Value, f func(a, b, c Value) Value) Value {
	n := it.vecCount(rt)
	if n == 0 {
		return f(it.needScalar(a), it.needScalar(b), it.needScalar(c))
	}
	if a.K != kComposite || len(a.Elems) != n || b.K != kComposite || len(b.Elems) != n || c.K != kComposite || len(c.Elems) != n {
		it.trap("operand shapes do not match result type %s", it.m.TypeString(rt))
	}
	es := make([]Value, n)
	for i := range es {
		es[i] = f(it.needScalar(a.Elems[i]), it.needScalar(b.Elems[i]), it.needScalar(c.Elems[i]))
	}
	return comp(es)
}

func pz(p bool, bits uint64) Value { return Value{K: kScalar, Poison: p, Bits: bits} }

// fop2 builds a per-component float operation computed in float64 and rounded once.
func fop2(w uint32, f func(x, y float64) float64) func(a, b Value) Value {
	return func(a, b Value) Value {
		if a.Poison || b.Poison {
			return poisonSc()
		}
		return sc(fenc(f(fdec(a.Bits, w), fdec(b.Bits, w)), w))
	}
}

func fop1(w uint32, f func(x float64) float64) func(a Value) Value {
	return func(a Value) Value {
		if a.Poison {
			return poisonSc()
		}
		return sc(fenc(f(fdec(a.Bits, w)), w))
	}
}

func fmodFloor(x, y float64) float64 {
	r := math.Mod(x, y)
	if r != 0 && (r < 0) != (y < 0) {
		r += y
	}
	return r
}

// execPure evaluates instructions without side effects.  ok=false: not modelled.
func (it *interp) execPure(in *Inst, g func(uint32) Value) (res Value, ok bool) {
	rt := in.Type
	a := in.Args
	arg := func(i int) Value {
		if i >= len(a) {
			it.trap("missing operand %d", i)
		}
		return g(a[i])
	}
	switch in.Op {
	case OpUndef:
		return it.newValue(rt, true), true
	case OpCopyObject, OpCopyLogical:
		return arg(0), true

	// ---------------------------------------------------------- integer arithmetic
	case OpIAdd, OpISub, OpIMul, OpUDiv, OpSDiv, OpUMod, OpSRem, OpSMod, OpBitwiseOr, OpBitwiseXor, OpBitwiseAnd:
		st := it.scalarType(rt)
		if st == nil || st.Kind != TInt {
			it.trap("%s result type is not integer", in.Name())
		}
		w := st.Width
		op := in.Op
		return it.zip2(rt, arg(0), arg(1), func(x, y Value) Value {
			if x.Poison || y.Poison {
				return poisonSc()
			}
			m := maskW(w)
			switch op {
			case OpIAdd:
				return sc((x.Bits + y.Bits) & m)
			case OpISub:
				return sc((x.Bits - y.Bits) & m)
			case OpIMul:
				return sc((x.Bits * y.Bits) & m)
			case OpBitwiseOr:
				return sc(x.Bits | y.Bits)
			case OpBitwiseXor:
				return sc(x.Bits ^ y.Bits)
			case OpBitwiseAnd:
				return sc(x.Bits & y.Bits)
			case OpUDiv:
				if y.Bits == 0 {
					return poisonSc() // "The resulting value is undefined if Operand 2 is 0"
				}
				return sc(x.Bits / y.Bits)
			case OpUMod:
				if y.Bits == 0 {
					return poisonSc()
				}
				return sc(x.Bits % y.Bits)
			}
			sx, sy := sext(x.Bits, w), sext(y.Bits, w)
			if sy == 0 {
				return poisonSc()
			}
			if sy == -1 && sx == sext(uint64(1)<<(w-1), w) {
				return poisonSc() // signed overflow: result undefined
			}
			switch op {
			case OpSDiv:
				return sc(uint64(sx/sy) & m)
			case OpSRem:
				return sc(uint64(sx%sy) & m) // sign of operand 1
			case OpSMod:
				r := sx % sy
				if r != 0 && (r < 0) != (sy < 0) {
					r += sy
				}
				return sc(uint64(r) & m) // sign of operand 2
			}
			return poisonSc()
		}), true
	case OpSNegate, OpNot:
		st := it.scalarType(rt)
		if st == nil || st.Kind != TInt {
			it.trap("%s result type is not integer", in.Name())
		}
		w := st.Width
		neg := in.Op == OpSNegate
		return it.zip1(rt, arg(0), func(x Value) Value {
			if x.Poison {
				return x
			}
			if neg {
				return sc((-x.Bits) & maskW(w))
			}
			return sc(^x.Bits & maskW(w))
		}), true
	case OpShiftLeftLogical, OpShiftRightLogical, OpShiftRightArithmetic:
		st := it.scalarType(rt)
		if st == nil || st.Kind != TInt {
			it.trap("%s result type is not integer", in.Name())
		}
		w := st.Width
		op := in.Op
		return it.zip2(rt, arg(0), arg(1), func(x, y Value) Value {
			if x.Poison || y.Poison {
				return poisonSc()
			}
			if y.Bits >= uint64(w) {
				return poisonSc() // "undefined if Shift is greater than or equal to the bit width"
			}
			switch op {
			case OpShiftLeftLogical:
				return sc((x.Bits << y.Bits) & maskW(w))
			case OpShiftRightLogical:
				return sc(x.Bits >> y.Bits)
			}
			return sc(uint64(sext(x.Bits, w)>>y.Bits) & maskW(w))
		}), true
	case OpBitFieldInsert, OpBitFieldSExtract, OpBitFieldUExtract:
		st := it.scalarType(rt)
		if st == nil || st.Kind != TInt {
			it.trap("%s result type is not integer", in.Name())
		}
		w := st.Width
		var ins Value
		oi := 1
		if in.Op == OpBitFieldInsert {
			ins = arg(1)
			oi = 2
		}
		off, cnt := it.needScalar(arg(oi)), it.needScalar(arg(oi+1))
		base := arg(0)
		n := it.vecCount(rt)
		one := func(b, i Value) Value {
			if b.Poison || off.Poison || cnt.Poison || (in.Op == OpBitFieldInsert && i.Poison) {
				return poisonSc()
			}
			o, c := off.Bits&0xffffffff, cnt.Bits&0xffffffff
			if o+c > uint64(w) {
				return poisonSc() // "undefined if Count or Offset or their sum is greater than the number of bits"
			}
			if c == 0 {
				if in.Op == OpBitFieldInsert {
					return b
				}
				return sc(0)
			}
			fm := maskW(uint32(c)) << o
			switch in.Op {
			case OpBitFieldInsert:
				return sc((b.Bits &^ fm) | ((i.Bits << o) & fm))
			case OpBitFieldUExtract:
				return sc((b.Bits & fm) >> o)
			}
			return sc(uint64(sext((b.Bits&fm)>>o, uint32(c))) & maskW(w))
		}
		if n == 0 {
			return one(it.needScalar(base), ins), true
		}
		es := make([]Value, n)
		for k := range es {
			var iv Value
			if in.Op == OpBitFieldInsert {
				iv = ins.Elems[k]
			}
			es[k] = one(base.Elems[k], iv)
		}
		return comp(es), true
	case OpBitReverse, OpBitCount:
		ot := it.scalarType(it.typeOfID(a[0]))
		if ot == nil || ot.Kind != TInt {
			it.trap("%s operand is not integer", in.Name())
		}
		w := ot.Width
		rev := in.Op == OpBitReverse
		return it.zip1(rt, arg(0), func(x Value) Value {
			if x.Poison {
				return x
			}
			if rev {
				return sc(bits.Reverse64(x.Bits) >> (64 - w))
			}
			return sc(uint64(bits.OnesCount64(x.Bits)))
		}), true

	// ---------------------------------------------------------- float arithmetic
	case OpFAdd, OpFSub, OpFMul, OpFDiv, OpFRem, OpFMod:
		st := it.scalarType(rt)
		if st == nil || st.Kind != TFloat {
			it.trap("%s result type is not float", in.Name())
		}
		w := st.Width
		var f func(x, y float64) float64
		switch in.Op {
		case OpFAdd:
			f = func(x, y float64) float64 { return x + y }
		case OpFSub:
			f = func(x, y float64) float64 { return x - y }
		case OpFMul:
			f = func(x, y float64) float64 { return x * y }
		case OpFDiv:
			f = func(x, y float64) float64 { return x / y }
		}
		if f != nil {
			return it.zip2(rt, arg(0), arg(1), fop2(w, f)), true
		}
		floored := in.Op == OpFMod
		return it.zip2(rt, arg(0), arg(1), func(x, y Value) Value {
			if x.Poison || y.Poison {
				return poisonSc()
			}
			fx, fy := fdec(x.Bits, w), fdec(y.Bits, w)
			if fy == 0 {
				return poisonSc() // "The resulting value is undefined if Operand 2 is 0"
			}
			if floored {
				return sc(fenc(fmodFloor(fx, fy), w))
			}
			return sc(fenc(math.Mod(fx, fy), w))
		}), true
	case OpFNegate:
		st := it.scalarType(rt)
		if st == nil || st.Kind != TFloat {
			it.trap("OpFNegate result type is not float")
		}
		w := st.Width
		return it.zip1(rt, arg(0), func(x Value) Value {
			if x.Poison {
				return x
			}
			return sc(x.Bits ^ (uint64(1) << (w - 1)))
		}), true
	case OpVectorTimesScalar:
		st := it.scalarType(rt)
		w := st.Width
		v, s := arg(0), it.needScalar(arg(1))
		mul := fop2(w, func(x, y float64) float64 { return x * y })
		es := make([]Value, len(v.Elems))
		for i := range es {
			es[i] = mul(v.Elems[i], s)
		}
		return comp(es), true
	case OpMatrixTimesScalar:
		st := it.scalarType(rt)
		w := st.Width
		mv, s := arg(0), it.needScalar(arg(1))
		mul := fop2(w, func(x, y float64) float64 { return x * y })
		cols := make([]Value, len(mv.Elems))
		for c := range cols {
			es := make([]Value, len(mv.Elems[c].Elems))
			for r := range es {
				es[r] = mul(mv.Elems[c].Elems[r], s)
			}
			cols[c] = comp(es)
		}
		return comp(cols), true
	case OpDot:
		st := it.scalarType(rt)
		return it.fdot(st.Width, arg(0).Elems, arg(1).Elems), true
	case OpVectorTimesMatrix:
		// result[c] = dot(v, M[c])
		st := it.scalarType(rt)
		v, mv := arg(0), arg(1)
		es := make([]Value, len(mv.Elems))
		for c := range es {
			es[c] = it.fdot(st.Width, v.Elems, mv.Elems[c].Elems)
		}
		return comp(es), true
	case OpMatrixTimesVector:
		// result[r] = sum_c M[c][r] * v[c]
		st := it.scalarType(rt)
		mv, v := arg(0), arg(1)
		if len(mv.Elems) == 0 || len(mv.Elems) != len(v.Elems) {
			it.trap("OpMatrixTimesVector operand shapes")
		}
		rows := len(mv.Elems[0].Elems)
		es := make([]Value, rows)
		row := make([]Value, len(mv.Elems))
		for r := 0; r < rows; r++ {
			for c := range mv.Elems {
				row[c] = mv.Elems[c].Elems[r]
			}
			es[r] = it.fdot(st.Width, row, v.Elems)
		}
		return comp(es), true
	case OpMatrixTimesMatrix:
		// result[c][r] = sum_k L[k][r] * R[c][k]
		st := it.scalarType(rt)
		l, r := arg(0), arg(1)
		if len(l.Elems) == 0 {
			it.trap("OpMatrixTimesMatrix operand shapes")
		}
		rows := len(l.Elems[0].Elems)
		cols := make([]Value, len(r.Elems))
		row := make([]Value, len(l.Elems))
		for c := range cols {
			if len(r.Elems[c].Elems) != len(l.Elems) {
				it.trap("OpMatrixTimesMatrix operand shapes")
			}
			es := make([]Value, rows)
			for rr := 0; rr < rows; rr++ {
				for k := range l.Elems {
					row[k] = l.Elems[k].Elems[rr]
				}
				es[rr] = it.fdot(st.Width, row, r.Elems[c].Elems)
			}
			cols[c] = comp(es)
		}
		return comp(cols), true
	case OpOuterProduct:
		// result[c][r] = v1[r] * v2[c]
		st := it.scalarType(rt)
		mul := fop2(st.Width, func(x, y float64) float64 { return x * y })
		v1, v2 := arg(0), arg(1)
		cols := make([]Value, len(v2.Elems))
		for c := range cols {
			es := make([]Value, len(v1.Elems))
			for r := range es {
				es[r] = mul(v1.Elems[r], v2.Elems[c])
			}
			cols[c] = comp(es)
		}
		return comp(cols), true
	case OpTranspose:
		mv := arg(0)
		if len(mv.Elems) == 0 {
			it.trap("OpTranspose operand shape")
		}
		rows := len(mv.Elems[0].Elems)
		out := make([]Value, rows)
		for r := range out {
			es := make([]Value, len(mv.Elems))
			for c := range es {
				es[c] = mv.Elems[c].Elems[r]
			}
			out[r] = comp(es)
		}
		return comp(out), true

	// ---------------------------------------------------------- comparisons / logic
	case OpIEqual, OpINotEqual, OpUGreaterThan, OpSGreaterThan, OpUGreaterThanEqual, OpSGreaterThanEqual, OpULessThan, OpSLessThan, OpULessThanEqual, OpSLessThanEqual:
		ot := it.scalarType(it.typeOfID(a[0]))
		if ot == nil || ot.Kind != TInt {
			it.trap("%s operand is not integer", in.Name())
		}
		w := ot.Width
		op := in.Op
		return it.zip2(rt, arg(0), arg(1), func(x, y Value) Value {
			if x.Poison || y.Poison {
				return poisonSc()
			}
			sx, sy := sext(x.Bits, w), sext(y.Bits, w)
			var r bool
			switch op {
			case OpIEqual:
				r = x.Bits == y.Bits
			case OpINotEqual:
				r = x.Bits != y.Bits
			case OpUGreaterThan:
				r = x.Bits > y.Bits
			case OpUGreaterThanEqual:
				r = x.Bits >= y.Bits
			case OpULessThan:
				r = x.Bits < y.Bits
			case OpULessThanEqual:
				r = x.Bits <= y.Bits
			case OpSGreaterThan:
				r = sx > sy
			case OpSGreaterThanEqual:
				r = sx >= sy
			case OpSLessThan:
				r = sx < sy
			case OpSLessThanEqual:
				r = sx <= sy
			}
			return boolV(r)
		}), true
	case OpFOrdEqual, OpFUnordEqual, OpFOrdNotEqual, OpFUnordNotEqual, OpFOrdLessThan, OpFUnordLessThan, OpFOrdGreaterThan, OpFUnordGreaterThan,
		OpFOrdLessThanEqual, OpFUnordLessThanEqual, OpFOrdGreaterThanEqual, OpFUnordGreaterThanEqual:
		ot := it.scalarType(it.typeOfID(a[0]))
		if ot == nil || ot.Kind != TFloat {
			it.trap("%s operand is not float", in.Name())
		}
		w := ot.Width
		op := in.Op
		return it.zip2(rt, arg(0), arg(1), func(x, y Value) Value {
			if x.Poison || y.Poison {
				return poisonSc()
			}
			fx, fy := fdec(x.Bits, w), fdec(y.Bits, w)
			unordered := fx != fx || fy != fy
			var r bool
			switch op {
			case OpFOrdEqual, OpFUnordEqual:
				r = fx == fy
			case OpFOrdNotEqual, OpFUnordNotEqual:
				r = fx < fy || fx > fy
			case OpFOrdLessThan, OpFUnordLessThan:
				r = fx < fy
			case OpFOrdGreaterThan, OpFUnordGreaterThan:
				r = fx > fy
			case OpFOrdLessThanEqual, OpFUnordLessThanEqual:
				r = fx <= fy
			case OpFOrdGreaterThanEqual, OpFUnordGreaterThanEqual:
				r = fx >= fy
			}
			switch op {
			case OpFUnordEqual, OpFUnordNotEqual, OpFUnordLessThan, OpFUnordGreaterThan, OpFUnordLessThanEqual, OpFUnordGreaterThanEqual:
				r = r || unordered
			default:
				r = r && !unordered
			}
			return boolV(r)
		}), true
	case OpLogicalEqual, OpLogicalNotEqual, OpLogicalOr, OpLogicalAnd:
		op := in.Op
		return it.zip2(rt, arg(0), arg(1), func(x, y Value) Value {
			if x.Poison || y.Poison {
				return poisonSc()
			}
			switch op {
			case OpLogicalEqual:
				return boolV(x.Bits == y.Bits)
			case OpLogicalNotEqual:
				return boolV(x.Bits != y.Bits)
			case OpLogicalOr:
				return boolV(x.Bits|y.Bits != 0)
			}
			return boolV(x.Bits&y.Bits != 0)
		}), true
	case OpLogicalNot:
		return it.zip1(rt, arg(0), func(x Value) Value {
			if x.Poison {
				return x
			}
			return boolV(x.Bits == 0)
		}), true
	case OpAny, OpAll:
		v := arg(0)
		r := in.Op == OpAll
		poison := false
		for _, e := range v.Elems {
			if e.Poison {
				poison = true
			}
			if in.Op == OpAny {
				r = r || e.Bits != 0
			} else {
				r = r && e.Bits != 0
			}
		}
		return pz(poison, b2u(r)), true
	case OpIsNan, OpIsInf:
		ot := it.scalarType(it.typeOfID(a[0]))
		if ot == nil || ot.Kind != TFloat {
			it.trap("%s operand is not float", in.Name())
		}
		w := ot.Width
		nan := in.Op == OpIsNan
		return it.zip1(rt, arg(0), func(x Value) Value {
			if x.Poison {
				return x
			}
			f := fdec(x.Bits, w)
			if nan {
				return boolV(f != f)
			}
			return boolV(math.IsInf(f, 0))
		}), true
	case OpSelect:
		c, x, y := arg(0), arg(1), arg(2)
		if c.K == kScalar {
			if c.Poison {
				return allPoison(x), true
			}
			if c.Bits != 0 {
				return x, true
			}
			return y, true
		}
		if x.K != kComposite || len(x.Elems) != len(c.Elems) || len(y.Elems) != len(c.Elems) {
			it.trap("OpSelect operand shapes")
		}
		es := make([]Value, len(c.Elems))
		for i := range es {
			switch {
			case c.Elems[i].Poison:
				es[i] = allPoison(x.Elems[i])
			case c.Elems[i].Bits != 0:
				es[i] = x.Elems[i]
			default:
				es[i] = y.Elems[i]
			}
		}
		return comp(es), true

	// ---------------------------------------------------------- conversions
	case OpConvertFToU, OpConvertFToS:
		ot := it.scalarType(it.typeOfID(a[0]))
		st := it.scalarType(rt)
		if ot == nil || ot.Kind != TFloat || st == nil || st.Kind != TInt {
			it.trap("%s operand/result types", in.Name())
		}
		signed := in.Op == OpConvertFToS
		return it.zip1(rt, arg(0), func(x Value) Value {
			if x.Poison {
				return x
			}
			f := math.Trunc(fdec(x.Bits, ot.Width))
			if f != f || math.IsInf(f, 0) {
				return poisonSc()
			}
			// "Behavior is undefined if Result Type is not wide enough to hold the converted value."
			if signed {
				lim := math.Ldexp(1, int(st.Width)-1)
				if f < -lim || f >= lim {
					return poisonSc()
				}
				return sc(uint64(int64(f)) & maskW(st.Width))
			}
			if f < 0 || f >= math.Ldexp(1, int(st.Width)) {
				return poisonSc()
			}
			return sc(uint64(f) & maskW(st.Width))
		}), true
	case OpConvertSToF, OpConvertUToF:
		ot := it.scalarType(it.typeOfID(a[0]))
		st := it.scalarType(rt)
		if ot == nil || ot.Kind != TInt || st == nil || st.Kind != TFloat {
			it.trap("%s operand/result types", in.Name())
		}
		signed := in.Op == OpConvertSToF
		return it.zip1(rt, arg(0), func(x Value) Value {
			if x.Poison {
				return x
			}
			if st.Width == 32 {
				// Go converts integers to float32 with a single round-to-nearest-even
				if signed {
					return sc(uint64(math.Float32bits(float32(sext(x.Bits, ot.Width)))))
				}
				return sc(uint64(math.Float32bits(float32(x.Bits))))
			}
			var f float64
			if signed {
				f = float64(sext(x.Bits, ot.Width))
			} else {
				f = float64(x.Bits)
			}
			return sc(fenc(f, st.Width))
		}), true
	case OpUConvert, OpSConvert:
		ot := it.scalarType(it.typeOfID(a[0]))
		st := it.scalarType(rt)
		if ot == nil || ot.Kind != TInt || st == nil || st.Kind != TInt {
			it.trap("%s operand/result types", in.Name())
		}
		signed := in.Op == OpSConvert
		return it.zip1(rt, arg(0), func(x Value) Value {
			if x.Poison {
				return x
			}
			if signed {
				return sc(uint64(sext(x.Bits, ot.Width)) & maskW(st.Width))
			}
			return sc(x.Bits & maskW(st.Width))
		}), true
	case OpFConvert:
		ot := it.scalarType(it.typeOfID(a[0]))
		st := it.scalarType(rt)
		if ot == nil || ot.Kind != TFloat || st == nil || st.Kind != TFloat {
			it.trap("OpFConvert operand/result types")
		}
		// narrowing uses round-to-nearest-even (the spec leaves the mode to the client API
		// unless FPRoundingMode is given; documented limitation)
		return it.zip1(rt, arg(0), func(x Value) Value {
			if x.Poison {
				return x
			}
			return sc(fenc(fdec(x.Bits, ot.Width), st.Width))
		}), true
	case OpQuantizeToF16:
		st := it.scalarType(rt)
		return it.zip1(rt, arg(0), func(x Value) Value {
			if x.Poison {
				return x
			}
			h := float64ToHalf(fdec(x.Bits, st.Width))
			return sc(fenc(float64(halfToFloat32(h)), st.Width))
		}), true
	case OpBitcast:
		return it.bitcast(rt, it.typeOfID(a[0]), arg(0)), true

	// ---------------------------------------------------------- composites
	case OpCompositeConstruct:
		t := it.ty(rt)
		if t == nil {
			it.trap("OpCompositeConstruct of unknown type")
		}
		var es []Value
		if t.Kind == TVector {
			for i := range a {
				v := arg(i)
				if v.K == kComposite {
					es = append(es, v.Elems...)
				} else {
					es = append(es, v)
				}
			}
			if len(es) != int(t.Count) {
				it.trap("OpCompositeConstruct: %d components for %s", len(es), it.m.TypeString(rt))
			}
		} else {
			es = make([]Value, len(a))
			for i := range a {
				es[i] = arg(i)
			}
		}
		return comp(es), true
	case OpCompositeExtract:
		v := arg(0)
		for _, ix := range a[1:] {
			if v.K != kComposite || int(ix) >= len(v.Elems) {
				it.trap("OpCompositeExtract index %d out of range", ix)
			}
			v = v.Elems[ix]
		}
		return v, true
	case OpCompositeInsert:
		obj, c := arg(0), arg(1)
		return it.insert(c, a[2:], obj), true
	case OpVectorExtractDynamic:
		v, ix := arg(0), it.needScalar(arg(1))
		if ix.Poison {
			return poisonSc(), true
		}
		i := int64(ix.Bits)
		if t := it.ty(it.typeOfID(a[1])); t != nil && t.Signed {
			i = sext(ix.Bits, t.Width)
		}
		if v.K != kComposite || i < 0 || i >= int64(len(v.Elems)) {
			return poisonSc(), true // "Behavior is undefined if Index's value is out of bounds" -> value poison
		}
		return v.Elems[i], true
	case OpVectorInsertDynamic:
		v, c, ix := arg(0), arg(1), it.needScalar(arg(2))
		if v.K != kComposite {
			it.trap("OpVectorInsertDynamic on a non-vector")
		}
		i := int64(ix.Bits)
		if t := it.ty(it.typeOfID(a[2])); t != nil && t.Signed {
			i = sext(ix.Bits, t.Width)
		}
		if ix.Poison || i < 0 || i >= int64(len(v.Elems)) {
			return allPoison(v), true
		}
		es := append([]Value(nil), v.Elems...)
		es[i] = c
		return comp(es), true
	case OpVectorShuffle:
		v1, v2 := arg(0), arg(1)
		es := make([]Value, len(a)-2)
		for i, sel := range a[2:] {
			switch {
			case sel == 0xffffffff:
				es[i] = poisonSc()
			case int(sel) < len(v1.Elems):
				es[i] = v1.Elems[sel]
			case int(sel)-len(v1.Elems) < len(v2.Elems):
				es[i] = v2.Elems[int(sel)-len(v1.Elems)]
			default:
				it.trap("OpVectorShuffle component %d out of range", sel)
			}
		}
		return comp(es), true

	case OpSDot, OpUDot, OpSUDot:
		return it.intDot(in, arg(0), arg(1)), true
	case OpExtInst:
		if len(a) < 2 {
			it.trap("malformed OpExtInst")
		}
		if it.m.extImps[a[0]] != "GLSL.std.450" {
			it.unsupported("extended instruction set " + it.m.extImps[a[0]])
		}
		return it.glsl(in, g)
	}
	return Value{}, false
}

func (it *interp) insert(c Value, path []uint32, obj Value) Value {
	if len(path) == 0 {
		return obj
	}
	if c.K != kComposite || int(path[0]) >= len(c.Elems) {
		it.trap("OpCompositeInsert index %d out of range", path[0])
	}
	es := append([]Value(nil), c.Elems...)
	es[path[0]] = it.insert(c.Elems[path[0]], path[1:], obj)
	return comp(es)
}

// fdot: sum of products, each operation rounded to the component width, accumulated
// left to right (the spec does not fix the association; data used by the checks keeps
// these sums exact so the order is unobservable).
func (it *interp) fdot(w uint32, x, y []Value) Value {
	if len(x) != len(y) || len(x) == 0 {
		it.trap("dot product operand shapes")
	}
	var acc float64
	for i := range x {
		if x[i].Poison || y[i].Poison {
			return poisonSc()
		}
		p := fdec(fenc(fdec(x[i].Bits, w)*fdec(y[i].Bits, w), w), w)
		if i == 0 {
			acc = p
		} else {
			acc = fdec(fenc(acc+p, w), w)
		}
	}
	return sc(fenc(acc, w))
}

func (it *interp) intDot(in *Inst, x, y Value) Value {
	st := it.scalarType(in.Type)
	if st == nil || st.Kind != TInt {
		it.trap("%s result type is not integer", in.Name())
	}
	s1 := in.Op == OpSDot || in.Op == OpSUDot
	s2 := in.Op == OpSDot
	var xs, ys []Value
	var w uint32
	if x.K == kScalar {
		// packed 4x8
		if len(in.Args) < 3 {
			it.trap("%s on scalars without a packed vector format", in.Name())
		}
		if x.Poison || y.Poison {
			return poisonSc()
		}
		for k := 0; k < 4; k++ {
			xs = append(xs, sc(x.Bits>>(8*uint(k))&0xff))
			ys = append(ys, sc(y.Bits>>(8*uint(k))&0xff))
		}
		w = 8
	} else {
		xs, ys = x.Elems, y.Elems
		ot := it.scalarType(it.typeOfID(in.Args[0]))
		w = ot.Width
	}
	if len(xs) != len(ys) {
		it.trap("%s operand shapes", in.Name())
	}
	var acc uint64
	for i := range xs {
		if xs[i].Poison || ys[i].Poison {
			return poisonSc()
		}
		var a, b int64
		if s1 {
			a = sext(xs[i].Bits, w)
		} else {
			a = int64(xs[i].Bits)
		}
		if s2 {
			b = sext(ys[i].Bits, w)
		} else {
			b = int64(ys[i].Bits)
		}
		acc += uint64(a * b)
	}
	return sc(acc & maskW(st.Width))
}

// bitcast reinterprets bits; lower-numbered components map to lower-order bits.
func (it *interp) bitcast(rt, ot uint32, v Value) Value {
	rtT, otT := it.ty(rt), it.ty(ot)
	if rtT == nil || otT == nil {
		it.trap("OpBitcast of unknown types")
	}
	if rtT.Kind == TPointer || otT.Kind == TPointer {
		if rtT.Kind == TPointer && otT.Kind == TPointer {
			return v
		}
		it.unsupported("OpBitcast between pointer and non-pointer")
	}
	rs, os := it.scalarType(rt), it.scalarType(ot)
	rn, on := it.vecCount(rt), it.vecCount(ot)
	var src []Value
	if on == 0 {
		src = []Value{v}
	} else {
		src = v.Elems
	}
	cnt := rn
	if cnt == 0 {
		cnt = 1
	}
	if uint32(len(src))*os.Width != uint32(cnt)*rs.Width {
		it.trap("OpBitcast between types of different total size")
	}
	out := make([]Value, cnt)
	for i := range out {
		out[i].K = kScalar
	}
	switch {
	case os.Width == rs.Width:
		copy(out, src)
	case os.Width > rs.Width:
		k := int(os.Width / rs.Width)
		for i, s := range src {
			for j := 0; j < k; j++ {
				out[i*k+j] = pz(s.Poison, (s.Bits>>(uint(j)*uint(rs.Width)))&maskW(rs.Width))
			}
		}
	default:
		k := int(rs.Width / os.Width)
		for i := range out {
			for j := 0; j < k; j++ {
				s := src[i*k+j]
				out[i].Bits |= s.Bits << (uint(j) * uint(os.Width))
				out[i].Poison = out[i].Poison || s.Poison
			}
		}
	}
	if rn == 0 {
		return out[0]
	}
	return comp(out)
}
