package spv

import (
	"os"
	"testing"

	"github.com/gogpu/naga/spirv"
)

func TestSmoke(t *testing.T) {
	src := os.Getenv("SPV_SMOKE")
	if src == "" {
		t.Skip()
	}
	data, _ := os.ReadFile(src)
	m := mustModule(t, string(data), spirv.Version1_3)
	t.Log("\n" + m.Disassemble())
	for _, is := range Validate(m) {
		t.Logf("ISSUE %s: %s (inst %d)", is.Rule, is.Msg, is.Inst)
	}
	if os.Getenv("SPV_RUN") != "" {
		out := make([]byte, 64)
		inp := make([]byte, 64)
		res, err := Run(m, RunConfig{Entry: "main", Buffers: map[Key][]byte{{0, 0}: out, {0, 1}: inp}, NumWorkgroups: [3]uint32{1, 1, 1}})
		t.Logf("res=%+v err=%v out=%v", res, err, getU32(out))
	}
}
