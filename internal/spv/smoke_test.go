package spv

import (
	"os"
	"testing"

	"github.com/gogpu/naga/spirv"
)

// TestSmoke is a developer aid: SPV_SMOKE=file.wgsl [SPV_POLICY=1|2] [SPV_RUN=1] prints the
// disassembly, the validator issues and optionally runs "main" on zeroed buffers.
func TestSmoke(t *testing.T) {
	src := os.Getenv("SPV_SMOKE")
	if src == "" {
		t.Skip()
	}
	data, _ := os.ReadFile(src)
	opts := spirv.Options{Version: spirv.Version1_3, Debug: true}
	switch os.Getenv("SPV_POLICY") {
	case "1":
		opts.BoundsCheckPolicies = spirv.BoundsCheckPolicies{ImageLoad: 1, ImageStore: 1, Index: 1}
	case "2":
		opts.BoundsCheckPolicies = spirv.BoundsCheckPolicies{ImageLoad: 2, ImageStore: 2, Index: 2}
	}
	if os.Getenv("SPV_LOOPBOUND") != "" {
		opts.ForceLoopBounding = true
	}
	bin, err := compileWGSLOpts(string(data), opts)
	if err != nil {
		t.Fatal(err)
	}
	m, err := Parse(bin)
	if err != nil {
		t.Fatal(err)
	}
	t.Log("\n" + m.Disassemble())
	for _, is := range Validate(m) {
		t.Logf("ISSUE %s: %s (inst %d)", is.Rule, is.Msg, is.Inst)
	}
	if os.Getenv("SPV_RUN") != "" {
		bufs := map[Key][]byte{}
		for _, rv := range m.ResourceVars() {
			bufs[Key{rv.Set, rv.Binding}] = make([]byte, 64)
		}
		res, err := Run(m, RunConfig{Entry: "main", Buffers: bufs, NumWorkgroups: [3]uint32{1, 1, 1}})
		t.Logf("res=%+v err=%v", res, err)
		for k, b := range bufs {
			t.Logf("%v: %v", k, getU32(b))
		}
	}
}
