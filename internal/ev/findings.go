package ev

import (
	"encoding/json"
	"fmt"
	"os"
	"path/filepath"
	"regexp"
	"strings"
	"testing"
)

// Finding is one entry of /verif/known_findings.json (committed, never
// written at run time).
type Finding struct {
	ID       string   `json:"id"`
	Property string   `json:"property"`
	Status   string   `json:"status"` // "open" or "fixed: <commit>"
	What     string   `json:"what"`
	Replay   string   `json:"replay"` // path relative to /verif
	Tags     []string `json:"tags"`   // generator exclusion tags (open entries only)
	// Signatures attribute a failure on a generated case to this (open) finding when the
	// generator's exclusion did not keep the construct away: every given regexp must match
	// (msg: the failure message, wgsl: the program text).  Only failures whose message names
	// the offending emitted construct are attributable this way; value mismatches never are.
	Signatures []Signature `json:"signatures,omitempty"`
}

// Signature: see Finding.Signatures.
type Signature struct {
	Msg  string `json:"msg"`
	WGSL string `json:"wgsl,omitempty"`
}

var (
	findingsLoaded bool
	findings       []Finding
	openTags       = map[string]bool{}
)

func loadFindings() {
	if findingsLoaded {
		return
	}
	findingsLoaded = true
	b, err := os.ReadFile(filepath.Join(Root(), "known_findings.json"))
	if err != nil {
		return
	}
	var doc struct {
		Findings []Finding `json:"findings"`
	}
	if err := json.Unmarshal(b, &doc); err != nil {
		Inconclusive("known_findings.json unreadable: " + err.Error())
		return
	}
	findings = doc.Findings
	for _, f := range findings {
		if f.Status == "open" {
			for _, t := range f.Tags {
				openTags[t] = true
			}
		}
	}
}

// Excluded reports whether a generator must stay away from the construct
// tagged `tag` because an open known finding covers it; it counts the
// exclusion in the class histogram.
func Excluded(tag string) bool {
	loadFindings()
	if os.Getenv("VERIF_NO_EXCLUDE") != "" {
		return false
	}
	if openTags[tag] {
		Class("excluded:" + tag)
		return true
	}
	return false
}

// ExcludedQuiet is Excluded without counting.
func ExcludedQuiet(tag string) bool {
	loadFindings()
	if os.Getenv("VERIF_NO_EXCLUDE") != "" {
		return false
	}
	return openTags[tag]
}

// FindingsFor returns the listed findings of a property.
func FindingsFor(prop string) []Finding {
	loadFindings()
	var out []Finding
	for _, f := range findings {
		if f.Property == prop {
			out = append(out, f)
		}
	}
	return out
}

// Judge re-judges a serialised case: ok=false means the property is violated
// on it; msg says how.
type Judge func(raw json.RawMessage) (ok bool, msg string)

// RunKnown replays every listed finding of the property through its judge.
// Open + still failing -> KNOWN-FINDING (recorded); open + passing -> note;
// fixed + failing -> violation (the defect is back); fixed + passing -> ok.
func RunKnown(t *testing.T, prop string, judges map[string]Judge) {
	for _, f := range FindingsFor(prop) {
		if f.Replay == "" {
			continue
		}
		r, err := LoadReplay(filepath.Join(Root(), f.Replay))
		if err != nil {
			Inconclusive(fmt.Sprintf("finding %s: %v", f.ID, err))
			continue
		}
		j := judges[r.Check]
		if j == nil {
			Inconclusive(fmt.Sprintf("finding %s: no judge %q", f.ID, r.Check))
			continue
		}
		ok, msg := safeJudge(j, r.Case)
		Class("known-replayed")
		switch {
		case f.Status == "open" && !ok:
			Known(f.ID, f.What)
		case f.Status == "open" && ok:
			fmt.Printf("NOTE: known finding %s no longer reproduces\n", f.ID)
		case strings.HasPrefix(f.Status, "fixed") && !ok:
			Fail(r.Check, json.RawMessage(r.Case), "regression of fixed finding "+f.ID+": "+msg)
			t.Errorf("fixed finding %s is back: %s", f.ID, msg)
		}
	}
}

// RunReplay re-judges $VERIF_REPLAY.
func RunReplay(t *testing.T, judges map[string]Judge) {
	p := ReplayPath()
	if p == "" {
		t.Skip("no VERIF_REPLAY")
	}
	r, err := LoadReplay(p)
	if err != nil {
		t.Fatalf("replay: %v", err)
	}
	j := judges[r.Check]
	if j == nil {
		t.Fatalf("replay: no judge %q", r.Check)
	}
	ok, msg := safeJudge(j, r.Case)
	Eval(Hash64(r.Case), true)
	if !ok {
		Fail(r.Check, json.RawMessage(r.Case), msg)
		t.Fatalf("replay fails: %s", msg)
	}
	fmt.Printf("replay passes: %s\n", p)
}

func safeJudge(j Judge, raw json.RawMessage) (ok bool, msg string) {
	defer func() {
		if r := recover(); r != nil {
			ok, msg = false, fmt.Sprintf("panic in judge: %v", r)
		}
	}()
	return j(raw)
}

var attributedOnce = map[string]bool{}

// Attributed reports whether a failure (message + program text) carries the signature
// of an open known finding; the hit is counted (class known-variant:<id>) and the finding
// is reported as still reproducing.
func Attributed(msg, wgsl string) (string, bool) {
	loadFindings()
	if os.Getenv("VERIF_NO_EXCLUDE") != "" {
		return "", false
	}
	for _, f := range findings {
		if f.Status != "open" {
			continue
		}
		for _, sg := range f.Signatures {
			if sg.Msg == "" {
				continue
			}
			if ok, _ := regexp.MatchString(sg.Msg, msg); !ok {
				continue
			}
			if sg.WGSL != "" {
				if ok, _ := regexp.MatchString(sg.WGSL, wgsl); !ok {
					continue
				}
			}
			Class("known-variant:" + f.ID)
			mu.Lock()
			first := !attributedOnce[f.ID]
			attributedOnce[f.ID] = true
			mu.Unlock()
			if first && f.Property != propID {
				// a finding of another property seen through this check
				Known(f.ID, f.What)
			}
			return f.ID, true
		}
	}
	return "", false
}
