// Package ev collects per-process statistics of a check (cases judged,
// distinct non-trivial cases, class histogram, samples, failures, known
// findings) and dumps them to $VERIF_OUT/shard-$VERIF_SHARD.json, where the
// driver (cmd/vcheck) merges them into /verif/evidence/<ID>.json.
//
// Nothing in here decides a property; it only records what the properties did.
package ev

import (
	"crypto/sha256"
	"encoding/binary"
	"encoding/json"
	"fmt"
	"hash/fnv"
	"os"
	"path/filepath"
	"sort"
	"strconv"
	"sync"
	"testing"
)

// Failure is one failing case as written to the replay directory.
type Failure struct {
	Property string          `json:"property"`
	Check    string          `json:"check"` // name of the sub-check inside the package (selects the judge on replay)
	Message  string          `json:"message"`
	Case     json.RawMessage `json:"case"`
	Path     string          `json:"-"`
}

// KnownHit is a listed finding that still reproduces.
type KnownHit struct {
	ID      string `json:"id"`
	Message string `json:"message"`
}

// Shard is the on-disk format of one process's statistics.
type Shard struct {
	Property    string            `json:"property"`
	Shard       int               `json:"shard"`
	Evaluations int64             `json:"evaluations"`
	Hashes      []uint64          `json:"hashes"`
	Classes     map[string]int64  `json:"classes"`
	Samples     []json.RawMessage `json:"samples"`
	Failures    []ShardFailure    `json:"failures"`
	Known       []KnownHit        `json:"known"`
	Rules       []string          `json:"rules"`
	Assumptions []string          `json:"assumptions"`
	Inconcl     []string          `json:"inconclusive"`
}

// ShardFailure is the summary of a Failure kept in the shard file.
type ShardFailure struct {
	Check   string `json:"check"`
	Path    string `json:"path"`
	Message string `json:"message"`
}

var (
	mu       sync.Mutex
	propID   string
	evals    int64
	hashes   = map[uint64]struct{}{}
	classes  = map[string]int64{}
	samples  []json.RawMessage
	sampleOf = map[string]int{}
	fails    = map[string]*Failure{}
	known    []KnownHit
	rules    []string
	assume   []string
	inconcl  []string
)

// MaxSamplesPerKind bounds the samples kept per sample kind.
const MaxSamplesPerKind = 3

// Root returns the /verif directory (the parent of the replay and evidence dirs).
func Root() string {
	if r := os.Getenv("VERIF_ROOT"); r != "" {
		return r
	}
	return "/verif"
}

// Tier returns "quick" or "thorough".
func Tier() string {
	if os.Getenv("VERIF_TIER") == "thorough" {
		return "thorough"
	}
	return "quick"
}

// Thorough reports whether the thorough tier is running.
func Thorough() bool { return Tier() == "thorough" }

// ShardIndex returns this process's shard number.
func ShardIndex() int {
	n, _ := strconv.Atoi(os.Getenv("VERIF_SHARD"))
	return n
}

// Seed returns VERIF_SEED (0 when unset).
func Seed() int64 {
	n, _ := strconv.ParseInt(os.Getenv("VERIF_SEED"), 10, 64)
	return n
}

// Hash64 hashes the given byte strings (order-sensitive).
func Hash64(parts ...[]byte) uint64 {
	h := fnv.New64a()
	var l [8]byte
	for _, p := range parts {
		binary.LittleEndian.PutUint64(l[:], uint64(len(p)))
		h.Write(l[:])
		h.Write(p)
	}
	return h.Sum64()
}

// HashS is Hash64 over strings.
func HashS(parts ...string) uint64 {
	b := make([][]byte, len(parts))
	for i, p := range parts {
		b[i] = []byte(p)
	}
	return Hash64(b...)
}

// Eval records one judged case; hash identifies it, nontrivial says whether
// it satisfies the property's stated non-triviality rule.
func Eval(hash uint64, nontrivial bool) {
	mu.Lock()
	evals++
	if nontrivial {
		hashes[hash] = struct{}{}
	}
	mu.Unlock()
}

// Class increments a histogram class.
func Class(name string) { ClassN(name, 1) }

// ClassN adds n to a histogram class.
func ClassN(name string, n int64) {
	mu.Lock()
	classes[name] += n
	mu.Unlock()
}

// Sample keeps v (JSON-encoded) as a sample of the given kind, up to
// MaxSamplesPerKind per kind.
func Sample(kind string, v any) {
	mu.Lock()
	defer mu.Unlock()
	if sampleOf[kind] >= MaxSamplesPerKind {
		return
	}
	b, err := json.Marshal(map[string]any{"kind": kind, "case": v})
	if err != nil {
		return
	}
	sampleOf[kind]++
	samples = append(samples, b)
}

// WantSample reports whether another sample of this kind would be kept
// (lets callers avoid building expensive sample values).
func WantSample(kind string) bool {
	mu.Lock()
	defer mu.Unlock()
	return sampleOf[kind] < MaxSamplesPerKind
}

// Rule records the generation / non-triviality rule text of a sub-check.
func Rule(s string) { mu.Lock(); rules = appendUniq(rules, s); mu.Unlock() }

// Assume records an assumption / trusted-base statement.
func Assume(s string) { mu.Lock(); assume = appendUniq(assume, s); mu.Unlock() }

// Inconclusive records harness trouble (exit 2 in the driver).
func Inconclusive(s string) { mu.Lock(); inconcl = appendUniq(inconcl, s); mu.Unlock() }

func appendUniq(l []string, s string) []string {
	for _, x := range l {
		if x == s {
			return l
		}
	}
	return append(l, s)
}

// Fail records a failing case of sub-check `check`.  While rapid shrinks it
// calls the property again and again; the last failure recorded for a check
// is the minimal one, so later calls overwrite earlier ones.  Returns the
// replay path that will be written.
func Fail(check string, c any, msg string) string {
	raw, err := json.Marshal(c)
	if err != nil {
		raw, _ = json.Marshal(fmt.Sprintf("%+v", c))
	}
	mu.Lock()
	defer mu.Unlock()
	f := &Failure{Property: propID, Check: check, Message: msg, Case: raw}
	fails[check] = f
	return ""
}

// Known records that listed finding `id` still reproduces.
func Known(id, msg string) {
	mu.Lock()
	known = append(known, KnownHit{ID: id, Message: msg})
	mu.Unlock()
}

// Flush writes replay files and the shard statistics file.
func Flush() {
	mu.Lock()
	defer mu.Unlock()
	out := os.Getenv("VERIF_OUT")
	sh := Shard{Property: propID, Shard: ShardIndex(), Evaluations: evals, Classes: classes,
		Samples: samples, Known: known, Rules: rules, Assumptions: assume, Inconcl: inconcl}
	for h := range hashes {
		sh.Hashes = append(sh.Hashes, h)
	}
	sort.Slice(sh.Hashes, func(i, j int) bool { return sh.Hashes[i] < sh.Hashes[j] })
	var names []string
	for k := range fails {
		names = append(names, k)
	}
	sort.Strings(names)
	for _, k := range names {
		f := fails[k]
		b, _ := json.MarshalIndent(f, "", " ")
		sum := sha256.Sum256(f.Case)
		dir := filepath.Join(Root(), "replay", propID)
		_ = os.MkdirAll(dir, 0o755)
		p := filepath.Join(dir, fmt.Sprintf("%s-%x.json", k, sum[:6]))
		_ = os.WriteFile(p, b, 0o644)
		sh.Failures = append(sh.Failures, ShardFailure{Check: k, Path: p, Message: f.Message})
		fmt.Printf("VERIF-FAIL check=%s replay=%s :: %s\n", k, p, firstLine(f.Message))
	}
	if out == "" {
		return
	}
	_ = os.MkdirAll(out, 0o755)
	b, _ := json.Marshal(&sh)
	tag := os.Getenv("VERIF_STAGE")
	if tag == "" {
		tag = "props"
	}
	_ = os.WriteFile(filepath.Join(out, fmt.Sprintf("shard-%s-%d.json", tag, sh.Shard)), b, 0o644)
}

func firstLine(s string) string {
	for i := 0; i < len(s); i++ {
		if s[i] == '\n' {
			return s[:i]
		}
	}
	if len(s) > 300 {
		return s[:300]
	}
	return s
}

// Main is the TestMain body shared by all check packages.
func Main(m *testing.M, id string) {
	propID = id
	code := m.Run()
	Flush()
	os.Exit(code)
}

// LoadReplay reads a replay file (as written by Flush or committed under known/).
func LoadReplay(path string) (*Failure, error) {
	b, err := os.ReadFile(path)
	if err != nil {
		return nil, err
	}
	var f Failure
	if err := json.Unmarshal(b, &f); err != nil {
		return nil, err
	}
	f.Path = path
	return &f, nil
}

// ReplayPath returns $VERIF_REPLAY.
func ReplayPath() string { return os.Getenv("VERIF_REPLAY") }
