// Package xrun is the shared harness of the differential execution checks
// (C01, C03–C05, C13–C15): it turns a generated program into a serialisable
// case with the reference result attached, and compares an executor's
// buffers with that result under the float / padding policy of DESIGN §3.
package xrun

import (
	"encoding/binary"
	"encoding/hex"
	"fmt"
	"math"
	"sort"
	"strconv"
	"strings"

	"verif/internal/wgen"
	"verif/internal/wref"
)

// Case is a self-contained, JSON-serialisable execution case.
type Case struct {
	WGSL     string            `json:"wgsl"`
	Entry    string            `json:"entry"`
	NumWG    [3]uint32         `json:"num_workgroups"`
	WGSize   [3]int            `json:"workgroup_size"`
	Buffers  map[string]string `json:"buffers"`  // "group,binding" -> hex of initial bytes
	Expected map[string]string `json:"expected"` // "group,binding" -> hex of final bytes per WGSL
	Masks    map[string]string `json:"masks"`    // read_write buffers: per byte 0 pad, 1 exact, 2 tolerance, 3 exact float (±0 equal)
	RefSteps int64             `json:"ref_steps"`
	Opts     map[string]string `json:"opts,omitempty"`
	// Overrides: pipeline-constant values by key ("<id>" or name), applied according to
	// Opts["ovroute"]: "process" (ir.ProcessOverrides on a clone, then the backend) or
	// "pipeline" (the backend's PipelineConstants option; GLSL and MSL only).
	Overrides map[string]float64 `json:"overrides,omitempty"`
	Note     string            `json:"note,omitempty"`
}

// Key formats a (group, binding) pair.
func Key(g, b int) string { return fmt.Sprintf("%d,%d", g, b) }

// ParseKey parses "g,b".
func ParseKey(s string) (int, int) {
	p := strings.Split(s, ",")
	g, _ := strconv.Atoi(p[0])
	b, _ := strconv.Atoi(p[1])
	return g, b
}

// Build runs the reference evaluator on a generated case.  discard is
// non-empty when the run left the domain on which the result is determined
// (the case must then be skipped and counted); err reports generator or
// evaluator trouble (harness fault, never a violation).
func Build(c *wgen.ExecCase, cfgMod func(*wref.Config), extraDiscard ...func(*wref.Events) string) (out *Case, res *wref.Result, discard string, err error) {
	cfg := wref.Config{Module: c.Mod, Entry: c.Entry, Buffers: c.Buffers, NumWorkgroups: c.NumWG, StepLimit: 1 << 21}
	if cfgMod != nil {
		cfgMod(&cfg)
	}
	res, err = wref.Run(cfg)
	if err != nil {
		if err == wref.ErrStepLimit {
			return nil, nil, "ref-step-limit", nil
		}
		return nil, nil, "", err
	}
	if d := res.Ev.OutOfDomainPolicy(cfg.ClampOOB || cfg.ZeroOOBReads); d != "" {
		return nil, res, d, nil
	}
	for _, f := range extraDiscard {
		if d := f(&res.Ev); d != "" {
			return nil, res, d, nil
		}
	}
	n := c.Entry.WG[0] * c.Entry.WG[1] * c.Entry.WG[2]
	if n > 1 || c.NumWG[0]*c.NumWG[1]*c.NumWG[2] > 1 {
		cfg.Reverse = true
		res2, err2 := wref.Run(cfg)
		if err2 != nil {
			return nil, nil, "", fmt.Errorf("reverse-order reference run: %v", err2)
		}
		for k, b := range res.Buffers {
			if hex.EncodeToString(b) != hex.EncodeToString(res2.Buffers[k]) {
				return nil, nil, "", fmt.Errorf("generated program is schedule dependent (buffer %v)", k)
			}
		}
	}
	out = &Case{WGSL: c.Src, Entry: c.Entry.Name, NumWG: c.NumWG, WGSize: c.Entry.WG,
		Buffers: map[string]string{}, Expected: map[string]string{}, Masks: map[string]string{}, RefSteps: res.Steps}
	for k, b := range c.Buffers {
		out.Buffers[Key(k[0], k[1])] = hex.EncodeToString(b)
	}
	for k, b := range res.Buffers {
		out.Expected[Key(k[0], k[1])] = hex.EncodeToString(b)
	}
	for k, b := range res.Masks {
		out.Masks[Key(k[0], k[1])] = hex.EncodeToString(b)
	}
	return out, res, "", nil
}

// InitialBuffers decodes the initial buffers (fresh copies).
func (c *Case) InitialBuffers() map[[2]int][]byte {
	out := map[[2]int][]byte{}
	for k, h := range c.Buffers {
		g, b := ParseKey(k)
		by, _ := hex.DecodeString(h)
		out[[2]int{g, b}] = by
	}
	return out
}

// StepBudget is the executor step budget derived from the reference run: a
// wrong loop or merge wiring must not be able to hide behind loop bounding.
func (c *Case) StepBudget() int64 { return c.RefSteps*256 + 200000 }

// Compare checks executor output buffers against the expectation.
func (c *Case) Compare(got map[[2]int][]byte) (ok bool, msg string) {
	keys := make([]string, 0, len(c.Expected))
	for k := range c.Expected {
		keys = append(keys, k)
	}
	sort.Strings(keys)
	for _, k := range keys {
		g, b := ParseKey(k)
		want, _ := hex.DecodeString(c.Expected[k])
		have, okb := got[[2]int{g, b}]
		if !okb {
			return false, fmt.Sprintf("buffer %s missing from executor output", k)
		}
		if len(have) != len(want) {
			return false, fmt.Sprintf("buffer %s: size %d, want %d", k, len(have), len(want))
		}
		var mask []byte
		if mh, has := c.Masks[k]; has {
			mask, _ = hex.DecodeString(mh)
		}
		for i := 0; i < len(want); i++ {
			mk := byte(wref.MaskExact)
			if mask != nil {
				mk = mask[i]
			}
			switch mk {
			case wref.MaskPad:
				continue
			case wref.MaskExact:
				if have[i] != want[i] {
					off := i &^ 3
					return false, fmt.Sprintf("buffer %s byte %d: got %s want %s (word at %d: got 0x%08x want 0x%08x)",
						k, i, hex.EncodeToString(have[i:i+1]), hex.EncodeToString(want[i:i+1]), off, word(have, off), word(want, off))
				}
			case wref.MaskFloat, wref.MaskFuzzy:
				if i%4 != 0 {
					continue
				}
				hw, ww := word(have, i), word(want, i)
				if hw == ww {
					continue
				}
				hf, wf := math.Float32frombits(hw), math.Float32frombits(ww)
				if hf == 0 && wf == 0 {
					continue
				}
				if mk == wref.MaskFuzzy {
					d := math.Abs(float64(hf) - float64(wf))
					tol := 1e-3*math.Max(math.Abs(float64(hf)), math.Abs(float64(wf))) + 1e-5
					if d <= tol {
						continue
					}
				}
				return false, fmt.Sprintf("buffer %s offset %d: got %g (0x%08x) want %g (0x%08x)%s", k, i, hf, hw, wf, ww,
					map[bool]string{true: " [tolerance]", false: " [exact]"}[mk == wref.MaskFuzzy])
			}
		}
	}
	return true, ""
}

func word(b []byte, off int) uint32 {
	if off+4 > len(b) {
		return 0
	}
	return binary.LittleEndian.Uint32(b[off:])
}

// NonTrivial applies the C01 rule: the reference run loaded from an input
// buffer, stored into an output buffer and executed >= 5 dynamic operations
// of >= 3 distinct classes.
func NonTrivial(res *wref.Result) bool {
	if res == nil || res.Ev.Loads == 0 || res.Ev.Stores == 0 {
		return false
	}
	total, classes := 0, map[string]bool{}
	for k, n := range res.Ev.Ops {
		total += n
		c := k
		if i := strings.IndexAny(k, ":"); i > 0 {
			c = k[:i]
		}
		if strings.HasPrefix(c, "bin") {
			c = "bin"
		}
		if strings.HasPrefix(c, "unary") {
			c = "unary"
		}
		classes[c] = true
	}
	return total >= 5 && len(classes) >= 3
}
