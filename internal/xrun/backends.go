package xrun

import (
	"fmt"
	"regexp"
	"sort"
	"strconv"
	"strings"

	"github.com/gogpu/naga"
	"github.com/gogpu/naga/glsl"
	"github.com/gogpu/naga/hlsl"
	"github.com/gogpu/naga/ir"
	"github.com/gogpu/naga/msl"
	"github.com/gogpu/naga/spirv"

	"verif/internal/ctext"
	"verif/internal/irx"
	"verif/internal/spv"
)

// Outcome of compiling a case with one backend and executing the output with
// the matching independent interpreter.
type Outcome struct {
	Rejected    string // naga returned an error (stage: message) — acceptance is C08's business
	Unsupported string // the interpreter does not model something in the output
	Invalid     string // the output is not valid in the target language (finding)
	Bad         string // executing the output trapped / used an undefined value / did not terminate (finding)
	Buffers     map[[2]int][]byte
	Text        string // emitted text (text backends) or disassembly on demand
	Info        map[string]int64
}

// Failed reports whether the outcome is a violation by itself.
func (o *Outcome) Failed() (bool, string) {
	switch {
	case o.Invalid != "":
		return true, o.Invalid
	case o.Bad != "":
		return true, o.Bad
	}
	return false, ""
}

// Lower parses and lowers a WGSL source; stage names the failing stage.
func Lower(src string) (m *ir.Module, stage string, err error) {
	defer func() {
		if r := recover(); r != nil {
			m, stage, err = nil, "panic", fmt.Errorf("panic: %v", r)
		}
	}()
	ast, err := naga.Parse(src)
	if err != nil {
		return nil, "parse", err
	}
	m, err = naga.LowerWithSource(ast, src)
	if err != nil {
		return nil, "lower", err
	}
	return m, "", nil
}

func optBool(o map[string]string, k string) bool { return o[k] == "1" }

// SkipModuleUnchanged disables the "caller's module is unchanged" oracle of the
// override routes (set by C14 while the corresponding finding is open).
var SkipModuleUnchanged bool

// resolveOverrides applies the "process" override route: ProcessOverrides on a
// clone; the caller's module must stay untouched.
func resolveOverrides(m *ir.Module, c *Case) (*ir.Module, *Outcome) {
	if c.Opts["ovroute"] != "process" {
		return m, nil
	}
	h0 := irx.Hash(m)
	clone := ir.CloneModuleForOverrides(m)
	if err := ir.ProcessOverrides(clone, ir.PipelineConstants(c.Overrides)); err != nil {
		return nil, &Outcome{Rejected: "overrides: " + err.Error()}
	}
	if irx.Hash(m) != h0 && !SkipModuleUnchanged {
		fresh, _, _ := Lower(c.WGSL)
		d := ""
		if fresh != nil {
			d = irx.Diff(fresh, m)
		}
		return nil, &Outcome{Bad: "ir.ProcessOverrides on a clone altered the caller's module: " + d}
	}
	return clone, nil
}

func parseVersion(s string, defMaj, defMin int) (int, int) {
	p := strings.SplitN(s, ".", 2)
	if len(p) != 2 {
		return defMaj, defMin
	}
	a, e1 := strconv.Atoi(p[0])
	b, e2 := strconv.Atoi(p[1])
	if e1 != nil || e2 != nil {
		return defMaj, defMin
	}
	return a, b
}

// RunSPIRV compiles with the SPIR-V backend (options from c.Opts: version,
// debug, loopbound, api=compile) and executes with verif/internal/spv.
func RunSPIRV(c *Case) (o Outcome) {
	defer func() {
		if r := recover(); r != nil {
			o = Outcome{Rejected: fmt.Sprintf("panic: %v", r)}
		}
	}()
	maj, mnr := parseVersion(c.Opts["version"], 1, 3)
	ver := spirv.Version{Major: uint8(maj), Minor: uint8(mnr)}
	var bin []byte
	if c.Opts["api"] == "compile" {
		b, err := naga.CompileWithOptions(c.WGSL, naga.CompileOptions{SPIRVVersion: ver, Debug: optBool(c.Opts, "debug"), Validate: true})
		if err != nil {
			return Outcome{Rejected: "compile: " + err.Error()}
		}
		bin = b
	} else {
		m, stage, err := Lower(c.WGSL)
		if err != nil {
			return Outcome{Rejected: stage + ": " + err.Error()}
		}
		m2, bad := resolveOverrides(m, c)
		if bad != nil {
			return *bad
		}
		m = m2
		b, err := naga.GenerateSPIRV(m, spirv.Options{Version: ver, Debug: optBool(c.Opts, "debug"), ForceLoopBounding: optBool(c.Opts, "loopbound")})
		if err != nil {
			return Outcome{Rejected: "spirv: " + err.Error()}
		}
		bin = b
	}
	mod, err := spv.Parse(bin)
	if err != nil {
		return Outcome{Invalid: "emitted SPIR-V does not parse: " + err.Error()}
	}
	bufs := map[spv.Key][]byte{}
	for k, b := range c.InitialBuffers() {
		bufs[spv.Key{Set: uint32(k[0]), Binding: uint32(k[1])}] = b
	}
	res, err := spv.Run(mod, spv.RunConfig{Entry: c.Entry, Buffers: bufs, NumWorkgroups: c.NumWG, StepLimit: c.StepBudget()})
	if err != nil {
		if err == spv.ErrStepLimit {
			return Outcome{Bad: fmt.Sprintf("emitted SPIR-V does not terminate within %d steps (reference needed %d)", c.StepBudget(), c.RefSteps)}
		}
		return Outcome{Unsupported: "interpreter error: " + err.Error()}
	}
	if strings.HasPrefix(res.Trap, "unsupported:") {
		return Outcome{Unsupported: res.Trap}
	}
	if res.Trap != "" {
		return Outcome{Bad: "executing the emitted SPIR-V traps: " + res.Trap}
	}
	if len(res.Poison) > 0 {
		return Outcome{Bad: "the emitted SPIR-V uses a value the SPIR-V specification leaves undefined: " + res.Poison[0]}
	}
	o.Buffers = map[[2]int][]byte{}
	for k, b := range bufs {
		o.Buffers[[2]int{int(k.Set), int(k.Binding)}] = b
	}
	return o
}

func sortedKeys(m map[[2]int][]byte) [][2]int {
	var ks [][2]int
	for k := range m {
		ks = append(ks, k)
	}
	sort.Slice(ks, func(i, j int) bool { return ks[i][0] < ks[j][0] || (ks[i][0] == ks[j][0] && ks[i][1] < ks[j][1]) })
	return ks
}

func textOutcome(lang string, res *ctext.RunResult, err error, c *Case) (o Outcome, done bool) {
	if err != nil {
		if err == ctext.ErrStepLimit {
			return Outcome{Bad: fmt.Sprintf("emitted %s does not terminate within %d steps (reference needed %d)", lang, c.StepBudget(), c.RefSteps)}, true
		}
		return Outcome{Unsupported: "interpreter error: " + err.Error()}, true
	}
	if strings.HasPrefix(res.Trap, "unsupported:") {
		return Outcome{Unsupported: res.Trap}, true
	}
	if res.Trap != "" {
		return Outcome{Bad: "executing the emitted " + lang + " traps: " + res.Trap}, true
	}
	if len(res.Poison) > 0 {
		return Outcome{Bad: "the emitted " + lang + " uses a value " + lang + " leaves undefined: " + res.Poison[0]}, true
	}
	return Outcome{Info: res.Info}, false
}

func parseErr(lang string, err error) Outcome {
	if _, ok := err.(*ctext.UnsupportedError); ok {
		return Outcome{Unsupported: err.Error()}
	}
	return Outcome{Invalid: "emitted text is not valid " + lang + ": " + err.Error()}
}

// RunGLSL compiles the entry point with the GLSL backend (c.Opts: glsl =
// "430"|"450"|"460"|"es310"|"es320", bindmap = "1" to pass an explicit
// binding map) and executes the text with verif/internal/ctext.
func RunGLSL(c *Case) (o Outcome) {
	defer func() {
		if r := recover(); r != nil {
			o = Outcome{Rejected: fmt.Sprintf("panic: %v", r)}
		}
	}()
	m, stage, err := Lower(c.WGSL)
	if err != nil {
		return Outcome{Rejected: stage + ": " + err.Error()}
	}
	ver := glsl.Version{Major: 4, Minor: 50}
	switch c.Opts["glsl"] {
	case "430":
		ver = glsl.Version{Major: 4, Minor: 30}
	case "460":
		ver = glsl.Version{Major: 4, Minor: 60}
	case "es310":
		ver = glsl.Version{Major: 3, Minor: 10, ES: true}
	case "es320":
		ver = glsl.Version{Major: 3, Minor: 20, ES: true}
	}
	opts := glsl.Options{LangVersion: ver, EntryPoint: c.Entry}
	init := c.InitialBuffers()
	if c.Opts["bindmap"] != "0" {
		opts.BindingMap = map[glsl.BindingMapKey]uint8{}
		for _, k := range sortedKeys(init) {
			opts.BindingMap[glsl.BindingMapKey{Group: uint32(k[0]), Binding: uint32(k[1])}] = uint8(k[0]*16 + k[1])
		}
	}
	m2, bad := resolveOverrides(m, c)
	if bad != nil {
		return *bad
	}
	m = m2
	var h0 uint64
	if c.Opts["ovroute"] == "pipeline" {
		opts.PipelineConstants = ir.PipelineConstants(c.Overrides)
		if opts.PipelineConstants == nil {
			opts.PipelineConstants = ir.PipelineConstants{}
		}
		h0 = irx.Hash(m)
	}
	text, info, err := glsl.Compile(m, opts)
	if err != nil {
		return Outcome{Rejected: "glsl: " + err.Error()}
	}
	if c.Opts["ovroute"] == "pipeline" && irx.Hash(m) != h0 && !SkipModuleUnchanged {
		return Outcome{Bad: "glsl.Compile with PipelineConstants altered the caller's module", Text: text}
	}
	p, err := ctext.Parse(ctext.GLSL, text)
	if err != nil {
		o = parseErr("GLSL", err)
		o.Text = text
		return o
	}
	// The GLSL writer expands float % textually (a - b * trunc(a / b), operands repeated), so the
	// straight-line work of one invocation is bounded by the text size, not by the reference's
	// step count: add it to the budget, which only has to catch wrong loop wiring.
	inv := int64(c.NumWG[0]) * int64(c.NumWG[1]) * int64(c.NumWG[2]) * int64(c.WGSize[0]) * int64(c.WGSize[1]) * int64(c.WGSize[2])
	cfg := ctext.RunConfig{Entry: "main", Buffers: map[ctext.Slot][]byte{}, BlockByName: map[string][]byte{}, NumWorkgroups: c.NumWG, StepLimit: c.StepBudget() + int64(len(text))*inv}
	if opts.BindingMap != nil {
		// explicit binding map: every block must carry layout(binding = N) with the mapped
		// number (and the right class: 's' buffer / 'u' uniform); no fallback by name, so a
		// wrong or missing binding qualifier shows up as an access to an unbound block
		kinds := map[[2]int]bool{} // (group,binding) -> is storage
		for _, u := range info.Uniforms {
			kinds[[2]int{int(u.Binding.Group), int(u.Binding.Binding)}] = u.IsStorage
		}
		for k, b := range init {
			n := uint32(k[0]*16 + k[1])
			cls := byte('s')
			if st, known := kinds[k]; known && !st {
				cls = 'u'
			} else if !known && isUniformVar(c.WGSL, k) {
				cls = 'u'
			}
			cfg.Buffers[ctext.Slot{Class: cls, Index: n}] = b
		}
	} else {
		// no binding qualifiers in the text: the GL API binds blocks by the reflected names
		for _, u := range info.Uniforms {
			if b, ok := init[[2]int{int(u.Binding.Group), int(u.Binding.Binding)}]; ok {
				cfg.BlockByName[u.BlockName] = b
			}
		}
	}
	res, err := p.Run(cfg)
	if oo, done := textOutcome("GLSL", res, err, c); done {
		oo.Text = text
		return oo
	} else {
		o = oo
	}
	o.Buffers, o.Text = init, text
	return o
}

// RunHLSL compiles with the HLSL backend (c.Opts: sm = "5.1"|"6.0"|"6.2"|"6.6",
// restrict, loopbound, zeroinit, fake = "1" for FakeMissingBindings instead of
// an explicit binding map, nwgconst = "0" to leave SpecialConstantsBinding
// unset) and executes the text.
//
// Every buffer is bound at exactly the register the options imply: class from
// the WGSL address space / access mode (uniform -> b, read-only storage -> t,
// read_write storage -> u), register and space from the binding map (a
// non-identity map: register = 2*binding + group + 3, space = group + 1) or,
// with FakeMissingBindings, register = binding and space = group.  A resource
// the text declares with any other register / class / space finds no buffer
// and the run traps, so every execution is also a binding check (C17).
func RunHLSL(c *Case) (o Outcome) {
	defer func() {
		if r := recover(); r != nil {
			o = Outcome{Rejected: fmt.Sprintf("panic: %v", r)}
		}
	}()
	m, stage, err := Lower(c.WGSL)
	if err != nil {
		return Outcome{Rejected: stage + ": " + err.Error()}
	}
	opts := hlsl.DefaultOptions()
	switch c.Opts["sm"] {
	case "5.1":
		opts.ShaderModel = hlsl.ShaderModel5_1
	case "6.0":
		opts.ShaderModel = hlsl.ShaderModel6_0
	case "6.2":
		opts.ShaderModel = hlsl.ShaderModel6_2
	case "6.6":
		opts.ShaderModel = hlsl.ShaderModel6_6
	}
	opts.RestrictIndexing = optBool(c.Opts, "restrict")
	opts.ForceLoopBounding = optBool(c.Opts, "loopbound")
	opts.ZeroInitializeWorkgroupMemory = c.Opts["zeroinit"] != "0"
	opts.EntryPoint = c.Entry
	init := c.InitialBuffers()
	nwgSlot := ctext.Slot{Class: 'b', Index: 0, Space: 7}
	if c.Opts["nwgconst"] != "0" {
		opts.SpecialConstantsBinding = &hlsl.BindTarget{Space: 7, Register: 0}
	}
	target := func(k [2]int) (reg, space uint32) {
		if optBool(c.Opts, "fake") {
			return uint32(k[1]), uint32(k[0])
		}
		return uint32(2*k[1] + k[0] + 3), uint32(k[0] + 1)
	}
	if optBool(c.Opts, "fake") {
		opts.FakeMissingBindings = true
		opts.BindingMap = nil
	} else {
		opts.FakeMissingBindings = false
		opts.BindingMap = map[hlsl.ResourceBinding]hlsl.BindTarget{}
		for _, k := range sortedKeys(init) {
			r, s := target(k)
			opts.BindingMap[hlsl.ResourceBinding{Group: uint32(k[0]), Binding: uint32(k[1])}] = hlsl.BindTarget{Space: uint8(s), Register: r}
		}
	}
	m2, bad := resolveOverrides(m, c)
	if bad != nil {
		return *bad
	}
	m = m2
	text, info, err := hlsl.Compile(m, opts)
	if err != nil {
		return Outcome{Rejected: "hlsl: " + err.Error()}
	}
	p, err := ctext.Parse(ctext.HLSL, text)
	if err != nil {
		o = parseErr("HLSL", err)
		o.Text = text
		return o
	}
	entry := c.Entry
	if info != nil && info.EntryPointNames[c.Entry] != "" {
		entry = info.EntryPointNames[c.Entry]
	}
	cfg := ctext.RunConfig{Entry: entry, Buffers: map[ctext.Slot][]byte{}, NumWorkgroups: c.NumWG, StepLimit: c.StepBudget(), NumWorkgroupsSlot: &nwgSlot}
	for _, gv := range m.GlobalVariables {
		if gv.Binding == nil {
			continue
		}
		k := [2]int{int(gv.Binding.Group), int(gv.Binding.Binding)}
		b, ok := init[k]
		if !ok {
			continue
		}
		var cls byte
		switch {
		case gv.Space == ir.SpaceUniform:
			cls = 'b'
		case gv.Space == ir.SpaceStorage && gv.Access == ir.StorageRead:
			cls = 't'
		case gv.Space == ir.SpaceStorage:
			cls = 'u'
		default:
			continue
		}
		r, s := target(k)
		cfg.Buffers[ctext.Slot{Class: cls, Index: r, Space: s}] = b
	}
	res, err := p.Run(cfg)
	if oo, done := textOutcome("HLSL", res, err, c); done {
		oo.Text = text
		return oo
	} else {
		o = oo
	}
	o.Buffers, o.Text = init, text
	return o
}

// isUniformVar reports whether the WGSL resource at (group, binding) k is a var<uniform>.
func isUniformVar(src string, k [2]int) bool {
	m := regexp.MustCompile(fmt.Sprintf(`@group\(%d\)\s*@binding\(%d\)\s*var<\s*uniform`, k[0], k[1]))
	return m.MatchString(src)
}

var reResource = regexp.MustCompile(`@group\((\d+)\)\s*@binding\((\d+)\)\s*var<[^>]*>\s*([A-Za-z_][A-Za-z0-9_]*)`)

// ResourceNames maps the name of every resource variable of a WGSL source to
// its (group, binding).
func ResourceNames(src string) map[string][2]int {
	out := map[string][2]int{}
	for _, m := range reResource.FindAllStringSubmatch(src, -1) {
		g, _ := strconv.Atoi(m[1])
		b, _ := strconv.Atoi(m[2])
		out[m[3]] = [2]int{g, b}
	}
	return out
}

var _ = msl.DefaultOptions

// RunMSL compiles with the MSL backend (c.Opts: msl = "1.2"…"3.1", bind =
// "auto"|"fake"|"map", idx / buf = "unchecked"|"restrict"|"rzsw", zeroinit,
// loopbound) and executes the text.
func RunMSL(c *Case) (o Outcome) {
	defer func() {
		if r := recover(); r != nil {
			o = Outcome{Rejected: fmt.Sprintf("panic: %v", r)}
		}
	}()
	m, stage, err := Lower(c.WGSL)
	if err != nil {
		return Outcome{Rejected: stage + ": " + err.Error()}
	}
	maj, mnr := parseVersion(c.Opts["msl"], 2, 1)
	pol := func(s string) msl.BoundsCheckPolicy {
		switch s {
		case "restrict":
			return msl.BoundsCheckRestrict
		case "rzsw":
			return msl.BoundsCheckReadZeroSkipWrite
		}
		return msl.BoundsCheckUnchecked
	}
	opts := msl.Options{LangVersion: msl.Version{Major: uint8(maj), Minor: uint8(mnr)},
		BoundsCheckPolicies:           msl.BoundsCheckPolicies{Index: pol(c.Opts["idx"]), Buffer: pol(c.Opts["buf"])},
		ZeroInitializeWorkgroupMemory: c.Opts["zeroinit"] != "0",
		ForceLoopBounding:             optBool(c.Opts, "loopbound")}
	type bg struct {
		handle int
		name   string
		key    [2]int
	}
	var globals []bg
	for i, g := range m.GlobalVariables {
		if g.Binding == nil {
			continue
		}
		switch m.Types[g.Type].Inner.(type) {
		case ir.SamplerType, ir.ImageType:
			continue
		}
		globals = append(globals, bg{i, g.Name, [2]int{int(g.Binding.Group), int(g.Binding.Binding)}})
	}
	sort.Slice(globals, func(i, j int) bool {
		a, b := globals[i].key, globals[j].key
		return a[0] < b[0] || (a[0] == b[0] && a[1] < b[1])
	})
	slotOf := map[[2]int]uint32{}
	bind := c.Opts["bind"]
	switch bind {
	case "fake":
		opts.FakeMissingBindings = true
	case "map":
		res := msl.EntryPointResources{Resources: map[ir.ResourceBinding]msl.BindTarget{}}
		for i, g := range globals {
			sl := uint8(10 + 2*i)
			slotOf[g.key] = uint32(sl)
			res.Resources[ir.ResourceBinding{Group: uint32(g.key[0]), Binding: uint32(g.key[1])}] = msl.BindTarget{Buffer: &sl, Mutable: true}
		}
		ss := uint8(30)
		res.SizesBuffer = &ss
		opts.PerEntryPointMap = map[string]msl.EntryPointResources{c.Entry: res}
	default:
		// naga assigns sequential buffer indices over the buffer globals sorted by (group, binding)
		for i, g := range globals {
			slotOf[g.key] = uint32(i)
		}
	}
	m2, bad := resolveOverrides(m, c)
	if bad != nil {
		return *bad
	}
	var h0 uint64
	if c.Opts["ovroute"] == "pipeline" {
		opts.PipelineConstants = map[string]float64{}
		for k, v := range c.Overrides {
			opts.PipelineConstants[k] = v
		}
		h0 = irx.Hash(m)
	}
	text, info, err := msl.Compile(m2, opts)
	if err != nil {
		return Outcome{Rejected: "msl: " + err.Error()}
	}
	if c.Opts["ovroute"] == "pipeline" && irx.Hash(m) != h0 && !SkipModuleUnchanged {
		return Outcome{Bad: "msl.Compile with PipelineConstants altered the caller's module", Text: text}
	}
	p, err := ctext.Parse(ctext.MSL, text)
	if err != nil {
		o = parseErr("MSL", err)
		o.Text = text
		return o
	}
	entry := info.EntryPointNames[c.Entry]
	if entry == "" {
		entry = c.Entry
	}
	var ls [3]uint32
	for _, ep := range m.EntryPoints {
		if ep.Name == c.Entry {
			ls = ep.Workgroup
		}
	}
	cfg := ctext.RunConfig{Entry: entry, NumWorkgroups: c.NumWG, LocalSize: ls, StepLimit: c.StepBudget(),
		Buffers: map[ctext.Slot][]byte{}, BlockByName: map[string][]byte{}, SizesFrom: map[string]ctext.Slot{}, SizesFromName: map[string]string{}}
	var ei ctext.EntryInfo
	for _, e := range p.EntryPoints() {
		if e.Name == entry {
			ei = e
		}
	}
	if ei.Name == "" {
		return Outcome{Invalid: fmt.Sprintf("entry point %q reported by msl.Compile does not exist in the emitted text", entry), Text: text}
	}
	init := c.InitialBuffers()
	for _, g := range globals {
		data, ok := init[g.key]
		if !ok {
			continue
		}
		member := fmt.Sprintf("size%d", g.handle)
		if bind == "fake" {
			var arg *ctext.ArgInfo
			for i := range ei.Args {
				a := &ei.Args[i]
				if a.Name == g.name || (strings.HasPrefix(a.Name, g.name+"_") && strings.Trim(a.Name[len(g.name)+1:], "0123456789") == "") {
					arg = a
					break
				}
			}
			if arg == nil {
				continue // not used by this entry point
			}
			cfg.BlockByName[arg.Name] = data
			cfg.SizesFromName[member] = arg.Name
		} else {
			sl := ctext.Slot{Class: 'b', Index: slotOf[g.key]}
			cfg.Buffers[sl] = data
			cfg.SizesFrom[member] = sl
		}
	}
	res, err := p.Run(cfg)
	if err != nil {
		if _, ok := err.(*ctext.UnsupportedError); ok {
			return Outcome{Unsupported: err.Error(), Text: text}
		}
	}
	if oo, done := textOutcome("MSL", res, err, c); done {
		oo.Text = text
		return oo
	} else {
		o = oo
	}
	o.Buffers, o.Text = init, text
	return o
}
