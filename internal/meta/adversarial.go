package meta

import (
	"sort"
	"strings"

	"pgregory.net/rapid"
)

// Adversarial renaming (property C16): user identifiers are mapped, one to
// one, into a pool of spellings that are dangerous for the text backends.
//
// The keyword tables below are written from the language specifications
// (Microsoft HLSL reference "Keywords" / "Reserved Words"; ISO C++14 [lex.key]
// plus Metal Shading Language specification §1.4.2 / §4 address-space and
// function qualifiers; GLSL 4.60 §3.6 "Keywords"), not from naga.  A word is
// in a *Certain table only if using it as an identifier is certainly an error
// in every implementation of that language; contextual words (HLSL "sample",
// "point", "line", "triangle", "linear", the effect-framework words) are in
// the pool as adversarial spellings but never asserted to be illegal.

func fields(s string) []string { return strings.Fields(s) }

var hlslCertain = fields(`
AppendStructuredBuffer asm_fragment BlendState bool break Buffer ByteAddressBuffer case cbuffer centroid linear class
column_major compile compile_fragment CompileShader const continue ComputeShader ConsumeStructuredBuffer default
DepthStencilState DepthStencilView discard do double DomainShader dword else export extern false float for fxgroup
GeometryShader groupshared half Hullshader if in inline inout InputPatch int interface matrix min16float min10float
min16int min12int min16uint namespace nointerpolation noperspective NULL out OutputPatch packoffset pixelfragment
PixelShader PointStream LineStream TriangleStream precise RasterizerState RenderTargetView return register row_major
RWBuffer RWByteAddressBuffer RWStructuredBuffer RWTexture1D RWTexture1DArray RWTexture2D RWTexture2DArray RWTexture3D
sampler SamplerState SamplerComparisonState shared snorm stateblock stateblock_state static string struct switch
StructuredBuffer tbuffer texture Texture1D Texture1DArray Texture2D Texture2DArray Texture2DMS Texture2DMSArray
Texture3D TextureCube TextureCubeArray true typedef uint uniform unorm unsigned vector vertexfragment VertexShader void
volatile while
auto catch char const_cast delete dynamic_cast enum explicit friend goto long mutable new operator private protected
public reinterpret_cast short signed sizeof static_cast template this throw try typename union using virtual
float1 float2 float3 float4 int1 int2 int3 int4 uint1 uint2 uint3 uint4 bool1 bool2 bool3 bool4 half2 half3 half4
double2 double3 double4 float2x2 float3x3 float4x4 float2x3 float3x4 float4x3 int2x2 uint4x4 half4x4 min16float4
`)

var hlslContextual = fields(`sample point line triangle lineadj triangleadj pass technique technique10 technique11 decl
Pass Technique ASM Decl`)

var hlslIntrinsics = fields(`abs acos all any asfloat asint asuint atan2 ceil clamp clip cos cross ddx ddy degrees determinant distance
dot exp exp2 f16tof32 f32tof16 firstbithigh firstbitlow floor fma fmod frac frexp isinf isnan ldexp length lerp log log2 mad
max min modf mul normalize pow radians rcp reflect refract reversebits round rsqrt saturate sign sin sincos smoothstep sqrt
step tan tanh transpose trunc countbits GroupMemoryBarrierWithGroupSync DeviceMemoryBarrierWithGroupSync InterlockedAdd
InterlockedCompareExchange SV_Position SV_Target`)

var mslCertain = fields(`
alignas alignof and and_eq asm auto bitand bitor bool break case catch char char16_t char32_t class compl const constexpr
const_cast continue decltype default delete do double dynamic_cast else enum explicit export extern false float for friend
goto if inline int long mutable namespace new noexcept not not_eq nullptr operator or or_eq private protected public
register reinterpret_cast return short signed sizeof static static_assert static_cast struct switch template this
thread_local throw true try typedef typeid typename union unsigned using virtual void volatile wchar_t while xor xor_eq
kernel vertex fragment device constant threadgroup thread half
`)

// names the metal namespace declares; "using namespace metal;" makes a global
// user declaration of the same name ambiguous with them.
var mslNamespace = fields(`metal uint ushort uchar size_t float2 float3 float4 half2 half3 half4 int2 int3 int4 uint2 uint3 uint4 bool2
bool3 bool4 float2x2 float3x3 float4x4 float4x3 half4x4 packed_float3 packed_float4 texture2d texture3d texturecube
texture2d_array depth2d sampler atomic_uint atomic_int array access coord filter address mem_flags min max abs clamp select
dot cross length normalize distance mix fma floor ceil trunc round rint fract sign step smoothstep pow exp exp2 log log2
sqrt rsqrt sin cos tan as_type saturate threadgroup_barrier atomic_fetch_add_explicit memory_order_relaxed
numeric_limits is_same vec`)

var glslCertain = fields(`
const uniform buffer shared attribute varying coherent volatile restrict readonly writeonly atomic_uint layout centroid flat
smooth noperspective patch sample invariant precise break continue do for while switch case default if else subroutine in
out inout int void bool true false float double discard return vec2 vec3 vec4 ivec2 ivec3 ivec4 bvec2 bvec3 bvec4 uint uvec2
uvec3 uvec4 dvec2 dvec3 dvec4 mat2 mat3 mat4 mat2x2 mat2x3 mat2x4 mat3x2 mat3x3 mat3x4 mat4x2 mat4x3 mat4x4 dmat2 dmat3 dmat4
lowp mediump highp precision sampler1D sampler2D sampler3D samplerCube sampler2DShadow samplerCubeShadow sampler2DArray
sampler2DArrayShadow isampler2D usampler2D sampler2DMS samplerBuffer image2D iimage2D uimage2D image3D imageCube imageBuffer
struct
common partition active asm class union enum typedef template this resource goto inline noinline public static extern
external interface long short half fixed unsigned superp input output hvec2 hvec3 hvec4 fvec2 fvec3 fvec4 filter sizeof cast
namespace using sampler3DRect
gl_Position gl_FragCoord gl_GlobalInvocationID gl_foo gl_ gl_VertexID a__b __a x__ a__1
`)

var glslBuiltins = fields(`abs all any atan barrier ceil clamp cos cross degrees determinant distance dot equal exp exp2 floor fma
fract inversesqrt isinf isnan ldexp length lessThan log log2 max min mix mod modf normalize not pow radians reflect refract
round roundEven sign sin smoothstep sqrt step tan tanh transpose trunc uintBitsToFloat floatBitsToInt floatBitsToUint
intBitsToFloat bitCount bitfieldExtract bitfieldInsert findLSB findMSB memoryBarrier groupMemoryBarrier atomicAdd
texture texelFetch textureSize imageLoad imageStore main`)

var nagaHelpers = fields(`naga_div naga_mod naga_f2i32 naga_f2u32 naga_abs naga_neg naga_modf naga_frexp naga_extractBits
naga_insertBits _naga_modf_result_f32 _naga_frexp_result_f32 _e1 _e2 _e3 _e5 _e7 _e12 _e20 _expr1 type_1 type_3 type_5 local local_1
loop_bound loop_init main main_ main_1 ret arg0 arg_0 member member_1 DefaultConstructible _buffer_sizes _mslBufferSizes
NagaConstants _NagaConstants nagaSamplerHeap nagaComparisonSamplerHeap nagaGroup0SamplerIndexArray ZeroValue
ZeroValuearray4_int_ Constructarray4_int_ ConstructParams ConstructS fragmentinput_main vertexinput computeinput
FragmentInput_main FragmentOutput_main VertexOutput _group_0_binding_0_cs _group_0_binding_0_fs _vs2fs_location0
_fs2p_location0 _p2vs_location0 global global_1 unnamed unnamed_1 param param_1 _tmp tmp _result should_continue
inverse outerProduct isinf isnan continue_ctx loop_break switch_break num_workgroups first_workgroup first_vertex first_instance __local_invocation_index
__global_invocation_id _ArrayLength NagaBufferLength NagaBufferLengthRW NagaDimensions2D oob naga_oob u00e9 u0394 a_b`)

var caseVariants = fields(`Float FLOAT Int Main MAIN Void Texture TEXTURE Sample SAMPLE Half HALF Kernel Vertex Fragment Device Buffer
Struct If For Return Static Const Uniform Shared Layout Precision Discard Input Output`)

var digitUnderscore = fields(`a a_ a_1 a1 a__1 a1_ a_1_ _a _a1 a_2 a2 a_1_1 a11 x1 x_1 x1_1 v3 v3_ v_3 _1x`)

var unicodeNames = []string{"é", "Δ", "é_1", "Δx", "xé", "変数", "αβ", "а", "ａ",
	"ñ_", "ü1", "éé", "Δ_Δ", "\U0001d4b3"}

// AdvWord is one spelling of the adversarial pool.
type AdvWord struct {
	Text  string
	Class string // hlsl-keyword hlsl-contextual hlsl-intrinsic msl-keyword msl-namespace glsl-keyword glsl-builtin helper case digits unicode wgsl-builtin-fn
}

var advPool []AdvWord

var (
	hlslCertainSet  = toSet(hlslCertain)
	mslCertainSet   = toSet(mslCertain)
	glslCertainSet  = toSet(glslCertain)
	mslNamespaceSet = toSet(mslNamespace)
)

func init() {
	add := func(class string, words []string) {
		for _, w := range words {
			if ValidWGSLName(w) {
				advPool = append(advPool, AdvWord{w, class})
			}
		}
	}
	add("hlsl-keyword", hlslCertain)
	add("hlsl-contextual", hlslContextual)
	add("hlsl-intrinsic", hlslIntrinsics)
	add("msl-keyword", mslCertain)
	add("msl-namespace", mslNamespace)
	add("glsl-keyword", glslCertain)
	add("glsl-builtin", glslBuiltins)
	add("helper", nagaHelpers)
	add("case", caseVariants)
	add("digits", digitUnderscore)
	add("unicode", unicodeNames)
	// predeclared WGSL function names: a module-scope function may shadow them (drawn for function
	// declarations only, and only when the program does not mention the name, see AdversarialRenaming)
	for _, w := range wgslBuiltinFns {
		advPool = append(advPool, AdvWord{w, "wgsl-builtin-fn"})
	}
}

var wgslBuiltinFns = fields(`step min max abs clamp mix dot cross length select all any fma pow sign floor ceil sqrt exp exp2 log log2
sin cos tan asin acos atan atan2 sinh cosh tanh normalize distance reflect refract faceForward smoothstep saturate trunc fract round
inverseSqrt degrees radians ldexp modf frexp countOneBits countLeadingZeros countTrailingZeros reverseBits firstLeadingBit firstTrailingBit
extractBits insertBits pack4x8unorm pack4x8snorm pack2x16float unpack4x8unorm unpack2x16float transpose determinant arrayLength
atomicAdd atomicSub atomicLoad atomicStore atomicMax atomicMin atomicAnd atomicOr atomicXor atomicExchange atomicCompareExchangeWeak
textureLoad textureStore textureSample textureSampleLevel textureDimensions textureNumLevels textureGather
workgroupBarrier storageBarrier textureBarrier workgroupUniformLoad dpdx dpdy fwidth dot4U8Packed quantizeToF16`)

// ValidWGSLName reports whether s may be declared by a WGSL program without
// touching anything predeclared: an identifier that is no keyword, reserved
// word or predeclared name, is not "_" and does not start with "__".
func ValidWGSLName(s string) bool {
	if s == "" || s == "_" || strings.HasPrefix(s, "__") || keywords[s] || reserved[s] || predecl[s] {
		return false
	}
	for i, r := range s {
		if i == 0 {
			if r != '_' && !IsXIDStart(r) {
				return false
			}
		} else if !IsXIDContinue(r) {
			return false
		}
	}
	return true
}

// CertainKeyword reports whether word is certainly illegal as an identifier
// in the target language ("hlsl", "msl", "glsl").
func CertainKeyword(backend, word string) bool {
	switch backend {
	case "hlsl":
		return hlslCertainSet[word]
	case "msl":
		return mslCertainSet[word]
	case "glsl":
		return glslCertainSet[word] || strings.Contains(word, "__") || strings.HasPrefix(word, "gl_")
	}
	return false
}

// MSLNamespaceName reports whether the metal namespace declares word.
func MSLNamespaceName(word string) bool { return mslNamespaceSet[word] }

// AdvPool returns the adversarial pool (read-only).
func AdvPool() []AdvWord { return advPool }

// Renaming is one entry of an adversarial renaming.
type Renaming struct {
	Old   string   `json:"old"`
	New   string   `json:"new"`
	Class string   `json:"class"` // pool class of New
	Roles []string `json:"roles"` // what Old names: struct member fn entry param local global alias
}

// RoleNames returns the kinds of entity the user name denotes in f.
func (f *File) RoleNames(name string) []string {
	var out []string
	for r := range f.Names[name] {
		switch r {
		case RoleDeclFn:
			out = append(out, "fn")
		case RoleDeclStruct:
			out = append(out, "struct")
		case RoleDeclMember:
			out = append(out, "member")
		case RoleDeclParam:
			out = append(out, "param")
		case RoleDeclLocal:
			out = append(out, "local")
		case RoleDeclGlobal:
			out = append(out, "global")
		case RoleDeclAlias:
			out = append(out, "alias")
		}
	}
	for _, d := range f.Decls {
		if d.Kind == "fn" && d.Stage != "" && f.Toks[d.Name].Text == name {
			out = append(out, "entry")
		}
	}
	sort.Strings(out)
	return out
}

// RenameableAdv is Renameable with entry point names included.
func (f *File) RenameableAdv() []string {
	if !f.Structured {
		return nil
	}
	out := f.Renameable()
	have := toSet(out)
	for _, d := range f.Decls {
		if d.Kind == "fn" && d.Stage != "" {
			n := f.Toks[d.Name].Text
			if !have[n] && !predecl[n] && !IsSwizzleName(n) {
				out = append(out, n)
				have[n] = true
			}
		}
	}
	sort.Strings(out)
	return out
}

// AdversarialRenaming draws an injective renaming of user names of f into
// the adversarial pool.  prefer lists pool classes drawn more often (the
// backend under test); veto, when non-nil, refuses a (word, roles) pair.
// The result is nil when the program offers no renameable name.
func (f *File) AdversarialRenaming(t *rapid.T, prefer []string, veto func(w AdvWord, roles []string) bool) (string, []Renaming) {
	names := f.RenameableAdv()
	if len(names) == 0 {
		return "", nil
	}
	used := map[string]bool{}
	for _, tk := range f.Toks {
		used[tk.Text] = true
	}
	var preferred []AdvWord
	for _, w := range advPool {
		for _, p := range prefer {
			if w.Class == p {
				preferred = append(preferred, w)
			}
		}
	}
	k := rapid.IntRange(1, min(len(names), 8)).Draw(t, "renamed")
	if k < 3 && len(names) >= 3 && rapid.Bool().Draw(t, "atLeast3") {
		k = 3
	}
	perm := rapid.Permutation(names).Draw(t, "order")
	mapping := map[string]string{}
	var out []Renaming
	for _, old := range perm {
		if len(out) >= k {
			break
		}
		roles := f.RoleNames(old)
		for try := 0; try < 6; try++ {
			var w AdvWord
			if len(preferred) > 0 && rapid.IntRange(0, 9).Draw(t, "preferred") < 5 {
				w = preferred[rapid.IntRange(0, len(preferred)-1).Draw(t, "word")]
			} else {
				w = advPool[rapid.IntRange(0, len(advPool)-1).Draw(t, "word")]
			}
			if used[w.Text] || (veto != nil && veto(w, roles)) {
				continue
			}
			if w.Class == "wgsl-builtin-fn" && !(len(roles) == 1 && roles[0] == "fn") {
				continue // shadowing a predeclared function is only exercised with a function
			}
			used[w.Text] = true
			mapping[old] = w.Text
			out = append(out, Renaming{Old: old, New: w.Text, Class: w.Class, Roles: roles})
			break
		}
	}
	if len(out) == 0 {
		return "", nil
	}
	text, ok := f.RenameWith(mapping)
	if !ok {
		return "", nil
	}
	return text, out
}
