// Package mgen is a small typed generator of valid WGSL programs used by the
// metamorphic checks (C19, C11) until a richer generator is plugged in.  It
// aims at syntactic variety (nested template lists, every statement form,
// helper functions, @must_use, resources, swizzles, const divisions) rather
// than at semantic depth; programs are never executed.
//
// Const-expression hygiene: integer literals are 0..9 and expression depth is
// bounded so that no abstract or concrete constant expression can overflow;
// u32 values are never subtracted or negated; divisors and shift counts are
// non-zero small literals; '<<' is applied to variables only.
package mgen

import (
	"fmt"
	"strings"

	"pgregory.net/rapid"
)

type ty struct {
	s string // i32 u32 f32 bool
	n int    // 1 scalar, 2..4 vector
}

var (
	tI32  = ty{"i32", 1}
	tU32  = ty{"u32", 1}
	tF32  = ty{"f32", 1}
	tBool = ty{"bool", 1}
)

func (t ty) vec() bool     { return t.n > 1 }
func (t ty) numeric() bool { return t.s != "bool" }
func (t ty) integer() bool { return t.s == "i32" || t.s == "u32" }

type variable struct {
	name    string
	t       ty
	mutable bool
	isConst bool
}

type fnSig struct {
	name    string
	params  []ty
	ret     *ty
	mustUse bool
	ptr     bool // single parameter of type ptr<function, i32>
}

type gen struct {
	t      *rapid.T
	b      strings.Builder
	names  map[string]bool
	scopes [][]variable
	fns    []fnSig
	late   []string // function declarations emitted after everything else
	hasU   bool // uniform struct available
	hasBuf bool
	hasPriv, hasGrid,
	hasWG bool
	inLoop   int
	compute  bool
	retTy    *ty
	stmtBudg int
}

var namePool = []string{"acc", "tmp", "val", "idx", "sum", "cur", "lhs", "rhs", "total", "delta", "scale",
	"count", "mask", "bias", "gain", "step_v", "lim", "base", "flag", "res", "coord", "tint", "w_a", "k", "n", "t_v", "m", "p", "q", "e"}

func (g *gen) fresh(hint string) string {
	base := hint
	if base == "" {
		base = rapid.SampledFrom(namePool).Draw(g.t, "name")
	}
	name := base
	for i := 0; g.names[name]; i++ {
		name = fmt.Sprintf("%s_%c", base, 'a'+i%26)
		if i >= 26 {
			name = fmt.Sprintf("%s_%c%d", base, 'a'+i%26, i/26)
		}
	}
	g.names[name] = true
	return name
}

func (g *gen) intn(lo, hi int, label string) int { return rapid.IntRange(lo, hi).Draw(g.t, label) }
func (g *gen) chance(pct int) bool               { return g.intn(0, 99, "pct") < pct }
func (g *gen) pick(s []string) string            { return rapid.SampledFrom(s).Draw(g.t, "pick") }

func (g *gen) tyText(t ty) string {
	if !t.vec() {
		return t.s
	}
	if t.s != "bool" && g.chance(35) {
		return fmt.Sprintf("vec%d%c", t.n, t.s[0])
	}
	sp := ""
	if g.chance(10) {
		sp = " "
	}
	return fmt.Sprintf("vec%d<%s%s>", t.n, t.s, sp)
}

func (g *gen) push() { g.scopes = append(g.scopes, nil) }
func (g *gen) pop()  { g.scopes = g.scopes[:len(g.scopes)-1] }
func (g *gen) declare(v variable) {
	g.scopes[len(g.scopes)-1] = append(g.scopes[len(g.scopes)-1], v)
}

func (g *gen) varsOf(t ty, mutableOnly bool) []variable {
	var out []variable
	for _, s := range g.scopes {
		for _, v := range s {
			if v.t == t && (!mutableOnly || v.mutable) {
				out = append(out, v)
			}
		}
	}
	return out
}

func (g *gen) lit(t ty) string {
	switch t.s {
	case "i32":
		return g.pick([]string{"0", "1", "2", "3", "5", "7", "9", "4i", "0x7", "0x1i", "8"})
	case "u32":
		return g.pick([]string{"0u", "1u", "2u", "3u", "5u", "7u", "9u", "0xFu", "0x1u", "8u"})
	case "f32":
		return g.pick([]string{"0.0", "1.0", "2.5", "0.5f", "3.", "0.25", "1e1", "2.0e-1", "4f", "1.5", "7.0"})
	}
	return g.pick([]string{"true", "false"})
}

// expr produces an expression of type t.
func (g *gen) expr(t ty, depth int) string {
	if t.vec() {
		return g.vecExpr(t, depth)
	}
	if depth <= 0 || g.chance(25) {
		return g.leaf(t)
	}
	switch t.s {
	case "bool":
		switch g.intn(0, 5, "boolop") {
		case 0:
			nt := []ty{tI32, tU32, tF32}[g.intn(0, 2, "cmpty")]
			op := g.pick([]string{"<", ">", "<=", ">=", "==", "!="})
			return fmt.Sprintf("(%s %s %s)", g.expr(nt, depth-1), op, g.expr(nt, depth-1))
		case 1:
			op := g.pick([]string{"&&", "||"})
			if g.chance(40) {
				// a chain of one operator, with or without the (redundant) parentheses of its left group
				n := g.intn(3, 4, "chain")
				e := g.atom(tBool, depth-1)
				for i := 1; i < n; i++ {
					if i == 1 || g.chance(50) {
						e = fmt.Sprintf("%s %s %s", e, op, g.atom(tBool, depth-1))
					} else {
						e = fmt.Sprintf("(%s) %s %s", e, op, g.atom(tBool, depth-1))
					}
				}
				return "(" + e + ")"
			}
			return fmt.Sprintf("(%s %s %s)", g.expr(tBool, depth-1), op, g.expr(tBool, depth-1))
		case 2:
			return "!" + g.atom(tBool, depth-1)
		case 3:
			vt := ty{"f32", g.intn(2, 4, "n")}
			vs := g.varsOf(vt, false)
			if len(vs) == 0 {
				return g.leaf(t)
			}
			return fmt.Sprintf("%s(%s %s %s)", g.pick([]string{"all", "any"}), vs[g.intn(0, len(vs)-1, "v")].name, g.pick([]string{"<", ">="}), g.vecExpr(vt, depth-1))
		default:
			return g.leaf(t)
		}
	default:
		switch g.intn(0, 9, "numop") {
		case 0, 1, 2:
			ops := []string{"+", "*"}
			if t.s != "u32" {
				ops = append(ops, "-")
			}
			if t.integer() {
				ops = append(ops, "&", "|", "^")
			}
			op := g.pick(ops)
			if op == "&" || op == "|" || op == "^" {
				return fmt.Sprintf("(%s %s %s)", g.expr(t, depth-1), op, g.expr(t, depth-1))
			}
			return fmt.Sprintf("%s %s %s", g.atom(t, depth-1), op, g.atom(t, depth-1))
		case 3:
			d := g.pick([]string{"1", "2", "3", "7"})
			switch t.s {
			case "u32":
				d += "u"
			case "f32":
				d += ".0"
			}
			return fmt.Sprintf("%s %s %s", g.atom(t, depth-1), g.pick([]string{"/", "%"}), d)
		case 4:
			if t.integer() {
				if vs := g.varsOf(t, false); len(vs) > 0 && g.chance(50) {
					v := vs[g.intn(0, len(vs)-1, "v")]
					if !v.isConst {
						return fmt.Sprintf("(%s << %du)", v.name, g.intn(0, 7, "sh"))
					}
				}
				return fmt.Sprintf("(%s >> %du)", g.expr(t, depth-1), g.intn(0, 7, "sh"))
			}
			return fmt.Sprintf("%s(%s)", g.pick([]string{"floor", "abs", "fract", "sin", "cos", "ceil", "trunc"}), g.expr(t, depth-1))
		case 5:
			if t.s == "u32" {
				return fmt.Sprintf("%s(%s, %s)", g.pick([]string{"min", "max"}), g.expr(t, depth-1), g.expr(t, depth-1))
			}
			return fmt.Sprintf("%s(%s, %s)", g.pick([]string{"min", "max"}), g.expr(t, depth-1), g.expr(t, depth-1))
		case 6:
			return fmt.Sprintf("select(%s, %s, %s)", g.expr(t, depth-1), g.expr(t, depth-1), g.expr(tBool, depth-1))
		case 7:
			if t.s == "f32" {
				vt := ty{"f32", g.intn(2, 4, "n")}
				if g.chance(50) {
					return fmt.Sprintf("dot(%s, %s)", g.vecExpr(vt, depth-1), g.vecExpr(vt, depth-1))
				}
				return fmt.Sprintf("length(%s)", g.vecExpr(vt, depth-1))
			}
			if t.s == "i32" {
				return "-" + g.atomNoNeg(t, depth-1)
			}
			return fmt.Sprintf("clamp(%s, %s, %s)", g.expr(t, depth-1), "1u", "9u")
		case 8:
			// conversion
			from := []ty{tI32, tU32, tF32}[g.intn(0, 2, "from")]
			if from == t {
				return g.leaf(t)
			}
			if vs := g.varsOf(from, false); len(vs) > 0 {
				return fmt.Sprintf("%s(%s)", t.s, vs[g.intn(0, len(vs)-1, "v")].name)
			}
			return g.leaf(t)
		default:
			if c := g.call(t, depth); c != "" {
				return c
			}
			return g.leaf(t)
		}
	}
}

// atom is an expression safe as an operand of a tighter-binding operator.
func (g *gen) atom(t ty, depth int) string {
	e := g.expr(t, depth)
	if simple(e) {
		return e
	}
	return "(" + e + ")"
}

func (g *gen) atomNoNeg(t ty, depth int) string {
	e := g.atom(t, depth)
	if strings.HasPrefix(e, "-") {
		return "(" + e + ")"
	}
	return e
}

func simple(e string) bool {
	depth := 0
	for i := 0; i < len(e); i++ {
		switch c := e[i]; {
		case c == '(' || c == '[':
			depth++
		case c == ')' || c == ']':
			depth--
		case depth == 0 && strings.IndexByte(" +-*/%&|^<>=!", c) >= 0:
			// exponent signs inside float literals are fine, anything else is not
			if (c == '-' || c == '+') && i > 0 && (e[i-1] == 'e' || e[i-1] == 'p') && i > 1 && e[i-2] >= '0' && e[i-2] <= '9' {
				continue
			}
			if c == '<' || c == '>' {
				// template brackets of a constructor: vec2<f32>(...)
				continue
			}
			return false
		}
	}
	return true
}

func (g *gen) call(t ty, depth int) string {
	var cands []fnSig
	for _, f := range g.fns {
		if f.ret != nil && *f.ret == t && !f.ptr {
			cands = append(cands, f)
		}
	}
	if len(cands) == 0 {
		return ""
	}
	f := cands[g.intn(0, len(cands)-1, "fn")]
	var args []string
	for _, p := range f.params {
		args = append(args, g.expr(p, depth-1))
	}
	return fmt.Sprintf("%s(%s)", f.name, strings.Join(args, ", "))
}

func (g *gen) leaf(t ty) string {
	if t.vec() {
		return g.vecExpr(t, 0)
	}
	r := g.intn(0, 9, "leaf")
	if r < 5 {
		if vs := g.varsOf(t, false); len(vs) > 0 {
			return vs[g.intn(0, len(vs)-1, "v")].name
		}
	}
	if r == 5 || r == 6 {
		// component of a vector variable
		for n := 2; n <= 4; n++ {
			if vs := g.varsOf(ty{t.s, n}, false); len(vs) > 0 && g.chance(60) {
				v := vs[g.intn(0, len(vs)-1, "v")]
				comp := "xyzw"
				if g.chance(30) {
					comp = "rgba"
				}
				return fmt.Sprintf("%s.%c", v.name, comp[g.intn(0, n-1, "c")])
			}
		}
	}
	if r == 7 {
		switch {
		case t == tF32 && g.hasU:
			return g.pick([]string{"params.scale", "params.offset.x", "params.offset.y", "params.weights[1].z", "params.weights[0].x"})
		case t == tU32 && g.hasU:
			return g.pick([]string{"params.count", "arrayLength(&data)", "data[0]", "data[params.count % 4u]"})
		case t == tI32 && g.hasPriv:
			return g.pick([]string{"scratch[0]", "scratch[3]", "scratch[1 + 1]"})
		}
	}
	return g.lit(t)
}

func (g *gen) vecExpr(t ty, depth int) string {
	if vs := g.varsOf(t, false); len(vs) > 0 && g.chance(45) {
		return vs[g.intn(0, len(vs)-1, "v")].name
	}
	sc := ty{t.s, 1}
	if depth > 0 && t.numeric() {
		switch g.intn(0, 7, "vecop") {
		case 0:
			ops := []string{"+", "*"}
			if t.s != "u32" {
				ops = append(ops, "-")
			}
			return fmt.Sprintf("(%s %s %s)", g.vecExpr(t, depth-1), g.pick(ops), g.vecExpr(t, depth-1))
		case 1:
			return fmt.Sprintf("(%s * %s)", g.vecExpr(t, depth-1), g.atom(sc, depth-1))
		case 2:
			// swizzle of a wider or equal vector variable
			for n := t.n; n <= 4; n++ {
				if vs := g.varsOf(ty{t.s, n}, false); len(vs) > 0 {
					v := vs[g.intn(0, len(vs)-1, "v")]
					set := "xyzw"
					if g.chance(30) {
						set = "rgba"
					}
					var sw strings.Builder
					for k := 0; k < t.n; k++ {
						sw.WriteByte(set[g.intn(0, n-1, "c")])
					}
					return v.name + "." + sw.String()
				}
			}
		case 3:
			if t.s == "f32" {
				return fmt.Sprintf("%s(%s, %s)", g.pick([]string{"min", "max"}), g.vecExpr(t, depth-1), g.vecExpr(t, depth-1))
			}
		case 4:
			if t.s == "f32" && t.n == 4 && g.hasBuf {
				return g.pick([]string{"inp[0]", "inp[7]", "inp[params.count % 8u]", "params.weights[0]"})
			}
		}
	}
	if g.hasGrid && t == (ty{"f32", 2}) && g.chance(25) {
		return g.pick([]string{"grid[0][1]", "grid[2][0]", "grid[1][1 - 1]"})
	}
	// constructor
	var args []string
	switch {
	case g.chance(20):
		args = []string{g.expr(sc, depth-1)}
	case t.n >= 3 && g.chance(25):
		args = []string{g.vecExpr(ty{t.s, t.n - 1}, depth-1), g.expr(sc, depth-1)}
	default:
		for k := 0; k < t.n; k++ {
			args = append(args, g.expr(sc, depth-1))
		}
	}
	return fmt.Sprintf("%s(%s)", g.tyText(t), strings.Join(args, ", "))
}

func (g *gen) wgIndex() []string {
	out := []string{"0", "15u"}
	if len(g.varsOf(tU32, false)) > 0 {
		for _, sc := range g.scopes {
			for _, v := range sc {
				if v.name == "lid" {
					out = append(out, "lid % 16u")
				}
			}
		}
	}
	return out
}

func (g *gen) randTy(allowBool bool) ty {
	base := []ty{tI32, tU32, tF32, tF32, tI32}
	if allowBool {
		base = append(base, tBool)
	}
	t := base[g.intn(0, len(base)-1, "ty")]
	if t.numeric() && g.chance(35) {
		t.n = g.intn(2, 4, "n")
	}
	return t
}

func (g *gen) line(ind int, format string, a ...any) {
	g.b.WriteString(strings.Repeat("    ", ind))
	fmt.Fprintf(&g.b, format, a...)
	g.b.WriteByte('\n')
}

func (g *gen) block(ind, n, depth int) {
	g.push()
	for i := 0; i < n; i++ {
		g.stmt(ind, depth)
	}
	g.pop()
}

func (g *gen) stmt(ind, depth int) {
	g.stmtBudg--
	kind := g.intn(0, 17, "stmt")
	if depth <= 0 || g.stmtBudg <= 0 {
		kind %= 8
	}
	switch kind {
	case 0, 1:
		if len(g.fns) > 0 && g.chance(30) {
			// bind the result of a helper call (often a @must_use one)
			var cands []fnSig
			for _, f := range g.fns {
				if f.ret != nil && !f.ptr {
					cands = append(cands, f)
				}
			}
			if len(cands) > 0 {
				f := cands[g.intn(0, len(cands)-1, "fn")]
				var args []string
				for _, p := range f.params {
					args = append(args, g.expr(p, 1))
				}
				name := g.fresh("")
				if g.chance(50) {
					g.line(ind, "let %s = %s(%s);", name, f.name, strings.Join(args, ", "))
				} else {
					g.line(ind, "var %s: %s = %s(%s);", name, g.tyText(*f.ret), f.name, strings.Join(args, ", "))
				}
				g.declare(variable{name: name, t: *f.ret})
				return
			}
		}
		t := g.randTy(true)
		name := g.fresh("")
		e := g.expr(t, 2)
		if t.vec() || g.chance(50) {
			g.line(ind, "let %s: %s = %s;", name, g.tyText(t), e)
		} else {
			// inferred type: make the initialiser concrete
			g.line(ind, "let %s = %s(%s);", name, t.s, e)
		}
		g.declare(variable{name: name, t: t})
	case 2, 3:
		if g.chance(15) {
			name := g.fresh("cells")
			sp := g.pick([]string{" ", " ", ""})
			g.line(ind, "var %s: array<i32, 2>%s= array<i32, 2>(%s, %s);", name, sp, g.expr(tI32, 1), g.expr(tI32, 1))
			g.line(ind, "%s[1] = %s[0] + %s;", name, name, g.expr(tI32, 1))
			return
		}
		t := g.randTy(true)
		name := g.fresh("")
		switch g.intn(0, 2, "varform") {
		case 0:
			g.line(ind, "var %s: %s = %s;", name, g.tyText(t), g.expr(t, 2))
		case 1:
			g.line(ind, "var %s: %s;", name, g.tyText(t))
		default:
			g.line(ind, "var<function> %s: %s = %s;", name, g.tyText(t), g.expr(t, 1))
		}
		g.declare(variable{name: name, t: t, mutable: true})
	case 4, 5:
		t := g.randTy(true)
		vs := g.varsOf(t, true)
		if len(vs) == 0 {
			g.line(ind, "_ = %s;", g.expr(t, 2))
			return
		}
		v := vs[g.intn(0, len(vs)-1, "v")]
		switch {
		case t.vec() && g.chance(40):
			g.line(ind, "%s.%c = %s;", v.name, "xyzw"[g.intn(0, t.n-1, "c")], g.expr(ty{t.s, 1}, 2))
		case t.numeric() && !t.vec() && g.chance(40):
			ops := []string{"+=", "*="}
			if t.s != "u32" {
				ops = append(ops, "-=")
			}
			if t.integer() {
				ops = append(ops, "&=", "|=", "^=", ">>=")
			}
			op := g.pick(ops)
			if op == ">>=" {
				g.line(ind, "%s >>= %du;", v.name, g.intn(0, 7, "sh"))
			} else {
				g.line(ind, "%s %s %s;", v.name, op, g.expr(t, 2))
			}
		case t.integer() && !t.vec() && g.chance(30):
			g.line(ind, "%s%s;", v.name, g.pick([]string{"++", "--"}))
		default:
			g.line(ind, "%s = %s;", v.name, g.expr(t, 2))
		}
	case 6:
		switch {
		case g.hasPriv && g.chance(50):
			g.line(ind, "scratch[%s] = %s;", g.pick([]string{"0", "1", "2", "3", "1 + 2"}), g.expr(tI32, 2))
		case g.hasBuf && g.chance(60):
			g.line(ind, "data[%s] = %s;", g.pick([]string{"0", "1u", "params.count % 4u"}), g.expr(tU32, 2))
		case g.hasWG && g.compute:
			g.line(ind, "shared_vals[%s] = %s;", g.pick(g.wgIndex()), g.expr(tU32, 2))
		default:
			g.line(ind, "_ = %s;", g.expr(g.randTy(true), 2))
		}
	case 7:
		// call statement / pointer helper
		for _, f := range g.fns {
			if f.ptr {
				if vs := g.varsOf(tI32, true); len(vs) > 0 {
					g.line(ind, "%s(&%s);", f.name, vs[g.intn(0, len(vs)-1, "v")].name)
					return
				}
			}
		}
		for _, f := range g.fns {
			if f.ret == nil && !f.ptr {
				var args []string
				for _, p := range f.params {
					args = append(args, g.expr(p, 1))
				}
				g.line(ind, "%s(%s);", f.name, strings.Join(args, ", "))
				return
			}
		}
		g.line(ind, "_ = %s;", g.expr(tF32, 2))
	case 8, 9:
		c := g.expr(tBool, 2)
		if g.chance(40) {
			c = "(" + c + ")"
		}
		g.line(ind, "if %s {", c)
		g.block(ind+1, g.intn(1, 3, "n"), depth-1)
		if g.chance(40) {
			g.line(ind, "} else if %s {", g.expr(tBool, 1))
			g.block(ind+1, g.intn(1, 2, "n"), depth-1)
		}
		if g.chance(50) {
			g.line(ind, "} else {")
			g.block(ind+1, g.intn(1, 2, "n"), depth-1)
		}
		g.line(ind, "}")
	case 10:
		i := g.fresh("i")
		it := []ty{tI32, tU32}[g.intn(0, 1, "ity")]
		zero, lim := "0", "4"
		if it == tU32 {
			zero, lim = "0u", "4u"
		}
		upd := g.pick([]string{i + "++", i + " += 1", i + " = " + i + " + 1"})
		if it == tU32 {
			upd = strings.ReplaceAll(upd, "1", "1u")
		}
		g.line(ind, "for (var %s = %s; %s < %s; %s) {", i, zero, i, lim, upd)
		g.push()
		g.declare(variable{name: i, t: it})
		g.inLoop++
		g.block(ind+1, g.intn(1, 3, "n"), depth-1)
		if g.chance(25) {
			g.line(ind+1, "if %s { %s; }", g.expr(tBool, 1), g.pick([]string{"break", "continue"}))
		}
		g.inLoop--
		g.pop()
		g.line(ind, "}")
	case 11:
		c := g.fresh("guard")
		g.line(ind, "var %s = 0u;", c)
		g.declare(variable{name: c, t: tU32, mutable: false})
		g.line(ind, "while %s < 3u && %s {", c, g.expr(tBool, 1))
		g.inLoop++
		g.block(ind+1, g.intn(1, 2, "n"), depth-1)
		g.line(ind+1, "%s += 1u;", c)
		g.inLoop--
		g.line(ind, "}")
	case 12, 13:
		c := g.fresh("turns")
		g.line(ind, "var %s: i32 = 0;", c)
		g.declare(variable{name: c, t: tI32, mutable: false})
		g.line(ind, "loop {")
		g.inLoop++
		g.push()
		if g.chance(50) {
			g.line(ind+1, "if %s > 5 { break; }", c)
		}
		n := g.intn(1, 2, "n")
		for k := 0; k < n; k++ {
			g.stmt(ind+1, depth-1)
		}
		g.line(ind+1, "continuing {")
		g.push()
		if g.chance(40) {
			// the step is computed by a helper that is declared at the END of the module and
			// called from nowhere else (forward reference out of a continuing block)
			nm := g.fresh("advance")
			g.late = append(g.late, fmt.Sprintf("fn %s(v: i32, by: i32) -> i32 {\n    return v + by;\n}\n", nm))
			g.line(ind+2, "%s = %s(%s, 1);", c, nm, c)
		} else {
			g.line(ind+2, "%s = %s + 1;", c, c)
		}
		if g.chance(60) {
			g.contStmt(ind + 2)
		}
		if g.chance(60) {
			g.line(ind+2, "break if %s >= 4;", c)
		}
		g.pop()
		g.line(ind+1, "}")
		g.pop()
		g.inLoop--
		g.line(ind, "}")
	case 14:
		if g.inLoop == 0 {
			// naga's validator is known to refuse 'break' in a switch outside a loop in
			// helpers; a switch inside a loop is the common form anyway.
			g.line(ind, "_ = %s;", g.expr(tU32, 2))
			return
		}
		st := []ty{tI32, tU32}[g.intn(0, 1, "sty")]
		suffix := ""
		if st == tU32 {
			suffix = "u"
		}
		g.line(ind, "switch %s {", g.expr(st, 1))
		used := map[int]bool{}
		for k := g.intn(1, 3, "cases"); k > 0; k-- {
			var sel []string
			for m := g.intn(1, 2, "sels"); m > 0; m-- {
				v := g.intn(0, 9, "sel")
				if used[v] {
					continue
				}
				used[v] = true
				sel = append(sel, fmt.Sprintf("%d%s", v, suffix))
			}
			if len(sel) == 0 {
				continue
			}
			colon := g.pick([]string{":", ":", ""})
			g.line(ind+1, "case %s%s {", strings.Join(sel, ", "), colon)
			g.block(ind+2, g.intn(1, 2, "n"), depth-1)
			g.line(ind+1, "}")
		}
		g.line(ind+1, "default%s {", g.pick([]string{":", ""}))
		g.block(ind+2, g.intn(0, 1, "n"), depth-1)
		g.line(ind+1, "}")
		g.line(ind, "}")
	case 15:
		g.line(ind, "{")
		g.block(ind+1, g.intn(1, 3, "n"), depth-1)
		g.line(ind, "}")
	case 16:
		name := g.fresh("")
		t := []ty{tI32, tU32, tF32}[g.intn(0, 2, "cty")]
		a, b := g.intn(1, 9, "a"), g.intn(1, 9, "b")
		suf := map[string]string{"i32": "", "u32": "u", "f32": ".0"}[t.s]
		op := g.pick([]string{"/", "%"})
		g.line(ind, "const %s: %s = %d%s %s %d%s;", name, t.s, a, suf, op, b, suf)
		g.declare(variable{name: name, t: t, isConst: true})
	default:
		g.line(ind, "const_assert %s;", g.pick([]string{"true", "1 < 2", "CA == 3", "CB + 1u > 0u"}))
	}
}

// contStmt emits a statement suited to a continuing block (uses a @must_use
// helper's result when one exists).
func (g *gen) contStmt(ind int) {
	for _, f := range g.fns {
		if f.mustUse && f.ret != nil && !f.ret.vec() && f.ret.numeric() {
			if vs := g.varsOf(*f.ret, true); len(vs) > 0 {
				var args []string
				for _, p := range f.params {
					args = append(args, g.expr(p, 1))
				}
				g.line(ind, "%s = %s(%s);", vs[g.intn(0, len(vs)-1, "v")].name, f.name, strings.Join(args, ", "))
				return
			}
		}
	}
	g.line(ind, "_ = %s;", g.expr(tF32, 1))
}

func (g *gen) helper(idx int) {
	name := g.fresh(g.pick([]string{"helper", "compute_it", "blend", "fold", "weigh", "shade"}))
	np := g.intn(0, 3, "np")
	g.push()
	var ps []string
	var pts []ty
	for k := 0; k < np; k++ {
		t := g.randTy(true)
		pn := g.fresh("")
		ps = append(ps, fmt.Sprintf("%s: %s", pn, g.tyText(t)))
		pts = append(pts, t)
		g.declare(variable{name: pn, t: t})
	}
	var ret *ty
	if g.chance(80) {
		t := g.randTy(true)
		ret = &t
	}
	mu := ret != nil && g.chance(60)
	attr := ""
	if mu {
		attr = "@must_use\n"
		if g.chance(30) {
			attr = "@must_use "
		}
	}
	trail := ""
	if np > 0 && g.chance(15) {
		trail = ","
	}
	rt := ""
	if ret != nil {
		rt = " -> " + g.tyText(*ret)
	}
	g.line(0, "%sfn %s(%s%s)%s {", attr, name, strings.Join(ps, ", "), trail, rt)
	g.retTy = ret
	g.stmtBudg = 10
	n := g.intn(1, 4, "n")
	g.push()
	for i := 0; i < n; i++ {
		g.stmt(1, 2)
	}
	if ret != nil {
		g.line(1, "return %s;", g.expr(*ret, 2))
	}
	g.pop()
	g.pop()
	g.line(0, "}")
	g.line(0, "")
	g.fns = append(g.fns, fnSig{name: name, params: pts, ret: ret, mustUse: mu})
}

// Program draws a valid WGSL program.
func Program(t *rapid.T) string {
	g := &gen{t: t, names: map[string]bool{"params": true, "data": true, "inp": true, "scratch": true,
		"shared_vals": true, "Params": true, "CA": true, "CB": true, "CF": true, "Vf": true, "main": true,
		"vs_main": true, "fs_main": true, "grid": true, "layer": true, "texel": true, "out": true, "VsOut": true, "pos": true, "gid": true, "lid": true, "tex": true, "samp": true, "uv": true, "vi": true}}
	g.push()
	g.compute = g.chance(65)
	if g.chance(30) {
		g.line(0, "// generated by mgen")
	}
	// constants
	g.line(0, "const CA = 7 / 2;")
	g.line(0, "const CB: u32 = 12u %% 5u;")
	g.line(0, "const CF: f32 = 1.5 / 2.0;")
	g.declare(variable{name: "CA", t: tI32, isConst: true})
	g.declare(variable{name: "CB", t: tU32, isConst: true})
	g.declare(variable{name: "CF", t: tF32, isConst: true})
	if g.chance(50) {
		g.line(0, "const_assert CA == 3;")
	}
	g.line(0, "alias Vf = vec3<f32>;")
	g.line(0, "")
	if g.chance(85) {
		g.hasU, g.hasBuf = true, true
		comma := g.pick([]string{",", ""})
		g.line(0, "struct Params {")
		g.line(1, "scale: f32,")
		g.line(1, "offset: vec2<f32>,")
		g.line(1, "count: u32,")
		g.line(1, "@align(16) weights: array<vec4<f32>, 2>%s", comma)
		g.line(0, "}")
		g.line(0, "")
		g.line(0, "@group(0) @binding(0) var<uniform> params: Params;")
		g.line(0, "@group(0) @binding(1)")
		g.line(0, "var<storage, read_write> data: array<u32>;")
		g.line(0, "@binding(0) @group(1) var<storage, read> inp: array<vec4<f32>, 8>;")
	}
	if g.chance(70) {
		g.hasPriv = true
		g.line(0, "var<private> scratch: array<i32, 4>;")
	}
	if g.chance(50) {
		sp := func() string { return g.pick([]string{"", "", " ", "\n    "}) }
		g.line(0, "var<private> grid: array<array<vec2<f32%s>%s, 2%s>%s, 3%s>;", sp(), sp(), sp(), sp(), sp())
		g.hasGrid = true
	}
	if g.compute && g.chance(60) {
		g.hasWG = true
		g.line(0, "var<workgroup> shared_vals: array<u32, 16>;")
	}
	g.line(0, "")
	// pointer helper
	if g.chance(50) {
		name := g.fresh("bump")
		g.line(0, "fn %s(p: ptr<function, i32>) {", name)
		g.line(1, "*p = *p + 1;")
		g.line(1, "*p = *p - CA;")
		g.line(0, "}")
		g.line(0, "")
		g.fns = append(g.fns, fnSig{name: name, ptr: true})
	}
	for k := g.intn(1, 3, "helpers"); k > 0; k-- {
		g.helper(k)
	}
	if g.compute {
		wg := g.pick([]string{"@workgroup_size(8, 4, 1)", "@workgroup_size(64)", "@workgroup_size(CA, 2)", "@workgroup_size(4,4,)"})
		g.line(0, "@compute %s", wg)
		g.line(0, "fn main(@builtin(global_invocation_id) gid: vec3<u32>, @builtin(local_invocation_index) lid: u32) {")
		g.push()
		g.declare(variable{name: "gid", t: ty{"u32", 3}})
		g.declare(variable{name: "lid", t: tU32})
		g.stmtBudg = 16
		for k := g.intn(2, 6, "n"); k > 0; k-- {
			g.stmt(1, 3)
		}
		if g.hasWG && g.chance(50) {
			g.line(1, "workgroupBarrier();")
		}
		g.pop()
		g.line(0, "}")
	} else {
		g.line(0, "@group(2) @binding(0) var tex: texture_2d<f32>;")
		g.line(0, "@group(2) @binding(1) var samp: sampler;")
		g.line(0, "")
		g.line(0, "struct VsOut {")
		g.line(1, "@builtin(position) pos: vec4<f32>,")
		g.line(1, "@location(0) uv: vec2<f32>,")
		g.line(1, "@location(1) @interpolate(flat) layer: u32,")
		g.line(0, "}")
		g.line(0, "")
		g.line(0, "@vertex")
		g.line(0, "fn vs_main(@builtin(vertex_index) vi: u32) -> VsOut {")
		g.push()
		g.declare(variable{name: "vi", t: tU32})
		g.stmtBudg = 10
		for k := g.intn(1, 4, "n"); k > 0; k-- {
			g.stmt(1, 2)
		}
		g.line(1, "var out: VsOut;")
		g.line(1, "out.pos = %s;", g.vecExpr(ty{"f32", 4}, 2))
		g.line(1, "out.uv = %s;", g.vecExpr(ty{"f32", 2}, 2))
		g.line(1, "out.layer = %s;", g.expr(tU32, 2))
		g.line(1, "return out;")
		g.pop()
		g.line(0, "}")
		g.line(0, "")
		g.line(0, "@fragment")
		g.line(0, "fn fs_main(@location(0) uv: vec2<f32>, @location(1) @interpolate(flat) layer: u32) -> @location(0) vec4<f32> {")
		g.push()
		g.declare(variable{name: "uv", t: ty{"f32", 2}})
		g.declare(variable{name: "layer", t: tU32})
		g.line(1, "let texel: vec4<f32> = textureSample(tex, samp, uv);")
		g.declare(variable{name: "texel", t: ty{"f32", 4}})
		g.stmtBudg = 10
		for k := g.intn(1, 4, "n"); k > 0; k-- {
			g.stmt(1, 2)
		}
		g.line(1, "return %s;", g.vecExpr(ty{"f32", 4}, 2))
		g.pop()
		g.line(0, "}")
	}
	for _, f := range g.late {
		g.line(0, "")
		g.b.WriteString(f)
	}
	return g.b.String()
}
