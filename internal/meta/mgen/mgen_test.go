package mgen

import (
	"regexp"
	"sort"
	"testing"

	"github.com/gogpu/naga"
	"pgregory.net/rapid"
)

var reNum = regexp.MustCompile(`[0-9]+`)

func TestAccepted(t *testing.T) {
	n, bad := 0, 0
	why := map[string]int{}
	sample := map[string]string{}
	rapid.Check(t, func(rt *rapid.T) {
		src := Program(rt)
		n++
		if _, err := naga.Compile(src); err != nil {
			bad++
			k := reNum.ReplaceAllString(err.Error(), "N")
			if len(k) > 120 {
				k = k[:120]
			}
			why[k]++
			if _, ok := sample[k]; !ok {
				sample[k] = err.Error() + "\n" + src
			}
		}
	})
	var ks []string
	for k := range why {
		ks = append(ks, k)
	}
	sort.Slice(ks, func(i, j int) bool { return why[ks[i]] > why[ks[j]] })
	for i, k := range ks {
		t.Logf("%4d  %s", why[k], k)
		if i < 4 {
			t.Logf("%s", sample[k])
		}
	}
	t.Logf("%d programs, %d rejected by naga.Compile", n, bad)
	if bad*10 > n {
		t.Errorf("too many rejected: %d of %d", bad, n)
	}
}
