package meta

import (
	"regexp"
	"sort"
	"strings"

	"pgregory.net/rapid"
)

// Rules lists the rule identifiers of the rule-breaking transformers.
var Rules = []string{
	"undeclared", "callargs", "mustuse", "constassert", "binding", "arraysize",
	"swizzle", "semicolon", "delimiter", "workgroup", "divzero",
}

// Breaking is one rule-breaking edit: the edited text violates exactly the
// named rule at the recorded site.
type Breaking struct {
	Rule   string   `json:"rule"`
	Sub    string   `json:"sub"`    // variant of the rule
	Edited string   `json:"edited"` // the edited program
	Tok    int      `json:"tok"`    // site token index in the original text
	Off    int      `json:"off"`    // byte offset of the first changed byte (same in both texts)
	Depth  int      `json:"depth"`  // block nesting depth of the site (0 = module scope / signature)
	Where  []string `json:"where"`  // site context tags
	Syntax bool     `json:"syntax"` // a syntax rule (error position = first token that cannot continue)
	// Exact: the first token that cannot continue the grammar is known and
	// starts at byte ExpOff of the edited text.  Otherwise a syntax error must
	// only lie at or after Off.
	Exact  bool `json:"exact"`
	ExpOff int  `json:"exp_off"`
	// DeclLo/DeclHi: byte range, in the edited text, of the module-scope
	// declaration that contains the offending construct (semantic rules).
	DeclLo int `json:"decl_lo"`
	DeclHi int `json:"decl_hi"`
}

type breakSite struct {
	rule, sub      string
	tok            int    // site token
	lo, hi         int    // byte range replaced
	repl           string // replacement
	exact          bool
	expTok         int // token (original index) that becomes the first one that cannot continue; -1: the replacement itself
	moduleInserted bool
}

var (
	multiSwizzle = regexp.MustCompile(`^([xyzw]{2,4}|[rgba]{2,4})$`)
	stmtKeywords = toSet([]string{"let", "var", "return", "if", "for", "while", "loop", "switch", "break",
		"continue", "discard", "const", "const_assert", "continuing"})
	declKeywords   = toSet([]string{"fn", "struct", "var", "const", "override", "alias", "const_assert"})
	numericTypeTok = regexp.MustCompile(`^(i32|u32|f32|f16|vec[234][iufh]?|mat[234]x[234][fh]?)$`)
)

var delimName = map[string]string{")": "paren", "]": "bracket", "}": "brace"}

// where computes the context tags of token i.
func (f *File) where(i int) []string {
	var w []string
	d := f.DeclOf(i)
	if d == nil {
		return []string{"module"}
	}
	inf := f.Info[i]
	if d.Kind == "fn" {
		if d.Stage != "" {
			w = append(w, "entry")
		} else {
			w = append(w, "helper")
		}
		if inf.Block == 0 {
			w = append(w, "signature")
		}
	} else {
		w = append(w, "decl:"+d.Kind)
		if d.Kind == "const_assert" {
			w = append(w, "const_assert")
		}
	}
	if inf.Continuing {
		w = append(w, "continuing")
	}
	if inf.Block >= 2 {
		w = append(w, "nested")
	}
	for e := inf.Encl; e >= 0; e = f.Info[e].Encl {
		switch t := f.Toks[e]; {
		case t.Text == "{" && f.Info[e].Block >= 1:
			switch f.text(f.StmtStart(e)) {
			case "loop", "for", "while":
				w = appendUniq(w, "loop")
			case "switch":
				w = appendUniq(w, "switch")
			case "if", "else":
				w = appendUniq(w, "if")
			}
		case t.Text == "(" && e > 0 && f.Toks[e-1].Kind == Ident:
			if IsPredeclared(f.Toks[e-1].Text) && !numericTypeTok.MatchString(f.Toks[e-1].Text) {
				w = appendUniq(w, "builtin-arg")
			} else {
				w = appendUniq(w, "call-arg")
			}
		case t.Text == "(" && f.text(e-1) == "for":
			w = appendUniq(w, "for-header")
		case t.Text == "[":
			w = appendUniq(w, "index")
		case t.Tmpl == 1:
			w = appendUniq(w, "template")
			if f.text(f.Info[e].Match+1) == "(" {
				w = appendUniq(w, "ctor-template")
			}
		}
	}
	if inf.Block > 0 {
		switch s := f.StmtStart(i); f.text(s) {
		case "const":
			w = appendUniq(w, "const-init")
		case "const_assert":
			w = appendUniq(w, "const_assert")
		}
		if s := f.StmtStart(i); (f.text(s) == "let" || f.text(s) == "const") && f.Info[s].Encl >= 0 && f.text(s+2) == ":" && i > s+2 {
			// between ':' and '=' of a let / const statement
			ann := true
			for k := s + 3; k <= i; k++ {
				if f.Toks[k].Text == "=" && f.Info[k].Encl == f.Info[s].Encl {
					ann = false
				}
			}
			if ann {
				w = appendUniq(w, "let-annotation")
			}
		}
		if !f.RValue(i) {
			w = appendUniq(w, "not-rvalue")
		}
	} else if d.Kind == "const" && d.InitStart >= 0 && i >= d.InitStart {
		w = appendUniq(w, "const-init")
	}
	if inf.InAttr {
		w = appendUniq(w, "attribute")
	}
	if f.logicRHS(i) {
		w = appendUniq(w, "logic-rhs")
	}
	return w
}

// logicRHS reports whether token i lies in the right operand of a
// short-circuit operator ("a || ..." / "a && ...").
func (f *File) logicRHS(i int) bool {
	for j := i; j >= 0; j = f.Info[j].Encl {
		level := f.Info[j].Encl
		for k := j - 1; k > level && k > 0; k-- {
			if f.Info[k].Encl != level {
				continue
			}
			t := f.Toks[k]
			if t.Kind == Punct && (t.Text == ";" || t.Text == "{" || t.Text == "}" || t.Text == "," || t.Text == "=") {
				break
			}
			if t.Kind == Punct && (t.Text == "||" || t.Text == "&&") {
				return true
			}
		}
		if level < 0 || f.Toks[level].Text == "{" {
			break
		}
	}
	return false
}

// BreakAll applies the rule at every applicable site (for tests and for
// building replay files).
func (f *File) BreakAll(rule string) []*Breaking {
	if !f.Structured {
		return nil
	}
	var out []*Breaking
	for _, s := range f.breakSites(rule, "zq_undeclared") {
		out = append(out, f.apply(s))
	}
	return out
}

func appendUniq(l []string, s string) []string {
	for _, x := range l {
		if x == s {
			return l
		}
	}
	return append(l, s)
}

func (f *File) isSwitchBody(brace int) bool { return f.text(f.StmtStart(brace)) == "switch" }

// declCount counts declaration tokens spelled name.
func (f *File) declCount(name string) (n, last int) {
	last = -1
	for i, t := range f.Toks {
		if t.Kind == Ident && t.Text == name && f.Info[i].Role.IsDecl() {
			n++
			last = i
		}
	}
	return
}

// breakSites enumerates every applicable site of a rule.
func (f *File) breakSites(rule string, fresh string) []breakSite {
	var out []breakSite
	toks := f.Toks
	tokRange := func(a, b int) (int, int) { return toks[a].Off, toks[b].End }
	switch rule {
	case "undeclared":
		for i, t := range toks {
			if t.Kind != Ident || Untouchable(t.Text) && !f.Names[t.Text][RoleDeclMember] {
				continue
			}
			m := f.Names[t.Text]
			if len(m) == 0 || IsPredeclared(t.Text) || contextual[t.Text] {
				continue
			}
			sub := ""
			switch f.Info[i].Role {
			case RoleUse:
				switch {
				case f.Info[i].InAttr:
					sub = "attr"
				case f.text(i+1) == "(" && m[RoleDeclFn]:
					sub = "fn"
				case m[RoleDeclStruct] || m[RoleDeclAlias]:
					sub = "type"
				case m[RoleDeclLocal] || m[RoleDeclGlobal] || m[RoleDeclParam]:
					sub = "var"
				default:
					continue
				}
			case RoleMember:
				if !m[RoleDeclMember] || IsSwizzleName(t.Text) {
					continue
				}
				sub = "member"
			default:
				continue
			}
			out = append(out, breakSite{rule: rule, sub: sub, tok: i, lo: t.Off, hi: t.End, repl: fresh})
		}
	case "callargs":
		for i, t := range toks {
			if t.Kind != Ident || f.Info[i].Role != RoleUse || f.Info[i].InAttr || !f.Names[t.Text][RoleDeclFn] || f.text(i+1) != "(" {
				continue
			}
			if n, _ := f.declCount(t.Text); n != 1 || IsPredeclared(t.Text) {
				continue
			}
			d := f.FindDecl("fn", t.Text)
			if d == nil {
				continue
			}
			open := i + 1
			cl := f.Info[open].Match
			items := f.splitList(open)
			// extra argument
			switch {
			case len(items) == 0:
				out = append(out, breakSite{rule: rule, sub: "extra", tok: i, lo: toks[cl].Off, hi: toks[cl].Off, repl: "0"})
			case f.text(cl-1) == ",":
				out = append(out, breakSite{rule: rule, sub: "extra", tok: i, lo: toks[cl].Off, hi: toks[cl].Off, repl: " 0"})
			default:
				out = append(out, breakSite{rule: rule, sub: "extra", tok: i, lo: toks[cl-1].End, hi: toks[cl-1].End, repl: ", 0"})
			}
			if len(items) != len(d.Params) {
				continue // not a call we understand
			}
			// missing argument: drop item k together with one adjoining comma
			for k, it := range items {
				var lo, hi int
				switch {
				case k > 0:
					lo, hi = toks[it[0]-1].Off, toks[it[1]].End // preceding comma .. item
				case len(items) > 1:
					lo, hi = toks[it[0]].Off, toks[it[1]+1].End // item .. following comma
				default:
					lo, hi = toks[it[0]].Off, toks[cl-1].End // sole item and a possible trailing comma
				}
				out = append(out, breakSite{rule: rule, sub: "missing", tok: it[0], lo: lo, hi: hi, repl: ""})
				// wrong type: a bool where the declaration says numeric
				p := d.Params[k]
				if numericTypeTok.MatchString(toks[p.TypeStart].Text) && f.text(it[0]) != "&" {
					a, b := tokRange(it[0], it[1])
					out = append(out, breakSite{rule: rule, sub: "retype", tok: it[0], lo: a, hi: b, repl: "true"})
				}
			}
		}
	case "mustuse":
		for i, t := range toks {
			if t.Kind != Ident || f.Info[i].Role != RoleUse || f.Info[i].Block == 0 || f.text(i+1) != "(" {
				continue
			}
			d := f.FindDecl("fn", t.Text)
			if d == nil || !d.MustUse || !f.RValue(i) {
				continue
			}
			if n, _ := f.declCount(t.Text); n != 1 {
				continue
			}
			s := f.StmtStart(i)
			e := f.Info[s].Encl
			if e < 0 || toks[e].Text != "{" || f.isSwitchBody(e) {
				continue
			}
			first := toks[s]
			okStart := first.Kind == Keyword && (first.Text == "let" || first.Text == "var" || first.Text == "const" || first.Text == "return") ||
				first.Kind == Ident || first.Text == "_" || first.Text == "*"
			if !okStart || f.text(f.StmtEnd(s)) != ";" {
				continue
			}
			// names declared by enclosing for-headers etc. are in scope at the statement start as well
			a, b := tokRange(i, f.Info[i+1].Match)
			out = append(out, breakSite{rule: rule, sub: "statement", tok: i, lo: toks[s].Off, hi: toks[s].Off, repl: f.Src[a:b] + "; "})
		}
	case "constassert":
		texts := []string{"const_assert false; ", "const_assert 1 > 2; ", "const_assert(false); "}
		for k, txt := range texts {
			lastDirective := -1
			for di, d := range f.Decls {
				if d.Kind == "directive" {
					lastDirective = di
				}
			}
			for di, d := range f.Decls {
				if di <= lastDirective {
					continue // directives must stay in front of every declaration
				}
				out = append(out, breakSite{rule: rule, sub: "module", tok: d.Start, lo: toks[d.Start].Off, hi: toks[d.Start].Off, repl: txt, moduleInserted: true})
			}
			for i, t := range toks {
				if f.Info[i].Block == 0 && !(t.Text == "{" && f.DeclOf(i) != nil && f.DeclOf(i).BodyOpen == i && f.DeclOf(i).Kind == "fn") {
					continue
				}
				if t.Kind != Punct || f.Info[i].InAttr {
					continue
				}
				switch t.Text {
				case "{":
					if f.isSwitchBody(i) {
						continue
					}
				case ";":
					e := f.Info[i].Encl
					if e < 0 || toks[e].Text != "{" || f.isSwitchBody(e) {
						continue
					}
					if s := f.StmtStart(i); f.text(s) == "break" && f.text(s+1) == "if" {
						continue // nothing may follow 'break if' in a continuing block
					}
				default:
					continue
				}
				if k == 0 || i%len(texts) == k { // thin out the variants
					out = append(out, breakSite{rule: rule, sub: "function", tok: i, lo: t.End, hi: t.End, repl: " " + txt})
				}
			}
		}
	case "binding":
		for _, d := range f.Decls {
			if d.Kind != "var" {
				continue
			}
			g, okG := d.HasAttr(f, "group")
			b, okB := d.HasAttr(f, "binding")
			if !okG || !okB {
				continue
			}
			for _, a := range []Attr{g, b} {
				lo, hi := tokRange(a.At, a.End())
				out = append(out, breakSite{rule: rule, sub: "drop-" + toks[a.Name].Text, tok: a.At, lo: lo, hi: hi, repl: ""})
			}
		}
	case "arraysize":
		for i, t := range toks {
			if t.Tmpl != 1 || f.text(i-1) != "array" || f.Info[i].InAttr {
				continue
			}
			cl := f.Info[i].Match
			items := f.splitList(i)
			if len(items) != 2 || items[1][0] != items[1][1] || toks[items[1][0]].Kind != IntLit || f.text(cl+1) == "(" {
				continue
			}
			// no initialiser may depend on the size
			if f.Info[i].Block > 0 {
				s := f.StmtStart(i)
				hasEq := false
				for k := s; k < f.StmtEnd(s); k++ {
					if toks[k].Text == "=" {
						hasEq = true
					}
				}
				if hasEq {
					continue
				}
			} else if d := f.DeclOf(i); d == nil || d.InitStart >= 0 {
				continue
			}
			n := toks[items[1][0]]
			for _, r := range []string{"0", "-1"} {
				out = append(out, breakSite{rule: rule, sub: "size" + r, tok: items[1][0], lo: n.Off, hi: n.End, repl: r})
			}
		}
	case "swizzle":
		other := map[byte]byte{'x': 'r', 'y': 'g', 'z': 'b', 'w': 'a', 'r': 'x', 'g': 'y', 'b': 'z', 'a': 'w'}
		for i, t := range toks {
			if t.Kind != Ident || f.Info[i].Role != RoleMember || !IsSwizzleName(t.Text) || f.Names[t.Text][RoleDeclMember] || f.Info[i].InAttr {
				continue
			}
			if multiSwizzle.MatchString(t.Text) {
				for k := 1; k < len(t.Text); k++ {
					b := []byte(t.Text)
					b[k] = other[b[k]]
					out = append(out, breakSite{rule: rule, sub: "mixed", tok: i, lo: t.Off, hi: t.End, repl: string(b)})
				}
			}
			// too wide: base is a plain name declared once with an explicit vecN type
			if i < 2 || toks[i-2].Kind != Ident || f.Info[i-2].Role != RoleUse {
				continue
			}
			if p := f.text(i - 3); p == "." || p == "]" || p == ")" {
				continue
			}
			n, dt := f.declCount(toks[i-2].Text)
			if n != 1 || f.text(dt+1) != ":" {
				continue
			}
			width := 0
			switch ty := f.text(dt + 2); {
			case strings.HasPrefix(ty, "vec2"):
				width = 2
			case strings.HasPrefix(ty, "vec3"):
				width = 3
			}
			if width == 0 || !numericTypeTok.MatchString(f.text(dt+2)) {
				continue
			}
			set := "xyzw"
			if strings.IndexByte("rgba", t.Text[0]) >= 0 {
				set = "rgba"
			}
			b := []byte(t.Text)
			b[len(b)-1] = set[width]
			out = append(out, breakSite{rule: rule, sub: "toowide", tok: i, lo: t.Off, hi: t.End, repl: string(b)})
		}
	case "semicolon":
		for i, t := range toks {
			if t.Kind != Punct || t.Text != ";" || i == 0 || i+1 >= len(toks) || f.Info[i].InAttr {
				continue
			}
			e := f.Info[i].Encl
			if e >= 0 && toks[e].Text != "{" {
				continue // for-header
			}
			if p := toks[i-1]; p.Kind == Punct && (p.Text == ";" || p.Text == "{" || p.Text == "}") {
				continue // empty statement
			}
			nx := toks[i+1]
			if f.Info[i].Block > 0 {
				if !(nx.Kind == Keyword && stmtKeywords[nx.Text] || nx.Kind == Punct && nx.Text == "}") {
					continue
				}
				if f.text(i-1) == "break" && nx.Text == "if" {
					continue
				}
			} else {
				d := f.DeclOf(i)
				if d == nil || d.Kind == "directive" || d.End != i {
					continue
				}
				if !(nx.Kind == Keyword && declKeywords[nx.Text] || nx.Kind == Punct && nx.Text == "@") {
					continue
				}
			}
			out = append(out, breakSite{rule: rule, sub: "delete", tok: i, lo: t.Off, hi: t.End, repl: "", exact: true, expTok: i + 1})
		}
	case "delimiter":
		for i, t := range toks {
			if t.Kind != Punct || f.Info[i].InAttr {
				continue
			}
			switch t.Text {
			case ")", "]", "}":
				if t.Tmpl == 0 {
					out = append(out, breakSite{rule: rule, sub: "drop-" + delimName[t.Text], tok: i, lo: t.Off, hi: t.End, repl: "", expTok: i + 1})
				}
			case ";", "{":
				e := f.Info[i].Encl
				inBlock := f.Info[i].Block > 0 && (t.Text == "{" && !f.isSwitchBody(i) || t.Text == ";" && e >= 0 && toks[e].Text == "{" && !f.isSwitchBody(e))
				if f.DeclOf(i) != nil && f.DeclOf(i).Kind == "fn" && f.DeclOf(i).BodyOpen == i {
					inBlock = true
				}
				if !inBlock {
					continue
				}
				if s := f.StmtStart(i); t.Text == ";" && f.text(s) == "break" && f.text(s+1) == "if" {
					continue
				}
				for _, c := range []string{")", "]"} {
					out = append(out, breakSite{rule: rule, sub: "stray-" + delimName[c], tok: i, lo: t.End, hi: t.End, repl: " " + c, exact: true, expTok: -1})
				}
				out = append(out, breakSite{rule: rule, sub: "stray-brace", tok: i, lo: t.End, hi: t.End, repl: " }", expTok: -1})
			}
		}
		for _, d := range f.Decls {
			for _, c := range []string{")", "]", "}"} {
				out = append(out, breakSite{rule: rule, sub: "stray-" + delimName[c] + "-module", tok: d.Start, lo: toks[d.Start].Off, hi: toks[d.Start].Off, repl: c + " ", exact: true, expTok: -1, moduleInserted: true})
			}
		}
	case "workgroup":
		for _, d := range f.Decls {
			if d.Kind != "fn" || d.Stage != "compute" {
				continue
			}
			if a, ok := d.HasAttr(f, "workgroup_size"); ok {
				lo, hi := tokRange(a.At, a.End())
				out = append(out, breakSite{rule: rule, sub: "drop", tok: a.At, lo: lo, hi: hi, repl: ""})
			}
		}
	case "divzero":
		before := toSet([]string{"=", "(", ",", "+", "-", "return", "["})
		for i, t := range toks {
			if t.Kind != Punct || (t.Text != "/" && t.Text != "%") || i < 2 || i+1 >= len(toks) || f.Info[i].InAttr {
				continue
			}
			l, r := toks[i-1], toks[i+1]
			if l.Kind != IntLit || r.Kind != IntLit || !before[toks[i-2].Text] || f.Frozen[i+1] || f.Frozen[i+2] || f.Frozen[i-1] {
				continue
			}
			if strings.HasPrefix(r.Text, "0x") || strings.HasPrefix(l.Text, "0x") {
				continue
			}
			repl := "0"
			if s := r.Text[len(r.Text)-1]; s == 'u' || s == 'i' {
				repl += string(s)
			}
			if repl == r.Text {
				continue
			}
			out = append(out, breakSite{rule: rule, sub: "op" + t.Text, tok: i + 1, lo: r.Off, hi: r.End, repl: repl})
		}
	}
	return out
}

// BreakCount returns the number of applicable sites per rule.
func (f *File) BreakCount() map[string]int {
	m := map[string]int{}
	if !f.Structured {
		return m
	}
	for _, r := range Rules {
		m[r] = len(f.breakSites(r, "zq_undeclared"))
	}
	return m
}

// Break draws a site of the given rule and applies the edit.  Skip vetoes a
// (rule, sub, where) combination (known findings); ok is false when the
// program offers no site.
func (f *File) Break(t *rapid.T, rule string, skip func(b *Breaking) bool) (*Breaking, bool) {
	if !f.Structured {
		return nil, false
	}
	fresh := f.FreshName(t, map[string]bool{})
	sites := f.breakSites(rule, fresh)
	if len(sites) == 0 {
		return nil, false
	}
	// prefer deep sites: half of the draws are restricted to nesting depth >= 1
	if rapid.Bool().Draw(t, "deep") {
		var deep []breakSite
		for _, s := range sites {
			if f.Info[s.tok].Block >= 1 {
				deep = append(deep, s)
			}
		}
		if len(deep) > 0 {
			sites = deep
		}
	}
	// steer towards the contexts the property quantifies over
	if pref := rapid.SampledFrom([]string{"", "", "", "continuing", "continuing", "nested", "builtin-arg", "call-arg",
		"const-init", "loop", "helper", "entry", "switch", "for-header", "index", "if"}).Draw(t, "context"); pref != "" {
		var in []breakSite
		for _, s := range sites {
			for _, w := range f.where(s.tok) {
				if w == pref {
					in = append(in, s)
					break
				}
			}
		}
		if len(in) > 0 {
			sites = in
		}
	}
	// draw the variant first so that frequent variants do not starve rare ones
	subs := map[string]bool{}
	for _, s := range sites {
		subs[s.sub] = true
	}
	var subList []string
	for s := range subs {
		subList = append(subList, s)
	}
	sort.Strings(subList)
	sub := subList[rapid.IntRange(0, len(subList)-1).Draw(t, "sub")]
	var cands []breakSite
	for _, s := range sites {
		if s.sub == sub {
			cands = append(cands, s)
		}
	}
	s := cands[rapid.IntRange(0, len(cands)-1).Draw(t, "site")]
	b := f.apply(s)
	if skip != nil && skip(b) {
		return nil, false
	}
	return b, true
}

func (f *File) apply(s breakSite) *Breaking {
	edited := f.Src[:s.lo] + s.repl + f.Src[s.hi:]
	delta := len(s.repl) - (s.hi - s.lo)
	b := &Breaking{Rule: s.rule, Sub: s.sub, Edited: edited, Tok: s.tok, Off: s.lo,
		Depth: f.Info[s.tok].Block, Where: f.where(s.tok), Exact: s.exact}
	switch s.rule {
	case "semicolon", "delimiter":
		b.Syntax = true
	}
	if (s.rule == "constassert" || s.rule == "delimiter") && f.Toks[s.tok].Text == "{" && s.lo == f.Toks[s.tok].End {
		b.Depth++ // inserted right inside the block this brace opens
	}
	if s.exact {
		if s.expTok >= 0 {
			b.ExpOff = f.Toks[s.expTok].Off + delta
		} else {
			b.ExpOff = s.lo + strings.IndexAny(s.repl, ")]}")
		}
	}
	if s.moduleInserted {
		b.DeclLo, b.DeclHi = s.lo, s.lo+len(s.repl)
		b.Where = []string{"module"}
		b.Depth = 0
	} else if d := f.DeclOf(s.tok); d != nil {
		b.DeclLo = f.Toks[d.Start].Off
		b.DeclHi = f.Toks[d.End].End + delta
	} else {
		b.DeclLo, b.DeclHi = 0, len(edited)
	}
	return b
}
