package meta

import "regexp"

// Word lists transcribed from the WGSL specification (keywords, reserved
// words, predeclared types / functions / enumerants, context-dependent
// names).  They serve two purposes: classifying tokens, and keeping fresh
// names and renaming away from anything that has a predeclared meaning.

var keywordList = []string{
	"alias", "break", "case", "const", "const_assert", "continue", "continuing",
	"default", "diagnostic", "discard", "else", "enable", "false", "fn", "for",
	"if", "let", "loop", "override", "requires", "return", "struct", "switch",
	"true", "var", "while",
}

var reservedList = []string{
	"NULL", "Self", "abstract", "active", "alignas", "alignof", "as", "asm",
	"asm_fragment", "async", "attribute", "auto", "await", "become",
	"binding_array", "cast", "catch", "class", "co_await", "co_return",
	"co_yield", "coherent", "column_major", "common", "compile",
	"compile_fragment", "concept", "const_cast", "consteval", "constexpr",
	"constinit", "crate", "debugger", "decltype", "delete", "demote",
	"demote_to_helper", "do", "dynamic_cast", "enum", "explicit", "export",
	"extends", "extern", "external", "fallthrough", "filter", "final",
	"finally", "friend", "from", "fxgroup", "get", "goto", "groupshared",
	"highp", "impl", "implements", "import", "inline", "instanceof",
	"interface", "layout", "lowp", "macro", "macro_rules", "match", "mediump",
	"meta", "mod", "module", "move", "mut", "mutable", "namespace", "new",
	"nil", "noexcept", "noinline", "nointerpolation", "noperspective", "null",
	"nullptr", "of", "operator", "package", "packoffset", "partition", "pass",
	"patch", "pixelfragment", "precise", "precision", "premerge", "priv",
	"protected", "pub", "public", "readonly", "ref", "regardless", "register",
	"reinterpret_cast", "require", "resource", "restrict", "self", "set",
	"shared", "sizeof", "smooth", "snorm", "static", "static_assert",
	"static_cast", "std", "subroutine", "super", "target", "template", "this",
	"thread_local", "throw", "trait", "try", "type", "typedef", "typeid",
	"typename", "typeof", "union", "unless", "unorm", "unsafe", "unsized",
	"use", "using", "varying", "virtual", "volatile", "wgsl", "where", "with",
	"writeonly", "yield",
}

var predeclaredTypes = []string{
	"bool", "i32", "u32", "f32", "f16", "i64", "u64", "f64",
	"vec2", "vec3", "vec4",
	"vec2i", "vec3i", "vec4i", "vec2u", "vec3u", "vec4u",
	"vec2f", "vec3f", "vec4f", "vec2h", "vec3h", "vec4h",
	"mat2x2", "mat2x3", "mat2x4", "mat3x2", "mat3x3", "mat3x4", "mat4x2", "mat4x3", "mat4x4",
	"mat2x2f", "mat2x3f", "mat2x4f", "mat3x2f", "mat3x3f", "mat3x4f", "mat4x2f", "mat4x3f", "mat4x4f",
	"mat2x2h", "mat2x3h", "mat2x4h", "mat3x2h", "mat3x3h", "mat3x4h", "mat4x2h", "mat4x3h", "mat4x4h",
	"array", "atomic", "ptr", "binding_array",
	"sampler", "sampler_comparison",
	"texture_1d", "texture_2d", "texture_2d_array", "texture_3d", "texture_cube",
	"texture_cube_array", "texture_multisampled_2d", "texture_depth_multisampled_2d",
	"texture_external", "texture_storage_1d", "texture_storage_2d",
	"texture_storage_2d_array", "texture_storage_3d", "texture_depth_2d",
	"texture_depth_2d_array", "texture_depth_cube", "texture_depth_cube_array",
	"ray_query", "acceleration_structure", "RayDesc", "RayIntersection",
	"__frexp_result_f32", "__modf_result_f32",
}

var predeclaredEnumerants = []string{
	// address spaces, access modes
	"function", "private", "workgroup", "uniform", "storage", "handle", "push_constant", "immediate",
	"read", "write", "read_write", "atomic",
	// texel formats
	"rgba8unorm", "rgba8snorm", "rgba8uint", "rgba8sint", "rgba16unorm", "rgba16snorm",
	"rgba16uint", "rgba16sint", "rgba16float", "rg8unorm", "rg8snorm", "rg8uint", "rg8sint",
	"rg16unorm", "rg16snorm", "rg16uint", "rg16sint", "rg16float", "r32uint", "r32sint",
	"r32float", "rg32uint", "rg32sint", "rg32float", "rgba32uint", "rgba32sint", "rgba32float",
	"bgra8unorm", "r8unorm", "r8snorm", "r8uint", "r8sint", "r16unorm", "r16snorm", "r16uint",
	"r16sint", "r16float", "rgb10a2unorm", "rgb10a2uint", "rg11b10ufloat", "r64uint",
}

var builtinFunctions = []string{
	"bitcast", "all", "any", "select", "arrayLength",
	"abs", "acos", "acosh", "asin", "asinh", "atan", "atanh", "atan2", "ceil", "clamp", "cos",
	"cosh", "countLeadingZeros", "countOneBits", "countTrailingZeros", "cross", "degrees",
	"determinant", "distance", "dot", "dot4U8Packed", "dot4I8Packed", "exp", "exp2",
	"extractBits", "faceForward", "firstLeadingBit", "firstTrailingBit", "floor", "fma",
	"fract", "frexp", "insertBits", "inverseSqrt", "ldexp", "length", "log", "log2", "max",
	"min", "mix", "modf", "normalize", "pow", "quantizeToF16", "radians", "reflect", "refract",
	"reverseBits", "round", "saturate", "sign", "sin", "sinh", "smoothstep", "sqrt", "step",
	"tan", "tanh", "transpose", "trunc",
	"dpdx", "dpdxCoarse", "dpdxFine", "dpdy", "dpdyCoarse", "dpdyFine", "fwidth",
	"fwidthCoarse", "fwidthFine",
	"textureDimensions", "textureGather", "textureGatherCompare", "textureLoad",
	"textureNumLayers", "textureNumLevels", "textureNumSamples", "textureSample",
	"textureSampleBias", "textureSampleCompare", "textureSampleCompareLevel",
	"textureSampleGrad", "textureSampleLevel", "textureSampleBaseClampToEdge", "textureStore",
	"textureAtomicMin", "textureAtomicMax", "textureAtomicAdd", "textureAtomicAnd",
	"textureAtomicOr", "textureAtomicXor",
	"atomicLoad", "atomicStore", "atomicAdd", "atomicSub", "atomicMax", "atomicMin",
	"atomicAnd", "atomicOr", "atomicXor", "atomicExchange", "atomicCompareExchangeWeak",
	"pack4x8snorm", "pack4x8unorm", "pack4xI8", "pack4xU8", "pack4xI8Clamp", "pack4xU8Clamp",
	"pack2x16snorm", "pack2x16unorm", "pack2x16float",
	"unpack4x8snorm", "unpack4x8unorm", "unpack4xI8", "unpack4xU8", "unpack2x16snorm",
	"unpack2x16unorm", "unpack2x16float",
	"storageBarrier", "textureBarrier", "workgroupBarrier", "workgroupUniformLoad",
	"subgroupAdd", "subgroupExclusiveAdd", "subgroupInclusiveAdd", "subgroupAll",
	"subgroupAnd", "subgroupAny", "subgroupBallot", "subgroupBroadcast",
	"subgroupBroadcastFirst", "subgroupElect", "subgroupMax", "subgroupMin", "subgroupMul",
	"subgroupExclusiveMul", "subgroupInclusiveMul", "subgroupOr", "subgroupShuffle",
	"subgroupShuffleDown", "subgroupShuffleUp", "subgroupShuffleXor", "subgroupXor",
	"subgroupBarrier", "quadBroadcast", "quadSwapDiagonal", "quadSwapX", "quadSwapY",
	"rayQueryInitialize", "rayQueryProceed", "rayQueryGetCommittedIntersection",
	"rayQueryGetCandidateIntersection", "rayQueryTerminate", "rayQueryConfirmIntersection",
	"rayQueryGenerateIntersection", "getCommittedHitVertexPositions", "getCandidateHitVertexPositions",
}

// Context-dependent names (attribute names, builtin values, interpolation,
// diagnostic names) and member names of predeclared result structures.  They
// are not predeclared identifiers, but renaming steers clear of them.
var contextNames = []string{
	"align", "binding", "builtin", "compute", "const", "diagnostic", "fragment", "group", "id",
	"interpolate", "invariant", "location", "blend_src", "must_use", "size", "vertex",
	"workgroup_size", "early_depth_test",
	"vertex_index", "instance_index", "position", "front_facing", "frag_depth", "sample_index",
	"sample_mask", "local_invocation_id", "local_invocation_index", "global_invocation_id",
	"workgroup_id", "num_workgroups", "subgroup_invocation_id", "subgroup_size", "primitive_index",
	"view_index", "clip_distances", "num_subgroups", "subgroup_id",
	"perspective", "linear", "flat", "center", "centroid", "sample", "first", "either",
	"error", "warning", "info", "off", "derivative_uniformity", "subgroup_uniformity",
	"f16", "clip_distances", "dual_source_blending", "subgroups",
	"fract", "exp", "whole", "old_value", "exchanged",
	"main", "_",
}

var (
	keywords   = toSet(keywordList)
	reserved   = toSet(reservedList)
	predecl    = toSet(predeclaredTypes, predeclaredEnumerants, builtinFunctions)
	contextual = toSet(contextNames)
	enumAttrs  = toSet([]string{"builtin", "interpolate", "diagnostic"})
	swizzleRe  = regexp.MustCompile(`^([xyzw]{1,4}|[rgba]{1,4})$`)
)

func toSet(lists ...[]string) map[string]bool {
	m := map[string]bool{}
	for _, l := range lists {
		for _, s := range l {
			m[s] = true
		}
	}
	return m
}

// IsKeyword reports whether s is a WGSL keyword.
func IsKeyword(s string) bool { return keywords[s] }

// IsReserved reports whether s is a WGSL reserved word.
func IsReserved(s string) bool { return reserved[s] }

// IsPredeclared reports whether s has a predeclared meaning (type, builtin
// function, enumerant) in WGSL.
func IsPredeclared(s string) bool { return predecl[s] }

// IsSwizzleName reports whether s could be a vector swizzle.
func IsSwizzleName(s string) bool { return swizzleRe.MatchString(s) }

// Untouchable reports whether renaming must leave the name s alone whatever
// the program declares: keywords, reserved words, predeclared and
// context-dependent names, swizzle look-alikes.
func Untouchable(s string) bool {
	return keywords[s] || reserved[s] || predecl[s] || contextual[s] || IsSwizzleName(s) ||
		len(s) >= 2 && s[:2] == "__"
}
