package meta

import (
	"os"
	"path/filepath"
	"strings"
	"testing"
)

func texts(t *testing.T, src string) []string {
	t.Helper()
	toks, err := Tokenize(src)
	if err != nil {
		t.Fatalf("Tokenize(%q): %v", src, err)
	}
	return sig(toks)
}

func TestNumbers(t *testing.T) {
	cases := map[string]string{
		"0": "0", "0u": "0u", "123i": "123i", "0x1F": "0x1F", "0xffu": "0xffu",
		"1.": "1.", ".5": ".5", "1.5e-3f": "1.5e-3f", "1e10": "1e10", "1f": "1f", "2h": "2h",
		"0x1p4": "0x1p4", "0x1.8p-2f": "0x1.8p-2f", "0X.8P1": "0X.8P1", "0x1.": "0x1.",
		"1e": "1|e", "1.0x": "1.0|x", "0x": "0|x", "1+2": "1|+|2", "1.e2": "1.e2", "3-.5": "3|-|.5",
		"0x1pz": "0x1|pz", "1u32": "1u|32",
	}
	for in, want := range cases {
		if got := strings.Join(texts(t, in), "|"); got != want {
			t.Errorf("%q: got %s want %s", in, got, want)
		}
	}
}

func TestTemplates(t *testing.T) {
	cases := map[string]string{
		"var x: array<vec2<f32>>=y;":   "var|x|:|array|<o|vec2|<o|f32|>c|>c|=|y|;",
		"let a = b<c; let d = e>f;":    "let|a|=|b|<|c|;|let|d|=|e|>|f|;",
		"x = a >> 2u; y >>= 3u;":       "x|=|a|>>|2u|;|y|>>=|3u|;",
		"if a <= b && c >= d {}":       "if|a|<=|b|&&|c|>=|d|{|}",
		"var<storage,read_write> b:T;": "var|<o|storage|,|read_write|>c|b|:|T|;",
		"array<i32, 1 << 1>=x":         "array|<o|i32|,|1|<<|1|>c|=|x",
		"a<<=1; a<b>(c)":               "a|<<=|1|;|a|<o|b|>c|(|c|)",
		"f(a<b, c>d)":                  "f|(|a|<o|b|,|c|>c|d|)",
		"f((a<b), c>d)":                "f|(|(|a|<|b|)|,|c|>|d|)",
		"a < b || c > d":               "a|<|b||||c|>|d",
		"x = i<n; j>>k":                "x|=|i|<|n|;|j|>>|k",
		"vec2<f32>=":                   "vec2|<o|f32|>c|=",
		"a -> b - - c -- d":            "a|->|b|-|-|c|--|d",
		"_ = _x + __y":                 "_|=|_x|+|__y",
	}
	for in, want := range cases {
		toks, err := Tokenize(in)
		if err != nil {
			t.Errorf("%q: %v", in, err)
			continue
		}
		var parts []string
		for _, tk := range toks {
			s := tk.Text
			switch tk.Tmpl {
			case 1:
				s += "o"
			case -1:
				s += "c"
			}
			parts = append(parts, s)
		}
		if got := strings.Join(parts, "|"); got != want {
			t.Errorf("%q:\n got  %s\n want %s", in, got, want)
		}
	}
}

func TestComments(t *testing.T) {
	src := "a/* x /* y */ z */b // c */ \n d /**/ e // f\u2028g //h\rk"
	want := "a|b|d|e|g|k"
	if got := strings.Join(texts(t, src), "|"); got != want {
		t.Errorf("got %s want %s", got, want)
	}
	if _, err := Tokenize("a /* b /* c */"); err == nil {
		t.Errorf("unterminated block comment accepted")
	}
	for _, s := range []string{"a\vb", "a\fb", "a\u0085b", "a\u200eb", "a\u200fb", "a\u2028b", "a\u2029b"} {
		if got := strings.Join(texts(t, s), "|"); got != "a|b" {
			t.Errorf("%q: %s", s, got)
		}
	}
	if _, err := Tokenize("a\u00a0b"); err == nil {
		t.Errorf("NBSP accepted as blankspace")
	}
}

func TestPositions(t *testing.T) {
	toks, _ := Tokenize("a\n\tb /* \u00e9\n */ c\r\n d")
	type p struct{ l, c int }
	want := []p{{1, 1}, {2, 2}, {3, 5}, {4, 2}}
	for i, w := range want {
		if toks[i].Line != w.l || toks[i].Col != w.c {
			t.Errorf("token %d %q at %d:%d want %d:%d", i, toks[i].Text, toks[i].Line, toks[i].Col, w.l, w.c)
		}
	}
}

// TestCorpusStructure makes sure the structural pass follows the corpus.
func TestCorpusStructure(t *testing.T) {
	files, _ := filepath.Glob("/repo/snapshot/testdata/in/*.wgsl")
	if len(files) == 0 {
		t.Skip("no corpus")
	}
	bad := 0
	for _, p := range files {
		b, _ := os.ReadFile(p)
		f, err := Analyze(string(b))
		if err != nil {
			t.Logf("%s: lex: %v", filepath.Base(p), err)
			bad++
			continue
		}
		if !f.Structured {
			t.Logf("%s: unstructured: %s", filepath.Base(p), f.Why)
			bad++
		}
		if len(f.Frozen) > 0 {
			t.Logf("%s: %d frozen boundaries", filepath.Base(p), len(f.Frozen))
		}
	}
	t.Logf("%d files, %d not followed", len(files), bad)
	if bad > len(files)/10 {
		t.Errorf("too many corpus files not followed: %d of %d", bad, len(files))
	}
}
