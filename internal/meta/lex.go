// Package meta holds an independent WGSL tokenizer (written from the WGSL
// specification, not from naga), a light structural pass over the token list,
// meaning-neutral source transformers (property C19) and rule-breaking source
// transformers (property C11).  It does not import naga.
package meta

import (
	"fmt"
	"unicode"
	"unicode/utf8"
)

// Kind is the lexical class of a token.
type Kind uint8

const (
	Ident    Kind = iota // identifier (predeclared type names included: they are not keywords in WGSL)
	Keyword              // keyword of the WGSL grammar
	IntLit               // integer literal
	FloatLit             // floating point literal
	Punct                // operator / punctuation ("_" alone included)
)

func (k Kind) String() string {
	return [...]string{"ident", "keyword", "int", "float", "punct"}[k]
}

// Token is one WGSL token.
type Token struct {
	Kind Kind
	Text string
	Off  int // byte offset of the first byte
	End  int // byte offset one past the last byte
	Line int // 1-based, counting U+000A only (the convention naga reports in)
	Col  int // 1-based, in code points since the last U+000A
	// Tmpl is +1 for a '<' that opens a template list, -1 for a '>' that
	// closes one, 0 otherwise (WGSL "template list discovery").
	Tmpl int8
}

// Wordlike reports whether the token is made of identifier characters
// (identifier, keyword, number), i.e. needs separation from a wordlike
// neighbour.
func (t Token) Wordlike() bool { return t.Kind != Punct || t.Text == "_" }

// IsBlank reports whether r belongs to WGSL's blankspace set.
func IsBlank(r rune) bool {
	switch r {
	case ' ', '\t', '\n', '\v', '\f', '\r', 0x85, 0x200E, 0x200F, 0x2028, 0x2029:
		return true
	}
	return false
}

// IsLineBreak reports whether r is one of WGSL's line break code points.
func IsLineBreak(r rune) bool {
	switch r {
	case '\n', '\v', '\f', '\r', 0x85, 0x2028, 0x2029:
		return true
	}
	return false
}

// xidRemoved lists code points that are ID_Start / ID_Continue but not
// XID_Start / XID_Continue (NFKC closure, UAX #31).
func xidRemoved(r rune, start bool) bool {
	switch {
	case r == 0x037A, r == 0x0E33, r == 0x0EB3, r == 0x309B, r == 0x309C,
		r >= 0xFC5E && r <= 0xFC63, r >= 0xFDFA && r <= 0xFDFB, r == 0xFE70, r == 0xFE72,
		r == 0xFE74, r == 0xFE76, r == 0xFE78, r == 0xFE7A, r == 0xFE7C, r == 0xFE7E,
		r == 0x2E2F:
		return true
	case start && (r == 0xFF9E || r == 0xFF9F):
		return true
	}
	return false
}

func isIDStart(r rune) bool {
	if r < 0x80 {
		return r >= 'a' && r <= 'z' || r >= 'A' && r <= 'Z'
	}
	if unicode.Is(unicode.Pattern_Syntax, r) || unicode.Is(unicode.Pattern_White_Space, r) {
		return false
	}
	return unicode.IsLetter(r) || unicode.Is(unicode.Nl, r) || unicode.Is(unicode.Other_ID_Start, r)
}

// IsXIDStart approximates the Unicode XID_Start property.
func IsXIDStart(r rune) bool { return isIDStart(r) && !xidRemoved(r, true) }

// IsXIDContinue approximates the Unicode XID_Continue property.
func IsXIDContinue(r rune) bool {
	if r < 0x80 {
		return r >= 'a' && r <= 'z' || r >= 'A' && r <= 'Z' || r >= '0' && r <= '9' || r == '_'
	}
	if xidRemoved(r, false) {
		return false
	}
	if isIDStart(r) {
		return true
	}
	if unicode.Is(unicode.Pattern_Syntax, r) || unicode.Is(unicode.Pattern_White_Space, r) {
		return false
	}
	return unicode.Is(unicode.Mn, r) || unicode.Is(unicode.Mc, r) || unicode.Is(unicode.Nd, r) ||
		unicode.Is(unicode.Pc, r) || unicode.Is(unicode.Other_ID_Continue, r)
}

// LexError is a tokenisation failure.
type LexError struct {
	Off int
	Msg string
}

func (e *LexError) Error() string { return fmt.Sprintf("offset %d: %s", e.Off, e.Msg) }

// puncts lists the operator tokens by decreasing length; tokens that start
// with '<' or '>' are produced one code point at a time and re-joined after
// template list discovery.
var puncts = []string{
	"&&", "->", "==", "!=", "--", "++", "||", "+=", "-=", "*=", "/=", "%=", "&=", "|=", "^=",
	"&", "@", "/", "!", "[", "]", "{", "}", ":", ",", "=", "%", "-", ".", "+", "|", "(", ")",
	";", "*", "~", "^", "<", ">",
}

func isDigit(c byte) bool { return c >= '0' && c <= '9' }
func isHex(c byte) bool {
	return isDigit(c) || c >= 'a' && c <= 'f' || c >= 'A' && c <= 'F'
}

func at(s string, i int) byte {
	if i < len(s) {
		return s[i]
	}
	return 0
}

// scanExp scans [eE] or [pP] exponent at s[i:]: marker, optional sign, digits.
// Returns the new index, or i when there is no complete exponent.
func scanExp(s string, i int, lo, up byte) int {
	if at(s, i) != lo && at(s, i) != up {
		return i
	}
	j := i + 1
	if at(s, j) == '+' || at(s, j) == '-' {
		j++
	}
	if !isDigit(at(s, j)) {
		return i
	}
	for isDigit(at(s, j)) {
		j++
	}
	return j
}

// scanNumber returns the length of the longest numeric literal at the start
// of s (0 if none) and whether it is a float literal.
func scanNumber(s string) (n int, isFloat bool) {
	if at(s, 0) == '0' && (at(s, 1) == 'x' || at(s, 1) == 'X') {
		i := 2
		a := 0
		for isHex(at(s, i)) {
			i++
			a++
		}
		if at(s, i) == '.' {
			j := i + 1
			b := 0
			for isHex(at(s, j)) {
				j++
				b++
			}
			if a+b > 0 {
				k := scanExp(s, j, 'p', 'P')
				if k > j && (at(s, k) == 'f' || at(s, k) == 'h') {
					k++
				}
				return k, true
			}
		}
		if a > 0 {
			// The hex digits may have swallowed nothing of an exponent: p is not hex.
			k := scanExp(s, i, 'p', 'P')
			if k > i {
				if at(s, k) == 'f' || at(s, k) == 'h' {
					k++
				}
				return k, true
			}
			if at(s, i) == 'i' || at(s, i) == 'u' {
				i++
			}
			return i, false
		}
		// "0x" without digits: falls back to the decimal literal "0".
	}
	i := 0
	for isDigit(at(s, i)) {
		i++
	}
	a := i
	if at(s, i) == '.' {
		j := i + 1
		b := 0
		for isDigit(at(s, j)) {
			j++
			b++
		}
		if a+b > 0 {
			k := scanExp(s, j, 'e', 'E')
			if at(s, k) == 'f' || at(s, k) == 'h' {
				k++
			}
			return k, true
		}
	}
	if a == 0 {
		return 0, false
	}
	if k := scanExp(s, i, 'e', 'E'); k > i {
		if at(s, k) == 'f' || at(s, k) == 'h' {
			k++
		}
		return k, true
	}
	switch at(s, i) {
	case 'f', 'h':
		return i + 1, true
	case 'i', 'u':
		return i + 1, false
	}
	return i, false
}

// skipTrivia skips blankspace and comments starting at i; it returns the new
// offset or an error for an unterminated block comment.
func skipTrivia(src string, i int) (int, error) {
	for i < len(src) {
		r, sz := utf8.DecodeRuneInString(src[i:])
		switch {
		case IsBlank(r):
			i += sz
		case r == '/' && at(src, i+1) == '/':
			i += 2
			for i < len(src) {
				r, sz := utf8.DecodeRuneInString(src[i:])
				if IsLineBreak(r) {
					break
				}
				i += sz
			}
		case r == '/' && at(src, i+1) == '*':
			start := i
			depth := 1
			i += 2
			for depth > 0 {
				if i >= len(src) {
					return i, &LexError{start, "unterminated block comment"}
				}
				switch {
				case src[i] == '/' && at(src, i+1) == '*':
					depth++
					i += 2
				case src[i] == '*' && at(src, i+1) == '/':
					depth--
					i += 2
				default:
					i++
				}
			}
		default:
			return i, nil
		}
	}
	return i, nil
}

// lexRaw produces the token list with every '<' and '>' as a one code point
// token.
func lexRaw(src string) ([]Token, error) {
	var toks []Token
	i := 0
	for {
		var err error
		i, err = skipTrivia(src, i)
		if err != nil {
			return nil, err
		}
		if i >= len(src) {
			break
		}
		r, sz := utf8.DecodeRuneInString(src[i:])
		if r == utf8.RuneError && sz <= 1 {
			return nil, &LexError{i, "invalid UTF-8"}
		}
		start := i
		switch {
		case r == '_' || IsXIDStart(r):
			i += sz
			for i < len(src) {
				r2, sz2 := utf8.DecodeRuneInString(src[i:])
				if !IsXIDContinue(r2) {
					break
				}
				i += sz2
			}
			text := src[start:i]
			k := Ident
			switch {
			case text == "_":
				k = Punct
			case keywords[text]:
				k = Keyword
			}
			toks = append(toks, Token{Kind: k, Text: text, Off: start, End: i})
		case r >= '0' && r <= '9' || r == '.' && isDigit(at(src, i+1)):
			n, fl := scanNumber(src[i:])
			if n == 0 {
				return nil, &LexError{i, "bad number"}
			}
			i += n
			k := IntLit
			if fl {
				k = FloatLit
			}
			toks = append(toks, Token{Kind: k, Text: src[start:i], Off: start, End: i})
		default:
			found := ""
			for _, p := range puncts {
				if len(src)-i >= len(p) && src[i:i+len(p)] == p {
					found = p
					break
				}
			}
			if found == "" {
				return nil, &LexError{i, fmt.Sprintf("unexpected code point %U", r)}
			}
			i += len(found)
			toks = append(toks, Token{Kind: Punct, Text: found, Off: start, End: i})
		}
	}
	return toks, nil
}

// discoverTemplates implements the specification's "template list discovery"
// over the raw token list (every '<' / '>' is its own token there, so the
// algorithm's code point look-ahead becomes an adjacency test).
func discoverTemplates(toks []Token) {
	type cand struct{ tok, depth int }
	var pending []cand
	depth := 0
	adj := func(i int) bool { return i+1 < len(toks) && toks[i].End == toks[i+1].Off }
	for i := 0; i < len(toks); i++ {
		t := toks[i]
		switch {
		case t.Kind == Ident || t.Kind == Keyword:
			if i+1 < len(toks) && toks[i+1].Text == "<" {
				j := i + 1
				switch {
				case adj(j) && toks[j+1].Text == "<": // "<<"
					i = j + 1
				case adj(j) && (toks[j+1].Text == "=" || toks[j+1].Text == "=="): // "<="
					i = j + 1
				default:
					pending = append(pending, cand{j, depth})
					i = j
				}
			}
		case t.Text == ">":
			if n := len(pending); n > 0 && pending[n-1].depth == depth {
				toks[pending[n-1].tok].Tmpl = 1
				toks[i].Tmpl = -1
				pending = pending[:n-1]
			} else if adj(i) && toks[i+1].Text == "=" { // ">="
				i++
			}
		case t.Text == "(" || t.Text == "[":
			depth++
		case t.Text == ")" || t.Text == "]":
			for n := len(pending); n > 0 && pending[n-1].depth >= depth; n = len(pending) {
				pending = pending[:n-1]
			}
			if depth > 0 {
				depth--
			}
		case t.Text == "=" || t.Text == ";" || t.Text == "{" || t.Text == ":":
			depth = 0
			pending = pending[:0]
		case t.Text == "&&" || t.Text == "||":
			for n := len(pending); n > 0 && pending[n-1].depth >= depth; n = len(pending) {
				pending = pending[:n-1]
			}
		}
	}
}

// joinAngles re-joins adjacent non-template '<' '>' '=' tokens into the
// longest operator ("<<=", ">>=", "<<", ">>", "<=", ">=").
func joinAngles(src string, raw []Token) []Token {
	out := make([]Token, 0, len(raw))
	adjPlain := func(i int, text string) bool {
		return i+1 < len(raw) && raw[i].End == raw[i+1].Off && raw[i+1].Text == text && raw[i+1].Tmpl == 0
	}
	for i := 0; i < len(raw); i++ {
		t := raw[i]
		if t.Kind == Punct && t.Tmpl == 0 && (t.Text == "<" || t.Text == ">") {
			n := 1
			if adjPlain(i, t.Text) {
				n = 2
				if adjPlain(i+1, "=") {
					n = 3
				}
			} else if adjPlain(i, "=") {
				n = 2
			}
			if n > 1 {
				t.End = raw[i+n-1].End
				t.Text = src[t.Off:t.End]
				i += n - 1
			}
		}
		out = append(out, t)
	}
	return out
}

// Tokenize splits src into WGSL tokens, with template brackets marked.
func Tokenize(src string) ([]Token, error) {
	raw, err := lexRaw(src)
	if err != nil {
		return nil, err
	}
	discoverTemplates(raw)
	toks := joinAngles(src, raw)
	// line / column bookkeeping
	line, col, p := 1, 1, 0
	for i := range toks {
		for p < toks[i].Off {
			r, sz := utf8.DecodeRuneInString(src[p:])
			if r == '\n' {
				line++
				col = 1
			} else {
				col++
			}
			p += sz
		}
		toks[i].Line, toks[i].Col = line, col
	}
	return toks, nil
}

// LineCol returns the 1-based line (counting U+000A), the 1-based column in
// code points and the 1-based column in bytes of byte offset off.
func LineCol(src string, off int) (line, colRunes, colBytes int) {
	if off > len(src) {
		off = len(src)
	}
	line, colRunes, colBytes = 1, 1, 1
	for p := 0; p < off; {
		r, sz := utf8.DecodeRuneInString(src[p:])
		if r == '\n' {
			line++
			colRunes, colBytes = 1, 1
		} else {
			colRunes++
			colBytes += sz
		}
		p += sz
	}
	return
}
