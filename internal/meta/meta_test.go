package meta

import (
	"os"
	"path/filepath"
	"sort"
	"strings"
	"testing"

	"pgregory.net/rapid"
)

const sample = `struct P { x: f32, pos: vec2<f32>, n: u32, }
@group(0) @binding(0) var<uniform> u: P;
var<private> tab: array<i32, 4>;
const K = 7 / 2;
alias V = vec3<f32>;

fn side(v: i32) { }

@must_use
fn h(a: i32, w: vec2<f32>) -> i32 {
    var acc = a;
    acc = acc + 1;
    tab[a] = acc;
    acc += tab[1] % 3;
    acc++;
    side(acc);
    let q = &acc;
    *q = K;
    let s: vec2<f32> = w.yx;
    for (var i = 0; i < 4; i++) {
        if (a > i) && (u.n > 0u) { continue; }
    }
    loop {
        acc = acc - 1;
        continuing {
            acc = h(acc, w);
            break if acc < 0;
        }
    }
    switch a {
        case 1, 2: { acc = 0; }
        default: { }
    }
    const_assert K == 3;
    return select(acc, h(1, s), u.pos.x > u.x);
}

@compute @workgroup_size(K, 2)
fn main(@builtin(global_invocation_id) position: vec3<u32>) {
    let r = h(i32(position.x), vec2<f32>(0.5));
    _ = r;
}
`

func TestStructure(t *testing.T) {
	f, err := Analyze(sample)
	if err != nil || !f.Structured {
		t.Fatalf("analyze: %v %v", err, f)
	}
	var kinds []string
	for _, d := range f.Decls {
		kinds = append(kinds, d.Kind)
	}
	if got := strings.Join(kinds, " "); got != "struct var var const alias fn fn fn" {
		t.Errorf("decls: %s", got)
	}
	h := f.FindDecl("fn", "h")
	if h == nil || !h.MustUse || len(h.Params) != 2 || f.Toks[h.RetStart].Text != "i32" {
		t.Errorf("fn h: %+v", h)
	}
	if m := f.FindDecl("fn", "main"); m == nil || m.Stage != "compute" {
		t.Errorf("fn main: %+v", m)
	}
	want := map[string]Role{"P": RoleDeclStruct, "pos": RoleDeclMember, "tab": RoleDeclGlobal, "K": RoleDeclGlobal,
		"V": RoleDeclAlias, "h": RoleDeclFn, "a": RoleDeclParam, "acc": RoleDeclLocal, "i": RoleDeclLocal, "position": RoleDeclParam}
	for name, role := range want {
		if !f.Names[name][role] {
			t.Errorf("%s not declared as role %d: %v", name, role, f.Names[name])
		}
	}
	// roles of some uses
	for i, tk := range f.Toks {
		switch {
		case tk.Text == "uniform" || tk.Text == "private":
			if f.Info[i].Role != RoleEnumerant {
				t.Errorf("%s: role %d", tk.Text, f.Info[i].Role)
			}
		case tk.Text == "global_invocation_id":
			if f.Info[i].Role != RoleAttrEnum {
				t.Errorf("%s: role %d", tk.Text, f.Info[i].Role)
			}
		case tk.Text == "yx":
			if f.Info[i].Role != RoleMember {
				t.Errorf("yx: role %d", f.Info[i].Role)
			}
		}
	}
	got := f.Renameable()
	if strings.Join(got, " ") != "K P V acc h i n pos q s side tab u v" {
		t.Errorf("renameable: %v", got)
	}
}

func TestParenSitesAreRValues(t *testing.T) {
	f, _ := Analyze(sample)
	var got []string
	for _, s := range f.parenSites() {
		got = append(got, s.class+":"+f.Src[f.Toks[s.lo].Off:f.Toks[s.hi].End])
		// never the target of an assignment, never an '&' operand, never a type
		prev := f.text(s.lo - 1)
		if prev == "&" || prev == ":" || prev == "->" {
			t.Errorf("bad paren site after %q: %s", prev, got[len(got)-1])
		}
		next := f.text(s.hi + 1)
		if assignOps[next] {
			t.Errorf("paren site is an assignment target: %s", got[len(got)-1])
		}
	}
	joined := strings.Join(got, "\n")
	for _, must := range []string{"paren.lit:7", "paren.ident:acc", "paren.call:h(acc, w)", "paren.call:h(1, s)", "paren.ident:K",
		"paren.paren:(a > i)", "paren.call:vec2<f32>(0.5)", "paren.ident:w", "paren.tmpl:4", "paren.lit:3"} {
		if !strings.Contains(joined, must) {
			t.Errorf("missing paren site %s in\n%s", must, joined)
		}
	}
	lhsTab := -1
	for i := range f.Toks {
		if f.Toks[i].Text == "tab" && f.text(i+2) == "a" {
			lhsTab = i
		}
	}
	for _, s := range f.parenSites() {
		if s.lo >= lhsTab && s.lo <= lhsTab+3 {
			t.Errorf("paren site inside the assignment target tab[a]")
		}
	}
	for _, mustNot := range []string{"paren.ident:q\n", "paren.call:side(acc)", "paren.ident:P", "paren.ident:V"} {
		if strings.Contains(joined+"\n", mustNot) {
			t.Errorf("unexpected paren site %q", mustNot)
		}
	}
}

func TestCommaSites(t *testing.T) {
	f, _ := Analyze(sample)
	count := map[string]int{}
	for _, s := range f.commaSites() {
		count[s.class]++
	}
	for _, c := range []string{"comma.struct.remove", "comma.param", "comma.attr", "comma.tmpl.var", "comma.tmpl.array",
		"comma.tmpl.vec", "comma.call", "comma.case"} {
		if count[c] == 0 {
			t.Errorf("no site of class %s: %v", c, count)
		}
	}
}

func TestBreakSites(t *testing.T) {
	f, _ := Analyze(sample)
	counts := f.BreakCount()
	for _, r := range Rules {
		if counts[r] == 0 {
			t.Errorf("rule %s has no site in the sample", r)
		}
	}
	for _, r := range Rules {
		for _, b := range f.BreakAll(r) {
			if b.Edited == sample {
				t.Errorf("%s/%s: no change", r, b.Sub)
			}
			if b.DeclHi < b.DeclLo || b.DeclHi > len(b.Edited) {
				t.Errorf("%s/%s: bad decl range %d..%d", r, b.Sub, b.DeclLo, b.DeclHi)
			}
			if b.Exact && (b.ExpOff < b.Off || b.ExpOff >= len(b.Edited)) {
				t.Errorf("%s/%s: bad expected offset %d (site %d)", r, b.Sub, b.ExpOff, b.Off)
			}
			if _, err := Tokenize(b.Edited); err != nil {
				t.Errorf("%s/%s: edited text does not tokenise: %v", r, b.Sub, err)
			}
		}
	}
	// the statement form of the @must_use call is inserted in front of its statement
	found := false
	for _, b := range f.BreakAll("mustuse") {
		if strings.Contains(b.Edited, "h(acc, w); acc = h(acc, w);") {
			found = true
			if !contains(b.Where, "continuing") {
				t.Errorf("continuing site not tagged: %v", b.Where)
			}
		}
	}
	if !found {
		t.Errorf("no mustuse site inside the continuing block")
	}
	// a semicolon is only deleted where the next token cannot continue the statement
	for _, b := range f.BreakAll("semicolon") {
		rest := strings.TrimLeft(b.Edited[b.Off:], " \n\t")
		ok := false
		for _, p := range []string{"}", "let", "var", "return", "if", "for", "loop", "switch", "break", "continue", "const", "const_assert",
			"fn", "struct", "alias", "@", "while", "continuing", "discard"} {
			if strings.HasPrefix(rest, p) {
				ok = true
			}
		}
		if !ok {
			t.Errorf("semicolon deleted before %q", rest[:min(20, len(rest))])
		}
	}
}

func contains(l []string, s string) bool {
	for _, x := range l {
		if x == s {
			return true
		}
	}
	return false
}

func TestNeutralEditsOnSample(t *testing.T) {
	seen := map[string]bool{}
	n := &Neutral{}
	rapid.Check(t, func(rt *rapid.T) {
		out, descs := n.Apply(rt, sample, 6)
		for _, d := range descs {
			seen[d.Class] = true
		}
		renamed, eol := false, false
		for _, d := range descs {
			renamed = renamed || d.Class == "rename"
			eol = eol || strings.HasPrefix(d.Class, "eol")
		}
		if _, err := Tokenize(out); err != nil {
			rt.Fatalf("edited text does not tokenise: %v\n%s", err, out)
		}
		f2, err := Analyze(out)
		if err != nil || !f2.Structured {
			rt.Fatalf("edited text not analysable: %v", err)
		}
	})
	var cl []string
	for c := range seen {
		cl = append(cl, c)
	}
	sort.Strings(cl)
	t.Logf("classes applied: %v", cl)
	for _, must := range []string{"ws.insert", "ws.remove", "comment.line", "comment.block", "comment.block.nested", "ws.exotic",
		"paren.lit", "paren.ident", "paren.call", "comma.call", "comma.param", "rename", "adj.merge.gteq", "eol.crlf"} {
		if !seen[must] {
			t.Errorf("class %s never applied", must)
		}
	}
}

func TestBlockCommentsBalanced(t *testing.T) {
	rapid.Check(t, func(rt *rapid.T) {
		c := BlockComment(rt)
		toks, err := Tokenize("a" + c + "b")
		if err != nil || len(toks) != 2 {
			rt.Fatalf("comment %q is not one comment: %v %v", c, toks, err)
		}
	})
}

// TestNeutralOnCorpus applies edits to corpus files: every edit must keep the
// expected token sequence (verified inside the transformers) and the result
// must stay analysable.
func TestNeutralOnCorpus(t *testing.T) {
	files, _ := filepath.Glob("/repo/snapshot/testdata/in/*.wgsl")
	if len(files) == 0 {
		t.Skip("no corpus")
	}
	sort.Strings(files)
	var texts []string
	for _, p := range files {
		b, _ := os.ReadFile(p)
		if len(b) < 20000 {
			texts = append(texts, string(b))
		}
	}
	n := &Neutral{}
	rapid.Check(t, func(rt *rapid.T) {
		src := texts[rapid.IntRange(0, len(texts)-1).Draw(rt, "file")]
		out, descs := n.Apply(rt, src, 5)
		ren := false
		for _, d := range descs {
			ren = ren || d.Class == "rename"
		}
		if len(descs) > 0 && !ren {
			// without renaming, parentheses and commas are the only token changes
			a, _ := Tokenize(src)
			b, err := Tokenize(out)
			if err != nil {
				rt.Fatalf("edited corpus text does not tokenise: %v", err)
			}
			strip := func(ts []Token) []string {
				var o []string
				for _, x := range ts {
					if x.Text != "(" && x.Text != ")" && x.Text != "," {
						o = append(o, x.Text)
					}
				}
				return o
			}
			if strings.Join(strip(a), " ") != strings.Join(strip(b), " ") {
				rt.Fatalf("token sequence changed beyond parentheses and commas: %v", descs)
			}
		}
	})
}
