package meta

import (
	"fmt"
	"sort"
	"strings"

	"pgregory.net/rapid"
)

// EditDesc describes one applied edit (for evidence and replay files).
type EditDesc struct {
	Class  string `json:"class"`             // edit class, e.g. "comment.block", "comma.tmpl.array"
	Tok    int    `json:"tok"`               // anchoring token index in the text the edit was applied to
	Off    int    `json:"off"`               // byte offset of the edit in that text
	Arg    string `json:"arg,omitempty"`     // inserted text / chosen names
	InExpr bool   `json:"in_expr,omitempty"` // the site lies inside an expression or template list
}

// Family returns the part of the class before the first dot ("comment", "ws", ...).
func (e EditDesc) Family() string {
	if i := strings.IndexByte(e.Class, '.'); i >= 0 {
		return e.Class[:i]
	}
	return e.Class
}

// Neutral applies meaning-neutral edits.  Skip, when non-nil, is asked for
// every concrete edit class (and its parents: "a.b.c" asks "a.b.c", "a.b",
// "a") and vetoes it — used to stay away from classes with a known finding.
type Neutral struct {
	Skip func(class string) bool
	// NoRename disables the renaming class (its oracle differs).
	NoRename bool
}

func (n *Neutral) skipped(class string) bool {
	if n.Skip == nil {
		return false
	}
	for c := class; ; {
		if n.Skip(c) {
			return true
		}
		i := strings.LastIndexByte(c, '.')
		if i < 0 {
			return false
		}
		c = c[:i]
	}
}

// sig is the token signature compared by the post-condition of every edit.
func sig(toks []Token) []string {
	out := make([]string, len(toks))
	for i, t := range toks {
		out[i] = t.Text
		switch t.Tmpl {
		case 1:
			out[i] += "\x00open"
		case -1:
			out[i] += "\x00close"
		}
	}
	return out
}

func sameSig(a, b []string) bool {
	if len(a) != len(b) {
		return false
	}
	for i := range a {
		if a[i] != b[i] {
			return false
		}
	}
	return true
}

// verify re-tokenises out and checks it yields exactly the wanted signature.
func verify(out string, want []string) bool {
	toks, err := Tokenize(out)
	if err != nil {
		return false
	}
	return sameSig(sig(toks), want)
}

// SameTokens reports whether a and b tokenise to the same token sequence
// (texts and template brackets), i.e. differ in blankspace and comments only.
func SameTokens(a, b string) bool {
	ta, err := Tokenize(a)
	if err != nil {
		return false
	}
	return verify(b, sig(ta))
}

var neutralClasses = []string{
	"ws.insert", "ws.insert", "ws.remove", "ws.remove", "adj.merge", "adj.merge",
	"comment.line", "comment.line", "comment.block", "comment.block", "comment.block",
	"ws.exotic", "eol", "paren", "paren", "paren", "unparen", "unparen", "comma", "comma", "comma", "rename",
}

// Apply draws and applies count neutral edits to src.  It returns the final
// text and the descriptions of the edits that were applied (possibly fewer
// than count when the text offers no site).
func (n *Neutral) Apply(t *rapid.T, src string, count int) (string, []EditDesc) {
	var descs []EditDesc
	cur := src
	renamed := false
	for k := 0; k < count; k++ {
		f, err := Analyze(cur)
		if err != nil || len(f.Toks) == 0 {
			break
		}
		start := rapid.IntRange(0, len(neutralClasses)-1).Draw(t, "class")
		applied := false
		for a := 0; a < len(neutralClasses) && !applied; a++ {
			fam := neutralClasses[(start+a)%len(neutralClasses)]
			if fam == "rename" && (renamed || n.NoRename) {
				continue
			}
			out, d, ok := n.one(t, f, fam)
			if !ok {
				continue
			}
			cur = out
			descs = append(descs, d)
			applied = true
			if fam == "rename" {
				renamed = true
			}
		}
		if !applied {
			break
		}
	}
	return cur, descs
}

// One applies a single edit of the given family ("ws.insert", "ws.remove",
// "adj.merge", "comment.line", "comment.block", "ws.exotic", "eol", "paren",
// "comma", "rename") to f.
func (n *Neutral) One(t *rapid.T, f *File, family string) (string, EditDesc, bool) {
	return n.one(t, f, family)
}

func (n *Neutral) one(t *rapid.T, f *File, fam string) (string, EditDesc, bool) {
	switch fam {
	case "ws.insert":
		return n.wsInsert(t, f, "ws.insert", []string{" ", "\t", "\n", "\r\n", "  ", "\n\n", " \t ", "\r", "\n\t\t"})
	case "ws.exotic":
		return n.wsInsert(t, f, "ws.exotic", []string{"\v", "\f", "\u0085", "\u200e", "\u200f", "\u2028", "\u2029"})
	case "ws.remove":
		return n.wsRemove(t, f, false)
	case "adj.merge":
		return n.wsRemove(t, f, true)
	case "comment.line":
		return n.commentLine(t, f)
	case "comment.block":
		return n.commentBlock(t, f)
	case "eol":
		return n.eol(t, f)
	case "paren":
		return n.paren(t, f)
	case "unparen":
		return n.unparen(t, f)
	case "comma":
		return n.comma(t, f)
	case "rename":
		return n.rename(t, f)
	}
	return "", EditDesc{}, false
}

// InExpr reports whether the boundary before token i lies inside an
// expression or a template list.
func (f *File) InExpr(i int) bool {
	if !f.Structured || i <= 0 || i >= len(f.Toks) {
		return false
	}
	if f.Info[i].InAttr {
		return false
	}
	if e := f.Info[i].Encl; e >= 0 && f.Toks[e].Text != "{" {
		if f.Toks[e].Text == "(" && f.Info[e].Encl < 0 { // parameter list of a fn declaration
			return f.Toks[e].Tmpl != 0
		}
		return true
	}
	p, c := f.text(i-1), f.text(i)
	if f.Info[i].Block > 0 {
		return !(p == "{" || p == "}" || p == ";" || c == "}" || c == "{" || c == ";")
	}
	if d := f.DeclOf(i); d != nil && d.InitStart >= 0 {
		return i > d.InitStart && i <= d.InitEnd
	}
	return false
}

// boundary draws a token boundary 0..len(Toks) that is not frozen.
func (f *File) boundary(t *rapid.T) (int, bool) {
	for try := 0; try < 8; try++ {
		i := rapid.IntRange(0, len(f.Toks)).Draw(t, "boundary")
		if !f.Frozen[i] {
			return i, true
		}
	}
	return 0, false
}

// insertionPoint returns a byte offset inside boundary i: directly after
// token i-1 (before the existing trivia) or directly before token i.
func (f *File) insertionPoint(t *rapid.T, i int) int {
	lo, hi := 0, len(f.Src)
	if i > 0 {
		lo = f.Toks[i-1].End
	}
	if i < len(f.Toks) {
		hi = f.Toks[i].Off
	}
	if lo == hi || rapid.Bool().Draw(t, "beforeToken") {
		return hi
	}
	return lo
}

func splice(src string, off int, ins string) string { return src[:off] + ins + src[off:] }

func (n *Neutral) wsInsert(t *rapid.T, f *File, class string, alphabet []string) (string, EditDesc, bool) {
	if n.skipped(class) {
		return "", EditDesc{}, false
	}
	i, ok := f.boundary(t)
	if !ok {
		return "", EditDesc{}, false
	}
	off := f.insertionPoint(t, i)
	ws := rapid.SampledFrom(alphabet).Draw(t, "ws")
	if ws == "\r" && n.skipped("ws.insert.cr") {
		ws = " "
	}
	out := splice(f.Src, off, ws)
	if !verify(out, sig(f.Toks)) {
		return "", EditDesc{}, false
	}
	return out, EditDesc{Class: class, Tok: i, Off: off, Arg: fmt.Sprintf("%q", ws), InExpr: f.InExpr(i)}, true
}

// needSep reports whether tokens a and b must stay separated by blankspace.
func needSep(a, b Token) bool {
	if a.Wordlike() && b.Wordlike() {
		return true
	}
	// Template closers may touch each other and a following '='.
	if a.Tmpl == -1 && (b.Tmpl == -1 || b.Text == "=") {
		return false
	}
	j := a.Text + b.Text
	toks, err := lexRaw(j)
	if err != nil || len(toks) < 2 {
		return true
	}
	// the raw lexer splits angle brackets; any adjacency of < > = - families is kept apart
	last := a.Text[len(a.Text)-1]
	first := b.Text[0]
	if strings.IndexByte("<>=", last) >= 0 && strings.IndexByte("<>=", first) >= 0 {
		return true
	}
	// number followed by '.', or '.' followed by number
	if (a.Kind == IntLit || a.Kind == FloatLit) && first == '.' || last == '.' && (b.Kind == IntLit || b.Kind == FloatLit) {
		return true
	}
	n := 0
	for _, t := range toks {
		n += len(t.Text)
	}
	return !(len(toks) == 2 && toks[0].Text == a.Text && toks[1].Text == b.Text && n == len(j))
}

func (n *Neutral) wsRemove(t *rapid.T, f *File, adjOnly bool) (string, EditDesc, bool) {
	type site struct {
		i     int
		class string
	}
	var sites []site
	for i := 1; i < len(f.Toks); i++ {
		a, b := f.Toks[i-1], f.Toks[i]
		if a.End == b.Off {
			continue
		}
		class := "ws.remove"
		if a.Tmpl == -1 && b.Tmpl == -1 {
			class = "adj.merge.gtgt"
			if f.text(i-2) == "," {
				class = "comma.tmpl.nested" // yields ",>>"
			}
		} else if a.Tmpl == -1 && b.Text == "=" {
			class = "adj.merge.gteq"
			if o := f.Info[i-1].Match; f.Structured && o > 0 && f.text(o-1) == "array" && f.Toks[i-2].Tmpl != -1 {
				class = "adj.merge.gteq.array"
			}
		}
		if adjOnly && class == "ws.remove" {
			continue
		}
		sites = append(sites, site{i, class})
	}
	if adjOnly {
		// the veto is asked per site so that an excluded sub-class does not starve the others
		kept := sites[:0]
		for _, s := range sites {
			if !n.skipped(s.class) {
				kept = append(kept, s)
			}
		}
		sites = kept
	}
	if len(sites) == 0 {
		return "", EditDesc{}, false
	}
	s := sites[rapid.IntRange(0, len(sites)-1).Draw(t, "site")]
	i, class := s.i, s.class
	if n.skipped(class) {
		return "", EditDesc{}, false
	}
	a, b := f.Toks[i-1], f.Toks[i]
	sep := ""
	if needSep(a, b) {
		sep = " "
	}
	if f.Src[a.End:b.Off] == sep {
		return "", EditDesc{}, false
	}
	out := f.Src[:a.End] + sep + f.Src[b.Off:]
	if !verify(out, sig(f.Toks)) {
		return "", EditDesc{}, false
	}
	return out, EditDesc{Class: class, Tok: i, Off: a.End, Arg: fmt.Sprintf("%q", f.Src[a.End:b.Off]), InExpr: f.InExpr(i)}, true
}

var hostileInline = []string{
	"*/", "* /", "/*", "/ *", "\"", "'", "\\", "\\n", "//", "///", "/", "*", "**", "\u00e9", "\u65e5\u672c\u8a9e", "\U0001d4b3",
	"\u00a0", "\u200b", "\ufeff", "`", "${x}", "%s%n", "<", ">>", ">=", "@", "#", "fn main() {", "}", ";",
	"\t", " ", "x", "\"unterminated", "'\\''", "<!--", "-->", "\x7f", "\u0301", "\u200e",
}

func hostileLine(t *rapid.T) string {
	var b strings.Builder
	for k := rapid.IntRange(0, 6).Draw(t, "pieces"); k > 0; k-- {
		if rapid.IntRange(0, 30).Draw(t, "long") == 0 {
			b.WriteString(strings.Repeat("/*-", rapid.IntRange(100, 1500).Draw(t, "run")))
			continue
		}
		b.WriteString(rapid.SampledFrom(hostileInline).Draw(t, "piece"))
	}
	return b.String()
}

var hostileBlock = []string{
	"* /", "/ *", "\"", "'", "\\", "\\n", "//", "/", "*", "**", "\u00e9", "\u65e5\u672c\u8a9e", "\U0001d4b3", "\u00a0", "\u200b",
	"`", "<", ">>", ">=", "@", "#", "fn main() {", "}", ";", "\t", " ", "x", "\n", "\r\n", "\r", "\n\n",
	"\"unterminated", "*\u200b/", "/\u200b*", "\u2028", "\u0085", "\v",
	// balanced nested comments whose delimiters touch other '/' and '*' characters
	"/*/ */", "/*/*/ */ */", "/**/", "/***/", "/*/**/*/", "/* /*/ x */ y */", "/*//*/", "/*\n//*/",
}

func blockText(t *rapid.T, depth int) string {
	var b strings.Builder
	for k := rapid.IntRange(0, 5).Draw(t, "pieces"); k > 0; k-- {
		var piece string
		switch r := rapid.IntRange(0, 24).Draw(t, "what"); {
		case r == 0:
			piece = strings.Repeat("* ", rapid.IntRange(100, 1500).Draw(t, "run"))
		case r <= 4 && depth < 3:
			piece = "/*" + blockText(t, depth+1) + "*/"
		default:
			piece = rapid.SampledFrom(hostileBlock).Draw(t, "piece")
		}
		cur := b.String()
		if strings.HasSuffix(cur, "*") && strings.HasPrefix(piece, "/") ||
			strings.HasSuffix(cur, "/") && strings.HasPrefix(piece, "*") {
			b.WriteByte(' ')
		}
		b.WriteString(piece)
	}
	s := b.String()
	if strings.HasPrefix(s, "/") || strings.HasPrefix(s, "*") {
		s = " " + s
	}
	if strings.HasSuffix(s, "/") || strings.HasSuffix(s, "*") {
		s += " "
	}
	return s
}

// BlockComment draws a (possibly nested) block comment with hostile content.
func BlockComment(t *rapid.T) string {
	c := "/*" + blockText(t, 0) + "*/"
	if end, err := skipTrivia(c, 0); err != nil || end != len(c) || !closesOnlyAtEnd(c) {
		return "/* */"
	}
	return c
}

// closesOnlyAtEnd checks that the comment's nesting depth reaches zero only
// at its last code point.
func closesOnlyAtEnd(c string) bool {
	depth := 0
	for i := 0; i < len(c); {
		switch {
		case c[i] == '/' && at(c, i+1) == '*':
			depth++
			i += 2
		case c[i] == '*' && at(c, i+1) == '/':
			depth--
			i += 2
			if depth == 0 {
				return i == len(c)
			}
		default:
			i++
		}
	}
	return false
}

func (n *Neutral) commentLine(t *rapid.T, f *File) (string, EditDesc, bool) {
	i, ok := f.boundary(t)
	if !ok {
		return "", EditDesc{}, false
	}
	off := f.insertionPoint(t, i)
	class := "comment.line"
	term := rapid.SampledFrom([]string{"\n", "\n", "\n", "\r\n", "\r\n", "\r", "\v", "\f", "\u0085", "\u2028", "\u2029", ""}).Draw(t, "term")
	switch term {
	case "\n", "\r\n":
	case "\r":
		class = "comment.line.cr"
	case "":
		if off != len(f.Src) {
			term = "\n"
		} else {
			class = "comment.line.eof"
		}
	default:
		class = "comment.line.exotic"
	}
	if n.skipped(class) {
		if n.skipped("comment.line") {
			return "", EditDesc{}, false
		}
		class, term = "comment.line", "\n"
	}
	c := "//" + hostileLine(t) + term
	if off > 0 && f.Src[off-1] == '/' {
		c = " " + c
	}
	out := splice(f.Src, off, c)
	if !verify(out, sig(f.Toks)) {
		return "", EditDesc{}, false
	}
	return out, EditDesc{Class: class, Tok: i, Off: off, Arg: c, InExpr: f.InExpr(i)}, true
}

func (n *Neutral) commentBlock(t *rapid.T, f *File) (string, EditDesc, bool) {
	if n.skipped("comment.block") {
		return "", EditDesc{}, false
	}
	i, ok := f.boundary(t)
	if !ok {
		return "", EditDesc{}, false
	}
	off := f.insertionPoint(t, i)
	c := BlockComment(t)
	class := "comment.block"
	if strings.Count(c, "/*") > 1 {
		class = "comment.block.nested"
	}
	if off > 0 && f.Src[off-1] == '/' {
		c = " " + c
	}
	out := splice(f.Src, off, c)
	if !verify(out, sig(f.Toks)) {
		return "", EditDesc{}, false
	}
	return out, EditDesc{Class: class, Tok: i, Off: off, Arg: c, InExpr: f.InExpr(i)}, true
}

func (n *Neutral) eol(t *rapid.T, f *File) (string, EditDesc, bool) {
	which := rapid.SampledFrom([]string{"eol.crlf", "eol.lf", "eol.cr"}).Draw(t, "eol")
	if n.skipped(which) {
		return "", EditDesc{}, false
	}
	norm := strings.ReplaceAll(f.Src, "\r\n", "\n")
	var out string
	switch which {
	case "eol.crlf":
		out = strings.ReplaceAll(norm, "\n", "\r\n")
	case "eol.lf":
		out = norm
	case "eol.cr":
		if strings.Contains(f.Src, "//") && n.skipped("eol.cr.comment") {
			return "", EditDesc{}, false
		}
		out = strings.ReplaceAll(norm, "\n", "\r")
	}
	if out == f.Src || !verify(out, sig(f.Toks)) {
		return "", EditDesc{}, false
	}
	return out, EditDesc{Class: which}, true
}

// ---------------------------------------------------------------------------
// redundant parentheses

var assignOps = map[string]bool{"=": true, "+=": true, "-=": true, "*=": true, "/=": true, "%=": true,
	"&=": true, "|=": true, "^=": true, "<<=": true, ">>=": true, "++": true, "--": true}

// RValue reports whether token i sits at a place that is certainly part of an
// r-value expression: the right-hand side of a declaration or assignment, a
// condition, a return value, a call argument, a case selector, a module-scope
// initialiser.  Left-hand sides, type annotations, attributes and template
// lists answer false.
func (f *File) RValue(i int) bool {
	if !f.Structured || f.Info[i].InAttr {
		return false
	}
	// nothing directly or indirectly inside a template list
	for e := f.Info[i].Encl; e >= 0; e = f.Info[e].Encl {
		if f.Toks[e].Tmpl != 0 {
			return false
		}
	}
	if f.Info[i].Block == 0 {
		d := f.DeclOf(i)
		if d == nil {
			return false
		}
		switch d.Kind {
		case "var", "const", "override":
			return d.InitStart >= 0 && i >= d.InitStart && i <= d.InitEnd
		case "const_assert":
			return i > d.Kw && i < d.End
		}
		return false
	}
	// climb to the statement level
	j := i
	isForParen := func(e int) bool { return f.Toks[e].Text == "(" && f.text(e-1) == "for" }
	for {
		e := f.Info[j].Encl
		if e < 0 || f.Toks[e].Text == "{" || isForParen(e) {
			break
		}
		j = e
	}
	level := f.Info[j].Encl
	if level < 0 {
		return false
	}
	boundary := func(k int) bool {
		t := f.Toks[k]
		return f.Info[k].Encl == level && t.Kind == Punct && (t.Text == ";" || t.Text == "{" || t.Text == "}")
	}
	start := j
	for start-1 > level && !boundary(start-1) {
		start--
	}
	end := j
	closer := f.Info[level].Match
	for end < closer && !boundary(end) {
		end++
	}
	if boundary(j) {
		return false
	}
	asg := -1
	for k := start; k < end; k++ {
		if f.Info[k].Encl == level && f.Toks[k].Kind == Punct && assignOps[f.Toks[k].Text] {
			asg = k
			break
		}
	}
	first := f.Toks[start]
	switch {
	case first.Kind == Keyword && (first.Text == "let" || first.Text == "var" || first.Text == "const"):
		return asg >= 0 && i > asg && j > asg
	case asg >= 0:
		return j > asg
	case first.Kind == Keyword:
		switch first.Text {
		case "return", "if", "while", "switch", "case", "break", "const_assert", "else":
			return j > start
		}
		return false
	case isForParen(level):
		// init ; cond ; update  -- only the condition segment is a plain expression
		seg := 0
		for k := level + 1; k < start; k++ {
			if f.Info[k].Encl == level && f.Toks[k].Text == ";" {
				seg++
			}
		}
		return seg == 1
	default:
		// call statement: only what is inside its parentheses
		return i != j
	}
}

type parenSite struct {
	lo, hi int
	class  string
}

func (f *File) parenSites() []parenSite {
	var out []parenSite
	if !f.Structured {
		return nil
	}
	for i, t := range f.Toks {
		prev := f.text(i - 1)
		switch {
		case t.Kind == IntLit || t.Kind == FloatLit || t.Kind == Keyword && (t.Text == "true" || t.Text == "false"):
			if f.RValue(i) {
				out = append(out, parenSite{i, i, "paren.lit"})
			} else if e := f.Info[i].Encl; e >= 0 && f.Toks[e].Tmpl == 1 && f.text(e-1) == "array" &&
				!f.Info[i].InAttr && f.text(i-1) == "," && f.Info[e].Match == i+1 && t.Kind == IntLit {
				out = append(out, parenSite{i, i, "paren.tmpl"})
			}
		case t.Kind == Ident && f.Info[i].Role == RoleUse:
			if prev == "&" || !f.RValue(i) {
				continue
			}
			next := i + 1
			if next < len(f.Toks) && f.Toks[next].Tmpl == 1 {
				next = f.Info[next].Match + 1
			}
			if f.text(next) == "(" && f.Toks[next].Kind == Punct {
				// a whole call / construction expression; the statement-level call is refused by RValue
				out = append(out, parenSite{i, f.Info[next].Match, "paren.call"})
				continue
			}
			if next != i+1 {
				continue // template without call: a type
			}
			if IsPredeclared(t.Text) {
				continue
			}
			if m := f.Names[t.Text]; m[RoleDeclStruct] || m[RoleDeclAlias] || m[RoleDeclFn] {
				continue
			}
			out = append(out, parenSite{i, i, "paren.ident"})
		case t.Kind == Punct && t.Text == "(":
			p := i - 1
			if p >= 0 && (f.Toks[p].Kind == Ident || f.Toks[p].Tmpl == -1 || prev == "for" || prev == ")" || prev == "]") {
				continue
			}
			if f.RValue(i) && f.Info[i].Match > i+1 {
				out = append(out, parenSite{i, f.Info[i].Match, "paren.paren"})
			}
		}
	}
	out = append(out, f.assocSites()...)
	return out
}

// opFamily orders the binary operators whose chains are left-associative: * / % bind tighter than + -; each of
// & ^ | && || only chains with itself (WGSL requires parentheses to mix them).  0: not handled.
func opFamily(op string) int {
	switch op {
	case "*", "/", "%":
		return 5
	case "+", "-":
		return 4
	case "&":
		return 31
	case "^":
		return 32
	case "|":
		return 33
	case "&&":
		return 21
	case "||":
		return 22
	}
	return 0
}

var exprStarts = map[string]bool{"(": true, ",": true, "=": true, "return": true, "[": true, "+=": true, "-=": true, "*=": true, "/=": true,
	"%=": true, "&=": true, "|=": true, "^=": true, "if": true, "while": true}

// unparen removes the parentheses of `(P op1 Q) op2 R` where the grammar groups the chain that way anyhow
// (op1 binds at least as tightly as op2, which is left-associative, and nothing in front competes for P).
func (n *Neutral) unparen(t *rapid.T, f *File) (string, EditDesc, bool) {
	if !f.Structured || n.skipped("unparen.assoc") {
		return "", EditDesc{}, false
	}
	var sites [][2]int
	byFam := map[int][][2]int{}
	for i, tk := range f.Toks {
		if tk.Kind != Punct || tk.Text != "(" || tk.Tmpl != 0 || f.Info[i].InAttr || !f.RValue(i) {
			continue
		}
		j := f.Info[i].Match
		if j <= i+3 || j+1 >= len(f.Toks) || f.Frozen[i] || f.Frozen[i+1] || f.Frozen[j] || f.Frozen[j+1] {
			continue
		}
		if p := i - 1; p >= 0 && (f.Toks[p].Kind == Ident || f.Toks[p].Tmpl == -1 || f.text(p) == ")" || f.text(p) == "]") {
			continue // a call, a constructor, an index base
		}
		// exactly one operator at the top level of the group, and it is a handled binary operator
		op1, nops := "", 0
		for k := i + 1; k < j; k++ {
			if f.Info[k].Encl != i || f.Toks[k].Kind != Punct || f.Toks[k].Tmpl != 0 {
				continue
			}
			switch f.Toks[k].Text {
			case ".", "(", ")", "[", "]":
				// member access, calls, nested groups and indexing belong to the operands
			case ",":
				nops += 2 // not a single expression
			default:
				if k == i+1 {
					nops += 2 // leading unary operator: keep it simple
				}
				op1 = f.Toks[k].Text
				nops++
			}
		}
		f1 := opFamily(op1)
		if nops != 1 || f1 == 0 {
			continue
		}
		op2 := f.text(j + 1)
		if f.Toks[j+1].Kind != Punct || f.Toks[j+1].Tmpl != 0 {
			continue
		}
		switch f2 := opFamily(op2); {
		case f1 == 5 && (f2 == 5 || f2 == 4):
		case f1 == 4 && f2 == 4:
		case f1 > 20 && f2 == f1:
		default:
			continue
		}
		prev := f.text(i - 1)
		ok := exprStarts[prev] && (i < 1 || f.Toks[i-1].Tmpl == 0)
		if !ok && (f1 == 5) && i >= 2 && f.Toks[i-1].Kind == Punct && f.Toks[i-1].Tmpl == 0 && opFamily(prev) == 4 {
			if q := f.Toks[i-2]; q.Kind == Ident || q.Kind == IntLit || q.Kind == FloatLit || f.text(i-2) == ")" || f.text(i-2) == "]" {
				ok = true // `w + (P * Q) * R`
			}
		}
		if ok {
			sites = append(sites, [2]int{i, j})
			byFam[f1] = append(byFam[f1], [2]int{i, j})
		}
	}
	if len(sites) == 0 {
		return "", EditDesc{}, false
	}
	// every operator family gets the same share, however rare its chains are
	var fams []int
	for _, fm := range []int{5, 4, 31, 32, 33, 21, 22} {
		if len(byFam[fm]) > 0 {
			fams = append(fams, fm)
		}
	}
	fam := fams[rapid.IntRange(0, len(fams)-1).Draw(t, "family")]
	sites = byFam[fam]
	famName := map[int]string{5: "mul", 4: "add", 31: "and", 32: "xor", 33: "or", 21: "land", 22: "lor"}[fam]
	st := sites[rapid.IntRange(0, len(sites)-1).Draw(t, "site")]
	i, j := st[0], st[1]
	out := f.Src[:f.Toks[i].Off] + " " + f.Src[f.Toks[i].End:f.Toks[j].Off] + " " + f.Src[f.Toks[j].End:]
	old := sig(f.Toks)
	want := make([]string, 0, len(old))
	want = append(want, old[:i]...)
	want = append(want, old[i+1:j]...)
	want = append(want, old[j+1:]...)
	if !verify(out, want) {
		return "", EditDesc{}, false
	}
	return out, EditDesc{Class: "unparen.assoc." + famName, Tok: i, Off: f.Toks[i].Off, Arg: f.Src[f.Toks[i].Off:f.Toks[j].End], InExpr: true}, true
}

// assocSites finds `X op1 Y` at the head of a chain `X op1 Y op2 ...` that the grammar already groups as
// (X op1 Y): X and Y are single-token operands, op1 is left-associative, what follows binds no tighter and
// nothing in front of X competes for it.  Writing the parentheses is then meaning-neutral.
func (f *File) assocSites() []parenSite {
	fam := func(op string) int {
		switch op {
		case "*", "/", "%":
			return 5
		case "+", "-":
			return 4
		case "&":
			return 31
		case "^":
			return 32
		case "|":
			return 33
		case "&&":
			return 21
		case "||":
			return 22
		}
		return 0
	}
	operand := func(i int) bool {
		if i < 0 || i >= len(f.Toks) || f.Info[i].InAttr {
			return false
		}
		t := f.Toks[i]
		switch {
		case t.Kind == IntLit || t.Kind == FloatLit:
			return true
		case t.Kind == Ident && f.Info[i].Role == RoleUse && !IsPredeclared(t.Text):
			m := f.Names[t.Text]
			return !(m[RoleDeclStruct] || m[RoleDeclAlias] || m[RoleDeclFn])
		}
		return false
	}
	starts := map[string]bool{"(": true, ",": true, "=": true, "return": true, "[": true, "+=": true, "-=": true, "*=": true, "/=": true,
		"%=": true, "&=": true, "|=": true, "^=": true, "if": true, "while": true}
	var out []parenSite
	for i := 0; i+3 < len(f.Toks); i++ {
		if !operand(i) || !operand(i+2) || f.Toks[i+1].Kind != Punct || f.Toks[i+3].Kind != Punct {
			continue
		}
		if f.Toks[i+1].Tmpl != 0 || f.Toks[i+3].Tmpl != 0 || f.Frozen[i] || f.Frozen[i+3] {
			continue
		}
		op1, op2 := f.Toks[i+1].Text, f.Toks[i+3].Text
		f1 := fam(op1)
		if f1 == 0 {
			continue
		}
		// what follows binds no tighter
		switch f2 := fam(op2); {
		case op2 == ")" || op2 == ";" || op2 == ",":
		case f1 == 5 && (f2 == 5 || f2 == 4 || op2 == "==" || op2 == "!="):
		case f1 == 4 && (f2 == 4 || op2 == "==" || op2 == "!="):
		case f1 > 20 && f2 == f1:
		default:
			continue
		}
		// nothing in front of X competes for it
		prev := f.text(i - 1)
		ok := starts[prev] && (i < 1 || f.Toks[i-1].Tmpl == 0)
		if !ok && (f1 == 5 || f1 == 4) && i >= 2 && f.Toks[i-1].Kind == Punct && f.Toks[i-1].Tmpl == 0 {
			// a binary operator of lower precedence whose left operand is in sight: `w + X * Y`
			if pf := fam(prev); pf != 0 && pf < f1 && pf != 31 && (operand(i-2) || f.text(i-2) == ")" || f.text(i-2) == "]") {
				ok = true
			}
		}
		if !ok || !f.RValue(i) {
			continue
		}
		out = append(out, parenSite{i, i + 2, "paren.assoc"})
	}
	return out
}

func (n *Neutral) paren(t *rapid.T, f *File) (string, EditDesc, bool) {
	var sites []parenSite
	for _, s := range f.parenSites() {
		if f.Frozen[s.lo] || f.Frozen[s.hi+1] {
			continue // glued to a neighbour (vendor literal suffix such as 1lf)
		}
		if f.text(s.lo-1) == "const_assert" && !(f.text(s.hi+1) == ";") {
			s.class = "paren.const_assert" // "const_assert (a) == b;"
		}
		if !n.skipped(s.class) {
			sites = append(sites, s)
		}
	}
	if len(sites) == 0 {
		return "", EditDesc{}, false
	}
	s := sites[rapid.IntRange(0, len(sites)-1).Draw(t, "site")]
	pad := rapid.SampledFrom([]string{"", "", " "}).Draw(t, "pad")
	a, b := f.Toks[s.lo].Off, f.Toks[s.hi].End
	out := f.Src[:a] + "(" + pad + f.Src[a:b] + pad + ")" + f.Src[b:]
	old := sig(f.Toks)
	want := make([]string, 0, len(old)+2)
	want = append(want, old[:s.lo]...)
	want = append(want, "(")
	want = append(want, old[s.lo:s.hi+1]...)
	want = append(want, ")")
	want = append(want, old[s.hi+1:]...)
	if !verify(out, want) {
		return "", EditDesc{}, false
	}
	return out, EditDesc{Class: s.class, Tok: s.lo, Off: a, Arg: f.Src[a:b], InExpr: true}, true
}

// ---------------------------------------------------------------------------
// trailing commas

type commaSite struct {
	tok    int // the comma goes directly after token tok (add) or token tok is the comma to drop
	class  string
	remove bool
	inExpr bool
}

func tmplClass(gen string) string {
	switch {
	case gen == "array", gen == "var", gen == "ptr", gen == "bitcast", gen == "atomic":
		return gen
	case strings.HasPrefix(gen, "vec"):
		return "vec"
	case strings.HasPrefix(gen, "mat"):
		return "mat"
	case strings.HasPrefix(gen, "texture_"):
		return "texture"
	}
	return "" // not a template generator of the WGSL specification (binding_array, ray_query ...): left alone
}

func (f *File) commaSites() []commaSite {
	if !f.Structured {
		return nil
	}
	var out []commaSite
	add := func(open int, class string, inExpr bool) {
		cl := f.Info[open].Match
		if cl <= open+1 {
			return
		}
		if f.text(cl-1) == "," && f.Toks[cl-1].Kind == Punct {
			out = append(out, commaSite{cl - 1, class + ".remove", true, inExpr})
		} else {
			out = append(out, commaSite{cl - 1, class, false, inExpr})
		}
	}
	for _, d := range f.Decls {
		switch d.Kind {
		case "fn":
			add(d.ParamOpen, "comma.param", false)
		case "struct":
			add(d.BodyOpen, "comma.struct", false)
		}
	}
	for i, t := range f.Toks {
		switch {
		case t.Kind == Punct && t.Text == "@":
			if f.text(i+2) == "(" {
				add(i+2, "comma.attr", false)
			}
		case t.Tmpl == 1:
			cl := f.Info[i].Match
			if tmplClass(f.text(i-1)) == "" {
				continue
			}
			if cl+1 < len(f.Toks) && f.Toks[cl+1].Tmpl == -1 && f.Toks[cl].End == f.Toks[cl+1].Off {
				add(i, "comma.tmpl.nested", true) // yields ",>>"
			} else {
				add(i, "comma.tmpl."+tmplClass(f.text(i-1)), true)
			}
		case t.Kind == Punct && t.Text == "(" && !f.Info[i].InAttr && (f.Info[i].Block > 0 || f.RValueOrInit(i)):
			p := i - 1
			if p < 0 {
				continue
			}
			if f.Toks[p].Tmpl == -1 && f.text(f.Info[p].Match-1) == "bitcast" {
				add(i, "comma.call.bitcast", true)
			} else if f.Toks[p].Tmpl == -1 || f.Toks[p].Kind == Ident && f.Info[p].Role == RoleUse {
				add(i, "comma.call", true)
			}
		case t.Kind == Keyword && t.Text == "case" && f.Info[i].Block > 0:
			lvl := f.Info[i].Encl
			for k := i + 1; k < len(f.Toks); k++ {
				if f.isOpen(k) && f.Toks[k].Text != "{" {
					k = f.Info[k].Match
					continue
				}
				if f.Info[k].Encl == lvl && (f.Toks[k].Text == ":" || f.Toks[k].Text == "{") {
					if k-1 > i {
						if f.text(k-1) == "," {
							out = append(out, commaSite{k - 1, "comma.case.remove", true, true})
						} else {
							out = append(out, commaSite{k - 1, "comma.case", false, true})
						}
					}
					break
				}
			}
		}
	}
	return out
}

// RValueOrInit reports whether token i at module scope lies inside an initialiser.
func (f *File) RValueOrInit(i int) bool {
	d := f.DeclOf(i)
	return d != nil && d.InitStart >= 0 && i >= d.InitStart && i <= d.InitEnd
}

func (n *Neutral) comma(t *rapid.T, f *File) (string, EditDesc, bool) {
	var sites []commaSite
	for _, s := range f.commaSites() {
		if !f.Frozen[s.tok+1] && !f.Frozen[s.tok] && !n.skipped(s.class) {
			sites = append(sites, s)
		}
	}
	if len(sites) == 0 {
		return "", EditDesc{}, false
	}
	s := sites[rapid.IntRange(0, len(sites)-1).Draw(t, "site")]
	old := sig(f.Toks)
	var out string
	var want []string
	if s.remove {
		c := f.Toks[s.tok]
		out = f.Src[:c.Off] + " " + f.Src[c.End:]
		want = append(append(want, old[:s.tok]...), old[s.tok+1:]...)
	} else {
		off := f.Toks[s.tok].End
		out = splice(f.Src, off, ",")
		want = append(append(append(want, old[:s.tok+1]...), ","), old[s.tok+1:]...)
	}
	if !verify(out, want) {
		return "", EditDesc{}, false
	}
	return out, EditDesc{Class: s.class, Tok: s.tok, Off: f.Toks[s.tok].End, InExpr: s.inExpr}, true
}

// ---------------------------------------------------------------------------
// consistent renaming

// Renameable returns the user-declared names that consistent renaming may
// change, sorted.  Entry point names stay fixed (they are part of the
// interface the backends print); names with a predeclared or
// context-dependent meaning and swizzle look-alikes stay fixed because a
// rename by spelling could capture an unrelated use.
func (f *File) Renameable() []string {
	if !f.Structured {
		return nil
	}
	entry := map[string]bool{}
	for _, d := range f.Decls {
		if d.Kind == "fn" && d.Stage != "" {
			entry[f.Toks[d.Name].Text] = true
		}
	}
	var out []string
	for name := range f.Names {
		if Untouchable(name) || entry[name] {
			continue
		}
		ascii := true
		for i := 0; i < len(name); i++ {
			if name[i] >= 0x80 {
				ascii = false
			}
		}
		if !ascii {
			continue
		}
		out = append(out, name)
	}
	sort.Strings(out)
	return out
}

// renamesToken reports whether the identifier token i is an occurrence that a
// rename of its spelling must follow.
func (f *File) renamesToken(i int) bool {
	switch f.Info[i].Role {
	case RoleAttrName, RoleAttrEnum, RoleEnumerant, RoleDirective, RoleNone:
		return false
	case RoleMember:
		return f.Names[f.Toks[i].Text][RoleDeclMember]
	}
	return true
}

// FreshName draws an identifier that is unused in f, is no keyword, reserved
// word or predeclared name, has no trailing digit and no double underscore.
func (f *File) FreshName(t *rapid.T, taken map[string]bool) string {
	return f.FreshNameFrom(t, taken, nil)
}

// BuiltinLikePrefixes start like a predeclared WGSL type or value name, yet an identifier
// that merely begins with them (material, vecs, texture_clear, ptr_a) is an ordinary name.
var BuiltinLikePrefixes = []string{"mat", "vec", "texture_", "sampler_", "array_", "atomic_", "ptr_", "bool_", "f32_", "i32_", "u32_"}

// FreshNameFrom is FreshName with extra candidate prefixes (drawn half of the time when given).
func (f *File) FreshNameFrom(t *rapid.T, taken map[string]bool, extra []string) string {
	const letters = "abcdefghijklmnopqrstuvwxyz"
	for {
		var b strings.Builder
		if len(extra) > 0 && rapid.Bool().Draw(t, "builtinLike") {
			b.WriteString(rapid.SampledFrom(extra).Draw(t, "prefixB"))
		} else {
			b.WriteString(rapid.SampledFrom([]string{"zq", "Zq", "zq_", "wv", "Wv_"}).Draw(t, "prefix"))
		}
		for k := rapid.IntRange(2, 6).Draw(t, "len"); k > 0; k-- {
			b.WriteByte(letters[rapid.IntRange(0, 25).Draw(t, "ch")])
		}
		s := b.String()
		if taken[s] || Untouchable(s) || strings.Contains(s, "__") {
			continue
		}
		used := false
		for _, tk := range f.Toks {
			if tk.Text == s {
				used = true
				break
			}
		}
		if used {
			continue
		}
		taken[s] = true
		return s
	}
}

func (n *Neutral) rename(t *rapid.T, f *File) (string, EditDesc, bool) {
	if n.skipped("rename") {
		return "", EditDesc{}, false
	}
	names := f.Renameable()
	if len(names) == 0 {
		return "", EditDesc{}, false
	}
	all := rapid.Bool().Draw(t, "renameAll")
	mapping := map[string]string{}
	taken := map[string]bool{}
	var desc []string
	var extra []string
	for _, p := range BuiltinLikePrefixes {
		if !n.skipped("rename.prefix." + strings.TrimSuffix(p, "_")) {
			extra = append(extra, p)
		}
	}
	for _, nm := range names {
		if all || rapid.IntRange(0, 2).Draw(t, "pick") == 0 {
			mapping[nm] = f.FreshNameFrom(t, taken, extra)
			desc = append(desc, nm+"->"+mapping[nm])
		}
	}
	if len(mapping) == 0 {
		nm := names[rapid.IntRange(0, len(names)-1).Draw(t, "one")]
		mapping[nm] = f.FreshNameFrom(t, taken, extra)
		desc = append(desc, nm+"->"+mapping[nm])
	}
	out, ok := f.RenameWith(mapping)
	if !ok {
		return "", EditDesc{}, false
	}
	return out, EditDesc{Class: "rename", Arg: strings.Join(desc, ",")}, true
}

// RenameWith rewrites every occurrence of the mapped names.
func (f *File) RenameWith(mapping map[string]string) (string, bool) {
	var b strings.Builder
	want := sig(f.Toks)
	last := 0
	changed := false
	for i, tk := range f.Toks {
		if tk.Kind != Ident {
			continue
		}
		to, ok := mapping[tk.Text]
		if !ok || !f.renamesToken(i) {
			continue
		}
		b.WriteString(f.Src[last:tk.Off])
		b.WriteString(to)
		last = tk.End
		want[i] = to
		changed = true
	}
	b.WriteString(f.Src[last:])
	out := b.String()
	if !changed || !verify(out, want) {
		return "", false
	}
	return out, true
}
