package meta

import (
	"testing"

	"pgregory.net/rapid"
)

func TestAdvPool(t *testing.T) {
	count := map[string]int{}
	seen := map[string]bool{}
	for _, w := range AdvPool() {
		count[w.Class]++
		if w.Class == "wgsl-builtin-fn" {
			// predeclared on purpose: only drawn for function declarations, which may shadow them
			if !predecl[w.Text] {
				t.Errorf("%q is not predeclared", w.Text)
			}
		} else if !ValidWGSLName(w.Text) {
			t.Errorf("%q is not a valid WGSL name", w.Text)
		}
		seen[w.Text] = true
	}
	t.Logf("pool: %v", count)
	for _, must := range []string{"float4", "texture", "cbuffer", "kernel", "device", "threadgroup",
		"half", "input", "output", "sampler2D", "buffer", "superp", "gl_Position", "a__1", "naga_mod", "_e12", "main", "Float", "a_1", "é"} {
		if !seen[must] {
			t.Errorf("pool lacks %q", must)
		}
	}
	for _, c := range []string{"hlsl-keyword", "msl-keyword", "glsl-keyword", "helper", "case", "digits", "unicode"} {
		if count[c] < 5 {
			t.Errorf("class %s has only %d words", c, count[c])
		}
	}
}

func TestAdversarialRenaming(t *testing.T) {
	f, _ := Analyze(sample)
	rapid.Check(t, func(rt *rapid.T) {
		out, ren := f.AdversarialRenaming(rt, []string{"hlsl-keyword"}, nil)
		if out == "" {
			rt.Fatalf("no renaming")
		}
		g, err := Analyze(out)
		if err != nil || !g.Structured || len(g.Decls) != len(f.Decls) {
			rt.Fatalf("renamed text not analysable: %v", err)
		}
		news := map[string]bool{}
		for _, r := range ren {
			if news[r.New] {
				rt.Fatalf("renaming not injective: %v", ren)
			}
			news[r.New] = true
		}
	})
}
