package meta

import (
	"fmt"
)

// Role classifies an identifier token.
type Role uint8

const (
	RoleNone       Role = iota
	RoleDeclFn          // function name at its declaration
	RoleDeclStruct      // struct name at its declaration
	RoleDeclMember      // struct member name at its declaration
	RoleDeclParam       // function parameter name
	RoleDeclLocal       // let / var / const name inside a function
	RoleDeclGlobal      // var / const / override name at module scope
	RoleDeclAlias       // alias name
	RoleAttrName        // the name after '@'
	RoleAttrEnum        // argument of @builtin / @interpolate / @diagnostic
	RoleEnumerant       // address space, access mode, texel format inside a template list
	RoleDirective       // identifier inside an enable / requires / diagnostic directive
	RoleMember          // identifier after '.', member access or swizzle
	RoleUse             // any other use (value, function, type)
)

// IsDecl reports whether the role is a declaration.
func (r Role) IsDecl() bool { return r >= RoleDeclFn && r <= RoleDeclAlias }

// Info is the structural information attached to one token.
type Info struct {
	Role       Role
	Decl       int  // index into File.Decls of the enclosing module-scope declaration, -1 if none
	Match      int  // index of the matching bracket for ( ) [ ] { } and template < >, else -1
	Encl       int  // index of the innermost enclosing open bracket token, -1 at top level
	InAttr     bool // part of an attribute (from '@' to its closing parenthesis)
	Block      int  // number of enclosing '{' inside a function (0 outside function bodies)
	Continuing bool // inside a continuing block
}

// Attr is one attribute occurrence.
type Attr struct {
	At, Name    int // token indices of '@' and the name
	Open, Close int // parentheses of the argument list, -1 when absent
}

// End returns the index of the last token of the attribute.
func (a Attr) End() int {
	if a.Close >= 0 {
		return a.Close
	}
	return a.Name
}

// Param is a function parameter or struct member: name and type tokens.
type Param struct {
	Name               int
	TypeStart, TypeEnd int // inclusive token range of the type
}

// Decl is a module-scope declaration.
type Decl struct {
	Kind       string // fn struct var const override alias const_assert directive
	Start, End int    // inclusive token range, attributes included
	Kw         int    // the introducing keyword
	Name       int    // the declared name (-1 for const_assert / directives)
	Attrs      []Attr
	// functions
	ParamOpen, ParamClose int
	BodyOpen, BodyClose   int
	Params                []Param
	RetStart, RetEnd      int    // return type tokens (-1 if none)
	Stage                 string // vertex / fragment / compute / ""
	MustUse               bool
	// structs
	Members []Param
	// var / const / override / alias
	TypeStart, TypeEnd int // -1 if no explicit type
	InitStart, InitEnd int // -1 if no initialiser
}

// HasAttr returns the attribute with that name, if present.
func (d *Decl) HasAttr(f *File, name string) (Attr, bool) {
	for _, a := range d.Attrs {
		if f.Toks[a.Name].Text == name {
			return a, true
		}
	}
	return Attr{}, false
}

// File is a tokenised WGSL source with its structural annotations.
type File struct {
	Src   string
	Toks  []Token
	Info  []Info
	Decls []Decl
	// Structured is false when the light structural pass could not follow
	// the text (unbalanced brackets, unexpected token at module scope); the
	// token list is still valid then, but no structural edit is offered.
	Structured bool
	Why        string
	// Names maps each user-declared name to the set of roles it is declared with.
	Names map[string]map[Role]bool
	// Frozen marks token boundaries (index i = between token i-1 and token i)
	// where two wordlike tokens touch; nothing is ever inserted there.
	Frozen map[int]bool
}

// Analyze tokenises src and runs the structural pass.
func Analyze(src string) (*File, error) {
	toks, err := Tokenize(src)
	if err != nil {
		return nil, err
	}
	f := &File{Src: src, Toks: toks, Info: make([]Info, len(toks)), Names: map[string]map[Role]bool{}, Frozen: map[int]bool{}}
	for i := range f.Info {
		f.Info[i] = Info{Decl: -1, Match: -1, Encl: -1}
	}
	for i := 1; i < len(toks); i++ {
		if toks[i-1].End == toks[i].Off && toks[i-1].Wordlike() && toks[i].Wordlike() {
			f.Frozen[i] = true
		}
	}
	f.Structured = true
	if why := f.structure(); why != "" {
		f.Structured = false
		f.Why = why
	}
	return f, nil
}

// Trivia returns the text between token i-1 and token i (i == len(Toks): the
// text after the last token).
func (f *File) Trivia(i int) string {
	lo, hi := 0, len(f.Src)
	if i > 0 {
		lo = f.Toks[i-1].End
	}
	if i < len(f.Toks) {
		hi = f.Toks[i].Off
	}
	return f.Src[lo:hi]
}

func (f *File) text(i int) string {
	if i < 0 || i >= len(f.Toks) {
		return ""
	}
	return f.Toks[i].Text
}

func (f *File) isOpen(i int) bool {
	t := f.Toks[i]
	return t.Kind == Punct && (t.Text == "(" || t.Text == "[" || t.Text == "{" || t.Tmpl == 1)
}

func (f *File) isClose(i int) bool {
	t := f.Toks[i]
	return t.Kind == Punct && (t.Text == ")" || t.Text == "]" || t.Text == "}" || t.Tmpl == -1)
}

func closerOf(open string) string {
	switch open {
	case "(":
		return ")"
	case "[":
		return "]"
	case "{":
		return "}"
	}
	return ">"
}

// structure fills Info and Decls; it returns a non-empty reason on failure.
func (f *File) structure() string {
	toks := f.Toks
	// 1. brackets
	var stack []int
	for i := range toks {
		if len(stack) > 0 {
			f.Info[i].Encl = stack[len(stack)-1]
		}
		switch {
		case f.isOpen(i):
			stack = append(stack, i)
		case f.isClose(i):
			if len(stack) == 0 {
				return fmt.Sprintf("unmatched %q at token %d", toks[i].Text, i)
			}
			o := stack[len(stack)-1]
			if closerOf(toks[o].Text) != toks[i].Text {
				return fmt.Sprintf("mismatched %q / %q", toks[o].Text, toks[i].Text)
			}
			stack = stack[:len(stack)-1]
			f.Info[o].Match, f.Info[i].Match = i, o
			f.Info[i].Encl = f.Info[o].Encl
		}
	}
	if len(stack) > 0 {
		return "unclosed bracket"
	}
	// 2. attributes
	var attrs []Attr
	attrAt := map[int]int{} // '@' token -> index in attrs
	for i := 0; i < len(toks); i++ {
		if toks[i].Text != "@" || toks[i].Kind != Punct {
			continue
		}
		if i+1 >= len(toks) || !(toks[i+1].Kind == Ident || toks[i+1].Kind == Keyword) {
			return "'@' without a name"
		}
		a := Attr{At: i, Name: i + 1, Open: -1, Close: -1}
		f.Info[i].InAttr, f.Info[i+1].InAttr = true, true
		f.Info[i+1].Role = RoleAttrName
		if f.text(i+2) == "(" {
			a.Open, a.Close = i+2, f.Info[i+2].Match
			enum := enumAttrs[toks[i+1].Text]
			for k := a.Open; k <= a.Close; k++ {
				f.Info[k].InAttr = true
				if toks[k].Kind == Ident && enum {
					f.Info[k].Role = RoleAttrEnum
				}
			}
		}
		attrAt[i] = len(attrs)
		attrs = append(attrs, a)
	}
	// 3. module-scope declarations
	for i := 0; i < len(toks); {
		if toks[i].Text == ";" {
			i++
			continue
		}
		d := Decl{Start: i, Name: -1, ParamOpen: -1, ParamClose: -1, BodyOpen: -1, BodyClose: -1,
			RetStart: -1, RetEnd: -1, TypeStart: -1, TypeEnd: -1, InitStart: -1, InitEnd: -1}
		for i < len(toks) && toks[i].Text == "@" {
			a := attrs[attrAt[i]]
			d.Attrs = append(d.Attrs, a)
			i = a.End() + 1
		}
		if i >= len(toks) || toks[i].Kind != Keyword {
			return fmt.Sprintf("unexpected %q at module scope", f.text(i))
		}
		d.Kw = i
		d.Kind = toks[i].Text
		switch d.Kind {
		case "fn", "struct":
			if i+1 >= len(toks) || toks[i+1].Kind != Ident {
				return d.Kind + " without a name"
			}
			d.Name = i + 1
			j := i + 2
			if d.Kind == "fn" {
				if f.text(j) != "(" {
					return "fn without parameter list"
				}
				d.ParamOpen, d.ParamClose = j, f.Info[j].Match
				j = d.ParamClose + 1
			}
			for j < len(toks) && toks[j].Text != "{" {
				if f.isOpen(j) {
					j = f.Info[j].Match
				}
				j++
			}
			if j >= len(toks) {
				return d.Kind + " without body"
			}
			d.BodyOpen, d.BodyClose = j, f.Info[j].Match
			d.End = d.BodyClose
			if d.Kind == "fn" {
				if why := f.parseFn(&d, attrs, attrAt); why != "" {
					return why
				}
			} else {
				d.Members = f.parseFields(d.BodyOpen, attrs, attrAt)
			}
		case "var", "const", "override", "alias", "const_assert", "enable", "requires", "diagnostic":
			j := i + 1
			for j < len(toks) && toks[j].Text != ";" {
				if toks[j].Text == "{" || toks[j].Text == "}" {
					return "brace inside a " + d.Kind + " declaration"
				}
				j++
			}
			if j >= len(toks) {
				return d.Kind + " without ';'"
			}
			d.End = j
			switch d.Kind {
			case "enable", "requires", "diagnostic":
				d.Kind = "directive"
				for k := i + 1; k < j; k++ {
					if toks[k].Kind == Ident {
						f.Info[k].Role = RoleDirective
					}
				}
			case "const_assert":
			default:
				f.parseValueDecl(&d)
			}
		default:
			return fmt.Sprintf("unexpected keyword %q at module scope", d.Kind)
		}
		for k := d.Start; k <= d.End; k++ {
			f.Info[k].Decl = len(f.Decls)
		}
		f.Decls = append(f.Decls, d)
		i = d.End + 1
	}
	// 4. block depth / continuing
	for di := range f.Decls {
		d := &f.Decls[di]
		if d.Kind != "fn" {
			continue
		}
		depth := 0
		var contStack []bool
		for k := d.BodyOpen; k <= d.BodyClose; k++ {
			switch toks[k].Text {
			case "{":
				if toks[k].Kind == Punct {
					cont := len(contStack) > 0 && contStack[len(contStack)-1] || f.text(k-1) == "continuing"
					contStack = append(contStack, cont)
					f.Info[k].Block = depth
					f.Info[k].Continuing = cont
					depth++
					continue
				}
			case "}":
				if toks[k].Kind == Punct {
					depth--
					contStack = contStack[:len(contStack)-1]
					f.Info[k].Block = depth
					if len(contStack) > 0 {
						f.Info[k].Continuing = contStack[len(contStack)-1]
					}
					continue
				}
			}
			f.Info[k].Block = depth
			f.Info[k].Continuing = len(contStack) > 0 && contStack[len(contStack)-1]
		}
	}
	// 5. identifier roles
	for i, t := range toks {
		if t.Kind != Ident || f.Info[i].Role != RoleNone {
			continue
		}
		prev, next := f.text(i-1), f.text(i+1)
		inf := &f.Info[i]
		switch {
		case prev == "." && toks[i-1].Kind == Punct:
			inf.Role = RoleMember
		case inf.InAttr:
			inf.Role = RoleUse
		case prev == "fn":
			inf.Role = RoleDeclFn
		case prev == "struct":
			inf.Role = RoleDeclStruct
		case prev == "alias":
			inf.Role = RoleDeclAlias
		case prev == "let" || prev == "const" || prev == "override" || prev == "var" ||
			(i > 0 && toks[i-1].Tmpl == -1 && f.text(f.Info[i-1].Match-1) == "var"):
			if inf.Block > 0 {
				inf.Role = RoleDeclLocal
			} else {
				inf.Role = RoleDeclGlobal
			}
		case next == ":" && inf.Encl >= 0 && toks[inf.Encl].Text == "{" && f.text(inf.Encl-2) == "struct":
			inf.Role = RoleDeclMember
		case next == ":" && inf.Encl >= 0 && toks[inf.Encl].Text == "(" && f.text(inf.Encl-2) == "fn":
			inf.Role = RoleDeclParam
		case inf.Encl >= 0 && toks[inf.Encl].Tmpl == 1 && f.templateEnumerant(i):
			inf.Role = RoleEnumerant
		default:
			inf.Role = RoleUse
		}
		if inf.Role.IsDecl() {
			m := f.Names[t.Text]
			if m == nil {
				m = map[Role]bool{}
				f.Names[t.Text] = m
			}
			m[inf.Role] = true
		}
	}
	return ""
}

// templateEnumerant reports whether identifier i, directly inside a template
// list, sits at a position that holds an enumerant (address space, access
// mode, texel format) rather than a type or an expression.
func (f *File) templateEnumerant(i int) bool {
	open := f.Info[i].Encl
	gen := f.text(open - 1)
	// argument index of i
	arg := 0
	for k := open + 1; k < i; k++ {
		if f.Toks[k].Text == "," && f.Info[k].Encl == open {
			arg++
		}
	}
	// must be a single-identifier argument
	single := (f.Info[i-1].Encl == open && (i-1 == open || f.text(i-1) == ",") || i-1 == open) &&
		(f.text(i+1) == "," || i+1 == f.Info[open].Match)
	if !single {
		return false
	}
	switch {
	case gen == "var":
		return true
	case gen == "ptr":
		return arg == 0 || arg == 2
	case len(gen) > 15 && gen[:16] == "texture_storage_":
		return true
	}
	return false
}

// splitList returns the inclusive token ranges of the comma separated items
// directly inside the bracket pair opened at token open (a trailing comma
// yields no empty item).
func (f *File) splitList(open int) [][2]int {
	cl := f.Info[open].Match
	var out [][2]int
	start := open + 1
	for k := open + 1; k <= cl; k++ {
		if k == cl || (f.Toks[k].Text == "," && f.Info[k].Encl == open) {
			if k > start {
				out = append(out, [2]int{start, k - 1})
			}
			start = k + 1
		}
	}
	return out
}

func (f *File) skipAttrs(i int, attrAt map[int]int, attrs []Attr) int {
	for i < len(f.Toks) && f.Toks[i].Text == "@" {
		i = attrs[attrAt[i]].End() + 1
	}
	return i
}

// parseFields parses "name : type" items of a parameter list or struct body.
func (f *File) parseFields(open int, attrs []Attr, attrAt map[int]int) []Param {
	var out []Param
	for _, it := range f.splitList(open) {
		i := f.skipAttrs(it[0], attrAt, attrs)
		if i+2 > it[1] {
			continue
		}
		if f.Toks[i].Kind != Ident || f.text(i+1) != ":" {
			continue
		}
		out = append(out, Param{Name: i, TypeStart: i + 2, TypeEnd: it[1]})
	}
	return out
}

func (f *File) parseFn(d *Decl, attrs []Attr, attrAt map[int]int) string {
	d.Params = f.parseFields(d.ParamOpen, attrs, attrAt)
	i := d.ParamClose + 1
	if f.text(i) == "->" {
		i = f.skipAttrs(i+1, attrAt, attrs)
		d.RetStart, d.RetEnd = i, d.BodyOpen-1
		// attributes may also precede the body ('@diagnostic'); keep it simple
		if d.RetEnd < d.RetStart {
			return "fn with empty return type"
		}
	}
	for _, a := range d.Attrs {
		switch n := f.Toks[a.Name].Text; n {
		case "vertex", "fragment", "compute", "task", "mesh", "ray_generation", "closest_hit", "any_hit", "miss", "intersection":
			d.Stage = n
		case "must_use":
			d.MustUse = true
		}
	}
	return ""
}

func (f *File) parseValueDecl(d *Decl) {
	i := d.Kw + 1
	if f.Toks[i].Tmpl == 1 {
		i = f.Info[i].Match + 1
	}
	if f.Toks[i].Kind != Ident {
		return
	}
	d.Name = i
	i++
	end := d.End - 1
	eq := -1
	for k := i; k <= end; k++ {
		if f.Toks[k].Text == "=" && f.Info[k].Encl == -1 {
			eq = k
			break
		}
	}
	tend := end
	if eq >= 0 {
		tend = eq - 1
		d.InitStart, d.InitEnd = eq+1, end
	}
	if d.Kind == "alias" {
		d.TypeStart, d.TypeEnd = d.InitStart, d.InitEnd
		d.InitStart, d.InitEnd = -1, -1
		return
	}
	if f.text(i) == ":" && i+1 <= tend {
		d.TypeStart, d.TypeEnd = i+1, tend
	}
}

// DeclOf returns the module-scope declaration containing token i (nil if none).
func (f *File) DeclOf(i int) *Decl {
	if i < 0 || i >= len(f.Info) || f.Info[i].Decl < 0 {
		return nil
	}
	return &f.Decls[f.Info[i].Decl]
}

// FindDecl returns the first declaration of the given kind and name.
func (f *File) FindDecl(kind, name string) *Decl {
	for i := range f.Decls {
		d := &f.Decls[i]
		if d.Kind == kind && d.Name >= 0 && f.Toks[d.Name].Text == name {
			return d
		}
	}
	return nil
}

// StmtStart returns the index of the first token of the statement that
// contains token i inside a function body: the token after the closest
// preceding ';', '{' or '}' at the same bracket level, walking out of
// parentheses first.
func (f *File) StmtStart(i int) int {
	// climb out of ( [ < brackets
	for {
		e := f.Info[i].Encl
		if e < 0 || f.Toks[e].Text == "{" {
			break
		}
		i = e
	}
	encl := f.Info[i].Encl
	k := i
	for k-1 > encl {
		p := k - 1
		if f.Info[p].Encl == encl {
			if t := f.Toks[p].Text; f.Toks[p].Kind == Punct && (t == ";" || t == "}" || t == "{") {
				break
			}
		}
		k--
	}
	return k
}

// StmtEnd returns the index of the token that ends the statement starting at
// token s: the first ';' or '{' at the statement's bracket level (or the
// enclosing closer when neither comes first).
func (f *File) StmtEnd(s int) int {
	encl := f.Info[s].Encl
	for k := s; k < len(f.Toks); k++ {
		if f.isOpen(k) && f.Toks[k].Text != "{" {
			k = f.Info[k].Match
			continue
		}
		if f.Info[k].Encl != encl {
			return k
		}
		if t := f.Toks[k].Text; f.Toks[k].Kind == Punct && (t == ";" || t == "{" || t == "}") {
			return k
		}
	}
	return len(f.Toks) - 1
}
