// Package dxbc is an independent reader for DXBC containers holding DXIL:
// container header and part table, DXIL program header, signature parts,
// pipeline state validation part, feature/hash/statistics parts, and the LLVM
// 3.7 bitstream inside the DXIL part (structure and operand-index soundness).
//
// It is written from the public format descriptions (DxilContainer.h,
// DxilPipelineStateValidation.h, LLVM 3.7 BitCodeFormat / LLVMBitCodes.h and
// the behaviour of LLVM 3.7's BitcodeReader, hlsl-specs INF-0004) and shares
// no code with the compiler under test.
package dxbc

import (
	"bytes"
	"crypto/md5"
	"encoding/binary"
	"fmt"
)

// Issue is one violated format rule.
type Issue struct {
	Rule string
	Msg  string
}

func (i Issue) String() string { return i.Rule + ": " + i.Msg }

// Part is one container part.
type Part struct {
	FourCC string
	Offset uint32 // offset of the part header in the container
	Size   uint32 // size of Data as declared by the part header
	Data   []byte
}

// ProgramHeader is the DxilProgramHeader at the start of a DXIL / STAT / ILDB part.
type ProgramHeader struct {
	VersionToken  uint32
	Kind          uint32 // 0 pixel, 1 vertex, 2 geometry, 3 hull, 4 domain, 5 compute, 6 library, 13 mesh, 14 amplification
	Major, Minor  uint32 // shader model
	SizeInUint32  uint32
	DxilMajor     uint32
	DxilMinor     uint32
	BitcodeOffset uint32
	BitcodeSize   uint32
	Bitcode       []byte
}

// HashPart is the body of the HASH part (DxilShaderHash).
type HashPart struct {
	Flags  uint32
	Digest [16]byte
}

// Container is the parsed form of a DXBC container.
type Container struct {
	Digest      [16]byte
	Major       uint16
	Minor       uint16
	TotalSize   uint32
	Parts       []Part
	Program     *ProgramHeader // from the DXIL part
	Stat        *ProgramHeader // from the STAT part when it has the program-header shape
	Features    *uint64        // SFI0
	Hash        *HashPart
	Inputs      *Signature // ISG1
	Outputs     *Signature // OSG1
	PatchOrPrim *Signature // PSG1
	PSV         *PSV
	Module      *Module // semantic summary of the DXIL part's bitcode
	StatModule  *Module
	// Info lists things seen but deliberately not judged (unknown parts,
	// rules the formats leave open).
	Info []string
	// Trace, when set before parsing (tests only), receives one line per
	// decoded instruction.
	Trace func(string)

	issues []Issue
}

// Issues returns every violated rule found while parsing.
func (c *Container) Issues() []Issue { return c.issues }

func (c *Container) fail(rule, format string, a ...any) {
	if len(c.issues) < 200 {
		c.issues = append(c.issues, Issue{rule, fmt.Sprintf(format, a...)})
	}
}

func (c *Container) info(format string, a ...any) {
	if len(c.Info) < 200 {
		c.Info = append(c.Info, fmt.Sprintf(format, a...))
	}
}

// FindPart returns the first part with the given FourCC.
func (c *Container) FindPart(fourcc string) *Part {
	for i := range c.Parts {
		if c.Parts[i].FourCC == fourcc {
			return &c.Parts[i]
		}
	}
	return nil
}

// BypassDigest is the "hash bypass" sentinel of INF-0004.
var BypassDigest = [16]byte{1, 1, 1, 1, 1, 1, 1, 1, 1, 1, 1, 1, 1, 1, 1, 1}

// PreviewBypassDigest is the all-zero "preview bypass" sentinel of INF-0004.
var PreviewBypassDigest = [16]byte{}

const (
	containerHeaderSize = 32
	partHeaderSize      = 8
)

// ParseContainer parses b completely.  The returned Container is non-nil
// whenever the fixed header could be read; err is the first violated rule (nil
// when there is none).  Use Container.Issues for the whole list.
func ParseContainer(b []byte) (*Container, error) {
	c := parse(b)
	if len(c.issues) > 0 {
		return c, fmt.Errorf("%s", c.issues[0].String())
	}
	return c, nil
}

func le32(b []byte, off int) uint32 { return binary.LittleEndian.Uint32(b[off:]) }

func parse(b []byte) *Container { return parseWith(b, nil) }

func parseWith(b []byte, trace func(string)) *Container {
	c := &Container{Trace: trace}
	if len(b) < containerHeaderSize {
		c.fail("container.header", "container is %d bytes, shorter than the 32-byte header", len(b))
		return c
	}
	if string(b[0:4]) != "DXBC" {
		c.fail("container.magic", "magic is %q, want \"DXBC\"", b[0:4])
		return c
	}
	copy(c.Digest[:], b[4:20])
	c.Major = binary.LittleEndian.Uint16(b[20:])
	c.Minor = binary.LittleEndian.Uint16(b[22:])
	c.TotalSize = le32(b, 24)
	nparts := le32(b, 28)
	if c.Major != 1 || c.Minor != 0 {
		c.fail("container.version", "container version %d.%d, want 1.0", c.Major, c.Minor)
	}
	if uint64(c.TotalSize) != uint64(len(b)) {
		c.fail("container.size", "header says %d bytes, buffer has %d", c.TotalSize, len(b))
	}
	tableEnd := uint64(containerHeaderSize) + 4*uint64(nparts)
	if tableEnd > uint64(len(b)) || tableEnd > uint64(c.TotalSize) {
		c.fail("container.parttable", "part count %d: offset table ends at %d, beyond the container (%d bytes)", nparts, tableEnd, len(b))
		return c
	}
	prevEnd := tableEnd
	for i := 0; i < int(nparts); i++ {
		off := uint64(le32(b, containerHeaderSize+4*i))
		if off+partHeaderSize > uint64(len(b)) {
			c.fail("container.partoffset", "part %d: header at offset %d does not fit in %d bytes", i, off, len(b))
			continue
		}
		if off < tableEnd {
			c.fail("container.partoffset", "part %d: offset %d lies inside the header / offset table (ends at %d)", i, off, tableEnd)
			continue
		}
		fourcc := string(b[off : off+4])
		size := uint64(le32(b, int(off)+4))
		end := off + partHeaderSize + size
		if end > uint64(len(b)) {
			c.fail("container.partsize", "part %d (%q) at %d with size %d ends at %d, beyond the container (%d bytes)", i, fourcc, off, size, end, len(b))
			continue
		}
		if off < prevEnd {
			c.fail("container.partoverlap", "part %d (%q) starts at %d, before the end (%d) of what precedes it", i, fourcc, off, prevEnd)
		} else if off > prevEnd {
			c.fail("container.partgap", "part %d (%q) starts at %d but the preceding data ends at %d; parts and total size are not consistent", i, fourcc, off, prevEnd)
		}
		if off%4 != 0 {
			c.info("part %d (%q) offset %d is not 4-byte aligned", i, fourcc, off)
		}
		prevEnd = end
		c.Parts = append(c.Parts, Part{FourCC: fourcc, Offset: uint32(off), Size: uint32(size), Data: b[off+partHeaderSize : end]})
	}
	if len(c.issues) == 0 && prevEnd != uint64(len(b)) {
		c.fail("container.partgap", "last part ends at %d but the container is %d bytes", prevEnd, len(b))
	}

	seen := map[string]int{}
	for i := range c.Parts {
		p := &c.Parts[i]
		seen[p.FourCC]++
		switch p.FourCC {
		case "DXIL":
			if seen[p.FourCC] > 1 {
				c.fail("container.duppart", "more than one DXIL part")
				continue
			}
			c.Program = c.parseProgram(p, "dxil")
		case "STAT":
			// Written by DXC as a program header + stripped module; nothing
			// at run time depends on more than that, so only look inside
			// when it has that shape.
			if len(p.Data) >= 24 && le32(p.Data, 8) == dxilMagic {
				c.Stat = c.parseProgram(p, "stat")
			} else {
				c.info("STAT part without a DXIL program header (%d bytes)", len(p.Data))
			}
		case "SFI0":
			if len(p.Data) != 8 {
				c.fail("sfi0.size", "SFI0 part is %d bytes, want 8", len(p.Data))
			} else {
				v := binary.LittleEndian.Uint64(p.Data)
				c.Features = &v
			}
		case "HASH":
			if len(p.Data) != 20 {
				c.fail("hash.size", "HASH part is %d bytes, want 20 (flags + 16-byte digest)", len(p.Data))
			} else {
				h := &HashPart{Flags: le32(p.Data, 0)}
				copy(h.Digest[:], p.Data[4:])
				c.Hash = h
			}
		case "ISG1":
			c.Inputs = c.parseSignature(p, "isg1")
		case "OSG1":
			c.Outputs = c.parseSignature(p, "osg1")
		case "PSG1":
			c.PatchOrPrim = c.parseSignature(p, "psg1")
		case "PSV0":
			c.PSV = c.parsePSV(p)
		default:
			c.info("part %q (%d bytes) not interpreted", p.FourCC, len(p.Data))
		}
	}
	for _, fc := range []string{"ISG1", "OSG1", "PSG1", "PSV0", "SFI0", "HASH", "STAT"} {
		if seen[fc] > 1 {
			c.fail("container.duppart", "more than one %s part", fc)
		}
	}

	// Bitcode of the DXIL part (and of STAT when it is a program).
	if c.Program != nil && c.Program.Bitcode != nil {
		c.Module = c.parseBitcode(c.Program.Bitcode, "bc")
	}
	if c.Stat != nil && c.Stat.Bitcode != nil {
		if c.Program != nil && bytes.Equal(c.Stat.Bitcode, c.Program.Bitcode) {
			c.StatModule = c.Module
		} else {
			c.StatModule = c.parseBitcode(c.Stat.Bitcode, "stat.bc")
		}
	}

	// HASH part: MD5 of the DXIL part's bitcode (flags bit 0 = "includes
	// source"; then the digest covers the debug module, which we do not have).
	if c.Hash != nil && c.Program != nil && c.Program.Bitcode != nil {
		if c.Hash.Flags&^1 != 0 {
			c.info("HASH flags %#x have unknown bits", c.Hash.Flags)
		}
		if c.Hash.Flags&1 == 0 {
			want := md5.Sum(c.Program.Bitcode)
			if want != c.Hash.Digest {
				c.fail("hash.part", "HASH part digest %x is not the MD5 of the DXIL bitcode (%x)", c.Hash.Digest, want)
			}
		} else {
			c.info("HASH part covers source (flags=1): not verified")
		}
	}
	c.crossCheck()
	return c
}

const dxilMagic = 0x4C495844 // "DXIL"

func (c *Container) parseProgram(p *Part, rule string) *ProgramHeader {
	d := p.Data
	if len(d) < 24 {
		c.fail(rule+".header", "%s part is %d bytes, shorter than the 24-byte program header", p.FourCC, len(d))
		return nil
	}
	h := &ProgramHeader{}
	h.VersionToken = le32(d, 0)
	h.Kind = h.VersionToken >> 16
	h.Major = (h.VersionToken >> 4) & 0xf
	h.Minor = h.VersionToken & 0xf
	h.SizeInUint32 = le32(d, 4)
	magic := le32(d, 8)
	ver := le32(d, 12)
	h.DxilMajor = (ver >> 8) & 0xff
	h.DxilMinor = ver & 0xff
	h.BitcodeOffset = le32(d, 16)
	h.BitcodeSize = le32(d, 20)
	if h.VersionToken&0xff00 != 0 {
		c.fail(rule+".version", "program version token %#x has bits set between the shader-model and kind fields", h.VersionToken)
	}
	if magic != dxilMagic {
		c.fail(rule+".magic", "bitcode header magic %#x, want \"DXIL\"", magic)
		return h
	}
	if ver>>16 != 0 {
		c.fail(rule+".dxilversion", "DXIL version word %#x has high bits set", ver)
	}
	if h.DxilMajor != 1 {
		c.fail(rule+".dxilversion", "DXIL major version %d, want 1", h.DxilMajor)
	}
	size := uint64(h.SizeInUint32) * 4
	if size > uint64(len(d)) {
		c.fail(rule+".size", "program size %d dwords (%d bytes) exceeds the part (%d bytes)", h.SizeInUint32, size, len(d))
	} else if size != uint64(len(d)) {
		// The writer pads the bitcode to a dword; the dword count then covers
		// the whole part.  A part longer than the program it declares means
		// the two size fields disagree.
		c.fail(rule+".size", "program size %d dwords (%d bytes) does not cover the part (%d bytes)", h.SizeInUint32, size, len(d))
	}
	// BitcodeOffset is relative to the bitcode header (8 bytes into the part).
	start := 8 + uint64(h.BitcodeOffset)
	end := start + uint64(h.BitcodeSize)
	if h.BitcodeOffset < 16 {
		c.fail(rule+".bitcodeoffset", "bitcode offset %d overlaps the bitcode header (16 bytes)", h.BitcodeOffset)
		return h
	}
	if end > uint64(len(d)) || (size <= uint64(len(d)) && end > size) {
		c.fail(rule+".bitcodesize", "bitcode [%d,%d) does not fit in the program (%d bytes)", start, end, len(d))
		return h
	}
	if h.BitcodeOffset != 16 {
		c.info("%s bitcode offset is %d (usual value 16)", p.FourCC, h.BitcodeOffset)
	}
	if size == uint64(len(d)) && (end+3)&^3 != size {
		c.fail(rule+".bitcodesize", "bitcode ends at %d but the program is %d bytes: size fields disagree", end, size)
	}
	h.Bitcode = d[start:end]
	return h
}

// HashMode says which container digest the caller asked for.
type HashMode int

const (
	HashAny    HashMode = iota // retail hash or one of the bypass sentinels
	HashRetail                 // must be the INF-0004 hash of bytes [20:]
	HashBypass                 // must be the 16 x 0x01 sentinel
)

// Expect carries what the caller knows independently of the container bytes.
type Expect struct {
	Stage   string // "vertex", "fragment", "compute", … or "" when unknown
	SMMajor int    // requested shader model; negative = unknown
	SMMinor int
	// SMMinorAtLeast: the backend may raise the minor version (documented
	// auto-upgrade); then only minor >= SMMinor is required.
	SMMinorAtLeast bool
	Hash           HashMode
}

var stageKind = map[string]uint32{
	"pixel": 0, "fragment": 0, "vertex": 1, "geometry": 2, "hull": 3, "domain": 4,
	"compute": 5, "library": 6, "mesh": 13, "amplification": 14, "task": 14,
}

// KindName returns the DXIL two-letter profile prefix of a program kind.
func KindName(kind uint32) string {
	switch kind {
	case 0:
		return "ps"
	case 1:
		return "vs"
	case 2:
		return "gs"
	case 3:
		return "hs"
	case 4:
		return "ds"
	case 5:
		return "cs"
	case 6:
		return "lib"
	case 13:
		return "ms"
	case 14:
		return "as"
	}
	return fmt.Sprintf("kind%d", kind)
}

// Analyze parses b and judges it against exp.
func Analyze(b []byte, exp Expect) (*Container, []Issue) {
	c := parse(b)
	if len(b) >= containerHeaderSize && string(b[0:4]) == "DXBC" {
		retail := RetailHash(b[20:])
		switch exp.Hash {
		case HashBypass:
			if c.Digest != BypassDigest {
				c.fail("container.digest", "digest %x is not the BYPASS sentinel although bypass was requested", c.Digest)
			}
		case HashRetail:
			if c.Digest != retail {
				c.fail("container.digest", "digest %x is not the validator hash of bytes [20:] (%x)", c.Digest, retail)
			}
		default:
			if c.Digest != retail && c.Digest != BypassDigest && c.Digest != PreviewBypassDigest {
				c.fail("container.digest", "digest %x is neither the validator hash of bytes [20:] (%x) nor a bypass sentinel", c.Digest, retail)
			}
		}
	}
	if c.Program == nil {
		if len(c.issues) == 0 {
			c.fail("container.nodxil", "container has no DXIL part")
		}
		return c, c.issues
	}
	if exp.Stage != "" {
		if k, ok := stageKind[exp.Stage]; ok && k != c.Program.Kind {
			c.fail("dxil.kind", "program kind %d (%s) does not match the %s stage", c.Program.Kind, KindName(c.Program.Kind), exp.Stage)
		}
	}
	if exp.SMMajor >= 0 {
		if int(c.Program.Major) != exp.SMMajor {
			c.fail("dxil.shadermodel", "shader model %d.%d, requested %d.%d", c.Program.Major, c.Program.Minor, exp.SMMajor, exp.SMMinor)
		} else if exp.SMMinorAtLeast {
			if int(c.Program.Minor) < exp.SMMinor {
				c.fail("dxil.shadermodel", "shader model %d.%d is below the requested %d.%d", c.Program.Major, c.Program.Minor, exp.SMMajor, exp.SMMinor)
			}
		} else if int(c.Program.Minor) != exp.SMMinor {
			c.fail("dxil.shadermodel", "shader model %d.%d, requested %d.%d", c.Program.Major, c.Program.Minor, exp.SMMajor, exp.SMMinor)
		}
	}
	return c, c.issues
}

// Check is Analyze without the parsed container.
func Check(b []byte, exp Expect) []Issue {
	_, is := Analyze(b, exp)
	return is
}

// crossCheck compares parts against each other where the formats tie them
// together.
func (c *Container) crossCheck() {
	if c.Program != nil && c.Stat != nil {
		if c.Stat.VersionToken != c.Program.VersionToken {
			c.fail("stat.version", "STAT program version token %#x differs from the DXIL part's %#x", c.Stat.VersionToken, c.Program.VersionToken)
		}
	}
	if c.Program != nil && c.PSV != nil && c.PSV.Version >= 1 {
		if want, ok := psvStageOfKind(c.Program.Kind); ok && uint32(c.PSV.ShaderStage) != want {
			c.fail("psv.stage", "PSV0 shader stage %d does not match program kind %d (%s)", c.PSV.ShaderStage, c.Program.Kind, KindName(c.Program.Kind))
		}
	}
	if c.PSV != nil && c.PSV.Version >= 1 {
		// One ISG1/OSG1 entry is written per semantic index (= per row) of a
		// signature element, so the row sums of PSV0 must match.  Recorded as
		// information only: the exact filtering DXC applies is not part of
		// the public format description.
		cmp := func(name string, sig *Signature, elems []PSVSigElement) {
			if sig == nil {
				return
			}
			rows := 0
			for _, e := range elems {
				rows += int(e.Rows)
			}
			if rows != len(sig.Elements) {
				c.info("psv-sig-mismatch: %s has %d entries, PSV0 rows sum to %d", name, len(sig.Elements), rows)
			}
		}
		cmp("ISG1", c.Inputs, c.PSV.InputElems)
		cmp("OSG1", c.Outputs, c.PSV.OutputElems)
	}
	if c.Module != nil && c.Program != nil {
		c.checkModuleAgainstHeader(c.Module, c.Program)
	}
}

// PSVShaderKind numbering equals the program-kind numbering.
func psvStageOfKind(kind uint32) (uint32, bool) {
	if kind <= 14 {
		return kind, true
	}
	return 0, false
}
