package dxbc

import "fmt"

// Function bodies: value numbering, operand decoding (relative ids, forward
// references with explicit types), result typing and the record-shape rules of
// LLVM 3.7's BitcodeReader::parseFunctionBody.

type fnState struct {
	m           *Module
	f           *Function
	base        int // number of module-level values
	numBBs      int
	curBB       int
	declared    bool
	pendingVals []pendingRef
	pendingMDs  []pendingRef
	relative    bool
	instInBB    int
	abort       bool
}

func (fs *fnState) fail(sub, format string, a ...any) {
	fs.m.fail("function."+sub, "function %s: "+format, append([]any{fs.name()}, a...)...)
}

func (fs *fnState) name() string {
	if fs.f.Name != "" {
		return fs.f.Name
	}
	return fmt.Sprintf("#%d", fs.f.ValueID)
}

// opCursor walks the operands of one instruction record.
type opCursor struct {
	fs   *fnState
	ops  []uint64
	i    int
	inst int // instruction number (NextValueNo)
	what string
	bad  bool
}

func (c *opCursor) left() int { return len(c.ops) - c.i }

func (c *opCursor) raw() (uint64, bool) {
	if c.i >= len(c.ops) {
		if !c.bad {
			c.fs.fail("record", "%s (instruction value %d): record has %d operands, more are required", c.what, c.inst, len(c.ops))
		}
		c.bad = true
		return 0, false
	}
	v := c.ops[c.i]
	c.i++
	return v, true
}

func (c *opCursor) absID(raw uint64) int64 {
	if c.fs.relative {
		return int64(uint32(c.inst) - uint32(raw))
	}
	return int64(uint32(raw))
}

// typeOfRef returns the type of value id (defined) or -1.
func (c *opCursor) defined(id int64) bool { return id >= 0 && id < int64(c.inst) }

// valueTypePair decodes an operand written with pushValueAndType: relative
// id, followed by a type id when the value is a forward reference.
func (c *opCursor) valueTypePair() (id int64, ty int, ok bool) {
	raw, ok := c.raw()
	if !ok {
		return 0, -1, false
	}
	id = c.absID(raw)
	m := c.fs.m
	if c.defined(id) {
		return id, m.vals[id].ty, true
	}
	// forward reference: explicit type follows
	c.fs.f.FwdRefs++
	traw, ok := c.raw()
	if !ok {
		return id, -1, false
	}
	ty = m.typeRef(traw, fmt.Sprintf("function %s: %s (instruction value %d): type of forward-referenced operand", c.fs.name(), c.what, c.inst))
	if ty < 0 {
		c.bad = true
		return id, -1, false
	}
	c.fs.pendingVals = append(c.fs.pendingVals, pendingRef{id: id, ty: ty, what: fmt.Sprintf("%s (instruction value %d): forward-referenced operand", c.what, c.inst)})
	return id, ty, true
}

// value decodes an operand written with pushValue: relative id, type known
// from context (want, -1 when unknown).
func (c *opCursor) value(want int) (id int64, ty int, ok bool) {
	raw, ok := c.raw()
	if !ok {
		return 0, -1, false
	}
	return c.resolve(c.absID(raw), want)
}

// valueSigned decodes a phi operand (signed VBR relative id).
func (c *opCursor) valueSigned(want int) (id int64, ty int, ok bool) {
	raw, ok := c.raw()
	if !ok {
		return 0, -1, false
	}
	if c.fs.relative {
		d := int64(decodeSigned(raw))
		return c.resolve(int64(uint32(int64(c.inst)-d)), want)
	}
	return c.resolve(int64(uint32(raw)), want)
}

// absolute decodes an operand that is an absolute value id.
func (c *opCursor) absolute(want int) (id int64, ty int, ok bool) {
	raw, ok := c.raw()
	if !ok {
		return 0, -1, false
	}
	return c.resolve(int64(raw), want)
}

func (c *opCursor) resolve(id int64, want int) (int64, int, bool) {
	m := c.fs.m
	if c.defined(id) {
		got := m.vals[id].ty
		if want >= 0 && got >= 0 && got != want {
			c.fs.fail("operandtype", "%s (instruction value %d): operand value %d has type %s, expected %s", c.what, c.inst, id, m.tt.str(got), m.tt.str(want))
			c.bad = true
			return id, got, false
		}
		if got < 0 {
			got = want
		}
		return id, got, true
	}
	c.fs.f.FwdRefs++
	c.fs.pendingVals = append(c.fs.pendingVals, pendingRef{id: id, ty: want, what: fmt.Sprintf("%s (instruction value %d): forward-referenced operand", c.what, c.inst)})
	return id, want, true
}

func (c *opCursor) typeID() (int, bool) {
	raw, ok := c.raw()
	if !ok {
		return -1, false
	}
	ty := c.fs.m.typeRef(raw, fmt.Sprintf("function %s: %s (instruction value %d)", c.fs.name(), c.what, c.inst))
	if ty < 0 {
		c.bad = true
		return -1, false
	}
	return ty, true
}

func (c *opCursor) bb() (uint64, bool) {
	raw, ok := c.raw()
	if !ok {
		return 0, false
	}
	if raw >= uint64(c.fs.numBBs) {
		c.fs.fail("bbref", "%s: basic block %d referenced, function declares %d", c.what, raw, c.fs.numBBs)
		c.bad = true
		return raw, false
	}
	return raw, true
}

// done requires that all operands were consumed.
func (c *opCursor) done() bool {
	if c.bad {
		return false
	}
	if c.i != len(c.ops) {
		c.fs.fail("record", "%s (instruction value %d): %d operands, %d were consumed", c.what, c.inst, len(c.ops), c.i)
		c.bad = true
		return false
	}
	return true
}

func (m *Module) functionBody(b *Block, f *Function) {
	fs := &fnState{m: m, f: f, base: len(m.vals), relative: m.Version >= 1}
	f.HasBody = true
	tt := &m.tt
	// arguments
	if f.TypeID >= 0 {
		for _, p := range tt.get(f.TypeID).Elems {
			m.vals = append(m.vals, value{ty: tt.c(p), kind: vkArg})
		}
	}
	retTy := -1
	if f.TypeID >= 0 {
		retTy = tt.c(tt.get(f.TypeID).Elem)
	}
	nInstIndex := 0 // instruction count incl. void ones (METADATA_ATTACHMENT indexes them)
	var attach []*Block
	var symtabs []*Block
	terminators := 0
	for _, it := range b.Items {
		if fs.abort {
			break
		}
		if it.Block != nil {
			switch it.Block.ID {
			case blkConstants:
				f.NumConsts += m.constants(it.Block, fs)
			case blkMetadata:
				m.metadata(it.Block, fs)
			case blkValueSymtab:
				symtabs = append(symtabs, it.Block)
			case blkMetadataAttach:
				attach = append(attach, it.Block)
			case blkUseList:
			default:
				m.c.info("%s: unknown block id %d inside a function block", m.rule, it.Block.ID)
			}
			continue
		}
		r := it.Rec
		if r.Code == 1 { // DECLAREBLOCKS
			if len(r.Ops) < 1 || r.Ops[0] == 0 {
				fs.fail("declareblocks", "DECLAREBLOCKS without a positive block count")
				fs.abort = true
				break
			}
			if fs.declared {
				fs.fail("declareblocks", "DECLAREBLOCKS appears twice")
			}
			if r.Ops[0] > 1<<24 {
				fs.fail("declareblocks", "DECLAREBLOCKS announces %d blocks", r.Ops[0])
				fs.abort = true
				break
			}
			fs.declared = true
			fs.numBBs = int(r.Ops[0])
			continue
		}
		if r.Code == 33 || r.Code == 35 { // DEBUG_LOC_AGAIN / DEBUG_LOC
			if nInstIndex == 0 {
				fs.fail("record", "debug location before any instruction")
			}
			if r.Code == 35 && len(r.Ops) < 4 {
				fs.fail("record", "DEBUG_LOC with %d operands (< 4)", len(r.Ops))
			}
			continue
		}
		if !fs.declared {
			fs.fail("declareblocks", "instruction record (code %d) before DECLAREBLOCKS", r.Code)
			fs.abort = true
			break
		}
		if fs.curBB >= fs.numBBs {
			fs.fail("blocks", "instruction record (code %d) after the last declared basic block (%d) was terminated", r.Code, fs.numBBs)
			fs.abort = true
			break
		}
		inst := len(m.vals)
		resTy, hasRes, term, okInst := fs.instruction(r, inst, retTy)
		if m.c.Trace != nil {
			m.c.Trace(fmt.Sprintf("fn %s bb%d v%d code=%d ops=%v -> %s res=%v term=%v ok=%v", fs.name(), fs.curBB, inst, r.Code, r.Ops, tt.str(resTy), hasRes, term, okInst))
		}
		if !okInst {
			// operand decoding is unreliable from here on
			fs.abort = true
			break
		}
		nInstIndex++
		f.NumInsts++
		fs.instInBB++
		if hasRes {
			if resTy >= 0 && tt.kind(resTy) == tVoid {
				hasRes = false
			}
		}
		if hasRes {
			m.vals = append(m.vals, value{ty: resTy, kind: vkInst})
		}
		if term {
			terminators++
			fs.curBB++
			fs.instInBB = 0
		}
	}
	f.NumBlocks = fs.numBBs
	if !fs.abort {
		if !fs.declared {
			fs.fail("declareblocks", "function body without DECLAREBLOCKS")
		} else if terminators != fs.numBBs {
			fs.fail("blocks", "DECLAREBLOCKS announces %d basic blocks but the body has %d terminators (last block has %d unterminated instructions)", fs.numBBs, terminators, fs.instInBB)
		}
		total := len(m.vals)
		for _, p := range fs.pendingVals {
			if p.id < 0 || p.id >= int64(total) {
				fs.fail("valueref", "%s refers to value %d, but the function defines values only up to %d", p.what, p.id, total-1)
				continue
			}
			if p.ty >= 0 {
				if got := m.vals[p.id].ty; got >= 0 && got != p.ty {
					fs.fail("operandtype", "%s: value %d has type %s, the reference expects %s", p.what, p.id, tt.str(got), tt.str(p.ty))
				}
			}
		}
		for _, p := range fs.pendingMDs {
			if p.id < 0 || p.id >= int64(len(m.mds)) {
				fs.fail("metadataref", "%s refers to metadata !%d, only %d are defined", p.what, p.id, len(m.mds))
			}
		}
		for _, st := range symtabs {
			m.symtab(st, total, fs.numBBs, false)
		}
		for _, ab := range attach {
			for _, it := range ab.Items {
				if it.Rec == nil || it.Rec.Code != 11 {
					continue
				}
				ops := it.Rec.Ops
				if len(ops)%2 == 1 {
					if ops[0] >= uint64(nInstIndex) {
						fs.fail("attachment", "metadata attachment to instruction %d, function has %d", ops[0], nInstIndex)
					}
					ops = ops[1:]
				}
				for i := 0; i+1 < len(ops); i += 2 {
					if ops[i+1] >= uint64(len(m.mds)) {
						fs.fail("metadataref", "metadata attachment refers to metadata !%d, only %d are defined", ops[i+1], len(m.mds))
					}
				}
			}
		}
	}
}

var castNames = []string{"trunc", "zext", "sext", "fptoui", "fptosi", "uitofp", "sitofp", "fptrunc", "fpext", "ptrtoint", "inttoptr", "bitcast", "addrspacecast"}

// bits returns the primitive bit width of a scalar (0 when unknown / pointer).
func (tt *typeTable) bits(id int) uint64 {
	t := tt.get(id)
	if t == nil {
		return 0
	}
	switch t.Kind {
	case tInt:
		return t.Width
	case tHalf:
		return 16
	case tFloat:
		return 32
	case tDouble:
		return 64
	case tOtherFP:
		return t.Width
	case tVector:
		return t.N * tt.bits(tt.c(t.Elem))
	}
	return 0
}

// castValid mirrors CastInst::castIsValid for the cases that can be decided
// on the modelled type information.
func (tt *typeTable) castValid(op uint64, src, dst int) bool {
	if src < 0 || dst < 0 {
		return true
	}
	st, dt := tt.get(src), tt.get(dst)
	if !tt.isFirstClass(src) || !tt.isFirstClass(dst) || st.Kind == tStruct || st.Kind == tArray || dt.Kind == tStruct || dt.Kind == tArray {
		return false
	}
	sv, dv := st.Kind == tVector, dt.Kind == tVector
	if sv != dv && op != 11 {
		return false
	}
	if sv && dv && st.N != dt.N && op != 11 {
		return false
	}
	ss, ds := tt.scalarOf(src), tt.scalarOf(dst)
	sb, db := tt.bits(ss), tt.bits(ds)
	switch op {
	case 0: // trunc
		return tt.isInt(ss) && tt.isInt(ds) && sb > db
	case 1, 2: // zext, sext
		return tt.isInt(ss) && tt.isInt(ds) && sb < db
	case 3, 4: // fptoui, fptosi
		return tt.isFP(ss) && tt.isInt(ds)
	case 5, 6: // uitofp, sitofp
		return tt.isInt(ss) && tt.isFP(ds)
	case 7: // fptrunc
		return tt.isFP(ss) && tt.isFP(ds) && sb > db
	case 8: // fpext
		return tt.isFP(ss) && tt.isFP(ds) && sb < db
	case 9: // ptrtoint
		return tt.kind(ss) == tPtr && tt.isInt(ds)
	case 10: // inttoptr
		return tt.isInt(ss) && tt.kind(ds) == tPtr
	case 11: // bitcast
		sp, dp := tt.kind(ss) == tPtr, tt.kind(ds) == tPtr
		if sp != dp {
			return false
		}
		if sp {
			return tt.get(ss).AddrSpace == tt.get(ds).AddrSpace && (!sv && !dv || sv && dv && st.N == dt.N)
		}
		if st.Kind == tMMX || dt.Kind == tMMX {
			return true
		}
		return tt.bits(src) == tt.bits(dst) && tt.bits(src) != 0
	case 12: // addrspacecast
		return tt.kind(ss) == tPtr && tt.kind(ds) == tPtr && tt.get(ss).AddrSpace != tt.get(ds).AddrSpace
	}
	return false
}

// instruction handles one instruction record.  ok=false means the record could
// not be decoded reliably (an issue was recorded).
func (fs *fnState) instruction(r *Record, inst int, retTy int) (resTy int, hasRes, term, ok bool) {
	m := fs.m
	tt := &m.tt
	c := &opCursor{fs: fs, ops: r.Ops, inst: inst}
	resTy = -1
	i1 := func() int { return tt.intTy(1) }
	boolLike := func(ty int) int {
		// i1 or <N x i1> matching the shape of ty
		if t := tt.get(ty); t != nil && t.Kind == tVector {
			return tt.intern(Type{Kind: tVector, N: t.N, Elem: i1()})
		}
		return i1()
	}
	switch r.Code {
	case 2: // BINOP [opval, opval, opcode(, flags)]
		c.what = "binop"
		_, lt, ok1 := c.valueTypePair()
		if !ok1 {
			return
		}
		if _, _, ok2 := c.value(lt); !ok2 {
			return
		}
		opc, ok3 := c.raw()
		if !ok3 {
			return
		}
		if c.left() > 1 {
			fs.fail("record", "binop (instruction value %d): %d operands left after the opcode", inst, c.left())
			return
		}
		if lt >= 0 {
			s := tt.scalarOf(lt)
			switch {
			case tt.isFP(s):
				if !(opc == 0 || opc == 1 || opc == 2 || opc == 4 || opc == 6) {
					fs.fail("opcode", "binop (instruction value %d): opcode %d is not valid for floating-point type %s", inst, opc, tt.str(lt))
					return
				}
			case tt.isInt(s):
				if opc > 12 {
					fs.fail("opcode", "binop (instruction value %d): unknown opcode %d", inst, opc)
					return
				}
			default:
				fs.fail("operandtype", "binop (instruction value %d): operand type %s is neither integer nor floating point", inst, tt.str(lt))
				return
			}
		}
		return lt, true, false, true
	case 3: // CAST [opval, destty, castopc]
		c.what = "cast"
		_, st, ok1 := c.valueTypePair()
		if !ok1 {
			return
		}
		dt, ok2 := c.typeID()
		if !ok2 {
			return
		}
		opc, ok3 := c.raw()
		if !ok3 || !c.done() {
			return
		}
		if opc > 12 {
			fs.fail("opcode", "cast (instruction value %d): unknown cast opcode %d", inst, opc)
			return
		}
		if !tt.castValid(opc, st, dt) {
			fs.fail("cast", "cast (instruction value %d): %s from %s to %s is not a valid cast", inst, castNames[opc], tt.str(st), tt.str(dt))
			return
		}
		return dt, true, false, true
	case 4, 30, 43: // GEP_OLD, INBOUNDS_GEP_OLD, GEP [inbounds, ty, operands...]
		c.what = "getelementptr"
		srcTy := -1
		if r.Code == 43 {
			if _, ok1 := c.raw(); !ok1 {
				return
			}
			var ok2 bool
			if srcTy, ok2 = c.typeID(); !ok2 {
				return
			}
		}
		_, bt, ok1 := c.valueTypePair()
		if !ok1 {
			return
		}
		var idx []int64
		for c.left() > 0 {
			id, _, ok2 := c.valueTypePair()
			if !ok2 {
				return
			}
			idx = append(idx, id)
		}
		if bt < 0 {
			return -1, true, false, true
		}
		bpt := tt.scalarOf(bt)
		if tt.kind(bpt) != tPtr {
			fs.fail("operandtype", "getelementptr (instruction value %d): base operand has non-pointer type %s", inst, tt.str(bt))
			return
		}
		pointee := tt.c(tt.get(bpt).Elem)
		if srcTy >= 0 && srcTy != pointee {
			fs.fail("gep", "getelementptr (instruction value %d): explicit source type %s does not match the pointee type of the base pointer %s", inst, tt.str(srcTy), tt.str(bt))
			return
		}
		if tt.kind(bt) == tVector {
			return -1, true, false, true
		}
		cur := pointee
		for k, id := range idx {
			if k == 0 {
				continue
			}
			t := tt.get(cur)
			if t == nil {
				cur = -1
				break
			}
			switch t.Kind {
			case tStruct:
				if !c.defined(id) || !m.vals[id].constInt {
					cur = -1
				} else if m.vals[id].ival >= uint64(len(t.Elems)) {
					fs.fail("gep", "getelementptr (instruction value %d): struct index %d out of range for %s", inst, m.vals[id].ival, tt.str(cur))
					return
				} else {
					cur = tt.c(t.Elems[m.vals[id].ival])
				}
			case tArray, tVector:
				cur = tt.c(t.Elem)
			default:
				fs.fail("gep", "getelementptr (instruction value %d): index %d steps into non-aggregate type %s", inst, k, tt.str(cur))
				return
			}
			if cur < 0 {
				break
			}
		}
		if cur < 0 {
			return -1, true, false, true
		}
		return tt.ptrTo(cur, tt.get(bpt).AddrSpace), true, false, true
	case 5: // SELECT (old) [opval, opval, cond(i1)]
		c.what = "select"
		_, t1, ok1 := c.valueTypePair()
		if !ok1 {
			return
		}
		if _, _, ok2 := c.value(t1); !ok2 {
			return
		}
		if _, _, ok3 := c.value(i1()); !ok3 || !c.done() {
			return
		}
		return t1, true, false, true
	case 29: // VSELECT [opval, opval, pred typepair]
		c.what = "select"
		_, t1, ok1 := c.valueTypePair()
		if !ok1 {
			return
		}
		if _, _, ok2 := c.value(t1); !ok2 {
			return
		}
		_, ct, ok3 := c.valueTypePair()
		if !ok3 || !c.done() {
			return
		}
		if ct >= 0 && ct != i1() {
			if t1 < 0 || ct != boolLike(t1) || tt.kind(ct) != tVector {
				fs.fail("operandtype", "select (instruction value %d): condition has type %s (operands %s)", inst, tt.str(ct), tt.str(t1))
				return
			}
		}
		return t1, true, false, true
	case 6: // EXTRACTELT [vec typepair, idx typepair]
		c.what = "extractelement"
		_, vt, ok1 := c.valueTypePair()
		if !ok1 {
			return
		}
		_, it, ok2 := c.valueTypePair()
		if !ok2 || !c.done() {
			return
		}
		if vt >= 0 && tt.kind(vt) != tVector {
			fs.fail("operandtype", "extractelement (instruction value %d): operand type %s is not a vector", inst, tt.str(vt))
			return
		}
		if it >= 0 && !tt.isInt(it) {
			fs.fail("operandtype", "extractelement (instruction value %d): index type %s is not an integer", inst, tt.str(it))
			return
		}
		if vt < 0 {
			return -1, true, false, true
		}
		return tt.c(tt.get(vt).Elem), true, false, true
	case 7: // INSERTELT [vec typepair, elt value, idx typepair]
		c.what = "insertelement"
		_, vt, ok1 := c.valueTypePair()
		if !ok1 {
			return
		}
		if vt >= 0 && tt.kind(vt) != tVector {
			fs.fail("operandtype", "insertelement (instruction value %d): operand type %s is not a vector", inst, tt.str(vt))
			return
		}
		et := -1
		if vt >= 0 {
			et = tt.c(tt.get(vt).Elem)
		}
		if _, _, ok2 := c.value(et); !ok2 {
			return
		}
		if _, _, ok3 := c.valueTypePair(); !ok3 || !c.done() {
			return
		}
		return vt, true, false, true
	case 8: // SHUFFLEVEC [v1 typepair, v2 value, mask typepair]
		c.what = "shufflevector"
		_, vt, ok1 := c.valueTypePair()
		if !ok1 {
			return
		}
		if _, _, ok2 := c.value(vt); !ok2 {
			return
		}
		_, mt, ok3 := c.valueTypePair()
		if !ok3 || !c.done() {
			return
		}
		if vt >= 0 && tt.kind(vt) != tVector || mt >= 0 && tt.kind(mt) != tVector {
			fs.fail("operandtype", "shufflevector (instruction value %d): operand types %s, %s", inst, tt.str(vt), tt.str(mt))
			return
		}
		if vt < 0 || mt < 0 {
			return -1, true, false, true
		}
		return tt.intern(Type{Kind: tVector, N: tt.get(mt).N, Elem: tt.get(vt).Elem}), true, false, true
	case 9, 28: // CMP / CMP2 [lhs typepair, rhs value, pred]
		c.what = "compare"
		_, lt, ok1 := c.valueTypePair()
		if !ok1 {
			return
		}
		if _, _, ok2 := c.value(lt); !ok2 {
			return
		}
		pred, ok3 := c.raw()
		if !ok3 {
			return
		}
		if lt >= 0 {
			s := tt.scalarOf(lt)
			switch {
			case tt.isFP(s):
				if c.left() > 1 {
					fs.fail("record", "compare (instruction value %d): too many operands", inst)
					return
				}
				if pred > 15 {
					fs.fail("opcode", "compare (instruction value %d): predicate %d is not a floating-point predicate, operands are %s", inst, pred, tt.str(lt))
					return
				}
			case tt.isInt(s) || tt.kind(s) == tPtr:
				if !c.done() {
					return
				}
				if pred < 32 || pred > 41 {
					fs.fail("opcode", "compare (instruction value %d): predicate %d is not an integer predicate, operands are %s", inst, pred, tt.str(lt))
					return
				}
			default:
				fs.fail("operandtype", "compare (instruction value %d): operands of type %s", inst, tt.str(lt))
				return
			}
			return boolLike(lt), true, false, true
		}
		return -1, true, false, true
	case 10: // RET [] | [val typepair]
		c.what = "ret"
		if len(r.Ops) == 0 {
			if retTy >= 0 && tt.kind(retTy) != tVoid {
				fs.fail("ret", "ret void in a function returning %s", tt.str(retTy))
			}
			return -1, false, true, true
		}
		_, vt, ok1 := c.valueTypePair()
		if !ok1 || !c.done() {
			return
		}
		if retTy >= 0 && vt >= 0 && vt != retTy {
			fs.fail("ret", "ret of type %s in a function returning %s", tt.str(vt), tt.str(retTy))
		}
		return -1, false, true, true
	case 11: // BR [bb] | [truebb, falsebb, cond]
		c.what = "br"
		if len(r.Ops) != 1 && len(r.Ops) != 3 {
			fs.fail("record", "br with %d operands (want 1 or 3)", len(r.Ops))
			return
		}
		if _, ok1 := c.bb(); !ok1 {
			return
		}
		if len(r.Ops) == 3 {
			if _, ok2 := c.bb(); !ok2 {
				return
			}
			if _, _, ok3 := c.value(i1()); !ok3 {
				return
			}
		}
		return -1, false, true, true
	case 12: // SWITCH [opty, cond, defaultbb, (caseval, bb)*]
		c.what = "switch"
		if len(r.Ops) > 0 && r.Ops[0]>>16 == 0x4B5 {
			// "new" switch encoding with case ranges: not produced by 3.7 writers
			m.c.info("%s: switch with case-range encoding not checked", m.rule)
			return -1, false, true, true
		}
		if len(r.Ops) < 3 || len(r.Ops)%2 == 0 {
			fs.fail("record", "switch with %d operands (want odd, >= 3)", len(r.Ops))
			return
		}
		ot, ok1 := c.typeID()
		if !ok1 {
			return
		}
		if !tt.isInt(ot) {
			fs.fail("operandtype", "switch on non-integer type %s", tt.str(ot))
			return
		}
		if _, _, ok2 := c.value(ot); !ok2 {
			return
		}
		if _, ok3 := c.bb(); !ok3 {
			return
		}
		for c.left() > 0 {
			id, _, ok4 := c.absolute(ot)
			if !ok4 {
				return
			}
			if c.defined(id) && !m.vals[id].constInt {
				fs.fail("switch", "switch case value %d is not an integer constant", id)
				return
			}
			if _, ok5 := c.bb(); !ok5 {
				return
			}
		}
		return -1, false, true, true
	case 31: // INDIRECTBR [opty, op, bbs...]
		c.what = "indirectbr"
		ot, ok1 := c.typeID()
		if !ok1 {
			return
		}
		if _, _, ok2 := c.value(ot); !ok2 {
			return
		}
		for c.left() > 0 {
			if _, ok3 := c.bb(); !ok3 {
				return
			}
		}
		return -1, false, true, true
	case 15: // UNREACHABLE
		return -1, false, true, true
	case 16: // PHI [ty, (val, bb)*]
		c.what = "phi"
		if len(r.Ops) < 1 || len(r.Ops)%2 == 0 {
			fs.fail("record", "phi with %d operands (want odd)", len(r.Ops))
			return
		}
		ty, ok1 := c.typeID()
		if !ok1 {
			return
		}
		if !tt.isFirstClass(ty) {
			fs.fail("operandtype", "phi of type %s", tt.str(ty))
			return
		}
		for c.left() > 0 {
			if _, _, ok2 := c.valueSigned(ty); !ok2 {
				return
			}
			if _, ok3 := c.bb(); !ok3 {
				return
			}
		}
		fs.f.NumPhis++
		return ty, true, false, true
	case 19: // ALLOCA [instty, opty, op, align]
		c.what = "alloca"
		if len(r.Ops) != 4 {
			fs.fail("record", "alloca with %d operands (want 4)", len(r.Ops))
			return
		}
		ty, ok1 := c.typeID()
		if !ok1 {
			return
		}
		if r.Ops[3]&(1<<6) == 0 {
			if tt.kind(ty) != tPtr {
				fs.fail("operandtype", "old-style alloca with non-pointer type %s", tt.str(ty))
				return
			}
			ty = tt.c(tt.get(ty).Elem)
		}
		ot, ok2 := c.typeID()
		if !ok2 {
			return
		}
		if _, _, ok3 := c.absolute(ot); !ok3 {
			return
		}
		if !tt.isInt(ot) {
			fs.fail("operandtype", "alloca size operand of type %s", tt.str(ot))
			return
		}
		return tt.ptrTo(ty, 0), true, false, true
	case 20, 41: // LOAD [op typepair, (ty), align, vol] / LOADATOMIC [..., ordering, synchscope]
		c.what = "load"
		extra := 2
		if r.Code == 41 {
			c.what = "atomic load"
			extra = 4
		}
		_, pt, ok1 := c.valueTypePair()
		if !ok1 {
			return
		}
		ty := -1
		switch c.left() {
		case extra:
		case extra + 1:
			var ok2 bool
			if ty, ok2 = c.typeID(); !ok2 {
				return
			}
		default:
			fs.fail("record", "%s (instruction value %d): %d operands left after the pointer (want %d or %d)", c.what, inst, c.left(), extra, extra+1)
			return
		}
		if pt >= 0 {
			if tt.kind(pt) != tPtr {
				fs.fail("operandtype", "%s (instruction value %d): operand of type %s is not a pointer", c.what, inst, tt.str(pt))
				return
			}
			pe := tt.c(tt.get(pt).Elem)
			if ty >= 0 && ty != pe {
				fs.fail("load", "%s (instruction value %d): explicit type %s does not match the pointee type of %s", c.what, inst, tt.str(ty), tt.str(pt))
				return
			}
			ty = pe
			if !tt.isFirstClass(ty) {
				fs.fail("load", "%s (instruction value %d): cannot load a value of type %s", c.what, inst, tt.str(ty))
				return
			}
		}
		return ty, true, false, true
	case 44, 45: // STORE [ptr typepair, val typepair, align, vol] / STOREATOMIC [+ ordering, synchscope]
		c.what = "store"
		extra := 2
		if r.Code == 45 {
			c.what = "atomic store"
			extra = 4
		}
		_, pt, ok1 := c.valueTypePair()
		if !ok1 {
			return
		}
		_, vt, ok2 := c.valueTypePair()
		if !ok2 {
			return
		}
		if c.left() != extra {
			fs.fail("record", "%s (before instruction value %d): %d operands left after pointer and value (want %d)", c.what, inst, c.left(), extra)
			return
		}
		if pt >= 0 {
			if tt.kind(pt) != tPtr {
				fs.fail("operandtype", "%s (before instruction value %d): first operand of type %s is not a pointer", c.what, inst, tt.str(pt))
				return
			}
			if pe := tt.c(tt.get(pt).Elem); vt >= 0 && pe != vt {
				fs.fail("store", "%s (before instruction value %d): value of type %s stored through %s", c.what, inst, tt.str(vt), tt.str(pt))
				return
			}
		}
		return -1, false, false, true
	case 24, 42: // STORE_OLD / STOREATOMIC_OLD [ptr typepair, val value, align, vol(, ordering, scope)]
		c.what = "store"
		_, pt, ok1 := c.valueTypePair()
		if !ok1 {
			return
		}
		pe := -1
		if pt >= 0 {
			if tt.kind(pt) != tPtr {
				fs.fail("operandtype", "store: first operand of type %s is not a pointer", tt.str(pt))
				return
			}
			pe = tt.c(tt.get(pt).Elem)
		}
		if _, _, ok2 := c.value(pe); !ok2 {
			return
		}
		return -1, false, false, true
	case 26: // EXTRACTVAL [agg typepair, idx...]
		c.what = "extractvalue"
		_, at, ok1 := c.valueTypePair()
		if !ok1 {
			return
		}
		if c.left() == 0 {
			fs.fail("record", "extractvalue (instruction value %d) without indices", inst)
			return
		}
		cur, ok2 := fs.walkAgg(c, at, inst)
		if !ok2 {
			return
		}
		return cur, true, false, true
	case 27: // INSERTVAL [agg typepair, val typepair, idx...]
		c.what = "insertvalue"
		_, at, ok1 := c.valueTypePair()
		if !ok1 {
			return
		}
		_, vt, ok2 := c.valueTypePair()
		if !ok2 {
			return
		}
		if c.left() == 0 {
			fs.fail("record", "insertvalue (instruction value %d) without indices", inst)
			return
		}
		cur, ok3 := fs.walkAgg(c, at, inst)
		if !ok3 {
			return
		}
		if cur >= 0 && vt >= 0 && cur != vt {
			fs.fail("operandtype", "insertvalue (instruction value %d): inserted value of type %s into a slot of type %s", inst, tt.str(vt), tt.str(cur))
			return
		}
		return at, true, false, true
	case 34: // CALL [paramattrs, cc, (fnty), fnid, args...]
		c.what = "call"
		pa, ok1 := c.raw()
		if !ok1 {
			return
		}
		if pa != 0 && int(pa) > m.NumAttrLists {
			fs.fail("attrs", "call (instruction value %d): attribute list %d, only %d defined", inst, pa, m.NumAttrLists)
		}
		cc, ok2 := c.raw()
		if !ok2 {
			return
		}
		fty := -1
		if cc>>15&1 == 1 {
			var ok3 bool
			if fty, ok3 = c.typeID(); !ok3 {
				return
			}
			if tt.kind(fty) != tFunc {
				fs.fail("call", "call (instruction value %d): explicit type %s is not a function type", inst, tt.str(fty))
				return
			}
		}
		callee, ct, ok4 := c.valueTypePair()
		if !ok4 {
			return
		}
		if ct >= 0 {
			if tt.kind(ct) != tPtr || tt.kind(tt.c(tt.get(ct).Elem)) != tFunc {
				fs.fail("call", "call (instruction value %d): callee value %d of type %s is not a pointer to a function", inst, callee, tt.str(ct))
				return
			}
			pe := tt.c(tt.get(ct).Elem)
			if fty >= 0 && fty != pe {
				fs.fail("call", "call (instruction value %d): explicit function type %s does not match the callee's type %s", inst, tt.str(fty), tt.str(pe))
				return
			}
			fty = pe
		}
		if fty < 0 {
			// cannot know the parameter list: accept operands as they are
			for c.left() > 0 {
				if _, _, ok5 := c.value(-1); !ok5 {
					return
				}
			}
			fs.f.NumCalls++
			return -1, true, false, true
		}
		ft := tt.get(fty)
		if c.left() < len(ft.Elems) {
			fs.fail("call", "call (instruction value %d) to value %d: %d argument operands for %d parameters", inst, callee, c.left(), len(ft.Elems))
			return
		}
		for _, p := range ft.Elems {
			pty := tt.c(p)
			if tt.kind(pty) == tLabel {
				if _, ok5 := c.bb(); !ok5 {
					return
				}
				continue
			}
			if _, _, ok5 := c.value(pty); !ok5 {
				return
			}
		}
		if ft.VarArg {
			for c.left() > 0 {
				if _, _, ok6 := c.valueTypePair(); !ok6 {
					return
				}
			}
		} else if !c.done() {
			return
		}
		fs.f.NumCalls++
		return tt.c(ft.Elem), true, false, true
	case 36: // FENCE [ordering, synchscope]
		if len(r.Ops) != 2 {
			fs.fail("record", "fence with %d operands (want 2)", len(r.Ops))
			return
		}
		return -1, false, false, true
	case 38: // ATOMICRMW [ptr typepair, val value, op, vol, ordering, synchscope]
		c.what = "atomicrmw"
		_, pt, ok1 := c.valueTypePair()
		if !ok1 {
			return
		}
		pe := -1
		if pt >= 0 {
			if tt.kind(pt) != tPtr {
				fs.fail("operandtype", "atomicrmw (instruction value %d): operand of type %s is not a pointer", inst, tt.str(pt))
				return
			}
			pe = tt.c(tt.get(pt).Elem)
		}
		if _, _, ok2 := c.value(pe); !ok2 {
			return
		}
		if c.left() != 4 {
			fs.fail("record", "atomicrmw (instruction value %d): %d operands after pointer and value (want 4)", inst, c.left())
			return
		}
		if op := r.Ops[c.i]; op > 10 {
			fs.fail("opcode", "atomicrmw (instruction value %d): unknown operation %d", inst, op)
			return
		}
		return pe, true, false, true
	case 37, 46: // CMPXCHG_OLD / CMPXCHG [ptr typepair, cmp, new value, vol, ordering, scope, (failure ordering, weak)]
		c.what = "cmpxchg"
		_, pt, ok1 := c.valueTypePair()
		if !ok1 {
			return
		}
		pe := -1
		if pt >= 0 {
			if tt.kind(pt) != tPtr {
				fs.fail("operandtype", "cmpxchg (instruction value %d): operand of type %s is not a pointer", inst, tt.str(pt))
				return
			}
			pe = tt.c(tt.get(pt).Elem)
		}
		cmpTy := pe
		if r.Code == 46 {
			var ok2 bool
			if _, cmpTy, ok2 = c.valueTypePair(); !ok2 {
				return
			}
			if pe >= 0 && cmpTy >= 0 && cmpTy != pe {
				fs.fail("operandtype", "cmpxchg (instruction value %d): compare value of type %s through %s", inst, tt.str(cmpTy), tt.str(pt))
				return
			}
		} else if _, _, ok2 := c.value(pe); !ok2 {
			return
		}
		if _, _, ok3 := c.value(cmpTy); !ok3 {
			return
		}
		if c.left() != 3 && c.left() != 5 {
			fs.fail("record", "cmpxchg (instruction value %d): %d trailing operands (want 3 or 5)", inst, c.left())
			return
		}
		if c.left() == 3 {
			return cmpTy, true, false, true // old form yields the loaded value
		}
		if cmpTy < 0 {
			return -1, true, false, true
		}
		return tt.intern(Type{Kind: tStruct, Elems: []int{cmpTy, i1()}}), true, false, true
	case 23: // VAARG [valistty, valist, resty]
		c.what = "va_arg"
		if len(r.Ops) < 3 {
			fs.fail("record", "va_arg with %d operands", len(r.Ops))
			return
		}
		lt, ok1 := c.typeID()
		if !ok1 {
			return
		}
		if _, _, ok2 := c.value(lt); !ok2 {
			return
		}
		rt, ok3 := c.typeID()
		if !ok3 {
			return
		}
		return rt, true, false, true
	case 13, 39, 40, 47: // INVOKE, RESUME, LANDINGPAD(_OLD): exception handling is not part of DXIL
		m.c.info("%s: exception-handling instruction code %d not checked", m.rule, r.Code)
		fs.fail("unsupported", "exception-handling instruction record (code %d); operand decoding stops here", r.Code)
		return
	default:
		fs.fail("record", "unknown instruction record code %d", r.Code)
		return
	}
}

// walkAgg follows literal indices through an aggregate type.
func (fs *fnState) walkAgg(c *opCursor, at int, inst int) (int, bool) {
	tt := &fs.m.tt
	cur := at
	for c.left() > 0 {
		idx, _ := c.raw()
		if cur < 0 {
			continue
		}
		t := tt.get(cur)
		switch t.Kind {
		case tStruct:
			if idx >= uint64(len(t.Elems)) {
				fs.fail("aggindex", "%s (instruction value %d): index %d out of range for %s", c.what, inst, idx, tt.str(cur))
				return -1, false
			}
			cur = tt.c(t.Elems[idx])
		case tArray:
			if idx >= t.N {
				fs.fail("aggindex", "%s (instruction value %d): index %d out of range for %s", c.what, inst, idx, tt.str(cur))
				return -1, false
			}
			cur = tt.c(t.Elem)
		default:
			fs.fail("aggindex", "%s (instruction value %d): index into non-aggregate type %s", c.what, inst, tt.str(cur))
			return -1, false
		}
	}
	return cur, true
}
