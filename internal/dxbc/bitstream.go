package dxbc

import "fmt"

// LLVM bitstream container format (LLVM 3.7 BitCodeFormat): a stream of
// abbreviation-id-prefixed entries, nested blocks with explicit lengths, and
// per-block abbreviation tables.

// Record is one decoded record.
type Record struct {
	Code     uint64
	Ops      []uint64
	AbbrevID uint64 // 3 = unabbreviated
	Bit      uint64 // stream position of the abbreviation id
}

// Item is either a nested block or a record.
type Item struct {
	Block *Block
	Rec   *Record
}

// Block is one parsed block.
type Block struct {
	ID          uint64
	AbbrevWidth uint64
	NumWords    uint64 // length word
	StartBit    uint64 // position of the first bit of the body (after the length word)
	Items       []Item
	NumAbbrevs  int // abbreviations defined in this block scope (incl. inherited from BLOCKINFO)
}

type abbrevOp struct {
	literal bool
	value   uint64 // literal value or width
	enc     uint64 // 1 fixed, 2 vbr, 3 array, 4 char6, 5 blob
}

type abbrev struct{ ops []abbrevOp }

type bitErr struct {
	rule string
	msg  string
}

type bitReader struct {
	b   []byte
	pos uint64 // bit position
	n   uint64 // total bits
}

func (r *bitReader) fixed(w uint64) (uint64, bool) {
	if w == 0 {
		return 0, true
	}
	if w > 64 || r.pos+w > r.n {
		return 0, false
	}
	var v uint64
	got := uint64(0)
	for got < w {
		byteI := r.pos >> 3
		bitI := r.pos & 7
		take := 8 - bitI
		if take > w-got {
			take = w - got
		}
		chunk := (uint64(r.b[byteI]) >> bitI) & ((1 << take) - 1)
		v |= chunk << got
		got += take
		r.pos += take
	}
	return v, true
}

func (r *bitReader) vbr(w uint64) (uint64, bool) {
	if w == 0 {
		return 0, true
	}
	if w > 32 {
		return 0, false
	}
	var v uint64
	shift := uint64(0)
	hi := uint64(1) << (w - 1)
	for {
		p, ok := r.fixed(w)
		if !ok {
			return 0, false
		}
		if shift < 64 {
			v |= (p & (hi - 1)) << shift
		}
		if p&hi == 0 {
			return v, true
		}
		shift += w - 1
		if shift > 70 {
			return 0, false
		}
	}
}

func (r *bitReader) align32() {
	r.pos = (r.pos + 31) &^ 31
}

const char6Alphabet = "abcdefghijklmnopqrstuvwxyzABCDEFGHIJKLMNOPQRSTUVWXYZ0123456789._"

// Bitstream is the block tree of a parsed stream.
type Bitstream struct {
	Top []*Block
	// statistics
	NumBlocks, NumRecords, NumAbbrevDefs, NumAbbrevUses int
}

type bsParser struct {
	r         *bitReader
	blockInfo map[uint64][]*abbrev
	bs        *Bitstream
	err       *bitErr
	depth     int
}

func (p *bsParser) failf(rule, format string, a ...any) {
	if p.err == nil {
		p.err = &bitErr{rule, fmt.Sprintf(format, a...)}
	}
}

// parseBitstream parses a wrapper-less LLVM bitstream.  It stops at the first
// structural violation (after which positions are meaningless).
func parseBitstream(b []byte) (*Bitstream, *bitErr) {
	if len(b) < 8 {
		return nil, &bitErr{"magic", fmt.Sprintf("bitcode is %d bytes, too short for magic and one block", len(b))}
	}
	if len(b)%4 != 0 {
		return nil, &bitErr{"align", fmt.Sprintf("bitcode size %d is not a multiple of 4", len(b))}
	}
	if b[0] != 'B' || b[1] != 'C' || b[2] != 0xC0 || b[3] != 0xDE {
		return nil, &bitErr{"magic", fmt.Sprintf("bitcode magic % x, want 42 43 c0 de", b[0:4])}
	}
	p := &bsParser{r: &bitReader{b: b, pos: 32, n: uint64(len(b)) * 8}, blockInfo: map[uint64][]*abbrev{}, bs: &Bitstream{}}
	for p.r.pos < p.r.n {
		at := p.r.pos
		id, ok := p.r.fixed(2)
		if !ok {
			p.failf("truncated", "stream ends inside a top-level abbreviation id at bit %d", at)
			break
		}
		if id != 1 {
			// Only blocks may appear at the top level of an IR stream.
			p.failf("toplevel", "top-level entry at bit %d has abbreviation id %d; only ENTER_SUBBLOCK (1) is allowed there", at, id)
			break
		}
		blk := p.enterBlock(2)
		if p.err != nil {
			break
		}
		p.bs.Top = append(p.bs.Top, blk)
	}
	if p.err != nil {
		return p.bs, p.err
	}
	if p.r.pos != p.r.n {
		return p.bs, &bitErr{"end", fmt.Sprintf("stream position %d after the last block, stream has %d bits", p.r.pos, p.r.n)}
	}
	return p.bs, nil
}

// enterBlock is called just after the ENTER_SUBBLOCK abbreviation id was read.
func (p *bsParser) enterBlock(outerWidth uint64) *Block {
	r := p.r
	at := r.pos
	p.depth++
	defer func() { p.depth-- }()
	if p.depth > 64 {
		p.failf("nesting", "blocks nested deeper than 64 at bit %d", at)
		return nil
	}
	id, ok1 := r.vbr(8)
	width, ok2 := r.vbr(4)
	if !ok1 || !ok2 {
		p.failf("truncated", "stream ends inside ENTER_SUBBLOCK at bit %d", at)
		return nil
	}
	r.align32()
	nwords, ok := r.fixed(32)
	if !ok {
		p.failf("truncated", "stream ends before the length word of block %d (entered at bit %d)", id, at)
		return nil
	}
	if width < 2 || width > 32 {
		p.failf("abbrevwidth", "block %d at bit %d declares abbreviation width %d (must be 2..32)", id, at, width)
		return nil
	}
	blk := &Block{ID: id, AbbrevWidth: width, NumWords: nwords, StartBit: r.pos}
	endBit := r.pos + nwords*32
	if endBit > r.n {
		p.failf("blocklen", "block %d at bit %d: length word %d words runs past the end of the stream (%d bits left)", id, at, nwords, r.n-r.pos)
		return nil
	}
	p.bs.NumBlocks++
	abbrevs := append([]*abbrev(nil), p.blockInfo[id]...)
	curBID := int64(-1) // BLOCKINFO: current SETBID target
	for {
		eat := r.pos
		if eat >= endBit {
			p.failf("blocklen", "block %d (entered at bit %d, %d words): body reaches the declared end at bit %d without an END_BLOCK", id, at, nwords, endBit)
			return nil
		}
		aid, ok := r.fixed(width)
		if !ok {
			p.failf("truncated", "stream ends inside block %d at bit %d", id, eat)
			return nil
		}
		switch aid {
		case 0: // END_BLOCK
			r.align32()
			if r.pos != endBit {
				p.failf("blocklen", "block %d (entered at bit %d): length word says %d words but END_BLOCK closes it after %d words",
					id, at, nwords, (r.pos-blk.StartBit)/32)
				return nil
			}
			blk.NumAbbrevs = len(abbrevs)
			return blk
		case 1: // ENTER_SUBBLOCK
			sub := p.enterBlock(width)
			if p.err != nil {
				return nil
			}
			blk.Items = append(blk.Items, Item{Block: sub})
		case 2: // DEFINE_ABBREV
			a := p.defineAbbrev(id, eat)
			if p.err != nil {
				return nil
			}
			p.bs.NumAbbrevDefs++
			if id == 0 {
				if curBID < 0 {
					p.failf("blockinfo", "DEFINE_ABBREV in BLOCKINFO at bit %d before any SETBID", eat)
					return nil
				}
				p.blockInfo[uint64(curBID)] = append(p.blockInfo[uint64(curBID)], a)
			} else {
				abbrevs = append(abbrevs, a)
			}
		case 3: // UNABBREV_RECORD
			code, ok1 := r.vbr(6)
			nops, ok2 := r.vbr(6)
			if !ok1 || !ok2 {
				p.failf("truncated", "stream ends inside an unabbreviated record at bit %d", eat)
				return nil
			}
			if nops > (r.n-r.pos)/6+1 {
				p.failf("record", "unabbreviated record at bit %d announces %d operands, more than the stream can hold", eat, nops)
				return nil
			}
			rec := &Record{Code: code, AbbrevID: 3, Bit: eat, Ops: make([]uint64, 0, nops)}
			for i := uint64(0); i < nops; i++ {
				v, ok := r.vbr(6)
				if !ok {
					p.failf("truncated", "stream ends inside operand %d of the unabbreviated record at bit %d", i, eat)
					return nil
				}
				rec.Ops = append(rec.Ops, v)
			}
			p.bs.NumRecords++
			blk.Items = append(blk.Items, Item{Rec: rec})
			if id == 0 && code == 1 { // SETBID
				if len(rec.Ops) < 1 {
					p.failf("blockinfo", "SETBID record without operand at bit %d", eat)
					return nil
				}
				curBID = int64(rec.Ops[0])
			}
		default:
			idx := int(aid) - 4
			if idx >= len(abbrevs) {
				p.failf("abbrevid", "block %d: abbreviation id %d used at bit %d but only %d abbreviations (ids 4..%d) are defined in this scope",
					id, aid, eat, len(abbrevs), 3+len(abbrevs))
				return nil
			}
			rec := p.readAbbrevRecord(abbrevs[idx], aid, eat)
			if p.err != nil {
				return nil
			}
			p.bs.NumRecords++
			p.bs.NumAbbrevUses++
			blk.Items = append(blk.Items, Item{Rec: rec})
			if id == 0 && rec.Code == 1 && len(rec.Ops) > 0 {
				curBID = int64(rec.Ops[0])
			}
		}
		if r.pos > endBit {
			p.failf("blocklen", "block %d (entered at bit %d, %d words): an entry starting at bit %d runs past the declared end of the block (bit %d)", id, at, nwords, eat, endBit)
			return nil
		}
	}
}

func (p *bsParser) defineAbbrev(blockID, at uint64) *abbrev {
	r := p.r
	n, ok := r.vbr(5)
	if !ok {
		p.failf("truncated", "stream ends inside DEFINE_ABBREV at bit %d", at)
		return nil
	}
	if n == 0 {
		p.failf("abbrevdef", "DEFINE_ABBREV at bit %d has no operands", at)
		return nil
	}
	a := &abbrev{}
	for i := uint64(0); i < n; i++ {
		lit, ok := r.fixed(1)
		if !ok {
			p.failf("truncated", "stream ends inside DEFINE_ABBREV at bit %d", at)
			return nil
		}
		if lit == 1 {
			v, ok := r.vbr(8)
			if !ok {
				p.failf("truncated", "stream ends inside DEFINE_ABBREV at bit %d", at)
				return nil
			}
			a.ops = append(a.ops, abbrevOp{literal: true, value: v})
			continue
		}
		enc, ok := r.fixed(3)
		if !ok {
			p.failf("truncated", "stream ends inside DEFINE_ABBREV at bit %d", at)
			return nil
		}
		op := abbrevOp{enc: enc}
		switch enc {
		case 1, 2:
			w, ok := r.vbr(5)
			if !ok {
				p.failf("truncated", "stream ends inside DEFINE_ABBREV at bit %d", at)
				return nil
			}
			if w > 32 {
				p.failf("abbrevdef", "DEFINE_ABBREV at bit %d: fixed/VBR operand width %d > 32", at, w)
				return nil
			}
			if w == 0 {
				// LLVM treats a zero-width field as the literal 0.
				op = abbrevOp{literal: true, value: 0}
			} else {
				op.value = w
			}
		case 3:
			if i+2 != n {
				p.failf("abbrevdef", "DEFINE_ABBREV at bit %d: array operand must be second to last (operand %d of %d)", at, i, n)
				return nil
			}
		case 4:
		case 5:
			if i+1 != n {
				p.failf("abbrevdef", "DEFINE_ABBREV at bit %d: blob operand must be last (operand %d of %d)", at, i, n)
				return nil
			}
		default:
			p.failf("abbrevdef", "DEFINE_ABBREV at bit %d: unknown operand encoding %d", at, enc)
			return nil
		}
		a.ops = append(a.ops, op)
	}
	// element type of an array must be a scalar encoding
	for i, op := range a.ops {
		if !op.literal && op.enc == 3 {
			el := a.ops[i+1]
			if !el.literal && (el.enc == 3 || el.enc == 5) {
				p.failf("abbrevdef", "DEFINE_ABBREV at bit %d: array element encoding %d", at, el.enc)
				return nil
			}
		}
	}
	return a
}

func (p *bsParser) scalar(op abbrevOp, at uint64) (uint64, bool) {
	r := p.r
	if op.literal {
		return op.value, true
	}
	switch op.enc {
	case 1:
		v, ok := r.fixed(op.value)
		if !ok {
			p.failf("truncated", "stream ends inside the abbreviated record at bit %d", at)
		}
		return v, ok
	case 2:
		v, ok := r.vbr(op.value)
		if !ok {
			p.failf("truncated", "stream ends inside the abbreviated record at bit %d", at)
		}
		return v, ok
	case 4:
		v, ok := r.fixed(6)
		if !ok {
			p.failf("truncated", "stream ends inside the abbreviated record at bit %d", at)
			return 0, false
		}
		return uint64(char6Alphabet[v]), true
	}
	p.failf("abbrevdef", "abbreviated record at bit %d: non-scalar encoding %d in scalar position", at, op.enc)
	return 0, false
}

func (p *bsParser) readAbbrevRecord(a *abbrev, aid, at uint64) *Record {
	r := p.r
	rec := &Record{AbbrevID: aid, Bit: at}
	var vals []uint64
	for i := 0; i < len(a.ops); i++ {
		op := a.ops[i]
		if op.literal || op.enc == 1 || op.enc == 2 || op.enc == 4 {
			v, ok := p.scalar(op, at)
			if !ok {
				return nil
			}
			vals = append(vals, v)
			continue
		}
		switch op.enc {
		case 3:
			n, ok := r.vbr(6)
			if !ok {
				p.failf("truncated", "stream ends inside the array length of the record at bit %d", at)
				return nil
			}
			el := a.ops[i+1]
			if n > r.n-r.pos+1 {
				p.failf("record", "abbreviated record at bit %d announces an array of %d elements, more than the stream can hold", at, n)
				return nil
			}
			for k := uint64(0); k < n; k++ {
				v, ok := p.scalar(el, at)
				if !ok {
					return nil
				}
				vals = append(vals, v)
			}
			i++ // element type consumed
		case 5:
			n, ok := r.vbr(6)
			if !ok {
				p.failf("truncated", "stream ends inside the blob length of the record at bit %d", at)
				return nil
			}
			r.align32()
			if r.pos+n*8 > r.n {
				p.failf("record", "blob of %d bytes at bit %d runs past the end of the stream", n, at)
				return nil
			}
			for k := uint64(0); k < n; k++ {
				vals = append(vals, uint64(r.b[(r.pos>>3)+k]))
			}
			r.pos += n * 8
			r.align32()
			if r.pos > r.n {
				p.failf("record", "blob padding at bit %d runs past the end of the stream", at)
				return nil
			}
		}
	}
	if len(vals) == 0 {
		p.failf("record", "abbreviated record at bit %d has no code", at)
		return nil
	}
	rec.Code = vals[0]
	rec.Ops = vals[1:]
	return rec
}
