package dxbc

import (
	"fmt"
	"os"
	"path/filepath"
	"sort"
	"strings"
	"testing"

	"github.com/gogpu/naga"
	"github.com/gogpu/naga/dxil"
	"github.com/gogpu/naga/ir"
)

func stageName(s ir.ShaderStage) string {
	switch s {
	case ir.StageVertex:
		return "vertex"
	case ir.StageFragment:
		return "fragment"
	case ir.StageCompute:
		return "compute"
	}
	return ""
}

// TestNagaCorpus runs the reader over what the backend under test produces
// for the WGSL corpus.  It only requires that the reader itself never panics;
// the issue histogram is logged (the property check C18 judges it).
func TestNagaCorpus(t *testing.T) {
	files, _ := filepath.Glob("/repo/snapshot/testdata/in/*.wgsl")
	if len(files) == 0 {
		t.Skip("no corpus")
	}
	rules := map[string]int{}
	compiled := 0
	for _, f := range files {
		src, _ := os.ReadFile(f)
		var mod *ir.Module
		func() {
			defer func() { _ = recover() }()
			ast, err := naga.Parse(string(src))
			if err != nil {
				return
			}
			mod, _ = naga.LowerWithSource(ast, string(src))
		}()
		if mod == nil {
			continue
		}
		for j := range mod.EntryPoints {
			single := *mod
			single.EntryPoints = []ir.EntryPoint{mod.EntryPoints[j]}
			var out []byte
			func() {
				defer func() { _ = recover() }()
				out, _ = dxil.Compile(&single, dxil.DefaultOptions())
			}()
			if out == nil {
				continue
			}
			compiled++
			c, is := Analyze(out, Expect{Stage: stageName(mod.EntryPoints[j].Stage), SMMajor: 6, SMMinor: 0, SMMinorAtLeast: true, Hash: HashRetail})
			for _, i := range is {
				rules[i.Rule]++
			}
			for _, s := range c.Info {
				rules["info "+strings.SplitN(s, ":", 2)[0]]++
			}
		}
	}
	var ks []string
	for k := range rules {
		ks = append(ks, k)
	}
	sort.Strings(ks)
	t.Logf("%d containers analysed", compiled)
	for _, k := range ks {
		t.Logf("%5d %s", rules[k], k)
	}
}

// TestTraceOne is a debugging aid: DBG_FILE=<wgsl> DBG_EP=<entry> prints one
// line per decoded instruction, the type table and the issues.
func TestTraceOne(t *testing.T) {
	f, ep := os.Getenv("DBG_FILE"), os.Getenv("DBG_EP")
	if f == "" {
		t.Skip("DBG_FILE not set")
	}
	src, _ := os.ReadFile(f)
	ast, err := naga.Parse(string(src))
	if err != nil {
		t.Fatal(err)
	}
	mod, err := naga.LowerWithSource(ast, string(src))
	if err != nil {
		t.Fatal(err)
	}
	for j := range mod.EntryPoints {
		if mod.EntryPoints[j].Name != ep {
			continue
		}
		single := *mod
		single.EntryPoints = []ir.EntryPoint{mod.EntryPoints[j]}
		out, cerr := dxil.Compile(&single, dxil.DefaultOptions())
		if cerr != nil {
			t.Fatal(cerr)
		}
		c := parseWith(out, func(s string) { fmt.Println(s) })
		if c.Module != nil {
			for i := 0; i < c.Module.tt.nTable; i++ {
				fmt.Printf("type %d = %s\n", i, c.Module.tt.str(i))
			}
			for i, v := range c.Module.vals {
				fmt.Printf("v%d kind=%d ty=%s int=%v %d\n", i, v.kind, c.Module.tt.str(v.ty), v.constInt, int64(v.ival))
			}
		}
		for _, i := range c.issues {
			fmt.Println("ISSUE", i)
		}
		fmt.Println(Summary(c))
	}
}
