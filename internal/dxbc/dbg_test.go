package dxbc
import ("testing";"os";"fmt";"path/filepath";"sort";"strings"
 "github.com/gogpu/naga"; "github.com/gogpu/naga/ir"; "github.com/gogpu/naga/dxil")
func stageName(s ir.ShaderStage) string { switch s { case ir.StageVertex: return "vertex"; case ir.StageFragment: return "fragment"; case ir.StageCompute: return "compute"}; return "" }
func TestDbgCorpus(t *testing.T){
 files,_:=filepath.Glob("/repo/snapshot/testdata/in/*.wgsl")
 rules:=map[string]int{}; ex:=map[string]string{}
 ok,errs,pan,skip:=0,0,0,0
 errKinds:=map[string]int{}
 for _,f:=range files {
  src,_:=os.ReadFile(f)
  ast,err:=naga.Parse(string(src)); if err!=nil {skip++;continue}
  var mod *ir.Module
  func(){ defer func(){ if r:=recover();r!=nil { mod=nil } }(); mod,err=naga.LowerWithSource(ast,string(src)) }()
  if err!=nil||mod==nil {skip++;continue}
  for j:=range mod.EntryPoints {
   single:=*mod; single.EntryPoints=[]ir.EntryPoint{mod.EntryPoints[j]}
   for _,sm:=range []dxil.ShaderModel{dxil.SM6_0,dxil.SM6_6} {
   opts:=dxil.DefaultOptions(); opts.ShaderModel=sm
   var out []byte; var cerr error; panicked:=false
   func(){ defer func(){ if r:=recover();r!=nil { panicked=true; fmt.Println("PANIC",filepath.Base(f),mod.EntryPoints[j].Name,r)} }(); out,cerr=dxil.Compile(&single,opts)}()
   if panicked {pan++;continue}
   if cerr!=nil {errs++; e:=cerr.Error(); if len(e)>60{e=e[:60]}; errKinds[e]++; continue}
   ok++
   c,is:=Analyze(out,Expect{Stage:stageName(mod.EntryPoints[j].Stage),SMMajor:6,SMMinor:int(sm.Minor),SMMinorAtLeast:true,Hash:HashRetail})
   for _,i:=range is { rules[i.Rule]++; if _,o:=ex[i.Rule];!o { ex[i.Rule]=filepath.Base(f)+"/"+mod.EntryPoints[j].Name+": "+i.Msg } }
   for _,s:=range c.Info { k:=strings.SplitN(s,":",2)[0]; rules["info "+k]++ ; if _,o:=ex["info "+k];!o {ex["info "+k]=filepath.Base(f)+": "+s}}
   if os.Getenv("DBG_SUM")!="" { fmt.Println(filepath.Base(f), mod.EntryPoints[j].Name, Summary(c)) }
   }
  }
 }
 fmt.Println("ok",ok,"errs",errs,"panics",pan,"skipfiles",skip)
 var ks []string; for k:=range rules {ks=append(ks,k)}; sort.Strings(ks)
 for _,k:=range ks { fmt.Println(rules[k],k,"::",ex[k]) }
 ks=nil; for k:=range errKinds {ks=append(ks,k)}; sort.Strings(ks)
 for _,k:=range ks { fmt.Println("ERR",errKinds[k],k) }
}
func TestDbgOne(t *testing.T){
 f:=os.Getenv("DBG_FILE"); ep:=os.Getenv("DBG_EP")
 src,_:=os.ReadFile(f)
 ast,err:=naga.Parse(string(src)); if err!=nil {t.Fatal(err)}
 mod,err:=naga.LowerWithSource(ast,string(src)); if err!=nil {t.Fatal(err)}
 for j:=range mod.EntryPoints { if mod.EntryPoints[j].Name!=ep {continue}
   single:=*mod; single.EntryPoints=[]ir.EntryPoint{mod.EntryPoints[j]}
   out,cerr:=dxil.Compile(&single,dxil.DefaultOptions()); if cerr!=nil {t.Fatal(cerr)}
   c:=parseWith(out,func(s string){fmt.Println(s)})
   for i,ty:=range c.Module.tt.types[:c.Module.tt.nTable] { _=ty; fmt.Printf("type %d = %s\n",i,c.Module.tt.str(i)) }
   for i,v:=range c.Module.vals { fmt.Printf("v%d kind=%d ty=%s int=%v %d\n",i,v.kind,c.Module.tt.str(v.ty),v.constInt,int64(v.ival))}
   for _,fn:=range c.Module.Functions { fmt.Printf("func %s v%d proto=%v ty=%s\n",fn.Name,fn.ValueID,fn.IsProto,c.Module.tt.str(fn.TypeID)) }
   for _,i:=range c.issues { fmt.Println("ISSUE",i) }
   fmt.Println(Summary(c))
   if p:=os.Getenv("DBG_OUT");p!="" { os.WriteFile(p,out,0o644) }
 }
}
func TestDbgList(t *testing.T){
 files,_:=filepath.Glob("/repo/snapshot/testdata/in/*.wgsl")
 for _,f:=range files {
  src,_:=os.ReadFile(f)
  ast,err:=naga.Parse(string(src)); if err!=nil {continue}
  mod,err:=naga.LowerWithSource(ast,string(src)); if err!=nil {continue}
  for j:=range mod.EntryPoints {
   single:=*mod; single.EntryPoints=[]ir.EntryPoint{mod.EntryPoints[j]}
   out,cerr:=dxil.Compile(&single,dxil.DefaultOptions()); if cerr!=nil {fmt.Println("ERR",filepath.Base(f),mod.EntryPoints[j].Name,cerr);continue}
   _,is:=Analyze(out,Expect{Stage:stageName(mod.EntryPoints[j].Stage),SMMajor:6,SMMinor:0,SMMinorAtLeast:true,Hash:HashRetail})
   for _,i:=range is { fmt.Println("ISSUE",filepath.Base(f),mod.EntryPoints[j].Name,i) }
  }
 }
}
