package dxbc

import (
	"bytes"
	"crypto/md5"
	"encoding/binary"
	"fmt"
	"os"
	"path/filepath"
	"testing"
)

// Containers produced by the real DXC (validator 1.8) that ship with the
// repository under test: they carry a retail digest, a HASH part and bitcode
// written by LLVM 3.7's own BitcodeWriter (abbreviations, BLOCKINFO, forward
// references), so they calibrate this reader against the reference tools.
var goldenDXC = []string{
	"/repo/internal/dxcvalidator/bitcheck/testdata/golden-dxc/triangle_vs_1.8.dxil",
	"/repo/internal/dxcvalidator/bitcheck/testdata/golden-dxc/triangle_fs_1.8.dxil",
}

func TestMD5BlockAgainstStdlib(t *testing.T) {
	// Standard MD5 built on md5Block must equal crypto/md5.
	for _, n := range []int{0, 1, 55, 56, 63, 64, 65, 119, 120, 1000} {
		data := make([]byte, n)
		for i := range data {
			data[i] = byte(i*7 + n)
		}
		st := [4]uint32{0x67452301, 0xefcdab89, 0x98badcfe, 0x10325476}
		msg := append([]byte{}, data...)
		msg = append(msg, 0x80)
		for len(msg)%64 != 56 {
			msg = append(msg, 0)
		}
		var l [8]byte
		binary.LittleEndian.PutUint64(l[:], uint64(n)*8)
		msg = append(msg, l[:]...)
		for off := 0; off < len(msg); off += 64 {
			md5Block(&st, msg[off:off+64])
		}
		var got [16]byte
		for i := 0; i < 4; i++ {
			binary.LittleEndian.PutUint32(got[4*i:], st[i])
		}
		if want := md5.Sum(data); got != want {
			t.Fatalf("n=%d: md5Block-based MD5 %x != crypto/md5 %x", n, got, want)
		}
	}
}

func TestGoldenDXC(t *testing.T) {
	for _, p := range goldenDXC {
		b, err := os.ReadFile(p)
		if err != nil {
			t.Skipf("fixture missing: %v", err)
		}
		c, issues := Analyze(b, Expect{SMMajor: -1, Hash: HashRetail})
		for _, is := range issues {
			t.Errorf("%s: %s", filepath.Base(p), is)
		}
		if c.Module == nil || c.Hash == nil || c.PSV == nil || c.Inputs == nil || c.Outputs == nil {
			t.Fatalf("%s: parts not parsed: %+v", filepath.Base(p), c)
		}
		if c.Module.Stream.NumAbbrevUses == 0 {
			t.Errorf("%s: expected abbreviated records in DXC output", filepath.Base(p))
		}
		if testing.Verbose() {
			t.Log(filepath.Base(p), Summary(c))
			for _, s := range c.Info {
				t.Log("  info:", s)
			}
		}
	}
}

// Summary is a one-line description used by tests.
func Summary(c *Container) string {
	var sb bytes.Buffer
	for _, p := range c.Parts {
		fmt.Fprintf(&sb, "%s(%d) ", p.FourCC, p.Size)
	}
	if c.Program != nil {
		fmt.Fprintf(&sb, "| %s_%d_%d dxil1.%d ", KindName(c.Program.Kind), c.Program.Major, c.Program.Minor, c.Program.DxilMinor)
	}
	if m := c.Module; m != nil {
		fmt.Fprintf(&sb, "| types=%d globals=%d funcs=%d consts=%d md=%d named=%d abbrevdefs=%d abbrevuses=%d records=%d blocks=%d",
			m.NumTypes, m.NumGlobals, len(m.Functions), m.NumModuleConsts, m.NumMetadata, m.NumNamedMD,
			m.Stream.NumAbbrevDefs, m.Stream.NumAbbrevUses, m.Stream.NumRecords, m.Stream.NumBlocks)
		for _, f := range m.Bodies() {
			fmt.Fprintf(&sb, " [%s: bbs=%d insts=%d calls=%d phis=%d fwd=%d consts=%d]", f.Name, f.NumBlocks, f.NumInsts, f.NumCalls, f.NumPhis, f.FwdRefs, f.NumConsts)
		}
	}
	return sb.String()
}

// Every single-bit corruption of the golden containers outside the digest
// must be noticed at least through the digest; corruptions with the digest
// recomputed exercise the structural rules.
func TestGoldenCorruptions(t *testing.T) {
	b, err := os.ReadFile(goldenDXC[0])
	if err != nil {
		t.Skip("fixture missing")
	}
	rehash := func(x []byte) {
		h := RetailHash(x[20:])
		copy(x[4:20], h[:])
	}
	type mut struct {
		name string
		f    func(x []byte) []byte
		rule string
	}
	c0, _ := ParseContainer(b)
	dxil := c0.FindPart("DXIL")
	bcOff := int(dxil.Offset) + 8 + 24
	muts := []mut{
		{"total size +4", func(x []byte) []byte { binary.LittleEndian.PutUint32(x[24:], uint32(len(x))+4); return x }, "container.size"},
		{"part offset shifted", func(x []byte) []byte { binary.LittleEndian.PutUint32(x[36:], le32(x, 36)+4); return x }, "container.part"},
		{"isg1 name offset", func(x []byte) []byte {
			p := c0.FindPart("ISG1")
			binary.LittleEndian.PutUint32(x[int(p.Offset)+8+8+4:], 0x1000)
			return x
		}, "isg1.nameoffset"},
		{"program dwords", func(x []byte) []byte {
			binary.LittleEndian.PutUint32(x[int(dxil.Offset)+8+4:], le32(x, int(dxil.Offset)+12)+1)
			return x
		}, "dxil.size"},
		{"bitcode size", func(x []byte) []byte {
			binary.LittleEndian.PutUint32(x[int(dxil.Offset)+8+20:], le32(x, int(dxil.Offset)+28)-4)
			return x
		}, "dxil.bitcodesize"},
		{"bitcode magic", func(x []byte) []byte { x[bcOff] = 'X'; return x }, "bc.stream.magic"},
		{"module block length", func(x []byte) []byte { binary.LittleEndian.PutUint32(x[bcOff+8:], le32(x, bcOff+8)+1); return x }, "bc.stream.blocklen"},
		{"psv string table size", func(x []byte) []byte {
			p := c0.FindPart("PSV0")
			o := int(p.Offset) + 8 + 4 + 52 + 4
			binary.LittleEndian.PutUint32(x[o:], le32(x, o)+4)
			return x
		}, "psv."},
		{"hash part", func(x []byte) []byte { p := c0.FindPart("HASH"); x[int(p.Offset)+8+5] ^= 1; return x }, "hash.part"},
	}
	for _, m := range muts {
		x := m.f(append([]byte{}, b...))
		rehash(x)
		is := Check(x, Expect{SMMajor: -1, Hash: HashRetail})
		found := false
		for _, i := range is {
			if len(i.Rule) >= len(m.rule) && i.Rule[:len(m.rule)] == m.rule {
				found = true
			}
		}
		if !found {
			t.Errorf("mutation %q: expected rule %s*, got %v", m.name, m.rule, is)
		}
	}
	// digest sensitivity
	x := append([]byte{}, b...)
	x[len(x)-1] ^= 0x10
	if is := Check(x, Expect{SMMajor: -1, Hash: HashRetail}); len(is) == 0 {
		t.Errorf("bit flip without rehash not detected")
	}
}

// Flip every bit of the bitcode (rehashing both digests) and require that the
// reader never panics and that the clean stream is accepted; count detections.
func TestBitcodeBitFlips(t *testing.T) {
	b, err := os.ReadFile(goldenDXC[0])
	if err != nil {
		t.Skip("fixture missing")
	}
	c0, _ := ParseContainer(b)
	dxil := c0.FindPart("DXIL")
	bcOff := int(dxil.Offset) + 8 + 24
	n := int(c0.Program.BitcodeSize)
	detected, total := 0, 0
	for bit := 0; bit < n*8; bit += 3 {
		x := append([]byte{}, b...)
		x[bcOff+bit/8] ^= 1 << uint(bit%8)
		c := &Container{}
		func() {
			defer func() {
				if r := recover(); r != nil {
					t.Fatalf("panic on bit flip %d: %v", bit, r)
				}
			}()
			c.parseBitcode(x[bcOff:bcOff+n], "bc")
		}()
		total++
		if len(c.issues) > 0 {
			detected++
		}
	}
	t.Logf("bit flips in bitcode: %d of %d detected by bitstream + semantic rules alone", detected, total)
	if detected*4 < total {
		t.Errorf("fewer than a quarter of the bit flips were detected (%d/%d)", detected, total)
	}
}
