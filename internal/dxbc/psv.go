package dxbc

// PSVResource is one PSVResourceBindInfo0/1 record.
type PSVResource struct {
	ResType    uint32 // 1 sampler, 2 cbv, 3-5 srv typed/raw/structured, 6-9 uav typed/raw/structured/structured+counter
	Space      uint32
	LowerBound uint32
	UpperBound uint32
	ResKind    uint32 // record version >= 1
	ResFlags   uint32
}

// PSVSigElement is one PSVSignatureElement0 record.
type PSVSigElement struct {
	NameOffset      uint32
	Name            string
	IndexesOffset   uint32
	Indexes         []uint32
	Rows            uint8
	StartRow        uint8
	Cols            uint8
	StartCol        uint8
	Allocated       bool
	SemanticKind    uint8
	ComponentType   uint8
	InterpMode      uint8
	DynamicMask     uint8
	Stream          uint8
	ColsAndStartRaw uint8
}

// PSV is the parsed PSV0 part.
type PSV struct {
	InfoSize uint32
	Version  int // 0..3 by runtime-info size (4 for the 56-byte form)
	StageRaw [16]byte
	MinWave  uint32
	MaxWave  uint32

	// version >= 1
	ShaderStage       uint8
	UsesViewID        uint8
	UnionBytes        [2]byte // MaxVertexCount (GS) | SigPatchConstOrPrimVectors (HS/DS) | SigPrimVectors+MeshOutputTopology (MS)
	SigInputElements  uint8
	SigOutputElements uint8
	SigPCElements     uint8
	SigInputVectors   uint8
	SigOutputVectors  [4]uint8
	// version >= 2
	NumThreads [3]uint32
	// version >= 3
	EntryNameOffset uint32
	EntryName       string

	Resources   []PSVResource
	ResRecSize  uint32
	StringTable []byte
	IndexTable  []uint32
	SigRecSize  uint32
	InputElems  []PSVSigElement
	OutputElems []PSVSigElement
	PCElems     []PSVSigElement
	// dependency tables, raw dwords
	ViewIDOutputMask [4][]uint32
	ViewIDPCMask     []uint32
	InputToOutput    [4][]uint32
	InputToPC        []uint32
	PCToOutput       []uint32
}

func maskDwords(vectors uint8) int { return (int(vectors) + 7) >> 3 }

type psvCursor struct {
	d   []byte
	off int
}

func (r *psvCursor) remaining() int { return len(r.d) - r.off }
func (r *psvCursor) u32() (uint32, bool) {
	if r.remaining() < 4 {
		return 0, false
	}
	v := le32(r.d, r.off)
	r.off += 4
	return v, true
}
func (r *psvCursor) bytes(n int) ([]byte, bool) {
	if n < 0 || r.remaining() < n {
		return nil, false
	}
	b := r.d[r.off : r.off+n]
	r.off += n
	return b, true
}
func (r *psvCursor) dwords(n int) ([]uint32, bool) {
	b, ok := r.bytes(4 * n)
	if !ok {
		return nil, false
	}
	out := make([]uint32, n)
	for i := range out {
		out[i] = le32(b, 4*i)
	}
	return out, true
}

func (c *Container) parsePSV(p *Part) *PSV {
	const R = "psv"
	r := &psvCursor{d: p.Data}
	v := &PSV{}
	sz, ok := r.u32()
	if !ok {
		c.fail(R+".header", "PSV0 part is %d bytes, too short for the runtime-info size", len(p.Data))
		return nil
	}
	v.InfoSize = sz
	switch sz {
	case 24:
		v.Version = 0
	case 36:
		v.Version = 1
	case 48:
		v.Version = 2
	case 52:
		v.Version = 3
	case 56:
		v.Version = 4
	default:
		c.fail(R+".infosize", "PSV0 runtime-info size %d is not one of 24, 36, 48, 52, 56", sz)
		return v
	}
	info, ok := r.bytes(int(sz))
	if !ok {
		c.fail(R+".infosize", "PSV0 runtime info (%d bytes) does not fit in the part (%d bytes)", sz, len(p.Data))
		return v
	}
	copy(v.StageRaw[:], info[0:16])
	v.MinWave = le32(info, 16)
	v.MaxWave = le32(info, 20)
	if v.MinWave > v.MaxWave {
		c.fail(R+".wave", "PSV0 minimum wave lane count %d > maximum %d", v.MinWave, v.MaxWave)
	}
	if v.Version >= 1 {
		v.ShaderStage = info[24]
		v.UsesViewID = info[25]
		v.UnionBytes = [2]byte{info[26], info[27]}
		v.SigInputElements = info[28]
		v.SigOutputElements = info[29]
		v.SigPCElements = info[30]
		v.SigInputVectors = info[31]
		copy(v.SigOutputVectors[:], info[32:36])
		if v.UsesViewID > 1 {
			c.fail(R+".usesviewid", "PSV0 UsesViewID is %d, want 0 or 1", v.UsesViewID)
		}
	}
	if v.Version >= 2 {
		v.NumThreads = [3]uint32{le32(info, 36), le32(info, 40), le32(info, 44)}
	}
	if v.Version >= 3 {
		v.EntryNameOffset = le32(info, 48)
	}

	// Resources.
	nres, ok := r.u32()
	if !ok {
		c.fail(R+".resources", "PSV0 ends before the resource count")
		return v
	}
	if nres > 0 {
		rec, ok := r.u32()
		if !ok {
			c.fail(R+".resources", "PSV0 ends before the resource record size")
			return v
		}
		v.ResRecSize = rec
		if rec != 16 && rec != 24 {
			c.fail(R+".resrecsize", "PSV0 resource record size %d is not 16 or 24", rec)
			return v
		}
		if v.Version >= 2 && rec < 24 {
			c.fail(R+".resrecsize", "PSV0 version %d must use 24-byte resource records, has %d", v.Version, rec)
		}
		if uint64(nres)*uint64(rec) > uint64(r.remaining()) {
			c.fail(R+".resources", "PSV0: %d resource records of %d bytes do not fit in the remaining %d bytes", nres, rec, r.remaining())
			return v
		}
		for i := 0; i < int(nres); i++ {
			b, _ := r.bytes(int(rec))
			res := PSVResource{ResType: le32(b, 0), Space: le32(b, 4), LowerBound: le32(b, 8), UpperBound: le32(b, 12)}
			if rec >= 24 {
				res.ResKind = le32(b, 16)
				res.ResFlags = le32(b, 20)
			}
			if res.ResType == 0 || res.ResType > 9 {
				c.fail(R+".restype", "PSV0 resource %d: type %d is not a PSVResourceType (1..9)", i, res.ResType)
			}
			if res.LowerBound > res.UpperBound {
				c.fail(R+".resrange", "PSV0 resource %d: lower bound %d > upper bound %d", i, res.LowerBound, res.UpperBound)
			}
			if rec >= 24 && res.ResKind > 19 {
				c.fail(R+".reskind", "PSV0 resource %d: kind %d is not a DXIL resource kind", i, res.ResKind)
			}
			v.Resources = append(v.Resources, res)
		}
		for i := range v.Resources {
			for j := i + 1; j < len(v.Resources); j++ {
				a, b := v.Resources[i], v.Resources[j]
				if resClass(a.ResType) == resClass(b.ResType) && a.Space == b.Space && a.LowerBound <= b.UpperBound && b.LowerBound <= a.UpperBound {
					c.info("psv-resource-overlap: resources %d and %d (class %d, space %d) overlap", i, j, resClass(a.ResType), a.Space)
				}
			}
		}
	}
	if v.Version == 0 {
		if r.remaining() != 0 {
			c.fail(R+".trailing", "PSV0 (version 0) has %d unread bytes after the resources", r.remaining())
		}
		return v
	}

	// String table.
	stsz, ok := r.u32()
	if !ok {
		c.fail(R+".stringtable", "PSV0 ends before the string table size")
		return v
	}
	if stsz%4 != 0 {
		c.fail(R+".stringtable", "PSV0 string table size %d is not a multiple of 4", stsz)
		return v
	}
	st, ok := r.bytes(int(stsz))
	if !ok || uint64(stsz) > uint64(len(p.Data)) {
		c.fail(R+".stringtable", "PSV0 string table of %d bytes does not fit in the remaining %d bytes", stsz, r.remaining())
		return v
	}
	v.StringTable = st
	str := func(off uint32) (string, bool) {
		if uint64(off) >= uint64(len(st)) {
			return "", false
		}
		e := int(off)
		for e < len(st) && st[e] != 0 {
			e++
		}
		if e == len(st) {
			return "", false
		}
		return string(st[off:e]), true
	}
	if v.Version >= 3 {
		if s, ok := str(v.EntryNameOffset); ok {
			v.EntryName = s
		} else {
			c.fail(R+".entryname", "PSV0 entry-name offset %d is not a NUL-terminated string inside the %d-byte string table", v.EntryNameOffset, len(st))
		}
	}

	// Semantic index table.
	nidx, ok := r.u32()
	if !ok {
		c.fail(R+".indextable", "PSV0 ends before the semantic index table size")
		return v
	}
	if uint64(nidx)*4 > uint64(r.remaining()) {
		c.fail(R+".indextable", "PSV0 semantic index table of %d entries does not fit in the remaining %d bytes", nidx, r.remaining())
		return v
	}
	v.IndexTable, _ = r.dwords(int(nidx))

	// Signature elements.
	nel := int(v.SigInputElements) + int(v.SigOutputElements) + int(v.SigPCElements)
	if nel > 0 {
		rec, ok := r.u32()
		if !ok {
			c.fail(R+".sigelems", "PSV0 ends before the signature element record size")
			return v
		}
		v.SigRecSize = rec
		if rec != 16 {
			c.fail(R+".sigrecsize", "PSV0 signature element record size %d, want 16", rec)
			return v
		}
		if nel*int(rec) > r.remaining() {
			c.fail(R+".sigelems", "PSV0: %d signature element records do not fit in the remaining %d bytes", nel, r.remaining())
			return v
		}
		read := func(n int, which string, vectors func(stream uint8) int) []PSVSigElement {
			var out []PSVSigElement
			for i := 0; i < n; i++ {
				b, _ := r.bytes(int(rec))
				e := PSVSigElement{
					NameOffset: le32(b, 0), IndexesOffset: le32(b, 4), Rows: b[8], StartRow: b[9],
					ColsAndStartRaw: b[10], Cols: b[10] & 0xf, StartCol: (b[10] >> 4) & 3, Allocated: b[10]&0x40 != 0,
					SemanticKind: b[11], ComponentType: b[12], InterpMode: b[13],
					DynamicMask: b[14] & 0xf, Stream: (b[14] >> 4) & 3,
				}
				if s, ok := str(e.NameOffset); ok {
					e.Name = s
				} else {
					c.fail(R+".signame", "PSV0 %s element %d: semantic name offset %d is not a NUL-terminated string inside the %d-byte string table", which, i, e.NameOffset, len(st))
				}
				if uint64(e.IndexesOffset)+uint64(e.Rows) > uint64(len(v.IndexTable)) {
					c.fail(R+".sigindexes", "PSV0 %s element %d: semantic indexes [%d,+%d) exceed the index table (%d entries)", which, i, e.IndexesOffset, e.Rows, len(v.IndexTable))
				} else {
					e.Indexes = v.IndexTable[e.IndexesOffset : e.IndexesOffset+uint32(e.Rows)]
				}
				if e.Rows == 0 {
					c.fail(R+".sigrows", "PSV0 %s element %d: zero rows", which, i)
				}
				if e.Cols > 4 || e.Cols == 0 {
					c.fail(R+".sigcols", "PSV0 %s element %d: %d columns", which, i, e.Cols)
				} else if e.Allocated && int(e.StartCol)+int(e.Cols) > 4 {
					c.fail(R+".sigcols", "PSV0 %s element %d: start column %d + %d columns exceeds a 4-component row", which, i, e.StartCol, e.Cols)
				}
				if e.ComponentType > 9 {
					c.fail(R+".sigcomptype", "PSV0 %s element %d: component type %d", which, i, e.ComponentType)
				}
				if e.InterpMode > 8 {
					c.fail(R+".siginterp", "PSV0 %s element %d: interpolation mode %d", which, i, e.InterpMode)
				}
				if e.Allocated && vectors != nil {
					if nv := vectors(e.Stream); int(e.StartRow)+int(e.Rows) > nv {
						c.fail(R+".sigvectors", "PSV0 %s element %d: rows [%d,+%d) exceed the declared %d %s vectors", which, i, e.StartRow, e.Rows, nv, which)
					}
				}
				out = append(out, e)
			}
			// allocated elements of one stream must not overlap
			for i := range out {
				for j := i + 1; j < len(out); j++ {
					a, b := out[i], out[j]
					if !a.Allocated || !b.Allocated || a.Stream != b.Stream || a.Cols > 4 || b.Cols > 4 {
						continue
					}
					rowsOverlap := int(a.StartRow) < int(b.StartRow)+int(b.Rows) && int(b.StartRow) < int(a.StartRow)+int(a.Rows)
					colsOverlap := int(a.StartCol) < int(b.StartCol)+int(b.Cols) && int(b.StartCol) < int(a.StartCol)+int(a.Cols)
					if rowsOverlap && colsOverlap {
						c.fail(R+".sigoverlap", "PSV0 %s elements %d and %d overlap (rows %d+%d cols %d+%d vs rows %d+%d cols %d+%d)", which, i, j,
							a.StartRow, a.Rows, a.StartCol, a.Cols, b.StartRow, b.Rows, b.StartCol, b.Cols)
					}
				}
			}
			return out
		}
		v.InputElems = read(int(v.SigInputElements), "input", func(uint8) int { return int(v.SigInputVectors) })
		v.OutputElems = read(int(v.SigOutputElements), "output", func(s uint8) int { return int(v.SigOutputVectors[s]) })
		v.PCElems = read(int(v.SigPCElements), "patch-constant/primitive", nil)
	}

	stage := v.ShaderStage
	pcVectors := 0
	switch stage {
	case 3, 4: // hull, domain
		pcVectors = int(v.UnionBytes[0])
	case 13: // mesh
		pcVectors = int(v.UnionBytes[0])
	}
	fits := func(what string, n int) ([]uint32, bool) {
		dw, ok := r.dwords(n)
		if !ok {
			c.fail(R+".deptable", "PSV0 %s (%d dwords) does not fit in the remaining %d bytes", what, n, r.remaining())
		}
		return dw, ok
	}
	if v.UsesViewID == 1 {
		for i := 0; i < 4; i++ {
			if v.SigOutputVectors[i] > 0 {
				if v.ViewIDOutputMask[i], ok = fits("view-id output mask", maskDwords(v.SigOutputVectors[i])); !ok {
					return v
				}
			}
		}
		if (stage == 3 || stage == 13) && pcVectors > 0 {
			if v.ViewIDPCMask, ok = fits("view-id patch-constant mask", maskDwords(uint8(pcVectors))); !ok {
				return v
			}
		}
	}
	if stage != 13 { // mesh shaders have no input signature dependency
		for i := 0; i < 4; i++ {
			if v.SigInputVectors > 0 && v.SigOutputVectors[i] > 0 {
				n := maskDwords(v.SigOutputVectors[i]) * int(v.SigInputVectors) * 4
				if v.InputToOutput[i], ok = fits("input-to-output table", n); !ok {
					return v
				}
				// bits beyond the declared output components must be clear
				c.checkDepTable(v.InputToOutput[i], int(v.SigInputVectors)*4, int(v.SigOutputVectors[i]), "input-to-output")
			}
		}
	}
	if stage == 3 && pcVectors > 0 && v.SigInputVectors > 0 {
		n := maskDwords(uint8(pcVectors)) * int(v.SigInputVectors) * 4
		if v.InputToPC, ok = fits("input-to-patch-constant table", n); !ok {
			return v
		}
	}
	if stage == 4 && v.SigOutputVectors[0] > 0 && pcVectors > 0 {
		n := maskDwords(v.SigOutputVectors[0]) * pcVectors * 4
		if v.PCToOutput, ok = fits("patch-constant-to-output table", n); !ok {
			return v
		}
	}
	if r.remaining() != 0 {
		c.fail(R+".trailing", "PSV0 has %d bytes left after everything its counts announce (read %d of %d)", r.remaining(), r.off, len(p.Data))
	}

	// Stage-specific cross-consistency inside the part.
	switch stage {
	case 1: // vertex: OutputPositionPresent mirrors the output elements
		hasPos := false
		for _, e := range v.OutputElems {
			if e.SemanticKind == 3 {
				hasPos = true
			}
		}
		flag := v.StageRaw[0]
		if flag > 1 {
			c.fail(R+".vs", "PSV0 VS OutputPositionPresent is %d", flag)
		} else if (flag == 1) != hasPos {
			c.fail(R+".vs", "PSV0 VS OutputPositionPresent=%d but output elements %s an SV_Position", flag, map[bool]string{true: "contain", false: "do not contain"}[hasPos])
		}
	case 0: // pixel: DepthOutput, SampleFrequency are booleans
		if v.StageRaw[0] > 1 || v.StageRaw[1] > 1 {
			c.fail(R+".ps", "PSV0 PS DepthOutput=%d SampleFrequency=%d are not booleans", v.StageRaw[0], v.StageRaw[1])
		}
	case 5:
		if v.SigInputElements != 0 || v.SigOutputElements != 0 || v.SigPCElements != 0 {
			c.fail(R+".cs", "PSV0 compute shader declares signature elements (%d in, %d out)", v.SigInputElements, v.SigOutputElements)
		}
	}
	return v
}

// checkDepTable: table is rows × maskDwords(outVectors); only the low
// outVectors*4 bits of each row may be set.
func (c *Container) checkDepTable(tab []uint32, rows, outVectors int, what string) {
	md := (outVectors + 7) >> 3
	if md == 0 || len(tab) != rows*md {
		return
	}
	bits := outVectors * 4
	for r := 0; r < rows; r++ {
		for w := 0; w < md; w++ {
			lo := w * 32
			var allowed uint32
			switch {
			case bits >= lo+32:
				allowed = 0xffffffff
			case bits <= lo:
				allowed = 0
			default:
				allowed = (uint32(1) << uint(bits-lo)) - 1
			}
			if tab[r*md+w]&^allowed != 0 {
				c.info("psv-deptable: PSV0 %s table row %d word %d = %#x sets bits beyond the %d declared output components", what, r, w, tab[r*md+w], bits)
				return
			}
		}
	}
}

func resClass(t uint32) int {
	switch {
	case t == 1:
		return 0 // sampler
	case t == 2:
		return 1 // cbv
	case t >= 3 && t <= 5:
		return 2 // srv
	case t >= 6 && t <= 9:
		return 3 // uav
	}
	return -1
}
