package dxbc

// SigElement is one DxilProgramSignatureElement (32 bytes).
type SigElement struct {
	Stream        uint32
	NameOffset    uint32
	Name          string
	SemanticIndex uint32
	SystemValue   uint32 // D3D_NAME
	CompType      uint32 // D3D_REGISTER_COMPONENT_TYPE: 0 unknown, 1 uint32, 2 sint32, 3 float32, …
	Register      uint32 // 0xFFFFFFFF = not in a register
	Mask          uint8
	RWMask        uint8 // never-writes mask (outputs) / always-reads mask (inputs)
	Pad           uint16
	MinPrecision  uint32
}

// Signature is an ISG1 / OSG1 / PSG1 part.
type Signature struct {
	Elements []SigElement
}

const sigElemSize = 32

func (c *Container) parseSignature(p *Part, rule string) *Signature {
	d := p.Data
	if len(d) < 8 {
		c.fail(rule+".header", "%s part is %d bytes, shorter than its 8-byte header", p.FourCC, len(d))
		return nil
	}
	count := uint64(le32(d, 0))
	off := uint64(le32(d, 4))
	s := &Signature{}
	if off != 8 {
		// DxilProgramSignature.ParamOffset is an offset from the start of the
		// part; every known writer puts the table right after the header.
		if off < 8 || off%4 != 0 {
			c.fail(rule+".offset", "%s element table offset %d overlaps the header or is misaligned", p.FourCC, off)
			return s
		}
		c.info("%s element table offset is %d (usual value 8)", p.FourCC, off)
	}
	tableEnd := off + count*sigElemSize
	if tableEnd > uint64(len(d)) {
		c.fail(rule+".count", "%s: %d elements at offset %d need %d bytes, part has %d", p.FourCC, count, off, tableEnd, len(d))
		return s
	}
	for i := uint64(0); i < count; i++ {
		o := int(off + i*sigElemSize)
		e := SigElement{
			Stream:        le32(d, o),
			NameOffset:    le32(d, o+4),
			SemanticIndex: le32(d, o+8),
			SystemValue:   le32(d, o+12),
			CompType:      le32(d, o+16),
			Register:      le32(d, o+20),
			Mask:          d[o+24],
			RWMask:        d[o+25],
			Pad:           uint16(d[o+26]) | uint16(d[o+27])<<8,
			MinPrecision:  le32(d, o+28),
		}
		// Semantic name: offset from the start of the part to a NUL-terminated
		// string that lies after the element table.
		no := uint64(e.NameOffset)
		switch {
		case no >= uint64(len(d)):
			c.fail(rule+".nameoffset", "%s element %d: name offset %d is outside the part (%d bytes)", p.FourCC, i, no, len(d))
		case no < tableEnd:
			c.fail(rule+".nameoffset", "%s element %d: name offset %d points into the header / element table (ends at %d)", p.FourCC, i, no, tableEnd)
		default:
			end := no
			for end < uint64(len(d)) && d[end] != 0 {
				end++
			}
			if end == uint64(len(d)) {
				c.fail(rule+".name", "%s element %d: name at offset %d is not NUL-terminated inside the part", p.FourCC, i, no)
			} else {
				e.Name = string(d[no:end])
				if e.Name == "" {
					c.fail(rule+".name", "%s element %d: empty semantic name (offset %d)", p.FourCC, i, no)
				}
				for _, ch := range []byte(e.Name) {
					if ch < 0x20 || ch > 0x7e {
						c.fail(rule+".name", "%s element %d: semantic name %q has non-printable bytes", p.FourCC, i, e.Name)
						break
					}
				}
				// A name offset that lands in the middle of another string
				// (suffix sharing) is legal for consumers; note it only.
				if no > tableEnd && d[no-1] != 0 {
					c.info("namealias: %s element %d: name offset %d points into the middle of a string", p.FourCC, i, no)
				}
			}
		}
		if e.Mask > 15 {
			c.fail(rule+".mask", "%s element %d (%s): mask %#x has bits beyond xyzw", p.FourCC, i, e.Name, e.Mask)
		}
		if e.RWMask > 15 {
			c.fail(rule+".mask", "%s element %d (%s): read/write mask %#x has bits beyond xyzw", p.FourCC, i, e.Name, e.RWMask)
		}
		if e.Stream > 3 {
			c.fail(rule+".stream", "%s element %d (%s): stream %d > 3", p.FourCC, i, e.Name, e.Stream)
		}
		if e.CompType > 10 {
			// D3D_REGISTER_COMPONENT_TYPE: unknown, uint32, sint32, float32,
			// uint16, sint16, float16, uint64, sint64, float64.
			c.fail(rule+".comptype", "%s element %d (%s): component type %d is not a D3D_REGISTER_COMPONENT_TYPE", p.FourCC, i, e.Name, e.CompType)
		}
		if e.MinPrecision > 5 {
			// D3D_MIN_PRECISION: default, float16, float2_8, reserved, sint16, uint16; any-16 = 0xf0, any-10 = 0xf1
			if e.MinPrecision != 0xf0 && e.MinPrecision != 0xf1 {
				c.fail(rule+".minprecision", "%s element %d (%s): min precision %d is not a D3D_MIN_PRECISION", p.FourCC, i, e.Name, e.MinPrecision)
			}
		}
		if e.Pad != 0 {
			c.info("%s element %d: pad field %#x not zero", p.FourCC, i, e.Pad)
		}
		s.Elements = append(s.Elements, e)
	}
	// Two elements of one stream may share a register only on disjoint
	// components.
	for i := range s.Elements {
		a := &s.Elements[i]
		if a.Register == 0xFFFFFFFF {
			continue
		}
		for j := i + 1; j < len(s.Elements); j++ {
			b := &s.Elements[j]
			if b.Register == a.Register && b.Stream == a.Stream && a.Mask&b.Mask != 0 {
				c.fail(rule+".overlap", "%s elements %d (%s%d) and %d (%s%d) overlap in register %d: masks %#x and %#x",
					p.FourCC, i, a.Name, a.SemanticIndex, j, b.Name, b.SemanticIndex, a.Register, a.Mask, b.Mask)
			}
		}
	}
	// (semantic name, index, stream) identifies an element.
	type key struct {
		n string
		i uint32
		s uint32
	}
	seen := map[key]int{}
	for i, e := range s.Elements {
		k := key{upper(e.Name), e.SemanticIndex, e.Stream}
		if e.Name == "" {
			continue
		}
		if j, ok := seen[k]; ok {
			c.fail(rule+".duplicate", "%s elements %d and %d have the same semantic %s%d", p.FourCC, j, i, e.Name, e.SemanticIndex)
		}
		seen[k] = i
	}
	return s
}

func upper(s string) string {
	b := []byte(s)
	for i, ch := range b {
		if ch >= 'a' && ch <= 'z' {
			b[i] = ch - 32
		}
	}
	return string(b)
}
