package dxbc

import (
	"fmt"
	"strings"
)

// Semantic pass over the LLVM 3.7 IR blocks of a parsed bitstream.  The rules
// are those LLVM 3.7's BitcodeReader enforces (it answers "Invalid record",
// "Malformed block", … otherwise), plus operand-index soundness: every type,
// value, metadata and basic-block index must refer to something defined.

// Function summarises one FUNCTION record (and its body when it has one).
type Function struct {
	Name      string
	ValueID   int
	TypeID    int // function type (canonical)
	IsProto   bool
	HasBody   bool
	NumBlocks int
	NumInsts  int
	NumArgs   int
	NumConsts int
	NumCalls  int
	NumPhis   int
	FwdRefs   int // operands that referred to a not-yet-defined value
}

type valKind uint8

const (
	vkGlobal valKind = iota
	vkFunction
	vkAlias
	vkConst
	vkArg
	vkInst
)

type value struct {
	ty       int // canonical type id, -1 unknown
	kind     valKind
	constInt bool
	ival     uint64
	fn       int // index into Module.Functions for vkFunction
	undef    bool
}

type mdKind uint8

const (
	mdString mdKind = iota
	mdValue
	mdNode
	mdOther
)

type mdEntry struct {
	kind  mdKind
	str   string
	ops   []int // node operands: md id, -1 = null
	valTy int
	valID int
}

// Module is the semantic summary of one bitcode stream.
type Module struct {
	Version    uint64
	HasVersion bool
	Triple     string
	DataLayout string
	NumTypes   int
	NumGlobals int
	Functions  []*Function
	// counts
	NumModuleValues int
	NumModuleConsts int
	NumMetadata     int
	NumNamedMD      int
	NumAttrGroups   int
	NumAttrLists    int
	NamedMD         map[string][]int
	Stream          *Bitstream

	tt     typeTable
	vals   []value
	mds    []mdEntry
	groups map[uint64]bool
	c      *Container
	rule   string
	// deferred module-level checks
	pendingVals []pendingRef
	pendingMDs  []pendingRef
}

type pendingRef struct {
	id   int64
	ty   int // expected canonical type or -1
	what string
}

func (m *Module) fail(sub, format string, a ...any) {
	m.c.fail(m.rule+"."+sub, format, a...)
}

// Entry returns the function with a body that has the most instructions (the
// entry function in DXIL produced for one entry point; helper functions are
// usually smaller) — used for statistics only.
func (m *Module) Bodies() []*Function {
	var out []*Function
	for _, f := range m.Functions {
		if f.HasBody {
			out = append(out, f)
		}
	}
	return out
}

func (c *Container) parseBitcode(b []byte, rule string) *Module {
	bs, berr := parseBitstream(b)
	if berr != nil {
		c.fail(rule+".stream."+berr.rule, "%s", berr.msg)
		return nil
	}
	m := &Module{Stream: bs, c: c, rule: rule, NamedMD: map[string][]int{}, groups: map[uint64]bool{}}
	var mod *Block
	for _, t := range bs.Top {
		switch t.ID {
		case blkModule:
			if mod != nil {
				m.fail("module", "more than one MODULE block")
				return m
			}
			mod = t
		case 13:
			// IDENTIFICATION_BLOCK of later LLVM versions: tolerated
			c.info("%s: top-level block 13 (identification) present", rule)
		default:
			m.fail("module", "unexpected top-level block id %d", t.ID)
		}
	}
	if mod == nil {
		m.fail("module", "no MODULE block")
		return m
	}
	m.module(mod)
	return m
}

func recString(ops []uint64) string {
	b := make([]byte, len(ops))
	for i, o := range ops {
		b[i] = byte(o)
	}
	return string(b)
}

func (m *Module) module(mod *Block) {
	// Pass 1: everything at module level except function bodies, in stream order.
	var bodies []*Block
	seenTypes := false
	for _, it := range mod.Items {
		if it.Block != nil {
			b := it.Block
			switch b.ID {
			case blkBlockInfo:
			case blkTypeNew:
				if seenTypes {
					m.fail("types", "more than one TYPE block")
					continue
				}
				seenTypes = true
				m.typeBlock(b)
			case blkParamAttrGroup:
				for _, i2 := range b.Items {
					if i2.Rec != nil && i2.Rec.Code == 3 {
						if len(i2.Rec.Ops) < 3 {
							m.fail("attrs", "PARAMATTR_GRP entry with %d operands (< 3)", len(i2.Rec.Ops))
							continue
						}
						m.groups[i2.Rec.Ops[0]] = true
						m.NumAttrGroups++
					}
				}
			case blkParamAttr:
				for _, i2 := range b.Items {
					if i2.Rec == nil {
						continue
					}
					switch i2.Rec.Code {
					case 1:
						if len(i2.Rec.Ops)%2 != 0 {
							m.fail("attrs", "PARAMATTR_CODE_ENTRY_OLD with odd operand count")
						}
						m.NumAttrLists++
					case 2:
						for _, g := range i2.Rec.Ops {
							if !m.groups[g] {
								m.c.info("%s: attribute list refers to undefined group %d", m.rule, g)
							}
						}
						m.NumAttrLists++
					}
				}
			case blkConstants:
				if !seenTypes {
					m.fail("order", "CONSTANTS block before the TYPE block")
					return
				}
				n := m.constants(b, nil)
				m.NumModuleConsts += n
			case blkMetadata:
				if !seenTypes {
					m.fail("order", "METADATA block before the TYPE block")
					return
				}
				m.metadata(b, nil)
			case blkValueSymtab:
				// checked after all module-level values are known
			case blkFunction:
				bodies = append(bodies, b)
			case blkUseList, blkMetadataAttach:
			default:
				m.c.info("%s: unknown block id %d inside MODULE", m.rule, b.ID)
			}
			continue
		}
		r := it.Rec
		switch r.Code {
		case 1: // VERSION
			if len(r.Ops) < 1 {
				m.fail("version", "MODULE_CODE_VERSION without operand")
				continue
			}
			m.Version, m.HasVersion = r.Ops[0], true
			if r.Ops[0] > 1 {
				m.fail("version", "module version %d (LLVM 3.7 knows 0 and 1)", r.Ops[0])
			}
		case 2:
			m.Triple = recString(r.Ops)
		case 3:
			m.DataLayout = recString(r.Ops)
		case 7: // GLOBALVAR
			if len(bodies) > 0 {
				m.fail("order", "GLOBALVAR record after a function body")
			}
			m.globalVar(r)
		case 8: // FUNCTION
			if len(bodies) > 0 {
				m.fail("order", "FUNCTION record after a function body")
			}
			m.functionRec(r)
		case 9, 14: // ALIAS
			m.vals = append(m.vals, value{ty: -1, kind: vkAlias})
		}
	}
	if !seenTypes {
		m.tt.finish()
	}
	m.NumModuleValues = len(m.vals)
	m.NumMetadata = len(m.mds)
	for _, p := range m.pendingVals {
		m.resolveValRef(p, len(m.vals))
	}
	m.pendingVals = nil
	for _, p := range m.pendingMDs {
		if p.id < 0 || p.id >= int64(len(m.mds)) {
			m.fail("metadata.ref", "%s refers to metadata !%d, but the module defines only %d metadata entries", p.what, p.id, len(m.mds))
		} else if strings.HasPrefix(p.what, "named metadata") && (m.mds[p.id].kind == mdString || m.mds[p.id].kind == mdValue) {
			m.fail("metadata.named", "%s has operand !%d which is not a node", p.what, p.id)
		}
	}
	m.pendingMDs = nil
	for _, it := range mod.Items {
		if it.Block != nil && it.Block.ID == blkValueSymtab {
			m.symtab(it.Block, len(m.vals), -1, true)
		}
	}

	// Pass 2: function bodies, matched in order with the non-prototype
	// FUNCTION records.
	var defined []*Function
	for _, f := range m.Functions {
		if !f.IsProto {
			defined = append(defined, f)
		}
	}
	if len(bodies) != len(defined) {
		m.fail("function.count", "%d function bodies for %d FUNCTION records that are not prototypes", len(bodies), len(defined))
	}
	for i, b := range bodies {
		if i >= len(defined) {
			break
		}
		m.functionBody(b, defined[i])
		// function-local values and metadata are discarded
		m.vals = m.vals[:m.NumModuleValues]
		m.mds = m.mds[:m.NumMetadata]
	}
}

func (m *Module) resolveValRef(p pendingRef, limit int) {
	if p.id < 0 || p.id >= int64(limit) {
		m.fail("value.ref", "%s refers to value %d, but only %d values are defined", p.what, p.id, limit)
		return
	}
	if p.ty >= 0 {
		if got := m.vals[p.id].ty; got >= 0 && got != p.ty {
			m.fail("value.type", "%s: value %d has type %s, expected %s", p.what, p.id, m.tt.str(got), m.tt.str(p.ty))
		}
	}
}

// ---------------------------------------------------------------- types

func (m *Module) typeBlock(b *Block) {
	tt := &m.tt
	numEntry := -1
	fwd := map[int]bool{}
	pendingName := ""
	var defs []Type
	ref := func(recNo int, id uint64, what string) int {
		if numEntry >= 0 && id >= uint64(numEntry) {
			m.fail("types.ref", "type %d: %s refers to type %d, table has %d entries", recNo, what, id, numEntry)
			return -1
		}
		if id >= uint64(len(defs)) {
			fwd[int(id)] = true
		}
		return int(id)
	}
	for _, it := range b.Items {
		if it.Rec == nil {
			continue
		}
		r := it.Rec
		ops := r.Ops
		need := func(n int) bool {
			if len(ops) < n {
				m.fail("types.record", "type record code %d (type %d) has %d operands, needs %d", r.Code, len(defs), len(ops), n)
				defs = append(defs, Type{Kind: tInvalid})
				return false
			}
			return true
		}
		cur := len(defs)
		var t Type
		switch r.Code {
		case 1: // NUMENTRY
			if !need0(ops, 1) {
				m.fail("types.record", "TYPE_CODE_NUMENTRY without operand")
				continue
			}
			numEntry = int(ops[0])
			continue
		case 2:
			t = Type{Kind: tVoid}
		case 3:
			t = Type{Kind: tFloat}
		case 4:
			t = Type{Kind: tDouble}
		case 5:
			t = Type{Kind: tLabel}
		case 6: // OPAQUE (named)
			t = Type{Kind: tStruct, Named: true, Opaque: true, Name: pendingName}
			pendingName = ""
		case 7:
			if !need(1) {
				continue
			}
			if ops[0] < 1 || ops[0] > (1<<23)-1 {
				m.fail("types.record", "type %d: integer width %d out of range", cur, ops[0])
			}
			t = Type{Kind: tInt, Width: ops[0]}
		case 8: // POINTER [pointee, addrspace]
			if !need(1) {
				continue
			}
			t = Type{Kind: tPtr, Elem: ref(cur, ops[0], "pointer")}
			if len(ops) >= 2 {
				t.AddrSpace = ops[1]
			}
		case 9: // FUNCTION_OLD [vararg, attrid, retty, paramty...]
			if !need(3) {
				continue
			}
			t = Type{Kind: tFunc, VarArg: ops[0] != 0, Elem: ref(cur, ops[2], "function return")}
			for _, o := range ops[3:] {
				t.Elems = append(t.Elems, ref(cur, o, "function parameter"))
			}
		case 10:
			t = Type{Kind: tHalf}
		case 11, 12: // ARRAY / VECTOR [numelts, eltty]
			if !need(2) {
				continue
			}
			k := tArray
			if r.Code == 12 {
				k = tVector
				if ops[0] == 0 {
					m.fail("types.record", "type %d: vector of zero elements", cur)
				}
			}
			t = Type{Kind: k, N: ops[0], Elem: ref(cur, ops[1], "element")}
		case 13:
			t = Type{Kind: tOtherFP, Width: 80}
		case 14:
			t = Type{Kind: tOtherFP, Width: 128}
		case 15:
			t = Type{Kind: tOtherFP, Width: 129}
		case 16:
			t = Type{Kind: tMetadata}
		case 17:
			t = Type{Kind: tMMX}
		case 18, 20: // STRUCT_ANON / STRUCT_NAMED [ispacked, eltty...]
			if !need(1) {
				continue
			}
			t = Type{Kind: tStruct, Packed: ops[0] != 0}
			for _, o := range ops[1:] {
				t.Elems = append(t.Elems, ref(cur, o, "struct member"))
			}
			if r.Code == 20 {
				t.Named = true
				t.Name = pendingName
				pendingName = ""
			}
		case 19: // STRUCT_NAME
			pendingName = recString(ops)
			continue
		case 21: // FUNCTION [vararg, retty, paramty...]
			if !need(2) {
				continue
			}
			t = Type{Kind: tFunc, VarArg: ops[0] != 0, Elem: ref(cur, ops[1], "function return")}
			for _, o := range ops[2:] {
				t.Elems = append(t.Elems, ref(cur, o, "function parameter"))
			}
		default:
			m.fail("types.record", "type %d: unknown type code %d", cur, r.Code)
			t = Type{Kind: tInvalid}
		}
		if numEntry < 0 {
			m.fail("types.numentry", "type record before TYPE_CODE_NUMENTRY")
			numEntry = 1 << 30
		}
		if cur >= numEntry {
			m.fail("types.numentry", "more type records than the %d announced by NUMENTRY", numEntry)
			break
		}
		if fwd[cur] && !(t.Kind == tStruct && t.Named) {
			m.fail("types.forward", "type %d was referenced before its definition but is not a named struct (code %d)", cur, r.Code)
		}
		defs = append(defs, t)
	}
	if numEntry >= 0 && numEntry != 1<<30 && len(defs) != numEntry {
		m.fail("types.numentry", "NUMENTRY announces %d types, block defines %d", numEntry, len(defs))
	}
	// unresolved forward references
	for id := range fwd {
		for len(defs) <= id {
			defs = append(defs, Type{Kind: tFwd})
		}
	}
	// element kind rules LLVM asserts on
	for i, t := range defs {
		chk := func(e int, what string, bad func(k tkind) bool) {
			if e >= 0 && e < len(defs) && bad(defs[e].Kind) {
				m.fail("types.element", "type %d: %s type %d is not valid there", i, what, e)
			}
		}
		switch t.Kind {
		case tPtr:
			chk(t.Elem, "pointee", func(k tkind) bool { return k == tVoid || k == tLabel || k == tMetadata })
		case tArray:
			chk(t.Elem, "array element", func(k tkind) bool { return k == tVoid || k == tLabel || k == tMetadata || k == tFunc })
		case tVector:
			chk(t.Elem, "vector element", func(k tkind) bool {
				return !(k == tInt || k == tHalf || k == tFloat || k == tDouble || k == tOtherFP || k == tPtr)
			})
		case tStruct:
			for _, e := range t.Elems {
				chk(e, "struct member", func(k tkind) bool { return k == tVoid || k == tLabel || k == tMetadata || k == tFunc })
			}
		case tFunc:
			chk(t.Elem, "return", func(k tkind) bool { return k == tLabel || k == tMetadata || k == tFunc })
			for _, e := range t.Elems {
				chk(e, "parameter", func(k tkind) bool { return k == tVoid || k == tFunc })
			}
		}
	}
	tt.types = defs
	m.NumTypes = len(defs)
	tt.finish()
}

func need0(ops []uint64, n int) bool { return len(ops) >= n }

// typeRef validates a type id used outside the type block and returns the
// canonical id (-1 when invalid; an issue has been recorded then).
func (m *Module) typeRef(id uint64, what string) int {
	if id >= uint64(m.tt.nTable) || !m.tt.valid(int(id)) {
		m.fail("type.ref", "%s refers to type %d, but the type table has %d entries", what, id, m.tt.nTable)
		return -1
	}
	return m.tt.c(int(id))
}

// ---------------------------------------------------------------- globals

func (m *Module) globalVar(r *Record) {
	ops := r.Ops
	v := value{ty: -1, kind: vkGlobal}
	defer func() { m.vals = append(m.vals, v); m.NumGlobals++ }()
	if len(ops) < 6 {
		m.fail("globalvar", "GLOBALVAR record with %d operands (< 6)", len(ops))
		return
	}
	ty := m.typeRef(ops[0], fmt.Sprintf("global variable %d", len(m.vals)))
	if ty < 0 {
		return
	}
	explicit := ops[1]&2 != 0
	if explicit {
		v.ty = m.tt.ptrTo(ty, ops[1]>>2)
	} else {
		if m.tt.kind(ty) != tPtr {
			m.fail("globalvar", "global variable %d: type %s is not a pointer and the explicit-type flag is clear", len(m.vals), m.tt.str(ty))
			return
		}
		v.ty = ty
	}
	if init := ops[2]; init != 0 {
		want := ty
		if !explicit {
			want = m.tt.c(m.tt.get(ty).Elem)
		}
		m.pendingVals = append(m.pendingVals, pendingRef{id: int64(init - 1), ty: want, what: fmt.Sprintf("initializer of global variable %d", len(m.vals))})
	}
}

func (m *Module) functionRec(r *Record) {
	ops := r.Ops
	f := &Function{ValueID: len(m.vals), TypeID: -1, IsProto: true}
	v := value{ty: -1, kind: vkFunction, fn: len(m.Functions)}
	defer func() { m.vals = append(m.vals, v); m.Functions = append(m.Functions, f) }()
	if len(ops) < 8 {
		m.fail("function.record", "FUNCTION record with %d operands (< 8)", len(ops))
		return
	}
	ty := m.typeRef(ops[0], fmt.Sprintf("function %d", len(m.Functions)))
	f.IsProto = ops[2] != 0
	if ty < 0 {
		return
	}
	if m.tt.kind(ty) == tPtr {
		ty = m.tt.c(m.tt.get(ty).Elem)
	}
	if m.tt.kind(ty) != tFunc {
		m.fail("function.record", "function %d: type %s is not a function type", len(m.Functions), m.tt.str(ty))
		return
	}
	f.TypeID = ty
	f.NumArgs = len(m.tt.get(ty).Elems)
	v.ty = m.tt.ptrTo(ty, 0)
	if pa := ops[4]; pa != 0 && int(pa) > m.NumAttrLists {
		m.fail("function.attrs", "function %d: attribute list %d, only %d defined", len(m.Functions), pa, m.NumAttrLists)
	}
}

// ---------------------------------------------------------------- constants

func decodeSigned(v uint64) uint64 {
	if v&1 == 0 {
		return v >> 1
	}
	if v != 1 {
		return -(v >> 1)
	}
	return 1 << 63
}

// constants parses a CONSTANTS block, appending to m.vals.  fs is nil at
// module level.  Returns the number of constants defined.
func (m *Module) constants(b *Block, fs *fnState) int {
	tt := &m.tt
	cur := tt.intTy(32) // LLVM starts with i32
	start := len(m.vals)
	type fref struct {
		id   uint64
		ty   int
		what string
	}
	var refs []fref
	for _, it := range b.Items {
		if it.Rec == nil {
			continue
		}
		r := it.Rec
		ops := r.Ops
		if r.Code == 1 { // SETTYPE
			if len(ops) < 1 {
				m.fail("constants.record", "CST_CODE_SETTYPE without operand")
				continue
			}
			cur = m.typeRef(ops[0], "CST_CODE_SETTYPE")
			if cur >= 0 && tt.kind(cur) == tVoid {
				m.fail("constants.settype", "CST_CODE_SETTYPE to void")
			}
			continue
		}
		id := len(m.vals)
		v := value{ty: cur, kind: vkConst}
		what := func(s string) string { return fmt.Sprintf("constant %d (%s)", id, s) }
		short := func(n int, name string) bool {
			if len(ops) < n {
				m.fail("constants.record", "%s has %d operands, needs %d", what(name), len(ops), n)
				return true
			}
			return false
		}
		k := tt.kind(cur)
		switch r.Code {
		case 2: // NULL
			if k == tInt {
				v.constInt, v.ival = true, 0
			}
		case 3: // UNDEF
			v.undef = true
		case 4: // INTEGER
			if short(1, "integer") {
				break
			}
			if cur >= 0 && k != tInt {
				m.fail("constants.type", "%s under non-integer type %s", what("integer"), tt.str(cur))
				break
			}
			v.constInt = true
			v.ival = decodeSigned(ops[0])
			if cur >= 0 {
				w := tt.get(cur).Width
				if w < 64 {
					// the value must be representable in w bits (signed or unsigned reading)
					s := int64(v.ival)
					if s >= 0 && uint64(s)>>w != 0 || s < 0 && s < -(int64(1)<<(w-1)) {
						m.c.info("%s: %s value %d does not fit in i%d", m.rule, what("integer"), s, w)
					}
					v.ival &= (uint64(1) << w) - 1
				}
			}
		case 5: // WIDE_INTEGER
			if short(1, "wide integer") {
				break
			}
			if cur >= 0 && k != tInt {
				m.fail("constants.type", "%s under non-integer type %s", what("wide integer"), tt.str(cur))
			}
		case 6: // FLOAT
			if short(1, "float") {
				break
			}
			if cur >= 0 && !tt.isFP(cur) {
				m.fail("constants.type", "%s under non-floating-point type %s", what("float"), tt.str(cur))
			} else if cur >= 0 {
				switch tt.kind(cur) {
				case tHalf:
					if ops[0]>>16 != 0 {
						m.fail("constants.float", "%s: half bit pattern %#x wider than 16 bits", what("float"), ops[0])
					}
				case tFloat:
					if ops[0]>>32 != 0 {
						m.fail("constants.float", "%s: float bit pattern %#x wider than 32 bits", what("float"), ops[0])
					}
				}
			}
		case 7: // AGGREGATE
			if cur < 0 {
				break
			}
			t := tt.get(cur)
			switch t.Kind {
			case tStruct:
				if len(ops) != len(t.Elems) {
					m.fail("constants.aggregate", "%s of type %s has %d elements, type has %d", what("aggregate"), tt.str(cur), len(ops), len(t.Elems))
					break
				}
				for i, o := range ops {
					refs = append(refs, fref{o, tt.c(t.Elems[i]), what("aggregate")})
				}
			case tArray, tVector:
				if uint64(len(ops)) != t.N {
					m.fail("constants.aggregate", "%s of type %s has %d elements", what("aggregate"), tt.str(cur), len(ops))
					break
				}
				for _, o := range ops {
					refs = append(refs, fref{o, tt.c(t.Elem), what("aggregate")})
				}
			default:
				m.fail("constants.type", "%s under non-aggregate type %s", what("aggregate"), tt.str(cur))
			}
		case 8, 9: // STRING / CSTRING
		case 22: // DATA
			if cur < 0 {
				break
			}
			t := tt.get(cur)
			if t.Kind != tArray && t.Kind != tVector {
				m.fail("constants.type", "%s under type %s", what("data"), tt.str(cur))
			} else if uint64(len(ops)) != t.N {
				m.c.info("%s: %s has %d elements under type %s", m.rule, what("data"), len(ops), tt.str(cur))
			}
		case 10: // CE_BINOP [opcode, lhs, rhs]
			if short(3, "binop expr") {
				break
			}
			refs = append(refs, fref{ops[1], cur, what("binop expr")}, fref{ops[2], cur, what("binop expr")})
		case 11: // CE_CAST [opcode, opty, opval]
			if short(3, "cast expr") {
				break
			}
			ot := m.typeRef(ops[1], what("cast expr"))
			refs = append(refs, fref{ops[2], ot, what("cast expr")})
			if ops[0] > 12 {
				m.fail("constants.record", "%s: cast opcode %d", what("cast expr"), ops[0])
			}
		case 12, 20: // CE_GEP / CE_INBOUNDS_GEP [(pointee type)? n x (ty, val)]
			o := ops
			if len(o)%2 == 1 {
				m.typeRef(o[0], what("gep expr"))
				o = o[1:]
			}
			if len(o) < 2 {
				m.fail("constants.record", "%s without base pointer", what("gep expr"))
				break
			}
			for i := 0; i+1 < len(o); i += 2 {
				et := m.typeRef(o[i], what("gep expr"))
				refs = append(refs, fref{o[i+1], et, what("gep expr")})
			}
		case 13: // CE_SELECT [cond, t, f]
			if short(3, "select expr") {
				break
			}
			refs = append(refs, fref{ops[0], -1, what("select expr")}, fref{ops[1], cur, what("select expr")}, fref{ops[2], cur, what("select expr")})
		case 14: // CE_EXTRACTELT [opty, opval, (idxty)? idx]
			if short(3, "extractelement expr") {
				break
			}
			ot := m.typeRef(ops[0], what("extractelement expr"))
			refs = append(refs, fref{ops[1], ot, what("extractelement expr")})
			if len(ops) == 4 {
				it := m.typeRef(ops[2], what("extractelement expr"))
				refs = append(refs, fref{ops[3], it, what("extractelement expr")})
			} else {
				refs = append(refs, fref{ops[2], -1, what("extractelement expr")})
			}
		case 15: // CE_INSERTELT [opval, opval, (idxty)? idx]
			if short(3, "insertelement expr") {
				break
			}
			refs = append(refs, fref{ops[0], cur, what("insertelement expr")}, fref{ops[1], -1, what("insertelement expr")})
			if len(ops) == 4 {
				it := m.typeRef(ops[2], what("insertelement expr"))
				refs = append(refs, fref{ops[3], it, what("insertelement expr")})
			} else {
				refs = append(refs, fref{ops[2], -1, what("insertelement expr")})
			}
		case 16: // CE_SHUFFLEVEC [opval, opval, opval]
			if short(3, "shufflevector expr") {
				break
			}
			refs = append(refs, fref{ops[0], cur, what("shufflevector expr")}, fref{ops[1], cur, what("shufflevector expr")}, fref{ops[2], -1, what("shufflevector expr")})
		case 17: // CE_CMP [opty, opval, opval, pred]
			if short(4, "compare expr") {
				break
			}
			ot := m.typeRef(ops[0], what("compare expr"))
			refs = append(refs, fref{ops[1], ot, what("compare expr")}, fref{ops[2], ot, what("compare expr")})
		case 19: // CE_SHUFVEC_EX [opty, opval, opval, opval]
			if short(4, "shufflevector expr") {
				break
			}
			ot := m.typeRef(ops[0], what("shufflevector expr"))
			refs = append(refs, fref{ops[1], ot, what("shufflevector expr")}, fref{ops[2], ot, what("shufflevector expr")}, fref{ops[3], -1, what("shufflevector expr")})
		case 18, 23: // INLINEASM
		case 21: // BLOCKADDRESS [fnty, fnval, bb#]
			if short(3, "blockaddress") {
				break
			}
			m.typeRef(ops[0], what("blockaddress"))
			refs = append(refs, fref{ops[1], -1, what("blockaddress")})
		default:
			// LLVM: unknown constant codes produce undef of the current type
			m.c.info("%s: unknown constant code %d", m.rule, r.Code)
			v.undef = true
		}
		m.vals = append(m.vals, v)
	}
	// LLVM: after the block, every referenced id must have been defined
	// ("Invalid constant reference").
	end := len(m.vals)
	for _, rf := range refs {
		if rf.id >= uint64(end) {
			m.fail("constants.ref", "%s refers to value %d, but only %d values exist at the end of its CONSTANTS block", rf.what, rf.id, end)
			continue
		}
		if rf.ty >= 0 {
			got := m.vals[rf.id].ty
			if got >= 0 && got != rf.ty {
				m.fail("constants.reftype", "%s: operand value %d has type %s, expected %s", rf.what, rf.id, tt.str(got), tt.str(rf.ty))
			}
		}
		if fs != nil {
			// a function-local constant expression can only use constants
			if k := m.vals[rf.id].kind; k == vkArg || k == vkInst {
				m.fail("constants.ref", "%s uses non-constant value %d", rf.what, rf.id)
			}
		}
	}
	return end - start
}

// ---------------------------------------------------------------- metadata

func (m *Module) metadata(b *Block, fs *fnState) {
	items := b.Items
	scope := "module"
	if fs != nil {
		scope = "function " + fs.f.Name
	}
	for i := 0; i < len(items); i++ {
		if items[i].Rec == nil {
			continue
		}
		r := items[i].Rec
		ops := r.Ops
		id := len(m.mds)
		defer1 := func(mdid int64, what string) {
			p := pendingRef{id: mdid, what: what}
			if fs != nil {
				fs.pendingMDs = append(fs.pendingMDs, p)
			} else {
				m.pendingMDs = append(m.pendingMDs, p)
			}
		}
		switch r.Code {
		case 1: // STRING
			m.mds = append(m.mds, mdEntry{kind: mdString, str: recString(ops)})
		case 2: // VALUE [ty, value]
			e := mdEntry{kind: mdValue, valTy: -1, valID: -1}
			if len(ops) != 2 {
				m.fail("metadata.record", "%s: METADATA_VALUE !%d with %d operands, want 2", scope, id, len(ops))
			} else {
				ty := m.typeRef(ops[0], fmt.Sprintf("metadata value !%d", id))
				if ty >= 0 && (m.tt.kind(ty) == tVoid || m.tt.kind(ty) == tMetadata) {
					m.fail("metadata.value", "%s: METADATA_VALUE !%d of type %s", scope, id, m.tt.str(ty))
				}
				e.valTy, e.valID = ty, int(ops[1])
				p := pendingRef{id: int64(ops[1]), ty: ty, what: fmt.Sprintf("metadata value !%d", id)}
				if fs != nil {
					fs.pendingVals = append(fs.pendingVals, p)
				} else {
					m.pendingVals = append(m.pendingVals, p)
				}
			}
			m.mds = append(m.mds, e)
		case 3, 5: // NODE / DISTINCT_NODE [n x (md+1)]
			e := mdEntry{kind: mdNode}
			for _, o := range ops {
				if o == 0 {
					e.ops = append(e.ops, -1)
					continue
				}
				e.ops = append(e.ops, int(o-1))
				defer1(int64(o-1), fmt.Sprintf("metadata node !%d", id))
			}
			m.mds = append(m.mds, e)
		case 4: // NAME, must be followed by NAMED_NODE
			name := recString(ops)
			j := i + 1
			if j >= len(items) || items[j].Rec == nil || items[j].Rec.Code != 10 {
				m.fail("metadata.name", "%s: METADATA_NAME %q is not followed by METADATA_NAMED_NODE", scope, name)
				continue
			}
			i = j
			var list []int
			for _, o := range items[j].Rec.Ops {
				list = append(list, int(o))
				defer1(int64(o), fmt.Sprintf("named metadata !%s", name))
			}
			if _, dup := m.NamedMD[name]; dup {
				m.c.info("%s: named metadata %q defined twice", m.rule, name)
			}
			m.NamedMD[name] = list
			m.NumNamedMD++
		case 10:
			m.c.info("%s: METADATA_NAMED_NODE without a preceding METADATA_NAME", m.rule)
		case 6: // KIND [n x [id, name]]
			if len(ops) < 1 {
				m.fail("metadata.record", "%s: METADATA_KIND without operands", scope)
			}
		case 7: // LOCATION [distinct, line, col, scope, ia]
			if len(ops) != 5 {
				m.fail("metadata.record", "%s: METADATA_LOCATION with %d operands, want 5", scope, len(ops))
			} else {
				if ops[3] == 0 {
					m.fail("metadata.record", "%s: METADATA_LOCATION without scope", scope)
				} else {
					defer1(int64(ops[3]-1), fmt.Sprintf("metadata location !%d", id))
				}
				if ops[4] != 0 {
					defer1(int64(ops[4]-1), fmt.Sprintf("metadata location !%d", id))
				}
			}
			m.mds = append(m.mds, mdEntry{kind: mdOther})
		case 8, 9: // OLD_NODE / OLD_FN_NODE [n x (type, value)]
			if len(ops)%2 != 0 {
				m.fail("metadata.record", "%s: old-style metadata node with odd operand count", scope)
			}
			m.mds = append(m.mds, mdEntry{kind: mdNode})
		case 11:
			// ATTACHMENT belongs to METADATA_ATTACHMENT blocks
		default:
			if r.Code >= 12 && r.Code <= 31 {
				// specialised debug-info nodes: each takes an id
				m.mds = append(m.mds, mdEntry{kind: mdOther})
			} else {
				m.c.info("%s: unknown metadata record code %d", m.rule, r.Code)
			}
		}
	}
}

// mdIsNode reports whether md id refers to a node (true when unknown).
func (m *Module) mdConstInt(id int) (uint64, bool) {
	if id < 0 || id >= len(m.mds) || m.mds[id].kind != mdValue {
		return 0, false
	}
	v := m.mds[id].valID
	if v < 0 || v >= len(m.vals) || !m.vals[v].constInt {
		return 0, false
	}
	return m.vals[v].ival, true
}

// ---------------------------------------------------------------- symtab

func (m *Module) symtab(b *Block, nvals int, nbbs int, moduleLevel bool) {
	for _, it := range b.Items {
		if it.Rec == nil {
			continue
		}
		r := it.Rec
		switch r.Code {
		case 1: // VST_ENTRY [valueid, namechar...]
			if len(r.Ops) < 1 {
				m.fail("symtab.record", "VST_ENTRY without value id")
				continue
			}
			if r.Ops[0] >= uint64(nvals) {
				m.fail("symtab.ref", "VST_ENTRY %q names value %d, but only %d values are defined", recString(r.Ops[1:]), r.Ops[0], nvals)
				continue
			}
			if moduleLevel {
				v := m.vals[r.Ops[0]]
				if v.kind == vkFunction {
					m.Functions[v.fn].Name = recString(r.Ops[1:])
				}
			}
		case 2: // VST_BBENTRY [bbid, namechar...]
			if len(r.Ops) < 1 {
				m.fail("symtab.record", "VST_BBENTRY without block id")
				continue
			}
			if nbbs < 0 {
				m.fail("symtab.ref", "VST_BBENTRY in the module-level symbol table")
			} else if r.Ops[0] >= uint64(nbbs) {
				m.fail("symtab.ref", "VST_BBENTRY %q names basic block %d, function has %d", recString(r.Ops[1:]), r.Ops[0], nbbs)
			}
		}
	}
}

// ---------------------------------------------------------------- DXIL metadata vs. header

func (c *Container) checkModuleAgainstHeader(m *Module, h *ProgramHeader) {
	// !dx.shaderModel = !{!N};  !N = !{!"vs", i32 6, i32 0}
	list, ok := m.NamedMD["dx.shaderModel"]
	if !ok {
		c.info("bc: no !dx.shaderModel")
		return
	}
	if len(list) != 1 || list[0] < 0 || list[0] >= len(m.mds) || m.mds[list[0]].kind != mdNode || len(m.mds[list[0]].ops) != 3 {
		c.info("bc: !dx.shaderModel has an unexpected shape")
		return
	}
	n := m.mds[list[0]]
	if n.ops[0] < 0 || n.ops[0] >= len(m.mds) || m.mds[n.ops[0]].kind != mdString {
		c.info("bc: !dx.shaderModel has an unexpected shape")
		return
	}
	kind := m.mds[n.ops[0]].str
	maj, ok1 := m.mdConstInt(n.ops[1])
	min, ok2 := m.mdConstInt(n.ops[2])
	if !ok1 || !ok2 {
		c.info("bc: !dx.shaderModel has an unexpected shape")
		return
	}
	if kind != KindName(h.Kind) || uint32(maj) != h.Major || uint32(min) != h.Minor {
		c.fail("dxil.shadermodel.metadata", "!dx.shaderModel says %s_%d_%d but the program header says %s_%d_%d", kind, maj, min, KindName(h.Kind), h.Major, h.Minor)
	}
	// !dx.version = !{!N}; !N = !{i32 1, i32 minor}
	if list, ok := m.NamedMD["dx.version"]; ok && len(list) == 1 && list[0] >= 0 && list[0] < len(m.mds) && m.mds[list[0]].kind == mdNode && len(m.mds[list[0]].ops) == 2 {
		n := m.mds[list[0]]
		maj, ok1 := m.mdConstInt(n.ops[0])
		min, ok2 := m.mdConstInt(n.ops[1])
		if ok1 && ok2 && (uint32(maj) != h.DxilMajor || uint32(min) != h.DxilMinor) {
			c.fail("dxil.version.metadata", "!dx.version says %d.%d but the program header says DXIL %d.%d", maj, min, h.DxilMajor, h.DxilMinor)
		}
	}
	// !dx.resources = !{srvs, uavs, cbuffers, samplers}: the PSV0 resource
	// list has one record per resource of the module.
	if c.PSV != nil {
		n := -1
		if list, ok := m.NamedMD["dx.resources"]; ok {
			if len(list) == 1 && list[0] >= 0 && list[0] < len(m.mds) && m.mds[list[0]].kind == mdNode && len(m.mds[list[0]].ops) == 4 {
				n = 0
				for _, cl := range m.mds[list[0]].ops {
					if cl < 0 {
						continue
					}
					if cl >= len(m.mds) || m.mds[cl].kind != mdNode {
						n = -1
						break
					}
					n += len(m.mds[cl].ops)
				}
			}
		} else {
			n = 0
		}
		if n >= 0 && n != len(c.PSV.Resources) {
			c.fail("psv.resources.metadata", "PSV0 lists %d resources, !dx.resources lists %d", len(c.PSV.Resources), n)
		}
	}
	// entry name: PSV0 (version 3) carries the name of !dx.entryPoints[0]
	if list, ok := m.NamedMD["dx.entryPoints"]; ok && len(list) >= 1 && c.PSV != nil && c.PSV.Version >= 3 {
		e := list[0]
		if e >= 0 && e < len(m.mds) && m.mds[e].kind == mdNode && len(m.mds[e].ops) >= 2 {
			nm := m.mds[e].ops[1]
			if nm >= 0 && nm < len(m.mds) && m.mds[nm].kind == mdString && m.mds[nm].str != c.PSV.EntryName {
				c.info("psv-entryname: PSV0 entry name %q, !dx.entryPoints says %q", c.PSV.EntryName, m.mds[nm].str)
			}
		}
	}
}

// EntryFunction returns the function named by !dx.entryPoints[0] (nil when
// that cannot be resolved; library-style null entries resolve to nil).
func (m *Module) EntryFunction() *Function {
	list, ok := m.NamedMD["dx.entryPoints"]
	if !ok || len(list) == 0 {
		return nil
	}
	e := list[0]
	if e < 0 || e >= len(m.mds) || m.mds[e].kind != mdNode || len(m.mds[e].ops) < 1 {
		return nil
	}
	v := m.mds[e].ops[0]
	if v < 0 || v >= len(m.mds) || m.mds[v].kind != mdValue {
		return nil
	}
	id := m.mds[v].valID
	if id < 0 || id >= len(m.vals) || m.vals[id].kind != vkFunction {
		return nil
	}
	return m.Functions[m.vals[id].fn]
}
