package dxbc

import (
	"fmt"
	"strings"
)

// LLVM 3.7 block ids (LLVMBitCodes.h).
const (
	blkBlockInfo      = 0
	blkModule         = 8
	blkParamAttr      = 9
	blkParamAttrGroup = 10
	blkConstants      = 11
	blkFunction       = 12
	blkValueSymtab    = 14
	blkMetadata       = 15
	blkMetadataAttach = 16
	blkTypeNew        = 17
	blkUseList        = 18
)

type tkind uint8

const (
	tInvalid tkind = iota
	tVoid
	tHalf
	tFloat
	tDouble
	tOtherFP // x86_fp80, fp128, ppc_fp128
	tLabel
	tMetadata
	tMMX
	tInt
	tPtr
	tArray
	tVector
	tStruct
	tFunc
	tFwd // referenced before definition, not (yet) defined
)

// Type is one entry of the type table (or a type synthesised while inferring
// instruction result types).
type Type struct {
	Kind      tkind
	Width     uint64 // integer width
	Elem      int    // pointee / element / return type
	N         uint64 // array / vector length
	Elems     []int  // struct members / function parameters
	VarArg    bool
	AddrSpace uint64
	Named     bool // identified struct (or opaque)
	Opaque    bool
	Packed    bool
	Name      string
}

type typeTable struct {
	types    []Type
	nTable   int   // number of entries that came from the TYPE block
	canon    []int // canonical representative of each entry
	keyIndex map[string]int
}

func (tt *typeTable) valid(id int) bool {
	return id >= 0 && id < len(tt.types) && tt.types[id].Kind != tInvalid && tt.types[id].Kind != tFwd
}

func (tt *typeTable) key(id int, depth int) string {
	t := &tt.types[id]
	if depth > 64 {
		return fmt.Sprintf("deep#%d", id)
	}
	c := func(x int) string {
		if x < 0 || x >= len(tt.types) {
			return "?"
		}
		if tt.canon[x] >= 0 {
			return fmt.Sprint(tt.canon[x])
		}
		if tt.types[x].Named || tt.types[x].Kind == tFwd || tt.types[x].Kind == tInvalid {
			return fmt.Sprintf("n%d", x)
		}
		return "(" + tt.key(x, depth+1) + ")"
	}
	switch t.Kind {
	case tVoid, tHalf, tFloat, tDouble, tLabel, tMetadata, tMMX:
		return fmt.Sprintf("k%d", t.Kind)
	case tOtherFP:
		return fmt.Sprintf("fp%d", t.Width)
	case tInt:
		return fmt.Sprintf("i%d", t.Width)
	case tPtr:
		return fmt.Sprintf("p%d:%s", t.AddrSpace, c(t.Elem))
	case tArray:
		return fmt.Sprintf("a%d:%s", t.N, c(t.Elem))
	case tVector:
		return fmt.Sprintf("v%d:%s", t.N, c(t.Elem))
	case tStruct:
		if t.Named {
			return fmt.Sprintf("n%d", id)
		}
		var sb strings.Builder
		fmt.Fprintf(&sb, "s%v:", t.Packed)
		for _, e := range t.Elems {
			sb.WriteString(c(e))
			sb.WriteByte(',')
		}
		return sb.String()
	case tFunc:
		var sb strings.Builder
		fmt.Fprintf(&sb, "f%v:%s:", t.VarArg, c(t.Elem))
		for _, e := range t.Elems {
			sb.WriteString(c(e))
			sb.WriteByte(',')
		}
		return sb.String()
	}
	return fmt.Sprintf("x%d", id)
}

// finish computes canonical representatives once the table is complete.
func (tt *typeTable) finish() {
	tt.nTable = len(tt.types)
	tt.canon = make([]int, len(tt.types))
	for i := range tt.canon {
		tt.canon[i] = -1
	}
	tt.keyIndex = map[string]int{}
	// named structs are their own representative
	for i := range tt.types {
		if tt.types[i].Named || tt.types[i].Kind == tFwd || tt.types[i].Kind == tInvalid {
			tt.canon[i] = i
		}
	}
	for i := range tt.types {
		if tt.canon[i] >= 0 {
			continue
		}
		k := tt.key(i, 0)
		if j, ok := tt.keyIndex[k]; ok {
			tt.canon[i] = j
		} else {
			tt.keyIndex[k] = i
			tt.canon[i] = i
		}
	}
}

// c returns the canonical id of a type id (-1 stays -1).
func (tt *typeTable) c(id int) int {
	if id < 0 || id >= len(tt.canon) {
		return -1
	}
	return tt.canon[id]
}

// intern returns the canonical id of t, adding it when the table lacks it.
func (tt *typeTable) intern(t Type) int {
	if t.Kind == tPtr || t.Kind == tArray || t.Kind == tVector || t.Kind == tFunc {
		if t.Elem < 0 {
			return -1
		}
		t.Elem = tt.c(t.Elem)
	}
	for i, e := range t.Elems {
		if e < 0 {
			return -1
		}
		t.Elems[i] = tt.c(e)
	}
	tt.types = append(tt.types, t)
	tt.canon = append(tt.canon, -1)
	id := len(tt.types) - 1
	k := tt.key(id, 0)
	if j, ok := tt.keyIndex[k]; ok {
		tt.types = tt.types[:id]
		tt.canon = tt.canon[:id]
		return j
	}
	tt.keyIndex[k] = id
	tt.canon[id] = id
	return id
}

func (tt *typeTable) get(id int) *Type {
	if id < 0 || id >= len(tt.types) {
		return nil
	}
	return &tt.types[id]
}

func (tt *typeTable) kind(id int) tkind {
	if t := tt.get(id); t != nil {
		return t.Kind
	}
	return tInvalid
}

func (tt *typeTable) isFP(id int) bool {
	switch tt.kind(id) {
	case tHalf, tFloat, tDouble, tOtherFP:
		return true
	}
	return false
}

func (tt *typeTable) isInt(id int) bool { return tt.kind(id) == tInt }

// scalarOf returns the element type of a vector, or the type itself.
func (tt *typeTable) scalarOf(id int) int {
	if t := tt.get(id); t != nil && t.Kind == tVector {
		return tt.c(t.Elem)
	}
	return id
}

func (tt *typeTable) isFirstClass(id int) bool {
	switch tt.kind(id) {
	case tVoid, tFunc, tInvalid, tFwd:
		return false
	}
	return true
}

func (tt *typeTable) ptrTo(elem int, as uint64) int {
	if elem < 0 {
		return -1
	}
	return tt.intern(Type{Kind: tPtr, Elem: elem, AddrSpace: as})
}

func (tt *typeTable) intTy(w uint64) int { return tt.intern(Type{Kind: tInt, Width: w}) }

// String renders a type for messages.
func (tt *typeTable) str(id int) string {
	return tt.strd(id, 0)
}

func (tt *typeTable) strd(id, depth int) string {
	t := tt.get(id)
	if t == nil {
		return "?"
	}
	if depth > 6 {
		return "…"
	}
	switch t.Kind {
	case tVoid:
		return "void"
	case tHalf:
		return "half"
	case tFloat:
		return "float"
	case tDouble:
		return "double"
	case tOtherFP:
		return "fp"
	case tLabel:
		return "label"
	case tMetadata:
		return "metadata"
	case tMMX:
		return "x86_mmx"
	case tInt:
		return fmt.Sprintf("i%d", t.Width)
	case tPtr:
		if t.AddrSpace != 0 {
			return fmt.Sprintf("%s addrspace(%d)*", tt.strd(t.Elem, depth+1), t.AddrSpace)
		}
		return tt.strd(t.Elem, depth+1) + "*"
	case tArray:
		return fmt.Sprintf("[%d x %s]", t.N, tt.strd(t.Elem, depth+1))
	case tVector:
		return fmt.Sprintf("<%d x %s>", t.N, tt.strd(t.Elem, depth+1))
	case tStruct:
		if t.Named {
			return "%" + t.Name
		}
		var p []string
		for _, e := range t.Elems {
			p = append(p, tt.strd(e, depth+1))
		}
		return "{" + strings.Join(p, ", ") + "}"
	case tFunc:
		var p []string
		for _, e := range t.Elems {
			p = append(p, tt.strd(e, depth+1))
		}
		if t.VarArg {
			p = append(p, "...")
		}
		return tt.strd(t.Elem, depth+1) + " (" + strings.Join(p, ", ") + ")"
	case tFwd:
		return fmt.Sprintf("<undefined type %d>", id)
	}
	return fmt.Sprintf("<type %d>", id)
}
