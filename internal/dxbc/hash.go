package dxbc

import (
	"encoding/binary"
	"math"
	"math/bits"
)

// MD5 compression function (RFC 1321), written out here because the
// container digest needs the raw chaining state without the standard MD5
// finalisation, which crypto/md5 does not expose.

var md5K [64]uint32

var md5S = [64]uint8{
	7, 12, 17, 22, 7, 12, 17, 22, 7, 12, 17, 22, 7, 12, 17, 22,
	5, 9, 14, 20, 5, 9, 14, 20, 5, 9, 14, 20, 5, 9, 14, 20,
	4, 11, 16, 23, 4, 11, 16, 23, 4, 11, 16, 23, 4, 11, 16, 23,
	6, 10, 15, 21, 6, 10, 15, 21, 6, 10, 15, 21, 6, 10, 15, 21,
}

func init() {
	// K[i] = floor(2^32 * abs(sin(i+1)))  (RFC 1321 §3.4)
	for i := range md5K {
		md5K[i] = uint32(math.Floor(math.Abs(math.Sin(float64(i+1))) * 4294967296.0))
	}
}

func md5Block(st *[4]uint32, blk []byte) {
	var m [16]uint32
	for i := range m {
		m[i] = binary.LittleEndian.Uint32(blk[4*i:])
	}
	a, b, c, d := st[0], st[1], st[2], st[3]
	for i := 0; i < 64; i++ {
		var f uint32
		var g int
		switch {
		case i < 16:
			f = (b & c) | (^b & d)
			g = i
		case i < 32:
			f = (d & b) | (^d & c)
			g = (5*i + 1) & 15
		case i < 48:
			f = b ^ c ^ d
			g = (3*i + 5) & 15
		default:
			f = c ^ (b | ^d)
			g = (7 * i) & 15
		}
		f += a + md5K[i] + m[g]
		a = d
		d = c
		c = b
		b += bits.RotateLeft32(f, int(md5S[i]))
	}
	st[0] += a
	st[1] += b
	st[2] += c
	st[3] += d
}

// RetailHash computes the container digest ("validator hash", INF-0004; the
// same scheme as the legacy DXBC checksum) over data, which must be the
// container bytes starting at offset 20 (just after the digest field).
//
// It is MD5's compression function with a non-standard tail: the bit length
// is placed at the *start* of the final block (not as a 64-bit count at the
// end), the last word of the final block is (bitlen>>2)|1, and the result is
// the raw chaining state.
func RetailHash(data []byte) [16]byte {
	st := [4]uint32{0x67452301, 0xefcdab89, 0x98badcfe, 0x10325476}
	n := len(data)
	numBits := uint32(n) * 8
	numBits2 := (numBits >> 2) | 1
	full := n &^ 63
	for off := 0; off < full; off += 64 {
		md5Block(&st, data[off:off+64])
	}
	rest := data[full:]
	var blk [64]byte
	if len(rest) >= 56 {
		// leftover + 0x80 padding fills one block, then a block that carries
		// only the two length words.
		copy(blk[:], rest)
		blk[len(rest)] = 0x80
		md5Block(&st, blk[:])
		blk = [64]byte{}
		binary.LittleEndian.PutUint32(blk[0:], numBits)
		binary.LittleEndian.PutUint32(blk[60:], numBits2)
		md5Block(&st, blk[:])
	} else {
		binary.LittleEndian.PutUint32(blk[0:], numBits)
		copy(blk[4:], rest)
		blk[4+len(rest)] = 0x80
		binary.LittleEndian.PutUint32(blk[60:], numBits2)
		md5Block(&st, blk[:])
	}
	var out [16]byte
	for i := 0; i < 4; i++ {
		binary.LittleEndian.PutUint32(out[4*i:], st[i])
	}
	return out
}
