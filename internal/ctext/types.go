package ctext

import (
	"fmt"
	"strings"
)

// Kind classifies a Type.
type Kind uint8

const (
	KVoid Kind = iota
	KBool
	KInt
	KUint
	KFloat
	KDouble // type-checked only; not executed
	KVec
	KMat
	KArray
	KStruct
	KOpaque // samplers, images, atomic_uint ...: type-checked as names only
	KPtr    // MSL pointer (Elem = pointee, Space = address space); never stored in cells
)

// Type is a shared (dialect-agnostic) value type.  Scalars, vectors and
// matrices are global immutable singletons; arrays are interned per Program,
// structs are identified by their *StructDef.  Types compare with ==.
type Type struct {
	Kind   Kind
	Elem   *Type // KVec, KMat: scalar type; KArray: element type
	N      int   // KVec: component count; KArray: length, -1 = runtime sized / unsized
	Cols   int   // KMat
	Rows   int   // KMat
	Struct *StructDef
	Name   string // KOpaque
	nsc    int    // number of scalar cells (0 for runtime arrays)
	// Var is non-nil for scalar types that share their Kind with a default
	// scalar but are distinct types of the dialect (MSL half, char, short,
	// atomic_uint ...).  Vectors / matrices of such scalars have Elem.Var set.
	Var *scalarVariant
	// Packed marks MSL packed_<T><N> vectors (distinct types with the layout
	// of an array of N scalars).
	Packed bool
	// Space is the address space of a KPtr type ("device", "thread" ...).
	Space string
}

// scalarVariant describes a non-default scalar type: its spelling, storage
// width and its own vector / matrix singletons.  Values still occupy one
// 32-bit cell per component (half: the binary32 image of the binary16 value;
// narrow integers: sign- or zero-extended).
type scalarVariant struct {
	name   string
	bits   int // storage width in bits: 8, 16, 32, 64
	atomic bool
	scalar *Type
	vec    [5]*Type
	mat    [5][5]*Type
}

// leafSize is the number of bytes a scalar leaf of type t occupies in a byte
// buffer (4 for the default scalars).
func leafSize(t *Type) int {
	if t != nil && t.Var != nil {
		return t.Var.bits / 8
	}
	return 4
}

// StructDef is a structure declaration.
type StructDef struct {
	Name   string
	Fields []Field
	Pos    Pos
}

// Field is a struct member.
type Field struct {
	Name string
	T    *Type
}

var (
	tVoid   = &Type{Kind: KVoid}
	tBool   = &Type{Kind: KBool, nsc: 1}
	tInt    = &Type{Kind: KInt, nsc: 1}
	tUint   = &Type{Kind: KUint, nsc: 1}
	tFloat  = &Type{Kind: KFloat, nsc: 1}
	tDouble = &Type{Kind: KDouble, nsc: 1}

	vecTypes, matTypes = buildVecMatTypes()
)

func buildVecMatTypes() (vt [KDouble + 1][5]*Type, mt [KDouble + 1][5][5]*Type) {
	for _, s := range []*Type{tBool, tInt, tUint, tFloat, tDouble} {
		for n := 2; n <= 4; n++ {
			vt[s.Kind][n] = &Type{Kind: KVec, Elem: s, N: n, nsc: n}
		}
	}
	for _, s := range []*Type{tFloat, tDouble} {
		for c := 2; c <= 4; c++ {
			for r := 2; r <= 4; r++ {
				mt[s.Kind][c][r] = &Type{Kind: KMat, Elem: s, Cols: c, Rows: r, nsc: c * r}
			}
		}
	}
	return
}

// scalarType returns the scalar singleton for a scalar kind.
func scalarType(k Kind) *Type {
	switch k {
	case KBool:
		return tBool
	case KInt:
		return tInt
	case KUint:
		return tUint
	case KFloat:
		return tFloat
	case KDouble:
		return tDouble
	}
	return nil
}

// vecOf returns the vector type (n==1: the scalar itself).
func vecOf(scalar *Type, n int) *Type {
	if n == 1 {
		return scalar
	}
	if scalar.Var != nil {
		return scalar.Var.vec[n]
	}
	return vecTypes[scalar.Kind][n]
}

func matOf(scalar *Type, cols, rows int) *Type {
	if scalar.Var != nil {
		return scalar.Var.mat[cols][rows]
	}
	return matTypes[scalar.Kind][cols][rows]
}

type arrKey struct {
	elem *Type
	n    int
}

// typeTab interns array types for one Program.
type typeTab struct{ arrays map[arrKey]*Type }

func (tt *typeTab) arrayOf(elem *Type, n int) *Type {
	if tt.arrays == nil {
		tt.arrays = map[arrKey]*Type{}
	}
	k := arrKey{elem, n}
	if t, ok := tt.arrays[k]; ok {
		return t
	}
	t := &Type{Kind: KArray, Elem: elem, N: n}
	if n > 0 {
		t.nsc = n * elem.nsc
	}
	tt.arrays[k] = t
	return t
}

func newStructType(sd *StructDef) *Type {
	t := &Type{Kind: KStruct, Struct: sd}
	for _, f := range sd.Fields {
		t.nsc += f.T.nsc
	}
	return t
}

// IsScalar reports bool/int/uint/float/double.
func (t *Type) IsScalar() bool { return t.Kind >= KBool && t.Kind <= KDouble }

// IsNumericScalar reports int/uint/float/double.
func (t *Type) IsNumericScalar() bool { return t.Kind >= KInt && t.Kind <= KDouble }

func (t *Type) IsVec() bool { return t.Kind == KVec }
func (t *Type) IsMat() bool { return t.Kind == KMat }

// Scalar returns the component type of a scalar/vector/matrix, else nil.
func (t *Type) Scalar() *Type {
	switch t.Kind {
	case KBool, KInt, KUint, KFloat, KDouble:
		return t
	case KVec, KMat:
		return t.Elem
	}
	return nil
}

// Base is the Kind of Scalar() (KVoid if none).
func (t *Type) Base() Kind {
	if s := t.Scalar(); s != nil {
		return s.Kind
	}
	return KVoid
}

// IsIntegral reports int/uint scalars and vectors.
func (t *Type) IsIntegral() bool {
	b := t.Base()
	return (b == KInt || b == KUint) && t.Kind != KMat
}

// IsFloating reports float/double scalars, vectors, matrices.
func (t *Type) IsFloating() bool { b := t.Base(); return b == KFloat || b == KDouble }

// NumScalars is the number of scalar cells of a value of this type.
func (t *Type) NumScalars() int { return t.nsc }

// VecSize is 1 for scalars, N for vectors, 0 otherwise.
func (t *Type) VecSize() int {
	if t.IsScalar() {
		return 1
	}
	if t.Kind == KVec {
		return t.N
	}
	return 0
}

// containsKind reports whether the type (recursively) contains kind k.
func (t *Type) containsKind(k Kind) bool {
	if t.Kind == k || t.Base() == k {
		return true
	}
	switch t.Kind {
	case KArray:
		return t.Elem.containsKind(k)
	case KStruct:
		for _, f := range t.Struct.Fields {
			if f.T.containsKind(k) {
				return true
			}
		}
	}
	return false
}

func (t *Type) hasRuntimeArray() bool {
	switch t.Kind {
	case KArray:
		return t.N < 0 || t.Elem.hasRuntimeArray()
	case KStruct:
		for _, f := range t.Struct.Fields {
			if f.T.hasRuntimeArray() {
				return true
			}
		}
	}
	return false
}

// withBase returns the same shape with another scalar kind (vec/scalar/mat).
func (t *Type) withBase(k Kind) *Type {
	s := scalarType(k)
	switch t.Kind {
	case KVec:
		return vecOf(s, t.N)
	case KMat:
		if k != KFloat && k != KDouble {
			return nil
		}
		return matOf(s, t.Cols, t.Rows)
	}
	if t.IsScalar() {
		return s
	}
	return nil
}

// String renders the type with GLSL spelling (the shared default).
func (t *Type) String() string {
	if t == nil {
		return "<nil>"
	}
	if s, ok := variantTypeString(t); ok {
		return s
	}
	switch t.Kind {
	case KVoid:
		return "void"
	case KBool:
		return "bool"
	case KInt:
		return "int"
	case KUint:
		return "uint"
	case KFloat:
		return "float"
	case KDouble:
		return "double"
	case KVec:
		return [...]string{KBool: "b", KInt: "i", KUint: "u", KFloat: "", KDouble: "d"}[t.Elem.Kind] + fmt.Sprintf("vec%d", t.N)
	case KMat:
		p := ""
		if t.Elem.Kind == KDouble {
			p = "d"
		}
		return fmt.Sprintf("%smat%dx%d", p, t.Cols, t.Rows)
	case KArray:
		// outermost dimension first, as GLSL writes it
		var dims []string
		e := t
		for e.Kind == KArray {
			if e.N < 0 {
				dims = append(dims, "[]")
			} else {
				dims = append(dims, fmt.Sprintf("[%d]", e.N))
			}
			e = e.Elem
		}
		return e.String() + strings.Join(dims, "")
	case KStruct:
		return t.Struct.Name
	case KOpaque:
		return t.Name
	}
	return "?"
}

// variantTypeString spells the types that only non-GLSL dialects have
// (variant scalars and their vectors / matrices, packed vectors, pointers).
func variantTypeString(t *Type) (string, bool) {
	switch {
	case t.Kind == KPtr:
		return t.Space + " " + t.Elem.String() + "*", true
	case t.Var != nil:
		return t.Var.name, true
	case t.Kind == KVec && (t.Elem.Var != nil || t.Packed):
		p := ""
		if t.Packed {
			p = "packed_"
		}
		return fmt.Sprintf("%s%s%d", p, t.Elem.String(), t.N), true
	case t.Kind == KMat && t.Elem.Var != nil:
		return fmt.Sprintf("%s%dx%d", t.Elem.String(), t.Cols, t.Rows), true
	}
	return "", false
}
