package ctext

import (
	"encoding/binary"
	"fmt"
	"strings"
)

// parseHLSL tokenizes, parses and checks an HLSL translation unit.
func parseHLSL(src string) *Program {
	prog := &Program{Dialect: HLSL, lc: layoutCache{}, structTypes: map[*StructDef]*Type{}, localSize: [3]uint32{1, 1, 1}}
	st := &hlslState{
		paramSem: map[*Param]string{}, fieldSem: map[*VarDecl]string{}, funcSem: map[*Function]string{},
		attrs: map[*Function][]hlslAttr{}, structs: map[*StructDef]*StructDecl{}, objTypes: map[string]*Type{},
	}
	prog.hl = st
	prog.hooks = &dialectHooks{
		binary:    hlslBinary,
		unary:     hlslUnary,
		mapReason: hlslMapReason,
		run:       hlslRun,
		entry:     hlslEntryHook,
		typeStr:   hlslTypeName,
		convert:   func(ev *evaluator, v Value, to *Type) Value { return ev.hlslConvertValue(v, to) },
	}
	fe := &hlslFE{st: st}
	st.fe = fe
	toks := hlslDropStatementAttributes(hlslMergeTemplateCalls(lex(HLSL, hlslPrelex(src))))
	p := &parser{d: HLSL, fe: fe, toks: toks, prog: prog}
	p.pushScope()
	decls := fe.parseTranslationUnit(p)
	p.popScope()
	rules := &hlslRules{fe: fe, st: st}
	c := &checker{prog: prog, d: HLSL, rules: rules}
	c.ev = &evaluator{sh: newShared(prog), constMode: true}
	c.push()
	rules.checkTop(c, decls)
	c.pop()
	c.checkRecursion()
	if prog.usesDouble {
		Pos{1, 1}.unsupported(HLSL, "double-precision types")
	}
	return prog
}

// hlslMapReason replaces the GLSL citations of the shared core's poison
// reasons by the HLSL ones.
func hlslMapReason(reason string) string {
	switch reason {
	case whyUninit:
		return "read of a variable that was never written (HLSL: the value of an uninitialised local variable is undefined; DXC reports it as 'used but never initialised', DXIL undef)"
	case whyOutParam:
		return "out parameter read before being written (HLSL reference, Function Parameters: an out parameter's initial value is undefined)"
	}
	if strings.HasPrefix(reason, "read of a shared variable that was never written") {
		return "read of a groupshared variable that was never written (HLSL: groupshared memory is not initialised)"
	}
	return reason
}

// hlslSemanticValue returns the value of a compute system-value semantic.
func hlslSemanticValue(ev *evaluator, sem string) ([]uint32, bool) {
	switch strings.ToUpper(sem) {
	case "SV_DISPATCHTHREADID":
		return ev.gid[:], true
	case "SV_GROUPTHREADID":
		return ev.lid[:], true
	case "SV_GROUPID":
		return ev.wg.id[:], true
	case "SV_GROUPINDEX":
		return []uint32{ev.lidx}, true
	}
	return nil, false
}

// hlslFillSemantic writes a system value into the cells of a parameter /
// field of type t (uint, int, uintN, intN with N <= the value's size).
func hlslFillSemantic(ev *evaluator, cells []Cell, t *Type, sem string, what string) {
	val, ok := hlslSemanticValue(ev, sem)
	if !ok {
		ev.trap("unsupported: entry point input %s with semantic %s", what, sem)
	}
	n := t.VecSize()
	if n == 0 || (t.Base() != KUint && t.Base() != KInt) || n > len(val) {
		ev.trap("entry point input %s: type %s does not fit semantic %s", what, hlslTypeName(t), sem)
	}
	for i := 0; i < n; i++ {
		cells[i] = u32Cell(val[i])
	}
}

// hlslEntryHook initialises static globals whose initialiser is not a
// constant expression and fills the entry point's parameters from their
// semantics.
func hlslEntryHook(ev *evaluator, fn *Function) {
	st := ev.sh.prog.hl
	for _, g := range st.dynInit {
		v := ev.eval(g.Init)
		copy(ev.priv[g.CellOff:g.CellOff+g.T.nsc], v.C)
	}
	for _, p := range fn.Params {
		slot := ev.frame[p.Sym.Slot : p.Sym.Slot+p.T.nsc]
		if p.Dir == "out" {
			continue
		}
		if sem := st.paramSem[p]; sem != "" {
			hlslFillSemantic(ev, slot, p.T, sem, p.Name)
			continue
		}
		if p.T.Kind == KStruct {
			sd := st.structs[p.T.Struct]
			off := 0
			for i, f := range p.T.Struct.Fields {
				sem := ""
				if sd != nil && i < len(sd.Fields) {
					sem = st.fieldSem[sd.Fields[i]]
				}
				if sem == "" {
					ev.trap("unsupported: entry point input %s.%s has no semantic", p.Name, f.Name)
				}
				hlslFillSemantic(ev, slot[off:off+f.T.nsc], f.T, sem, p.Name+"."+f.Name)
				off += f.T.nsc
			}
			continue
		}
		ev.trap("unsupported: entry point parameter %s has no semantic", p.Name)
	}
}

// hlslRun implements Program.Run for HLSL.
//
// Resources are bound through the register annotation in the text:
// cfg.Buffers[Slot{Class: 't'|'u'|'b', Index: register, Space: space}].
// cfg.BlockByName (keyed by the resource variable / cbuffer name) is the
// fallback for resources without a register annotation.
func hlslRun(p *Program, cfg RunConfig) (*RunResult, error) {
	st := p.hl
	var ent *hlslEntry
	for _, e := range st.entries {
		if e.Fn.Name == cfg.Entry || (cfg.Entry == "" && (len(st.entries) == 1 || e.Fn.Name == "main")) {
			ent = e
		}
	}
	if ent == nil {
		if cfg.Entry == "" && len(st.entries) > 1 {
			return nil, fmt.Errorf("ctext: %d compute entry points, RunConfig.Entry must name one", len(st.entries))
		}
		for _, f := range p.funcs {
			if f.Name == cfg.Entry && f.Body != nil {
				return nil, &UnsupportedError{Dialect: HLSL, Pos: f.Pos, What: "Run of a non-compute entry point (no [numthreads] attribute)"}
			}
		}
		return nil, fmt.Errorf("ctext: no compute entry point %q", cfg.Entry)
	}
	fn := ent.Fn
	if fn.Body == nil {
		return nil, fmt.Errorf("ctext: entry point %q has no body", fn.Name)
	}
	// per-run copy: the workgroup size belongs to the entry point
	q := *p
	q.localSize = ent.NumThreads
	q.hasLocalSize = true
	sh := newShared(&q)
	sh.limit = cfg.StepLimit
	sh.numWG = cfg.NumWorkgroups
	total := int64(1)
	for i := 0; i < 3; i++ {
		total *= int64(cfg.NumWorkgroups[i]) * int64(q.localSize[i])
		if total > maxInvocations {
			return nil, fmt.Errorf("ctext: more than %d invocations", maxInvocations)
		}
	}
	resOf := map[*IfaceBlock]*hlslResource{}
	for _, r := range st.resources {
		if r.Block != nil {
			resOf[r.Block] = r
		}
	}
	for _, b := range q.blocks {
		bb := &boundBuf{blk: b}
		if r := resOf[b]; r != nil && r.Reg != nil {
			slot := Slot{Class: r.Reg.Class, Index: uint32(r.Reg.Index), Space: uint32(r.Reg.Space)}
			if d, ok := cfg.Buffers[slot]; ok {
				bb.data, bb.bound = d, true
			} else if cfg.NumWorkgroupsSlot != nil && *cfg.NumWorkgroupsSlot == slot {
				d := make([]byte, 16)
				for i := 0; i < 3; i++ {
					binary.LittleEndian.PutUint32(d[4*i:], cfg.NumWorkgroups[i])
				}
				bb.data, bb.bound = d, true
			}
		}
		if !bb.bound {
			if d, ok := cfg.BlockByName[b.Name]; ok {
				bb.data, bb.bound = d, true
			}
		}
		sh.bufs = append(sh.bufs, bb)
	}
	res := &RunResult{}
	var runErr error
	func() {
		defer func() {
			if r := recover(); r != nil {
				switch t := r.(type) {
				case trapPanic:
					res.Trap = t.msg
				case stepPanic:
					runErr = ErrStepLimit
				default:
					panic(r)
				}
			}
		}()
		q.dispatch(sh, fn, cfg, res)
	}()
	res.Steps = sh.steps
	res.Poison = sh.events
	res.Info = sh.infos
	res.Accesses = sh.accesses
	if strings.HasPrefix(res.Trap, "unsupported: access to block ") {
		// the shared core's wording for a constant buffer without storage
		res.Trap = "access to constant buffer " + strings.TrimPrefix(res.Trap, "unsupported: access to block ")
	}
	return res, runErr
}

// hlslFmod: remainder of x / y with the sign of x (C fmod); exact.
func hlslFmod(x, y float32) float32 {
	return float32(fmod64(float64(x), float64(y)))
}
