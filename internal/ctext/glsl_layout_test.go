package ctext

import (
	"testing"
)

// Offsets below are computed by hand from OpenGL 4.6 core §7.6.2.2.

func findMember(ms []MemberInfo, name string) *MemberInfo {
	for i := range ms {
		if ms[i].Name == name {
			return &ms[i]
		}
	}
	return nil
}

type memWant struct {
	name                            string
	off, size, arrStride, matStride int
}

func checkMembers(t *testing.T, what string, ms []MemberInfo, want []memWant) {
	t.Helper()
	for _, w := range want {
		m := findMember(ms, w.name)
		if m == nil {
			t.Errorf("%s: member %s missing", what, w.name)
			continue
		}
		if m.Offset != w.off || m.Size != w.size || m.ArrayStride != w.arrStride || m.MatrixStride != w.matStride {
			t.Errorf("%s.%s: offset/size/arrayStride/matrixStride = %d/%d/%d/%d, want %d/%d/%d/%d", what, w.name, m.Offset, m.Size, m.ArrayStride, m.MatrixStride, w.off, w.size, w.arrStride, w.matStride)
		}
	}
}

const layoutMembers = `
  float f0;          // scalar
  vec3 v3;           // aligned to 16
  float f1;          // packs into the vec3's 4th slot
  vec2 v2;
  vec3 av3[2];       // stride 16 in both layouts
  float af[3];       // stride 4 (std430) / 16 (std140)
  mat3 m3;           // 3 columns of vec3, stride 16
  mat2x3 m23;        // 2 columns of vec3
  mat2 m2;           // columns of vec2: stride 8 (std430) / 16 (std140)
  mat3x2 m32;        // 3 columns of vec2
  Inner in1;         // struct: align 8 (std430) / 16 (std140)
  Inner ain[2];
  Deep dp;
  int last;
`

const layoutStructs = `
struct Inner { vec2 a; float b; };            // std430: size 16 align 8 ; std140: size 16 align 16
struct Deep { float x; Inner i; vec3 v; float arr[2]; }; // see test
`

func TestStd430Layout(t *testing.T) {
	src := "#version 430 core\nlayout(local_size_x = 1) in;\n" + layoutStructs +
		"layout(std430, binding = 3) buffer B {" + layoutMembers + "} b;\nvoid main() {}\n"
	p := mustParse(t, src)
	bs := p.Blocks()
	if len(bs) != 1 || bs[0].Name != "B" || bs[0].Instance != "b" || bs[0].Class != 's' || bs[0].Binding != 3 || bs[0].Layout != "std430" {
		t.Fatalf("block info %+v", bs)
	}
	// f0 0; v3 16..28; f1 28; v2 32; av3 48 (2*16=32) ->80; af 80 stride 4 size 12 -> 92;
	// m3 align 16 -> 96 size 48 -> 144; m23 144 size 32 -> 176; m2 align 8 -> 176 size 16 -> 192;
	// m32 192 stride 8 size 24 -> 216; in1 align 8 -> 216 size 16 -> 232 (a 0, b 8, end 12 -> 16);
	// ain 232 stride 16 size 32 -> 264; dp: Deep = { x 0; i align 8 -> 8..24; v align 16 -> 32..44; arr align 4 -> 44, stride 4, size 8 -> 52 }
	//   align 16, size roundup(52,16) = 64; dp offset roundup(264,16) = 272 -> 336; last 336.
	checkMembers(t, "std430", bs[0].Members, []memWant{
		{"f0", 0, 4, 0, 0},
		{"v3", 16, 12, 0, 0},
		{"f1", 28, 4, 0, 0},
		{"v2", 32, 8, 0, 0},
		{"av3", 48, 32, 16, 0},
		{"af", 80, 12, 4, 0},
		{"m3", 96, 48, 0, 16},
		{"m23", 144, 32, 0, 16},
		{"m2", 176, 16, 0, 8},
		{"m32", 192, 24, 0, 8},
		{"in1", 216, 16, 0, 0},
		{"ain", 232, 32, 16, 0},
		{"dp", 272, 64, 0, 0},
		{"last", 336, 4, 0, 0},
	})
	dp := findMember(bs[0].Members, "dp")
	checkMembers(t, "std430 Deep", dp.Members, []memWant{{"x", 0, 4, 0, 0}, {"i", 8, 16, 0, 0}, {"v", 32, 12, 0, 0}, {"arr", 44, 8, 4, 0}})
	in := findMember(bs[0].Members, "in1")
	checkMembers(t, "std430 Inner", in.Members, []memWant{{"a", 0, 8, 0, 0}, {"b", 8, 4, 0, 0}})
	if bs[0].Size != 340 {
		t.Errorf("block size %d, want 340", bs[0].Size)
	}
}

func TestStd140Layout(t *testing.T) {
	src := "#version 430 core\nlayout(local_size_x = 1) in;\n" + layoutStructs +
		"layout(std140, binding = 1) uniform B {" + layoutMembers + "};\nvoid main() {}\n"
	p := mustParse(t, src)
	bs := p.Blocks()
	if len(bs) != 1 || bs[0].Class != 'u' || bs[0].Binding != 1 || bs[0].Layout != "std140" || bs[0].Instance != "" || !bs[0].ReadOnly {
		t.Fatalf("block info %+v", bs)
	}
	// f0 0; v3 16; f1 28; v2 32; av3 48 stride 16 size 32 -> 80; af align 16 -> 80 stride 16 size 48 -> 128;
	// m3 128 stride 16 size 48 -> 176; m23 176 size 32 -> 208; m2 208 stride 16 size 32 -> 240;
	// m32 240 stride 16 size 48 -> 288; in1 (align 16, size 16) 288 -> 304; ain stride 16 size 32: 304 -> 336;
	// Deep std140: x 0; i align 16 -> 16..32; v 32..44; arr align 16 -> 48 stride 16 size 32 -> 80; size 80 align 16.
	// dp 336 -> 416; last 416.
	checkMembers(t, "std140", bs[0].Members, []memWant{
		{"f0", 0, 4, 0, 0},
		{"v3", 16, 12, 0, 0},
		{"f1", 28, 4, 0, 0},
		{"v2", 32, 8, 0, 0},
		{"av3", 48, 32, 16, 0},
		{"af", 80, 48, 16, 0},
		{"m3", 128, 48, 0, 16},
		{"m23", 176, 32, 0, 16},
		{"m2", 208, 32, 0, 16},
		{"m32", 240, 48, 0, 16},
		{"in1", 288, 16, 0, 0},
		{"ain", 304, 32, 16, 0},
		{"dp", 336, 80, 0, 0},
		{"last", 416, 4, 0, 0},
	})
	dp := findMember(bs[0].Members, "dp")
	checkMembers(t, "std140 Deep", dp.Members, []memWant{{"x", 0, 4, 0, 0}, {"i", 16, 16, 0, 0}, {"v", 32, 12, 0, 0}, {"arr", 48, 32, 16, 0}})
}

func TestRuntimeArrayAndRowMajorLayout(t *testing.T) {
	src := `#version 450 core
layout(local_size_x = 1) in;
struct E { vec3 p; float w; uint id; };   // std430: p 0, w 12, id 16, size 32 (align 16)
layout(std430, binding = 0) buffer B { uint count; E items[]; };
layout(std430, binding = 1, row_major) buffer R { mat2x3 m; layout(column_major) mat2x3 c; layout(offset = 128, align = 64) float z; float tail; };
void main() {
  items[1].id = uint(items.length());
  items[1].p = vec3(1.0, 2.0, 3.0);
  // row-major mat2x3 (2 columns, 3 rows): 3 rows of vec2, row stride 8: element (col, row) at row*8 + col*4
  m[1][2] = 7.0;            // byte 2*8 + 1*4 = 20
  m[0] = vec3(1.0, 2.0, 3.0); // bytes 0, 8, 16
  c[1] = vec3(4.0, 5.0, 6.0); // column-major: c at 32 (align 16), column stride 16 -> bytes 48, 52, 56
  z = m[0][1] + m[1][2];      // 2 + 7
  tail = 1.0;
}`
	p := mustParse(t, src)
	bs := p.Blocks()
	checkMembers(t, "B", bs[0].Members, []memWant{{"count", 0, 4, 0, 0}, {"items", 16, 0, 32, 0}})
	if bs[0].Members[1].ArrayLen != -1 {
		t.Errorf("items ArrayLen = %d", bs[0].Members[1].ArrayLen)
	}
	checkMembers(t, "E", bs[0].Members[1].Members, []memWant{{"p", 0, 12, 0, 0}, {"w", 12, 4, 0, 0}, {"id", 16, 4, 0, 0}})
	checkMembers(t, "R", bs[1].Members, []memWant{{"m", 0, 24, 0, 8}, {"c", 32, 32, 0, 16}, {"z", 128, 4, 0, 0}, {"tail", 132, 4, 0, 0}})
	if !bs[1].Members[0].RowMajor || bs[1].Members[1].RowMajor {
		t.Errorf("row-major flags wrong")
	}
	b0 := zeros(16 + 32*3 + 8) // 3 whole elements and 8 spare bytes: length() = 3
	b1 := zeros(136)
	res := run1(t, p, map[Slot][]byte{{Class: 's', Index: 0}: b0, {Class: 's', Index: 1}: b1}, [3]uint32{1, 1, 1})
	clean(t, res)
	if getU32(b0, (16+32+16)/4) != 3 {
		t.Errorf("items[1].id = %d, want 3", getU32(b0, (16+32+16)/4))
	}
	if getF32(b0, (16+32)/4) != 1 || getF32(b0, (16+32)/4+2) != 3 {
		t.Errorf("items[1].p wrong: %v", words32(b0))
	}
	if getU32(b0, (16+32+12)/4) != 0 {
		t.Errorf("padding/w written")
	}
	for _, c := range []struct {
		off  int
		want float32
	}{{20, 7}, {0, 1}, {8, 2}, {16, 3}, {4, 0}, {48, 4}, {52, 5}, {56, 6}, {128, 9}, {132, 1}} {
		if got := getF32(b1, c.off/4); got != c.want {
			t.Errorf("R byte %d = %g, want %g", c.off, got, c.want)
		}
	}
}

func TestBlockLoadStoreLeafByLeaf(t *testing.T) {
	// storing a struct writes its members, never the padding
	src := `#version 430 core
layout(local_size_x = 1) in;
struct S { vec3 a; float b; vec2 c; mat2 m; };   // std430: a 0, b 12, c 16, m 24 (stride 8, size 16) -> 40, size 48 (align 16)
layout(std430, binding = 0) buffer D { S d[2]; };
layout(std140, binding = 0) uniform U { S u; };  // std140: a 0, b 12, c 16, m 32 (stride 16, size 32) -> 64
void main() { S s = u; s.b += 1.0; d[1] = s; d[0].m = s.m * 2.0; }`
	p := mustParse(t, src)
	ub := zeros(64)
	copy(ub[0:], f32s(1, 2, 3, 4))
	copy(ub[16:], f32s(5, 6))
	copy(ub[32:], f32s(7, 8))
	copy(ub[48:], f32s(9, 10))
	db := make([]byte, 96)
	for i := range db {
		db[i] = 0xAA
	}
	res := run1(t, p, map[Slot][]byte{{Class: 's', Index: 0}: db, {Class: 'u', Index: 0}: ub}, [3]uint32{1, 1, 1})
	clean(t, res)
	w := words32(db)
	const pad = 0xAAAAAAAA
	want := []uint32{
		// d[0]: only m written (bytes 24..40)
		pad, pad, pad, pad, pad, pad, fb(14), fb(16), fb(18), fb(20), pad, pad,
		// d[1]
		fb(1), fb(2), fb(3), fb(5), fb(5), fb(6), fb(7), fb(8), fb(9), fb(10), pad, pad,
	}
	for i := range want {
		if w[i] != want[i] {
			t.Errorf("word %d = %#x, want %#x", i, w[i], want[i])
		}
	}
}

func TestBindingByNameFallbackAndUnbound(t *testing.T) {
	src := "#version 430 core\nlayout(local_size_x = 1) in;\nlayout(std430) buffer Blk { uint x; };\nlayout(std430) buffer Other { uint y; };\nvoid main() { x = 5u; }\n"
	p := mustParse(t, src)
	if p.Blocks()[0].Binding != -1 {
		t.Fatalf("binding = %d", p.Blocks()[0].Binding)
	}
	b := zeros(4)
	res, err := p.Run(RunConfig{BlockByName: map[string][]byte{"Blk": b}, NumWorkgroups: [3]uint32{1, 1, 1}})
	if err != nil {
		t.Fatal(err)
	}
	clean(t, res)
	if getU32(b, 0) != 5 {
		t.Errorf("x = %d", getU32(b, 0))
	}
	// accessing a block with nothing bound is reported, not guessed
	res, err = p.Run(RunConfig{NumWorkgroups: [3]uint32{1, 1, 1}})
	if err != nil {
		t.Fatal(err)
	}
	if res.Trap == "" {
		t.Errorf("expected a trap for the unbound block")
	}
	// a buffer smaller than the accessed member traps
	src2 := "#version 430 core\nlayout(local_size_x = 1) in;\nlayout(std430, binding = 0) buffer Blk { uint x; uint y; };\nvoid main() { y = 5u; }\n"
	res = run1(t, mustParse(t, src2), map[Slot][]byte{{Class: 's', Index: 0}: zeros(4)}, [3]uint32{1, 1, 1})
	if res.Trap == "" {
		t.Errorf("expected a trap for the short buffer")
	}
}
