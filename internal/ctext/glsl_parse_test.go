package ctext

import (
	"strings"
	"testing"
)

func wrapMain(hdr, decls, body string) string {
	return hdr + decls + "\nvoid main() {\n" + body + "\n}\n"
}

func TestInvalidPrograms(t *testing.T) {
	cases := []struct {
		name, hdr, decls, body, code string
	}{
		// syntax
		{"missing semicolon", hdr430, "", "int x = 1", "syntax"},
		{"unbalanced paren", hdr430, "", "int x = (1 + 2;", "syntax"},
		{"bad token", hdr430, "", "int x = 1 @ 2;", "syntax"},
		{"stray else", hdr430, "", "else { }", "syntax"},
		{"case outside switch", hdr430, "", "case 1: ;", "syntax"},
		{"type as expression", hdr430, "", "int x = float;", "syntax"},
		{"c-style cast", hdr430, "", "float f = (float)1;", "syntax"},
		{"hlsl type", hdr430, "", "float3 v = float3(1.0);", "syntax"},
		{"static qualifier", hdr430, "static int x = 1;", "", "syntax"},
		{"bad float suffix", hdr430, "", "float f = 1.0h;", "syntax"},
		{"integer with f suffix", hdr430, "", "float f = 1f;", "syntax"},
		{"too large literal", hdr430, "", "uint u = 4294967296u;", "literal"},
		{"double literal in ES", hdr310, "", "float f = 2.0LF;", "version"},
		{"version not first", "layout(local_size_x = 1) in;\n#version 430 core\n", "", "", "syntax"},
		{"unknown version", "#version 431 core\n", "", "", "version"},
		{"es without profile", "#version 310\n", "", "", "version"},
		// names
		{"undeclared variable", hdr430, "", "int x = y;", "undeclared"},
		{"undeclared function", hdr430, "", "int x = nothere(1);", "undeclared"},
		{"use before declaration", hdr430, "", "x = 1; int x;", "undeclared"},
		{"function used before prototype", hdr430, "int f() { return g(); }\nint g() { return 1; }", "", "undeclared"},
		{"out of scope", hdr430, "", "{ int x = 1; } x = 2;", "undeclared"},
		{"redeclared local", hdr430, "", "int x; float x;", "redeclared"},
		{"param redeclared in body", hdr430, "void f(int a) { int a; }", "", "redeclared"},
		{"redeclared global", hdr430, "int g; float g;", "", "redeclared"},
		{"function defined twice", hdr430, "int f() { return 1; }\nint f() { return 2; }", "", "redeclared"},
		{"global named like function", hdr430, "int f() { return 1; }\nint f;", "", "redeclared"},
		{"block name reused as variable", hdr430, "layout(std430) buffer B { uint x; };\nint B;", "", "redeclared"},
		{"struct member unknown", hdr430, "struct S { int a; };", "S s = S(1); int b = s.zz;", "undeclared"},
		{"variable hides function", hdr430, "", "float fract = 1.0; float y = fract(2.5);", "type"},
		{"keyword as identifier", hdr430, "", "int sample = 1;", "keyword"},
		{"reserved word as identifier", hdr430, "", "int input = 1;", "keyword"},
		{"keyword as parameter", hdr430, "void f(int buffer) { }", "", "keyword"},
		{"keyword as function", hdr430, "void shared() { }", "", "keyword"},
		{"keyword as struct member", hdr430, "struct S { int flat; };", "", "keyword"},
		{"type keyword as identifier", hdr430, "", "int vec3 = 1;", "keyword"},
		{"opaque type keyword as identifier", hdr430, "", "int sampler2D = 1;", "keyword"},
		{"gl_ prefix", hdr430, "", "int gl_x = 1;", "reserved"},
		{"double underscore", hdr430, "", "int a__b = 1;", "reserved"},
		{"double underscore at start", hdr430, "void __f() { }", "", "reserved"},
		{"es reserved word", hdr310, "", "int double = 1;", "keyword"},
		// types
		{"float to int assignment", hdr430, "", "int x = 1.0;", "type"},
		{"uint to int assignment", hdr430, "", "int x = 1u;", "type"},
		{"bool to int", hdr430, "", "int x = true;", "type"},
		{"vector size mismatch", hdr430, "", "vec3 v = vec2(1.0);", "type"},
		{"vector plus vector of other size", hdr430, "", "vec3 v = vec3(1.0) + vec2(1.0);", "type"},
		{"modulus on floats", hdr430, "", "float f = 1.0 % 2.0;", "type"},
		{"relational on vectors", hdr430, "", "bool b = vec2(1.0) < vec2(2.0);", "type"},
		{"logical and on ints", hdr430, "", "bool b = 1 && 2;", "type"},
		{"logical not on int", hdr430, "", "bool b = !1;", "type"},
		{"logical and on bvec", hdr430, "", "bvec2 b = bvec2(true) && bvec2(false);", "type"},
		{"bitwise on float", hdr430, "", "float f = 1.0 & 2.0;", "type"},
		{"shift scalar by vector", hdr430, "", "int i = 1 << ivec2(1);", "type"},
		{"if on int", hdr430, "", "if (1) { }", "type"},
		{"ternary with vector condition", hdr430, "", "vec2 v = bvec2(true) ? vec2(1.0) : vec2(2.0);", "type"},
		{"ternary mismatched arms", hdr430, "", "float f = true ? 1.0 : vec2(1.0);", "type"},
		{"mat times vec mismatch", hdr430, "", "vec3 v = mat2x3(1.0) * vec3(1.0);", "type"},
		{"vec times mat mismatch", hdr430, "", "vec2 v = vec2(1.0) * mat2x3(1.0);", "type"},
		{"mat times mat mismatch", hdr430, "", "mat2 m = mat2x3(1.0) * mat2x3(1.0);", "type"},
		{"mat plus different mat", hdr430, "", "mat2 m = mat2(1.0) + mat3(1.0);", "type"},
		{"transpose result type", hdr430, "", "mat2x3 m = transpose(mat2x3(1.0));", "type"},
		{"uint plus matrix", hdr430, "", "uint u = 1u + mat3x3(1.0);", "type"},
		{"compound assignment narrowing", hdr430, "", "int i = 1; i += 1.0;", "type"},
		{"compound assignment float*=vec", hdr430, "", "float f = 1.0; f *= vec2(1.0);", "type"},
		{"equality of different structs", hdr430, "struct A { int a; }; struct B { int a; };", "bool b = A(1) == B(1);", "type"},
		{"index with float", hdr430, "", "int a[2] = int[2](1, 2); int b = a[1.0];", "type"},
		{"index a scalar", hdr430, "", "int a = 1; int b = a[0];", "type"},
		{"constant index out of range", hdr430, "", "int a[2] = int[2](1, 2); int b = a[2];", "index"},
		{"negative constant index", hdr430, "", "vec3 v = vec3(1.0); float f = v[-1];", "index"},
		{"swizzle out of range", hdr430, "", "vec2 v = vec2(1.0); float f = v.z;", "type"},
		{"swizzle mixing sets", hdr430, "", "vec4 v = vec4(1.0); vec2 f = v.xg;", "type"},
		{"swizzle too long", hdr430, "", "vec4 v = vec4(1.0); v.xyzwx;", "type"},
		{"swizzle on a struct", hdr430, "struct S { int a; };", "S s = S(1); int x = s.x;", "undeclared"},
		{"length with argument", hdr430, "", "int a[2] = int[2](1, 2); int n = a.length(1);", "type"},
		{"length on a scalar", hdr430, "", "int a = 1; int n = a.length();", "type"},
		{"unknown method", hdr430, "", "int a[2] = int[2](1, 2); int n = a.size();", "undeclared"},
		{"void variable", hdr430, "", "void v;", "type"},
		{"void as value", hdr430, "void f() { }", "int x = f();", "type"},
		{"return value from void", hdr430, "void f() { return 1; }", "", "type"},
		{"missing return value", hdr430, "int f() { return; }", "", "type"},
		{"return wrong type", hdr430, "int f() { return 1.5; }", "", "type"},
		{"array size not constant", hdr430, "", "int n = 2; int a[n];", "const"},
		{"array size zero", hdr430, "", "int a[0];", "type"},
		{"array size float", hdr430, "", "int a[2.0];", "type"},
		{"unsized local array", hdr430, "", "int a[];", "type"},
		{"global initializer not constant", hdr430, "int g = 1;\nint h = g + 1;", "", "const"},
		{"const without initializer", hdr430, "", "const int c;", "syntax"},
		{"case label not constant", hdr430, "", "int x = 1; switch (x) { case x: break; }", "const"},
		{"duplicate case label", hdr430, "", "switch (1) { case 1: break; case 1: break; }", "syntax"},
		{"duplicate default", hdr430, "", "switch (1) { default: break; default: break; }", "syntax"},
		{"statement before first case", hdr430, "", "switch (1) { int x = 1; case 1: break; }", "syntax"},
		{"switch ends with a label", hdr430, "", "switch (1) { case 1: break; default: }", "syntax"},
		{"switch on float", hdr430, "", "switch (1.0) { default: break; }", "type"},
		{"break outside loop", hdr430, "", "break;", "syntax"},
		{"continue outside loop", hdr430, "", "switch (1) { default: continue; }", "syntax"},
		{"discard in compute shader", hdr430, "", "discard;", "syntax"},
		{"recursion", hdr430, "int f(int a);\nint g(int a) { return f(a); }\nint f(int a) { return g(a); }", "", "recursion"},
		{"main with parameters", hdr430 + "void main(int a) { }\n", "", "", ""},
		// l-values
		{"assign to constant", hdr430, "const int c = 1;", "c = 2;", "lvalue"},
		{"assign to expression", hdr430, "", "int a = 1; (a + 1) = 2;", "lvalue"},
		{"assign to literal", hdr430, "", "1 = 2;", "lvalue"},
		{"assign to repeated swizzle", hdr430, "", "vec2 v; v.xx = vec2(1.0);", "lvalue"},
		{"assign to builtin input", hdr430, "", "gl_LocalInvocationIndex = 1u;", "lvalue"},
		{"assign to uniform block member", hdr430, "layout(std140) uniform U { int u; };", "u = 1;", "lvalue"},
		{"assign to readonly buffer member", hdr430, "layout(std430) readonly buffer B { int u; };", "u = 1;", "lvalue"},
		{"assign to const parameter", hdr430, "void f(const int a) { a = 1; }", "", "lvalue"},
		{"increment of constant", hdr430, "const int c = 1;", "c++;", "lvalue"},
		{"out argument not an lvalue", hdr430, "void f(out int a) { a = 1; }", "f(1);", "lvalue"},
		{"inout argument const", hdr430, "const int c = 1;\nvoid f(inout int a) { a = 1; }", "f(c);", "lvalue"},
		{"assign to function result", hdr430, "int f() { return 1; }", "f() = 2;", "lvalue"},
		// calls and constructors
		{"wrong argument count", hdr430, "int f(int a) { return a; }", "int x = f(1, 2);", "no-overload"},
		{"no matching overload", hdr430, "int f(int a) { return a; }", "int x = f(vec2(1.0));", "no-overload"},
		{"no narrowing in calls", hdr430, "int f(int a) { return a; }", "int x = f(1.0);", "no-overload"},
		{"ambiguous overload", hdr430, "int f(float a, uint b) { return 1; }\nint f(uint a, float b) { return 2; }", "int x = f(1, 1);", "no-overload"},
		{"builtin wrong types", hdr430, "", "float f = sin(true);", "no-overload"},
		{"builtin wrong count", hdr430, "", "float f = clamp(1.0, 2.0);", "no-overload"},
		{"bitCount of float", hdr430, "", "int n = bitCount(1.0);", "no-overload"},
		{"dot of different sizes", hdr430, "", "float f = dot(vec2(1.0), vec3(1.0));", "no-overload"},
		{"integer dot", hdr430, "", "int d = dot(ivec2(1), ivec2(2));", "type"},
		{"integer mix needs 4.50", hdr430, "", "ivec2 v = mix(ivec2(1), ivec2(2), bvec2(true));", "type"},
		{"fma needs ES 3.20", hdr310, "", "float f = fma(1.0, 2.0, 3.0);", "version"},
		{"es mixed min", hdr310, "", "uint u = min(1u, 2);", "no-overload"},
		{"vector constructor too few", hdr430, "", "vec3 v = vec3(1.0, 2.0);", "type"},
		{"vector constructor unused argument", hdr430, "", "vec2 v = vec2(1.0, 2.0, 3.0);", "type"},
		{"vector constructor unused vector", hdr430, "", "uvec3 v = uvec3(ivec4(1), ivec4(1), ivec4(1));", "type"},
		{"matrix constructor too few", hdr430, "", "mat2 m = mat2(1.0, 2.0, 3.0);", "type"},
		{"matrix constructor matrix plus scalar", hdr430, "", "mat3 m = mat3(mat2(1.0), 1.0);", "type"},
		{"scalar constructor two arguments", hdr430, "", "float f = float(1.0, 2.0);", "type"},
		{"scalar constructor from struct", hdr430, "struct S { int a; };", "float f = float(S(1));", "type"},
		{"struct constructor count", hdr430, "struct S { int a; float b; };", "S s = S(1);", "type"},
		{"struct constructor member type", hdr430, "struct S { int a; float b; };", "S s = S(1.0, 1.0);", "type"},
		{"struct constructor no conversion in ES", hdr310, "struct S { float b; };", "S s = S(1);", "type"},
		{"array constructor count", hdr430, "", "int a[3] = int[3](1, 2);", "type"},
		{"array constructor element type", hdr430, "", "int a[2] = int[2](1, 2.0);", "type"},
		{"array initialiser size mismatch", hdr430, "", "int a[3] = int[2](1, 2);", "type"},
		// declarations
		{"std430 on uniform block", hdr430, "layout(std430) uniform U { int u; };", "", "type"},
		{"unsized member not last", hdr430, "layout(std430) buffer B { int a[]; int b; };", "", "type"},
		{"initializer on block member", hdr430, "layout(std430) buffer B { int a = 1; };", "", "syntax"},
		{"shared with initializer", hdr430, "shared int s = 1;", "", "syntax"},
		{"local with storage qualifier", hdr430, "", "shared int s;", "syntax"},
		{"buffer variable without block", hdr430, "buffer int b;", "", "syntax"},
		{"struct with no members", hdr430, "struct S { };", "", "syntax"},
		{"nested struct definition", hdr430, "struct S { struct T { int a; } t; };", "", "syntax"},
		{"embedded initializer", hdr430, "struct S { int a = 1; };", "", "syntax"},
		{"es function overloading builtin", hdr310, "float sin(float x) { return x; }", "", "redeclared"},
		{"duplicate parameter qualifiers", hdr430, "void f(in out int a) { }", "", "syntax"},
		{"brace initializer in ES", hdr310, "", "int a[2] = { 1, 2 };", "version"},
	}
	for _, c := range cases {
		src := wrapMain(c.hdr, c.decls, c.body)
		if strings.Contains(c.hdr, "void main") {
			src = c.hdr
		}
		code, err := parseErr(src)
		if c.code == "" {
			if code == "" || code == "unsupported" {
				t.Errorf("%s: accepted, want an InvalidError", c.name)
			}
			continue
		}
		if code != c.code {
			t.Errorf("%s: got code %q (%v), want %q", c.name, code, err, c.code)
		}
	}
}

func TestValidPrograms(t *testing.T) {
	cases := []struct{ name, hdr, decls, body string }{
		{"empty", hdr430, "", ""},
		{"comments", hdr430, "/* block\n comment */ // line\n", "int x = 1; // trailing\n /* inline */ x++;"},
		{"user function may overload builtin on desktop", hdr430, "float sin(float x, float y) { return x; }", "float s = sin(1.0) + sin(1.0, 2.0);"},
		{"local hides builtin function", hdr430, "", "float other; float fract = modf(1.5, other); float z = fract + 1.0;"},
		{"local hides global and struct member names are free", hdr430, "struct S { int main; int x; }; int x;", "float x = 1.0; S s = S(1, 2); s.main = 3;"},
		{"prototype then definition", hdr430, "int f(int a);\nint f(int a) { return a; }", "int x = f(1);"},
		{"array forms", hdr430, "", "int a[2]; int[2] b; int[2] c[3]; int d[3][2]; c = d; a = b; int e[] = int[](1, 2, 3); a[0] = e.length();"},
		{"multiple declarators", hdr430, "", "int a = 1, b[2], c = a + 1; b[0] = c;"},
		{"qualifiers on locals and params", hdr430, "void f(const in highp float a, out mediump int b, inout lowp vec2 c) { b = 1; }", "highp float x = 1.0; const int k = 2; precise float p = 1.0; int o; vec2 v = vec2(0.0); f(x, o, v);"},
		{"ES explicit everything", hdr310, "", "uint u = 1u + uint(1); float f = float(u) * 2.0; int i = int(f) << 1u;"},
		{"ES 320 fma", "#version 320 es\nprecision highp float;\nlayout(local_size_x = 1) in;\n", "", "float f = fma(1.0, 2.0, 3.0);"},
		{"450 integer mix", "#version 450 core\nlayout(local_size_x = 1) in;\n", "", "ivec2 v = mix(ivec2(1), ivec2(2), bvec2(true)); uint u = mix(1u, 2u, false); bool b = mix(true, false, true);"},
		{"memory qualifiers", hdr430, "layout(std430, binding = 0) coherent restrict buffer A { uint a; };\nlayout(std430, binding = 1) writeonly buffer B { uint b[]; } bb;\nlayout(std430, binding = 2) buffer C { readonly uint c; coherent uint d[]; };", "a = c; bb.b[0] = 1u; d[0] = 2u;"},
		{"empty statements and nested blocks", hdr430, "", ";;{ ; { } } if (true) ; else ; for (;;) { break; } while (false) ; do ; while (false);"},
		{"switch forms", hdr430, "", "int x = 1; switch (x) { case 1: case 2: { break; } default: x = 2; } switch (x) { default: break; } switch (x) { }"},
		{"default layout declaration", hdr430, "layout(std430) buffer;\nlayout(std140, row_major) uniform;\nbuffer B { float f[]; };\nuniform U { mat2 m; };", "f[0] = m[0][0];"},
		{"const expressions", hdr430, "const int N = 2 * 3 + 1;\nconst vec2 V = vec2(1.0, 2.0) * 2.0;\nconst float L = length(vec2(3.0, 4.0));\nint arr[N];\nconst int M = arr.length() + int(V.y);\nfloat g[M] ;", "int a[N - 1]; int b[int(L)]; switch (1) { case N: break; case 1 + 1: break; default: break; }"},
		{"hex octal and exponent literals", hdr430, "", "int a = 0xFF + 017 + 0; uint b = 0XABu; float c = 1e3 + 1.E-2 + .5e+1 + 3.f;"},
		{"unsigned max literal without suffix", hdr430, "", "int a = 4294967295; int b = 2147483648;"},
		{"comparison chains and ternary lvalues", hdr430, "", "int a = 1, b = 2; bool c = a < b == b > a; int d = c ? a : b; d += c ? 1 : 2;"},
		{"vertex-like shader parses (not run)", "#version 330 core\n", "layout(location = 0) in vec3 pos;\nout vec4 color;\nuniform mat4 mvp;\nflat out int id;\ninvariant gl_Position;\n", ""},
	}
	for _, c := range cases {
		src := wrapMain(c.hdr, c.decls, c.body)
		if _, err := Parse(GLSL, src); err != nil {
			if c.name == "vertex-like shader parses (not run)" {
				continue // tolerated: see the report
			}
			t.Errorf("%s: %v\n%s", c.name, err, numbered(src))
		}
	}
}

func TestReflection(t *testing.T) {
	src := `#version 430 core
layout(local_size_x = 4, local_size_y = 2) in;
struct S { int a; vec2 b; };
const uint K = 3u;
shared float sh[4];
int priv = 1;
vec2 pz;
layout(std430, binding = 2) buffer Blk { S s; uint tail[]; } inst;
layout(std140) uniform U { vec4 u0; };
int helper(inout int p, const in float q, out S r) { int loc = p; { float inner = q; r = S(loc, vec2(inner)); } return loc; }
void main() { int a = priv; S t; helper(a, 1.0, t); barrier(); }
`
	p := mustParse(t, src)
	if p.LocalSize() != [3]uint32{4, 2, 1} {
		t.Errorf("local size %v", p.LocalSize())
	}
	gs := p.Globals()
	want := []GlobalInfo{{"K", "uint", "const", true}, {"sh", "float[4]", "shared", false}, {"priv", "int", "global", true}, {"pz", "vec2", "global", false}}
	if len(gs) != len(want) {
		t.Fatalf("globals %+v", gs)
	}
	for i := range want {
		if gs[i] != want[i] {
			t.Errorf("global %d = %+v, want %+v", i, gs[i], want[i])
		}
	}
	fs := p.Functions()
	if len(fs) != 2 || fs[0].Name != "helper" || fs[0].Ret != "int" || len(fs[0].Params) != 3 ||
		fs[0].Params[0] != (ParamInfo{"p", "int", "inout"}) || fs[0].Params[1] != (ParamInfo{"q", "float", "in"}) || fs[0].Params[2] != (ParamInfo{"r", "S", "out"}) ||
		fs[1].Name != "main" || !fs[1].UsesBarrier || fs[0].UsesBarrier {
		t.Errorf("functions %+v", fs)
	}
	type ik struct {
		name, kind string
		depth      int
	}
	have := map[ik]bool{}
	for _, id := range p.Identifiers() {
		have[ik{id.Name, id.Kind, id.Depth}] = true
	}
	for _, w := range []ik{
		{"S", "struct", 0}, {"a", "struct-member", 1}, {"K", "global", 0}, {"sh", "global", 0}, {"Blk", "block", 0}, {"inst", "block-instance", 0},
		{"s", "block-member", 1}, {"U", "block", 0}, {"u0", "block-member", 0}, {"helper", "function", 0}, {"p", "param", 1}, {"loc", "local", 1},
		{"inner", "local", 2}, {"main", "function", 0}, {"t", "local", 1},
	} {
		if !have[w] {
			t.Errorf("identifier %+v not reported; have %v", w, p.Identifiers())
		}
	}
	bs := p.Blocks()
	if bs[0].Members[1].ArrayLen != -1 || bs[0].Members[1].ArrayStride != 4 || bs[0].Members[1].Offset != 16 {
		t.Errorf("tail: %+v", bs[0].Members[1])
	}
}
