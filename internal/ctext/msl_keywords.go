package ctext

// Words that cannot be used as identifiers in Metal Shading Language text.
//
// The list is transcribed from the language definitions, not from naga's
// keyword table:
//
//   - ISO/IEC 14882:2014 (C++14) [lex.key] Table 4 "Keywords" and Table 5
//     "Alternative representations" (MSL is "a C++14-based specification",
//     Metal Shading Language Specification §1.4 / "Metal and C++14").
//   - Metal Shading Language Specification: the address-space attributes of
//     §4 "Address Spaces" (device, constant, thread, threadgroup,
//     threadgroup_imageblock, ray_data, object_data) and the function
//     qualifiers of §5.1 "Functions" (kernel, vertex, fragment ...) are
//     keywords of the language; `half` is a keyword naming the built-in
//     16-bit floating-point type (§2.1).
//
// Only words whose keyword status is certain are listed: type names that are
// ordinary typedefs of namespace metal (uint, float4, texture2d ...) can
// legally be shadowed and are NOT listed.

var mslCxxKeywords = words(`
alignas alignof asm auto bool break case catch char char16_t char32_t class
const constexpr const_cast continue decltype default delete do double
dynamic_cast else enum explicit export extern false float for friend goto if
inline int long mutable namespace new noexcept nullptr operator private
protected public register reinterpret_cast return short signed sizeof static
static_assert static_cast struct switch template this thread_local throw true
try typedef typeid typename union unsigned using virtual void volatile wchar_t
while
and and_eq bitand bitor compl not not_eq or or_eq xor xor_eq
`)

var mslMetalKeywords = words(`
device constant thread threadgroup threadgroup_imageblock ray_data object_data
kernel vertex fragment
half
`)

// mslIsKeyword reports whether w can never be declared as an identifier.
func mslIsKeyword(w string) bool { return mslCxxKeywords[w] || mslMetalKeywords[w] }
