package ctext

import (
	"encoding/binary"
	"math"
	"strings"
)

// Evaluation of the MSL nodes and the evaluator hooks of the dialect.
//
// Undefined / unspecified results (each produces poison with the cited rule):
//
//	signed + - * overflow, -INT_MIN   C++14 [expr]/4 (MSL is C++14 based, §1.4.1?; the MSL
//	                                  specification does not define wrap-around for signed types)
//	INT_MIN / -1, INT_MIN % -1        C++14 [expr.mul]/4
//	integer / 0, % 0                  MSL §3.1? "A divide by zero with integer types does not cause an
//	                                  exception but results in an unspecified value"
//	float -> integer out of range     C++14 [conv.fpint]/1
//	uninitialised objects             C++14 [dcl.init]/12
//
// Defined by MSL where C++ leaves it open: shifts take the shift amount modulo
// the bit width (MSL §3.1 operators: "E1 << E2 ... shifted by log2(N) least
// significant bits in E2"), >> of a negative value is arithmetic.

const (
	whyMSLOverflow = "signed integer overflow is undefined (C++14 [expr]/4; the MSL specification defines wrap-around for unsigned types only)"
	whyMSLDivZero  = "integer division or remainder by zero yields an unspecified value (MSL §3.1 / C++14 [expr.mul]/4)"
	whyMSLDivOvf   = "INT_MIN / -1 and INT_MIN % -1 overflow: undefined (C++14 [expr.mul]/4)"
	whyMSLF2I      = "floating-point to integer conversion of a NaN, infinite or out-of-range value is undefined (C++14 [conv.fpint]/1)"
	whyMSLUninit   = "read of an uninitialised object (indeterminate value, C++14 [dcl.init]/12)"
	whyMSLTG       = "read of threadgroup memory that was never written (indeterminate value, C++14 [dcl.init]/12; MSL §4.4)"
)

// mslMapReason rewrites the citations of the shared core for MSL.
func mslMapReason(reason string) string {
	switch reason {
	case whyUninit:
		return whyMSLUninit
	case whyOutParam:
		return whyMSLUninit
	}
	if strings.HasPrefix(reason, "function ") && strings.Contains(reason, "ended without returning a value") {
		return reason + " (C++14 [stmt.return]/2)"
	}
	return reason
}

// roundToHalf rounds a binary32 value to the nearest binary16 value (ties to
// even) and returns its binary32 image.
func roundToHalf(f float32) float32 {
	h, _ := f32ToF16(f)
	return f16ToF32(h)
}

func mslIsHalf(t *Type) bool { return t == tHalf }

// fixHalf rounds the cells of a value whose scalar type is half.
func fixHalf(v Value) Value {
	if sc := v.T.Scalar(); sc == tHalf {
		for i := range v.C {
			if v.C[i].P == 0 {
				v.C[i].B = math.Float32bits(roundToHalf(v.C[i].F()))
			}
		}
	}
	return v
}

// ---------------------------------------------------------------------------
// scalar conversions: C++14 [conv.integral], [conv.double], [conv.fpint],
// [conv.bool]; MSL §2.? conversions ("conversions from float to half round to
// nearest even" is the only rounding the specification names)
// ---------------------------------------------------------------------------

func (ev *evaluator) mslConvCell(c Cell, from, to *Type) Cell {
	if c.P != 0 || from == to {
		return c
	}
	switch {
	case to == tBool:
		if from.Kind == KFloat {
			return boolCell(c.F() != 0)
		}
		return boolCell(c.B != 0)
	case to.Kind == KInt || to.Kind == KUint:
		var u uint32
		switch from.Kind {
		case KBool, KInt, KUint:
			u = c.B
		case KFloat:
			f := c.F()
			if isNaN32(f) || isInf32(f) {
				return Cell{P: ev.poison(whyMSLF2I)}
			}
			tr := math.Trunc(float64(f))
			bits := leafSize(to) * 8
			if to.Kind == KInt {
				lo, hi := -math.Ldexp(1, bits-1), math.Ldexp(1, bits-1)-1
				if tr < lo || tr > hi {
					return Cell{P: ev.poison(whyMSLF2I)}
				}
				u = uint32(int32(tr))
			} else {
				if tr < 0 || tr > math.Ldexp(1, bits)-1 {
					return Cell{P: ev.poison(whyMSLF2I)}
				}
				u = uint32(tr)
			}
			return Cell{B: u}
		}
		// integral conversion: modulo 2^N ([conv.integral]/2; /3 is
		// implementation-defined for signed destinations: two's complement)
		switch leafSize(to) {
		case 1:
			if to.Kind == KInt {
				u = uint32(int32(int8(u)))
			} else {
				u &= 0xff
			}
		case 2:
			if to.Kind == KInt {
				u = uint32(int32(int16(u)))
			} else {
				u &= 0xffff
			}
		}
		return Cell{B: u}
	case to.Kind == KFloat:
		var f float64
		switch from.Kind {
		case KBool:
			f = float64(c.B & 1)
		case KInt:
			f = float64(c.I())
		case KUint:
			f = float64(c.U())
		case KFloat:
			f = float64(c.F())
		}
		if to == tHalf {
			// one rounding from the exact value to binary16
			r := roundToHalf(float32(f))
			if from.Kind != KFloat {
				r = roundF64ToHalf(f)
			} else if r != c.F() && !isNaN32(r) {
				ev.info("float-to-half.inexact")
			}
			return f32Cell(r)
		}
		return f32Cell(float32(f))
	}
	ev.trap("unsupported: conversion from %s to %s", mslTypeString(from), mslTypeString(to))
	return Cell{}
}

// roundF64ToHalf rounds an integer-valued float64 (|x| < 2^32) to binary16
// with a single rounding.
func roundF64ToHalf(f float64) float32 {
	// a 32-bit integer has at most 32 significant bits; binary32 keeps 24.
	// Round to odd in binary32 first would be needed for exactness only when
	// more than 24 bits are significant; binary16 keeps 11 bits, so a sticky
	// bit suffices.
	a := math.Abs(f)
	if a >= 65520 {
		return float32(math.Copysign(math.Inf(1), f))
	}
	// below 65520 the value has at most 16 significant bits: exact in binary32
	return roundToHalf(float32(f))
}

func (ev *evaluator) mslConvertValue(v Value, to *Type) Value {
	if v.T == to {
		return v
	}
	from := v.T
	switch {
	case mslArith(from) && mslArith(to):
		r := ev.mk(to)
		r.C[0] = ev.mslConvCell(v.C[0], from, to)
		return r
	case mslArith(from) && to.Kind == KVec:
		r := ev.mk(to)
		c := ev.mslConvCell(v.C[0], from, to.Elem)
		for i := range r.C {
			r.C[i] = c
		}
		return r
	case (from.Kind == KVec && to.Kind == KVec && from.N == to.N) || (from.Kind == KMat && to.Kind == KMat && from.Cols == to.Cols && from.Rows == to.Rows):
		r := ev.mk(to)
		for i := range r.C {
			r.C[i] = ev.mslConvCell(v.C[i], from.Elem, to.Elem)
		}
		return r
	}
	ev.trap("unsupported: conversion from %s to %s", mslTypeString(from), mslTypeString(to))
	return Value{}
}

func (x *mslConv) evalCustom(ev *evaluator) Value {
	return ev.mslConvertValue(ev.eval(x.X), x.T)
}

func (x *mslZero) evalCustom(ev *evaluator) Value { return ev.mk(x.T) }

func (x *mslEnum) evalCustom(ev *evaluator) Value {
	return Value{T: x.T, C: nil}
}

// ---------------------------------------------------------------------------
// casts
// ---------------------------------------------------------------------------

func (x *mslCast) evalCustom(ev *evaluator) Value {
	t := x.T
	switch x.how {
	case castZero:
		for _, a := range x.Args {
			ev.eval(a)
		}
		return ev.mk(t)
	case castCopy:
		return ev.eval(x.Args[0])
	case castConvert:
		return ev.mslConvertValue(ev.eval(x.Args[0]), t)
	case castDiag:
		a := ev.eval(x.Args[0])
		c := ev.mslConvCell(a.C[0], a.T, t.Elem)
		r := ev.mk(t)
		zero := f32Cell(0)
		for col := 0; col < t.Cols; col++ {
			for row := 0; row < t.Rows; row++ {
				if col == row {
					r.C[col*t.Rows+row] = c
				} else {
					r.C[col*t.Rows+row] = zero
				}
			}
		}
		return r
	case castCompose:
		r := ev.mk(t)
		elem := t.Elem
		k := 0
		for _, ax := range x.Args {
			a := ev.eval(ax)
			ae := a.T.Scalar()
			for _, c := range a.C {
				r.C[k] = ev.mslConvCell(c, ae, elem)
				k++
			}
		}
		return r
	}
	ev.trap("unsupported: cast")
	return Value{}
}

// ---------------------------------------------------------------------------
// as_type
// ---------------------------------------------------------------------------

func mslEncodeLeaf(c Cell, t *Type, out []byte) {
	switch mslScalarSize(t) {
	case 1:
		out[0] = byte(c.B)
	case 2:
		u := uint16(c.B)
		if t == tHalf {
			u, _ = f32ToF16(c.F())
		}
		binary.LittleEndian.PutUint16(out, u)
	default:
		binary.LittleEndian.PutUint32(out, c.B)
	}
}

func mslDecodeLeaf(in []byte, t *Type) Cell {
	switch mslScalarSize(t) {
	case 1:
		switch {
		case t.Kind == KBool:
			return Cell{B: uint32(in[0])}
		case t.Kind == KInt:
			return Cell{B: uint32(int32(int8(in[0])))}
		}
		return Cell{B: uint32(in[0])}
	case 2:
		u := binary.LittleEndian.Uint16(in)
		switch {
		case t == tHalf:
			return f32Cell(f16ToF32(u))
		case t.Kind == KInt:
			return Cell{B: uint32(int32(int16(u)))}
		}
		return Cell{B: uint32(u)}
	}
	return Cell{B: binary.LittleEndian.Uint32(in)}
}

func (x *mslAsType) evalCustom(ev *evaluator) Value {
	v := ev.eval(x.X)
	r := ev.mk(x.T)
	var p uint16
	for _, c := range v.C {
		if c.P != 0 {
			p = c.P
		}
	}
	if p != 0 {
		for i := range r.C {
			r.C[i].P = p
		}
		return r
	}
	var buf [16]byte
	se := v.T.Scalar()
	ss := mslScalarSize(se)
	for i, c := range v.C {
		mslEncodeLeaf(c, se, buf[i*ss:])
	}
	te := x.T.Scalar()
	ts := mslScalarSize(te)
	for i := range r.C {
		r.C[i] = mslDecodeLeaf(buf[i*ts:], te)
	}
	return r
}

// ---------------------------------------------------------------------------
// braces, address-of, template calls
// ---------------------------------------------------------------------------

func (b *mslBrace) evalCustom(ev *evaluator) Value {
	if b.T == tInitList || b.T == nil {
		ev.trap("unsupported: braced initializer list without a type")
	}
	r := ev.mk(b.T)
	if b.T.nsc > 64 {
		// mk hands out zeroed cells only below the arena limit
		for i := range r.C {
			r.C[i] = Cell{}
		}
	}
	for _, it := range b.items {
		v := ev.eval(it.e)
		copy(r.C[it.off:], v.C)
	}
	return r
}

func (x *mslAddrOf) evalCustom(ev *evaluator) Value {
	ev.trap("unsupported: pointer value outside a call argument")
	return Value{}
}

func (x *mslAddrOf) refCustom(ev *evaluator) Ref { return ev.evalRef(x.X) }

func (x *mslDeref) evalCustom(ev *evaluator) Value {
	ev.trap("unsupported: pointer dereference")
	return Value{}
}

func (x *mslTemplateCall) evalCustom(ev *evaluator) Value { return ev.callUser(x.call) }

// ---------------------------------------------------------------------------
// operators
// ---------------------------------------------------------------------------

func (ev *evaluator) mslUnary(op string, v Value) Value {
	t := v.T
	ut := mslUnpack(t)
	// scalar promotion
	if mslArith(t) {
		switch op {
		case "!":
			c := v.C[0]
			if c.P != 0 {
				return Value{T: tBool, C: []Cell{{P: c.P}}}
			}
			if t.Kind == KFloat {
				return boolValue(c.F() == 0)
			}
			return boolValue(c.B == 0)
		}
		pt := mslPromote(t)
		if pt != t {
			v = ev.mslConvertValue(v, pt)
			t = pt
		}
	}
	r := ev.mk(mslUnpack(t))
	_ = ut
	base := t.Scalar()
	for i, c := range v.C {
		if c.P != 0 {
			r.C[i].P = c.P
			continue
		}
		switch op {
		case "+":
			r.C[i] = c
		case "-":
			switch {
			case base.Kind == KFloat:
				r.C[i] = Cell{B: c.B ^ 0x80000000}
			case base.Kind == KInt:
				if c.I() == math.MinInt32 {
					ev.info("int.overflow")
					r.C[i] = Cell{P: ev.poison(whyMSLOverflow)}
				} else {
					r.C[i] = i32Cell(-c.I())
				}
			default:
				r.C[i] = Cell{B: -c.B}
			}
		case "!":
			r.C[i] = boolCell(!c.Bool())
		case "~":
			r.C[i] = Cell{B: ^c.B}
		}
	}
	return r
}

// mslScalarBinary computes one component.  k is the element type of the
// (converted) left operand, rk of the right one.
func (ev *evaluator) mslScalarBinary(op string, k, rk *Type, a, b Cell) (Cell, string) {
	switch {
	case k.Kind == KFloat:
		x, y := a.F(), b.F()
		var f float32
		switch op {
		case "+":
			f = fadd(x, y)
		case "-":
			f = fsub(x, y)
		case "*":
			f = fmul(x, y)
		case "/":
			f = fdiv(x, y)
		case "<":
			return boolCell(x < y), ""
		case ">":
			return boolCell(x > y), ""
		case "<=":
			return boolCell(x <= y), ""
		case ">=":
			return boolCell(x >= y), ""
		case "==":
			return boolCell(x == y), ""
		case "!=":
			return boolCell(x != y), ""
		default:
			ev.trap("unsupported: operator %s on floating-point operands", op)
		}
		if k == tHalf {
			f = roundToHalf(f)
		}
		return f32Cell(f), ""
	case k.Kind == KInt:
		x, y := a.I(), b.I()
		switch op {
		case "+", "-", "*":
			var w int64
			switch op {
			case "+":
				w = int64(x) + int64(y)
			case "-":
				w = int64(x) - int64(y)
			default:
				w = int64(x) * int64(y)
			}
			if w < math.MinInt32 || w > math.MaxInt32 {
				ev.info("int.overflow")
				return Cell{}, whyMSLOverflow
			}
			return i32Cell(int32(w)), ""
		case "/", "%":
			if y == 0 {
				return Cell{}, whyMSLDivZero
			}
			if x == math.MinInt32 && y == -1 {
				return Cell{}, whyMSLDivOvf
			}
			if op == "/" {
				return i32Cell(x / y), "" // truncation toward zero, C++14 [expr.mul]/4
			}
			return i32Cell(x % y), "" // (a/b)*b + a%b == a
		case "&":
			return i32Cell(x & y), ""
		case "|":
			return i32Cell(x | y), ""
		case "^":
			return i32Cell(x ^ y), ""
		case "<<":
			return Cell{B: a.B << (b.B & 31)}, ""
		case ">>":
			return i32Cell(x >> (b.B & 31)), ""
		case "<":
			return boolCell(x < y), ""
		case ">":
			return boolCell(x > y), ""
		case "<=":
			return boolCell(x <= y), ""
		case ">=":
			return boolCell(x >= y), ""
		case "==":
			return boolCell(x == y), ""
		case "!=":
			return boolCell(x != y), ""
		}
	case k.Kind == KUint:
		x, y := a.U(), b.U()
		switch op {
		case "+":
			return u32Cell(x + y), ""
		case "-":
			return u32Cell(x - y), ""
		case "*":
			return u32Cell(x * y), ""
		case "/":
			if y == 0 {
				return Cell{}, whyMSLDivZero
			}
			return u32Cell(x / y), ""
		case "%":
			if y == 0 {
				return Cell{}, whyMSLDivZero
			}
			return u32Cell(x % y), ""
		case "&":
			return u32Cell(x & y), ""
		case "|":
			return u32Cell(x | y), ""
		case "^":
			return u32Cell(x ^ y), ""
		case "<<":
			return u32Cell(x << (y & 31)), ""
		case ">>":
			return u32Cell(x >> (y & 31)), ""
		case "<":
			return boolCell(x < y), ""
		case ">":
			return boolCell(x > y), ""
		case "<=":
			return boolCell(x <= y), ""
		case ">=":
			return boolCell(x >= y), ""
		case "==":
			return boolCell(x == y), ""
		case "!=":
			return boolCell(x != y), ""
		}
	case k.Kind == KBool:
		x, y := a.Bool(), b.Bool()
		switch op {
		case "&", "&&":
			return boolCell(x && y), ""
		case "|", "||":
			return boolCell(x || y), ""
		case "^", "!=":
			return boolCell(x != y), ""
		case "==":
			return boolCell(x == y), ""
		}
	}
	ev.trap("unsupported: operator %s on %s", op, mslTypeString(k))
	return Cell{}, ""
}

func (ev *evaluator) mslDot(elem *Type, n int, at func(i int) (Cell, Cell)) Cell {
	var acc float32
	for i := 0; i < n; i++ {
		a, b := at(i)
		if p := firstPoison(a, b); p != 0 {
			return Cell{P: p}
		}
		m := fmul(a.F(), b.F())
		if elem == tHalf {
			m = roundToHalf(m)
		}
		if i == 0 {
			acc = m
		} else {
			acc = fadd(acc, m)
			if elem == tHalf {
				acc = roundToHalf(acc)
			}
		}
	}
	return f32Cell(acc)
}

// mslBinaryValues evaluates a binary operator on converted operands (the
// hook of bmCustom).
func (ev *evaluator) mslBinaryValues(op string, l, r Value, rt *Type, pos Pos) Value {
	lt, rtt := l.T, r.T
	if lt == tMemFlags {
		return Value{T: tMemFlags}
	}
	if op == "*" && (lt.Kind == KMat || rtt.Kind == KMat) && !(lt.IsScalar() || rtt.IsScalar()) {
		res := ev.mk(rt)
		switch {
		case lt.Kind == KMat && rtt.Kind == KVec:
			m := lt
			for row := 0; row < m.Rows; row++ {
				row := row
				res.C[row] = ev.mslDot(m.Elem, m.Cols, func(c int) (Cell, Cell) { return l.C[c*m.Rows+row], r.C[c] })
			}
		case lt.Kind == KVec && rtt.Kind == KMat:
			m := rtt
			for col := 0; col < m.Cols; col++ {
				col := col
				res.C[col] = ev.mslDot(m.Elem, m.Rows, func(k int) (Cell, Cell) { return l.C[k], r.C[col*m.Rows+k] })
			}
		default:
			lm, rm := lt, rtt
			for col := 0; col < rm.Cols; col++ {
				for row := 0; row < lm.Rows; row++ {
					col, row := col, row
					res.C[col*lm.Rows+row] = ev.mslDot(lm.Elem, lm.Cols, func(k int) (Cell, Cell) {
						return l.C[k*lm.Rows+row], r.C[col*rm.Rows+k]
					})
				}
			}
		}
		return res
	}
	res := ev.mk(rt)
	k, rk := lt.Scalar(), rtt.Scalar()
	if lt.IsScalar() && !rtt.IsScalar() {
		// scalar * matrix: the element type rules
		k = rk
	}
	for i := range res.C {
		a := l.C[0]
		if len(l.C) > 1 {
			a = l.C[i]
		}
		b := r.C[0]
		if len(r.C) > 1 {
			b = r.C[i]
		}
		if p := firstPoison(a, b); p != 0 {
			res.C[i].P = p
			continue
		}
		c, why := ev.mslScalarBinary(op, k, rk, a, b)
		if why != "" {
			c = Cell{P: ev.poison(why)}
		}
		res.C[i] = c
	}
	return res
}

// ---------------------------------------------------------------------------
// buffer leaves
// ---------------------------------------------------------------------------

func (ev *evaluator) mslLoadLeaf(b *boundBuf, off int, t *Type) Cell {
	if !b.bound {
		ev.trap("unsupported: access to argument %s of %s which has no buffer bound", b.blk.Name, b.blk.Instance)
	}
	n := mslScalarSize(t)
	if off < 0 || off+n > len(b.data) {
		ev.trap("load of %s at byte offset %d outside the %d bytes bound to argument %s", mslTypeString(t), off, len(b.data), b.blk.Name)
	}
	ev.sh.accesses++
	c := mslDecodeLeaf(b.data[off:], t)
	if t.Kind == KBool && c.B > 1 {
		return Cell{P: ev.poison("a bool object holding a value other than 0 or 1 (undefined, C++14 [basic.fundamental]/6 footnote)")}
	}
	return c
}

func (ev *evaluator) mslStoreLeaf(b *boundBuf, off int, t *Type, c Cell, pos Pos) {
	if !b.bound {
		ev.trap("unsupported: access to argument %s of %s which has no buffer bound", b.blk.Name, b.blk.Instance)
	}
	if b.blk.Quals.Readonly {
		ev.trap("store through a reference to const / constant-space argument %s", b.blk.Name)
	}
	n := mslScalarSize(t)
	if off < 0 || off+n > len(b.data) {
		ev.trap("store of %s at byte offset %d outside the %d bytes bound to argument %s", mslTypeString(t), off, len(b.data), b.blk.Name)
	}
	ev.sh.accesses++
	if c.P != 0 && n > 1 {
		// copying an indeterminate narrow character (explicit padding members
		// `char _padN[k]`) is not an error: C++14 [dcl.init]/12
		ev.observe(c.P, "undefined value stored to argument "+b.blk.Name, pos)
	}
	mslEncodeLeaf(c, t, b.data[off:])
}
