package ctext

import (
	"fmt"
	"strings"
)

// ---------------------------------------------------------------------------
// MSL type names (Metal Shading Language Specification §2 "Data Types").
//
// Scalars: bool, char/int8_t, uchar/uint8_t, short/int16_t, ushort/uint16_t,
// int/int32_t, uint/uint32_t, long, ulong, half, float (§2.1; "Metal does not
// support the double, long long, unsigned long long, and long double data
// types").  Vectors <T>2..4, packed vectors packed_<T>2..4 (§2.2, §2.2.3),
// matrices half/float CxR (§2.3), atomic_int / atomic_uint (§2.6).
//
// The names live in namespace metal; the vector / matrix typedefs are also
// visible unqualified in real MSL (naga itself relies on that for `uint2`,
// `half2`, `float2`), so both spellings are accepted everywhere: rejecting an
// unqualified name would risk a false alarm.
// ---------------------------------------------------------------------------

var (
	tHalf       *Type
	tChar       *Type
	tUchar      *Type
	tShort      *Type
	tUshort     *Type
	tAtomicInt  *Type
	tAtomicUint *Type

	// mslPacked maps a scalar type to its packed vector types.
	mslPacked = map[*Type]*[5]*Type{}
	// mslUnpacked maps a packed vector type to the ordinary vector type.
	mslUnpacked = map[*Type]*Type{}

	mslTypeNames map[string]*Type

	// tInitList is the type of a brace-enclosed initializer list that has not
	// met its target type yet ( x = {}; return {a, b}; ).
	tInitList = &Type{Kind: KOpaque, Name: "<brace-enclosed initializer list>"}
	// tMemFlags / tMemOrder type the enumerators metal::mem_flags::* and
	// metal::memory_order_*.
	tMemFlags = &Type{Kind: KOpaque, Name: "metal::mem_flags"}
	tMemOrder = &Type{Kind: KOpaque, Name: "metal::memory_order"}
)

func newVariantScalar(name string, kind Kind, bits int, withMat bool) *Type {
	v := &scalarVariant{name: name, bits: bits}
	s := &Type{Kind: kind, nsc: 1, Var: v}
	v.scalar = s
	for n := 2; n <= 4; n++ {
		v.vec[n] = &Type{Kind: KVec, Elem: s, N: n, nsc: n}
	}
	if withMat {
		for c := 2; c <= 4; c++ {
			for r := 2; r <= 4; r++ {
				v.mat[c][r] = &Type{Kind: KMat, Elem: s, Cols: c, Rows: r, nsc: c * r}
			}
		}
	}
	return s
}

func init() {
	tHalf = newVariantScalar("half", KFloat, 16, true)
	tChar = newVariantScalar("char", KInt, 8, false)
	tUchar = newVariantScalar("uchar", KUint, 8, false)
	tShort = newVariantScalar("short", KInt, 16, false)
	tUshort = newVariantScalar("ushort", KUint, 16, false)
	tAtomicInt = newVariantScalar("atomic_int", KInt, 32, false)
	tAtomicInt.Var.atomic = true
	tAtomicUint = newVariantScalar("atomic_uint", KUint, 32, false)
	tAtomicUint.Var.atomic = true

	m := map[string]*Type{"void": tVoid, "bool": tBool, "int": tInt, "uint": tUint, "float": tFloat,
		"half": tHalf, "char": tChar, "uchar": tUchar, "short": tShort, "ushort": tUshort,
		"int8_t": tChar, "uint8_t": tUchar, "int16_t": tShort, "uint16_t": tUshort, "int32_t": tInt, "uint32_t": tUint,
		"atomic_int": tAtomicInt, "atomic_uint": tAtomicUint}
	for _, s := range []*Type{tBool, tInt, tUint, tFloat, tHalf, tChar, tUchar, tShort, tUshort} {
		name := s.String()
		var pk [5]*Type
		for n := 2; n <= 4; n++ {
			m[fmt.Sprintf("%s%d", name, n)] = vecOf(s, n)
			if s != tBool {
				pt := &Type{Kind: KVec, Elem: s, N: n, nsc: n, Packed: true}
				pk[n] = pt
				mslUnpacked[pt] = vecOf(s, n)
				m[fmt.Sprintf("packed_%s%d", name, n)] = pt
			}
		}
		if s != tBool {
			p := pk
			mslPacked[s] = &p
		}
	}
	for _, s := range []*Type{tFloat, tHalf} {
		for c := 2; c <= 4; c++ {
			for r := 2; r <= 4; r++ {
				m[fmt.Sprintf("%s%dx%d", s.String(), c, r)] = matOf(s, c, r)
			}
		}
	}
	mslTypeNames = m
}

// mslUnmodelledTypeName reports names of namespace metal that are valid MSL
// types which this front end does not model.
func mslUnmodelledTypeName(name string) bool {
	switch name {
	case "long", "ulong", "int64_t", "uint64_t", "size_t", "ptrdiff_t", "intptr_t", "uintptr_t",
		"atomic_bool", "atomic_float", "atomic_long", "atomic_ulong", "atomic",
		"sampler", "array", "array_ref", "vec", "matrix", "bfloat":
		return true
	}
	for _, p := range []string{"long", "ulong", "packed_long", "packed_ulong", "bfloat", "packed_bfloat"} {
		if len(name) == len(p)+1 && strings.HasPrefix(name, p) && name[len(p)] >= '2' && name[len(p)] <= '4' {
			return true
		}
	}
	for _, p := range []string{"texture", "depth", "imageblock", "acceleration_structure", "instance_acceleration_structure",
		"primitive_acceleration_structure", "intersection_", "visible_function_table", "command_buffer", "render_", "compute_", "mesh", "simdgroup_float", "simdgroup_half", "simdgroup_bfloat", "simdgroup_matrix"} {
		if strings.HasPrefix(name, p) {
			return true
		}
	}
	return false
}

// mslInvalidTypeName reports type names MSL explicitly does not have.
func mslInvalidTypeName(name string) bool {
	if name == "double" || name == "packed_double" {
		return true
	}
	for _, p := range []string{"double", "packed_double"} {
		rest := strings.TrimPrefix(name, p)
		if rest != name && len(rest) >= 1 && rest[0] >= '2' && rest[0] <= '4' {
			return true
		}
	}
	return false
}

// mslTypeString spells a type the MSL way.
func mslTypeString(t *Type) string {
	if t == nil {
		return "<nil>"
	}
	switch t.Kind {
	case KVec:
		p := ""
		if t.Packed {
			p = "packed_"
		}
		return fmt.Sprintf("%s%s%d", p, mslTypeString(t.Elem), t.N)
	case KMat:
		return fmt.Sprintf("%s%dx%d", mslTypeString(t.Elem), t.Cols, t.Rows)
	case KArray:
		var dims []string
		e := t
		for e.Kind == KArray {
			if e.N < 0 {
				dims = append(dims, "[1]") // the Metal idiom for a runtime-sized array
			} else {
				dims = append(dims, fmt.Sprintf("[%d]", e.N))
			}
			e = e.Elem
		}
		return mslTypeString(e) + strings.Join(dims, "")
	case KPtr:
		return t.Space + " " + mslTypeString(t.Elem) + "*"
	}
	return t.String()
}

type mslPtrKey struct {
	elem  *Type
	space string
}

// ---------------------------------------------------------------------------
// Size and alignment: Metal Shading Language Specification §2.1 Table 2.1
// (scalars), §2.2 Table 2.3 "Size and alignment of vector data types" (a
// 3-component vector has the size and alignment of the 4-component one),
// §2.2.3 Table 2.4 "packed vector data types" (size N*sizeof(T), alignment of
// T), §2.3 Table 2.5 "matrix data types" (a CxR matrix is C column vectors of
// R components: float2x3 = 32/16, float3x3 = 48/16, float2x2 = 16/8 ...).
// Arrays and structures follow C++ (ISO C++14 [dcl.array], [class.mem]):
// members in declaration order, each at the next multiple of its alignment;
// sizeof rounded up to the largest member alignment; an empty class has size 1.
// ---------------------------------------------------------------------------

// LayoutMetal is the LayoutKind of the C++ / Metal object layout.
const LayoutMetal LayoutKind = 2

func mslScalarSize(t *Type) int {
	if t.Kind == KBool {
		return 1
	}
	return leafSize(t)
}

func (lc layoutCache) mslLayoutOf(t *Type) *TypeLayout {
	key := layoutKey{t, LayoutMetal, false}
	if l, ok := lc[key]; ok {
		return l
	}
	l := &TypeLayout{T: t}
	switch t.Kind {
	case KBool, KInt, KUint, KFloat:
		l.Size = mslScalarSize(t)
		l.Align = l.Size
	case KVec:
		es := mslScalarSize(t.Elem)
		if t.Packed {
			l.Size = t.N * es
			l.Align = es
		} else {
			n := t.N
			if n == 3 {
				n = 4
			}
			l.Size = n * es
			l.Align = l.Size
		}
	case KMat:
		col := lc.mslLayoutOf(vecOf(t.Elem, t.Rows))
		l.Stride = col.Size
		l.Size = col.Size * t.Cols
		l.Align = col.Align
	case KArray:
		el := lc.mslLayoutOf(t.Elem)
		l.Elem = el
		l.Align = el.Align
		l.Stride = roundUp(el.Size, el.Align)
		if t.N > 0 {
			l.Size = l.Stride * t.N
		} else {
			// `typedef T name[1]`: the C++ object has one element; the
			// interpreter lets the index run to the end of the bound buffer
			l.Size = l.Stride
		}
	case KStruct:
		off, a := 0, 1
		for _, f := range t.Struct.Fields {
			fl := lc.mslLayoutOf(f.T)
			off = roundUp(off, fl.Align)
			l.Fields = append(l.Fields, FieldLayout{Off: off, L: fl})
			off += fl.Size
			if fl.Align > a {
				a = fl.Align
			}
		}
		if off == 0 {
			off = 1
		}
		l.Align = a
		l.Size = roundUp(off, a)
	default:
		l.Size, l.Align = 0, 1
	}
	lc[key] = l
	return l
}
